#!/usr/bin/env python3
"""Re-apply every seeded defect under seeded/ to the repository (temporarily), run the checks named in its meta.json
`caught_by` for several harness seeds, and report how often each is caught.  The repository is restored after every seed.
Usage (from the verif root): tools/seed_regression.py [ids...]   env: VERIF_REPO (default /repo), REG_SEEDS (default "0 1 2").
Meant to run on a snapshot:  vp run --with-repo -- sh -c 'export VERIF_REPO=$VP_RUN_REPO; ./check --setup && tools/seed_regression.py'"""
import glob, json, os, re, subprocess, sys
V = os.path.dirname(os.path.dirname(os.path.abspath(__file__)))
REPO = os.environ.get("VERIF_REPO", "/repo")
SEEDS = os.environ.get("REG_SEEDS", "0 1 2").split()
only = set(sys.argv[1:])
rows = []
for d in sorted(glob.glob(f"{V}/seeded/*/")):
    sid = os.path.basename(d.rstrip("/"))
    if only and sid not in only:
        continue
    if not os.path.exists(d + "meta.json"):
        continue                      # seeded/benign, seeded/mutation: not seeded defects
    meta = json.load(open(d + "meta.json"))
    cb = meta.get("caught_by", "")
    cb = " ".join(map(str, cb)) if isinstance(cb, list) else str(cb)
    checks = sorted(set(re.findall(r"\bC\d\d\b", cb))) or [sid.split("-")[0]]
    subprocess.run(["git", "-C", REPO, "checkout", "--", "."], check=True)
    ap = subprocess.run(["git", "-C", REPO, "apply", d + "patch.diff"], capture_output=True, text=True)
    if ap.returncode != 0:
        rows.append((sid, "patch does not apply to the current tree (a later repair touched the same lines)", ""))
        print(rows[-1], flush=True)
        continue
    demo = subprocess.run(["/venv/bin/python", d + "demo.py"], capture_output=True, text=True, cwd=REPO, env=dict(os.environ, PYTHONPATH=REPO))
    # older demos exit non-zero when the property is violated; the demos of rounds 6+ print PROPERTY HOLDS / PROPERTY VIOLATED and exit 0
    demo_fails = demo.returncode != 0 or "PROPERTY VIOLATED" in demo.stdout
    res = {}
    try:
        for c in checks:
            hits = []
            for s in SEEDS:
                out = subprocess.run([f"{V}/check", c], capture_output=True, text=True, cwd=V, env=dict(os.environ, VERIF_SEED=s, VERIF_REPO=REPO)).stdout
                concrete = any(l.startswith("VIOLATION") and "no-failing-input-found" not in l for l in out.splitlines())
                weak = any(l.startswith("VIOLATION") for l in out.splitlines())
                hits.append("C" if concrete else ("o" if weak else "-"))
            res[c] = "".join(hits)
    finally:
        subprocess.run(["git", "-C", REPO, "checkout", "--", "."], check=True)
    n_c = max((v.count("C") for v in res.values()), default=0)
    status = f"caught {n_c}/{len(SEEDS)} (best check)" if demo_fails else "demo passes on the current tree: neutralised by a later repair"
    rows.append((sid, status, " ".join(f"{k}:{v}" for k, v in res.items())))
    print(rows[-1], flush=True)
    for f in glob.glob(f"{V}/replays/*.json"):
        os.remove(f)
with open(f"{V}/seeded/REGRESSION.md", "w") as f:
    f.write("# Seeded-defect regression (tools/seed_regression.py)\n\nPer check and harness seed (" + " ".join(SEEDS) +
            "): C = violation with a concrete replay, o = broken obligation only (no-failing-input-found), - = not reported.\n\n| seed | result | per check |\n|---|---|---|\n")
    for r in rows:
        f.write(f"| {r[0]} | {r[1]} | {r[2]} |\n")
print("done")
