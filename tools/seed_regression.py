#!/usr/bin/env python3
"""Re-apply every seeded defect under /verif/seeded to /repo (temporarily), run the checks named in its meta.json
`caught_by`, and report which still catch it.  /repo is restored after every seed.  Usage: tools/seed_regression.py [ids...]"""
import glob, json, os, re, subprocess, sys
V = "/verif"
seeds = sorted(glob.glob(f"{V}/seeded/*/"))
only = set(sys.argv[1:])
rows = []
for d in seeds:
    sid = os.path.basename(d.rstrip("/"))
    if only and sid not in only:
        continue
    meta = json.load(open(d + "meta.json"))
    checks = sorted(set(re.findall(r"\bC\d\d\b", meta.get("caught_by", "")))) or [sid.split("-")[0]]
    subprocess.run(["git", "-C", "/repo", "checkout", "--", "."], check=True)
    ap = subprocess.run(["git", "-C", "/repo", "apply", d + "patch.diff"], capture_output=True, text=True)
    if ap.returncode != 0:
        rows.append((sid, "PATCH-DOES-NOT-APPLY", ap.stderr.strip().splitlines()[-1][:100] if ap.stderr else ""))
        continue
    res = {}
    try:
        for c in checks:
            out = subprocess.run([f"{V}/check", c], capture_output=True, text=True, cwd=V).stdout
            concrete = any(l.startswith("VIOLATION") and "no-failing-input-found" not in l for l in out.splitlines())
            weak = any(l.startswith("VIOLATION") for l in out.splitlines())
            res[c] = "concrete" if concrete else ("obligation-only" if weak else "MISSED")
    finally:
        subprocess.run(["git", "-C", "/repo", "checkout", "--", "."], check=True)
    best = "concrete" if "concrete" in res.values() else ("obligation-only" if "obligation-only" in res.values() else "MISSED")
    rows.append((sid, best, " ".join(f"{k}:{v}" for k, v in res.items())))
    print(rows[-1], flush=True)
    for f in glob.glob(f"{V}/replays/*.json"):
        os.remove(f)
with open(f"{V}/seeded/REGRESSION.md", "w") as f:
    f.write("# Seeded-defect regression (tools/seed_regression.py)\n\n| seed | result | per check |\n|---|---|---|\n")
    for r in rows:
        f.write(f"| {r[0]} | {r[1]} | {r[2]} |\n")
print("summary:", {k: sum(1 for r in rows if r[1] == k) for k in {r[1] for r in rows}})
