#!/usr/bin/env python3
"""Mutation sweep: small syntactic mutants of the functions the properties are anchored in; a mutant that still passes the
baseline tests is run against the quick checks of the properties anchored in that function.  Survivors (tests pass, no check
raises an alarm) are either equivalent mutants or holes in the generators / oracles - they are listed for triage.
Usage: tools/mutation_sweep.py [--props C01,C02,...] [--max N] [--per-fn K] [--seed S]    env: VERIF_REPO (a scratch copy!)
Meant to run on a snapshot:
  vp run --with-repo -- sh -c 'export VERIF_REPO=$VP_RUN_REPO; ./check --setup >setup.log 2>&1; tools/mutation_sweep.py --props C01,C03'"""
import ast, copy, json, os, random, subprocess, sys, time

V = os.path.dirname(os.path.dirname(os.path.abspath(__file__)))
REPO = os.environ.get("VERIF_REPO", "/repo")
args = sys.argv[1:]


def opt(name, default):
    return args[args.index(name) + 1] if name in args else default


PROPS = opt("--props", "").split(",") if opt("--props", "") else None
MAXN = int(opt("--max", "120"))
PERFN = int(opt("--per-fn", "6"))
SEED = int(opt("--seed", "0"))
OUT = opt("--out", f"{V}/seeded/mutation_report_{'_'.join(PROPS) if PROPS else 'all'}.jsonl")
rng = random.Random(SEED)
pinned = json.load(open(f"{V}/anchors.pinned.json"))
fn2props = {}
for pid, d in pinned.items():
    if pid.startswith("_") or (PROPS and pid not in PROPS):
        continue
    for key in d["functions"]:
        fn2props.setdefault(key, []).append(pid)

CMP = {ast.Eq: ast.NotEq, ast.NotEq: ast.Eq, ast.Lt: ast.LtE, ast.LtE: ast.Lt, ast.Gt: ast.GtE, ast.GtE: ast.Gt,
       ast.In: ast.NotIn, ast.NotIn: ast.In, ast.Is: ast.IsNot, ast.IsNot: ast.Is}
BIN = {ast.Add: ast.Sub, ast.Sub: ast.Add, ast.Mult: ast.Div, ast.Div: ast.Mult}


def sites(fn):
    """list of (description, mutate(node_copy_root) -> None) closures identified by a walk index"""
    out = []
    nodes = list(ast.walk(fn))
    # type annotations are not behaviour
    skip = set()
    for f in ast.walk(fn):
        anns = []
        if isinstance(f, (ast.FunctionDef, ast.AsyncFunctionDef)):
            anns = [a.annotation for a in f.args.args + f.args.kwonlyargs + f.args.posonlyargs if a.annotation is not None] + ([f.returns] if f.returns is not None else [])
        elif isinstance(f, ast.AnnAssign):
            anns = [f.annotation]
        for a in anns:
            skip.update(id(x) for x in ast.walk(a))
    for k, n in enumerate(nodes):
        if id(n) in skip:
            continue
        if isinstance(n, ast.Compare) and len(n.ops) == 1 and type(n.ops[0]) in CMP:
            out.append((k, "cmp", f"{type(n.ops[0]).__name__}->{CMP[type(n.ops[0])].__name__}"))
        elif isinstance(n, ast.BoolOp):
            out.append((k, "bool", "and<->or"))
        elif isinstance(n, ast.BinOp) and type(n.op) in BIN and not isinstance(n.left, (ast.Constant, ast.JoinedStr)) or \
                (isinstance(n, ast.BinOp) and type(n.op) in BIN and isinstance(n.left, ast.Constant) and not isinstance(n.left.value, str)):
            out.append((k, "bin", f"{type(n.op).__name__}->{BIN[type(n.op)].__name__}"))
        elif isinstance(n, ast.If):
            out.append((k, "negif", "negate the condition"))
        elif isinstance(n, ast.Constant) and isinstance(n.value, int) and not isinstance(n.value, bool) and abs(n.value) <= 3:
            out.append((k, "int", f"{n.value}->{n.value + 1}"))
        elif isinstance(n, ast.Constant) and isinstance(n.value, bool):
            out.append((k, "boolc", f"{n.value}->{not n.value}"))
        elif isinstance(n, ast.Subscript) and isinstance(n.slice, ast.Tuple) and len(n.slice.elts) >= 2 and \
                ast.dump(n.slice.elts[-1]) != ast.dump(n.slice.elts[-2]):
            out.append((k, "swapidx", "swap the last two indices"))
        elif isinstance(n, ast.Call) and len(n.args) == 2 and not n.keywords and ast.dump(n.args[0]) != ast.dump(n.args[1]) and \
                isinstance(n.func, ast.Attribute) and n.func.attr in ("matmul", "dot", "connect", "join", "intermediate", "zip"):
            out.append((k, "swapargs", f"swap the arguments of {n.func.attr}"))
        elif isinstance(n, ast.Expr) and isinstance(n.value, ast.Call) and isinstance(n.value.func, ast.Attribute) and \
                n.value.func.attr in ("append", "remove", "pop", "update", "reset", "clear", "add_pin", "add_conn", "extend", "insert"):
            out.append((k, "delcall", f"delete the call .{n.value.func.attr}(...)"))
        elif isinstance(n, (ast.Break,)):
            out.append((k, "break", "break->continue"))
        elif isinstance(n, ast.UnaryOp) and isinstance(n.op, ast.Not):
            out.append((k, "not", "drop not"))
        elif isinstance(n, ast.UnaryOp) and isinstance(n.op, ast.USub):
            out.append((k, "neg", "drop unary minus"))
    return out


def apply_site(fn, site):
    k, kind, _ = site
    n = list(ast.walk(fn))[k]
    if kind == "cmp":
        n.ops = [CMP[type(n.ops[0])]()]
    elif kind == "bool":
        n.op = ast.Or() if isinstance(n.op, ast.And) else ast.And()
    elif kind == "bin":
        n.op = BIN[type(n.op)]()
    elif kind == "negif":
        n.test = ast.UnaryOp(op=ast.Not(), operand=n.test)
    elif kind == "int":
        n.value = n.value + 1
    elif kind == "boolc":
        n.value = not n.value
    elif kind == "swapidx":
        n.slice.elts[-1], n.slice.elts[-2] = n.slice.elts[-2], n.slice.elts[-1]
    elif kind == "swapargs":
        n.args = [n.args[1], n.args[0]]
    elif kind == "delcall":
        n.value = ast.Constant(value=None)
    elif kind == "break":
        # replace in parent is awkward; emulate by turning the node into Continue in place
        n.__class__ = ast.Continue
    elif kind in ("not", "neg"):
        # replace UnaryOp by its operand: copy fields
        op = n.operand
        n.__class__ = op.__class__
        n.__dict__.clear()
        n.__dict__.update(op.__dict__)


def sh(cmd, **kw):
    return subprocess.run(cmd, capture_output=True, text=True, **kw)


def main():
    todo = []
    for key, props in sorted(fn2props.items()):
        f, q = key.split("::")
        src = open(f"{REPO}/{f}").read()
        tree = ast.parse(src)
        import importlib
        sys.path.insert(0, V + "/harness")
        os.environ.setdefault("VERIF_REPO", REPO)
        import anchors
        fns = anchors.functions(tree)
        if q not in fns:
            continue
        ss = sites(fns[q])
        rng.shuffle(ss)
        for s in ss[:PERFN]:
            todo.append((f, q, s, props))
    rng.shuffle(todo)
    todo = todo[:MAXN]
    print(f"{len(todo)} mutants over {len(fn2props)} anchored functions", flush=True)
    res = open(OUT, "a")
    for i, (f, q, site, props) in enumerate(todo):
        path = f"{REPO}/{f}"
        orig = open(path).read()
        tree = ast.parse(orig)
        sys.path.insert(0, V + "/harness")
        import anchors
        fn = anchors.functions(tree)[q]
        before = ast.unparse(fn)
        try:
            apply_site(fn, site)
            ast.fix_missing_locations(tree)
            after = ast.unparse(fn)
        except Exception as e:  # noqa
            continue
        if after == before:
            continue
        # splice the mutated function text into the original file (keeps the rest byte-identical)
        lines = orig.splitlines(keepends=True)
        orig_fn = anchors.functions(ast.parse(orig))[q]
        indent = " " * orig_fn.col_offset
        new_src = "".join(lines[:orig_fn.lineno - 1 - len(orig_fn.decorator_list)]) + \
            "".join(indent + l + "\n" for l in after.splitlines()) + "".join(lines[orig_fn.end_lineno:])
        rec = {"file": f, "function": q, "kind": site[1], "what": site[2], "props": props}
        import difflib
        rec["diff"] = [l for l in difflib.unified_diff(before.splitlines(), after.splitlines(), lineterm="", n=0) if l[:1] in "+-" and l[:3] not in ("+++", "---")][:6]
        try:
            open(path, "w").write(new_src)
            t = sh(["/venv/bin/python", "-m", "pytest", "-q", "-x", "-p", "no:cacheprovider", "--timeout=300", "pytest"], cwd=REPO,
                   env=dict(os.environ, PYTHONPATH=REPO))
            if t.returncode != 0:
                rec["outcome"] = "killed-by-tests"
            else:
                hits = {}
                for c in props:
                    p = sh([f"{V}/check", c], cwd=V, env=dict(os.environ, VERIF_SEED="0", VERIF_REPO=REPO))
                    v = [l for l in p.stdout.splitlines() if l.startswith("VIOLATION")]
                    hits[c] = ("C" if any("no-failing-input-found" not in l for l in v) else "o") if v else ("-" if p.returncode == 0 else f"rc{p.returncode}")
                rec["checks"] = hits
                rec["outcome"] = "caught" if any(h in ("C", "o") for h in hits.values()) else "SURVIVED"
        finally:
            open(path, "w").write(orig)
            for r in os.listdir(f"{V}/replays") if os.path.isdir(f"{V}/replays") else []:
                os.remove(f"{V}/replays/{r}")
        res.write(json.dumps(rec) + "\n")
        res.flush()
        print(i, rec["outcome"], f, q, site[1], site[2], rec.get("checks", ""), flush=True)
    print("done")


if __name__ == "__main__":
    main()
