import sys
pid=sys.argv[1]
prop=open(f"/tmp/prop_{pid}.txt").read()
print(f"""You are helping to test a verification setup by writing a *seeded defect* for the Python package `lekkersim` (a photonic circuit simulator: S-matrix composition). You work ONLY inside the scratch git worktree /tmp/wt_{pid} (a checkout of the package; source in /tmp/wt_{pid}/lekkersim, tests in /tmp/wt_{pid}/pytest). Do not read or touch /repo or /verif or any other directory besides /tmp/wt_{pid} and /tmp/seed_{pid}.

The property that must be BROKEN by your change:

{prop}

Task: make a small, realistic source change in /tmp/wt_{pid}/lekkersim (the kind of slip a maintainer could make in a refactor or an 'optimisation') such that
 1. the package still imports and the existing test suite still passes:  cd /tmp/wt_{pid} && /venv/bin/python -m pytest -q -p no:cacheprovider   (33 tests; python -m puts the worktree first on sys.path so the worktree's lekkersim is imported - verify with  cd /tmp/wt_{pid} && /venv/bin/python -c "import lekkersim; print(lekkersim.__file__)" );
 2. the property above is violated, but ONLY under something specific: an unusual input, a particular multi-step sequence of operations, a particular circuit topology / size / ordering, two sites that each look fine alone, etc. NOT something that ordinary use or a casual smoke test exposes at once (e.g. not 'every solve is wrong');
 3. you provide a demonstration script /tmp/seed_{pid}/demo.py (plain Python, run as  cd <checkout> && /venv/bin/python /tmp/seed_{pid}/demo.py ; it must import lekkersim from the current directory's checkout) that exits 0 / prints PASS on the unmodified checkout and exits 1 / prints FAIL with your change applied. The demo should check the property through the public API (e.g. compare against an independent numpy computation or against another way of building the same circuit).

Deliverables in /tmp/seed_{pid}/ :
  - patch.diff   : output of  cd /tmp/wt_{pid} && git diff   (only files under lekkersim/)
  - demo.py      : the demonstration
  - meta.json    : {{"property": "{pid}", "summary": "<what the change does>", "needs": "<what specific input/sequence is needed for it to manifest>", "ran": "<commands you ran and their results>"}}
Leave the change applied in the worktree when you finish. Verify yourself: tests pass with the change; demo fails with the change; `git apply -R patch.diff` -> demo passes -> `git apply patch.diff` (do NOT use git stash: it is shared between worktrees). Keep the change small (a few lines). Be creative and subtle: prefer defects that hide from random small examples (e.g. depend on a count threshold, an ordering coincidence, a tie, equal sizes, a specific pin position, a repeated call) over blatant ones. Report briefly what you did.""")
