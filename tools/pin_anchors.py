#!/usr/bin/env python3
"""Write anchors.pinned.json: per property, the functions its anchors name (the line ranges of properties.jsonl refer to the
base commit of the repository, BASE below; they are resolved to qualified function names there) and the hashes of those
functions and of the anchored files on the *current* tree of the repository.  Run after every commit to /repo."""
import ast, json, os, re, subprocess, sys
V = os.path.dirname(os.path.dirname(os.path.abspath(__file__)))
sys.path.insert(0, V + "/harness")
os.environ.setdefault("VERIF_REPO", "/repo")
import anchors  # noqa: E402
REPO = os.environ["VERIF_REPO"]
BASE = "029637b"
props = [json.loads(l) for l in open(V + "/properties.jsonl") if l.strip()]
out = {}
for p in props:
    a = p["anchors"]
    files = list(a.get("files", []))
    names = set()
    for entry in a.get("mechanism", []) + a.get("state", []):
        for m in re.finditer(r"(lekkersim/[\w/]+\.py):([\d,\-]+)", entry.get("where", "")):
            f = m.group(1)
            ranges = []
            for r in m.group(2).split(","):
                if not r:
                    continue
                lo, _, hi = r.partition("-")
                ranges.append((int(lo), int(hi or lo)))
            src = subprocess.run(["git", "-C", REPO, "show", f"{BASE}:{f}"], capture_output=True, text=True).stdout
            if not src:
                continue
            for q, node in anchors.functions(ast.parse(src)).items():
                lo, hi = node.lineno, node.end_lineno
                if any(not (b < lo or a_ > hi) for a_, b in ranges):
                    names.add(f"{f}::{q}")
            if f not in files:
                files.append(f)
    fh, gh = anchors.hashes_of(REPO, files)
    out[p["id"]] = {"files": {f: fh[f] for f in files}, "functions": {k: gh[k] for k in sorted(names) if k in gh}}
    print(p["id"], len(out[p["id"]]["functions"]), "functions,", len(files), "files")
head = subprocess.run(["git", "-C", REPO, "rev-parse", "--short", "HEAD"], capture_output=True, text=True).stdout.strip()
out["_pinned_at"] = head
json.dump(out, open(V + "/anchors.pinned.json", "w"), indent=1, sort_keys=True)
