#!/bin/bash
# usage: tools/try_seed.sh <PROP> <round> <check ids...>   (verifies a sub-agent's seed in its worktree, stores it, runs checks on /repo with the patch, undoes it)
P=$1; R=$2; shift 2
SD=/tmp/seed${R}_$P; WT=/tmp/wt${R}_$P
[ "$R" = "1" ] && SD=/tmp/seed_$P && WT=/tmp/wt_$P
cd $WT && /venv/bin/python -m pytest -q -p no:cacheprovider 2>&1 | tail -1
/venv/bin/python $SD/demo.py >/dev/null 2>&1; echo "$P demo with change: exit $?"
git apply -R $SD/patch.diff; /venv/bin/python $SD/demo.py >/dev/null 2>&1; echo "$P demo without: exit $?"
cd /verif; git -C /repo worktree remove --force $WT
D=seeded/$P-$R; [ "$R" = "1" ] && D=seeded/$P-1
mkdir -p $D && cp $SD/patch.diff $SD/demo.py $SD/meta.json $D/
git -C /repo apply $SD/patch.diff || exit 1
for c in "$@"; do ./check $c 2>&1 | grep "VIOLATION\|^\[C"; done
git -C /repo checkout -- .
for c in "$@"; do ./check $c >/dev/null 2>&1; done   # evidence files come from the clean tree again
/venv/bin/python - <<PY
import json,glob
for f in sorted(glob.glob('/verif/replays/*.json')):
    d=json.load(open(f)); print(f[-24:], d.get('signature'), '|', d.get('what','')[:170])
PY
rm -f /verif/replays/*.json
