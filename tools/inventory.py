#!/usr/bin/env python3
"""Prints the inventory table of DESIGN.md B.8 from obligations.json, the Lean tree and the seeded directories."""
import json, os, re, glob, subprocess
V = os.path.dirname(os.path.dirname(os.path.abspath(__file__)))
o = json.load(open(f"{V}/obligations.json"))
lean = f"{V}/lean/LekkerVerif"
def loc(pat):
    return sum(len(open(f).read().splitlines()) for f in glob.glob(pat, recursive=True) if "/Generated/" not in f)
print(f"Lean sources (without Generated/): {loc(lean + '/**/*.lean')} lines in {len([f for f in glob.glob(lean + '/**/*.lean', recursive=True) if '/Generated/' not in f])} files; "
      f"Core {loc(lean + '/Core/*.lean')}, Model {loc(lean + '/Model/*.lean')}, Proofs {loc(lean + '/Proofs/*.lean')}, Properties {loc(lean + '/Properties/*.lean')}.")
ops = sorted(set(re.findall(r'\| some "(\w+)" =>', open(f"{lean}/Model/Driver.lean").read())))
print(f"Driver ops ({len(ops)}): {', '.join(ops)}.\n")
print("| id | obligations | audited module (imports the earlier ones) | translators | seeds kept | benign rewrites |")
print("|----|-------------|-------------------------------------------|-------------|------------|-----------------|")
for pid in sorted(o):
    seeds = len(glob.glob(f"{V}/seeded/{pid}-*/patch.diff"))
    ben = len(glob.glob(f"{V}/seeded/benign/{pid}-*/patch.diff"))
    print(f"| {pid} | {len(o[pid]['theorems'])} | `{o[pid]['module'].split('.')[-1]}` | {', '.join(o[pid].get('generated') or []) or '-'} | {seeds} | {ben} |")
print(f"\nTotal obligations: {sum(len(v['theorems']) for v in o.values())}; seeds: {len(glob.glob(V + '/seeded/C*-*/patch.diff'))}; benign rewrites: {len(glob.glob(V + '/seeded/benign/*/patch.diff'))}.")
