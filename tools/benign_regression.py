#!/usr/bin/env python3
"""Apply every behaviour-preserving rewrite under seeded/benign/ to the repository (temporarily), confirm the baseline
tests still pass with it, run all twenty quick checks, and report every alarm (a VIOLATION line on a tree where the
property still holds is a false alarm; `o` = broken obligation / correspondence only, `C` = claimed concrete input).
The repository is restored after every patch.
Usage (from the verif root): tools/benign_regression.py [ids...]   env: VERIF_REPO (default /repo), REG_SEED (default 0), REG_PAR (4).
Meant to run on a snapshot:  vp run --with-repo -- sh -c 'export VERIF_REPO=$VP_RUN_REPO; ./check --setup && tools/benign_regression.py'"""
import glob, json, os, subprocess, sys
from concurrent.futures import ThreadPoolExecutor
V = os.path.dirname(os.path.dirname(os.path.abspath(__file__)))
REPO = os.environ.get("VERIF_REPO", "/repo")
SEED = os.environ.get("REG_SEED", "0")
PAR = int(os.environ.get("REG_PAR", "4"))
IDS = [f"C{k:02d}" for k in range(1, 21)]
only = set(sys.argv[1:])
rows = []


def run_check(c):
    p = subprocess.run([f"{V}/check", c], capture_output=True, text=True, cwd=V, env=dict(os.environ, VERIF_SEED=SEED, VERIF_REPO=REPO))
    lines = [l for l in p.stdout.splitlines() if l.startswith("VIOLATION")]
    if not lines:
        return c, ("-" if p.returncode == 0 else f"rc{p.returncode}"), ""
    concrete = any("no-failing-input-found" not in l for l in lines)
    why = ""
    for l in lines:
        path = l.split("replay=")[1].split()[0]
        try:
            d = json.load(open(path))
            why = (d.get("what") or "")[:160] + " | " + json.dumps(d.get("broken_obligations") or d.get("correspondence_disagreements") or d.get("signature"))[:400]
        except Exception as e:  # noqa
            why = str(e)
        break
    return c, ("C" if concrete else "o"), why


for d in sorted(glob.glob(f"{V}/seeded/benign/*/")):
    bid = os.path.basename(d.rstrip("/"))
    if only and bid not in only:
        continue
    subprocess.run(["git", "-C", REPO, "checkout", "--", "."], check=True)
    ap = subprocess.run(["git", "-C", REPO, "apply", d + "patch.diff"], capture_output=True, text=True)
    if ap.returncode != 0:
        rows.append((bid, "patch does not apply", {}))
        print(rows[-1], flush=True)
        continue
    try:
        t = subprocess.run(["/venv/bin/python", "-m", "pytest", "-q", "-p", "no:cacheprovider", "-x", "pytest"], capture_output=True, text=True, cwd=REPO,
                           env=dict(os.environ, PYTHONPATH=REPO))
        tests = "tests pass" if t.returncode == 0 else "TESTS FAIL"
        with ThreadPoolExecutor(PAR) as ex:
            res = list(ex.map(run_check, IDS))
    finally:
        subprocess.run(["git", "-C", REPO, "checkout", "--", "."], check=True)
    alarms = {c: (k, why) for c, k, why in res if k != "-"}
    rows.append((bid, tests, alarms))
    print(bid, tests, {c: k for c, (k, _) in alarms.items()} or "no alarm", flush=True)
    for c, (k, why) in alarms.items():
        print("    ", c, k, why, flush=True)
    for f in glob.glob(f"{V}/replays/*.json"):
        os.remove(f)
with open(f"{V}/seeded/benign/REGRESSION.md", "w") as f:
    f.write("# Behaviour-preserving rewrites (tools/benign_regression.py)\n\nAll twenty quick checks (harness seed " + SEED +
            ") on each rewrite: `-` no alarm; `o` = VIOLATION with no-failing-input-found (a proof obligation or the correspondence no longer "
            "checks and the search found nothing - expected to be rare for harmless rewrites); `C` = a concrete input was claimed (a false alarm).\n\n"
            "| rewrite | baseline tests | alarms |\n|---|---|---|\n")
    for bid, tests, alarms in rows:
        f.write(f"| {bid} | {tests} | {' '.join(f'{c}:{k}' for c, (k, _) in alarms.items()) or 'none'} |\n")
print("done")
