import LekkerVerif.Core.Basic
import LekkerVerif.Core.Bridge
import LekkerVerif.Core.Complete
import LekkerVerif.Core.GRatField
import LekkerVerif.Core.Sched
