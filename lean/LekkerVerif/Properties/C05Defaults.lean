import LekkerVerif.Properties.C05
import LekkerVerif.Proofs.Compose
import LekkerVerif.Proofs.HierParams

/-! # C05 (continued) — defaults registered at placement come back to the component they belong to

`Solver.add_structure` registers the placed component's defaults in the parent under the names by which they are
visible there; `Structure.update_params` later hands the parent's dictionary down through the same table.  The two
translations are inverse to each other on the component's own parameters: with no explicit value, the component gets
its own default back. -/

/-- name under which the child's parameter `k` is visible in the parent (placement table `m`: (new, old) pairs) -/
def visName (m : Table) (k : String) : String :=
  match m.find? (·.2 == k) with
  | some no => no.1
  | none => k

def isGeo (k : String) : Bool := k == "R" || k == "w" || k == "pol"

theorem registerDefaults_empty {V : Type} (m : Table) (child : Dict V) (y : String) :
    (registerDefaults m ⟨[]⟩ child).get? y =
      Dict.lastOf ((child.kv.filter fun kv => !(isGeo kv.1)).map fun kv => (visName m kv.1, kv.2)) y := by
  unfold registerDefaults
  rw [Dict.get?_overlay]
  have : (⟨[]⟩ : Dict V).get? y = none := rfl
  rw [this, Option.or_none]
  rfl

/-- the placement does not merge two of the child's parameters into one name: a new name that is itself a parameter
of the child is renamed away by the same table (C05's "injective renaming") -/
def NoMerge {V : Type} (m : Table) (child : Dict V) : Prop :=
  ∀ no ∈ m, no.1 ∈ child.keys → no.1 ∈ m.map (·.2)

theorem visName_inj {V : Type} (m : Table) (hold : (m.map (·.2)).Nodup) (hnew : (m.map (·.1)).Nodup) (child : Dict V)
    (hm : NoMerge m child) (k₁ k₂ : String) (h₁ : k₁ ∈ child.keys) (h₂ : k₂ ∈ child.keys)
    (h : visName m k₁ = visName m k₂) : k₁ = k₂ := by
  unfold visName at h
  cases f₁ : m.find? (·.2 == k₁) with
  | some n₁ =>
    obtain ⟨hn₁, e₁⟩ := (find?_old_iff m hold k₁ n₁).1 f₁
    cases f₂ : m.find? (·.2 == k₂) with
    | some n₂ =>
      obtain ⟨hn₂, e₂⟩ := (find?_old_iff m hold k₂ n₂).1 f₂
      rw [f₁, f₂] at h
      have : n₁ = n₂ := Flatten.inj_of_nodup_map (·.1) m hnew n₁ n₂ hn₁ hn₂ h
      rw [← e₁, ← e₂, this]
    | none =>
      rw [f₁, f₂] at h
      have h3 : n₁.1 ∈ child.keys := by rw [show n₁.1 = k₂ from h]; exact h₂
      obtain ⟨no, hno, hno2⟩ := List.mem_map.1 (hm n₁ hn₁ h3)
      rw [List.find?_eq_none] at f₂
      have hh : no.2 = k₂ := hno2.trans h
      exact absurd (by simpa using hh) (f₂ no hno)
  | none =>
    cases f₂ : m.find? (·.2 == k₂) with
    | some n₂ =>
      obtain ⟨hn₂, e₂⟩ := (find?_old_iff m hold k₂ n₂).1 f₂
      rw [f₁, f₂] at h
      have h3 : n₂.1 ∈ child.keys := by rw [show n₂.1 = k₁ from h.symm]; exact h₁
      obtain ⟨no, hno, hno2⟩ := List.mem_map.1 (hm n₂ hn₂ h3)
      rw [List.find?_eq_none] at f₁
      have hh : no.2 = k₁ := hno2.trans h.symm
      exact absurd (by simpa using hh) (f₁ no hno)
    | none => rw [f₁, f₂] at h; exact h

/-- looking a visible name up in the registered list finds the default of the parameter it stands for -/
theorem lastOf_registered {V : Type} (m : Table) (hold : (m.map (·.2)).Nodup) (hnew : (m.map (·.1)).Nodup) (child : Dict V)
    (hck : child.keys.Nodup) (hm : NoMerge m child) (x : String) (v : V) (hx : child.get? x = some v) (hg : isGeo x = false) :
    Dict.lastOf ((child.kv.filter fun kv => !(isGeo kv.1)).map fun kv => (visName m kv.1, kv.2)) (visName m x) = some v := by
  -- the registered list has distinct keys, so "last" is "first"
  have hsub : ∀ kv ∈ child.kv.filter (fun kv => !(isGeo kv.1)), kv.1 ∈ child.keys :=
    fun kv hkv => List.mem_map.2 ⟨kv, (List.mem_filter.1 hkv).1, rfl⟩
  have hfk : ((child.kv.filter fun kv => !(isGeo kv.1)).map (·.1)).Nodup := (List.filter_sublist.map _).nodup hck
  have hkeys : (((child.kv.filter fun kv => !(isGeo kv.1)).map fun kv => (visName m kv.1, kv.2)).map (·.1)).Nodup := by
    rw [List.map_map]
    have : ((fun kv : String × V => kv.1) ∘ fun kv : String × V => (visName m kv.1, kv.2)) = fun kv => visName m kv.1 := rfl
    rw [this]
    -- injective on the members
    generalize hL : child.kv.filter (fun kv => !(isGeo kv.1)) = L at hsub hfk
    clear hL
    induction L with
    | nil => simp
    | cons a t ih =>
      rw [List.map_cons, List.nodup_cons] at hfk
      rw [List.map_cons, List.nodup_cons]
      refine ⟨?_, ih (fun kv hkv => hsub kv (List.mem_cons_of_mem _ hkv)) hfk.2⟩
      intro hmem
      obtain ⟨b, hb, hbe⟩ := List.mem_map.1 hmem
      have := visName_inj m hold hnew child hm b.1 a.1 (hsub b (List.mem_cons_of_mem _ hb)) (hsub a List.mem_cons_self) hbe
      exact hfk.1 (List.mem_map.2 ⟨b, hb, this⟩)
  rw [Dict.lastOf_eq_get?_of_nodup _ hkeys]
  -- the entry of `x` is there
  unfold Dict.get? at hx ⊢
  cases hf : child.kv.find? (·.1 == x) with
  | none => rw [hf] at hx; cases hx
  | some e =>
    rw [hf] at hx
    have hv : e.2 = v := by simpa using hx
    have he := List.mem_of_find?_eq_some hf
    have hex : e.1 = x := by simpa using List.find?_some hf
    have hmemF : e ∈ child.kv.filter (fun kv => !(isGeo kv.1)) := List.mem_filter.2 ⟨he, by rw [hex, hg]; rfl⟩
    cases hf2 : ((child.kv.filter fun kv => !(isGeo kv.1)).map fun kv => (visName m kv.1, kv.2)).find? (·.1 == visName m x) with
    | none =>
      rw [List.find?_eq_none] at hf2
      exact absurd (by simp [hex]) (hf2 (visName m e.1, e.2) (List.mem_map.2 ⟨e, hmemF, rfl⟩))
    | some r =>
      have hr := List.mem_of_find?_eq_some hf2
      have hrk : r.1 = visName m x := by simpa using List.find?_some hf2
      obtain ⟨b, hb, rfl⟩ := List.mem_map.1 hr
      have hbx : b.1 = x := visName_inj m hold hnew child hm b.1 x (hsub b hb) (hex ▸ List.mem_map.2 ⟨e, he, rfl⟩) hrk
      -- the child has one entry per key
      have : b = e := by
        have hbm := (List.mem_filter.1 hb).1
        exact Flatten.inj_of_nodup_map (fun kv : String × V => kv.1) child.kv hck b e hbm he (hbx.trans hex.symm)
      simp [this, hv]

/-- **defaults round trip**: a component placed with an injective renaming `m` (distinct new names, distinct old names,
no merge with one of its own unrenamed parameters) registers its defaults in an (otherwise empty) parent; when the
parent then hands its dictionary down with no explicit value, every parameter of the component gets its own default back -/
theorem C05_defaults_roundtrip {V : Type} (m : Table) (hold : (m.map (·.2)).Nodup) (hnew : (m.map (·.1)).Nodup) (child : Dict V)
    (hck : child.keys.Nodup) (hm : NoMerge m child) (x : String) (v : V) (hx : child.get? x = some v) (hg : isGeo x = false) :
    (renameFixed m (registerDefaults m ⟨[]⟩ child)).get? x = some v := by
  rw [C05_rename_simultaneous m _ hold]
  have hxk : x ∈ child.keys := by
    unfold Dict.get? at hx
    cases hf : child.kv.find? (·.1 == x) with
    | none => rw [hf] at hx; cases hx
    | some e =>
      have he := List.mem_of_find?_eq_some hf
      have hex : e.1 = x := by simpa using List.find?_some hf
      exact hex ▸ List.mem_map.2 ⟨e, he, rfl⟩
  have key := lastOf_registered m hold hnew child hck hm x v hx hg
  unfold simul
  cases hf : m.find? (·.2 == x) with
  | some no =>
    simp only
    rw [registerDefaults_empty]
    have : visName m x = no.1 := by unfold visName; rw [hf]
    rw [← this]; exact key
  | none =>
    have hvis : visName m x = x := by unfold visName; rw [hf]
    have hnotnew : m.any (·.1 == x) = false := by
      rw [List.any_eq_false]
      intro no hno hb
      have hb' : no.1 = x := by simpa using hb
      obtain ⟨no', hno', e⟩ := List.mem_map.1 (hm no hno (hb' ▸ hxk))
      rw [List.find?_eq_none] at hf
      exact hf no' hno' (by simpa using e.trans hb')
    simp only [hnotnew, Bool.false_eq_true, ↓reduceIte]
    rw [registerDefaults_empty, ← hvis]
    rw [hvis] at key ⊢
    exact key

/-- non-vacuity: a swap of two parameters of a three-parameter component -/
example : (renameFixed [("A", "B"), ("B", "A")] (registerDefaults [("A", "B"), ("B", "A")] ⟨[]⟩ (⟨[("A", 1), ("B", 2), ("C", 3)]⟩ : Dict Nat))).kv
    = [("C", 3), ("B", 2), ("A", 1)] := by decide

/-- **the end-to-end model routes parameters by the any-depth rule**: in the composed model of `Solver.solve(**kw)` on a hierarchy
(`PNet.psolve`, the function the driver runs for `phsolve` and that is compared with the code on every parametric hierarchy), the
dictionary that reaches the object at the end of any path of placements, resolved there against that object's defaults, is
`descend` - the function `C05_precedence_any_depth` characterises - of the root's resolved dictionary along the rename tables
and registered defaults of the path -/
theorem C05_composed_model_routes_by_descend {F : Type} (path : List Nat) (t : PNet F) (kw e : Dict F)
    (h : PNet.dictAt kw t path = some e) :
    ∃ levels o, PNet.pathLevels t path = some (levels, o) ∧
      PNet.resolve o e = descend (PNet.resolve t kw) levels :=
  PNet.dictAt_descend path t kw e h
