import LekkerVerif.Properties.C01
import LekkerVerif.Core.WFCheckSpec

/-! # C01 (continued) — the hypotheses are checked on every circuit the driver solves

`NetD.wfB`, `idxB`, `exposureB` (Core/WFCheck.lean) are executable and equivalent to `NetD.WF`, `IdxWF`, `ExposureOK`
(Core/WFCheckSpec.lean).  The driver evaluates them on every circuit it is asked to solve and the harness counts the outcomes
in the evidence (`hyp:elimination-theorems-apply` / `hyp:outside:…`), so each run states on how many of its generated circuits
the two theorems below applied as they stand. -/

open NetD Solve

variable {F : Type} [Field F] [DecidableEq F]

/-- the checkers decide the hypotheses -/
theorem C01_checkers_decide (net : NetD F) :
    (net.wfB = true ↔ net.WF) ∧ (net.idxB = true ↔ net.IdxWF) ∧ (net.exposureB = true ↔ net.ExposureOK) :=
  ⟨NetD.wfB_iff net, NetD.idxB_iff net, NetD.exposureB_iff net⟩

/-- on a circuit that passes the checks, whatever `solve` returns is the solution operator of the network equations, and with a
valid schedule the only possible failure is a singular inner system -/
theorem C01_checked (net : NetD F) (hwf : net.wfB = true) (hidx : net.idxB = true) (hex : net.exposureB = true)
    (hne : net.comps ≠ []) (sched) :
    (∀ total, net.solveWith sched = .ok total → net.SolvedBy total.sem) ∧
    (Solve.ValidSched sched → (∃ total, net.solveWith sched = .ok total) ∨ net.solveWith sched = .error .singular) :=
  ⟨fun total h => NetD.checked_solve net sched total hwf hex h,
   fun hv => NetD.checked_defined net sched hwf hidx hne hv⟩
