import LekkerVerif.Properties.C19
import LekkerVerif.Core.HierPruneSpec
import LekkerVerif.Core.HierPruneRec

/-! # C19 (continued) — removing children that present no pins does not change what a level solves to

`HNet.pruneLevel` (Core/HierPrune.lean) drops, on one level, every child that presents no pin name to its parent (a model
without pins, a sub-solver that exposes nothing) and re-addresses links and exposures; it is `HNet.subLevel` on the set of
the other children, which no link leaves (a pin-less child cannot be the end of a link of a well-formed level).  Which branches
are dead, recursively, and that exactly those go, is the business of the `Prune` model above; this file adds the matrix side
for the executable hierarchy: what survives solves to the same component. -/

open NetD Solve

variable {F : Type} [Field F] [DecidableEq F]

/-- **the matrix is unchanged**: the pruned level exposes the same names and carries the same coefficients, with any schedules -/
theorem C19_prune_preserves_matrix (s s' : List (St F) → Option (Nat × Nat)) (h : HNet F) (w : HNet.WFTree h)
    (c c' : CompD F) (hs : HNet.solveH s h = .ok c) (hs' : HNet.solveH s' h.pruneLevel = .ok c') :
    c'.pins = c.pins ∧ ∀ x ∈ c.pins, ∀ y ∈ c.pins, c'.sem x y = c.sem x y :=
  HNet.prune_preserves s s' h w c c' hs hs'

/-- exactly the pin-less children go, the others stay in order; the result is well formed; pruning twice is pruning once -/
theorem C19_prune_level_exact (cs : List (HNet F)) (links : List (PinRef × PinRef)) (exposed : List (String × PinRef)) :
    ∃ links' exposed', HNet.pruneLevel (.node cs links exposed) = .node (cs.filter fun h => !h.isDead) links' exposed' :=
  ⟨_, _, HNet.pruneLevel_node cs links exposed⟩

theorem C19_prune_level_wellformed (h : HNet F) (w : HNet.WFTree h) : HNet.WFTree h.pruneLevel :=
  HNet.WFTree.pruneLevel w

theorem C19_prune_level_idempotent (h : HNet F) (w : HNet.WFTree h) :
    HNet.pruneLevel (HNet.pruneLevel h) = HNet.pruneLevel h :=
  HNet.pruneLevel_idem w

/-- the same for any set of children that no link leaves (the general form behind split and prune) -/
theorem C19_closed_subset_behaves (s s' : List (St F) → Option (Nat × Nat)) (cs : List (HNet F))
    (links : List (PinRef × PinRef)) (exposed : List (String × PinRef)) (w : HNet.WFTree (.node cs links exposed))
    (c : CompD F) (hs : HNet.solveH s (.node cs links exposed) = .ok c) (g : List Nat)
    (hclosed : ∀ l ∈ links, l.1.1 < cs.length → l.2.1 < cs.length → (l.1.1 ∈ g ↔ l.2.1 ∈ g))
    (c' : CompD F) (hs' : HNet.solveH s' (HNet.subLevel cs links exposed g) = .ok c') :
    (∀ x ∈ c'.pins, x ∈ c.pins) ∧ ∀ x ∈ c'.pins, ∀ y ∈ c'.pins, c'.sem x y = c.sem x y :=
  HNet.subLevel_behaves_of_closed s s' cs links exposed w c hs g hclosed c' hs'

/-! ### the criterion of `Solver.prune()` itself (Core/HierPruneRec.lean)

The code removes a component whose model has no pins and a sub-solver whose own `prune()` returned `True` (everything under
it went, all the way down) — `HNet.emptyRec`.  Whatever it removes presents no pin to its parent, at any depth; so no link
leaves the set of children it keeps, and the level it keeps returns the coefficients of the level. -/

/-- what `prune()` removes presents no pin to its parent (any depth, any branching) -/
theorem C19_removed_presents_no_pin {F : Type} (h : HNet F) (w : HNet.WFTree h) (he : h.emptyRec = true) :
    h.pinNames = [] :=
  (HNet.isDead_iff h).1 (HNet.emptyRec_isDead w he)

/-- every child that presents a pin survives `prune()`; no link of the level leaves the kept set -/
theorem C19_kept_set_closed {F : Type} (cs : List (HNet F)) (links : List (PinRef × PinRef)) (exposed : List (String × PinRef))
    (w : HNet.WFTree (.node cs links exposed)) :
    (∀ i ∈ HNet.liveSet cs, i ∈ HNet.keepSet cs) ∧ ∀ l ∈ links, (l.1.1 ∈ HNet.keepSet cs ↔ l.2.1 ∈ HNet.keepSet cs) := by
  cases w with
  | node _ _ _ hch lev => exact ⟨HNet.liveSet_sub_keepSet hch, HNet.keepSet_closed hch lev⟩

/-- **the level `prune()` keeps behaves as the level** (any schedules) -/
theorem C19_kept_level_behaves (s s' : List (St F) → Option (Nat × Nat)) (cs : List (HNet F))
    (links : List (PinRef × PinRef)) (exposed : List (String × PinRef)) (w : HNet.WFTree (.node cs links exposed))
    (c c' : CompD F) (hs : HNet.solveH s (.node cs links exposed) = .ok c)
    (hs' : HNet.solveH s' (HNet.keepLevel (.node cs links exposed)) = .ok c') :
    c'.pins = c.pins ∧ ∀ x ∈ c.pins, ∀ y ∈ c.pins, c'.sem x y = c.sem x y :=
  HNet.keep_preserves s s' cs links exposed w c c' hs hs'
