import Mathlib.Analysis.CStarAlgebra.Matrix
import Mathlib.Analysis.SpecificLimits.Normed
import LekkerVerif.Properties.C08
import LekkerVerif.Properties.C02Hier
import LekkerVerif.Core.Contractive

/-! # C20 — accuracy and success do not degrade with circuit size or depth

What a theorem can say: exact, size-generic facts about the composition — the closed form of a cascade of any
length, boundedness of every intermediate composite for passive parts, definedness of every merge for strictly
passive parts - lifted to the whole elimination: a network of strictly passive parts of *any size* solves, with any valid
schedule, and the result is again strictly passive; a hierarchy of *any depth* solves to the operator of the flat circuit.  Floating-point accuracy at scale, recursion limits and run time are measured by the harness
(cascades of 2000, meshes, resonant chains, 60-level nests) and labelled as tests. -/

open Matrix

section cascade
variable {F : Type*} [Field F]

/-- a reflection-free two-port with forward transmission `t` and backward transmission `t'` -/
def thru (t t' : F) : SM F (Fin 1) (Fin 1) :=
  { S11 := Matrix.of fun _ _ => t, S22 := Matrix.of fun _ _ => t', S12 := 0, S21 := 0 }

theorem thru_add (a a' b b' : F) : Generated.add (thru a a') (thru b b') = thru (b * a) (a' * b') := by
  rw [Generated.add_eq]
  unfold SM.add thru
  simp only [Matrix.zero_mul, Matrix.mul_zero, sub_zero, inv_one, Matrix.mul_one, add_zero, zero_add]
  congr 1 <;> ext i j <;> simp [Matrix.mul_apply]

/-- cascade of a list of reflection-free two-ports, merged one by one -/
noncomputable def cascade (ts : List (F × F)) : SM F (Fin 1) (Fin 1) :=
  ts.foldl (fun acc t => Generated.add acc (thru t.1 t.2)) (thru 1 1)

theorem cascade_eq_aux (ts : List (F × F)) (a a' : F) :
    ts.foldl (fun acc t => Generated.add acc (thru t.1 t.2)) (thru a a')
      = thru ((ts.map (·.1)).prod * a) (a' * (ts.map (·.2)).prod) := by
  induction ts generalizing a a' with
  | nil => simp
  | cons t ts ih =>
    simp only [List.foldl, thru_add, ih, List.map_cons, List.prod_cons]
    congr 1 <;> ring

/-- **closed form for every length**: the cascade of `n` reflection-free two-ports is the reflection-free two-port
whose transmissions are the products — by induction on `n`, no bound on the size -/
theorem C20_cascade (ts : List (F × F)) :
    cascade ts = thru (ts.map (·.1)).prod (ts.map (·.2)).prod := by
  unfold cascade
  rw [cascade_eq_aux]
  simp

end cascade

section bounded
variable {F : Type*} [Field F]
variable {n k m : Type*} [Fintype n] [Fintype k] [Fintype m] [DecidableEq n] [DecidableEq k] [DecidableEq m]

/-- **boundedness**: merging passive parts gives a passive composite, whatever the size of the circuit so far — every
intermediate matrix of the elimination stays a contraction (no growth to overflow as in transfer-matrix recursions) -/
theorem C20_bounded {R : Type*} [AddCommGroup R] [PartialOrder R] [IsOrderedAddMonoid R]
    (A : SM F n k) (B : SM F k m) (h : IsUnit (1 - A.S12 * B.S21))
    (pn : (n → F) → R) (pk : (k → F) → R) (pm : (m → F) → R)
    (hA : A.PassiveWrt pn pk) (hB : B.PassiveWrt pk pm) : (Generated.add A B).PassiveWrt pn pm :=
  C08_star_passive A B h pn pk pm hA hB

end bounded

section defined
open scoped Matrix.Norms.L2Operator
variable {k : Type*} [Fintype k] [DecidableEq k]

/-- **definedness**: if the reflection blocks facing each other are strict contractions (strictly passive parts), the
inner system of the merge is invertible — the merge cannot fail, at any size -/
theorem C20_defined (X Y : Matrix k k ℂ) (hX : ‖X‖ ≤ 1) (hY : ‖Y‖ < 1) : IsUnit (1 - X * Y) := by
  apply isUnit_one_sub_of_norm_lt_one
  calc ‖X * Y‖ ≤ ‖X‖ * ‖Y‖ := norm_mul_le X Y
    _ ≤ 1 * ‖Y‖ := by gcongr
    _ < 1 := by simpa using hY

end defined

section any_size
open NetD Solve

/-- **success at every size**: a well-formed, non-empty network over `ℂ` all of whose components are strictly passive
(outgoing power `≤ c ·` incoming power with `0 ≤ c < 1`: lossy parts) *always* solves - whatever the number of components,
the wiring (feedback loops included) and the valid merge schedule; no merge can meet a singular inner system, and every
intermediate composite, and the result, is again `c`-contractive (nothing grows along the elimination) -/
theorem C20_strictly_passive_network_solves (net : NetD ℂ) (wf : net.WF) (hidx : net.IdxWF) (hne : net.comps ≠ [])
    (c : ℝ) (h0 : 0 ≤ c) (hc : c < 1) (hpass : ∀ s ∈ net.initial, Contr c s)
    (sched) (hv : Solve.ValidSched sched) :
    ∃ total, net.solveWith sched = .ok total ∧ Contr c total :=
  NetD.solveWith_ok_of_strictly_passive' net wf hidx hne c h0 hc hpass sched hv

/-- … in particular with the pin-count heuristic of `Solver.solve` -/
theorem C20_strictly_passive_network_solves_heuristic (net : NetD ℂ) (wf : net.WF) (hidx : net.IdxWF)
    (hne : net.comps ≠ []) (c : ℝ) (h0 : 0 ≤ c) (hc : c < 1) (hpass : ∀ s ∈ net.initial, Contr c s) :
    ∃ total, net.solveWith Solve.pySched = .ok total ∧ Contr c total :=
  NetD.solveWith_pySched_ok_of_strictly_passive net wf hidx hne c h0 hc hpass

/-- one merge of two strictly passive composites: defined, and strictly passive with the same factor -/
theorem C20_strictly_passive_merge (c : ℝ) (h0 : 0 ≤ c) (hc : c < 1) {n k m : Type*} [Fintype n] [Fintype k] [Fintype m]
    [DecidableEq n] [DecidableEq k] [DecidableEq m] (A : SM ℂ n k) (B : SM ℂ k m)
    (hA : A.ContrWrt c epow epow) (hB : B.ContrWrt c epow epow) :
    IsUnit (1 - A.S12 * B.S21) ∧ (Generated.add A B).ContrWrt c epow epow := by
  have hu := isUnit_of_contractive_complex c h0 hc A B hA hB
  refine ⟨hu, ?_⟩
  rw [Generated.add_eq]
  exact star_contractive_complex c (le_of_lt hc) A B hu hA hB

/-- **every depth**: the recursive solve of a well-formed hierarchy of any depth, when it returns, carries the solution
operator of the flat circuit (C02_hier_exec_sound; induction over the tree, no bound on the nesting) -/
theorem C20_any_depth {F : Type} [Field F] [DecidableEq F] (sched : List (St F) → Option (Nat × Nat)) (h : HNet F)
    (w : HNet.WFTree h) (c : CompD F) (hs : HNet.solveH sched h = .ok c) :
    ∃ T, h.flat.SolvedBy T ∧ ∀ x ∈ c.pins, ∀ y ∈ c.pins, T (h.resolve x) (h.resolve y) = c.sem x y := by
  obtain ⟨T, h1, _, h3⟩ := C02_hier_exec_sound sched h w c hs
  exact ⟨T, h1, h3⟩

/-- non-vacuity: two half-attenuators in a chain are a strictly passive, well-formed network -/
example (sched) (hv : Solve.ValidSched sched) :
    ∃ total, ContractiveExample.twoHalfAttenuators.solveWith sched = .ok total ∧ Contr (1 / 4) total :=
  C20_strictly_passive_network_solves _ ContractiveExample.twoHalfAttenuators_wf ContractiveExample.twoHalfAttenuators_idxWF
    (by simp [ContractiveExample.twoHalfAttenuators]) (1 / 4) (by norm_num) (by norm_num)
    ContractiveExample.twoHalfAttenuators_contr sched hv

end any_size
