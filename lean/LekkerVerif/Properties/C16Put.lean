import LekkerVerif.Properties.C16
import LekkerVerif.Proofs.WiringPut

/-! # C16 (continued) — `put()` is validated and atomic

`Wiring.put` is `Model.put` / `Solver.put` with both pins given, as repaired in `/repo` (d2b7e60): the source pin must be a pin of
the placed object, the target must not be connected and must be a free pin of the solver; only then is the structure added and
the connection made.  It is part of the step function the driver runs, and the rejected puts of the C16 histories are compared
with it step by step. -/

namespace Wiring

/-- **a rejected put leaves the circuit exactly as it was**: for a consistent state and a freshly built object (not yet a
structure of the solver), a put either succeeds or changes nothing - the connection cannot fail after the structure was added -/
theorem C16_put_atomic (w : W) (inv : WInv w) (i s : Nat) (q : Pin) (o : SObj) (ho : getObj w i = some o)
    (hfresh : i ∉ w.structs) (hconn : o.conn = []) :
    (put w i s q).2 = .ok ∨ (put w i s q).1 = w :=
  put_atomic w inv i s q o ho hfresh hconn

/-- it is accepted exactly when the source pin belongs to the placed object and the target is an unconnected free pin -/
theorem C16_put_accepts_iff (w : W) (inv : WInv w) (i s : Nat) (q : Pin) (o : SObj) (ho : getObj w i = some o)
    (hfresh : i ∉ w.structs) (hconn : o.conn = []) :
    (put w i s q).2 = .ok ↔ (s ∈ o.pins ∧ q ∉ w.clist ∧ q ∈ w.free) :=
  put_rejects_iff w inv i s q o ho hfresh hconn

/-- an accepted put is the add followed by the connect, and every put keeps the tables consistent -/
theorem C16_put_is_add_then_connect (w : W) (i s : Nat) (q : Pin) (h : (put w i s q).2 = .ok) :
    (put w i s q).1 = (connect (addStruct w i).1 (i, s) q).1 ∧ (addStruct w i).2 = .ok :=
  put_ok_is_add_then_connect w i s q h

theorem C16_put_inv (w : W) (inv : WInv w) (i s : Nat) (q : Pin) : WInv (put w i s q).1 :=
  put_inv w inv i s q

end Wiring
