import LekkerVerif.Properties.C18
import LekkerVerif.Properties.C03
import LekkerVerif.Core.Subst
import LekkerVerif.Core.MonitorSpec

/-! # C10 — monitors report the true internal waves and do not disturb the circuit

`Solver.solve` merges the monitored structures separately (`monitor`), the others into `main`, joins
the two, and keeps a closure that evaluates `S_matrix.int_complete` on the two partitioned matrices.
Kernel level: the amplitudes `int_complete` returns are *the* interface waves of every solution of the
pair (main, monitor) — uniqueness, so they are the network's waves on the monitored links.  The step
from the pair to the whole network is `C10_network_waves`: every solution of the *whole* network, read on the
links between the monitored and the other components, is what `int_complete` reports from the two partial
matrices (substitution theorem of C02 applied to both sides).  End to end it is also exercised by the oracle
run (full wave vectors of an independent global solve). -/

open Matrix

variable {F : Type*} [Field F]
variable {n k m : Type*} [Fintype n] [Fintype k] [Fintype m] [DecidableEq n] [DecidableEq k] [DecidableEq m]

/-- **the reported waves are the true ones**: for every solution of the pair equations with excitation `(u, d)`
the wave entering the monitored side (`f`) and the wave leaving it (`g`) are what `int_complete` reports -/
theorem C10_waves (A : SM F n k) (B : SM F k m) (h : IsUnit (1 - A.S12 * B.S21))
    (u : n → F) (d : m → F) (rA : n → F) (rB : m → F) (f g : k → F) (he : PairEq A B u d rA rB f g) :
    (Generated.intComplete A B u d).1 = f ∧ (Generated.intComplete A B u d).2 = g := by
  rw [C18_interface A B h u d rA rB f g he]
  exact ⟨rfl, rfl⟩

/-- … and they satisfy both sides' equations at the monitored links (a solution exists) -/
theorem C10_waves_satisfy (A : SM F n k) (B : SM F k m) (h : IsUnit (1 - A.S12 * B.S21)) (u : n → F) (d : m → F) :
    (Generated.intComplete A B u d).1 = A.S11 *ᵥ u + A.S12 *ᵥ (Generated.intComplete A B u d).2 ∧
    (Generated.intComplete A B u d).2 = B.S21 *ᵥ (Generated.intComplete A B u d).1 + B.S22 *ᵥ d :=
  C18_interface_satisfies A B h u d

/-- **monitors do not disturb**: merging the monitored structures separately and joining them last is just
another merge schedule, so the external coefficients equal those of the default schedule -/
theorem C10_no_disturb {K : Type} [Field K] [DecidableEq K] (net : NetD K) (wf : net.WF) (ex : net.ExposureOK)
    (monitorSched : List (St K) → Option (Nat × Nat)) (t₁ t₂ : St K)
    (h₁ : net.solveWith Solve.pySched = .ok t₁) (h₂ : net.solveWith monitorSched = .ok t₂) :
    ∀ x ∈ net.exposed, ∀ y ∈ net.exposed, t₁.sem x.2 y.2 = t₂.sem x.2 y.2 :=
  C03_schedule_independent net wf ex _ _ t₁ t₂ h₁ h₂

/-- the interface waves are linear in the excitation (superposition of monitor read-outs) -/
theorem C10_linear (A : SM F n k) (B : SM F k m) (u u' : n → F) (d d' : m → F) :
    (Generated.intComplete A B (u + u') (d + d')).1 = (Generated.intComplete A B u d).1 + (Generated.intComplete A B u' d').1 := by
  simp only [Generated.intComplete_eq, SM.waves, Matrix.mulVec_add]
  abel


/-- **network level**: split any circuit into the monitored part `monNet` and the rest `mainNet` (both arbitrary
networks, with solution operators `TB`, `TA` — what the two partial merges return), joined by `links` (first end in
the rest, second end in the monitored part); `keptA`, `keptB` are the exposed pins of the two sides.  Then for *every*
solution `(a, b)` of the whole network — all components, all links — the pair `int_complete` computes from the two
partial matrices and the excitation is exactly (wave leaving the rest = entering the monitored side, wave leaving
the monitored side) on those links. -/
theorem C10_network_waves {P : Type} [DecidableEq P] {K : Type} [Field K]
    (mainNet monNet : ANet P K) (links : List (P × P)) (keptA keptB : List P) (TA TB : P → P → K)
    (hA : mainNet.SolvedBy TA) (hB : monNet.SolvedBy TB)
    (plB : ANet.Placed mainNet.parts monNet (links ++ mainNet.links) (keptA ++ keptB))
    (plA : ANet.Placed [(monNet.exposed, TB)] mainNet links (keptA ++ keptB))
    (pA : mainNet.exposed.Perm (keptA ++ links.map Prod.fst)) (pB : monNet.exposed.Perm (links.map Prod.snd ++ keptB))
    (a b : P → K)
    (hs : (ANet.inlined mainNet.parts monNet (links ++ mainNet.links) (keptA ++ keptB)).Sol a b) :
    let kA : Fin keptA.length → P := fun i => keptA[i]
    let kB : Fin keptB.length → P := fun i => keptB[i]
    let cA : Fin links.length → P := fun i => links[i].1
    let cB : Fin links.length → P := fun i => links[i].2
    let A : SM K (Fin keptA.length) (Fin links.length) :=
      { S21 := blk TA kA kA, S22 := blk TA kA cA, S11 := blk TA cA kA, S12 := blk TA cA cA }
    let B : SM K (Fin links.length) (Fin keptB.length) :=
      { S21 := blk TB cB cB, S22 := blk TB cB kB, S11 := blk TB kB cB, S12 := blk TB kB kB }
    IsUnit (1 - A.S12 * B.S21) →
    Generated.intComplete A B (a ∘ kA) (a ∘ kB) = (a ∘ cB, b ∘ cB) := by
  intro kA kB cA cB A B hu
  have hp := ANet.pair_sol_of_whole mainNet monNet links (keptA ++ keptB) TA TB hA hB plB plA a b hs
  have eA : Eqn mainNet.exposed TA a b := hp.comp (mainNet.exposed, TA) (by simp [ANet.parent])
  have eB : Eqn monNet.exposed TB a b := hp.comp (monNet.exposed, TB) (by simp [ANet.parent])
  have hl : ∀ l ∈ links, a l.1 = b l.2 ∧ a l.2 = b l.1 := fun l hl => hp.link l hl
  have he := pair_eq_abstract mainNet.exposed monNet.exposed keptA keptB links TA TB pA pB a b eA eB hl
  have := C18_interface A B hu (a ∘ kA) (a ∘ kB) (b ∘ kA) (b ∘ kB) (b ∘ cA) (a ∘ cA) he
  rw [this]
  -- on a link, what leaves the rest enters the monitored side and vice versa
  have e1 : b ∘ cA = a ∘ cB := by
    funext i; exact ((hl links[i] (List.getElem_mem _)).2).symm
  have e2 : a ∘ cA = b ∘ cB := by
    funext i; exact (hl links[i] (List.getElem_mem _)).1
  rw [e1, e2]


/-! ### the executable monitor path (`Core/Monitor.lean`, run by the native driver and compared with `get_monitor`) -/

/-- **the executable `int_complete` is the regenerated kernel**: whenever the transcription of `S_matrix.int_complete` that the
driver runs returns, entry `i` of the two lists it returns is entry `i` of what `Generated.intComplete` (traced from the
current `scattering.py`) gives on the same operands seen as Mathlib matrices - so `C10_waves` / `C10_network_waves` apply to
the numbers the correspondence compares with `get_monitor` -/
theorem C10_exec_waves {K : Type} [Field K] [DecidableEq K] (A B : SMat K) (hA : A.WF) (hB : B.WF) (u d uo dd : List K)
    (hu : u.length = A.N) (hd : d.length = B.M) (h : Monitor.intComplete? A B u d = .ok (uo, dd)) :
    ((fun i : Fin A.M => uo.getD i.1 0), (fun i : Fin A.M => dd.getD i.1 0))
      = Generated.intComplete (A.toSM A.N A.M) (B.toSM A.M B.M) (fun i : Fin A.N => u.getD i.1 0)
          (fun i : Fin B.M => d.getD i.1 0) :=
  Monitor.intComplete?_is_generated A B hA hB u d uo dd hu hd h

/-- **which links are reported**: the read-out lists exactly the connections of `main`'s table whose far end lies in a member
of the monitored composite - one per such entry, in the table's order, each symmetric (the monitored side's table points
back) - i.e. the links that join a monitored to a non-monitored component, and no other -/
theorem C10_reported_links {K : Type} [Scalar K] (main mon : St K) (exc : PinRef → K) (r : Monitor.Readout K)
    (h : Monitor.intermediate main mon exc = .ok r) :
    r.links.map (·.1) = main.getOutTo mon ∧
    (∀ p, p ∈ main.getOutTo mon ↔ ∃ q, (p, q) ∈ main.conn ∧ mon.group.contains q.1 = true) ∧
    ∀ l ∈ r.links, lookupL main.conn l.1 = some l.2 ∧ lookupL mon.conn l.2 = some l.1 := by
  have hl := Monitor.intermediate_links main mon exc r h
  refine ⟨St.linkPins_fst main mon r.links hl, fun p => St.mem_getOutTo main mon p, ?_⟩
  intro l hmem
  have := St.linkPins_sound main mon r.links hl l hmem
  exact ⟨this.1, this.2.1⟩

/-- **the table**: `get_monitor` lists, per reported link and in the order of the links, the column `<monitor>_<pin>_i` followed by
`<monitor>_<pin>_o` (names of the monitored side's structure and pin) - nothing else - and the power-mode table is the
amplitude-mode table with every value replaced by its view (the squared modulus) -/
theorem C10_table_columns {K G : Type} [Scalar K] (monName : Nat → String) (view : K → G) (r : Monitor.Readout K)
    (hi : r.inward.length = r.links.length) (ho : r.outward.length = r.links.length) :
    (Monitor.tabulate monName view r).map (·.1) =
      r.links.flatMap (fun l => [monName l.2.1 ++ "_" ++ l.2.2 ++ "_i", monName l.2.1 ++ "_" ++ l.2.2 ++ "_o"]) ∧
    Monitor.tabulate monName view r = (Monitor.tabulate monName id r).map (fun kv => (kv.1, view kv.2)) := by
  obtain ⟨links, inw, outw⟩ := r
  simp only at hi ho
  unfold Monitor.tabulate
  simp only
  constructor
  · induction links generalizing inw outw with
    | nil => simp
    | cons l ls ih =>
      cases inw with
      | nil => simp at hi
      | cons a as =>
        cases outw with
        | nil => simp at ho
        | cons b bs =>
          simp only [List.zip_cons_cons, List.flatMap_cons, List.map_append, List.map_cons, List.map_nil, List.length_cons,
            Nat.add_right_cancel_iff] at hi ho ⊢
          rw [ih as bs hi ho]
  · simp [List.map_flatMap, id]
