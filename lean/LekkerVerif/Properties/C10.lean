import LekkerVerif.Properties.C18
import LekkerVerif.Properties.C03

/-! # C10 — monitors report the true internal waves and do not disturb the circuit

`Solver.solve` merges the monitored structures separately (`monitor`), the others into `main`, joins
the two, and keeps a closure that evaluates `S_matrix.int_complete` on the two partitioned matrices.
Kernel level: the amplitudes `int_complete` returns are *the* interface waves of every solution of the
pair (main, monitor) — uniqueness, so they are the network's waves on the monitored links.  The step
from the pair to the whole network is the join refinement of C01 (each side's matrix is the solution
operator of its sub-network); it is exercised end to end by the oracle run (full wave vectors of an
independent global solve). -/

open Matrix

variable {F : Type*} [Field F]
variable {n k m : Type*} [Fintype n] [Fintype k] [Fintype m] [DecidableEq n] [DecidableEq k] [DecidableEq m]

/-- **the reported waves are the true ones**: for every solution of the pair equations with excitation `(u, d)`
the wave entering the monitored side (`f`) and the wave leaving it (`g`) are what `int_complete` reports -/
theorem C10_waves (A : SM F n k) (B : SM F k m) (h : IsUnit (1 - A.S12 * B.S21))
    (u : n → F) (d : m → F) (rA : n → F) (rB : m → F) (f g : k → F) (he : PairEq A B u d rA rB f g) :
    (Generated.intComplete A B u d).1 = f ∧ (Generated.intComplete A B u d).2 = g := by
  rw [C18_interface A B h u d rA rB f g he]
  exact ⟨rfl, rfl⟩

/-- … and they satisfy both sides' equations at the monitored links (a solution exists) -/
theorem C10_waves_satisfy (A : SM F n k) (B : SM F k m) (h : IsUnit (1 - A.S12 * B.S21)) (u : n → F) (d : m → F) :
    (Generated.intComplete A B u d).1 = A.S11 *ᵥ u + A.S12 *ᵥ (Generated.intComplete A B u d).2 ∧
    (Generated.intComplete A B u d).2 = B.S21 *ᵥ (Generated.intComplete A B u d).1 + B.S22 *ᵥ d :=
  C18_interface_satisfies A B h u d

/-- **monitors do not disturb**: merging the monitored structures separately and joining them last is just
another merge schedule, so the external coefficients equal those of the default schedule -/
theorem C10_no_disturb {K : Type} [Field K] [DecidableEq K] (net : NetD K) (wf : net.WF) (ex : net.ExposureOK)
    (monitorSched : List (St K) → Option (Nat × Nat)) (t₁ t₂ : St K)
    (h₁ : net.solveWith Solve.pySched = .ok t₁) (h₂ : net.solveWith monitorSched = .ok t₂) :
    ∀ x ∈ net.exposed, ∀ y ∈ net.exposed, t₁.sem x.2 y.2 = t₂.sem x.2 y.2 :=
  C03_schedule_independent net wf ex _ _ t₁ t₂ h₁ h₂

/-- the interface waves are linear in the excitation (superposition of monitor read-outs) -/
theorem C10_linear (A : SM F n k) (B : SM F k m) (u u' : n → F) (d d' : m → F) :
    (Generated.intComplete A B (u + u') (d + d')).1 = (Generated.intComplete A B u d).1 + (Generated.intComplete A B u' d').1 := by
  simp only [Generated.intComplete_eq, SM.waves, Matrix.mulVec_add]
  abel
