import LekkerVerif.Properties.C12
import LekkerVerif.Core.HierSplitSpec

/-! # C12 (continued) — `split()` on the executable hierarchy: each part behaves like the original

`HNet.splitLevel` (Core/HierSplit.lean) is `Solver.split()` on a level: the sets of the union loop (`Split.components` on the
children and the adjacency read off the links), and for each set the sub-solver holding its children, the links inside it and the
exposures that point into it.  It is the function the driver runs for the op `hsplit`, compared with what the real `split()` returns.
The theorems are about `HNet.solveH` of the original and of the parts, with any schedules; the children may be sub-circuits of any
depth. -/

open NetD Solve

variable {F : Type} [Field F] [DecidableEq F]

/-- every part is again well formed -/
theorem C12_parts_wellformed (h : HNet F) (w : HNet.WFTree h) : ∀ sub ∈ HNet.splitLevel h, HNet.WFTree sub :=
  HNet.WFTree.splitLevel w

/-- **each part behaves like the original**: a sub-solver returned by `split()` exposes names of the original and carries, between
every two of them, the coefficient the original carries -/
theorem C12_part_behaves_like_original (s s' : List (St F) → Option (Nat × Nat)) (h : HNet F) (w : HNet.WFTree h)
    (c : CompD F) (hs : HNet.solveH s h = .ok c) (sub : HNet F) (hsub : sub ∈ HNet.splitLevel h)
    (c' : CompD F) (hs' : HNet.solveH s' sub = .ok c') :
    (∀ x ∈ c'.pins, x ∈ c.pins) ∧ ∀ x ∈ c'.pins, ∀ y ∈ c'.pins, c'.sem x y = c.sem x y :=
  HNet.split_behaves s s' h w c hs sub hsub c' hs'

/-- … and the original has no coefficient between names that belong to different parts (only the original needs to be solved) -/
theorem C12_no_coupling_across_parts (s : List (St F) → Option (Nat × Nat)) (cs : List (HNet F))
    (links : List (PinRef × PinRef)) (exposed : List (String × PinRef)) (w : HNet.WFTree (.node cs links exposed))
    (c : CompD F) (hs : HNet.solveH s (.node cs links exposed) = .ok c)
    (g : List Nat) (hg : g ∈ HNet.groups cs.length links) (g' : List Nat) (hg' : g' ∈ HNet.groups cs.length links) (hne : g ≠ g')
    (x : String) (hx : x ∈ HNet.pinNames (HNet.subLevel cs links exposed g))
    (y : String) (hy : y ∈ HNet.pinNames (HNet.subLevel cs links exposed g')) : c.sem x y = 0 :=
  HNet.split_across_zero s cs links exposed w c hs g hg g' hg' hne x hx y hy

/-- every child lies in exactly one part, no link joins two parts -/
theorem C12_parts_partition (n : Nat) (links : List (PinRef × PinRef)) (i : Nat) (hi : i < n) :
    (∃ g ∈ HNet.groups n links, i ∈ g) ∧
    ∀ g ∈ HNet.groups n links, ∀ g' ∈ HNet.groups n links, i ∈ g → i ∈ g' → g = g' :=
  HNet.groups_partition n links i hi

/-- a connected level is returned as it is -/
theorem C12_connected_level_unchanged {cs : List (HNet F)} {links : List (PinRef × PinRef)} {exposed : List (String × PinRef)}
    (w : HNet.WFTree (.node cs links exposed)) (g : List Nat) (hone : HNet.groups cs.length links = [g]) :
    HNet.splitLevel (.node cs links exposed) = [.node cs links exposed] :=
  HNet.splitLevel_connected w g hone
