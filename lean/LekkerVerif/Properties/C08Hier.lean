import LekkerVerif.Properties.C08
import LekkerVerif.Core.HierEnergy

/-! # C08 (continued) — passivity, reciprocity and losslessness through hierarchies of any depth

For the *executable* recursion `HNet.solveH` (what the driver runs for `hsolve`, compared with the code's hierarchical solve on every
run): properties of the leaf components are inherited by the result, whatever the nesting depth, the branching and the merge
schedules at the levels.  Passivity survives partial exposure (pins that are not exposed receive no wave; dropping their outgoing
power only helps); losslessness needs every level to expose all its free pins (`HNet.FullyExposed`), otherwise power leaves through
the hidden pins. -/

open NetD Solve

variable {F : Type} [Field F] [DecidableEq F]

/-- a hierarchy of reciprocal components is reciprocal -/
theorem C08_hier_reciprocal (sched : List (St F) → Option (Nat × Nat)) (h : HNet F) (w : HNet.WFTree h)
    (hl : ∀ c ∈ HNet.leafComps h, c.Recip) (c : CompD F) (hs : HNet.solveH sched h = .ok c) : c.Recip :=
  HNet.solveH_recip sched h w hl c hs

/-- a hierarchy of passive components never shows gain, with any subset of the free pins exposed at any level -/
theorem C08_hier_passive {R : Type*} [AddCommGroup R] [PartialOrder R] [IsOrderedAddMonoid R] (w : F → R)
    (w0 : ∀ z, 0 ≤ w z) (wz : w 0 = 0) (sched : List (St F) → Option (Nat × Nat)) (h : HNet F) (wt : HNet.WFTree h)
    (hl : ∀ c ∈ HNet.leafComps h, c.PassiveW w) (c : CompD F) (hs : HNet.solveH sched h = .ok c) : c.PassiveW w :=
  HNet.solveH_passive w w0 wz sched h wt hl c hs

/-- a hierarchy of lossless components in which every level exposes all its free pins is lossless (for every pairing, in
particular `star x * y`: unitary) -/
theorem C08_hier_lossless {R : Type*} [AddCommGroup R] (φ : F → F → R) (sched : List (St F) → Option (Nat × Nat))
    (h : HNet F) (wt : HNet.WFTree h) (fe : HNet.FullyExposed h)
    (hl : ∀ c ∈ HNet.leafComps h, c.LosslessW φ) (c : CompD F) (hs : HNet.solveH sched h = .ok c) : c.LosslessW φ :=
  HNet.solveH_lossless φ sched h wt fe hl c hs
