import LekkerVerif.Model.Prune
import LekkerVerif.Proofs.WiringDetach

/-! # C19 — prune() removes exactly the dead branches and nothing else -/

namespace Prune

mutual
theorem prune_spec : ∀ h : Hier, prune h = (clean h, dead h)
  | .model e => by simp [prune, clean, dead]
  | .solver cs => by
      have := pruneList_spec cs
      simp only [prune, clean, dead]
      rw [this.1]
      exact Prod.ext rfl this.2
theorem pruneList_spec : ∀ cs : List Hier, pruneList cs = cleanList cs ∧ (cleanList cs).isEmpty = deadAll cs
  | [] => by simp [pruneList, cleanList, deadAll]
  | c :: cs => by
      have hc := prune_spec c
      have ih := pruneList_spec cs
      simp only [pruneList, cleanList, deadAll, hc]
      by_cases hd : dead c = true
      · simp [hd, ih.1, ih.2]
      · have hd' : dead c = false := by simpa using hd
        simp [hd', ih.1]
end

/-- **prune removes exactly the dead branches** — at every depth — and reports whether the solver itself is empty -/
theorem C19_removes_exactly (h : Hier) : prune h = (clean h, dead h) := prune_spec h

mutual
theorem clean_no_dead : ∀ h : Hier, dead h = false → dead (clean h) = false
  | .model e => by simp [clean]
  | .solver cs => by
      intro hd
      simp only [clean, dead] at hd ⊢
      exact cleanList_no_dead cs hd
theorem cleanList_no_dead : ∀ cs : List Hier, deadAll cs = false → deadAll (cleanList cs) = false
  | [] => by simp [deadAll]
  | c :: cs => by
      intro hd
      simp only [cleanList]
      by_cases hc : dead c = true
      · simp only [hc, ↓reduceIte]
        simp only [deadAll, hc, Bool.true_and] at hd
        exact cleanList_no_dead cs hd
      · have hc' : dead c = false := by simpa using hc
        simp only [hc', Bool.false_eq_true, ↓reduceIte, deadAll]
        rw [clean_no_dead c hc']
        simp
end

/-- a solver that is not dead is not dead after pruning (it keeps something) -/
theorem C19_nothing_dead_left (h : Hier) (hd : dead h = false) : dead (prune h).1 = false := by
  rw [C19_removes_exactly]; exact clean_no_dead h hd

mutual
theorem clean_id : ∀ h : Hier, noDead h = true → clean h = h
  | .model e => by simp [clean]
  | .solver cs => by
      intro hn
      simp only [clean]
      rw [cleanList_id cs (by simpa [noDead] using hn)]
theorem cleanList_id : ∀ cs : List Hier, noDeadList cs = true → cleanList cs = cs
  | [] => by simp [cleanList]
  | c :: cs => by
      intro hn
      simp only [noDeadList, Bool.and_eq_true, Bool.not_eq_true'] at hn
      simp only [cleanList, hn.1.1, Bool.false_eq_true, ↓reduceIte]
      rw [clean_id c hn.1.2, cleanList_id cs hn.2]
end

/-- **nothing else is touched**: a hierarchy without dead branches is left exactly as it is -/
theorem C19_keeps_live (h : Hier) (hn : noDead h = true) : (prune h).1 = h := by
  rw [C19_removes_exactly]; exact clean_id h hn

mutual
theorem noDead_clean : ∀ h : Hier, noDead (clean h) = true
  | .model e => by simp [clean, noDead]
  | .solver cs => by
      simp only [clean, noDead]
      exact noDeadList_clean cs
theorem noDeadList_clean : ∀ cs : List Hier, noDeadList (cleanList cs) = true
  | [] => by simp [cleanList, noDeadList]
  | c :: cs => by
      simp only [cleanList]
      by_cases hc : dead c = true
      · simp only [hc, ↓reduceIte]; exact noDeadList_clean cs
      · have hc' : dead c = false := by simpa using hc
        simp only [hc', Bool.false_eq_true, ↓reduceIte, noDeadList]
        rw [clean_no_dead c hc', noDead_clean c, noDeadList_clean cs]
        rfl
end

/-- after pruning no dead placement is left at any depth -/
theorem C19_no_dead_anywhere (h : Hier) : noDead (prune h).1 = true := by
  rw [C19_removes_exactly]; exact noDead_clean h

/-- idempotent: pruning twice changes nothing more -/
theorem C19_idempotent (h : Hier) : (prune (prune h).1).1 = (prune h).1 :=
  C19_keeps_live _ (C19_no_dead_anywhere h)

/-! non-vacuity -/
example : (prune (.solver [.model true, .solver [.model true, .solver []], .model false, .solver [.model false, .model true]])).2 = false := by
  simp [prune, pruneList]
example : dead (.solver [.model true, .solver [.model true, .solver []]]) = true := by simp [dead, deadAll]

end Prune


/-! ### the survivors' wiring is untouched -/

/-- `prune()` drops a dead placement with `remove_structure`; a placed model without pins has no connection, so in every
consistent wiring state the solver's connections, connection list and free pins are exactly what they were: the
surviving structures keep their wiring and their free pins (hence the pruned solver solves like the clean build, C07) -/
theorem C19_survivor_wiring_untouched (w : Wiring.W) (inv : Wiring.WInv w) (i : Nat) (o : Wiring.SObj)
    (hs : i ∈ w.structs) (ho : Wiring.getObj w i = some o) (hp : o.pins = []) :
    (Wiring.removeStruct w i).1.conns = w.conns ∧ (Wiring.removeStruct w i).1.clist = w.clist ∧
    (Wiring.removeStruct w i).1.free = w.free ∧ (Wiring.removeStruct w i).1.structs = w.structs.erase i ∧
    Wiring.WInv (Wiring.removeStruct w i).1 := by
  obtain ⟨h1, h2, h3, h4⟩ := Wiring.remove_pinless w inv i o hs ho hp
  exact ⟨h1, h2, h3, h4, Wiring.removeStruct_inv w inv i⟩
