import LekkerVerif.Generated.Tables
import LekkerVerif.Proofs.Blocks
import LekkerVerif.Proofs.BlocksTie

/-! # C09 — library blocks implement their documented physics; uniform model interface

Interface part: facts the translator establishes on every run by instantiating every documented block class of the
current source with int / float / numpy-typed arguments (`Generated/Tables.lean`), decided over the whole finite table.  Physics part: the theorems below are about the
matrices of `Generated/Blocks.lean`, which the translator obtains on every run by executing the block classes of the
current source with symbolic parameters (`harness/translate/blocks.py`); `Proofs/BlocksTie.lean` identifies each
traced matrix with a hand-written closed form (`Proofs/Blocks.lean`) by a script that tolerates re-association and
equivalent spellings, and the physics is proved for *all* real parameter values in the stated range.  An edit of a
formula that changes its meaning breaks the identification (the obligation no longer builds). -/

namespace C09

/-- every documented block class builds its pin-name table at construction (calls `update_pins()`),
so it can be placed and wired by pin name -/
theorem C09_interface_uniform :
    ∀ b ∈ Generated.blocks, b.1 ∈ Generated.docBlocks → b.2.1 = true := by decide

/-- every documented block class is present in the source -/
theorem C09_blocks_present :
    ∀ n ∈ Generated.docBlocks, ∃ b ∈ Generated.blocks, b.1 = n ∧ b.2.2 ≠ "missing" := by decide

/-- every documented block class can be printed whatever numeric types its arguments have -/
theorem C09_str_specs : (∀ s ∈ Generated.strOk, s.2 = true) ∧ ∀ n ∈ Generated.docBlocks, ∃ s ∈ Generated.strOk, s.1 = n := by
  decide

open Matrix
open Generated.Blocks

/-- the matrix built by the current source is the modelled closed form, block by block (semantic tie) -/
theorem C09_src_closed_forms :
    (∀ L n wl : ℝ, waveguide L n wl = Blocks.waveguide L n wl) ∧
    (∀ L wl n0 n1 : ℝ, userWaveguide2 L wl n0 n1 = Blocks.userWaveguide2 L wl n0 n1) ∧
    (∀ ratio phase : ℝ, beamSplitter ratio phase = Blocks.beamSplitter ratio phase) ∧
    (∀ ratio t phase : ℝ, beamSplitterT ratio t phase = Blocks.beamSplitterT ratio t phase) ∧
    splitter1x2 = Blocks.splitter1x2 ∧
    (∀ ps : ℝ, phaseShifter ps = Blocks.phaseShifter ps) ∧
    (∀ ps : ℝ, pushPull ps = Blocks.pushPull ps) ∧
    (∀ angle : ℝ, polRotFixed angle = Blocks.polRot angle) ∧
    (∀ angle : ℝ, polRotVar angle = Blocks.polRot angle) ∧
    (∀ loss : ℝ, attenuator loss = Blocks.attenuator loss) ∧
    (∀ c : ℝ, linearAttenuator c = Blocks.linearAttenuator c) ∧
    (∀ ref phase : ℝ, mirror ref phase = Blocks.mirror ref phase) ∧
    (∀ phase : ℝ, perfectMirror phase = Blocks.perfectMirror phase) ∧
    (∀ L n wl ps : ℝ, thPhaseShifter L n wl ps = Blocks.thPhaseShifter L n wl ps) ∧
    (∀ cross phase : ℝ, splitter1x2Gen cross phase = Blocks.splitter1x2Gen cross phase) :=
  ⟨BlocksTie.waveguide, BlocksTie.userWaveguide2, BlocksTie.beamSplitter, BlocksTie.beamSplitterT, BlocksTie.splitter1x2,
   BlocksTie.phaseShifter, BlocksTie.pushPull, BlocksTie.polRotFixed, BlocksTie.polRotVar, BlocksTie.attenuator,
   BlocksTie.linearAttenuator, BlocksTie.mirror, BlocksTie.perfectMirror, BlocksTie.thPhaseShifter,
   BlocksTie.splitter1x2Gen⟩

/-- the rows the closed forms are written in are the documented pins: every traced block carries the documented pin names,
each on its own matrix row, in the documented order (so "the coefficient from a0 to b0" of the theorems below is entry
`(row of b0, column of a0)` of the generated matrix) -/
theorem C09_src_pins :
    Generated.Blocks.pins =
      [("waveguide", [("a0", 0), ("b0", 1)]),
       ("userWaveguide2", [("a0_m0", 0), ("b0_m0", 1), ("a0_m1", 2), ("b0_m1", 3)]),
       ("beamSplitter", [("a0", 0), ("a1", 1), ("b0", 2), ("b1", 3)]),
       ("beamSplitterT", [("a0", 0), ("a1", 1), ("b0", 2), ("b1", 3)]),
       ("splitter1x2", [("a0", 0), ("b0", 1), ("b1", 2)]),
       ("phaseShifter", [("a0", 0), ("b0", 1)]),
       ("pushPull", [("a0", 0), ("b0", 1), ("a1", 2), ("b1", 3)]),
       ("polRotFixed", [("a0_pol0", 0), ("a0_pol1", 1), ("b0_pol0", 2), ("b0_pol1", 3)]),
       ("polRotVar", [("a0_pol0", 0), ("a0_pol1", 1), ("b0_pol0", 2), ("b0_pol1", 3)]),
       ("attenuator", [("a0", 0), ("b0", 1)]),
       ("linearAttenuator", [("a0", 0), ("b0", 1)]),
       ("mirror", [("a0", 0), ("b0", 1)]),
       ("perfectMirror", [("a0", 0)]),
       ("thPhaseShifter", [("a0", 0), ("b0", 1)]),
       ("splitter1x2Gen", [("a0", 0), ("b0", 1), ("b1", 2)])] := by
  decide

/-- Waveguide / thermal shifter / phase shifter: phase `2π n L / wl` (+ `π PS`), no reflection, symmetric, lossless -/
theorem C09_waveguide (L n wl : ℝ) :
    waveguide L n wl 0 1 = Complex.exp (((2 * Real.pi * n * L / wl : ℝ) : ℂ) * Complex.I) ∧
    waveguide L n wl 0 0 = 0 ∧ waveguide L n wl 1 1 = 0 ∧ (waveguide L n wl)ᵀ = waveguide L n wl ∧
    (waveguide L n wl)ᴴ * waveguide L n wl = 1 := by
  rw [BlocksTie.waveguide]
  exact ⟨(Blocks.waveguide_phase L n wl).1, rfl, rfl, Blocks.antidiag_symm _, Blocks.waveguide_unitary L n wl⟩

/-- multi-mode waveguide (two modes traced): each mode is a waveguide with its own index, modes do not mix, lossless -/
theorem C09_userWaveguide (L wl n0 n1 : ℝ) :
    (∀ i j : Fin 2, userWaveguide2 L wl n0 n1 (Fin.castLE (by norm_num) i) (Fin.castLE (by norm_num) j) = waveguide L n0 wl i j) ∧
    (∀ i j : Fin 2, userWaveguide2 L wl n0 n1 (Fin.natAdd 2 i) (Fin.natAdd 2 j) = waveguide L n1 wl i j) ∧
    (∀ i j : Fin 2, userWaveguide2 L wl n0 n1 (Fin.castLE (by norm_num) i) (Fin.natAdd 2 j) = 0) ∧
    (∀ i j : Fin 2, userWaveguide2 L wl n0 n1 (Fin.natAdd 2 i) (Fin.castLE (by norm_num) j) = 0) ∧
    (userWaveguide2 L wl n0 n1)ᴴ * userWaveguide2 L wl n0 n1 = 1 := by
  rw [BlocksTie.userWaveguide2, BlocksTie.waveguide, BlocksTie.waveguide]
  obtain ⟨a, b, c, d⟩ := Blocks.userWaveguide2_modes L wl n0 n1
  exact ⟨a, b, c, d, Blocks.userWaveguide2_unitary L wl n0 n1⟩

theorem C09_phaseShifter (ps : ℝ) :
    phaseShifter ps 0 1 = Complex.exp (((Real.pi * ps : ℝ) : ℂ) * Complex.I) ∧ (phaseShifter ps)ᴴ * phaseShifter ps = 1 := by
  rw [BlocksTie.phaseShifter]
  exact ⟨Blocks.phaseShifter_phase ps, Blocks.phaseShifter_unitary ps⟩

theorem C09_thPhaseShifter (L n wl ps : ℝ) :
    thPhaseShifter L n wl ps 0 1 = Complex.exp (((2 * Real.pi * n * L / wl + Real.pi * ps : ℝ) : ℂ) * Complex.I) ∧
    (thPhaseShifter L n wl ps)ᴴ * thPhaseShifter L n wl ps = 1 := by
  rw [BlocksTie.thPhaseShifter]
  exact ⟨Blocks.thPhaseShifter_phase L n wl ps, Blocks.thPhaseShifter_unitary L n wl ps⟩

/-- push-pull: `± π PS / 2` on the two arms, lossless -/
theorem C09_pushPull (ps : ℝ) :
    pushPull ps 0 1 = Complex.exp (((Real.pi * ps / 2 : ℝ) : ℂ) * Complex.I) ∧
    pushPull ps 2 3 = Complex.exp (((-(Real.pi * ps / 2) : ℝ) : ℂ) * Complex.I) ∧ (pushPull ps)ᴴ * pushPull ps = 1 := by
  rw [BlocksTie.pushPull]
  exact ⟨(Blocks.pushPull_phase ps).1, (Blocks.pushPull_phase ps).2, Blocks.pushPull_unitary ps⟩

/-- attenuators: `10^(-loss/10)` resp. `c` in power; passive in the physical range -/
theorem C09_attenuator (loss : ℝ) :
    Complex.normSq (attenuator loss 0 1) = (10 : ℝ) ^ (-loss / 10) ∧ (0 ≤ loss → Complex.normSq (attenuator loss 0 1) ≤ 1) := by
  rw [BlocksTie.attenuator]
  exact ⟨Blocks.attenuator_power loss, Blocks.attenuator_passive loss⟩

theorem C09_linearAttenuator (c : ℝ) (h0 : 0 ≤ c) :
    Complex.normSq (linearAttenuator c 0 1) = c ∧ (c ≤ 1 → Complex.normSq (linearAttenuator c 0 1) ≤ 1) := by
  rw [BlocksTie.linearAttenuator]
  exact ⟨Blocks.linearAttenuator_power c h0, Blocks.linearAttenuator_passive c h0⟩

/-- beam splitter (t = None): stated power ratios, no reflection, lossless for every ratio in [0,1] and every phase -/
theorem C09_beamSplitter (ratio phase : ℝ) (h0 : 0 ≤ ratio) (h1 : ratio ≤ 1) :
    Complex.normSq (beamSplitter ratio phase 0 2) = 1 - ratio ∧ Complex.normSq (beamSplitter ratio phase 0 3) = ratio ∧
    beamSplitter ratio phase 0 0 = 0 ∧ beamSplitter ratio phase 0 1 = 0 ∧
    (beamSplitter ratio phase)ᴴ * beamSplitter ratio phase = 1 := by
  rw [BlocksTie.beamSplitter]
  obtain ⟨a, b, _, _, c, d, _, _⟩ := Blocks.beamSplitter_power ratio phase h0 h1
  exact ⟨a, b, c, d, Blocks.beamSplitter_unitary ratio phase h0 h1⟩

/-- beam splitter with an explicit power transmission `t`: through `t`, cross `ratio`, in both directions, no reflection -/
theorem C09_beamSplitterT (ratio t phase : ℝ) (h0 : 0 ≤ ratio) (ht : 0 ≤ t) :
    Complex.normSq (beamSplitterT ratio t phase 0 2) = t ∧ Complex.normSq (beamSplitterT ratio t phase 0 3) = ratio ∧
    Complex.normSq (beamSplitterT ratio t phase 2 0) = t ∧ Complex.normSq (beamSplitterT ratio t phase 3 0) = ratio ∧
    beamSplitterT ratio t phase 0 0 = 0 ∧ beamSplitterT ratio t phase 0 1 = 0 := by
  rw [BlocksTie.beamSplitterT]
  exact Blocks.beamSplitterT_power ratio t phase h0 ht

/-- mirrors: `|S00|² = ref`, `|S01|² = 1 - ref`, power-reciprocal, lossless -/
theorem C09_mirror (ref phase : ℝ) (h0 : 0 ≤ ref) (h1 : ref ≤ 1) :
    Complex.normSq (mirror ref phase 0 0) = ref ∧ Complex.normSq (mirror ref phase 0 1) = 1 - ref ∧
    Complex.normSq (mirror ref phase 1 0) = Complex.normSq (mirror ref phase 0 1) ∧
    (mirror ref phase)ᴴ * mirror ref phase = 1 := by
  rw [BlocksTie.mirror]
  obtain ⟨a, _, c, d⟩ := Blocks.mirror_power ref phase h0 h1
  exact ⟨a, c, d.trans c.symm, Blocks.mirror_unitary ref phase h0 h1⟩

theorem C09_perfectMirror (phase : ℝ) : Complex.normSq (perfectMirror phase 0 0) = 1 := by
  rw [BlocksTie.perfectMirror]; exact Blocks.perfectMirror_unit phase

/-- polarisation rotator (fixed angle and angle read from the parameter): rotation by `π angle`, lossless -/
theorem C09_polRot (angle : ℝ) :
    polRotFixed angle = polRotVar angle ∧
    polRotVar angle 0 2 = (Real.cos (Real.pi * angle) : ℝ) ∧ polRotVar angle 0 3 = (Real.sin (Real.pi * angle) : ℝ) ∧
    (polRotVar angle)ᴴ * polRotVar angle = 1 := by
  rw [BlocksTie.polRotFixed, BlocksTie.polRotVar]
  exact ⟨rfl, rfl, rfl, Blocks.polRot_unitary angle⟩

/-- 1×2 splitter: 50/50, no reflection at a0, never gain -/
theorem C09_splitter1x2 :
    Complex.normSq (splitter1x2 1 0) = 1 / 2 ∧ Complex.normSq (splitter1x2 2 0) = 1 / 2 ∧ splitter1x2 0 0 = 0 ∧
    ∀ x : Fin 3 → ℂ, ∑ i, Complex.normSq ((splitter1x2 *ᵥ x) i) ≤ ∑ i, Complex.normSq (x i) := by
  rw [BlocksTie.splitter1x2]
  exact ⟨Blocks.splitter1x2_power.1, Blocks.splitter1x2_power.2.1, Blocks.splitter1x2_power.2.2, Blocks.splitter1x2_passive⟩


/-! ### recorded findings (negative results, with the witness the harness replays on the real code)

`FPR_NxM` and `Splitter1x2Gen` are in the documented model list but do not meet the generic claims; both carry the
authors' own "TODO: check / verify this model makes sense".  They are listed in `known_findings.json`. -/

/-- `FPR_NxM(N, M)` scales the block from the `a` pins to the `b` pins by `1/√M` and the block back by `1/√N`, every
entry having unit modulus before scaling: for `N = 3`, `M = 4` the two moduli differ — not power-reciprocal -/
theorem C09_FPR_NxM_not_reciprocal : (1 / Real.sqrt 4 : ℝ) ≠ 1 / Real.sqrt 3 := by
  intro h
  have h4 : Real.sqrt 4 = 2 := by
    rw [show (4 : ℝ) = 2 ^ 2 by norm_num, Real.sqrt_sq (by norm_num)]
  have h3 : Real.sqrt 3 ^ 2 = 3 := Real.sq_sqrt (by norm_num)
  have hpos : (0 : ℝ) < Real.sqrt 3 := Real.sqrt_pos.2 (by norm_num)
  rw [h4] at h
  have : Real.sqrt 3 = 2 := by
    field_simp at h
    linarith
  rw [this] at h3
  norm_num at h3

/-- … and not passive: at `phi = 0` the 4×3 block towards the `b` pins has all entries `1/√3`; the unit-power input
`(1/√3, 1/√3, 1/√3)` comes out with total power 4 -/
theorem C09_FPR_NxM_gain :
    let A : Matrix (Fin 4) (Fin 3) ℝ := fun _ _ => 1 / Real.sqrt 3
    let x : Fin 3 → ℝ := fun _ => 1 / Real.sqrt 3
    (∑ j, x j ^ 2 = 1) ∧ (∑ i, (A *ᵥ x) i ^ 2 = 4) := by
  intro A x
  have h3 : Real.sqrt 3 ^ 2 = 3 := Real.sq_sqrt (by norm_num)
  have hne : Real.sqrt 3 ≠ 0 := by
    intro h; rw [h] at h3; norm_num at h3
  have hx : ∀ j, x j ^ 2 = 1 / 3 := by
    intro j; simp only [x]; rw [div_pow, h3]; norm_num
  have hA : ∀ i, (A *ᵥ x) i = 1 := by
    intro i
    simp only [Matrix.mulVec, dotProduct, A, x, Fin.sum_univ_three]
    field_simp
    nlinarith [h3]
  constructor
  · simp only [Fin.sum_univ_three, hx]; norm_num
  · simp only [Fin.sum_univ_four, hA]; norm_num

end C09
