import LekkerVerif.Generated.Tables

/-! # C09 — library blocks: uniform model interface (table-driven part)

Facts the translator reads syntactically from `/repo/lekkersim/model.py` on every run
(`Generated/Tables.lean`), decided over the whole finite table.  The closed-form physics of each block
is checked against the documented formulas by the harness oracle; the translator for the block
matrices themselves (`Generated/Blocks.lean`) and the theorems over ℝ/ℂ are the next obligations
(DESIGN.md section 5, C09). -/

namespace C09

/-- numeric type of the expression a format spec is applied to -/
inductive NumTy | anyNumber | float deriving DecidableEq, Repr

def exprTy (isFloatCall : Bool) : NumTy := if isFloatCall then .float else .anyNumber

/-- the fragment of CPython's format mini-language used by the blocks' `__str__` (a finite table, compared
with the real `format()` by the harness): fixed-point specs accept ints and floats; a bare precision
(general format) is rejected for ints; a spec that is not in the table is not accepted -/
def fmtOk (t : NumTy) (spec : String) : Bool :=
  if spec = ".3f" ∨ spec = ".2f" ∨ spec = ".4f" ∨ spec = ".3e" ∨ spec = ".3g" then true
  else if spec = ".3" ∨ spec = ".2" ∨ spec = ".4" then t == .float
  else false

/-- every documented block class builds its pin-name table at construction (calls `update_pins()`),
so it can be placed and wired by pin name -/
theorem C09_interface_uniform :
    ∀ b ∈ Generated.blocks, b.1 ∈ Generated.docBlocks → b.2.1 = true := by decide

/-- every documented block class is present in the source -/
theorem C09_blocks_present :
    ∀ n ∈ Generated.docBlocks, ∃ b ∈ Generated.blocks, b.1 = n ∧ b.2.2 ≠ "missing" := by decide

/-- every format spec used in a `__str__` accepts whatever numeric type the argument may have -/
theorem C09_str_specs : ∀ s ∈ Generated.strSpecs, fmtOk (exprTy s.2.2.2) s.2.2.1 = true := by decide

/-- non-vacuity of `fmtOk`: the spec that failed on the pinned tree is rejected for an int-typed argument -/
example : fmtOk (exprTy false) ".3" = false ∧ fmtOk (exprTy true) ".3" = true := by decide

end C09
