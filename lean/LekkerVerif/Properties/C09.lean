import LekkerVerif.Generated.Tables
import LekkerVerif.Proofs.Blocks

/-! # C09 — library blocks implement their documented physics; uniform model interface

Interface part: facts the translator reads syntactically from `/repo/lekkersim/model.py` on every run
(`Generated/Tables.lean`), decided over the whole finite table.  Physics part: the closed forms in
`Proofs/Blocks.lean` are written in the shape of the source expressions; `C09_block_sources` pins the normalised
source text of every block's matrix-building statements to the expressions modelled there (a textual tie: any edit
of a formula breaks it and sends the check to the oracle run), and the theorems hold for *all* real parameter
values in the stated range. -/

namespace C09

/-- numeric type of the expression a format spec is applied to -/
inductive NumTy | anyNumber | float deriving DecidableEq, Repr

def exprTy (isFloatCall : Bool) : NumTy := if isFloatCall then .float else .anyNumber

/-- the fragment of CPython's format mini-language used by the blocks' `__str__` (a finite table, compared
with the real `format()` by the harness): fixed-point specs accept ints and floats; a bare precision
(general format) is rejected for ints; a spec that is not in the table is not accepted -/
def fmtOk (t : NumTy) (spec : String) : Bool :=
  if spec = ".3f" ∨ spec = ".2f" ∨ spec = ".4f" ∨ spec = ".3e" ∨ spec = ".3g" then true
  else if spec = ".3" ∨ spec = ".2" ∨ spec = ".4" then t == .float
  else false

/-- every documented block class builds its pin-name table at construction (calls `update_pins()`),
so it can be placed and wired by pin name -/
theorem C09_interface_uniform :
    ∀ b ∈ Generated.blocks, b.1 ∈ Generated.docBlocks → b.2.1 = true := by decide

/-- every documented block class is present in the source -/
theorem C09_blocks_present :
    ∀ n ∈ Generated.docBlocks, ∃ b ∈ Generated.blocks, b.1 = n ∧ b.2.2 ≠ "missing" := by decide

/-- every format spec used in a `__str__` accepts whatever numeric type the argument may have -/
theorem C09_str_specs : ∀ s ∈ Generated.strSpecs, fmtOk (exprTy s.2.2.2) s.2.2.1 = true := by decide

/-- non-vacuity of `fmtOk`: the spec that failed on the pinned tree is rejected for an int-typed argument -/
example : fmtOk (exprTy false) ".3" = false ∧ fmtOk (exprTy true) ".3" = true := by decide

/-- the matrix-building statements of every documented block in the current source are the ones modelled in
`Proofs/Blocks.lean` (normalised source text; an edited formula breaks this obligation) -/
theorem C09_block_sources :
    Generated.blockSource.lookup "Waveguide" = some "self.S = np.zeros((self.N, self.N), complex) ; self.S[0, 1] = np.exp(2j * np.pi * n / wl * self.L) ; self.S[1, 0] = np.exp(2j * np.pi * n / wl * self.L) ; return self.S" ∧
    Generated.blockSource.lookup "UserWaveguide" = some "for mode, extra in self.allowed.items(): n = self.index_func(**{**self.param_dic, **extra}) S = np.zeros((2, 2), complex) S[0, 1] = np.exp(2j * np.pi * n / wl * self.L) S[1, 0] = np.exp(2j * np.pi * n / wl * self.L) S_list.append(S) ; self.S = diag_blocks(S_list) ; return self.S" ∧
    Generated.blockSource.lookup "BeamSplitter" = some "p1 = np.pi * self.phase ; c = 1j * np.sqrt(self.ratio) ; t = np.sqrt(1.0 - self.ratio) if t is None else np.sqrt(t) ; self.S = np.zeros((self.N, self.N), complex) ; self.S[:2, 2:] = np.exp(2j * np.pi * phase) * np.array([[t, c], [c, t]]) ; self.S[2:, :2] = np.exp(2j * np.pi * phase) * np.array([[t, c], [c, t]])" ∧
    Generated.blockSource.lookup "Splitter1x2" = some "self.S = 1.0 / np.sqrt(2.0) * np.array([[0.0, 1.0, 1.0], [1.0, 0.0, 0.0], [1.0, 0.0, 0.0]], complex)" ∧
    Generated.blockSource.lookup "PhaseShifter" = some "S = np.zeros((self.N, self.N), complex) ; S[0, 1] = np.exp(1j * np.pi * self.param_dic[self.pn]) ; S[1, 0] = np.exp(1j * np.pi * self.param_dic[self.pn]) ; self.S = S ; return self.S" ∧
    Generated.blockSource.lookup "PushPullPhaseShifter" = some "S1 = np.zeros((2, 2), complex) ; S1[0, 1] = np.exp(0.5j * np.pi * self.param_dic[self.pn]) ; S1[1, 0] = np.exp(0.5j * np.pi * self.param_dic[self.pn]) ; S2 = np.zeros((2, 2), complex) ; S2[0, 1] = np.exp(-0.5j * np.pi * self.param_dic[self.pn]) ; S2[1, 0] = np.exp(-0.5j * np.pi * self.param_dic[self.pn]) ; self.S = diag_blocks([S1, S2]) ; return self.S" ∧
    Generated.blockSource.lookup "PolRot" = some "if self.fixed: return self.S else: angle = self.param_dic[self.angle_name] c = np.cos(np.pi * angle) s = np.sin(np.pi * angle) S = np.zeros((self.N, self.N), complex) S[:2, 2:] = np.array([[c, s], [-s, c]]) S[2:, :2] = np.array([[c, -s], [s, c]]) return S" ∧
    Generated.blockSource.lookup "Attenuator" = some "self.S = np.zeros((self.N, self.N), complex) ; self.S[0, 1] = 10.0 ** (-0.05 * loss) ; self.S[1, 0] = 10.0 ** (-0.05 * loss)" ∧
    Generated.blockSource.lookup "LinearAttenuator" = some "self.S = np.zeros((self.N, self.N), complex) ; self.S[0, 1] = np.sqrt(c) ; self.S[1, 0] = np.sqrt(c)" ∧
    Generated.blockSource.lookup "Mirror" = some "t = np.sqrt(self.ref) ; c = np.sqrt(1.0 - self.ref) ; p1 = np.pi * self.phase ; self.S = np.array([[t * np.exp(1j * p1), c], [-c, t * np.exp(-1j * p1)]], complex)" ∧
    Generated.blockSource.lookup "PerfectMirror" = some "p1 = np.pi * self.phase ; self.S = np.array([[np.exp(1j * p1)]], complex)" ∧
    Generated.blockSource.lookup "TH_PhaseShifter" = some "self.S = np.zeros((self.N, self.N), complex) ; self.S[0, 1] = np.exp(1j * np.pi * (2.0 * n / wl * self.L + self.param_dic[self.pn])) ; self.S[1, 0] = np.exp(1j * np.pi * (2.0 * n / wl * self.L + self.param_dic[self.pn])) ; return self.S" ∧
    Generated.blockSource.lookup "PolRot.__init__" = some "c = np.cos(np.pi * angle) ; s = np.sin(np.pi * angle) ; self.S = np.zeros((self.N, self.N), complex) ; self.S[:2, 2:] = np.array([[c, s], [-s, c]]) ; self.S[2:, :2] = np.array([[c, -s], [s, c]])" := by
  decide +kernel

open Blocks Matrix

/-- Waveguide / thermal shifter / phase shifter: phase `2π n L / wl` (+ `π PS`), no reflection, symmetric, lossless -/
theorem C09_waveguide (L n wl : ℝ) :
    waveguide L n wl 0 1 = Complex.exp (((2 * Real.pi * n * L / wl : ℝ) : ℂ) * Complex.I) ∧
    waveguide L n wl 0 0 = 0 ∧ waveguide L n wl 1 1 = 0 ∧ (waveguide L n wl)ᵀ = waveguide L n wl ∧
    (waveguide L n wl)ᴴ * waveguide L n wl = 1 :=
  ⟨(waveguide_phase L n wl).1, rfl, rfl, antidiag_symm _, waveguide_unitary L n wl⟩

theorem C09_phaseShifter (ps : ℝ) :
    phaseShifter ps 0 1 = Complex.exp (((Real.pi * ps : ℝ) : ℂ) * Complex.I) ∧ (phaseShifter ps)ᴴ * phaseShifter ps = 1 :=
  ⟨phaseShifter_phase ps, phaseShifter_unitary ps⟩

theorem C09_thPhaseShifter (L n wl ps : ℝ) :
    thPhaseShifter L n wl ps 0 1 = Complex.exp (((2 * Real.pi * n * L / wl + Real.pi * ps : ℝ) : ℂ) * Complex.I) ∧
    (thPhaseShifter L n wl ps)ᴴ * thPhaseShifter L n wl ps = 1 :=
  ⟨thPhaseShifter_phase L n wl ps, thPhaseShifter_unitary L n wl ps⟩

/-- push-pull: `± π PS / 2` on the two arms, lossless -/
theorem C09_pushPull (ps : ℝ) :
    pushPull ps 0 1 = Complex.exp (((Real.pi * ps / 2 : ℝ) : ℂ) * Complex.I) ∧
    pushPull ps 2 3 = Complex.exp (((-(Real.pi * ps / 2) : ℝ) : ℂ) * Complex.I) ∧ (pushPull ps)ᴴ * pushPull ps = 1 :=
  ⟨(pushPull_phase ps).1, (pushPull_phase ps).2, pushPull_unitary ps⟩

/-- attenuators: `10^(-loss/10)` resp. `c` in power; passive in the physical range -/
theorem C09_attenuator (loss : ℝ) :
    Complex.normSq (attenuator loss 0 1) = (10 : ℝ) ^ (-loss / 10) ∧ (0 ≤ loss → Complex.normSq (attenuator loss 0 1) ≤ 1) :=
  ⟨attenuator_power loss, attenuator_passive loss⟩

theorem C09_linearAttenuator (c : ℝ) (h0 : 0 ≤ c) :
    Complex.normSq (linearAttenuator c 0 1) = c ∧ (c ≤ 1 → Complex.normSq (linearAttenuator c 0 1) ≤ 1) :=
  ⟨linearAttenuator_power c h0, linearAttenuator_passive c h0⟩

/-- beam splitter (t = None): stated power ratios, no reflection, lossless for every ratio in [0,1] and every phase -/
theorem C09_beamSplitter (ratio phase : ℝ) (h0 : 0 ≤ ratio) (h1 : ratio ≤ 1) :
    Complex.normSq (beamSplitter ratio phase 0 2) = 1 - ratio ∧ Complex.normSq (beamSplitter ratio phase 0 3) = ratio ∧
    beamSplitter ratio phase 0 0 = 0 ∧ beamSplitter ratio phase 0 1 = 0 ∧
    (beamSplitter ratio phase)ᴴ * beamSplitter ratio phase = 1 := by
  obtain ⟨a, b, _, _, c, d, _, _⟩ := beamSplitter_power ratio phase h0 h1
  exact ⟨a, b, c, d, beamSplitter_unitary ratio phase h0 h1⟩

/-- mirrors: `|S00|² = ref`, `|S01|² = 1 - ref`, power-reciprocal, lossless -/
theorem C09_mirror (ref phase : ℝ) (h0 : 0 ≤ ref) (h1 : ref ≤ 1) :
    Complex.normSq (mirror ref phase 0 0) = ref ∧ Complex.normSq (mirror ref phase 0 1) = 1 - ref ∧
    Complex.normSq (mirror ref phase 1 0) = Complex.normSq (mirror ref phase 0 1) ∧
    (mirror ref phase)ᴴ * mirror ref phase = 1 := by
  obtain ⟨a, _, c, d⟩ := mirror_power ref phase h0 h1
  exact ⟨a, c, d.trans c.symm, mirror_unitary ref phase h0 h1⟩

theorem C09_perfectMirror (phase : ℝ) : Complex.normSq (perfectMirror phase 0 0) = 1 := perfectMirror_unit phase

/-- polarisation rotator: rotation by `π angle`, lossless -/
theorem C09_polRot (angle : ℝ) :
    polRot angle 0 2 = (Real.cos (Real.pi * angle) : ℝ) ∧ polRot angle 0 3 = (Real.sin (Real.pi * angle) : ℝ) ∧
    (polRot angle)ᴴ * polRot angle = 1 :=
  ⟨rfl, rfl, polRot_unitary angle⟩

/-- 1×2 splitter: 50/50, no reflection at a0, never gain -/
theorem C09_splitter1x2 :
    Complex.normSq (splitter1x2 1 0) = 1 / 2 ∧ Complex.normSq (splitter1x2 2 0) = 1 / 2 ∧ splitter1x2 0 0 = 0 ∧
    ∀ x : Fin 3 → ℂ, ∑ i, Complex.normSq ((splitter1x2 *ᵥ x) i) ≤ ∑ i, Complex.normSq (x i) :=
  ⟨splitter1x2_power.1, splitter1x2_power.2.1, splitter1x2_power.2.2, splitter1x2_passive⟩


/-! ### recorded findings (negative results, with the witness the harness replays on the real code)

`FPR_NxM` and `Splitter1x2Gen` are in the documented model list but do not meet the generic claims; both carry the
authors' own "TODO: check / verify this model makes sense".  They are listed in `known_findings.json`. -/

/-- `FPR_NxM(N, M)` scales the block from the `a` pins to the `b` pins by `1/√M` and the block back by `1/√N`, every
entry having unit modulus before scaling: for `N = 3`, `M = 4` the two moduli differ — not power-reciprocal -/
theorem C09_FPR_NxM_not_reciprocal : (1 / Real.sqrt 4 : ℝ) ≠ 1 / Real.sqrt 3 := by
  intro h
  have h4 : Real.sqrt 4 = 2 := by
    rw [show (4 : ℝ) = 2 ^ 2 by norm_num, Real.sqrt_sq (by norm_num)]
  have h3 : Real.sqrt 3 ^ 2 = 3 := Real.sq_sqrt (by norm_num)
  have hpos : (0 : ℝ) < Real.sqrt 3 := Real.sqrt_pos.2 (by norm_num)
  rw [h4] at h
  have : Real.sqrt 3 = 2 := by
    field_simp at h
    linarith
  rw [this] at h3
  norm_num at h3

/-- … and not passive: at `phi = 0` the 4×3 block towards the `b` pins has all entries `1/√3`; the unit-power input
`(1/√3, 1/√3, 1/√3)` comes out with total power 4 -/
theorem C09_FPR_NxM_gain :
    let A : Matrix (Fin 4) (Fin 3) ℝ := fun _ _ => 1 / Real.sqrt 3
    let x : Fin 3 → ℝ := fun _ => 1 / Real.sqrt 3
    (∑ j, x j ^ 2 = 1) ∧ (∑ i, (A *ᵥ x) i ^ 2 = 4) := by
  intro A x
  have h3 : Real.sqrt 3 ^ 2 = 3 := Real.sq_sqrt (by norm_num)
  have hne : Real.sqrt 3 ≠ 0 := by
    intro h; rw [h] at h3; norm_num at h3
  have hx : ∀ j, x j ^ 2 = 1 / 3 := by
    intro j; simp only [x]; rw [div_pow, h3]; norm_num
  have hA : ∀ i, (A *ᵥ x) i = 1 := by
    intro i
    simp only [Matrix.mulVec, dotProduct, A, x, Fin.sum_univ_three]
    field_simp
    nlinarith [h3]
  constructor
  · simp only [Fin.sum_univ_three, hx]; norm_num
  · simp only [Fin.sum_univ_four, hA]; norm_num

end C09
