import LekkerVerif.Properties.C11Hier
import LekkerVerif.Proofs.HierParamsFlatten

/-! # C11 (continued) — `flatten()` preserves every parameter's meaning, in the end-to-end model

`PNet.psolve kw t` is `top.solve(**kw)` of a parametric hierarchy (defaults registered at placement, dictionaries resolved and
renamed on the way down, every level solved bottom-up); `PNet.pflatSolve kw t` is `top.flatten(); top.solve(**kw)` (the root keeps
its `default_params`, every leaf placement carries the rename table `flatten_top_level` composes for it, links and exposures are
those of `HNet.flatten`).  Both are what the driver runs (`phsolve`, `pflatten`) and both are compared with the code on every
parametric hierarchy.  `PNet.pwf` is the executable well-formedness check (every level a well-formed level; every placement's
table injective on, and only renaming, the visible parameter names of the placed object, a new name colliding with a visible
name only if that name is renamed away); the driver evaluates it on every hierarchy and the evidence counts it (`hyp:PWF`). -/

open NetD Solve

variable {F : Type} [Field F] [DecidableEq F]

/-- **flatten() preserves the scattering matrix and every parameter's meaning**: for every well-formed parametric hierarchy of any
depth, every call dictionary `kw` (explicit values for any subset of the visible names, none, or names that do not exist) and
any merge schedules, the solve after `flatten()` exposes the same names and carries the same coefficients as the solve before -/
theorem C11_flatten_preserves_parameters (s s' : List (St F) → Option (Nat × Nat)) (kw : Dict F) (t : PNet F)
    (hyp : PNet.pwf t = true) (c c' : CompD F) (h : PNet.psolve s kw t = .ok c) (h' : PNet.pflatSolve s' kw t = .ok c') :
    c'.pins = c.pins ∧ ∀ x ∈ c.pins, ∀ y ∈ c.pins, c'.sem x y = c.sem x y :=
  PNet.pflatSolve_preserves s s' kw t hyp c c' h h'

/-- the structural half of the hypothesis: a hierarchy that passes the check instantiates, at every dictionary, to a well-formed
tree (so `C02_hier_exec_sound` and `C11_flatten_preserves_matrix` apply to it) -/
theorem C11_pwf_wellformed (t : PNet F) (hyp : PNet.pwf t = true) (d : Dict F) : HNet.WFTree (PNet.inst d t) :=
  PNet.wfTree_inst t d hyp
