import LekkerVerif.Properties.C02
import LekkerVerif.Core.HierSolveSpec
import LekkerVerif.Core.WFCheckSpec

/-! # C02 (continued) — the *executable* hierarchical solve is the flat circuit

`HNet.solveH` (Core/HierSolve.lean) is the recursion of the code: every placed sub-solver is solved first, the wrapping structure
adopts the exposed names and the exposed block of the result, the parent level runs the same elimination loop on these
components.  It is the function the native driver runs for the op `hsolve`, compared on every run with the real hierarchical
`Solver.solve` and with the model's solve of the flattened circuit.  `HNet.flat` is the single-level network made of all leaves
and all connections of all levels (pins addressed by their path), `HNet.resolve` sends a pin name of the root to the leaf pin
it stands for.  The theorems hold for every depth, every branching, every schedule at every level. -/

open NetD Solve

variable {F : Type} [Field F] [DecidableEq F]

/-- **transparency of the executable hierarchy**: if the recursive solve of a well-formed hierarchy returns `c`, then `c` is —
between its pin names, each standing for the leaf pin it resolves to — a solution operator of the flattened circuit, whose
exposed pins are exactly the resolved names of `c` -/
theorem C02_hier_exec_sound (sched : List (St F) → Option (Nat × Nat)) (h : HNet F) (w : HNet.WFTree h)
    (c : CompD F) (hs : HNet.solveH sched h = .ok c) :
    ∃ T, h.flat.SolvedBy T ∧ h.flat.exposed = c.pins.map h.resolve ∧
      ∀ x ∈ c.pins, ∀ y ∈ c.pins, T (h.resolve x) (h.resolve y) = c.sem x y :=
  HNet.solveH_sound_of_wfTree sched h w c hs

/-- … and it is *the* solution operator: whatever solves the flattened circuit (for instance the result of solving it as one
level, by C01) has, between the resolved pins, exactly the coefficients the hierarchical solve reports -/
theorem C02_hier_exec_unique (sched : List (St F) → Option (Nat × Nat)) (h : HNet F) (w : HNet.WFTree h)
    (c : CompD F) (hs : HNet.solveH sched h = .ok c) (hp : c.pins.Nodup)
    (T' : HNet.HPin → HNet.HPin → F) (hT' : h.flat.SolvedBy T') :
    ∀ x ∈ c.pins, ∀ y ∈ c.pins, T' (h.resolve x) (h.resolve y) = c.sem x y :=
  HNet.solveH_flat_operator sched h (w.levelsOK sched) c hs hp T' hT'

/-- the result does not depend on the schedules used inside the levels: two runs of the recursion with different merge orders
(at any level) that both return agree on every coefficient -/
theorem C02_hier_exec_schedule_independent (s₁ s₂ : List (St F) → Option (Nat × Nat)) (h : HNet F) (w : HNet.WFTree h)
    (c₁ c₂ : CompD F) (h₁ : HNet.solveH s₁ h = .ok c₁) (h₂ : HNet.solveH s₂ h = .ok c₂) (hp : c₂.pins.Nodup)
    (hpins : c₁.pins = c₂.pins) :
    ∀ x ∈ c₂.pins, ∀ y ∈ c₂.pins, c₁.sem x y = c₂.sem x y := by
  obtain ⟨T, hT, _, hc⟩ := HNet.solveH_sound_of_wfTree s₁ h w c₁ h₁
  intro x hx y hy
  rw [← hc x (hpins ▸ hx) y (hpins ▸ hy)]
  exact HNet.solveH_flat_operator s₂ h (w.levelsOK s₂) c₂ h₂ hp T hT x hx y hy

/-- one level of the recursion is what the code does: solve the children, solve the level built from their results with the
same loop as a flat solve, hand up the exposed block under the exposed names -/
theorem C02_hier_level (sched : List (St F) → Option (Nat × Nat)) (cs : List (HNet F))
    (links : List (PinRef × PinRef)) (exposed : List (String × PinRef)) (c : CompD F)
    (hs : HNet.solveH sched (.node cs links exposed) = .ok c) :
    ∃ comps total, List.Forall₂ (fun h c => HNet.solveH sched h = .ok c) cs comps ∧
      (HNet.levelNet comps links exposed).solveWith sched = .ok total ∧
      c = (HNet.levelNet comps links exposed).extract total :=
  HNet.solveH_node_inv sched cs links exposed c hs

/-- `HNet.wfTreeB` (executable; evaluated by the driver on every hierarchy it solves and counted in the evidence as `hyp:WFTree`)
decides the syntactic well-formedness the theorems above assume, so on a hierarchy that passes it the recursion's result is the
operator of the flat circuit -/
theorem C02_hier_checked (sched : List (St F) → Option (Nat × Nat)) (h : HNet F) (c : CompD F) (hwf : h.wfTreeB = true)
    (hs : HNet.solveH sched h = .ok c) :
    (h.wfTreeB = true ↔ HNet.WFTree h) ∧
    ∃ T, h.flat.SolvedBy T ∧ h.flat.exposed = c.pins.map h.resolve ∧
      ∀ x ∈ c.pins, ∀ y ∈ c.pins, T (h.resolve x) (h.resolve y) = c.sem x y :=
  ⟨HNet.wfTreeB_iff h, HNet.checked_hier sched h c hwf hs⟩
