import LekkerVerif.Properties.C11
import LekkerVerif.Core.HierFlattenSpec

/-! # C11 (continued) — `flatten()` preserves the scattering matrix, on the executable hierarchy

`HNet.flatten` (Core/HierFlatten.lean) is `Solver.flatten()` on hierarchy descriptions: the one-level circuit of all leaf
components (depth first), every link of every level with both ends resolved through the chains of exposures down to leaf
pins, and the root's exposed names.  It is the function the driver runs for the op `hflatten`, whose output is compared with
the structures, connections and exposures the real `flatten()` leaves behind.  The theorems hold for every depth and branching
and for every pair of merge schedules. -/

open NetD Solve

variable {F : Type} [Field F] [DecidableEq F]

/-- **flatten() preserves the scattering matrix**: for a well-formed hierarchy, if the hierarchical solve returns `c` and the solve
of the flattened circuit returns `c'` (with whatever merge schedules), both expose the same pin names and carry the same
coefficient between every pair of them -/
theorem C11_flatten_preserves_matrix (s s' : List (St F) → Option (Nat × Nat)) (h : HNet F) (w : HNet.WFTree h)
    (c c' : CompD F) (hs : HNet.solveH s h = .ok c) (hs' : HNet.solveH s' h.flatten = .ok c') :
    c'.pins = c.pins ∧ ∀ x ∈ c.pins, ∀ y ∈ c.pins, c'.sem x y = c.sem x y :=
  HNet.flatten_preserves s s' h w c c' hs hs'

/-- the flattened circuit is again well formed (every link lands on existing, distinct, free leaf pins; names distinct) -/
theorem C11_flatten_wellformed (h : HNet F) (w : HNet.WFTree h) : HNet.WFTree h.flatten :=
  w.flatten

/-- no sub-solver is left: every child of the flattened circuit is a leaf component — for every description -/
theorem C11_flatten_is_flat (h : HNet F) : HNet.IsFlat h.flatten :=
  HNet.flatten_isFlat h

/-- the components are exactly the leaf components of the hierarchy, in depth-first order, each placement once -/
theorem C11_flatten_components (h : HNet F) : (HNet.leaves h.flatten).map (·.2) = (HNet.leaves h).map (·.2) :=
  HNet.leaves_flatten_comps h

/-- flattening twice is flattening once -/
theorem C11_flatten_idempotent (h : HNet F) : h.flatten.flatten = h.flatten :=
  HNet.flatten_idem h
