import LekkerVerif.Properties.C01

/-! # C03 — independence of declaration order and elimination order -/

open NetD

variable {F : Type} [Field F] [DecidableEq F]

/-- any two merge schedules that succeed give the same coefficient between every pair of exposed pins
(schedules may merge unconnected pairs, pick either orientation, …) -/
theorem C03_schedule_independent (net : NetD F) (wf : net.WF) (ex : net.ExposureOK) (sched₁ sched₂) (t₁ t₂ : St F)
    (h₁ : net.solveWith sched₁ = .ok t₁) (h₂ : net.solveWith sched₂ = .ok t₂) :
    ∀ x ∈ net.exposed, ∀ y ∈ net.exposed, t₁.sem x.2 y.2 = t₂.sem x.2 y.2 :=
  solveWith_schedule_independent net wf sched₁ sched₂ t₁ t₂ h₁ h₂ ex.nodup ex.free

/-- the pin-count heuristic of `Solver.solve` is one particular schedule -/
theorem C03_heuristic_is_a_schedule (net : NetD F) (wf : net.WF) (ex : net.ExposureOK) (sched) (t₁ t₂ : St F)
    (h₁ : net.solveWith Solve.pySched = .ok t₁) (h₂ : net.solveWith sched = .ok t₂) :
    ∀ x ∈ net.exposed, ∀ y ∈ net.exposed, t₁.sem x.2 y.2 = t₂.sem x.2 y.2 :=
  C03_schedule_independent net wf ex _ _ t₁ t₂ h₁ h₂

/-! ### declaration order -/

/-- the network relation only depends on the *set* of links (ends in either order) and the *set* of exposed pins -/
theorem Sol_congr (net net' : NetD F) (hcomps : net'.comps = net.comps)
    (hlinks : ∀ p q, net'.Lnk p q ↔ net.Lnk p q)
    (hexp : ∀ p, p ∈ net'.exposed.map (·.2) ↔ p ∈ net.exposed.map (·.2))
    (a b : PinRef → F) (h : net.Sol a b) : net'.Sol a b := by
  have hinit : ∀ s' ∈ net'.initial, ∃ s ∈ net.initial, s.pins = s'.pins ∧ s.sem = s'.sem := by
    intro s' hs'
    obtain ⟨k, c, hk, rfl⟩ := (mem_initial net' s').1 hs'
    rw [hcomps] at hk
    exact ⟨net.mkSt k c, (mem_initial net _).2 ⟨k, c, hk, rfl⟩, rfl, rfl⟩
  refine ⟨?_, ?_, ?_⟩
  · intro s' hs'
    obtain ⟨s, hs, hp, hsem⟩ := hinit s' hs'
    rw [← hp, ← hsem]
    exact h.comp s hs
  · intro l hl
    have : net.Lnk l.1 l.2 := (hlinks l.1 l.2).1 (Or.inl hl)
    rcases this with hm | hm
    · exact h.link _ hm
    · have := h.link _ hm
      exact ⟨this.2, this.1⟩
  · intro s' hs' p hp hfree hne
    obtain ⟨s, hs, hpins, _⟩ := hinit s' hs'
    apply h.free s hs p (by rw [hpins]; exact hp)
    · intro q hq; exact hfree q ((hlinks p q).2 hq)
    · intro hmem; exact hne ((hexp p).2 hmem)

/-- **declaration order is irrelevant**: two descriptions of the same circuit — the same components, the same set of
connections listed in any order with their two ends in either order, the same exposures listed in any order —
solved with any two merge schedules give the same coefficient between every pair of exposed pins -/
theorem C03_declaration_independent (net net' : NetD F) (wf : net.WF) (wf' : net'.WF) (ex : net.ExposureOK)
    (ex' : net'.ExposureOK) (hcomps : net'.comps = net.comps) (hlinks : ∀ p q, net'.Lnk p q ↔ net.Lnk p q)
    (hperm : net'.exposed.Perm net.exposed) (sched sched') (t t' : St F)
    (h : net.solveWith sched = .ok t) (h' : net'.solveWith sched' = .ok t') :
    ∀ x ∈ net.exposed, ∀ y ∈ net.exposed, t.sem x.2 y.2 = t'.sem x.2 y.2 := by
  have hexp : ∀ p, p ∈ net'.exposed.map (·.2) ↔ p ∈ net.exposed.map (·.2) := fun p => (hperm.map _).mem_iff
  have hexp' : ∀ p, p ∈ net.exposed.map (·.2) ↔ p ∈ net'.exposed.map (·.2) := fun p => (hexp p).symm
  have hs := C01_solve_solves net wf ex sched t h
  have hs' := C01_solve_solves net' wf' ex' sched' t' h'
  -- transport the second solution operator to the first description
  have hs'' : net.SolvedBy t'.sem := by
    constructor
    · intro a b hab e he
      have hab' : net'.Sol a b := Sol_congr net net' hcomps hlinks hexp a b hab
      have := hs'.1 a b hab' e (hperm.symm.subset he)
      rw [this]
      exact (hperm.map _).sum_eq
    · intro v
      obtain ⟨a, b, hab, hv⟩ := hs'.2 v
      refine ⟨a, b, Sol_congr net' net hcomps.symm (fun p q => (hlinks p q).symm) hexp' a b hab, ?_⟩
      intro e he
      exact hv e (hperm.symm.subset he)
  exact C01_solution_unique net ex.nodup t.sem t'.sem hs hs''
