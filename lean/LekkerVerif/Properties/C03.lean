import LekkerVerif.Properties.C01

/-! # C03 — independence of declaration order and elimination order -/

open NetD

variable {F : Type} [Field F] [DecidableEq F]

/-- any two merge schedules that succeed give the same coefficient between every pair of exposed pins
(schedules may merge unconnected pairs, pick either orientation, …) -/
theorem C03_schedule_independent (net : NetD F) (wf : net.WF) (ex : net.ExposureOK) (sched₁ sched₂) (t₁ t₂ : St F)
    (h₁ : net.solveWith sched₁ = .ok t₁) (h₂ : net.solveWith sched₂ = .ok t₂) :
    ∀ x ∈ net.exposed, ∀ y ∈ net.exposed, t₁.sem x.2 y.2 = t₂.sem x.2 y.2 :=
  solveWith_schedule_independent net wf sched₁ sched₂ t₁ t₂ h₁ h₂ ex.nodup ex.free

/-- the pin-count heuristic of `Solver.solve` is one particular schedule -/
theorem C03_heuristic_is_a_schedule (net : NetD F) (wf : net.WF) (ex : net.ExposureOK) (sched) (t₁ t₂ : St F)
    (h₁ : net.solveWith Solve.pySched = .ok t₁) (h₂ : net.solveWith sched = .ok t₂) :
    ∀ x ∈ net.exposed, ∀ y ∈ net.exposed, t₁.sem x.2 y.2 = t₂.sem x.2 y.2 :=
  C03_schedule_independent net wf ex _ _ t₁ t₂ h₁ h₂
