import LekkerVerif.Model.Modes
import LekkerVerif.Core.ModesNet
import LekkerVerif.Core.ModesNetN
import LekkerVerif.Generated.Modes
import Mathlib.Tactic.FinCases
import Mathlib.Data.Fintype.Basic

/-! # C13 — modes are independent: expand_mode replicates, connect_all pairs like modes -/

namespace Modes

/-- **expand_mode replicates**: the coefficient between (pin n, mode i) and (pin m, mode j) of the expanded
model is the single-mode coefficient when i = j and zero otherwise — every N, every number of modes -/
theorem C13_expand {F : Type} [OfNat F 0] (N k : Nat) (S : Nat → Nat → F) (i j n m : Nat)
    (hi : i < k) (hj : j < k) (hn : n < N) (hm : m < N) :
    diagBlocks N k S (expandIndex N i n) (expandIndex N j m) = if i = j then S n m else 0 := by
  unfold diagBlocks expandIndex
  have hN : 0 < N := by omega
  have d1 : (i * N + n) / N = i := by
    rw [Nat.mul_comm, Nat.mul_add_div hN, Nat.div_eq_of_lt hn]; rfl
  have d2 : (j * N + m) / N = j := by
    rw [Nat.mul_comm, Nat.mul_add_div hN, Nat.div_eq_of_lt hm]; rfl
  have m1 : (i * N + n) % N = n := by
    rw [Nat.mul_comm, Nat.mul_add_mod, Nat.mod_eq_of_lt hn]
  have m2 : (j * N + m) % N = m := by
    rw [Nat.mul_comm, Nat.mul_add_mod, Nat.mod_eq_of_lt hm]
  have b1 : i * N + n < k * N := by
    calc i * N + n < i * N + N := by omega
      _ = (i + 1) * N := by rw [Nat.add_mul]; simp
      _ ≤ k * N := Nat.mul_le_mul_right N (by omega)
  have b2 : j * N + m < k * N := by
    calc j * N + m < j * N + N := by omega
      _ = (j + 1) * N := by rw [Nat.add_mul]; simp
      _ ≤ k * N := Nat.mul_le_mul_right N (by omega)
  rw [d1, d2, m1, m2]
  by_cases h : i = j
  · simp [h, b1, b2, h ▸ b1]
  · simp [h]

/-- the index layout is injective: distinct (mode, pin) pairs get distinct matrix indices -/
theorem C13_index_injective (N i j n m : Nat) (hn : n < N) (hm : m < N)
    (h : expandIndex N i n = expandIndex N j m) : i = j ∧ n = m := by
  unfold expandIndex at h
  have hN : 0 < N := by omega
  have d1 : (i * N + n) / N = i := by
    rw [Nat.mul_comm, Nat.mul_add_div hN, Nat.div_eq_of_lt hn]; rfl
  have d2 : (j * N + m) / N = j := by
    rw [Nat.mul_comm, Nat.mul_add_div hN, Nat.div_eq_of_lt hm]; rfl
  have hij : i = j := by rw [← d1, ← d2, h]
  subst hij
  exact ⟨rfl, by omega⟩

/-- **connect_all links exactly the common modes**, each with its like-named partner -/
theorem C13_connect_all (b1 b2 : String) (modes1 modes2 : List String) (l : (String × String) × (String × String)) :
    l ∈ connectAllLinks b1 b2 modes1 modes2 ↔
      ∃ m, m ∈ modes1 ∧ m ∈ modes2 ∧ l = ((b1, m), (b2, m)) := by
  unfold connectAllLinks connectAllModes
  simp only [List.mem_map, List.mem_filter, List.contains_eq_mem, decide_eq_true_eq]
  constructor
  · rintro ⟨m, ⟨h1, h2⟩, rfl⟩; exact ⟨m, h1, h2, rfl⟩
  · rintro ⟨m, h1, h2, rfl⟩; exact ⟨m, ⟨h1, h2⟩, rfl⟩

/-- no mode is linked twice when the first structure's mode names are distinct -/
theorem C13_connect_all_nodup (modes1 modes2 : List String) (h : modes1.Nodup) :
    (connectAllModes modes1 modes2).Nodup := by
  unfold connectAllModes
  exact h.sublist List.filter_sublist

/-! ### the current source, traced: `expand_mode` + `_expand_S` + `diag_blocks` executed on a symbolic two-pin model and three
modes (`Generated/Modes.lean`) are the model at that instance -/

/-- the single-mode matrix as an index function on naturals (zero outside the 2 × 2 range) -/
def ofFin2 {F : Type} [Zero F] (S : Fin 2 → Fin 2 → F) (i j : Nat) : F :=
  if h : i < 2 ∧ j < 2 then S ⟨i, h.1⟩ ⟨j, h.2⟩ else 0

/-- the matrix the expanded model of the current source returns is `diagBlocks` of the single-mode matrix, entry by entry -/
theorem C13_src_expand {F : Type} [Zero F] (S : Fin 2 → Fin 2 → F) (a b : Fin 6) :
    Generated.Modes.expandedS S a b = diagBlocks (F := F) 2 3 (ofFin2 S) a.1 b.1 := by
  fin_cases a <;> fin_cases b <;> rfl

/-- the index the model predicts for (basename, mode) -/
def predictedIdx (e : (String × String) × Nat) : Option Nat :=
  (Generated.Modes.singleIdx.lookup e.1.1).bind fun n =>
    (Generated.Modes.modeNumber.lookup e.1.2).map fun i => expandIndex 2 i n

/-- every pin of the expanded model of the current source sits at `expandIndex` (mode position, single-mode index) -/
theorem C13_src_index :
    Generated.Modes.expandedIdx.length = 6 ∧ ∀ e ∈ Generated.Modes.expandedIdx, predictedIdx e = some e.2 := by
  decide

/-! non-vacuity -/
example : diagBlocks 2 3 (fun a b => a + 10 * b + 1) (expandIndex 2 1 1) (expandIndex 2 1 0) = 2 ∧
          diagBlocks 2 3 (fun a b => a + 10 * b + 1) (expandIndex 2 1 1) (expandIndex 2 2 0) = 0 := by decide
example : connectAllLinks "a" "b" ["TE", "TM"] ["TM", "m2"] = [(("a", "TM"), ("b", "TM"))] := by decide

end Modes


/-! ### network level: independent copies of the single-mode circuit -/

/-- **a circuit assembled from mode-expanded blocks behaves as independent copies of the single-mode circuit**.
`N` is any single-mode circuit with solution operator `T`; `N.expanded2 m₁ m₂` is the circuit the code builds from it
for two modes: every block one part on the pins `(p, m₁)`, `(p, m₂)` with the block-diagonal matrix of `expand_mode`
(`C13_expand`), like modes linked by `connect_all` (`C13_connect_all`), every exposed pin exposed per mode.  Whatever
operator `Tm` solves that circuit has the single-mode coefficient between like modes and zero between different modes.
(More modes: the same argument with one mode against the union of the others.) -/
theorem C13_network_independent {F : Type} [Field F] {P M : Type} [DecidableEq P] [DecidableEq M]
    (N : ANet P F) (cl : N.Closed) (hn : N.exposed.Nodup) (T : P → P → F) (h : N.SolvedBy T)
    (m₁ m₂ : M) (hne : m₁ ≠ m₂) (Tm : P × M → P × M → F) (hT : (N.expanded2 m₁ m₂).SolvedBy Tm) :
    ∀ p ∈ N.exposed, ∀ q ∈ N.exposed,
      Tm (p, m₁) (q, m₁) = T p q ∧ Tm (p, m₂) (q, m₂) = T p q ∧ Tm (p, m₁) (q, m₂) = 0 ∧ Tm (q, m₂) (p, m₁) = 0 :=
  ANet.expanded2_independent N cl hn T h m₁ m₂ hne Tm hT

/-- … and such an operator exists whenever the single-mode circuit has one (the two-mode circuit is solvable) -/
theorem C13_network_solved {F : Type} [Field F] {P M : Type} [DecidableEq P] [DecidableEq M]
    (N : ANet P F) (cl : N.Closed) (T : P → P → F) (h : N.SolvedBy T) (m₁ m₂ : M) (hne : m₁ ≠ m₂)
    [∀ x, Decidable ((N.atMode m₁).pinSet x)] :
    (N.expanded2 m₁ m₂).SolvedBy (ANet.sumOp (N.atMode m₁) (fun x y => T x.1 y.1) (fun x y => T x.1 y.1)) := by
  have hu := ANet.union_solvedBy (ANet.atMode_apart N cl m₁ m₂ hne) _ _ (ANet.atMode_solvedBy N m₁ T h) (ANet.atMode_solvedBy N m₂ T h)
  constructor
  · intro a b hs e he
    exact hu.1 a b ((ANet.expanded2_sol N m₁ m₂ hne a b).1 hs) e he
  · intro v
    obtain ⟨a, b, hs, hv⟩ := hu.2 v
    exact ⟨a, b, (ANet.expanded2_sol N m₁ m₂ hne a b).2 hs, hv⟩


/-! ### any list of modes -/

/-- **modes are independent, any list of modes**: `N.expandedL ms` is the circuit the code builds from a single-mode
circuit `N` for the mode list `ms`: every block one part on the pins `(p, m)`, `m ∈ ms`, with the block-diagonal matrix
of `expand_mode` (`C13_expand`), like modes linked by `connect_all` (`C13_connect_all`), every exposed pin exposed per
mode.  Whatever operator solves it has the single-mode coefficient between like modes and zero between different ones -/
theorem C13_network_independent_modes {F : Type} [Field F] {P M : Type} [DecidableEq P] [DecidableEq M]
    (N : ANet P F) (cl : N.Closed) (hn : N.exposed.Nodup) (T : P → P → F) (h : N.SolvedBy T)
    (ms : List M) (hms : ms.Nodup) (Tm : P × M → P × M → F) (hT : (N.expandedL ms).SolvedBy Tm) :
    ∀ m ∈ ms, ∀ m' ∈ ms, ∀ p ∈ N.exposed, ∀ q ∈ N.exposed, Tm (p, m) (q, m') = if m = m' then T p q else 0 :=
  ANet.expandedL_independent N cl hn T h ms hms Tm hT

/-- … and the multi-mode circuit is solved by the block-diagonal operator whenever the single-mode circuit is solved -/
theorem C13_network_solved_modes {F : Type} [Field F] {P M : Type} [DecidableEq P] [DecidableEq M]
    (N : ANet P F) (cl : N.Closed) (T : P → P → F) (h : N.SolvedBy T) (ms : List M) (hms : ms.Nodup) :
    (N.expandedL ms).SolvedBy (ANet.diagOp T) :=
  ANet.expandedL_solved N cl T h ms hms
