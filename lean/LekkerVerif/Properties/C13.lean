import LekkerVerif.Model.Modes

/-! # C13 — modes are independent: expand_mode replicates, connect_all pairs like modes -/

namespace Modes

/-- **expand_mode replicates**: the coefficient between (pin n, mode i) and (pin m, mode j) of the expanded
model is the single-mode coefficient when i = j and zero otherwise — every N, every number of modes -/
theorem C13_expand {F : Type} [OfNat F 0] (N k : Nat) (S : Nat → Nat → F) (i j n m : Nat)
    (hi : i < k) (hj : j < k) (hn : n < N) (hm : m < N) :
    diagBlocks N k S (expandIndex N i n) (expandIndex N j m) = if i = j then S n m else 0 := by
  unfold diagBlocks expandIndex
  have hN : 0 < N := by omega
  have d1 : (i * N + n) / N = i := by
    rw [Nat.mul_comm, Nat.mul_add_div hN, Nat.div_eq_of_lt hn]; rfl
  have d2 : (j * N + m) / N = j := by
    rw [Nat.mul_comm, Nat.mul_add_div hN, Nat.div_eq_of_lt hm]; rfl
  have m1 : (i * N + n) % N = n := by
    rw [Nat.mul_comm, Nat.mul_add_mod, Nat.mod_eq_of_lt hn]
  have m2 : (j * N + m) % N = m := by
    rw [Nat.mul_comm, Nat.mul_add_mod, Nat.mod_eq_of_lt hm]
  have b1 : i * N + n < k * N := by
    calc i * N + n < i * N + N := by omega
      _ = (i + 1) * N := by rw [Nat.add_mul]; simp
      _ ≤ k * N := Nat.mul_le_mul_right N (by omega)
  have b2 : j * N + m < k * N := by
    calc j * N + m < j * N + N := by omega
      _ = (j + 1) * N := by rw [Nat.add_mul]; simp
      _ ≤ k * N := Nat.mul_le_mul_right N (by omega)
  rw [d1, d2, m1, m2]
  by_cases h : i = j
  · simp [h, b1, b2, h ▸ b1]
  · simp [h]

/-- the index layout is injective: distinct (mode, pin) pairs get distinct matrix indices -/
theorem C13_index_injective (N i j n m : Nat) (hn : n < N) (hm : m < N)
    (h : expandIndex N i n = expandIndex N j m) : i = j ∧ n = m := by
  unfold expandIndex at h
  have hN : 0 < N := by omega
  have d1 : (i * N + n) / N = i := by
    rw [Nat.mul_comm, Nat.mul_add_div hN, Nat.div_eq_of_lt hn]; rfl
  have d2 : (j * N + m) / N = j := by
    rw [Nat.mul_comm, Nat.mul_add_div hN, Nat.div_eq_of_lt hm]; rfl
  have hij : i = j := by rw [← d1, ← d2, h]
  subst hij
  exact ⟨rfl, by omega⟩

/-- **connect_all links exactly the common modes**, each with its like-named partner -/
theorem C13_connect_all (b1 b2 : String) (modes1 modes2 : List String) (l : (String × String) × (String × String)) :
    l ∈ connectAllLinks b1 b2 modes1 modes2 ↔
      ∃ m, m ∈ modes1 ∧ m ∈ modes2 ∧ l = ((b1, m), (b2, m)) := by
  unfold connectAllLinks connectAllModes
  simp only [List.mem_map, List.mem_filter, List.contains_eq_mem, decide_eq_true_eq]
  constructor
  · rintro ⟨m, ⟨h1, h2⟩, rfl⟩; exact ⟨m, h1, h2, rfl⟩
  · rintro ⟨m, h1, h2, rfl⟩; exact ⟨m, ⟨h1, h2⟩, rfl⟩

/-- no mode is linked twice when the first structure's mode names are distinct -/
theorem C13_connect_all_nodup (modes1 modes2 : List String) (h : modes1.Nodup) :
    (connectAllModes modes1 modes2).Nodup := by
  unfold connectAllModes
  exact h.sublist List.filter_sublist

/-! non-vacuity -/
example : diagBlocks 2 3 (fun a b => a + 10 * b + 1) (expandIndex 2 1 1) (expandIndex 2 1 0) = 2 ∧
          diagBlocks 2 3 (fun a b => a + 10 * b + 1) (expandIndex 2 1 1) (expandIndex 2 2 0) = 0 := by decide
example : connectAllLinks "a" "b" ["TE", "TM"] ["TM", "m2"] = [(("a", "TM"), ("b", "TM"))] := by decide

end Modes
