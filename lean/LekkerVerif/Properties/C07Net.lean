import LekkerVerif.Properties.C07
import LekkerVerif.Proofs.WiringNet

/-! # C07 (continued) — after any edit history the solver *solves* like a freshly built one

`Wiring.denote` (Model/WiringNet.lean) is the network a wiring state denotes: the present structures in the order of
`Solver.structures`, one link per entry of the connection table, one exposure per entry of the pin mapping.  The driver's op
`wsolve` runs a history through the wiring model and, at every `solve`, the denoted network through the elimination loop; the
result is compared with the real `Solver.solve()` of that moment.  Here: every history - any finite sequence of add / re-add /
connect / cut / remove / expose / raise-all calls, valid or rejected - leaves a state whose denoted network is well formed, so
everything proved about the elimination (C01: the result is the solution operator of *that* network, whatever the schedule;
definedness: the only failure is a singular inner system) applies to it.  The denoted network is a function of the state's
tables alone: two histories that end in the same tables solve alike, in particular an edit history and a fresh build. -/

namespace Wiring

variable {F : Type} {comps : List (CompD F)} {pinName : Pin → String} {pins : List Nat}

/-- every edit history leaves a state that denotes a well-formed network -/
theorem C07_history_denotes_wellformed_network (st : Static comps pinName pins) (expName : Nat → String)
    (nameOf : Pin → Nat) (ops : List OpX) :
    (denote comps pinName expName (runX nameOf ops pins)).WF :=
  runX_denote_wf st expName nameOf ops

/-- **after any edit history**: when only free pins are exposed, each once (the states in which the code can solve), whatever
`solve` returns on the denoted network is the solution operator of that network, for every merge schedule; and with a valid
schedule the solve either returns or fails because an inner system is singular - never because a table is inconsistent -/
theorem C07_history_solves_like_fresh [Field F] [DecidableEq F] (st : Static comps pinName pins) (expName : Nat → String)
    (nameOf : Pin → Nat) (ops : List OpX) :
    let w := runX nameOf ops pins
    let net := denote comps pinName expName w
    net.WF ∧
    ((∀ m ∈ w.mapping, m.2 ∈ w.free) → (w.mapping.map (·.2)).Nodup →
      ∀ sched total, net.solveWith sched = .ok total → net.SolvedBy total.sem) ∧
    ((∀ c ∈ comps, ∀ n ∈ c.pins, (lookupL c.idx n).isSome) → w.structs ≠ [] →
      ∀ sched, Solve.ValidSched sched →
        (∃ total, net.solveWith sched = .ok total) ∨ net.solveWith sched = .error .singular) :=
  runX_denote_solve st expName nameOf ops

/-- the driver's pin naming (pin `p` of structure `i` is the `p`-th pin name of component `i`) meets the static tie -/
theorem C07_driver_naming_static (comps : List (CompD F)) (hnd : ∀ c ∈ comps, c.pins.Nodup) :
    Static comps (driverPinName comps) (comps.map fun c => c.pins.length) :=
  static_driver comps hnd

end Wiring
