import LekkerVerif.Proofs.Rename

/-! # C05 — parameter values reach each component by precedence and renaming rules

`renameFixed` models `Structure.update_params` (the rename + shield step applied when a structure
hands parameters down), `solverParams` models `Solver.update_params`, `addParamArgs` the argument
resolution of `add_param`.  The driver runs these very functions against the real methods. -/

namespace Dict
variable {V : Type}

theorem get?_set (d : Dict V) (k : String) (v : V) (x : String) :
    (d.set k v).get? x = if x = k then some v else d.get? x := by
  unfold set
  by_cases hk : d.hasKey k = true
  · simp only [hk, ↓reduceIte]
    unfold get?
    simp only
    have hf1 : ∀ e : String × V, (if e.1 == k then (k, v) else e).1 = e.1 := by
      intro e; by_cases h : e.1 = k <;> simp [h]
    rw [List.find?_map]
    have hcomp : ((fun e : String × V => e.1 == x) ∘ fun e => if e.1 == k then (k, v) else e)
        = fun e : String × V => e.1 == x := by
      funext e; simp only [Function.comp]; rw [hf1 e]
    rw [hcomp]
    cases hfind : d.kv.find? (·.1 == x) with
    | none =>
      by_cases hx : x = k
      · subst hx
        unfold hasKey at hk
        obtain ⟨e, he, hek⟩ := List.any_eq_true.1 hk
        have := List.find?_eq_none.1 hfind e he
        simp_all
      · simp [hx]
    | some e =>
      have hex : e.1 = x := by simpa using List.find?_some hfind
      by_cases hx : x = k
      · simp [hx, hex ▸ hx]
      · have : e.1 ≠ k := fun h => hx (hex ▸ h)
        simp [hx, this]
  · have hk' : d.hasKey k = false := by simpa using hk
    simp only [hk', Bool.false_eq_true, ↓reduceIte]
    have hno : ∀ e ∈ d.kv, e.1 ≠ k := by
      intro e he h
      unfold hasKey at hk'
      have := List.any_eq_false.1 hk' e he
      simp [h] at this
    rw [get?_append]
    by_cases hx : x = k
    · subst hx
      rw [get?_none_of_no_key d.kv x hno]
      simp [get?, List.find?]
    · have : (k == x) = false := by simpa using fun h => hx h.symm
      simp [get?, List.find?, this, hx]
/-- the value `update` leaves under `x`: the last pair of `e` with key `x`, else what `d` had -/
def lastOf (l : List (String × V)) (x : String) : Option V := (l.reverse.find? (·.1 == x)).map (·.2)

theorem lastOf_cons (a : String × V) (t : List (String × V)) (x : String) :
    lastOf (a :: t) x = (lastOf t x).or (if a.1 = x then some a.2 else none) := by
  unfold lastOf
  simp only [List.reverse_cons, List.find?_append]
  cases t.reverse.find? (·.1 == x) with
  | some e => simp
  | none =>
    by_cases h : a.1 = x
    · simp [List.find?, h]
    · have : (a.1 == x) = false := by simpa using h
      simp [List.find?, h, this]

theorem get?_overlay (d e : Dict V) (x : String) :
    (d.overlay e).get? x = (lastOf e.kv x).or (d.get? x) := by
  unfold overlay
  induction e.kv generalizing d with
  | nil => simp [lastOf]
  | cons a t ih =>
    simp only [List.foldl]
    rw [ih (d.set a.1 a.2), lastOf_cons, get?_set]
    cases lastOf t x with
    | some v => simp
    | none =>
      by_cases h : a.1 = x
      · simp [h]
      · have : x ≠ a.1 := fun h' => h h'.symm
        simp [h, this]

end Dict

/-- **renaming is simultaneous**: for every table with distinct old names and every dictionary, the
dictionary handed to the child has, under every inner name `x`, exactly what the simultaneous
substitution gives (chains and swaps included) -/
theorem C05_rename_simultaneous {V : Type} (m : Table) (d : Dict V) (hold : (m.map (·.2)).Nodup) (x : String) :
    (renameFixed m d).get? x = simul m d x := renameFixed_spec m d hold x

/-- **listing order is irrelevant** -/
theorem C05_listing_order {V : Type} (m m' : Table) (d : Dict V) (hp : m.Perm m') (hold : (m.map (·.2)).Nodup)
    (x : String) : (renameFixed m d).get? x = (renameFixed m' d).get? x := renameFixed_perm m m' d hp hold x

/-- **the old name is shielded**: a value given under a renamed parameter's old name reaches the child
only if that name is also the new name of another parameter -/
theorem C05_old_name_shielded {V : Type} (m : Table) (d : Dict V) (hold : (m.map (·.2)).Nodup)
    (new old : String) (h : (new, old) ∈ m) : (renameFixed m d).get? old = d.get? new := by
  rw [renameFixed_spec m d hold]
  unfold simul
  rw [(find?_old_iff m hold old (new, old)).2 ⟨h, rfl⟩]

/-- a name that is neither an old nor a new name passes through unchanged -/
theorem C05_untouched {V : Type} (m : Table) (d : Dict V) (hold : (m.map (·.2)).Nodup) (x : String)
    (h1 : ∀ no ∈ m, no.1 ≠ x) (h2 : ∀ no ∈ m, no.2 ≠ x) : (renameFixed m d).get? x = d.get? x := by
  rw [renameFixed_spec m d hold]
  unfold simul
  have hf : m.find? (·.2 == x) = none := by
    rw [List.find?_eq_none]; intro e he; simpa using h2 e he
  have ha : m.any (·.1 == x) = false := by
    rw [List.any_eq_false]; intro e he; simpa using h1 e he
  simp [hf, ha]

/-- **composition across two nesting levels**: renaming by the parent's table and then by the child's
is the composition of the two simultaneous substitutions -/
theorem C05_compose {V : Type} (m₁ m₂ : Table) (d : Dict V) (h₁ : (m₁.map (·.2)).Nodup) (h₂ : (m₂.map (·.2)).Nodup)
    (x : String) : (renameFixed m₂ (renameFixed m₁ d)).get? x =
      match m₂.find? (·.2 == x) with
      | some no => simul m₁ d no.1
      | none => if m₂.any (·.1 == x) then none else simul m₁ d x := by
  rw [renameFixed_spec m₂ _ h₂]
  rw [show simul m₂ (renameFixed m₁ d) x = (match m₂.find? (·.2 == x) with
      | some no => (renameFixed m₁ d).get? no.1
      | none => if m₂.any (·.1 == x) then none else (renameFixed m₁ d).get? x) from rfl]
  cases m₂.find? (·.2 == x) with
  | some no => exact renameFixed_spec m₁ d h₁ no.1
  | none =>
    simp only
    split
    · rfl
    · exact renameFixed_spec m₁ d h₁ x

/-- **precedence**: add_param-derived ≻ explicit call value ≻ solver default -/
theorem C05_precedence {V : Type} (defaults args derived : Dict V) (x : String) :
    (solverParams defaults args derived).get? x =
      ((Dict.lastOf derived.kv x).or (Dict.lastOf args.kv x)).or (Dict.lastOf defaults.kv x) := by
  unfold solverParams
  rw [Dict.get?_overlay, Dict.get?_overlay, Dict.get?_overlay]
  simp [Dict.get?, Option.or_assoc]

/-- **add_param arguments**: explicit value, else the current solver default, else the definition default -/
theorem C05_add_param_args {V : Type} (defn defaults args : Dict V) (k : String) (v0 : V)
    (h : defn.get? k = some v0) :
    (addParamArgs defn defaults args).get? k = some (((args.get? k).or (defaults.get? k)).getD v0) := by
  obtain ⟨l⟩ := defn
  unfold addParamArgs Dict.get? at *
  simp only at h ⊢
  induction l with
  | nil => simp at h
  | cons a t ih =>
    by_cases ha : a.1 = k
    · have h' : a.2 = v0 := by simpa [List.find?, ha] using h
      simp only [List.map_cons, List.find?, ha, beq_self_eq_true, Option.map_some, h']
    · have hb : (a.1 == k) = false := by simpa using ha
      have h' : (t.find? (·.1 == k)).map (·.2) = some v0 := by simpa [List.find?, hb] using h
      simp only [List.map_cons, List.find?, hb]
      exact ih h'

/-! ### precedence across a placement (hierarchy level) -/

namespace Dict
variable {V : Type}


theorem lastOf_eq_get?_of_nodup (l : List (String × V)) (h : (l.map (·.1)).Nodup) (x : String) :
    lastOf l x = (Dict.mk l).get? x := by
  induction l with
  | nil => rfl
  | cons a t ih =>
    rw [List.map_cons, List.nodup_cons] at h
    rw [lastOf_cons, ih h.2]
    unfold get?
    by_cases hx : a.1 = x
    · have hnone : t.find? (·.1 == x) = none := by
        rw [List.find?_eq_none]; intro e he hb
        exact h.1 (List.mem_map.2 ⟨e, he, by rw [hx]; simpa using hb⟩)
      simp [List.find?, hx, hnone]
    · have : (a.1 == x) = false := by simpa using hx
      simp only [List.find?, this]
      cases (t.find? (·.1 == x)) <;> simp [hx]

theorem set_keys_nodup (d : Dict V) (k : String) (v : V) (h : d.keys.Nodup) : (d.set k v).keys.Nodup := by
  unfold set keys at *
  split
  · rename_i hk
    have : (d.kv.map fun e => if e.1 == k then (k, v) else e).map (·.1) = d.kv.map (·.1) := by
      rw [List.map_map]
      apply List.map_congr_left
      intro e _
      by_cases he : e.1 = k
      · simp [he]
      · simp [he]
    rw [this]; exact h
  · rename_i hk
    have hk' : k ∉ d.kv.map (·.1) := by
      intro hm
      obtain ⟨e, he, hek⟩ := List.mem_map.1 hm
      apply hk
      unfold hasKey
      exact List.any_eq_true.2 ⟨e, he, by simpa using hek⟩
    rw [List.map_append, List.nodup_append]
    refine ⟨h, by simp, ?_⟩
    intro a ha b hb e
    have : b = k := by simpa using hb
    subst this; subst e; exact hk' ha

theorem overlay_keys_nodup (d e : Dict V) (h : d.keys.Nodup) : (d.overlay e).keys.Nodup := by
  unfold overlay
  induction e.kv generalizing d with
  | nil => simpa using h
  | cons a t ih => exact ih (d.set a.1 a.2) (set_keys_nodup d a.1 a.2 h)

end Dict

theorem solverParams_keys_nodup {V : Type} (defaults args derived : Dict V) : (solverParams defaults args derived).keys.Nodup := by
  unfold solverParams
  exact Dict.overlay_keys_nodup _ _ (Dict.overlay_keys_nodup _ _ (Dict.overlay_keys_nodup _ _ (by simp [Dict.keys])))

theorem renameFixed_keys_nodup {V : Type} (m : Table) (hold : (m.map (·.2)).Nodup) (d : Dict V) (hd : d.keys.Nodup) :
    (renameFixed m d).keys.Nodup := by
  unfold renameFixed Dict.keys at *
  rw [List.map_append, List.nodup_append]
  refine ⟨(List.filter_sublist.map _).nodup hd, ?_, ?_⟩
  · -- the added keys are old names of `m`, in order: a sublist of the (distinct) old names
    have : ((m.filterMap fun no => (d.get? no.1).map fun v => (no.2, v)).map (·.1)).Sublist (m.map (·.2)) := by
      induction m with
      | nil => simp
      | cons a t ih =>
        rw [List.filterMap_cons]
        cases d.get? a.1 with
        | none => simp only [Option.map_none, List.map_cons]; exact List.Sublist.cons _ (ih (List.nodup_cons.1 hold).2)
        | some v => simp only [Option.map_some, List.map_cons]; exact List.Sublist.cons_cons _ (ih (List.nodup_cons.1 hold).2)
    exact this.nodup hold
  · intro a ha b hb e
    subst e
    obtain ⟨e1, he1, rfl⟩ := List.mem_map.1 ha
    obtain ⟨e2, he2, hk⟩ := List.mem_map.1 hb
    obtain ⟨no, hno, hv⟩ := List.mem_filterMap.1 he2
    obtain ⟨he1d, hf⟩ := List.mem_filter.1 he1
    cases hg : d.get? no.1 with
    | none => rw [hg] at hv; cases hv
    | some v =>
      rw [hg] at hv
      simp only [Option.map_some, Option.some.injEq] at hv
      subst hv
      simp only [Bool.not_eq_true', List.any_eq_false, Bool.or_eq_true, beq_iff_eq, not_or] at hf
      exact (hf no hno).2 hk

/-- **precedence across a placement**: a placed child (own defaults `cd`) receives the parent's whole parameter
dictionary (parent defaults `pd` overlaid by the call values `args`) through a placement renamed by `m`.  For every
inner name `x` the child then uses the value the parent has for the name under which `x` is visible there - explicit
call value, else parent default - and only if the parent has none, its own default.  (Several levels: iterate, with
`C05_compose` / `C11_compose_general` for the renamings.) -/
theorem C05_precedence_hierarchy {V : Type} (m : Table) (hold : (m.map (·.2)).Nodup) (pd args cd : Dict V) (x : String) :
    (solverParams cd (renameFixed m (solverParams pd args ⟨[]⟩)) ⟨[]⟩).get? x =
      (simul m (solverParams pd args ⟨[]⟩) x).or (Dict.lastOf cd.kv x) := by
  rw [C05_precedence]
  have hk := renameFixed_keys_nodup m hold _ (solverParams_keys_nodup pd args ⟨[]⟩)
  rw [Dict.lastOf_eq_get?_of_nodup _ hk, C05_rename_simultaneous m _ hold]
  simp [Dict.lastOf]

/-- … and what the parent has for a name is: the call value, else its default -/
theorem C05_parent_value {V : Type} (pd args : Dict V) (y : String) :
    (solverParams pd args ⟨[]⟩).get? y = (Dict.lastOf args.kv y).or (Dict.lastOf pd.kv y) := by
  rw [C05_precedence]; simp [Dict.lastOf]

/-! non-vacuity: a swap and a chain on concrete tables -/
example : ((renameFixed [("B", "A"), ("A", "B")] (⟨[("A", 1), ("B", 2)]⟩ : Dict Nat)).get? "A",
           (renameFixed [("B", "A"), ("A", "B")] (⟨[("A", 1), ("B", 2)]⟩ : Dict Nat)).get? "B") = (some 2, some 1) := by
  decide
example : ((renameFixed [("C", "B"), ("B", "A")] (⟨[("B", 1), ("C", 2)]⟩ : Dict Nat)).get? "A",
           (renameFixed [("C", "B"), ("B", "A")] (⟨[("B", 1), ("C", 2)]⟩ : Dict Nat)).get? "B",
           (renameFixed [("C", "B"), ("B", "A")] (⟨[("B", 1), ("C", 2)]⟩ : Dict Nat)).get? "C") = (some 1, some 2, none) := by
  decide

/-! ### any nesting depth

A path of placements from the top solver down to a component: level `i` places the next lower solver (or, at the end,
the component) through the rename table `mᵢ`, and that lower level has its own defaults `cdᵢ`.  `descend` is what the
code does (every level: rename + shield what comes from above, then overlay it on the level's own defaults);
`descendSpec` is the rule of the property, stated on look-ups only. -/

theorem simul_eq_simulF {V : Type} (m : Table) (d : Dict V) (x : String) : simul m d x = simulF m d.get? x := rfl

/-- the rule: at every level a name gets the value visible above under the name it is exposed by (nothing if it is
shielded), else that level's own default -/
def descendSpec {V : Type} (L : String → Option V) : List (Table × Dict V) → String → Option V
  | [] => L
  | (m, cd) :: rest => descendSpec (fun x => (simulF m L x).or (Dict.lastOf cd.kv x)) rest

/-- **precedence and renaming at any depth**: for every path of placements (any length, any injective tables, any
defaults) and every name, the value used at the bottom is the one the rule gives -/
theorem C05_precedence_any_depth {V : Type} (levels : List (Table × Dict V))
    (hold : ∀ l ∈ levels, (l.1.map (·.2)).Nodup) (top : Dict V) (htop : top.keys.Nodup) (x : String) :
    (descend top levels).get? x = descendSpec top.get? levels x := by
  induction levels generalizing top with
  | nil => rfl
  | cons l rest ih =>
    obtain ⟨m, cd⟩ := l
    have hm : (m.map (·.2)).Nodup := hold (m, cd) List.mem_cons_self
    simp only [descend, descendSpec]
    rw [ih (fun l hl => hold l (List.mem_cons_of_mem _ hl)) _ (solverParams_keys_nodup _ _ _)]
    congr 1
    funext y
    rw [C05_precedence]
    have hk := renameFixed_keys_nodup m hm top htop
    rw [Dict.lastOf_eq_get?_of_nodup _ hk, C05_rename_simultaneous m _ hm, simul_eq_simulF]
    simp [Dict.lastOf]

/-- top of the path: call values over the top solver's defaults (any call, any defaults) -/
theorem C05_any_depth_from_call {V : Type} (levels : List (Table × Dict V))
    (hold : ∀ l ∈ levels, (l.1.map (·.2)).Nodup) (pd args : Dict V) (x : String) :
    (descend (solverParams pd args ⟨[]⟩) levels).get? x =
      descendSpec (fun y => (Dict.lastOf args.kv y).or (Dict.lastOf pd.kv y)) levels x := by
  rw [C05_precedence_any_depth levels hold _ (solverParams_keys_nodup _ _ _)]
  congr 1
  funext y
  exact C05_parent_value pd args y

/-! non-vacuity: three levels, a swap at the top, a chain below; the leaf's `A` is driven by the top-level `Q` -/
example : (descend (⟨[("Q", 5), ("B", 7)]⟩ : Dict Nat)
            [([("Q", "P")], ⟨[("P", 1)]⟩), ([("P", "B"), ("B", "A")], ⟨[("A", 2), ("B", 3)]⟩)]).get? "B" = some 5 := by decide
