import LekkerVerif.Model.Flatten
import LekkerVerif.Proofs.Compose
import LekkerVerif.Properties.C05

/-! # C11 — flatten() preserves the scattering matrix and every parameter's meaning

Structural part (what ends up where, termination) as theorems over placement trees; the composition of
rename tables of the (repaired) code: the general theorem `C11_compose_general` — for every pair of injective
tables the single table written by `flatten_top_level` acts on every visible parameter like the two nested
renamings of C05 — and the scenarios that failed on the pinned tree, evaluated in the kernel. -/

namespace Flatten

mutual
theorem leaves_inline : ∀ t : Tree, leaves (inlineTop t) = leaves t
  | .model i => by simp [inlineTop]
  | .solver cs => by
      simp only [inlineTop, leaves]
      exact leavesList_inline cs
theorem leavesList_inline : ∀ cs : List Tree,
    leavesList (cs.flatMap expandChild) = leavesList cs
  | [] => by simp [leavesList]
  | c :: cs => by
      have ih := leavesList_inline cs
      cases c with
      | model i => simp [List.flatMap_cons, expandChild, leavesList, leaves, ih]
      | solver ccs =>
        simp only [List.flatMap_cons, expandChild, leavesList, leaves]
        rw [← ih]
        exact leavesList_append ccs _
theorem leavesList_append : ∀ (a b : List Tree), leavesList (a ++ b) = leavesList a ++ leavesList b
  | [], b => by simp [leavesList]
  | x :: a, b => by simp [leavesList, leavesList_append a b, List.append_assoc]
end

/-- **one level of inlining keeps exactly the placed models, in order** (nothing lost, nothing duplicated) -/
theorem C11_inline_keeps_components (t : Tree) : leaves (inlineTop t) = leaves t := leaves_inline t

theorem flattenFuel_leaves (n : Nat) (t : Tree) : leaves (flattenFuel n t) = leaves t := by
  induction n generalizing t with
  | zero => rfl
  | succ n ih =>
    simp only [flattenFuel]
    split
    · rfl
    · rw [ih, leaves_inline]

/-- **flatten keeps exactly the placed models** -/
theorem C11_flatten_keeps_components (n : Nat) (t : Tree) : leaves (flattenFuel n t) = leaves t := flattenFuel_leaves n t

theorem depthList_append (a b : List Tree) : depthList (a ++ b) = max (depthList a) (depthList b) := by
  induction a with
  | nil => simp [depthList]
  | cons x a ih =>
    cases x with
    | model i => rw [List.cons_append, depthList, depthList, ih]; omega
    | solver ccs => rw [List.cons_append, depthList, depthList, ih]; omega

theorem depth_inline_list (cs : List Tree) :
    depthList (cs.flatMap expandChild) = depthList cs - 1 := by
  induction cs with
  | nil => simp [depthList]
  | cons c cs ih =>
    cases c with
    | model i =>
      rw [List.flatMap_cons, expandChild, List.cons_append, List.nil_append, depthList, depthList, ih]; omega
    | solver ccs =>
      rw [List.flatMap_cons, expandChild, depthList_append, depthList, ih]; omega

/-- each round removes one level of nesting -/
theorem C11_inline_depth (cs : List Tree) : depth (inlineTop (.solver cs)) = depth (.solver cs) - 1 := by
  simp only [inlineTop, depth]; exact depth_inline_list cs

theorem flat_of_depth_zero (cs : List Tree) (h : depthList cs = 0) : flat (.solver cs) = true := by
  induction cs with
  | nil => simp [flat]
  | cons c cs ih =>
    cases c with
    | model i =>
      simp only [depthList] at h
      have := ih (by omega)
      simp only [flat, List.all_cons, isModel, Bool.true_and] at this ⊢
      exact this
    | solver ccs => simp only [depthList] at h; omega

/-- **termination / no sub-solvers**: as many rounds as the nesting depth suffice, and the result has no
solver-backed structure -/
theorem C11_no_subsolvers (cs : List Tree) (n : Nat) (hn : depthList cs ≤ n) :
    flat (flattenFuel n (.solver cs)) = true := by
  induction n generalizing cs with
  | zero => exact flat_of_depth_zero cs (by omega)
  | succ n ih =>
    simp only [flattenFuel]
    split
    · assumption
    · simp only [inlineTop]
      apply ih
      rw [depth_inline_list]; omega

/-! ### rename tables: the scenarios that failed on the pinned tree, evaluated in the kernel -/

/-- a lower structure that shields `pb` (it renames pb → pb_v) does *not* receive the parent's rename pb → pb_u -/
theorem C11_compose_shielded :
    composeTables [("pb_u", "pb")] [("pb_v", "pb")] = [("pb_v", "pb")] ∧
    composeTables [("pb_u", "pb")] [] = [("pb_u", "pb")] := by decide

/-- composition across two levels, chain and swap -/
theorem C11_compose_chain_swap :
    composeTables [("T", "M")] [("M", "B")] = [("T", "B")] ∧
    composeTables [("A", "B"), ("B", "A")] [("B", "x")] = [("A", "x"), ("B", "A")] ∧
    -- the swap that lost an entry on the pinned tree: parent (A → B_r, B_r → A) over lower (B → B_r)
    composeTables [("B_r", "A"), ("A", "B_r")] [("B_r", "B")] = [("A", "B"), ("B_r", "A")] := by decide

/-- on these tables the composed table acts, on the parameter the lower structure owns, like the two renamings
applied one after the other (C05) -/
example : ∀ x ∈ ["pb"],
    (renameFixed (composeTables [("pb_u", "pb")] [("pb_v", "pb")]) (⟨[("pb_u", 1), ("pb_v", 2), ("pb", 3)]⟩ : Dict Nat)).get? x
      = (renameFixed [("pb_v", "pb")] (renameFixed [("pb_u", "pb")] (⟨[("pb_u", 1), ("pb_v", 2), ("pb", 3)]⟩ : Dict Nat))).get? x := by
  decide


/-- **flatten composes rename tables correctly** (general): parent table `P` (top ↦ middle) over lower table `L`
(middle ↦ bottom), both injective (distinct new names, distinct old names), the parent's new names not colliding with
a name the lower structure makes visible unless the parent renames that name away (C05's "injective renaming");
then for every dictionary `d` of top-level values and every bottom parameter `x` visible one level up under the
name `m`, the table written by `flatten_top_level` gives `x` the value the two nested renamings give it -/
theorem C11_compose_general {V : Type} (P L : Table) (d : Dict V)
    (hPo : (P.map (·.2)).Nodup) (hPn : (P.map (·.1)).Nodup) (hLo : (L.map (·.2)).Nodup) (hLn : (L.map (·.1)).Nodup)
    (hinj : ∀ t ∈ P.map (·.1), t ∈ L.map (·.1) → t ∈ P.map (·.2))
    (x m : String) (hm : midName L x = some m) (hx : m ∈ P.map (·.1) → m ∈ P.map (·.2)) :
    (renameFixed (composeTables P L) d).get? x = (renameFixed L (renameFixed P d)).get? x :=
  compose_general P L d hPo hPn hLo hLn hinj x m hm hx

/-- the composed table is again a table `update_params` applies as a simultaneous substitution, so the theorem
can be iterated level by level (deep hierarchies) -/
theorem C11_compose_wellformed (P L : Table)
    (hPo : (P.map (·.2)).Nodup) (hPn : (P.map (·.1)).Nodup) (hLo : (L.map (·.2)).Nodup) (hLn : (L.map (·.1)).Nodup)
    (hinj : ∀ t ∈ P.map (·.1), t ∈ L.map (·.1) → t ∈ P.map (·.2)) : ((composeTables P L).map (·.2)).Nodup :=
  compose_olds_nodup P L hPo hPn hLo hLn hinj

/-- non-vacuity: the hypotheses hold for a swap at the parent over a chain below (all four parameters visible) -/
example : let P : Table := [("A", "B"), ("B", "A")]; let L : Table := [("B", "x"), ("A", "y")]
    (P.map (·.2)).Nodup ∧ (P.map (·.1)).Nodup ∧ (L.map (·.2)).Nodup ∧ (L.map (·.1)).Nodup ∧
    (∀ t ∈ P.map (·.1), t ∈ L.map (·.1) → t ∈ P.map (·.2)) ∧ midName L "x" = some "B" ∧ midName L "y" = some "A" := by
  decide

/-- the injectivity hypothesis is needed, and it is C05's quantifier: a parent that renames `b` to a name `a` the
lower structure already exposes (without renaming `a` away) merges two parameters; the nested hierarchy then shields the
lower one while a single table cannot — the two sides differ on exactly such inputs -/
theorem C11_compose_needs_injective :
    (renameFixed (composeTables [("a", "b")] [("a", "b")]) (⟨[("a", 1)]⟩ : Dict Nat)).get? "b" = some 1 ∧
    (renameFixed [("a", "b")] (renameFixed [("a", "b")] (⟨[("a", 1)]⟩ : Dict Nat))).get? "b" = none := by decide

end Flatten
