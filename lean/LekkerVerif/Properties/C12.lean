import Mathlib.Logic.Relation
import Mathlib.Data.List.Basic
import LekkerVerif.Model.Split
import LekkerVerif.Core.Disjoint

/-! # C12 — split() yields the connected components -/

namespace Split

/-- connectivity: reflexive-transitive closure of "is a neighbour of" -/
def Conn (adj : Node → List Node) : Node → Node → Prop := Relation.ReflTransGen (fun x y => y ∈ adj x)

structure CInv (adj : Node → List Node) (done : List Node) (sets : List (List Node)) : Prop where
  disj : ∀ S ∈ sets, ∀ T ∈ sets, ∀ x, x ∈ S → x ∈ T → S = T
  conn : ∀ S ∈ sets, ∀ x ∈ S, ∀ y ∈ S, Conn adj x y
  cover : ∀ x ∈ done, ∃ S ∈ sets, x ∈ S ∧ ∀ y ∈ adj x, y ∈ S

theorem Conn.symm' {adj : Node → List Node} (hsym : ∀ x y, y ∈ adj x → x ∈ adj y) {x y : Node} (h : Conn adj x y) :
    Conn adj y x := by
  induction h with
  | refl => exact Relation.ReflTransGen.refl
  | tail _ hbc ih => exact Relation.ReflTransGen.head (hsym _ _ hbc) ih

theorem unionStep_inv (adj : Node → List Node) (hsym : ∀ x y, y ∈ adj x → x ∈ adj y)
    (done : List Node) (sets : List (List Node)) (st : Node) (inv : CInv adj done sets) :
    CInv adj (done ++ [st]) (unionStep sets st (adj st)) := by
  -- membership facts
  have memHit : ∀ S, S ∈ sets.filter (fun s => s.any ((st :: adj st).contains ·)) ↔
      S ∈ sets ∧ ∃ z ∈ S, z ∈ st :: adj st := by
    intro S; simp [List.mem_filter]
  have memMiss : ∀ S, S ∈ sets.filter (fun s => !s.any ((st :: adj st).contains ·)) ↔
      S ∈ sets ∧ ∀ z ∈ S, z ∉ st :: adj st := by
    intro S; simp [List.mem_filter]
  have memU : ∀ x, x ∈ (st :: adj st) ++ (sets.filter (fun s => s.any ((st :: adj st).contains ·))).flatten ↔
      x ∈ st :: adj st ∨ ∃ S, (S ∈ sets ∧ ∃ z ∈ S, z ∈ st :: adj st) ∧ x ∈ S := by
    intro x
    simp only [List.mem_append, List.mem_flatten]
    constructor
    · rintro (h | ⟨S, hS, hx⟩)
      · exact Or.inl h
      · exact Or.inr ⟨S, (memHit S).1 hS, hx⟩
    · rintro (h | ⟨S, hS, hx⟩)
      · exact Or.inl h
      · exact Or.inr ⟨S, (memHit S).2 hS, hx⟩
  -- every element of the new set is connected to `st`
  have toSt : ∀ x, x ∈ (st :: adj st) ++ (sets.filter (fun s => s.any ((st :: adj st).contains ·))).flatten →
      Conn adj st x := by
    intro x hx
    have grp : ∀ z, z ∈ st :: adj st → Conn adj st z := by
      intro z hz
      rcases List.mem_cons.1 hz with rfl | hz
      · exact Relation.ReflTransGen.refl
      · exact Relation.ReflTransGen.single hz
    rcases (memU x).1 hx with h | ⟨S, ⟨hS, z, hzS, hzg⟩, hxS⟩
    · exact grp x h
    · exact (grp z hzg).trans (inv.conn S hS z hzS x hxS)
  unfold unionStep
  simp only
  refine ⟨?_, ?_, ?_⟩
  · -- disjointness
    intro S hS T hT x hxS hxT
    rcases List.mem_append.1 hS with hS | hS <;> rcases List.mem_append.1 hT with hT | hT
    · exact inv.disj S ((memMiss S).1 hS).1 T ((memMiss T).1 hT).1 x hxS hxT
    · exfalso
      have hT' : T = _ := List.mem_singleton.1 hT
      rw [hT'] at hxT
      obtain ⟨hSs, hSm⟩ := (memMiss S).1 hS
      rcases (memU x).1 hxT with h | ⟨R, ⟨hR, z, hzR, hzg⟩, hxR⟩
      · exact hSm x hxS h
      · have := inv.disj S hSs R hR x hxS hxR
        subst this
        exact hSm z hzR hzg
    · exfalso
      have hS' : S = _ := List.mem_singleton.1 hS
      rw [hS'] at hxS
      obtain ⟨hTs, hTm⟩ := (memMiss T).1 hT
      rcases (memU x).1 hxS with h | ⟨R, ⟨hR, z, hzR, hzg⟩, hxR⟩
      · exact hTm x hxT h
      · have := inv.disj T hTs R hR x hxT hxR
        subst this
        exact hTm z hzR hzg
    · rw [List.mem_singleton.1 hS, List.mem_singleton.1 hT]
  · -- connectedness
    intro S hS x hx y hy
    rcases List.mem_append.1 hS with hS | hS
    · exact inv.conn S ((memMiss S).1 hS).1 x hx y hy
    · rw [List.mem_singleton.1 hS] at hx hy
      exact (Conn.symm' hsym (toSt x hx)).trans (toSt y hy)
  · -- coverage
    intro x hx
    rcases List.mem_append.1 hx with hx | hx
    · obtain ⟨S, hS, hxS, hadj⟩ := inv.cover x hx
      by_cases hm : ∀ z ∈ S, z ∉ st :: adj st
      · exact ⟨S, List.mem_append_left _ ((memMiss S).2 ⟨hS, hm⟩), hxS, hadj⟩
      · have hm' : ∃ z ∈ S, z ∈ st :: adj st := by
          by_contra hno
          exact hm (fun z hz hz' => hno ⟨z, hz, hz'⟩)
        refine ⟨_, List.mem_append_right _ (List.mem_singleton_self _), ?_, ?_⟩
        · exact (memU x).2 (Or.inr ⟨S, ⟨hS, hm'⟩, hxS⟩)
        · intro y hy
          exact (memU y).2 (Or.inr ⟨S, ⟨hS, hm'⟩, hadj y hy⟩)
    · have : x = st := List.mem_singleton.1 hx
      subst this
      refine ⟨_, List.mem_append_right _ (List.mem_singleton_self _), ?_, ?_⟩
      · exact (memU x).2 (Or.inl List.mem_cons_self)
      · intro y hy
        exact (memU y).2 (Or.inl (List.mem_cons_of_mem _ hy))

theorem components_inv (adj : Node → List Node) (hsym : ∀ x y, y ∈ adj x → x ∈ adj y) (structures : List Node) :
    CInv adj structures (components structures adj) := by
  have key : ∀ (todo done : List Node) (sets : List (List Node)), CInv adj done sets →
      CInv adj (done ++ todo) (todo.foldl (fun sets st => unionStep sets st (adj st)) sets) := by
    intro todo
    induction todo with
    | nil => intro done sets inv; simpa using inv
    | cons st rest ih =>
      intro done sets inv
      have := ih (done ++ [st]) _ (unionStep_inv adj hsym done sets st inv)
      simpa [List.append_assoc] using this
  have := key structures [] [] ⟨by simp, by simp, by simp⟩
  simpa [components] using this

/-- **two structures share a returned set exactly when a chain of connections links them** -/
theorem components_spec (adj : Node → List Node) (hsym : ∀ x y, y ∈ adj x → x ∈ adj y)
    (structures : List Node) (hclosed : ∀ x ∈ structures, ∀ y ∈ adj x, y ∈ structures)
    (x y : Node) (hx : x ∈ structures) :
    (∃ S ∈ components structures adj, x ∈ S ∧ y ∈ S) ↔ Conn adj x y := by
  have inv := components_inv adj hsym structures
  constructor
  · rintro ⟨S, hS, hxS, hyS⟩
    exact inv.conn S hS x hxS y hyS
  · intro h
    induction h with
    | refl =>
      obtain ⟨S, hS, hxS, _⟩ := inv.cover x hx
      exact ⟨S, hS, hxS, hxS⟩
    | tail hab hbc ih =>
      rename_i b c
      obtain ⟨S, hS, hxS, hbS⟩ := ih
      -- b is a structure (closedness along the chain), so its neighbours are in its set
      have hb : b ∈ structures := by
        clear hbS hbc
        induction hab with
        | refl => exact hx
        | tail _ h2 ih2 => exact hclosed _ ih2 _ h2
      obtain ⟨T, hT, hbT, hadj⟩ := inv.cover b hb
      have := inv.disj S hS T hT b hbS hbT
      subst this
      exact ⟨S, hS, hxS, hadj c hbc⟩


end Split

namespace Split

/-- **partition**: every declared structure lies in exactly one returned set -/
theorem C12_partition (adj : Node → List Node) (hsym : ∀ x y, y ∈ adj x → x ∈ adj y) (structures : List Node)
    (x : Node) (hx : x ∈ structures) :
    (∃ S ∈ components structures adj, x ∈ S) ∧
    ∀ S ∈ components structures adj, ∀ T ∈ components structures adj, x ∈ S → x ∈ T → S = T := by
  have inv := components_inv adj hsym structures
  refine ⟨?_, fun S hS T hT h1 h2 => inv.disj S hS T hT x h1 h2⟩
  obtain ⟨S, hS, hxS, _⟩ := inv.cover x hx
  exact ⟨S, hS, hxS⟩

/-- **components**: two structures share a returned set exactly when a chain of connections links them —
every topology (cycles, multi-links, isolated structures), every declaration order -/
theorem C12_components (adj : Node → List Node) (hsym : ∀ x y, y ∈ adj x → x ∈ adj y)
    (structures : List Node) (hclosed : ∀ x ∈ structures, ∀ y ∈ adj x, y ∈ structures)
    (x y : Node) (hx : x ∈ structures) :
    (∃ S ∈ components structures adj, x ∈ S ∧ y ∈ S) ↔ Conn adj x y :=
  components_spec adj hsym structures hclosed x y hx

/-! non-vacuity: a 3-chain declared A, C, B (the order that crashed the pinned loop) and a 3-cycle -/
example : (components [0, 2, 1] (fun i => if i = 0 then [1] else if i = 1 then [0, 2] else if i = 2 then [1] else [])).length = 1 := by
  decide
example : (components [0, 1, 2, 3] (fun i => if i = 0 then [1, 2] else if i = 1 then [0, 2] else if i = 2 then [0, 1] else [])).length = 2 := by
  decide

end Split


/-! ### each returned sub-circuit behaves like the original -/

/-- **behavioural half of C12**: let the circuit fall into two parts without a link between them (`ANet.Apart`: no common
pin, links and exposed pins stay on their side), with solution operators `T₁`, `T₂` (what the two solvers returned by
`split()` compute, C01).  Then *whatever* operator `T` solves the whole circuit (what the original solver computes) equals
`T₁` on the pins the first part owns and `T₂` on the pins the second part owns, and it has no coefficient between the two
parts.  (More than two components: apply it repeatedly, one component against the union of the others.) -/
theorem C12_component_behaves {F : Type} [Field F] {P : Type} [DecidableEq P] (N₁ N₂ : ANet P F) (ap : ANet.Apart N₁ N₂)
    (hn : (N₁.exposed ++ N₂.exposed).Nodup) (T T₁ T₂ : P → P → F)
    (h₁ : N₁.SolvedBy T₁) (h₂ : N₂.SolvedBy T₂) (hT : (ANet.union N₁ N₂).SolvedBy T) :
    (∀ x ∈ N₁.exposed, ∀ y ∈ N₁.exposed, T x y = T₁ x y) ∧ (∀ x ∈ N₂.exposed, ∀ y ∈ N₂.exposed, T x y = T₂ x y) ∧
    (∀ x ∈ N₁.exposed, ∀ y ∈ N₂.exposed, T x y = 0 ∧ T y x = 0) :=
  ANet.component_behaves ap hn T T₁ T₂ h₁ h₂ hT

/-- … and the whole is solvable whenever the parts are (the original solver does not fail where the sub-circuits succeed) -/
theorem C12_union_solved {F : Type} [Field F] {P : Type} [DecidableEq P] (N₁ N₂ : ANet P F) (ap : ANet.Apart N₁ N₂)
    (T₁ T₂ : P → P → F) (h₁ : N₁.SolvedBy T₁) (h₂ : N₂.SolvedBy T₂) [∀ p, Decidable (N₁.pinSet p)] :
    (ANet.union N₁ N₂).SolvedBy (ANet.sumOp N₁ T₁ T₂) := ANet.union_solvedBy ap T₁ T₂ h₁ h₂
