import LekkerVerif.Core.Complete
import LekkerVerif.Core.Sched
import LekkerVerif.Properties.C18
import LekkerVerif.Core.DefinedLoop

/-! # C01 — the solved S-matrix is the exact solution of the network equations

`NetD.solveWith sched net` is the executable transcription of `Solver.solve` (elimination loop over
`Structure.join`) for an arbitrary merge schedule; the native driver runs exactly this function and
the correspondence check compares it with the real package.  `NetD.Sol` is the network relation:
every component's scattering equation, `a p = b q ∧ a q = b p` for every accepted link, and no
incoming wave at an unexposed free pin.  Everything holds over every field and for every schedule. -/

namespace NetD
variable {F : Type} [Field F] [DecidableEq F]

/-- `T` (a coefficient per ordered pair of exposed pins) is the solution operator of the network -/
def SolvedBy (net : NetD F) (T : PinRef → PinRef → F) : Prop :=
  (∀ a b, net.Sol a b → ∀ e ∈ net.exposed, b e.2 = (net.exposed.map fun y => T e.2 y.2 * a y.2).sum) ∧
  (∀ v : PinRef → F, ∃ a b, net.Sol a b ∧ ∀ e ∈ net.exposed, a e.2 = v e.2)

/-- exposure hypotheses: exposed pins are distinct, exist, and are free (not an end of a link) -/
structure ExposureOK (net : NetD F) : Prop where
  nodup : (net.exposed.map (·.2)).Nodup
  free : ∀ e ∈ net.exposed, (∃ s0 ∈ net.initial, e.2 ∈ s0.pins) ∧ ∀ q, ¬ net.Lnk e.2 q

end NetD

open NetD

variable {F : Type} [Field F] [DecidableEq F]

/-- one merge: the merged structure's equation holds for every wave assignment that satisfies both
parts' equations and the equations of the links between them; its pins are the unlinked pins -/
theorem C01_join_sound (self st c : St F) (newId : Nat)
    (hs : self.pins.Nodup) (ht : st.pins.Nodup) (hd : ∀ p, p ∈ self.pins → p ∈ st.pins → False)
    (h : St.join self st newId = .ok c) :
    ∃ links : List (PinRef × PinRef), St.linkPins self st = .ok links ∧
      c.pins = self.pins.filter (fun p => !(links.map (·.1)).contains p)
                ++ st.pins.filter (fun p => !(links.map (·.2)).contains p) ∧
      ∀ a b : PinRef → F, Eqn self.pins self.sem a b → Eqn st.pins st.sem a b →
        (∀ l ∈ links, a l.1 = b l.2 ∧ a l.2 = b l.1) → Eqn c.pins c.sem a b :=
  St.join_sound self st c newId hs ht hd h

/-- **main theorem**: for every well-formed network, every exposure of free pins and every merge
schedule, if `solve` returns then the returned coefficients are the solution operator of the network
equations: every solution has the predicted outputs, and every excitation is realised by a solution -/
theorem C01_solve_solves (net : NetD F) (wf : net.WF) (ex : net.ExposureOK) (sched) (total : St F)
    (h : net.solveWith sched = .ok total) : net.SolvedBy total.sem := by
  constructor
  · intro a b hs
    obtain ⟨_, _, _, _, hin⟩ := solveWith_complete net wf sched total h ex.free (fun _ => 0)
    exact solveWith_readout net wf sched total h ex.nodup hin a b hs
  · intro v
    obtain ⟨a, b, hs, hv, _⟩ := solveWith_complete net wf sched total h ex.free v
    exact ⟨a, b, hs, hv⟩

/-- the solution operator is unique on the exposed pins: any two operators that solve the same
network agree (so "the unique solution of the network equations" is well defined) -/
theorem C01_solution_unique (net : NetD F) (hn : (net.exposed.map (·.2)).Nodup) (T T' : PinRef → PinRef → F)
    (h : net.SolvedBy T) (h' : net.SolvedBy T') :
    ∀ x ∈ net.exposed, ∀ y ∈ net.exposed, T x.2 y.2 = T' x.2 y.2 := by
  intro x hx y hy
  obtain ⟨a, b, hs, hv⟩ := h.2 (fun p => if p = y.2 then 1 else 0)
  have r := h.1 a b hs x hx
  have r' := h'.1 a b hs x hx
  have e : ∀ U : PinRef → PinRef → F, (net.exposed.map fun e => U x.2 e.2 * a e.2).sum = U x.2 y.2 := by
    intro U
    rw [← sum_indicator net.exposed hn (fun q => U x.2 q) y hy]
    congr 1
    apply List.map_congr_left
    intro e he
    rw [hv e he]
  rw [← e T, ← e T', ← r, ← r']

/-- a connection the model accepted is never left out: when `solve` returns, no pin of the final
structure is an end of a link (all links were eliminated), and every link is a conjunct of `Sol` -/
theorem C01_every_link_used (net : NetD F) (wf : net.WF) (sched) (total : St F)
    (h : net.solveWith sched = .ok total) :
    (∀ p ∈ total.pins, ∀ q, ¬ net.Lnk p q) ∧
    (∀ a b, net.Sol a b → ∀ l ∈ net.links, a l.1 = b l.2 ∧ a l.2 = b l.1) :=
  ⟨(solveWith_sound net wf sched total h).2, fun _ _ hs l hl => hs.link l hl⟩

/-- the kernel used inside `join` is the regenerated one (link to the translator-tied kernel) -/
theorem C01_kernel_is_generated {K : Type} [Field K] [DecidableEq K] (A B C : SMat K) (hA : A.WF) (hB : B.WF)
    (h : A.add? B = .ok C) :
    C.toSM A.N B.M = Generated.add (A.toSM A.N A.M) (B.toSM A.M B.M) :=
  (C18_exec_refines A B C hA hB h).2.2.2

/-- **definedness**: on a well-formed network with at least one component (every pin name of every component has a
matrix index), the elimination — with *any* valid merge schedule — either returns a model or fails because one inner
system `1 - S12 * S21` is singular.  No bookkeeping failure (a missing pin, an unmatched link, a shape mismatch in the
kernel, an exhausted loop) is reachable: "a connection the API accepted is never silently left out" has no
error-path exception either. -/
theorem C01_only_failure_is_singular (net : NetD F) (wf : net.WF) (hidx : net.IdxWF) (hne : net.comps ≠ [])
    (sched) (hv : Solve.ValidSched sched) :
    (∃ total, net.solveWith sched = .ok total) ∨ net.solveWith sched = .error .singular :=
  NetD.solveWith_ok_or_singular net wf hidx hne sched hv

/-- … in particular with the pin-count heuristic the code uses (which is a valid schedule) -/
theorem C01_only_failure_is_singular_heuristic (net : NetD F) (wf : net.WF) (hidx : net.IdxWF) (hne : net.comps ≠ [])
    (e : Err) (h : net.solveWith Solve.pySched = .error e) : e = .singular :=
  NetD.solveWith_pySched_error_singular net wf hidx hne e h

/-- one merge on a consistent elimination state succeeds exactly when its inner system is invertible -/
theorem C01_join_defined_iff (L : PinRef → PinRef → Prop) (B : Nat) (hsym : ∀ p q, L p q → L q p)
    (s t : St F) (n : Nat) (bs : Solve.Book L B s) (bt : Solve.Book L B t) (cs : Solve.ConnL L s)
    (hm : ∀ k, k ∈ St.membersOf s → k ∈ St.membersOf t → False) (is : Solve.Idx s) (it : Solve.Idx t) :
    ∃ (A B' : SMat F),
      ((∃ c, St.join s t n = .ok c) ↔ IsUnit (1 - (A.toSM A.N A.M).S12 * (B'.toSM A.M B'.M).S21)) ∧
      ∀ e, St.join s t n = .error e → e = .singular := by
  obtain ⟨_, _, _, A, B', _, _, _, _, _, h1, _, h3⟩ := St.join_defined L B hsym s t n bs bt cs hm is it
  exact ⟨A, B', h1, h3⟩

/-! non-vacuity of the definedness hypotheses: a concrete two-component network with one link is well formed, has an
index for every pin and is non-empty -/
section NonVacuity
def cNV : CompD ℚ := { pins := ["a", "b"], idx := [("a", 0), ("b", 1)], S := ⟨2, 2, #[0, 1, 1, 0]⟩ }
def netNV : NetD ℚ := { comps := [cNV, cNV], links := [((0, "b"), (1, "a"))], exposed := [("in", (0, "a")), ("out", (1, "b"))] }
example : netNV.IdxWF := by
  intro c hc n hn
  simp [netNV] at hc; subst hc
  simp [cNV] at hn
  rcases hn with rfl | rfl <;> decide
example : netNV.WF := by
  constructor
  · intro c hc; simp [netNV] at hc; subst hc; decide
  · decide
  · intro l hl p hp
    simp [netNV] at hl; subst hl
    rcases hp with rfl | rfl
    · exact ⟨cNV, by simp [netNV], by simp [cNV]⟩
    · exact ⟨cNV, by simp [netNV], by simp [cNV]⟩
  · intro l hl; simp [netNV] at hl; subst hl; decide
example : netNV.comps ≠ [] := by simp [netNV]
end NonVacuity
