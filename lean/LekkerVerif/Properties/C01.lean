import LekkerVerif.Core.Complete
import LekkerVerif.Core.Sched
import LekkerVerif.Properties.C18

/-! # C01 — the solved S-matrix is the exact solution of the network equations

`NetD.solveWith sched net` is the executable transcription of `Solver.solve` (elimination loop over
`Structure.join`) for an arbitrary merge schedule; the native driver runs exactly this function and
the correspondence check compares it with the real package.  `NetD.Sol` is the network relation:
every component's scattering equation, `a p = b q ∧ a q = b p` for every accepted link, and no
incoming wave at an unexposed free pin.  Everything holds over every field and for every schedule. -/

namespace NetD
variable {F : Type} [Field F] [DecidableEq F]

/-- `T` (a coefficient per ordered pair of exposed pins) is the solution operator of the network -/
def SolvedBy (net : NetD F) (T : PinRef → PinRef → F) : Prop :=
  (∀ a b, net.Sol a b → ∀ e ∈ net.exposed, b e.2 = (net.exposed.map fun y => T e.2 y.2 * a y.2).sum) ∧
  (∀ v : PinRef → F, ∃ a b, net.Sol a b ∧ ∀ e ∈ net.exposed, a e.2 = v e.2)

/-- exposure hypotheses: exposed pins are distinct, exist, and are free (not an end of a link) -/
structure ExposureOK (net : NetD F) : Prop where
  nodup : (net.exposed.map (·.2)).Nodup
  free : ∀ e ∈ net.exposed, (∃ s0 ∈ net.initial, e.2 ∈ s0.pins) ∧ ∀ q, ¬ net.Lnk e.2 q

end NetD

open NetD

variable {F : Type} [Field F] [DecidableEq F]

/-- one merge: the merged structure's equation holds for every wave assignment that satisfies both
parts' equations and the equations of the links between them; its pins are the unlinked pins -/
theorem C01_join_sound (self st c : St F) (newId : Nat)
    (hs : self.pins.Nodup) (ht : st.pins.Nodup) (hd : ∀ p, p ∈ self.pins → p ∈ st.pins → False)
    (h : St.join self st newId = .ok c) :
    ∃ links : List (PinRef × PinRef), St.linkPins self st = .ok links ∧
      c.pins = self.pins.filter (fun p => !(links.map (·.1)).contains p)
                ++ st.pins.filter (fun p => !(links.map (·.2)).contains p) ∧
      ∀ a b : PinRef → F, Eqn self.pins self.sem a b → Eqn st.pins st.sem a b →
        (∀ l ∈ links, a l.1 = b l.2 ∧ a l.2 = b l.1) → Eqn c.pins c.sem a b :=
  St.join_sound self st c newId hs ht hd h

/-- **main theorem**: for every well-formed network, every exposure of free pins and every merge
schedule, if `solve` returns then the returned coefficients are the solution operator of the network
equations: every solution has the predicted outputs, and every excitation is realised by a solution -/
theorem C01_solve_solves (net : NetD F) (wf : net.WF) (ex : net.ExposureOK) (sched) (total : St F)
    (h : net.solveWith sched = .ok total) : net.SolvedBy total.sem := by
  constructor
  · intro a b hs
    obtain ⟨_, _, _, _, hin⟩ := solveWith_complete net wf sched total h ex.free (fun _ => 0)
    exact solveWith_readout net wf sched total h ex.nodup hin a b hs
  · intro v
    obtain ⟨a, b, hs, hv, _⟩ := solveWith_complete net wf sched total h ex.free v
    exact ⟨a, b, hs, hv⟩

/-- the solution operator is unique on the exposed pins: any two operators that solve the same
network agree (so "the unique solution of the network equations" is well defined) -/
theorem C01_solution_unique (net : NetD F) (hn : (net.exposed.map (·.2)).Nodup) (T T' : PinRef → PinRef → F)
    (h : net.SolvedBy T) (h' : net.SolvedBy T') :
    ∀ x ∈ net.exposed, ∀ y ∈ net.exposed, T x.2 y.2 = T' x.2 y.2 := by
  intro x hx y hy
  obtain ⟨a, b, hs, hv⟩ := h.2 (fun p => if p = y.2 then 1 else 0)
  have r := h.1 a b hs x hx
  have r' := h'.1 a b hs x hx
  have e : ∀ U : PinRef → PinRef → F, (net.exposed.map fun e => U x.2 e.2 * a e.2).sum = U x.2 y.2 := by
    intro U
    rw [← sum_indicator net.exposed hn (fun q => U x.2 q) y hy]
    congr 1
    apply List.map_congr_left
    intro e he
    rw [hv e he]
  rw [← e T, ← e T', ← r, ← r']

/-- a connection the model accepted is never left out: when `solve` returns, no pin of the final
structure is an end of a link (all links were eliminated), and every link is a conjunct of `Sol` -/
theorem C01_every_link_used (net : NetD F) (wf : net.WF) (sched) (total : St F)
    (h : net.solveWith sched = .ok total) :
    (∀ p ∈ total.pins, ∀ q, ¬ net.Lnk p q) ∧
    (∀ a b, net.Sol a b → ∀ l ∈ net.links, a l.1 = b l.2 ∧ a l.2 = b l.1) :=
  ⟨(solveWith_sound net wf sched total h).2, fun _ _ hs l hl => hs.link l hl⟩

/-- the kernel used inside `join` is the regenerated one (link to the translator-tied kernel) -/
theorem C01_kernel_is_generated {K : Type} [Field K] [DecidableEq K] (A B C : SMat K) (hA : A.WF) (hB : B.WF)
    (h : A.add? B = .ok C) :
    C.toSM A.N B.M = Generated.add (A.toSM A.N A.M) (B.toSM A.M B.M) :=
  (C18_exec_refines A B C hA hB h).2.2.2
