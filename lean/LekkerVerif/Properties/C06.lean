import LekkerVerif.Model.Purity
import LekkerVerif.Generated.Tables
import LekkerVerif.Properties.C05

/-! # C06 — solve() is a pure query and its results are immutable snapshots -/

namespace Purity

/-- what the translator finds in the source today -/
def srcFlags : Flags := ⟨Generated.solveResetsParams, Generated.splitResetsPartition, Generated.monitorClosureBound⟩

/-- the source clears its working state before use and binds the monitor closure -/
theorem C06_source_flags : srcFlags = ⟨true, true, true⟩ ∧ Generated.solveResetsStructures = true := by decide

/-- **the result does not depend on what earlier calls left behind** — for *every* scratch state, not only
reachable ones: same circuit, same arguments ⇒ same result -/
theorem C06_scratch_independent {V R : Type} (f : Dict V → List Nat → R) (h₁ h₂ : Scratch V)
    (defaults args : Dict V) (thisMerge : List Nat) :
    solveM srcFlags f h₁ defaults args thisMerge = solveM srcFlags f h₂ defaults args thisMerge := by
  have hf := C06_source_flags.1
  simp only [solveM, resolve, partitionUsed, hf]
  rfl

/-- **repeatable / history-free**: after any sequence of earlier calls (each leaving an arbitrary scratch state) the
call gives what it gives on a fresh solver -/
theorem C06_repeatable {V R : Type} (f : Dict V → List Nat → R) (history : List (Scratch V)) (h : Scratch V)
    (defaults args : Dict V) (thisMerge : List Nat) :
    solveM srcFlags f (history.foldl (fun _ s => s) h) defaults args thisMerge
      = solveM srcFlags f ⟨⟨[]⟩, []⟩ defaults args thisMerge :=
  C06_scratch_independent f _ _ defaults args thisMerge

/-- the resolved parameters of a call are exactly defaults overlaid with the arguments (nothing else) -/
theorem C06_resolved_params {V : Type} (h : Scratch V) (defaults args : Dict V) (x : String) :
    (resolve srcFlags h defaults args).get? x = (Dict.lastOf args.kv x).or (Dict.lastOf defaults.kv x) := by
  have hf := C06_source_flags.1
  simp only [resolve, hf]
  rw [Dict.get?_overlay, Dict.get?_overlay]
  simp [Dict.get?]

/-- **snapshots**: a monitor read-out of a returned result does not change with the later state of the solver -/
theorem C06_snapshot {R : Type} (v now₁ now₂ : R) : readMon (makeMon srcFlags v) now₁ = readMon (makeMon srcFlags v) now₂ := by
  have hf := C06_source_flags.1
  simp only [makeMon, hf]
  rfl

/-! the pinned behaviour (flags off) violates each of the three, on concrete witnesses -/
theorem C06_poisoned_counterexample :
    (resolve (V := Nat) ⟨false, true, true⟩ ⟨⟨[("pb", 7)]⟩, []⟩ ⟨[("pa", 1)]⟩ ⟨[]⟩).get? "pb" = some 7 ∧
    (resolve (V := Nat) ⟨true, true, true⟩ ⟨⟨[("pb", 7)]⟩, []⟩ ⟨[("pa", 1)]⟩ ⟨[]⟩).get? "pb" = none := by decide
theorem C06_stale_partition_counterexample :
    partitionUsed (V := Nat) ⟨true, false, true⟩ ⟨⟨[]⟩, [4]⟩ [1, 2] = [4, 1, 2] ∧
    partitionUsed (V := Nat) ⟨true, true, true⟩ ⟨⟨[]⟩, [4]⟩ [1, 2] = [1, 2] := by decide
theorem C06_live_closure_counterexample :
    readMon (makeMon ⟨true, true, false⟩ (1 : Nat)) 2 = 2 ∧ readMon (makeMon ⟨true, true, true⟩ (1 : Nat)) 2 = 1 := by decide

end Purity
