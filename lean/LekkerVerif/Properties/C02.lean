import LekkerVerif.Properties.C01
import LekkerVerif.Core.Subst

/-! # C02 — hierarchy is transparent

What is proved here: at *every* level of a hierarchy the matrix a (sub-)solver hands to its parent is the
solution operator of that level's network (C01, any schedule), the single-structure fast path returns the
component's own matrix (bare component = solver with only that component), and the solution operator is
unique — so a parent sees a placed solver exactly as a component whose matrix is the solution operator of
the child.  The substitution step (the solutions of the parent network with the child replaced by that
component are the restrictions of the solutions of the inlined network) is `ANet.substitution` below; the
*executable* recursion over a whole hierarchy (`HNet.solveH`, what the driver runs) is tied to the flat
circuit in `Properties/C02Hier.lean`. -/

open NetD Solve

variable {F : Type} [Field F] [DecidableEq F]

/-- **single-structure fast path**: a solver that contains one component returns that component's own
matrix, whatever is exposed (bare component = wrapped component) -/
theorem C02_bare_component (c : CompD F) (exposed : List (String × PinRef)) (sched) :
    let net : NetD F := { comps := [c], links := [], exposed := exposed }
    net.solveWith sched = .ok (net.mkSt 0 c) := by
  intro net
  show loopWith sched 1 (net.initial) 1 = .ok (net.mkSt 0 c)
  have : net.initial = [net.mkSt 0 c] := by
    simp [NetD.initial, net, List.zipIdx]
  rw [this]
  simp [loopWith]

/-- the matrix of the wrapped component is the component's matrix on its pins -/
theorem C02_bare_component_sem (c : CompD F) (exposed : List (String × PinRef)) (p q : String) :
    let net : NetD F := { comps := [c], links := [], exposed := exposed }
    (net.mkSt 0 c).sem (0, p) (0, q) =
      match lookupL (c.idx.map fun ni => (((0 : Nat), ni.1), ni.2)) (0, p), lookupL (c.idx.map fun ni => (((0 : Nat), ni.1), ni.2)) (0, q) with
      | some i, some j => c.S.get i j
      | _, _ => default := by
  intro net
  rfl

/-- **every level hands up the solution operator of its own network** (C01 applied at that level), and that
operator is the only one: a parent cannot tell a placed solver from a component with this matrix -/
theorem C02_level_is_solution_operator (net : NetD F) (wf : net.WF) (ex : net.ExposureOK) (sched) (total : St F)
    (h : net.solveWith sched = .ok total) (T : PinRef → PinRef → F) (hT : net.SolvedBy T) :
    ∀ x ∈ net.exposed, ∀ y ∈ net.exposed, total.sem x.2 y.2 = T x.2 y.2 :=
  C01_solution_unique net ex.nodup total.sem T (C01_solve_solves net wf ex sched total h) hT


/-! ### substitution: a placed solver is indistinguishable from its inlined contents -/

/-- the network of a level as an abstract network: parts = components with their pin-keyed matrices -/
def NetD.toANet (net : NetD F) : ANet PinRef F :=
  { parts := net.initial.map fun s => (s.pins, s.sem), links := net.links, exposed := net.exposed.map (·.2) }

theorem NetD.toANet_sol (net : NetD F) (a b : PinRef → F) : net.toANet.Sol a b ↔ net.Sol a b := by
  constructor
  · intro h
    refine ⟨?_, h.link, ?_⟩
    · intro s hs; exact h.comp (s.pins, s.sem) (List.mem_map.2 ⟨s, hs, rfl⟩)
    · intro s hs p hp hfree hne
      exact h.free (s.pins, s.sem) (List.mem_map.2 ⟨s, hs, rfl⟩) p hp hfree hne
  · intro h
    refine ⟨?_, h.link, ?_⟩
    · intro part hp
      obtain ⟨s, hs, rfl⟩ := List.mem_map.1 hp
      exact h.comp s hs
    · intro part hp p hpp hfree hne
      obtain ⟨s, hs, rfl⟩ := List.mem_map.1 hp
      exact h.free s hs p hpp hfree hne

theorem NetD.toANet_solvedBy (net : NetD F) (T : PinRef → PinRef → F) : net.SolvedBy T → net.toANet.SolvedBy T := by
  intro h
  constructor
  · intro a b hs e he
    obtain ⟨x, hx, rfl⟩ := List.mem_map.1 he
    have := h.1 a b ((net.toANet_sol a b).1 hs) x hx
    rw [this]
    unfold rowSum NetD.toANet
    simp only [List.map_map]
    rfl
  · intro v
    obtain ⟨a, b, hs, hv⟩ := h.2 v
    refine ⟨a, b, (net.toANet_sol a b).2 hs, ?_⟩
    intro e he
    obtain ⟨x, hx, rfl⟩ := List.mem_map.1 he
    exact hv x hx

/-- **hierarchy is transparent**: let a sub-circuit be solved by the elimination loop (any schedule) and placed in a
parent — any other parts `out`, any parent links `Lp` reaching it through its exposed pins, any parent exposure `E`
(`ANet.Placed`).  Then an operator `T` is the solution operator of the parent network, in which the sub-circuit is one
component carrying the matrix its own `solve()` returned, if and only if `T` is the solution operator of the equivalent
single-level network made of the same components and connections. -/
theorem C02_transparent (child : NetD F) (wf : child.WF) (ex : child.ExposureOK) (sched) (total : St F)
    (h : child.solveWith sched = .ok total)
    (out : List (List PinRef × (PinRef → PinRef → F))) (Lp : List (PinRef × PinRef)) (E : List PinRef)
    (pl : ANet.Placed out child.toANet Lp E) (T : PinRef → PinRef → F) :
    (ANet.parent out child.toANet total.sem Lp E).SolvedBy T ↔ (ANet.inlined out child.toANet Lp E).SolvedBy T := by
  have hTc := child.toANet_solvedBy total.sem (C01_solve_solves child wf ex sched total h)
  exact ⟨ANet.substitution pl total.sem total.sem T hTc (fun _ _ _ _ => rfl),
         ANet.substitution_conv pl total.sem total.sem T hTc (fun _ _ _ _ => rfl)⟩

/-- **any nesting depth**: a grandchild inside a child inside a parent — the parent's operator is the operator of the
fully inlined network (one application of the substitution per level; the statement iterates in the same way) -/
theorem C02_transparent_nested {P : Type} [DecidableEq P]
    (gc : ANet P F) (outc : List (List P × (P → P → F))) (Lc : List (P × P)) (Ec : List P)
    (out : List (List P × (P → P → F))) (Lp : List (P × P)) (E : List P)
    (Tg Tc T : P → P → F)
    (pl1 : ANet.Placed outc gc Lc Ec) (hg : gc.SolvedBy Tg) (hc : (ANet.parent outc gc Tg Lc Ec).SolvedBy Tc)
    (pl2 : ANet.Placed out (ANet.inlined outc gc Lc Ec) Lp E)
    (hT : (ANet.parent out (ANet.parent outc gc Tg Lc Ec) Tc Lp E).SolvedBy T) :
    (ANet.inlined out (ANet.inlined outc gc Lc Ec) Lp E).SolvedBy T := by
  have h1 : (ANet.inlined outc gc Lc Ec).SolvedBy Tc := ANet.substitution pl1 Tg Tg Tc hg (fun _ _ _ _ => rfl) hc
  exact ANet.substitution pl2 Tc Tc T h1 (fun _ _ _ _ => rfl) hT

/-- non-vacuity of `Placed`: a two-port child (pins 0,1 linked to nothing inside, both exposed) next to a
two-port neighbour (pins 2,3), linked 1–2, exposure 0 and 3 -/
example : ANet.Placed (P := Nat) (F := F) [([2, 3], fun _ _ => 0)]
    { parts := [([0, 1], fun _ _ => 0)], links := [], exposed := [0, 1] } [(1, 2)] [0, 3] := by
  refine ⟨?_, ?_, ?_, ?_, ?_⟩
  · intro part hp p hpp ⟨cp, hcp, hin⟩
    simp only [List.mem_singleton] at hp hcp
    subst hp; subst hcp
    simp only [List.mem_cons, List.not_mem_nil, or_false] at hpp hin
    omega
  · intro l hl; cases hl
  · intro e he
    refine ⟨⟨([0, 1], fun _ _ => 0), by simp, he⟩, ?_⟩
    intro q hq; rcases hq with hq | hq <;> cases hq
  · intro l hl
    have : l = (1, 2) := by simpa using hl
    subst this
    refine ⟨fun _ => by simp, ?_⟩
    rintro ⟨cp, hcp, hin⟩
    simp only [List.mem_singleton] at hcp
    subst hcp
    simp at hin
  · intro e he ⟨cp, hcp, hin⟩
    simp only [List.mem_singleton] at hcp
    subst hcp
    exact hin
