import LekkerVerif.Properties.C01

/-! # C02 — hierarchy is transparent

What is proved here: at *every* level of a hierarchy the matrix a (sub-)solver hands to its parent is the
solution operator of that level's network (C01, any schedule), the single-structure fast path returns the
component's own matrix (bare component = solver with only that component), and the solution operator is
unique — so a parent sees a placed solver exactly as a component whose matrix is the solution operator of
the child.  The substitution step (the solutions of the parent network with the child replaced by that
component are the restrictions of the solutions of the inlined network) is not yet a theorem; it is
exercised by the oracle run on random hierarchies (DESIGN.md, C02). -/

open NetD Solve

variable {F : Type} [Field F] [DecidableEq F]

/-- **single-structure fast path**: a solver that contains one component returns that component's own
matrix, whatever is exposed (bare component = wrapped component) -/
theorem C02_bare_component (c : CompD F) (exposed : List (String × PinRef)) (sched) :
    let net : NetD F := { comps := [c], links := [], exposed := exposed }
    net.solveWith sched = .ok (net.mkSt 0 c) := by
  intro net
  show loopWith sched 1 (net.initial) 1 = .ok (net.mkSt 0 c)
  have : net.initial = [net.mkSt 0 c] := by
    simp [NetD.initial, net, List.zipIdx]
  rw [this]
  simp [loopWith]

/-- the matrix of the wrapped component is the component's matrix on its pins -/
theorem C02_bare_component_sem (c : CompD F) (exposed : List (String × PinRef)) (p q : String) :
    let net : NetD F := { comps := [c], links := [], exposed := exposed }
    (net.mkSt 0 c).sem (0, p) (0, q) =
      match lookupL (c.idx.map fun ni => (((0 : Nat), ni.1), ni.2)) (0, p), lookupL (c.idx.map fun ni => (((0 : Nat), ni.1), ni.2)) (0, q) with
      | some i, some j => c.S.get i j
      | _, _ => default := by
  intro net
  rfl

/-- **every level hands up the solution operator of its own network** (C01 applied at that level), and that
operator is the only one: a parent cannot tell a placed solver from a component with this matrix -/
theorem C02_level_is_solution_operator (net : NetD F) (wf : net.WF) (ex : net.ExposureOK) (sched) (total : St F)
    (h : net.solveWith sched = .ok total) (T : PinRef → PinRef → F) (hT : net.SolvedBy T) :
    ∀ x ∈ net.exposed, ∀ y ∈ net.exposed, total.sem x.2 y.2 = T x.2 y.2 :=
  C01_solution_unique net ex.nodup total.sem T (C01_solve_solves net wf ex sched total h) hT
