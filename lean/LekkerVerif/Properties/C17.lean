import LekkerVerif.Model.Stack
import LekkerVerif.Generated.Tables

/-! # C17 — the active-solver stack follows with-block nesting

`Stack.exec` interprets programs built from helper calls, `raise`, `with s: …` and `try: … except`.
The enter/exit behaviour is the one the translator reads from `Solver.__enter__/__exit__` in the
current source, and the helper table lists, for every module-level helper, which stack element it
dereferences. -/

namespace Stack

/-- the configuration found in the source today -/
def srcCfg : Cfg :=
  ⟨match Generated.enterKind with | .push => .push | _ => .nop,
   match Generated.exitKind with
   | .popAlways => .popAlways | .popOnNormal => .popOnNormal | .popOnRaise => .popOnRaise | _ => .nop⟩

/-- the source pushes on enter and pops unconditionally on exit -/
theorem C17_source_cfg : Generated.enterKind = .push ∧ Generated.exitKind = .popAlways ∧ srcCfg = Cfg.py := by
  decide

mutual
theorem exec_balanced_py : ∀ (p : Prog) (stk : List Nat), (exec Cfg.py p stk).1 = stk
  | .helper h, stk => by simp [exec]
  | .raise, stk => by simp [exec]
  | .withS s body, stk => by
      simp only [exec]
      have := execList_balanced_py body (doEnter Cfg.py s stk)
      simp only [doExit, Cfg.py, doEnter] at this ⊢
      rw [this]
      rfl
  | .tryS body, stk => by
      simp only [exec]
      exact execList_balanced_py body stk
theorem execList_balanced_py : ∀ (ps : List Prog) (stk : List Nat), (execList Cfg.py ps stk).1 = stk
  | [], stk => by simp [execList]
  | p :: ps, stk => by
      have h1 := exec_balanced_py p stk
      simp only [execList]
      split
      · rename_i stk' ev heq; rw [heq] at h1; exact h1
      · rename_i stk' ev heq
        rw [heq] at h1
        simp only at h1
        subst h1
        exact execList_balanced_py ps _
end

/-- **balanced**: after any program — any nesting, any re-entrant use of a solver, any point at which an
exception leaves a block, caught or not — the stack of active solvers equals the one before it -/
theorem C17_balanced (p : Prog) (stk : List Nat) : (exec srcCfg p stk).1 = stk := by
  rw [C17_source_cfg.2.2]; exact exec_balanced_py p stk

theorem C17_balanced_block (ps : List Prog) (stk : List Nat) : (execList srcCfg ps stk).1 = stk := by
  rw [C17_source_cfg.2.2]; exact execList_balanced_py ps stk

theorem events_append (pre rest : List Prog) (stk0 : List Nat)
    (hn : (execList Cfg.py pre stk0).2.2 = .normal) :
    (execList Cfg.py (pre ++ rest) stk0).2.1 = (execList Cfg.py pre stk0).2.1 ++ (execList Cfg.py rest stk0).2.1 := by
  induction pre generalizing stk0 with
  | nil => simp [execList]
  | cons p ps ih =>
    have hb := exec_balanced_py p stk0
    simp only [List.cons_append, execList] at hn ⊢
    split at hn
    · simp at hn
    · rename_i stk' ev heq
      rw [heq] at hb; simp only at hb; subst hb
      simp only [heq]
      simp only at hn
      rw [ih _ hn, List.append_assoc]

/-- **innermost**: a helper called directly in the body of `with s:` (after statements that did not
raise, whatever they nested) acts on `s` -/
theorem C17_innermost (s : Nat) (stk : List Nat) (h : Nat) (pre post : List Prog)
    (hpre : (execList srcCfg pre (s :: stk)).2.2 = .normal) :
    (h, some s) ∈ (exec srcCfg (.withS s (pre ++ [.helper h] ++ post)) stk).2.1 := by
  rw [C17_source_cfg.2.2] at hpre ⊢
  simp only [exec, doEnter, Cfg.py]
  have := events_append pre ([Prog.helper h] ++ post) (s :: stk) hpre
  simp only [Cfg.py] at this
  rw [List.append_assoc, this]
  apply List.mem_append_right
  simp [execList, exec]

/-- every module-level helper dereferences the top of the stack and nothing else -/
theorem C17_helpers : ∀ h ∈ Generated.helpers, h.2 = "top" := by decide

/-! non-vacuity: a nested, re-entrant program with an exception leaving two blocks and caught outside -/
example : (exec srcCfg (.tryS [.withS 1 [.helper 0, .withS 2 [.withS 1 [.helper 1, .raise], .helper 2]]]) [0]) =
    ([0], [(0, some 1), (1, some 1)], .normal) := by decide

end Stack
