import Mathlib.Analysis.Complex.Norm
import Mathlib.Analysis.SpecialFunctions.Pow.Real
import Mathlib.Data.List.Basic
import Mathlib.Tactic.FinCases
import Mathlib.Tactic.Ring
import Mathlib.Data.Fintype.Basic
import LekkerVerif.Generated.InPulse

/-! # C14 — InPulse export followed by import reproduces the model

The encoding is per coefficient `z ↦ (|z|², arg z)`, columns are named `"{in}//{out}"`, the import decodes
`√abs2 · e^{i·phase}` and looks columns up by name.  Text layers (CSV numbers, YAML) and scipy's interpolants are
assumptions with monitors in the harness (A-csv, A-yaml, A-interp).

Tie to the source (`C14_src_*`, end of the file): on every run the translator executes the export side and the import side of the
current `model.py` on a solved model with a symbolic matrix stack, the text layers and `interp1d` being replaced by what they are
assumed to be (`Generated/InPulse.lean`); every coefficient of the re-imported model - at both exported points, at the midpoint,
without and with a mode mapping - is identified with the exported one. -/

namespace C14

open Complex

/-- **decode ∘ encode = id on every coefficient**, zero included: `√(|z|²) · e^{i·arg z} = z` -/
theorem C14_amplitude (z : ℂ) : ((Real.sqrt (‖z‖ ^ 2) : ℝ) : ℂ) * Complex.exp (Complex.arg z * Complex.I) = z := by
  rw [Real.sqrt_sq (norm_nonneg z)]
  exact Complex.norm_mul_exp_arg_mul_I z

/-- the exported `abs2` column is what `get_T` reports and is never negative -/
theorem C14_abs2_nonneg (z : ℂ) : 0 ≤ ‖z‖ ^ 2 := by positivity

/-- **no transposition / no mix-up**: looking a coefficient up by its column name returns the coefficient of exactly
that ordered pin pair, provided the naming of ordered pairs is injective (true when no pin name contains "//") -/
theorem C14_no_transpose {P V : Type} [DecidableEq P] (name : P × P → String) (hinj : Function.Injective name)
    (table : List ((P × P) × V)) (k : P × P) :
    (table.map fun e => (name e.1, e.2)).lookup (name k) = table.lookup k := by
  induction table with
  | nil => rfl
  | cons e t ih =>
    obtain ⟨ek, ev⟩ := e
    by_cases h : k = ek
    · subst h; simp [List.lookup_cons]
    · have h1 : (name k == name ek) = false := by
        simpa using fun hh => h (hinj hh)
      have h2 : (k == ek) = false := by simpa using h
      simp only [List.map_cons, List.lookup_cons, h1, h2]
      exact ih

/-- piecewise-linear interpolation on one interval (the model of `interp1d` between neighbouring points) -/
noncomputable def lerp (x0 x1 : ℝ) (y0 y1 : ℂ) (x : ℝ) : ℂ := y0 + (((x - x0) / (x1 - x0) : ℝ) : ℂ) * (y1 - y0)

/-- **exported points are reproduced**, the first and the last of every interval included -/
theorem C14_nodes (x0 x1 : ℝ) (y0 y1 : ℂ) (h : x0 ≠ x1) : lerp x0 x1 y0 y1 x0 = y0 ∧ lerp x0 x1 y0 y1 x1 = y1 := by
  have hne : x1 - x0 ≠ 0 := sub_ne_zero.2 (Ne.symm h)
  constructor
  · simp [lerp]
  · simp only [lerp, div_self hne]
    push_cast
    ring

/-- **linear in between**: at `x = (1-t)·x0 + t·x1` the value is `(1-t)·y0 + t·y1` -/
theorem C14_linear (x0 x1 : ℝ) (y0 y1 : ℂ) (t : ℝ) (h : x0 ≠ x1) :
    lerp x0 x1 y0 y1 ((1 - t) * x0 + t * x1) = ((1 - t : ℝ) : ℂ) * y0 + (t : ℂ) * y1 := by
  have hne : x1 - x0 ≠ 0 := sub_ne_zero.2 (Ne.symm h)
  have : ((1 - t) * x0 + t * x1 - x0) / (x1 - x0) = t := by
    field_simp
    ring
  simp only [lerp, this]
  push_cast
  ring

/-- mode selection / renaming at load time: a pin is kept iff its mode is in the mapping, and then renamed -/
def mapPins {B : Type} (mm : List (String × String)) (pins : List (B × String)) : List ((B × String) × (B × String)) :=
  pins.filterMap fun p => (mm.lookup p.2).map fun m' => (p, (p.1, m'))

/-- **mode mapping selects and renames, nothing else**: the kept pins are exactly those whose mode is mapped -/
theorem C14_mode_map {B : Type} (mm : List (String × String)) (pins : List (B × String)) (p : B × String) (q : B × String) :
    (p, q) ∈ mapPins mm pins ↔ p ∈ pins ∧ ∃ m', mm.lookup p.2 = some m' ∧ q = (p.1, m') := by
  unfold mapPins
  simp only [List.mem_filterMap, Option.map_eq_some_iff]
  constructor
  · rintro ⟨a, ha, m', hm, heq⟩
    have : a = p ∧ (a.1, m') = q := by simpa using heq
    obtain ⟨rfl, rfl⟩ := this
    exact ⟨ha, m', hm, rfl⟩
  · rintro ⟨hp, m', hm, rfl⟩
    exact ⟨p, hp, m', hm, rfl⟩

/-- renaming a parameter on export and back on import cancels (for injective renamings of the parameter names) -/
theorem C14_param_names (ren back : String → String) (h : ∀ x, back (ren x) = x) (cols : List String) :
    (cols.map ren).map back = cols := by
  simp [List.map_map, Function.comp_def, h]

/-! ### the export and the import of the current source, traced end to end -/

section Source
open Generated.InPulse

/-- exported pins `p_TE, p_TM, q_TE` → matrix rows of the exported model -/
def idx : Fin 3 → Fin 3 := ![1, 2, 0]

/-- what the import computes from what the export wrote for one coefficient: `√abs2 · e^{1j·phase}` (two spellings) -/
noncomputable def dec (z : ℂ) : ℂ :=
  ((Real.sqrt (‖z‖ ^ (2 : ℕ)) : ℝ) : ℂ) * Complex.exp ((((1 : ℝ) : ℂ) * Complex.I) * ((Complex.arg z : ℝ) : ℂ))
noncomputable def dec' (z : ℂ) : ℂ :=
  ((Real.sqrt (‖z‖ ^ (2 : ℕ)) : ℝ) : ℂ) * Complex.exp (((Complex.arg z : ℝ) : ℂ) * (((1 : ℝ) : ℂ) * Complex.I))

theorem dec_eq (z : ℂ) : dec z = z := by
  have e : (((1 : ℝ) : ℂ) * Complex.I) * ((Complex.arg z : ℝ) : ℂ) = (Complex.arg z : ℂ) * Complex.I := by push_cast; ring
  unfold dec
  rw [e]; exact C14_amplitude z

theorem dec'_eq (z : ℂ) : dec' z = z := by
  have e : ((Complex.arg z : ℝ) : ℂ) * (((1 : ℝ) : ℂ) * Complex.I) = (Complex.arg z : ℂ) * Complex.I := by push_cast; ring
  unfold dec'
  rw [e]; exact C14_amplitude z

noncomputable def dec2 (z : ℂ) : ℂ :=
  ((Real.sqrt (‖z‖ ^ (2 : ℕ)) : ℝ) : ℂ) * Complex.exp (Complex.I * ((Complex.arg z : ℝ) : ℂ))
noncomputable def dec3 (z : ℂ) : ℂ :=
  ((Real.sqrt (‖z‖ ^ (2 : ℕ)) : ℝ) : ℂ) * Complex.exp (((Complex.arg z : ℝ) : ℂ) * Complex.I)

theorem dec2_eq (z : ℂ) : dec2 z = z := by
  unfold dec2
  rw [mul_comm Complex.I]; exact C14_amplitude z

theorem dec3_eq (z : ℂ) : dec3 z = z := by
  unfold dec3
  exact C14_amplitude z

theorem dec2_mid (z0 z1 : ℂ) :
    dec2 z0 + (((1 / 2 : ℝ) : ℝ) : ℂ) * (dec2 z1 - dec2 z0) = ((1 / 2 : ℝ) : ℂ) * z0 + ((1 / 2 : ℝ) : ℂ) * z1 := by
  rw [dec2_eq, dec2_eq]; push_cast; ring

theorem dec3_mid (z0 z1 : ℂ) :
    dec3 z0 + (((1 / 2 : ℝ) : ℝ) : ℂ) * (dec3 z1 - dec3 z0) = ((1 / 2 : ℝ) : ℂ) * z0 + ((1 / 2 : ℝ) : ℂ) * z1 := by
  rw [dec3_eq, dec3_eq]; push_cast; ring

theorem dec_mid (z0 z1 : ℂ) :
    dec z0 + (((1 / 2 : ℝ) : ℝ) : ℂ) * (dec z1 - dec z0) = ((1 / 2 : ℝ) : ℂ) * z0 + ((1 / 2 : ℝ) : ℂ) * z1 := by
  rw [dec_eq, dec_eq]; push_cast; ring

theorem dec'_mid (z0 z1 : ℂ) :
    dec' z0 + (((1 / 2 : ℝ) : ℝ) : ℂ) * (dec' z1 - dec' z0) = ((1 / 2 : ℝ) : ℂ) * z0 + ((1 / 2 : ℝ) : ℂ) * z1 := by
  rw [dec'_eq, dec'_eq]; push_cast; ring

variable (S : Fin 2 → Fin 3 → Fin 3 → ℂ)

/-- **exported points are reproduced, by pin**: at both sweep points the re-imported model has, between the pins that correspond
to the exported pins `a` and `b`, the exported coefficient `S k (row of a) (row of b)` - no transposition, no mix-up of columns -
without a mode mapping and with the mapping `TE -> (none), TM -> X` -/
theorem C14_src_nodes (a b : Fin 3) :
    plain_n0 S a b = S 0 (idx a) (idx b) ∧ plain_n1 S a b = S 1 (idx a) (idx b) ∧
    mapped_n0 S a b = S 0 (idx a) (idx b) ∧ mapped_n1 S a b = S 1 (idx a) (idx b) := by
  fin_cases a <;> fin_cases b <;>
    first
    | exact ⟨dec_eq _, dec_eq _, dec_eq _, dec_eq _⟩
    | exact ⟨dec'_eq _, dec'_eq _, dec'_eq _, dec'_eq _⟩
    | exact ⟨dec2_eq _, dec2_eq _, dec2_eq _, dec2_eq _⟩
    | exact ⟨dec3_eq _, dec3_eq _, dec3_eq _, dec3_eq _⟩

/-- **linear in between**: half way between the two exported points every coefficient is the mean of the exported ones -/
theorem C14_src_midpoint (a b : Fin 3) :
    plain_mid S a b = ((1 / 2 : ℝ) : ℂ) * S 0 (idx a) (idx b) + ((1 / 2 : ℝ) : ℂ) * S 1 (idx a) (idx b) ∧
    mapped_mid S a b = ((1 / 2 : ℝ) : ℂ) * S 0 (idx a) (idx b) + ((1 / 2 : ℝ) : ℂ) * S 1 (idx a) (idx b) := by
  fin_cases a <;> fin_cases b <;>
    first
    | exact ⟨dec_mid _ _, dec_mid _ _⟩
    | exact ⟨dec'_mid _ _, dec'_mid _ _⟩
    | exact ⟨dec2_mid _ _, dec2_mid _ _⟩
    | exact ⟨dec3_mid _ _, dec3_mid _ _⟩

/-- the pins of the re-imported model: the exported names without a mapping; with the mode mapping every pin is kept, `TE`
dropped from the name and `TM` renamed to `X` - each on its own matrix row (which row is immaterial: the import enumerates the
base names of a set) -/
theorem C14_src_pins :
    plain_pins.map (·.1) = ["p_TE", "p_TM", "q_TE"] ∧ mapped_pins.map (·.1) = ["p", "p_X", "q"] ∧
    (plain_pins.map (·.2)).Perm [0, 1, 2] ∧ (mapped_pins.map (·.2)).Perm [0, 1, 2] := by decide

end Source

end C14
