import Mathlib.Analysis.Complex.Norm
import Mathlib.Analysis.SpecialFunctions.Pow.Real
import Mathlib.Data.List.Basic

/-! # C14 — InPulse export followed by import reproduces the model

The encoding is per coefficient `z ↦ (|z|², arg z)`, columns are named `"{in}//{out}"`, the import decodes
`√abs2 · e^{i·phase}` and looks columns up by name.  Text layers (CSV numbers, YAML) and scipy's interpolants are
assumptions with monitors in the harness (A-csv, A-yaml, A-interp). -/

namespace C14

open Complex

/-- **decode ∘ encode = id on every coefficient**, zero included: `√(|z|²) · e^{i·arg z} = z` -/
theorem C14_amplitude (z : ℂ) : ((Real.sqrt (‖z‖ ^ 2) : ℝ) : ℂ) * Complex.exp (Complex.arg z * Complex.I) = z := by
  rw [Real.sqrt_sq (norm_nonneg z)]
  exact Complex.norm_mul_exp_arg_mul_I z

/-- the exported `abs2` column is what `get_T` reports and is never negative -/
theorem C14_abs2_nonneg (z : ℂ) : 0 ≤ ‖z‖ ^ 2 := by positivity

/-- **no transposition / no mix-up**: looking a coefficient up by its column name returns the coefficient of exactly
that ordered pin pair, provided the naming of ordered pairs is injective (true when no pin name contains "//") -/
theorem C14_no_transpose {P V : Type} [DecidableEq P] (name : P × P → String) (hinj : Function.Injective name)
    (table : List ((P × P) × V)) (k : P × P) :
    (table.map fun e => (name e.1, e.2)).lookup (name k) = table.lookup k := by
  induction table with
  | nil => rfl
  | cons e t ih =>
    obtain ⟨ek, ev⟩ := e
    by_cases h : k = ek
    · subst h; simp [List.lookup_cons]
    · have h1 : (name k == name ek) = false := by
        simpa using fun hh => h (hinj hh)
      have h2 : (k == ek) = false := by simpa using h
      simp only [List.map_cons, List.lookup_cons, h1, h2]
      exact ih

/-- piecewise-linear interpolation on one interval (the model of `interp1d` between neighbouring points) -/
noncomputable def lerp (x0 x1 : ℝ) (y0 y1 : ℂ) (x : ℝ) : ℂ := y0 + (((x - x0) / (x1 - x0) : ℝ) : ℂ) * (y1 - y0)

/-- **exported points are reproduced**, the first and the last of every interval included -/
theorem C14_nodes (x0 x1 : ℝ) (y0 y1 : ℂ) (h : x0 ≠ x1) : lerp x0 x1 y0 y1 x0 = y0 ∧ lerp x0 x1 y0 y1 x1 = y1 := by
  have hne : x1 - x0 ≠ 0 := sub_ne_zero.2 (Ne.symm h)
  constructor
  · simp [lerp]
  · simp only [lerp, div_self hne]
    push_cast
    ring

/-- **linear in between**: at `x = (1-t)·x0 + t·x1` the value is `(1-t)·y0 + t·y1` -/
theorem C14_linear (x0 x1 : ℝ) (y0 y1 : ℂ) (t : ℝ) (h : x0 ≠ x1) :
    lerp x0 x1 y0 y1 ((1 - t) * x0 + t * x1) = ((1 - t : ℝ) : ℂ) * y0 + (t : ℂ) * y1 := by
  have hne : x1 - x0 ≠ 0 := sub_ne_zero.2 (Ne.symm h)
  have : ((1 - t) * x0 + t * x1 - x0) / (x1 - x0) = t := by
    field_simp
    ring
  simp only [lerp, this]
  push_cast
  ring

/-- mode selection / renaming at load time: a pin is kept iff its mode is in the mapping, and then renamed -/
def mapPins {B : Type} (mm : List (String × String)) (pins : List (B × String)) : List ((B × String) × (B × String)) :=
  pins.filterMap fun p => (mm.lookup p.2).map fun m' => (p, (p.1, m'))

/-- **mode mapping selects and renames, nothing else**: the kept pins are exactly those whose mode is mapped -/
theorem C14_mode_map {B : Type} (mm : List (String × String)) (pins : List (B × String)) (p : B × String) (q : B × String) :
    (p, q) ∈ mapPins mm pins ↔ p ∈ pins ∧ ∃ m', mm.lookup p.2 = some m' ∧ q = (p.1, m') := by
  unfold mapPins
  simp only [List.mem_filterMap, Option.map_eq_some_iff]
  constructor
  · rintro ⟨a, ha, m', hm, heq⟩
    have : a = p ∧ (a.1, m') = q := by simpa using heq
    obtain ⟨rfl, rfl⟩ := this
    exact ⟨ha, m', hm, rfl⟩
  · rintro ⟨hp, m', hm, rfl⟩
    exact ⟨p, hp, m', hm, rfl⟩

/-- renaming a parameter on export and back on import cancels (for injective renamings of the parameter names) -/
theorem C14_param_names (ren back : String → String) (h : ∀ x, back (ren x) = x) (cols : List String) :
    (cols.map ren).map back = cols := by
  simp [List.map_map, Function.comp_def, h]

end C14
