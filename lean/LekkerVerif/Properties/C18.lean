import LekkerVerif.Proofs.KernelTie
import LekkerVerif.Core.RefineAdd
import LekkerVerif.Core.Batch
import LekkerVerif.Core.Defined

/-! # C18 — the star-product kernel is the exact elimination of the shared ports

All statements are about `Generated.add` / `Generated.intComplete`, i.e. the definitions the
translator regenerates from `/repo/lekkersim/scattering.py` on every run, over an arbitrary
field and arbitrary finite index types (so every dimension triple, zeros included).  The last
three are about the executable twin `SMat.add?` that the correspondence run compares with numpy. -/

open Matrix

variable {F : Type*} [Field F]
variable {n k l m : Type*} [Fintype n] [Fintype k] [Fintype l] [Fintype m]
  [DecidableEq n] [DecidableEq k] [DecidableEq l] [DecidableEq m]

/-- every solution of the pair's network equations has the outputs the star product predicts -/
theorem C18_sound (A : SM F n k) (B : SM F k m) (h : IsUnit (1 - A.S12 * B.S21))
    (u : n → F) (d : m → F) (rA : n → F) (rB : m → F) (f g : k → F) (he : PairEq A B u d rA rB f g) :
    rA = (Generated.add A B).S21 *ᵥ u + (Generated.add A B).S22 *ᵥ d ∧
    rB = (Generated.add A B).S11 *ᵥ u + (Generated.add A B).S12 *ᵥ d := by
  rw [Generated.add_eq]; exact star_sound A B h u d rA rB f g he

/-- for every excitation the pair equations have a solution (with exactly those outputs) -/
theorem C18_complete (A : SM F n k) (B : SM F k m) (h : IsUnit (1 - A.S12 * B.S21)) (u : n → F) (d : m → F) :
    ∃ f g, PairEq A B u d ((Generated.add A B).S21 *ᵥ u + (Generated.add A B).S22 *ᵥ d)
      ((Generated.add A B).S11 *ᵥ u + (Generated.add A B).S12 *ᵥ d) f g := by
  rw [Generated.add_eq]; exact star_complete A B h u d

/-- associativity, whenever the four inner systems are invertible -/
theorem C18_assoc (A : SM F n k) (B : SM F k l) (C : SM F l m)
    (hAB : IsUnit (1 - A.S12 * B.S21)) (hABC : IsUnit (1 - (Generated.add A B).S12 * C.S21))
    (hBC : IsUnit (1 - B.S12 * C.S21)) (hA_BC : IsUnit (1 - A.S12 * (Generated.add B C).S21)) :
    Generated.add (Generated.add A B) C = Generated.add A (Generated.add B C) := by
  simp only [Generated.add_eq] at *
  exact star_assoc A B C hAB hABC hBC hA_BC

/-- the reflectionless through-connection is the neutral element -/
theorem C18_identity (A : SM F n k) :
    Generated.add A (SM.through k) = A ∧ Generated.add (SM.through n) A = A := by
  simp only [Generated.add_eq]
  exact ⟨star_through_right A, star_through_left A⟩

/-- the interface amplitudes reported by `int_complete` are the (unique) interface waves of every
solution of the pair equations — in particular they satisfy both components' equations -/
theorem C18_interface (A : SM F n k) (B : SM F k m) (h : IsUnit (1 - A.S12 * B.S21))
    (u : n → F) (d : m → F) (rA : n → F) (rB : m → F) (f g : k → F) (he : PairEq A B u d rA rB f g) :
    Generated.intComplete A B u d = (f, g) := by
  rw [Generated.intComplete_eq]
  obtain ⟨h1, h2⟩ := star_waves A B h u d rA rB f g he
  simp only [SM.waves, ← h1, ← h2]

/-- … and such a solution exists, so the reported pair satisfies both components' equations -/
theorem C18_interface_satisfies (A : SM F n k) (B : SM F k m) (h : IsUnit (1 - A.S12 * B.S21))
    (u : n → F) (d : m → F) :
    (Generated.intComplete A B u d).1 = A.S11 *ᵥ u + A.S12 *ᵥ (Generated.intComplete A B u d).2 ∧
    (Generated.intComplete A B u d).2 = B.S21 *ᵥ (Generated.intComplete A B u d).1 + B.S22 *ᵥ d := by
  obtain ⟨f, g, he⟩ := star_complete A B h u d
  rw [C18_interface A B h u d _ _ f g he]
  exact ⟨he.2.1, he.2.2.1⟩

/-- the dimension guard and the declared result shape are present in the source -/
theorem C18_guard_in_source : Generated.addGuardPresent = true ∧ Generated.addResultDimsOk = true := by
  decide

/-- executable twin: mismatched intermediate dimensions are rejected -/
theorem C18_guard {K : Type} [Scalar K] (A B : SMat K) (h : A.M ≠ B.N) : A.add? B = .error .dimension := by
  unfold SMat.add?
  simp [h]

/-- executable twin refines the regenerated kernel: whenever `add?` returns, the guard held, the
inner system is a unit and the result *is* `Generated.add` of the operands -/
theorem C18_exec_refines {K : Type} [Field K] [DecidableEq K] (A B C : SMat K) (hA : A.WF) (hB : B.WF)
    (h : A.add? B = .ok C) :
    A.M = B.N ∧ C.WF ∧ IsUnit (1 - (A.toSM A.N A.M).S12 * (B.toSM A.M B.M).S21) ∧
    C.toSM A.N B.M = Generated.add (A.toSM A.N A.M) (B.toSM A.M B.M) := by
  obtain ⟨h1, _, _, h4, h5, h6⟩ := SMat.add?_spec A B C hA hB h
  exact ⟨h1, h4, h5, by rw [Generated.add_eq]; exact h6⟩

/-- **definedness** of the executable twin: on well-formed operands `add?` returns a result exactly when the
dimension guard holds and the inner system is invertible (Gauss–Jordan finds the inverse whenever it exists) -/
theorem C18_defined_iff {K : Type} [Field K] [DecidableEq K] (A B : SMat K) (hA : A.WF) (hB : B.WF) :
    (∃ C, A.add? B = .ok C) ↔
      (A.M = B.N ∧ IsUnit (1 - (A.toSM A.N A.M).S12 * (B.toSM A.M B.M).S21)) :=
  SMat.add?_ok_iff A B hA hB

/-- the two ways the kernel can fail, and exactly when: `dimension` iff the guard is violated, `singular` iff the
guard holds and the inner system has no inverse; there is no third failure -/
theorem C18_failure_cases {K : Type} [Field K] [DecidableEq K] (A B : SMat K) (hA : A.WF) (hB : B.WF) :
    (A.add? B = .error .dimension ↔ A.M ≠ B.N) ∧
    (A.add? B = .error .singular ↔
      (A.M = B.N ∧ ¬ IsUnit (1 - (A.toSM A.N A.M).S12 * (B.toSM A.M B.M).S21))) ∧
    (∀ e, A.add? B = .error e → e = .dimension ∨ e = .singular) :=
  ⟨SMat.add?_dimension_iff A B, SMat.add?_singular_iff A B hA hB, fun e h => SMat.add?_error_cases A B e h⟩

/-- a batched join equals the join of each slice (the model of numpy's leading sweep axis) -/
theorem C18_batch {K : Type} [Scalar K] (As Bs Cs : List (SMat K)) (hl : As.length = Bs.length)
    (h : SMat.addBatch As Bs = .ok Cs) :
    Cs.length = As.length ∧ ∀ i (hi : i < As.length) (hj : i < Bs.length) (hk : i < Cs.length),
      As[i].add? Bs[i] = .ok Cs[i] := by
  induction As generalizing Bs Cs with
  | nil => cases Bs <;> simp_all [SMat.addBatch]
  | cons a as ih =>
    cases Bs with
    | nil => simp at hl
    | cons b bs =>
      simp only [SMat.addBatch] at h
      split at h
      · simp at h
      · rename_i c hc
        split at h
        · simp at h
        · rename_i cs hcs
          simp only [Except.ok.injEq] at h
          subst h
          obtain ⟨hlen, hall⟩ := ih bs cs (by simpa using hl) hcs
          refine ⟨by simp [hlen], ?_⟩
          intro i hi hj hk
          cases i with
          | zero => simpa using hc
          | succ i => simpa using hall i (by simpa using hi) (by simpa using hj) (by simpa using hk)

/-! non-vacuity: the hypotheses are satisfiable on a concrete non-trivial pair -/
example : IsUnit (1 - (SM.through (F := ℚ) (Fin 2)).S12 * (SM.through (F := ℚ) (Fin 2)).S21) := by
  simp [SM.through]
