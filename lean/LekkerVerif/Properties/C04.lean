import LekkerVerif.Model.Sweep
import LekkerVerif.Generated.Tables
import LekkerVerif.Properties.C18
import LekkerVerif.Core.ShapeIndep
import LekkerVerif.Model.HierParams

/-! # C04 — a parameter sweep equals the stack of the individual scalar solves -/

namespace Sweep

theorem normStep_none (lens : List Nat) : lens.foldl normStep none = none := by
  induction lens with
  | nil => rfl
  | cons l ls ih => simpa [List.foldl, normStep] using ih

/-- invariant of the normalisation loop -/
theorem normalise_inv (lens : List Nat) (ns0 ns : Nat) (h : lens.foldl normStep (some ns0) = some ns) :
    (∀ l ∈ lens, l = 1 ∨ l = ns) ∧ (ns0 = 1 ∨ ns0 = ns) ∧ (ns = ns0 ∨ ns ∈ lens) := by
  induction lens generalizing ns0 with
  | nil => simp at h; subst h; simp
  | cons l ls ih =>
    simp only [List.foldl, normStep] at h
    by_cases h1 : l = 1
    · simp only [h1, ↓reduceIte] at h
      obtain ⟨a, b, c⟩ := ih ns0 h
      refine ⟨?_, b, ?_⟩
      · intro x hx
        rcases List.mem_cons.1 hx with rfl | hx
        · exact Or.inl h1
        · exact a x hx
      · rcases c with c | c
        · exact Or.inl c
        · exact Or.inr (List.mem_cons_of_mem _ c)
    · simp only [h1, ↓reduceIte] at h
      by_cases h2 : ns0 = 1
      · simp only [h2, ↓reduceIte] at h
        obtain ⟨a, b, c⟩ := ih l h
        have hl : l = ns := by rcases b with b | b; exact absurd b h1; exact b
        refine ⟨?_, Or.inl h2, Or.inr ?_⟩
        · intro x hx
          rcases List.mem_cons.1 hx with rfl | hx
          · exact Or.inr hl
          · exact a x hx
        · rw [← hl]; exact List.mem_cons_self
      · simp only [h2, ↓reduceIte] at h
        by_cases h3 : ns0 = l
        · simp only [h3, ↓reduceIte] at h
          obtain ⟨a, b, c⟩ := ih l h
          have hl : l = ns := by rcases b with b | b; exact absurd b h1; exact b
          refine ⟨?_, Or.inr (h3.trans hl), Or.inl (by rw [h3, hl])⟩
          intro x hx
          rcases List.mem_cons.1 hx with rfl | hx
          · exact Or.inr hl
          · exact a x hx
        · simp only [h3, ↓reduceIte] at h
          rw [normStep_none] at h
          exact absurd h (by simp)

/-- **accepted ⇒ consistent**: if the lengths are accepted with sweep length `ns`, every parameter has
length 1 or `ns`, and `ns` is 1 or one of the given lengths -/
theorem C04_normalise_sound (lens : List Nat) (ns : Nat) (h : normalise lens = some ns) :
    (∀ l ∈ lens, l = 1 ∨ l = ns) ∧ (ns = 1 ∨ ns ∈ lens) := by
  obtain ⟨a, _, c⟩ := normalise_inv lens 1 ns h
  exact ⟨a, c⟩

/-- **inconsistent ⇒ rejected**: two parameters of different lengths, both ≠ 1, are always rejected -/
theorem C04_normalise_rejects (lens : List Nat) (l₁ l₂ : Nat) (h₁ : l₁ ∈ lens) (h₂ : l₂ ∈ lens)
    (n₁ : l₁ ≠ 1) (n₂ : l₂ ≠ 1) (ne : l₁ ≠ l₂) : normalise lens = none := by
  cases h : normalise lens with
  | none => rfl
  | some ns =>
    obtain ⟨a, _⟩ := C04_normalise_sound lens ns h
    have e₁ := (a l₁ h₁).resolve_left n₁
    have e₂ := (a l₂ h₂).resolve_left n₂
    exact absurd (e₁.trans e₂.symm) ne

/-- **consistent ⇒ accepted** with the common length -/
theorem C04_normalise_complete (lens : List Nat) (n : Nat) (hn : n ≠ 1) (h : ∀ l ∈ lens, l = 1 ∨ l = n)
    (hex : n ∈ lens) : normalise lens = some n := by
  have key : ∀ (ls : List Nat) (ns0 : Nat), (ns0 = 1 ∨ ns0 = n) → (∀ l ∈ ls, l = 1 ∨ l = n) →
      ls.foldl normStep (some ns0) = some (if ns0 = n ∨ n ∈ ls then n else 1) := by
    intro ls
    induction ls with
    | nil =>
      intro ns0 h0 _
      rcases h0 with rfl | rfl
      · simp [Ne.symm hn]
      · simp
    | cons l ls ih =>
      intro ns0 h0 hl
      have hl' : ∀ x ∈ ls, x = 1 ∨ x = n := fun x hx => hl x (List.mem_cons_of_mem _ hx)
      simp only [List.foldl, normStep]
      rcases hl l List.mem_cons_self with rfl | rfl
      · simp only [↓reduceIte]
        rw [ih ns0 h0 hl']
        simp [hn]
      · simp only [hn, ↓reduceIte]
        rcases h0 with rfl | rfl
        · simp only [↓reduceIte]
          rw [ih l (Or.inr rfl) hl']
          simp
        · simp only [hn, ↓reduceIte]
          rw [ih ns0 (Or.inr rfl) hl']
          simp
  rw [normalise, key lens 1 (Or.inl rfl) h]
  simp [hex]

/-- broadcasting: a length-1 value is repeated, anything else is taken as is -/
theorem C04_bcast {α : Type} [Inhabited α] (ns : Nat) (v : List α) (k : Nat) (hk : k < ns) :
    (bcast ns v)[k]! = if v.length = 1 then v[0]! else v[k]! := by
  match v with
  | [] => simp [bcast]
  | [x] => simp [bcast, hk]
  | x :: y :: r => simp [bcast]

/-! ### the per-point loop of `Model.solve` with the shared buffer -/

theorem fold_val {P M : Type} (f : P → M) (copies : Bool) (kind : Kind) (hk : copies = true ∨ kind ≠ .buffer)
    (pts : List P) (r : Run M) (hr : ∀ s ∈ r.out, ∃ m, s = .val m) :
    ∃ c, pts.foldl (stepRun copies kind f) r = ⟨c, r.out ++ pts.map (fun p => .val (f p))⟩ := by
  induction pts generalizing r with
  | nil => exact ⟨r.cell, by simp⟩
  | cons p ps ih =>
    simp only [List.foldl]
    have hstep : ∃ c, stepRun copies kind f r p = ⟨c, r.out ++ [.val (f p)]⟩ := by
      unfold stepRun
      cases kind with
      | buffer =>
        rcases hk with hk | hk
        · simp [hk]
        · exact absurd rfl hk
      | fresh => exact ⟨r.cell, rfl⟩
      | fixed => exact ⟨r.cell, rfl⟩
    obtain ⟨c, hc⟩ := hstep
    rw [hc]
    obtain ⟨c', hc'⟩ := ih ⟨c, r.out ++ [.val (f p)]⟩ (by
      intro s hs
      rcases List.mem_append.1 hs with hs | hs
      · exact hr s hs
      · exact ⟨f p, by simpa using hs⟩)
    exact ⟨c', by rw [hc']; simp⟩

/-- **sweep = map of scalar evaluations** whenever the collected matrix is copied or the block does not
write into a persistent buffer -/
theorem C04_model_sweep {P M : Type} (copies : Bool) (kind : Kind) (f : P → M) (pts : List P)
    (hk : copies = true ∨ kind ≠ .buffer) : modelSweep copies kind f pts = pts.map f := by
  obtain ⟨c, hc⟩ := fold_val f copies kind hk pts ⟨none, []⟩ (by simp)
  unfold modelSweep finish
  rw [hc]
  simp only [List.nil_append, List.filterMap_map]
  induction pts with
  | nil => rfl
  | cons p ps ih => simp [deref]

/-- without the copy a buffer-backed block repeats its last matrix (the defect found on the pinned tree) -/
theorem C04_buffer_counterexample :
    modelSweep false .buffer (fun p : Nat => p * 10) [1, 2, 3] = [30, 30, 30] ∧
    modelSweep false .buffer (fun p : Nat => p * 10) [1, 2, 3] ≠ [1, 2, 3].map (fun p => p * 10) := by
  decide

def kindOf (s : String) : Kind := if s = "buffer" then .buffer else if s = "fixed" then .fixed else .fresh

/-- **the source today**: `Model.solve` copies what it collects, or no block class is buffer-backed; hence
every library block's sweep is the map of its scalar evaluations -/
theorem C04_source_blocks (P M : Type) (f : P → M) (pts : List P) :
    ∀ b ∈ Generated.blocks, modelSweep Generated.modelSolveCopies (kindOf b.2.2) f pts = pts.map f := by
  have h : Generated.modelSolveCopies = true ∨ ∀ b ∈ Generated.blocks, kindOf b.2.2 ≠ .buffer := by decide
  intro b hb
  apply C04_model_sweep
  rcases h with h | h
  · exact Or.inl h
  · exact Or.inr (h b hb)

/-- the batched kernel is the kernel of each slice (re-exported from C18) -/
theorem C04_batch {K : Type} [Scalar K] (As Bs Cs : List (SMat K)) (hl : As.length = Bs.length)
    (h : SMat.addBatch As Bs = .ok Cs) :
    Cs.length = As.length ∧ ∀ i (hi : i < As.length) (hj : i < Bs.length) (hk : i < Cs.length),
      As[i].add? Bs[i] = .ok Cs[i] := C18_batch As Bs Cs hl h

end Sweep


/-! ### one control flow for the whole sweep

All points of a sweep share the pins, index maps and wiring and differ only in the matrix values (`St.SameShape`).  The
bookkeeping of `Structure.join` and of the elimination loop - which pair is merged next, the surviving pins, their indices,
the connection tables - is a function of the shape alone, so running the loop once on the batched matrices is running it on
every slice; the only value-dependent outcome of a merge is a singular inner system. -/

section ControlFlow
variable {F : Type} [Scalar F]

/-- C04 (scheduled loop): two runs of the elimination on lists of structures that differ at most
in their matrices (two slices of a sweep), driven by a schedule that reads shape data only, end in
structures with the same id, pins, index map, connection table, neighbour list and members. -/
theorem C04_control_flow_value_independent (sched : List (St F) → Option (Nat × Nat))
    (hs : ∀ l l', Solve.SameShapes l l' → sched l = sched l') (fuel : Nat)
    {live live' : List (St F)} (h : Solve.SameShapes live live') (fresh : Nat) {s s' : St F}
    (e : Solve.loopWith sched fuel live fresh = .ok s)
    (e' : Solve.loopWith sched fuel live' fresh = .ok s') : s.SameShape s' :=
  Solve.loopWith_sameShape sched hs fuel h fresh e e'

/-- C04 (heuristic loop): the pin-count heuristic picks its pairs from shape data only. -/
theorem C04_control_flow_value_independent_heuristic (fuel : Nat)
    {live live' : List (St F)} (h : Solve.SameShapes live live') (fresh : Nat) {s s' : St F}
    (e : Solve.loop fuel live fresh = .ok s) (e' : Solve.loop fuel live' fresh = .ok s') :
    s.SameShape s' :=
  Solve.loop_sameShape fuel h fresh e e'

/-- C04 (single merge): on a same-shape slice a merge that succeeded can only fail by a singular
star product. -/
theorem C04_join_failure_value_dependent_only_singular {a a' b b' : St F} (ha : a.SameShape a')
    (hb : b.SameShape b') (n : Nat) {c : St F} (h : St.join a b n = .ok c) :
    (∃ c', St.join a' b' n = .ok c' ∧ c.SameShape c') ∨ St.join a' b' n = .error .singular := by
  rcases St.join_ok_of_sameShape_ne_singular ha hb n h with ⟨c', hc'⟩ | hs
  · exact Or.inl ⟨c', hc', St.join_sameShape ha hb n h hc'⟩
  · exact Or.inr hs

end ControlFlow

section HierSweep
variable {F : Type} [Scalar F]

/-- C04 (end-to-end model of a sweep over a hierarchy): when the lengths are consistent (`normalise` returns `ns`) the model of
`top.solve(**kw)` with array-valued parameters has `ns` points and point `i` *is* the scalar solve of the hierarchy at the `i`-th
values (length-1 values broadcast); inconsistent lengths are rejected.  This is the reference the batched computation of the code
is compared with on every run (`phsweep`). -/
theorem C04_model_hier_sweep (sched : List (St F) → Option (Nat × Nat)) (kw : List (String × List F)) (t : PNet F) :
    (Sweep.normalise (kw.map (·.2.length)) = none → PNet.psweep sched kw t = none) ∧
    (∀ ns, Sweep.normalise (kw.map (·.2.length)) = some ns →
      ∃ rs, PNet.psweep sched kw t = some rs ∧ rs.length = ns ∧
        ∀ i (hi : i < rs.length), rs[i] =
          PNet.psolve sched ⟨kw.map fun kv => (kv.1, ((Sweep.bcast ns kv.2)[i]?).getD default)⟩ t) := by
  constructor
  · intro h; simp [PNet.psweep, h]
  · intro ns h
    refine ⟨(List.range ns).map fun i =>
      PNet.psolve sched ⟨kw.map fun kv => (kv.1, ((Sweep.bcast ns kv.2)[i]?).getD default)⟩ t, ?_, by simp, ?_⟩
    · simp only [PNet.psweep, h]
    · intro i hi
      simp

end HierSweep
