import Mathlib.Analysis.SpecialFunctions.Log.Base
import Mathlib.Analysis.Complex.Norm
import Mathlib.LinearAlgebra.Matrix.ToLin
import LekkerVerif.Generated.Tables

/-! # C15 — read-out helpers are faithful, linear views of the scattering matrix

The accessor formulas are read from the source on every run (`Generated.accessors`); `C15_formulas_in_source`
pins them to the forms the theorems below are about. -/

namespace C15

open Matrix

/-- the defining expressions found in the source are the ones modelled here -/
theorem C15_formulas_in_source :
    Generated.accessors.lookup "get_T" = some "np.abs(self.S[0, self.pin_dic[self.pin[pin1]], self.pin_dic[self.pin[pin2]]]) ** 2.0" ∧
    Generated.accessors.lookup "get_PH" = some "np.angle(self.S[0, self.pin_dic[self.pin[pin1]], self.pin_dic[self.pin[pin2]]])" ∧
    Generated.accessors.lookup "get_A" = some "self.S[0, self.pin_dic[self.pin[pin1]], self.pin_dic[self.pin[pin2]]]" ∧
    Generated.accessors.lookup "get_data.T" = some "np.abs(self.S[:, i1, i2]) ** 2.0" ∧
    Generated.accessors.lookup "get_data.dB" = some "20.0 * np.log10(np.abs(self.S[:, i1, i2]))" ∧
    Generated.accessors.lookup "get_data.Phase" = some "np.angle(self.S[:, i1, i2])" ∧
    Generated.accessors.lookup "get_data.Amplitude" = some "self.S[:, i1, i2]" ∧
    Generated.accessors.lookup "get_output.d" = some "np.dot(self.S[0, :, :], u)" ∧
    Generated.accessors.lookup "get_output.u[i]" = some "input_pin_dic[pin]" ∧
    Generated.accessors.lookup "get_output.out_dic[pin.name]" = some "np.abs(d[i]) ** 2.0 if power else d[i]" ∧
    Generated.accessors.lookup "get_full_output.output" = some "np.matmul(self.S, u)" ∧
    Generated.accessors.lookup "get_full_output.params[pin.name]" = some "np.abs(output[:, i]) ** 2.0 if power else output[:, i]" ∧
    Generated.accessors.lookup "get_full_data.params[p1, p2]" = some "self.S[:, i1, i2]" := by
  decide

variable {n : Type*} [Fintype n] [DecidableEq n]

/-- excitation vector: the given amplitudes, zero at unspecified pins -/
def excite (d : List (n × ℂ)) : n → ℂ := fun i => (d.lookup i).getD 0

/-- `get_output(power=False)`: `np.dot(S[0], u)` -/
def output (S : Matrix n n ℂ) (u : n → ℂ) : n → ℂ := S *ᵥ u
/-- `get_output(power=True)`: `np.abs(d[i]) ** 2` -/
noncomputable def outputPower (S : Matrix n n ℂ) (u : n → ℂ) : n → ℝ := fun i => ‖(S *ᵥ u) i‖ ^ 2

/-- **superposition**: the reported outputs are linear in the excitation -/
theorem C15_output_linear (S : Matrix n n ℂ) (u v : n → ℂ) (c : ℂ) :
    output S (u + c • v) = output S u + c • output S v := by
  unfold output
  rw [Matrix.mulVec_add, Matrix.mulVec_smul]

/-- the amplitude at pin `i` is `Σ_j S i j * u j` -/
theorem C15_output_entry (S : Matrix n n ℂ) (u : n → ℂ) (i : n) : output S u i = ∑ j, S i j * u j := by
  simp [output, Matrix.mulVec, dotProduct]

/-- **power mode = squared moduli of amplitude mode** -/
theorem C15_output_power (S : Matrix n n ℂ) (u : n → ℂ) (i : n) : outputPower S u i = ‖output S u i‖ ^ 2 := rfl

/-- **unspecified pins count as zero** -/
theorem C15_missing_zero (d : List (n × ℂ)) (i : n) (h : ∀ e ∈ d, e.1 ≠ i) : excite d i = 0 := by
  unfold excite
  have : d.lookup i = none := by
    rw [List.lookup_eq_none_iff]
    intro e he
    have := h e he
    simpa [bne_iff_ne, ne_comm] using this
  rw [this]; rfl

/-- `T = |A|^2`, `dB = 20 log10 |A| = 10 log10 T` (for `A ≠ 0`; at `A = 0` numpy reports `-inf` for both forms) -/
theorem C15_T_dB (A : ℂ) (hA : A ≠ 0) :
    20 * Real.logb 10 ‖A‖ = 10 * Real.logb 10 (‖A‖ ^ 2) := by
  have hpos : 0 < ‖A‖ := norm_pos_iff.2 hA
  rw [Real.logb_pow]
  push_cast
  ring

/-- `T` is the squared modulus and never negative; phase is the argument: `A = |A| e^{i phase}` -/
theorem C15_T_phase (A : ℂ) : ‖A‖ ^ 2 = Complex.normSq A ∧ (‖A‖ : ℂ) * Complex.exp (Complex.arg A * Complex.I) = A := by
  refine ⟨?_, Complex.norm_mul_exp_arg_mul_I A⟩
  rw [Complex.normSq_eq_norm_sq]

/-- **sweep rows**: row `k` of a sweep table built point-wise from a stack `S k` is the scalar read-out of point `k` -/
theorem C15_sweep_rows {ι : Type*} (S : ι → Matrix n n ℂ) (u : n → ℂ) (k : ι) (i : n) :
    (fun k => output (S k) u i) k = output (S k) u i ∧ (fun k => ‖(S k) i i‖ ^ 2) k = ‖(S k) i i‖ ^ 2 := ⟨rfl, rfl⟩

end C15
