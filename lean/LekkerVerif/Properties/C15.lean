import Mathlib.Analysis.SpecialFunctions.Log.Base
import Mathlib.Analysis.Complex.Norm
import Mathlib.LinearAlgebra.Matrix.ToLin
import Mathlib.Tactic.FinCases
import Mathlib.Tactic.Ring
import LekkerVerif.Generated.Readout

/-! # C15 — read-out helpers are faithful, linear views of the scattering matrix

The size-generic model (`excite`, `output`, `outputPower`, the scalar accessors) and its laws come first.  The tie to
the source is semantic: on every run the translator *executes* `get_T / get_PH / get_A / get_output / get_data /
get_full_output / get_full_data` of the current `model.py` on a solved model with a symbolic matrix stack
(`Generated/Readout.lean`: two sweep points, three pins at permuted matrix indices, one pin left unexcited), and the
`C15_src_*` theorems identify every traced result with the model evaluated at that instance — so a rewrite of the
helpers that keeps their meaning re-proves, and a change of meaning (transposed entry, wrong sweep slice, power taken
before the sum, stale excitation, …) does not. -/

namespace C15

open Matrix

variable {n : Type*} [Fintype n] [DecidableEq n]

/-- excitation vector: the given amplitudes, zero at unspecified pins -/
def excite (d : List (n × ℂ)) : n → ℂ := fun i => (d.lookup i).getD 0

/-- `get_output(power=False)`: `np.dot(S[0], u)` -/
def output (S : Matrix n n ℂ) (u : n → ℂ) : n → ℂ := S *ᵥ u
/-- `get_output(power=True)`: `np.abs(d[i]) ** 2` -/
noncomputable def outputPower (S : Matrix n n ℂ) (u : n → ℂ) : n → ℝ := fun i => ‖(S *ᵥ u) i‖ ^ 2

/-- **superposition**: the reported outputs are linear in the excitation -/
theorem C15_output_linear (S : Matrix n n ℂ) (u v : n → ℂ) (c : ℂ) :
    output S (u + c • v) = output S u + c • output S v := by
  unfold output
  rw [Matrix.mulVec_add, Matrix.mulVec_smul]

/-- the amplitude at pin `i` is `Σ_j S i j * u j` -/
theorem C15_output_entry (S : Matrix n n ℂ) (u : n → ℂ) (i : n) : output S u i = ∑ j, S i j * u j := by
  simp [output, Matrix.mulVec, dotProduct]

/-- **power mode = squared moduli of amplitude mode** -/
theorem C15_output_power (S : Matrix n n ℂ) (u : n → ℂ) (i : n) : outputPower S u i = ‖output S u i‖ ^ 2 := rfl

/-- **unspecified pins count as zero** -/
theorem C15_missing_zero (d : List (n × ℂ)) (i : n) (h : ∀ e ∈ d, e.1 ≠ i) : excite d i = 0 := by
  unfold excite
  have : d.lookup i = none := by
    rw [List.lookup_eq_none_iff]
    intro e he
    have := h e he
    simpa [bne_iff_ne, ne_comm] using this
  rw [this]; rfl

/-- `T = |A|^2`, `dB = 20 log10 |A| = 10 log10 T` (for `A ≠ 0`; at `A = 0` numpy reports `-inf` for both forms) -/
theorem C15_T_dB (A : ℂ) (hA : A ≠ 0) :
    20 * Real.logb 10 ‖A‖ = 10 * Real.logb 10 (‖A‖ ^ 2) := by
  have hpos : 0 < ‖A‖ := norm_pos_iff.2 hA
  rw [Real.logb_pow]
  push_cast
  ring

/-- `T` is the squared modulus and never negative; phase is the argument: `A = |A| e^{i phase}` -/
theorem C15_T_phase (A : ℂ) : ‖A‖ ^ 2 = Complex.normSq A ∧ (‖A‖ : ℂ) * Complex.exp (Complex.arg A * Complex.I) = A := by
  refine ⟨?_, Complex.norm_mul_exp_arg_mul_I A⟩
  rw [Complex.normSq_eq_norm_sq]

/-- **sweep rows**: row `k` of a sweep table built point-wise from a stack `S k` is the scalar read-out of point `k` -/
theorem C15_sweep_rows {ι : Type*} (S : ι → Matrix n n ℂ) (u : n → ℂ) (k : ι) (i : n) :
    (fun k => output (S k) u i) k = output (S k) u i ∧ (fun k => ‖(S k) i i‖ ^ 2) k = ‖(S k) i i‖ ^ 2 := ⟨rfl, rfl⟩


/-! ### the helpers of the current source, traced on a symbolic solved model, are this model -/

section Source
open Generated.Readout

/-- pins `p, q, p_m1` of the traced instance → their matrix indices -/
def idx : Fin 3 → Fin 3 := ![2, 0, 1]
/-- the traced excitation `{p: up, p_m1: ur}` by matrix index; `q` (index 0) is not mentioned -/
def exc (up ur : ℂ) : Fin 3 → ℂ := excite [((2 : Fin 3), up), (1, ur)]

theorem exc_vals (up ur : ℂ) : exc up ur 0 = 0 ∧ exc up ur 1 = ur ∧ exc up ur 2 = up := by
  refine ⟨?_, ?_, ?_⟩ <;> simp [exc, excite, List.lookup]

/-- closes `traced = model` after unfolding: equal up to ring normalisation, possibly under a norm / arg / log -/
macro "readout_tie" : tactic =>
  `(tactic| first
    | done
    | rfl
    | ring
    | (congr 1; ring)
    | (congr 2; ring)
    | (congr 3; ring)
    | (ring_nf; done))

set_option linter.unusedTactic false
set_option linter.unreachableTactic false
set_option linter.unusedSimpArgs false

variable (S : Fin 2 → Matrix (Fin 3) (Fin 3) ℂ) (up ur : ℂ)

/-- `get_T / get_PH / get_A("p", "q")`: squared modulus, argument and value of the entry (row of `p`, column of `q`) of
the first sweep point -/
theorem C15_src_scalar :
    get_T S = ‖S 0 (idx 0) (idx 1)‖ ^ 2 ∧ get_PH S = Complex.arg (S 0 (idx 0) (idx 1)) ∧ get_A S = S 0 (idx 0) (idx 1) := by
  refine ⟨?_, ?_, ?_⟩ <;> simp [get_T, get_PH, get_A, idx] <;> readout_tie

/-- `get_output`: amplitudes are `S[0] · u` with `u` the excitation (unspecified pin = 0), powers their squared moduli,
reported per pin through the pin's matrix index -/
theorem C15_src_output (pin : Fin 3) :
    get_output_amp S up ur pin = output (S 0) (exc up ur) (idx pin) ∧
    get_output_pow S up ur pin = outputPower (S 0) (exc up ur) (idx pin) := by
  obtain ⟨e0, e1, e2⟩ := exc_vals up ur
  fin_cases pin <;>
    simp [get_output_amp, get_output_pow, output, outputPower, idx, Matrix.mulVec, dotProduct, Fin.sum_univ_three, e0, e1, e2] <;>
    readout_tie

/-- `get_data("p_m1", "p")`: row `k` holds `|A|²`, `20 log10 |A|`, `arg A`, `A` for the entry of sweep point `k` -/
theorem C15_src_data (k : Fin 2) :
    get_data_T S k = ‖S k (idx 2) (idx 0)‖ ^ 2 ∧ get_data_dB S k = 20 * Real.logb 10 ‖S k (idx 2) (idx 0)‖ ∧
    get_data_Phase S k = Complex.arg (S k (idx 2) (idx 0)) ∧ get_data_Amplitude S k = S k (idx 2) (idx 0) := by
  fin_cases k <;>
    simp [get_data_T, get_data_dB, get_data_Phase, get_data_Amplitude, idx] <;> readout_tie

/-- `get_full_output`: row `k` of the table is the read-out of sweep point `k` -/
theorem C15_src_full_output (pin : Fin 3) (k : Fin 2) :
    get_full_output_amp S up ur pin k = output (S k) (exc up ur) (idx pin) ∧
    get_full_output_pow S up ur pin k = outputPower (S k) (exc up ur) (idx pin) := by
  obtain ⟨e0, e1, e2⟩ := exc_vals up ur
  fin_cases pin <;> fin_cases k <;>
    simp [get_full_output_amp, get_full_output_pow, output, outputPower, idx, Matrix.mulVec, dotProduct, Fin.sum_univ_three, e0, e1, e2] <;>
    readout_tie

/-- `get_full_data`: column `(a, b)`, row `k` is the entry (row of `a`, column of `b`) of sweep point `k` — no transposition -/
theorem C15_src_full_data (a b : Fin 3) (k : Fin 2) : get_full_data S a b k = S k (idx a) (idx b) := by
  fin_cases a <;> fin_cases b <;> fin_cases k <;> simp [get_full_data, idx] <;> readout_tie

/-- row 0 of the sweep table is the scalar read-out (which reads the first point) -/
theorem C15_src_rows (pin : Fin 3) :
    get_full_output_amp S up ur pin 0 = get_output_amp S up ur pin ∧ get_full_output_pow S up ur pin 0 = get_output_pow S up ur pin := by
  rw [(C15_src_full_output S up ur pin 0).1, (C15_src_full_output S up ur pin 0).2, (C15_src_output S up ur pin).1,
    (C15_src_output S up ur pin).2]
  exact ⟨rfl, rfl⟩

end Source

end C15
