import LekkerVerif.Properties.C16

/-! # C07 — after any edit history the solver equals a freshly built one

`WInv` is the mutual consistency of the three redundant solver views (`connections`,
`connections_list`, `free_pins`) and of every structure's own tables (`pin_list`, `conn_dict`,
`connected_to`).  It is preserved by *every* wiring call — add, connect, cut, remove, expose — in
every consistent state (`Wiring.step_inv`), hence holds after every history; and in a consistent
state the reported free pins are **exactly** the unconnected pins of the present structures.
`Wiring.step` is tied step by step to the real `Solver` by the correspondence run. -/

namespace Wiring

theorem C07_inv_init (pinCounts : List Nat) : WInv (init pinCounts) := init_inv pinCounts
theorem C07_inv_add (w : W) (inv : WInv w) (i : Nat) : WInv (addStruct w i).1 := addStruct_inv w inv i
theorem C07_inv_connect (w : W) (inv : WInv w) (p q : Pin) : WInv (connect w p q).1 := connect_inv w inv p q
theorem C07_inv_cut (w : W) (inv : WInv w) (i : Nat) : WInv (cutStruct w i).1 := cutStruct_inv w inv i
theorem C07_inv_remove (w : W) (inv : WInv w) (i : Nat) : WInv (removeStruct w i).1 := removeStruct_inv w inv i

def run (ops : List Op) (pins : List Nat) : W := ops.foldl (fun w op => (step w op).1) (init pins)

/-- **every edit history** (any finite sequence of add / re-add / connect / cut / remove / expose calls, valid or
not) leaves all tables mutually consistent -/
theorem C07_reachable_inv (pins : List Nat) (ops : List Op) : WInv (run ops pins) :=
  run_inv ops _ (init_inv pins)

/-- in a consistent state the free pins are **exactly** the pins of present structures that are in no connection,
each reported once -/
theorem C07_free_pins_exact (w : W) (inv : WInv w) :
    w.free.Nodup ∧ ∀ i p, (i, p) ∈ w.free ↔
      (i ∈ w.structs ∧ (∃ o, getObj w i = some o ∧ p ∈ o.pins) ∧ (i, p) ∉ (w.conns.flatMap fun c => [c.1, c.2])) := by
  refine ⟨inv.freeNodup, fun i p => ⟨fun hx => ?_, ?_⟩⟩
  · obtain ⟨h1, h2⟩ := inv.freeObj (i, p) hx
    exact ⟨h1, h2, by rw [← inv.clistConns]; exact inv.freeDisj _ hx⟩
  · rintro ⟨hs, ⟨o, ho, hp⟩, hnc⟩
    rcases inv.freeComplete i hs o ho p hp with h | h
    · exact h
    · rw [inv.clistConns] at h; exact absurd h hnc

/-- the same, after every history -/
theorem C07_free_pins_exact_reachable (pins : List Nat) (ops : List Op) (i p : Nat) :
    (i, p) ∈ (run ops pins).free ↔
      (i ∈ (run ops pins).structs ∧ (∃ o, getObj (run ops pins) i = some o ∧ p ∈ o.pins) ∧
        (i, p) ∉ ((run ops pins).conns.flatMap fun c => [c.1, c.2])) :=
  (C07_free_pins_exact _ (C07_reachable_inv pins ops)).2 i p

/-- the solver's connection table and the structures' own tables say the same thing, in both directions -/
theorem C07_tables_agree (w : W) (inv : WInv w) :
    (∀ c ∈ w.conns, (∃ o, getObj w c.1.1 = some o ∧ (c.1.2, c.2) ∈ o.conn) ∧ (∃ o, getObj w c.2.1 = some o ∧ (c.2.2, c.1) ∈ o.conn)) ∧
    (∀ i o, getObj w i = some o → ∀ e ∈ o.conn, ((i, e.1), e.2) ∈ w.conns ∨ (e.2, (i, e.1)) ∈ w.conns) :=
  ⟨inv.connsEntry, inv.entryConn⟩

/-- every connection joins pins of structures that are still present -/
theorem C07_no_dangling_connection (w : W) (inv : WInv w) : ∀ c ∈ w.conns, c.1.1 ∈ w.structs ∧ c.2.1 ∈ w.structs := by
  intro c hc
  have h1 : c.1 ∈ w.clist := (mem_clist_iff inv _).2 ⟨c, hc, Or.inl rfl⟩
  have h2 : c.2 ∈ w.clist := (mem_clist_iff inv _).2 ⟨c, hc, Or.inr rfl⟩
  exact ⟨inv.clistStructs _ h1, inv.clistStructs _ h2⟩

/-- **pins freed by a cut can be wired again**: in any consistent state, a pin that faced the cut structure is
free afterwards and `connect` accepts it with any other free pin of another structure -/
theorem C07_freed_pins_rewirable (w : W) (inv : WInv w) (i : Nat) (o : SObj) (hs : i ∈ w.structs) (ho : getObj w i = some o)
    (c : Pin × Pin) (hc : c ∈ w.conns) (hci : c.1.1 = i) (hco : c.2.1 ≠ i) :
    c.2 ∈ (cutStruct w i).1.free ∧
    ∀ y ∈ (cutStruct w i).1.free, y.1 ≠ c.2.1 → (connect (cutStruct w i).1 c.2 y).2 = .ok :=
  cut_freed_rewirable w inv i o hs ho c.2 ((isT_iff w i c.2).2 ⟨c, hc, Or.inl hci, Or.inr rfl⟩) hco

/-- **a structure that was cut can be added again**, with all of its pins free -/
theorem C07_cut_then_add (w : W) (inv : WInv w) (i : Nat) (o : SObj) (hs : i ∈ w.structs) (ho : getObj w i = some o) :
    (addStruct (cutStruct w i).1 i).2 = .ok ∧ ∀ p ∈ o.pins, (i, p) ∈ (addStruct (cutStruct w i).1 i).1.free :=
  cut_then_add w inv i o hs ho

/-- decidable rendering of the consistency the harness checks on the real solver -/
def consistent (w : W) : Bool :=
  w.clist == (w.conns.flatMap fun c => [c.1, c.2]) &&
  w.free.all (fun x => !w.clist.contains x && w.structs.contains x.1) &&
  w.heap.all (fun e => !w.structs.contains e.1 ||
    e.2.conn.all (fun c => w.conns.contains ((e.1, c.1), c.2) || w.conns.contains (c.2, (e.1, c.1))))

/-- non-vacuity, and the history that failed on the pinned code: A–B connected, B cut, B added again, B's freed
pin wired to another pin of A -/
theorem C07_reusable_after_cut :
    let ops := [Op.add 0, .add 1, .connect (0, 1) (1, 0), .cut 1, .add 1, .connect (1, 0) (0, 0)]
    (ops.foldl (fun (acc : W × Bool) op => let r := step acc.1 op; (r.1, acc.2 && r.2 == .ok)) (init [2, 2], true)).2 = true ∧
    consistent (run ops [2, 2]) = true ∧
    (run ops [2, 2]).free = [(0, 1), (1, 1)] := by decide

/-- cut frees the neighbours' pins again; remove also deletes them from the neighbour -/
theorem C07_cut_vs_remove :
    (run [Op.add 0, .add 1, .connect (0, 1) (1, 0), .cut 1] [2, 2]).free = [(0, 0), (0, 1)] ∧
    (run [Op.add 0, .add 1, .connect (0, 1) (1, 0), .remove 1] [2, 2]).free = [(0, 0)] ∧
    (run [Op.add 0, .add 1, .connect (0, 1) (1, 0), .remove 1] [2, 2]).clist = [] ∧
    consistent (run [Op.add 0, .add 1, .connect (0, 1) (1, 0), .remove 1] [2, 2]) = true := by decide

/-- the hypotheses of `C07_freed_pins_rewirable` are met by a concrete reachable state -/
example : let w := run [Op.add 0, .add 1, .connect (1, 0) (0, 1)] [2, 2]
    1 ∈ w.structs ∧ ((1, 0), (0, 1)) ∈ w.conns := by decide

/-- **auto-raise exposes exactly the free pins**: when raise-all succeeds, every pin the solver reports as free is exposed, every
entry it adds exposes a free pin under that pin's own name, and no pin is exposed twice (with `C07_free_pins_exact`: the pins
auto-raised are exactly the unconnected pins of the remaining components) -/
theorem C07_raise_exposes_exactly_free (nameOf : Pin → Nat) (w : W) (hp : PinsNodup w.mapping)
    (h : (raiseAll nameOf w).2 = .ok) :
    (∀ p ∈ w.free, ∃ e ∈ (raiseAll nameOf w).1.mapping, e.2 = p) ∧
    (∀ e ∈ (raiseAll nameOf w).1.mapping, e ∈ w.mapping ∨ (e.2 ∈ w.free ∧ e.1 = nameOf e.2)) ∧
    PinsNodup (raiseAll nameOf w).1.mapping :=
  ⟨raiseAll_ok_exposes_all_free nameOf w h, raiseAll_added_own_name nameOf w, raiseAll_pins_nodup nameOf w hp⟩

end Wiring
