import LekkerVerif.Properties.C16

/-! # C07 — after any edit history the solver equals a freshly built one

The consistency invariant of the three redundant solver views and the per-structure tables, its
preservation, and concrete cut / remove / re-add histories evaluated in the kernel.  The proof that
`cut_structure` and `remove_structure` preserve `WInv` for *every* state is not finished (see
DESIGN.md); those operations are tied step by step to the real solver by the correspondence run. -/

namespace Wiring

theorem C07_inv_init (pinCounts : List Nat) : WInv (init pinCounts) := init_inv pinCounts
theorem C07_inv_add (w : W) (inv : WInv w) (i : Nat) : WInv (addStruct w i).1 := addStruct_inv w inv i
theorem C07_inv_connect (w : W) (inv : WInv w) (p q : Pin) : WInv (connect w p q).1 := connect_inv w inv p q

/-- in a consistent state the free pins are exactly "pins of present structures that are in no connection" (⊆ direction:
every reported free pin is such a pin, and no pin is reported twice) -/
theorem C07_free_pins_sound (w : W) (inv : WInv w) :
    w.free.Nodup ∧ ∀ x ∈ w.free, x.1 ∈ w.structs ∧ (∃ o, getObj w x.1 = some o ∧ x.2 ∈ o.pins) ∧
      x ∉ (w.conns.flatMap fun c => [c.1, c.2]) := by
  refine ⟨inv.freeNodup, fun x hx => ?_⟩
  obtain ⟨h1, h2⟩ := inv.freeObj x hx
  exact ⟨h1, h2, by rw [← inv.clistConns]; exact inv.freeDisj x hx⟩

def run (ops : List Op) (pins : List Nat) : W := ops.foldl (fun w op => (step w op).1) (init pins)

/-- decidable rendering of the consistency the harness checks on the real solver -/
def consistent (w : W) : Bool :=
  w.clist == (w.conns.flatMap fun c => [c.1, c.2]) &&
  w.free.all (fun x => !w.clist.contains x && w.structs.contains x.1) &&
  w.heap.all (fun e => !w.structs.contains e.1 ||
    e.2.conn.all (fun c => w.conns.contains ((e.1, c.1), c.2) || w.conns.contains (c.2, (e.1, c.1))))

/-- **a structure that was cut can be added and wired again** (the history that failed on the pinned code):
A–B connected, B cut, B added again, B's freed pin wired to another pin of A -/
theorem C07_reusable_after_cut :
    let ops := [Op.add 0, .add 1, .connect (0, 1) (1, 0), .cut 1, .add 1, .connect (1, 0) (0, 0)]
    (ops.foldl (fun (acc : W × Bool) op => let r := step acc.1 op; (r.1, acc.2 && r.2 == .ok)) (init [2, 2], true)).2 = true ∧
    consistent (run ops [2, 2]) = true ∧
    (run ops [2, 2]).free = [(0, 1), (1, 1)] := by decide

/-- cut frees the neighbours' pins again; remove also deletes them from the neighbour -/
theorem C07_cut_vs_remove :
    (run [Op.add 0, .add 1, .connect (0, 1) (1, 0), .cut 1] [2, 2]).free = [(0, 0), (0, 1)] ∧
    (run [Op.add 0, .add 1, .connect (0, 1) (1, 0), .remove 1] [2, 2]).free = [(0, 0)] ∧
    (run [Op.add 0, .add 1, .connect (0, 1) (1, 0), .remove 1] [2, 2]).clist = [] ∧
    consistent (run [Op.add 0, .add 1, .connect (0, 1) (1, 0), .remove 1] [2, 2]) = true := by decide

end Wiring
