import LekkerVerif.Proofs.WiringInv

/-! # C16 — wiring calls are validated and atomic

`Wiring.step` is the model of the solver's wiring calls (the driver runs it step by step against the
real `Solver`).  `WInv` is the consistency of the redundant views. -/

namespace Wiring

/-- a history of add / connect / expose calls (valid or not) from an empty solver -/
def BuildOp : Op → Prop
  | .add _ => True | .connect _ _ => True | .map _ _ => True | _ => False

theorem mapPin_inv (w : W) (inv : WInv w) (n : Nat) (p : Pin) : WInv (mapPin w n p).1 := by
  unfold mapPin
  split <;> exact ⟨inv.keysConnected, inv.pinsNodup, inv.freeObj, inv.clistStructs, inv.clistNodup, inv.freeNodup,
    inv.freeDisj, inv.clistConns⟩

theorem step_inv_build (w : W) (inv : WInv w) (op : Op) (hb : BuildOp op) : WInv (step w op).1 := by
  cases op with
  | add i => exact addStruct_inv w inv i
  | connect p q => exact connect_inv w inv p q
  | map n p => exact mapPin_inv w inv n p
  | cut i => exact absurd hb (by simp [BuildOp])
  | remove i => exact absurd hb (by simp [BuildOp])

/-- every state reached by add / connect / expose calls (accepted or rejected) is consistent -/
theorem C16_reachable_inv (pinCounts : List Nat) (ops : List Op) (hb : ∀ op ∈ ops, BuildOp op) :
    WInv (ops.foldl (fun w op => (step w op).1) (init pinCounts)) := by
  have key : ∀ (ops : List Op) (w : W), WInv w → (∀ op ∈ ops, BuildOp op) →
      WInv (ops.foldl (fun w op => (step w op).1) w) := by
    intro ops
    induction ops with
    | nil => intro w inv _; exact inv
    | cons op ops ih =>
      intro w inv hb
      exact ih _ (step_inv_build w inv op (hb op List.mem_cons_self)) (fun o ho => hb o (List.mem_cons_of_mem _ ho))
  exact key ops _ (init_inv pinCounts) hb

/-- **atomicity**: in a consistent state, any call that is rejected leaves the whole state — the solver's
three views, the exposure table and every structure's own tables — exactly as it was -/
theorem C16_atomic (w : W) (inv : WInv w) (op : Op) (h : (step w op).2 ≠ .ok) : (step w op).1 = w := by
  cases op with
  | add i =>
    simp only [step] at h ⊢
    by_cases hc : w.structs.contains i = true
    · unfold addStruct; rw [if_pos hc]
    · cases ho : getObj w i with
      | none => unfold addStruct; rw [if_neg hc]; simp [ho]
      | some o => exfalso; apply h; unfold addStruct; rw [if_neg hc]; simp [ho]
  | connect p q => exact connect_atomic w inv p q h
  | cut i =>
    simp only [step] at h ⊢
    by_cases hc : (!w.structs.contains i) = true
    · unfold cutStruct; rw [if_pos hc]
    · cases ho : getObj w i with
      | none => unfold cutStruct; rw [if_neg hc]; simp [ho]
      | some o => exfalso; apply h; unfold cutStruct; rw [if_neg hc]; simp [ho]
  | remove i =>
    simp only [step] at h ⊢
    by_cases hc : (!w.structs.contains i) = true
    · unfold removeStruct; rw [if_pos hc]
    · cases ho : getObj w i with
      | none => unfold removeStruct; rw [if_neg hc]; simp [ho]
      | some o => exfalso; apply h; unfold removeStruct; rw [if_neg hc]; simp [ho]
  | map n p =>
    exfalso; apply h
    simp only [step, mapPin]
    split <;> rfl

/-- **idempotence**: an identical connect call, in either orientation, is accepted and changes nothing -/
theorem C16_idempotent (w : W) (inv : WInv w) (p q : Pin) (hpq : p.1 ≠ q.1) (h : (p, q) ∈ w.conns)
    (hl : lookup w.conns p = some q) : connect w p q = (w, .ok) ∧ connect w q p = (w, .ok) :=
  connect_idempotent w inv p q hpq h hl

/-- **a pin takes part in at most one connection** (proved for every history of add / connect / expose calls;
histories containing cut / remove are covered by the step-by-step correspondence, see DESIGN.md) -/
theorem C16_one_connection_partial (pinCounts : List Nat) (ops : List Op) (hb : ∀ op ∈ ops, BuildOp op) :
    let w := ops.foldl (fun w op => (step w op).1) (init pinCounts)
    (w.conns.flatMap fun c => [c.1, c.2]).Nodup := by
  intro w
  have inv := C16_reachable_inv pinCounts ops hb
  rw [← inv.clistConns]
  exact inv.clistNodup

/-- a connection between two pins of one structure is rejected -/
theorem C16_no_self_connection (w : W) (p q : Pin) (h : p.1 = q.1) : connect w p q = (w, .valueError) := by
  unfold connect; simp [h]

/-! non-vacuity and the rejected-call scenarios on a concrete solver (kernel evaluation) -/
def demo : W := ([Op.add 0, .add 1, .add 2, .connect (0, 1) (1, 0)].foldl (fun w op => (step w op).1) (init [2, 2, 2]))
example : (step demo (.connect (0, 1) (2, 0))).2 = .valueError ∧ (step demo (.connect (0, 1) (2, 0))).1 = demo := by decide
example : (step demo (.connect (2, 0) (1, 0))).2 = .valueError ∧ (step demo (.connect (2, 0) (1, 0))).1 = demo := by decide
example : (step demo (.connect (0, 0) (2, 7))).2 = .valueError ∧ (step demo (.connect (0, 0) (2, 7))).1 = demo := by decide
example : (step demo (.connect (0, 0) (9, 0))).2 = .valueError ∧ (step demo (.connect (0, 0) (9, 0))).1 = demo := by decide
example : step demo (.connect (1, 0) (0, 1)) = (demo, .ok) := by decide
example : (step demo (.add 1)).2 = .valueError := by decide

end Wiring
