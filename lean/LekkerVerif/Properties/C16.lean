import LekkerVerif.Proofs.WiringDetach
import LekkerVerif.Proofs.NamesSpec
import LekkerVerif.Proofs.WiringRaise

/-! # C16 — wiring calls are validated and atomic

`Wiring.step` is the model of the solver's wiring calls (the driver runs it step by step against the
real `Solver`).  `WInv` is the consistency of the redundant views. -/

namespace Wiring

/-- every state reached by any history of wiring calls — add, connect, cut, remove, expose; accepted or
rejected — is consistent -/
theorem C16_reachable_inv (pinCounts : List Nat) (ops : List Op) :
    WInv (ops.foldl (fun w op => (step w op).1) (init pinCounts)) :=
  run_inv ops _ (init_inv pinCounts)

/-- **atomicity**: in a consistent state, any call that is rejected leaves the whole state — the solver's
three views, the exposure table and every structure's own tables — exactly as it was -/
theorem C16_atomic (w : W) (inv : WInv w) (op : Op) (h : (step w op).2 ≠ .ok) : (step w op).1 = w := by
  cases op with
  | add i =>
    simp only [step] at h ⊢
    by_cases hc : w.structs.contains i = true
    · unfold addStruct; rw [if_pos hc]
    · cases ho : getObj w i with
      | none => unfold addStruct; rw [if_neg hc]; simp [ho]
      | some o => exfalso; apply h; unfold addStruct; rw [if_neg hc]; simp [ho]
  | connect p q => exact connect_atomic w inv p q h
  | cut i =>
    simp only [step] at h ⊢
    by_cases hc : (!w.structs.contains i) = true
    · unfold cutStruct; rw [if_pos hc]
    · cases ho : getObj w i with
      | none => unfold cutStruct; rw [if_neg hc]; simp [ho]
      | some o => exfalso; apply h; unfold cutStruct; rw [if_neg hc]; simp [ho]
  | remove i =>
    simp only [step] at h ⊢
    by_cases hc : (!w.structs.contains i) = true
    · unfold removeStruct; rw [if_pos hc]
    · cases ho : getObj w i with
      | none => unfold removeStruct; rw [if_neg hc]; simp [ho]
      | some o => exfalso; apply h; unfold removeStruct; rw [if_neg hc]; simp [ho]
  | map n p =>
    exfalso; apply h
    simp only [step, mapPin]
    split <;> rfl

/-- **idempotence**: an identical connect call, in either orientation, is accepted and changes nothing -/
theorem C16_idempotent (w : W) (inv : WInv w) (p q : Pin) (hpq : p.1 ≠ q.1) (h : (p, q) ∈ w.conns)
    (hl : lookup w.conns p = some q) : connect w p q = (w, .ok) ∧ connect w q p = (w, .ok) :=
  connect_idempotent w inv p q hpq h hl

/-- **a pin takes part in at most one connection**, after every history of wiring calls -/
theorem C16_one_connection (pinCounts : List Nat) (ops : List Op) :
    let w := ops.foldl (fun w op => (step w op).1) (init pinCounts)
    (w.conns.flatMap fun c => [c.1, c.2]).Nodup := by
  intro w
  have inv := C16_reachable_inv pinCounts ops
  rw [← inv.clistConns]
  exact inv.clistNodup

/-- in a consistent state `connect` never stops half-way: the outcome is `ok` or a `ValueError` raised before
anything was written, never an exception after the solver tables were updated -/
theorem C16_connect_never_partial (w : W) (inv : WInv w) (p q : Pin) : (connect w p q).2 ≠ .exception :=
  connect_never_partial w inv p q

/-- after a rejected call the circuit can still be completed: two free pins of different structures connect -/
theorem C16_completable_after_rejection (w : W) (inv : WInv w) (op : Op) (h : (step w op).2 ≠ .ok)
    (p q : Pin) (hne : p.1 ≠ q.1) (hp : p ∈ w.free) (hq : q ∈ w.free) : (connect (step w op).1 p q).2 = .ok := by
  rw [C16_atomic w inv op h]
  obtain ⟨_, _, _, _, e⟩ := connect_full w inv p q hne hp hq
  rw [e]

/-- a connection between two pins of one structure is rejected -/
theorem C16_no_self_connection (w : W) (p q : Pin) (h : p.1 = q.1) : connect w p q = (w, .valueError) := by
  unfold connect; simp [h]

/-! non-vacuity and the rejected-call scenarios on a concrete solver (kernel evaluation) -/
def demo : W := ([Op.add 0, .add 1, .add 2, .connect (0, 1) (1, 0)].foldl (fun w op => (step w op).1) (init [2, 2, 2]))
example : (step demo (.connect (0, 1) (2, 0))).2 = .valueError ∧ (step demo (.connect (0, 1) (2, 0))).1 = demo := by decide
example : (step demo (.connect (2, 0) (1, 0))).2 = .valueError ∧ (step demo (.connect (2, 0) (1, 0))).1 = demo := by decide
example : (step demo (.connect (0, 0) (2, 7))).2 = .valueError ∧ (step demo (.connect (0, 0) (2, 7))).1 = demo := by decide
example : (step demo (.connect (0, 0) (9, 0))).2 = .valueError ∧ (step demo (.connect (0, 0) (9, 0))).1 = demo := by decide
example : step demo (.connect (1, 0) (0, 1)) = (demo, .ok) := by decide
example : (step demo (.add 1)).2 = .valueError := by decide

end Wiring


/-! ### pin names are never confused -/

namespace Names

/-- **two distinct pins whose printable names coincide are rejected** by `update_pins` (model construction, and every
renaming, which ends in `update_pins`) -/
theorem C16_alike_rejected (pins : List PinN) (p q : PinN) (hp : p ∈ pins) (hq : q ∈ pins) (hne : p ≠ q)
    (hname : p.name = q.name) : buildTable pins = none := buildTable_rejects pins p q hp hq hne hname

/-- such pins exist: `Pin('a','TE')` and `Pin('a_TE')` are different pins that print alike -/
theorem C16_alike_exists : (⟨"a", some "TE"⟩ : PinN) ≠ ⟨"a_TE", none⟩ ∧ (⟨"a", some "TE"⟩ : PinN).name = (⟨"a_TE", none⟩ : PinN).name := by
  decide

/-- a pin set is accepted exactly when no two of its pins print alike, and an accepted table resolves a name to a pin
exactly when that pin is present and prints so: never to another pin -/
theorem C16_resolution_exact (pins : List PinN) :
    (buildTable pins ≠ none ↔ (pins.map PinN.name).Nodup) ∧
    ∀ t, buildTable pins = some t → ∀ n p, resolve t n = some p ↔ (p ∈ pins ∧ p.name = n) := by
  refine ⟨?_, fun t h n p => resolve_iff pins t h n p⟩
  rw [buildTable_spec]
  by_cases nd : (pins.map PinN.name).Nodup <;> simp [nd]

/-- **a model whose pins were renamed is addressable by the new names**: after an accepted `pin_mapping` every renamed
pin is found under its new printable name (and under no other) -/
theorem C16_renamed_addressable (ρ : List (PinN × PinN)) (pins : List PinN) (t : List (String × PinN))
    (h : buildTable (renamePins ρ pins) = some t) (old new : PinN) (hold : old ∈ pins)
    (hρ : ρ.find? (·.1 == old) = some (old, new)) : resolve t new.name = some new := by
  apply (resolve_iff _ t h new.name new).2
  refine ⟨?_, rfl⟩
  unfold renamePins
  exact List.mem_map.2 ⟨old, hold, by simp [hρ]⟩

/-- the renaming is simultaneous: a swap exchanges the two pins (the history that lost a pin on the unrepaired code) -/
theorem C16_rename_swap :
    renamePins [(⟨"a", none⟩, ⟨"b", none⟩), (⟨"b", none⟩, ⟨"a", none⟩)] [⟨"a", none⟩, ⟨"b", none⟩, ⟨"c", none⟩]
      = [⟨"b", none⟩, ⟨"a", none⟩, ⟨"c", none⟩] := by decide

/-- `expand_mode` (as repaired) accepts a mode list exactly when the expanded pins print differently; in particular a
repeated mode name is rejected, and so is the clash of `a_b`×`c` with `a`×`b_c` -/
theorem C16_expand_exact (pins : List PinN) (modes : List String) :
    buildTable (expandPins pins modes) ≠ none ↔ ((expandPins pins modes).map PinN.name).Nodup := by
  rw [buildTable_spec]
  by_cases nd : ((expandPins pins modes).map PinN.name).Nodup <;> simp [nd]

theorem C16_expand_examples :
    buildTable (expandPins [⟨"a", none⟩, ⟨"b", none⟩] ["TE", "TE"]) = none ∧
    buildTable (expandPins [⟨"a_b", none⟩, ⟨"a", none⟩] ["c", "b_c"]) = none ∧
    (buildTable (expandPins [⟨"a", none⟩, ⟨"b", none⟩] ["TE", "TM"])).isSome = true := by decide

end Names


/-! ### raise-all (`Solver.maps_all_pins`, `Wiring.raiseAll`: run by the driver step by step against the real solver) -/

namespace Wiring

/-- **a name is never rebound**: whatever a name pointed at before raise-all - mapped by hand or earlier - it points at
afterwards, whether the call succeeds or is rejected; the other wiring tables are untouched -/
theorem C16_raise_never_rebinds (nameOf : Pin → Nat) (w : W) (hk : KeysNodup w.mapping) :
    (∀ n p, (n, p) ∈ w.mapping → ∀ q, (n, q) ∈ (raiseAll nameOf w).1.mapping → q = p) ∧
    (∀ e ∈ w.mapping, e ∈ (raiseAll nameOf w).1.mapping) ∧
    KeysNodup (raiseAll nameOf w).1.mapping ∧
    (let w' := (raiseAll nameOf w).1; w'.heap = w.heap ∧ w'.structs = w.structs ∧ w'.conns = w.conns ∧ w'.clist = w.clist ∧ w'.free = w.free) :=
  ⟨raiseAll_never_rebinds nameOf w hk, raiseAll_keeps_mapping nameOf w, raiseAll_keys_nodup nameOf w hk, raiseAll_only_mapping nameOf w⟩

/-- **rejected exactly on a name clash**: raise-all raises iff some free pin is left unexposed while its own name is already
a key of the mapping (taken by another pin - by hand, earlier, or by a like-named pin raised just before) -/
theorem C16_raise_rejects_exactly_on_clash (nameOf : Pin → Nat) (w : W) :
    ((raiseAll nameOf w).2 = .exception ↔
      ∃ p ∈ w.free, ¬ (∃ e ∈ (raiseAll nameOf w).1.mapping, e.2 = p) ∧ ∃ e ∈ (raiseAll nameOf w).1.mapping, e.1 = nameOf p) ∧
    (raiseAll nameOf w).2 ≠ .valueError :=
  ⟨raiseAll_exception_iff nameOf w, raiseAll_not_valueError nameOf w⟩

end Wiring
