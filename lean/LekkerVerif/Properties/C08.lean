import LekkerVerif.Core.Energy
import LekkerVerif.Properties.C01

/-! # C08 — composition preserves energy conservation, passivity and reciprocity

Kernel level (the regenerated `Generated.add`, any field / any power functional / any pairing) and network
level (the executable `solveWith`, any schedule): reciprocity, losslessness (hence unitarity `Tᴴ T = 1` over a
star field) and passivity are carried through the elimination loop by `Solve.loopWith_preserves`. -/

open Matrix

section kernel
variable {F : Type*} [Field F]
variable {n k m : Type*} [Fintype n] [Fintype k] [Fintype m] [DecidableEq n] [DecidableEq k] [DecidableEq m]

/-- reciprocity (`[[S21,S22],[S11,S12]]` symmetric) is preserved by the star product -/
theorem C08_star_reciprocal (A : SM F n k) (B : SM F k m) (h : IsUnit (1 - A.S12 * B.S21))
    (hA : A.Reciprocal) (hB : B.Reciprocal) : (Generated.add A B).Reciprocal := by
  rw [Generated.add_eq]; exact star_reciprocal A B h hA hB

/-- passivity with respect to arbitrary power functionals on the three port groups is preserved -/
theorem C08_star_passive {R : Type*} [AddCommGroup R] [PartialOrder R] [IsOrderedAddMonoid R]
    (A : SM F n k) (B : SM F k m) (h : IsUnit (1 - A.S12 * B.S21))
    (pn : (n → F) → R) (pk : (k → F) → R) (pm : (m → F) → R)
    (hA : A.PassiveWrt pn pk) (hB : B.PassiveWrt pk pm) : (Generated.add A B).PassiveWrt pn pm := by
  rw [Generated.add_eq]; exact star_passive A B h pn pk pm hA hB

/-- losslessness with respect to arbitrary pairings is preserved -/
theorem C08_star_lossless {R : Type*} [AddCommGroup R]
    (A : SM F n k) (B : SM F k m) (h : IsUnit (1 - A.S12 * B.S21))
    (ipn : (n → F) → (n → F) → R) (ipk : (k → F) → (k → F) → R) (ipm : (m → F) → (m → F) → R)
    (hA : A.LosslessWrt ipn ipk) (hB : B.LosslessWrt ipk ipm) : (Generated.add A B).LosslessWrt ipn ipm := by
  rw [Generated.add_eq]; exact star_lossless A B h ipn ipk ipm hA hB

end kernel

section unitary
variable {K : Type*} [Field K] [StarRing K]
variable {n k m : Type*} [Fintype n] [Fintype k] [Fintype m] [DecidableEq n] [DecidableEq k] [DecidableEq m]

/-- the star product of two partitioned matrices that assemble to unitary matrices assembles to a
unitary matrix (`Sᴴ S = 1`), over any field with a star (in particular ℂ) -/
theorem C08_star_unitary (A : SM K n k) (B : SM K k m) (h : IsUnit (1 - A.S12 * B.S21))
    (hA : A.assembleᴴ * A.assemble = 1) (hB : B.assembleᴴ * B.assemble = 1) :
    (Generated.add A B).assembleᴴ * (Generated.add A B).assemble = 1 := by
  rw [Generated.add_eq]
  exact unitary_of_lossless _ (star_lossless A B h _ _ _ (lossless_of_unitary A hA) (lossless_of_unitary B hB))

end unitary

section network
variable {F : Type} [Field F] [DecidableEq F]

/-- **network level, any schedule**: a circuit of reciprocal components is reciprocal -/
theorem C08_reciprocal (net : NetD F) (wf : net.WF) (sched) (total : St F)
    (h : net.solveWith sched = .ok total) (hr : ∀ s ∈ net.initial, s.Recip) :
    ∀ p ∈ total.pins, ∀ q ∈ total.pins, total.sem p q = total.sem q p :=
  NetD.solveWith_recip net wf sched total h hr

/-- **network level, any schedule, any pairing**: a circuit of lossless components is lossless: for all input
assignments `a, a'` on the free pins, `Σ φ (out a') (out a) = Σ φ a' a` over the pins of the solved structure
(the free pins of the circuit) -/
theorem C08_lossless {R : Type*} [AddCommGroup R] (φ : F → F → R) (net : NetD F) (wf : net.WF) (sched) (total : St F)
    (h : net.solveWith sched = .ok total) (hl : ∀ s ∈ net.initial, s.LosslessW φ) : total.LosslessW φ :=
  NetD.solveWith_lossless φ net wf sched total h hl

/-- **network level, any schedule, any power functional**: a circuit of passive components never shows gain:
`Σ w (out a p) ≤ Σ w (a p)` over the free pins (with `w z = |z|²` over ℂ: output power ≤ input power; exposing only
some of the free pins only drops non-negative terms on the left and sets inputs to zero on the right) -/
theorem C08_passive {R : Type*} [AddCommGroup R] [PartialOrder R] [IsOrderedAddMonoid R] (w : F → R)
    (net : NetD F) (wf : net.WF) (sched) (total : St F)
    (h : net.solveWith sched = .ok total) (hl : ∀ s ∈ net.initial, s.PassiveW w) : total.PassiveW w :=
  NetD.solveWith_passive w net wf sched total h hl

end network

section network_unitary
variable {K : Type} [Field K] [StarRing K] [DecidableEq K]

theorem sum_single (l : List PinRef) (hn : l.Nodup) (f : PinRef → K) (y : PinRef) (hy : y ∈ l) :
    (l.map fun q => f q * (if q = y then (1 : K) else 0)).sum = f y := by
  induction l with
  | nil => simp at hy
  | cons e es ih =>
    obtain ⟨hne, hnes⟩ := List.nodup_cons.1 hn
    simp only [List.map_cons, List.sum_cons]
    rcases List.mem_cons.1 hy with rfl | hy
    · have : (es.map fun q => f q * (if q = y then (1 : K) else 0)).sum = 0 := by
        apply List.sum_eq_zero
        intro z hz
        obtain ⟨q, hq, rfl⟩ := List.mem_map.1 hz
        have : q ≠ y := fun e => hne (e ▸ hq)
        rw [if_neg this, mul_zero]
      rw [this, if_pos rfl, mul_one, add_zero]
    · have : e ≠ y := fun h => hne (h ▸ hy)
      rw [if_neg this, mul_zero, zero_add]
      exact ih hnes hy

/-- **network-level unitarity, any schedule**: if every component is lossless for the pairing `star x * y`
(i.e. its matrix is unitary on its pins), the solved matrix `T` over the circuit's free pins satisfies
`Σ_p star (T p x) * T p y = δ_xy` — `Tᴴ T = 1`, total output power equals total input power -/
theorem C08_unitary (net : NetD K) (wf : net.WF) (sched) (total : St K)
    (h : net.solveWith sched = .ok total)
    (hl : ∀ s ∈ net.initial, s.LosslessW (fun x y : K => star x * y)) :
    ∀ x ∈ total.pins, ∀ y ∈ total.pins,
      (total.pins.map fun p => star (total.sem p x) * total.sem p y).sum = if x = y then 1 else 0 := by
  intro x hx y hy
  have hL := C08_lossless (fun x y : K => star x * y) net wf sched total h hl
  have hnd : total.pins.Nodup :=
    (Solve.loopWith_sound net.Sol sched _ _ _ total (NetD.fullInv_initial net wf).linv h).nodup
  have key := hL (fun q => if q = y then 1 else 0) (fun q => if q = x then 1 else 0)
  have ho : ∀ (z : PinRef), z ∈ total.pins → ∀ p, total.out (fun q => if q = z then (1 : K) else 0) p = total.sem p z := by
    intro z hz p
    unfold St.out rowSum
    exact sum_single total.pins hnd (fun q => total.sem p q) z hz
  unfold pairL at key
  simp only [ho x hx, ho y hy] at key
  rw [key]
  have : (total.pins.map fun p => star (if p = x then (1 : K) else 0) * (if p = y then (1 : K) else 0)).sum
      = star (if y = x then (1 : K) else 0) := by
    have := sum_single total.pins hnd (fun p => star (if p = x then (1 : K) else 0)) y hy
    simpa using this
  rw [this]
  by_cases hxy : x = y
  · subst hxy; simp
  · have : y ≠ x := fun e => hxy e.symm
    simp [hxy, this]

end network_unitary
