import LekkerVerif.Core.Energy
import LekkerVerif.Properties.C01

/-! # C08 — composition preserves energy conservation, passivity and reciprocity

Kernel level (the regenerated `Generated.add`, any field / any power functional), and network level
for reciprocity (the executable `solveWith`, any schedule).  The network-level statements for
unitarity and passivity follow the same loop induction (`Solve.loopWith_preserves`) and are listed in
DESIGN.md as the next obligations; until then they are covered at kernel level plus by the
correspondence/oracle run. -/

open Matrix

section kernel
variable {F : Type*} [Field F]
variable {n k m : Type*} [Fintype n] [Fintype k] [Fintype m] [DecidableEq n] [DecidableEq k] [DecidableEq m]

/-- reciprocity (`[[S21,S22],[S11,S12]]` symmetric) is preserved by the star product -/
theorem C08_star_reciprocal (A : SM F n k) (B : SM F k m) (h : IsUnit (1 - A.S12 * B.S21))
    (hA : A.Reciprocal) (hB : B.Reciprocal) : (Generated.add A B).Reciprocal := by
  rw [Generated.add_eq]; exact star_reciprocal A B h hA hB

/-- passivity with respect to arbitrary power functionals on the three port groups is preserved -/
theorem C08_star_passive {R : Type*} [AddCommGroup R] [PartialOrder R] [IsOrderedAddMonoid R]
    (A : SM F n k) (B : SM F k m) (h : IsUnit (1 - A.S12 * B.S21))
    (pn : (n → F) → R) (pk : (k → F) → R) (pm : (m → F) → R)
    (hA : A.PassiveWrt pn pk) (hB : B.PassiveWrt pk pm) : (Generated.add A B).PassiveWrt pn pm := by
  rw [Generated.add_eq]; exact star_passive A B h pn pk pm hA hB

/-- losslessness with respect to arbitrary pairings is preserved -/
theorem C08_star_lossless {R : Type*} [AddCommGroup R]
    (A : SM F n k) (B : SM F k m) (h : IsUnit (1 - A.S12 * B.S21))
    (ipn : (n → F) → (n → F) → R) (ipk : (k → F) → (k → F) → R) (ipm : (m → F) → (m → F) → R)
    (hA : A.LosslessWrt ipn ipk) (hB : B.LosslessWrt ipk ipm) : (Generated.add A B).LosslessWrt ipn ipm := by
  rw [Generated.add_eq]; exact star_lossless A B h ipn ipk ipm hA hB

end kernel

section unitary
variable {K : Type*} [Field K] [StarRing K]
variable {n k m : Type*} [Fintype n] [Fintype k] [Fintype m] [DecidableEq n] [DecidableEq k] [DecidableEq m]

/-- the star product of two partitioned matrices that assemble to unitary matrices assembles to a
unitary matrix (`Sᴴ S = 1`), over any field with a star (in particular ℂ) -/
theorem C08_star_unitary (A : SM K n k) (B : SM K k m) (h : IsUnit (1 - A.S12 * B.S21))
    (hA : A.assembleᴴ * A.assemble = 1) (hB : B.assembleᴴ * B.assemble = 1) :
    (Generated.add A B).assembleᴴ * (Generated.add A B).assemble = 1 := by
  rw [Generated.add_eq]
  exact unitary_of_lossless _ (star_lossless A B h _ _ _ (lossless_of_unitary A hA) (lossless_of_unitary B hB))

end unitary

section network
variable {F : Type} [Field F] [DecidableEq F]

/-- **network level, any schedule**: a circuit of reciprocal components is reciprocal -/
theorem C08_reciprocal (net : NetD F) (wf : net.WF) (sched) (total : St F)
    (h : net.solveWith sched = .ok total) (hr : ∀ s ∈ net.initial, s.Recip) :
    ∀ p ∈ total.pins, ∀ q ∈ total.pins, total.sem p q = total.sem q p :=
  NetD.solveWith_recip net wf sched total h hr

end network
