import LekkerVerif.Properties.C01
import LekkerVerif.Properties.C01Checked
import LekkerVerif.Properties.C02
import LekkerVerif.Properties.C02Hier
import LekkerVerif.Properties.C03
import LekkerVerif.Properties.C04
import LekkerVerif.Properties.C05
import LekkerVerif.Properties.C05Defaults
import LekkerVerif.Properties.C06
import LekkerVerif.Properties.C07
import LekkerVerif.Properties.C07Net
import LekkerVerif.Properties.C08
import LekkerVerif.Properties.C08Hier
import LekkerVerif.Properties.C09
import LekkerVerif.Properties.C10
import LekkerVerif.Properties.C11
import LekkerVerif.Properties.C11Hier
import LekkerVerif.Properties.C11Params
import LekkerVerif.Properties.C12
import LekkerVerif.Properties.C12Hier
import LekkerVerif.Properties.C13
import LekkerVerif.Properties.C14
import LekkerVerif.Properties.C15
import LekkerVerif.Properties.C16
import LekkerVerif.Properties.C16Put
import LekkerVerif.Properties.C17
import LekkerVerif.Properties.C18
import LekkerVerif.Properties.C19
import LekkerVerif.Properties.C19Hier
import LekkerVerif.Properties.C20

/-! Every property file (and through them every proof and model file).  `./check --setup` regenerates
`LekkerVerif/Generated/*.lean` from /repo and then builds this module. -/
