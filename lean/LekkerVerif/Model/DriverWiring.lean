import LekkerVerif.Model.DriverBase
import LekkerVerif.Model.Wiring
open Lean

namespace Driver
open Wiring

def pinJ (p : Pin) : Json := Json.arr #[toJson p.1, toJson p.2]

def stateJson (w : W) : Json :=
  Json.mkObj [
    ("structures", toJson w.structs),
    ("connections", Json.arr (w.conns.map fun c => Json.arr #[pinJ c.1, pinJ c.2]).toArray),
    ("connections_list", Json.arr (w.clist.map pinJ).toArray),
    ("free_pins", Json.arr (w.free.map pinJ).toArray),
    ("pin_mapping", Json.arr (w.mapping.map fun m => Json.arr #[toJson m.1, pinJ m.2]).toArray),
    ("st", Json.arr (w.heap.map fun e => Json.mkObj [
        ("pin_list", toJson e.2.pins),
        ("conn_dict", Json.arr (e.2.conn.map fun c => Json.arr #[toJson c.1, pinJ c.2]).toArray),
        ("connected_to", toJson e.2.connTo)]).toArray)]

def natsOf (j : Json) : Option (List Nat) := (fromJson? (α := List Nat) j).toOption

def parseOp (j : Json) : Option Op :=
  match j with
  | .arr a =>
    let kind : Option String := match a[0]? with
      | some (Json.str k) => some k
      | _ => none
    match kind, natsOf (Json.arr (a.extract 1 a.size)) with
    | some "add", some [i] => some (.add i)
    | some "cut", some [i] => some (.cut i)
    | some "remove", some [i] => some (.remove i)
    | some "connect", some [a, p, b, q] => some (.connect (a, p) (b, q))
    | some "map", some [n, c, p] => some (.map n (c, p))
    | _, _ => none
  | _ => none

def parseOpX (j : Json) : Option OpX :=
  match j with
  | .arr #[Json.str "raise"] => some .raise
  | .arr #[Json.str "put", i, s, c, p] =>
    match natsOf (Json.arr #[i, s, c, p]) with
    | some [i, s, c, p] => some (.put i s (c, p))
    | _ => none
  | _ => (parseOp j).map .base

def outName : Out → String
  | .ok => "ok" | .valueError => "valueError" | .exception => "exception"

def opWiring (j : Json) : Json :=
  match (j.getObjVal? "pins").toOption >>= natsOf, getArr j "ops" with
  | some pins, some ops =>
    -- optional table of the pins' own name ids (per structure, per pin id): needed by `raise`
    let names : List (List Nat) := match j.getObjVal? "names" with
      | .ok (.arr xs) => xs.toList.map fun x => (natsOf x).getD []
      | _ => []
    let nameOf : Pin → Nat := fun p => ((names.getD p.1 []).getD p.2 (1000000 + 1000 * p.1 + p.2))
    match ops.toList.mapM parseOpX with
    | none => errJson "parse"
    | some ops =>
      let (_, outs) := ops.foldl (fun (acc : W × List Json) op =>
        let (w', out) := stepX nameOf acc.1 op
        (w', acc.2 ++ [Json.mkObj [("out", Json.str (outName out)), ("state", stateJson w')]])) (init pins, [])
      Json.mkObj [("steps", Json.arr outs.toArray)]
  | _, _ => errJson "parse"

end Driver
