/-! Model of mode handling (C13), core Lean only.
`expandIndex` = the pin index `i * N + n` that `expand_mode` assigns to (mode i, pin n) of an N-pin model;
`diagBlocks` = `diag_blocks(np * [S])` as an index function; `connectAllModes` = the modes `connect_all` links. -/

namespace Modes

/-- `new_pin_dic[Pin(pin.name, mode)] = i * self.N + n` -/
def expandIndex (N i n : Nat) : Nat := i * N + n

/-- `diag_blocks(k * [S])` for an `N × N` matrix given as an index function: `M[m:m+N, m:m+N] = S` block by block -/
def diagBlocks {F : Type} [OfNat F 0] (N k : Nat) (S : Nat → Nat → F) (a b : Nat) : F :=
  if a < k * N ∧ b < k * N ∧ a / N = b / N then S (a % N) (b % N) else 0

/-- `modes1.intersection(modes2)` in the order of the first list -/
def connectAllModes (modes1 modes2 : List String) : List String := modes1.filter (modes2.contains ·)

/-- the links `connect_all` makes: one per common mode, like-named partners -/
def connectAllLinks (b1 b2 : String) (modes1 modes2 : List String) : List ((String × String) × (String × String)) :=
  (connectAllModes modes1 modes2).map fun m => ((b1, m), (b2, m))

end Modes
