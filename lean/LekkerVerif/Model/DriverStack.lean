import LekkerVerif.Model.DriverBase
import LekkerVerif.Model.Stack
open Lean

namespace Driver

partial def parseProg (j : Json) : Option Stack.Prog :=
  match j.getObjVal? "h" with
  | .ok v => (fromJson? (α := Nat) v).toOption.map Stack.Prog.helper
  | .error _ =>
    match j.getObjVal? "raise" with
    | .ok _ => some .raise
    | .error _ =>
      match j.getObjVal? "with", getArr j "body" with
      | .ok sv, some body => do
        let s ← (fromJson? (α := Nat) sv).toOption
        let b ← body.toList.mapM parseProg
        pure (.withS s b)
      | _, _ =>
        match getArr j "try" with
        | some body => do
          let b ← body.toList.mapM parseProg
          pure (.tryS b)
        | none => none

def opStack (j : Json) : Json :=
  match getArr j "prog", (j.getObjValAs? (List Nat) "stack").toOption with
  | some prog, some stk =>
    match prog.toList.mapM parseProg with
    | none => errJson "parse"
    | some ps =>
      let (stk', ev, out) := Stack.execList Stack.Cfg.py ps stk
      Json.mkObj [("stack", toJson stk'),
                  ("events", Json.arr (ev.map fun e => Json.arr #[toJson e.1, match e.2 with | some s => toJson s | none => Json.null]).toArray),
                  ("out", Json.str (match out with | .normal => "normal" | .raised => "raised"))]
  | _, _ => errJson "parse"

end Driver
