/-! Model of the sweep plumbing (C04), core Lean only:
* `normalise`  — the length normalisation of `Solver.solve` / `Model.solve` (after `np.reshape(v, -1)`);
* `bcast`      — broadcasting of length-1 values along the sweep;
* `modelSweep` — the per-point loop of `Model.solve` with an explicit one-cell heap for the persistent
  `self.S` buffer some blocks write into: the collected list holds either values (a copy was taken, or
  `create_S` returned a fresh array) or *references* to the buffer, dereferenced when the stack is built. -/

namespace Sweep

/-- `ns = 1; for l in lens: if l == 1: continue; if ns == 1: ns = l; elif ns != l: raise` -/
def normStep (acc : Option Nat) (l : Nat) : Option Nat :=
  match acc with
  | none => none
  | some ns => if l = 1 then some ns else if ns = 1 then some l else if ns = l then some ns else none

def normalise (lens : List Nat) : Option Nat := lens.foldl normStep (some 1)

/-- `np.array([v[0] for i in range(ns)]) if len(v) == 1 else v` -/
def bcast {α : Type} (ns : Nat) (v : List α) : List α :=
  match v with
  | [x] => List.replicate ns x
  | _ => v

inductive Kind | fresh | buffer | fixed
deriving DecidableEq, Repr

inductive Slot (M : Type) | val (m : M) | ref
structure Run (M : Type) where
  cell : Option M
  out : List (Slot M)

def stepRun {P M : Type} (copies : Bool) (kind : Kind) (f : P → M) (r : Run M) (p : P) : Run M :=
  let m := f p
  match kind with
  | .buffer => if copies then { cell := some m, out := r.out ++ [.val m] } else { cell := some m, out := r.out ++ [.ref] }
  | _ => { r with out := r.out ++ [.val m] }

def deref {M : Type} (cell : Option M) : Slot M → Option M
  | .val m => some m
  | .ref => cell

def finish {M : Type} (r : Run M) : List M := r.out.filterMap (deref r.cell)

def modelSweep {P M : Type} (copies : Bool) (kind : Kind) (f : P → M) (pts : List P) : List M :=
  finish (pts.foldl (stepRun copies kind f) ⟨none, []⟩)

end Sweep
