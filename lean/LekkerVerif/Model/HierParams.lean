import LekkerVerif.Core.HierSolve
import LekkerVerif.Model.Params
import LekkerVerif.Model.Sweep
import LekkerVerif.Model.Flatten
import LekkerVerif.Core.HierFlatten
/-! Parametric hierarchies end to end (core Lean only): `Solver.solve(**kw)` of a hierarchy whose leaves are affine probe
blocks `S(p) = S0 + p * S1`.

The three mechanisms modelled separately elsewhere are composed here exactly as the code composes them:
* `Solver.add_structure` registers the defaults of every placed object in the parent under the names by which they are visible
  there (`registerDefaults`, Model/Params.lean) - `PNet.defaults`;
* `Solver.solve` resolves its dictionary (`solverParams`: defaults < call values) and every placement hands it down through its
  rename table (`renameFixed`), where the child solver resolves again - `PNet.inst`;
* every level is solved bottom-up (`HNet.solveH`, Core/HierSolve.lean) - `PNet.psolve`.
`PNet.inst` produces an ordinary `HNet`, so everything proved about `solveH` (C02_hier_exec_sound, any depth) applies to the
instantiated hierarchy, and `PNet.leafDict` below is `descend` (C05_precedence_any_depth) along the path of the leaf. -/

/-- a parametric hierarchy: an affine leaf, or a level whose placements carry a rename table ((new, old) pairs) -/
inductive PNet (F : Type) where
  | leaf (pins : List String) (idx : List (String × Nat)) (S0 S1 : Mat F) (param : String) (dflt : F)
  | node (children : List (Table × PNet F)) (links : List (PinRef × PinRef)) (exposed : List (String × PinRef))

namespace PNet
variable {F : Type} [Scalar F]

mutual
/-- `default_params` of the object: a leaf's own default; a solver's as registered placement by placement -/
def defaults : PNet F → Dict F
  | .leaf _ _ _ _ param dflt => ⟨[(param, dflt)]⟩
  | .node children _ _ => defaultsAll ⟨[]⟩ children
/-- the registrations of `add_structure`, in placement order -/
def defaultsAll (acc : Dict F) : List (Table × PNet F) → Dict F
  | [] => acc
  | (m, ch) :: rest => defaultsAll (registerDefaults m acc (defaults ch)) rest
end

/-- `S0 + p * S1` -/
def affine (S0 S1 : Mat F) (p : F) : Mat F := Mat.ofFn S0.r S0.c fun i j => S0.get i j + p * S1.get i j

mutual
/-- the hierarchy with every leaf evaluated, given the dictionary `d` that reaches the object (a leaf overlays it on its own
default; a solver resolves `defaults < d` and hands the result down through every placement's table) -/
def inst (d : Dict F) : PNet F → HNet F
  | .leaf pins idx S0 S1 param dflt =>
    .leaf { pins := pins, idx := idx, S := affine S0 S1 ((d.get? param).getD dflt) }
  | .node children links exposed =>
    .node (instAll (solverParams (defaultsAll ⟨[]⟩ children) d ⟨[]⟩) children) links exposed
def instAll (d : Dict F) : List (Table × PNet F) → List (HNet F)
  | [] => []
  | (m, ch) :: rest => inst (renameFixed m d) ch :: instAll d rest
end

/-- `top.solve(**kw)` -/
def psolve (sched : List (St F) → Option (Nat × Nat)) (kw : Dict F) (t : PNet F) : Except Err (CompD F) :=
  HNet.solveH sched (inst kw t)

/-- `top.solve(**kw)` with array-valued parameters: the lengths are normalised as `Solver.solve` does (`Sweep.normalise`: all
lengths other than 1 must agree, otherwise the call is rejected - `none`), values of length 1 are broadcast (`Sweep.bcast`), and
point `i` of the result is the scalar solve at the `i`-th values (what C04 demands of the batched computation of the code) -/
def psweep (sched : List (St F) → Option (Nat × Nat)) (kw : List (String × List F)) (t : PNet F) :
    Option (List (Except Err (CompD F))) :=
  match Sweep.normalise (kw.map (·.2.length)) with
  | none => none
  | some ns => some ((List.range ns).map fun i =>
      psolve sched ⟨kw.map fun kv => (kv.1, ((Sweep.bcast ns kv.2)[i]?).getD default)⟩ t)

mutual
/-- the leaf placements of `flatten()`, depth first, each with the rename table `flatten_top_level` leaves on it: the table
of the placement one level up (`P`, already composed down to there) composed with the placement's own table -/
def flatLeaves (P : Option Table) : PNet F → List (Table × PNet F)
  | .leaf pins idx S0 S1 param dflt => [(P.getD [], .leaf pins idx S0 S1 param dflt)]
  | .node children _ _ => flatLeavesAll P children
def flatLeavesAll (P : Option Table) : List (Table × PNet F) → List (Table × PNet F)
  | [] => []
  | (m, ch) :: rest =>
    flatLeaves (some (match P with | none => m | some p => Flatten.composeTables p m)) ch ++ flatLeavesAll P rest
end

/-- `top.flatten(); top.solve(**kw)`: the flattened solver keeps its `default_params` (`flatten_top_level` restores them), every
leaf placement carries its composed table, links and exposures are those of `HNet.flatten` (they do not depend on the values) -/
def pflatSolve (sched : List (St F) → Option (Nat × Nat)) (kw : Dict F) (t : PNet F) : Except Err (CompD F) :=
  match t, (inst kw t).flatten with
  | .node children _ _, .node _ links exposed =>
    HNet.solveH sched (.node (instAll (solverParams (defaultsAll ⟨[]⟩ children) kw ⟨[]⟩) (flatLeavesAll none children)) links exposed)
  | _, _ => HNet.solveH sched (inst kw t)

mutual
/-- the dictionary that reaches the object at the end of a path of child positions (none if the path leaves the tree) -/
def dictAt (d : Dict F) : PNet F → List Nat → Option (Dict F)
  | _, [] => some d
  | .leaf .., _ :: _ => none
  | .node children _ _, i :: rest => dictAtList (solverParams (defaultsAll ⟨[]⟩ children) d ⟨[]⟩) children i rest
/-- … through the `i`-th placement of a level whose resolved dictionary is `d` -/
def dictAtList (d : Dict F) : List (Table × PNet F) → Nat → List Nat → Option (Dict F)
  | [], _, _ => none
  | (m, ch) :: _, 0, rest => dictAt (renameFixed m d) ch rest
  | _ :: more, i + 1, rest => dictAtList d more i rest
end

end PNet
