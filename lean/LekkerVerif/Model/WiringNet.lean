import LekkerVerif.Model.Wiring
import LekkerVerif.Core.Net
/-! The network a wiring state denotes (core Lean only): what `Solver.solve` is handed after a history of wiring calls.

The components are the structures that are present, in the order of `Solver.structures`; a connection of the solver's table is a
link between the positions of its two structures; an entry of the pin mapping is an exposure.  Structure objects are addressed by id
in the wiring model and by position in `NetD`; `posOf` translates.  A structure that lost pins through `remove_structure` of a
neighbour keeps its full matrix: the lost pins are simply neither linked nor exposed (no wave enters them). -/

namespace Wiring

/-- position of the structure with id `i` in `Solver.structures` -/
def posOf (w : W) (i : Nat) : Nat := w.structs.idxOf i

def denote {F : Type} (comps : List (CompD F)) (pinName : Pin → String) (expName : Nat → String) (w : W) : NetD F :=
  { comps := w.structs.filterMap fun i => comps[i]?
    links := w.conns.map fun c => ((posOf w c.1.1, pinName c.1), (posOf w c.2.1, pinName c.2))
    exposed := w.mapping.map fun m => (expName m.1, (posOf w m.2.1, pinName m.2)) }

end Wiring
