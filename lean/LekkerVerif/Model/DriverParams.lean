import LekkerVerif.Model.DriverBase
import LekkerVerif.Model.Params
import LekkerVerif.Model.Flatten
open Lean

namespace Driver

def parsePairsStr (j : Json) : Option (List (String × String)) :=
  match j with
  | .arr xs => xs.toList.mapM fun x => match x with
    | .arr #[.str a, .str b] => some (a, b)
    | _ => none
  | _ => none

/-- op `rename`: `Structure.update_params` on (table as stored: [new, old] pairs, dict) -/
def opRename (j : Json) : Json :=
  match (j.getObjVal? "table").toOption >>= parsePairsStr, (j.getObjVal? "dict").toOption >>= parsePairsStr with
  | some table, some d =>
    let r := renameFixed table (⟨d⟩ : Dict String)
    Json.mkObj [("dict", Json.arr (r.kv.map fun kv => Json.arr #[Json.str kv.1, Json.str kv.2]).toArray)]
  | _, _ => errJson "parse"

/-- op `compose`: rename-table composition of `flatten_top_level` (tables as stored: [new, old] pairs) -/
def opCompose (j : Json) : Json :=
  match (j.getObjVal? "P").toOption >>= parsePairsStr, (j.getObjVal? "L").toOption >>= parsePairsStr with
  | some P, some L =>
    let r := Flatten.composeTables P L
    Json.mkObj [("table", Json.arr (r.map fun kv => Json.arr #[Json.str kv.1, Json.str kv.2]).toArray)]
  | _, _ => errJson "parse"

/-- op `solverparams`: `Solver.update_params` (defaults < call values < add_param-derived) -/
def opSolverParams (j : Json) : Json :=
  match (j.getObjVal? "defaults").toOption >>= parsePairsStr, (j.getObjVal? "args").toOption >>= parsePairsStr,
        (j.getObjVal? "derived").toOption >>= parsePairsStr with
  | some d, some a, some x =>
    let r := solverParams (⟨d⟩ : Dict String) ⟨a⟩ ⟨x⟩
    Json.mkObj [("dict", Json.arr (r.kv.map fun kv => Json.arr #[Json.str kv.1, Json.str kv.2]).toArray)]
  | _, _, _ => errJson "parse"

/-- op `register`: `Solver.add_structure` (parameter part) -/
def opRegister (j : Json) : Json :=
  match (j.getObjVal? "table").toOption >>= parsePairsStr, (j.getObjVal? "parent").toOption >>= parsePairsStr,
        (j.getObjVal? "child").toOption >>= parsePairsStr with
  | some t, some p, some c =>
    let r := registerDefaults t (⟨p⟩ : Dict String) ⟨c⟩
    Json.mkObj [("dict", Json.arr (r.kv.map fun kv => Json.arr #[Json.str kv.1, Json.str kv.2]).toArray)]
  | _, _, _ => errJson "parse"

/-- op `descend`: the dictionary reaching the bottom of a path of placements; `levels` = [{table, defaults}] from the top down;
the top dictionary is `Solver.update_params` of the root (defaults < call values) -/
def opDescend (j : Json) : Json :=
  let lv : Option (List (Table × Dict String)) :=
    match j.getObjVal? "levels" with
    | .ok (.arr xs) => xs.toList.mapM fun x =>
        match (x.getObjVal? "table").toOption >>= parsePairsStr, (x.getObjVal? "defaults").toOption >>= parsePairsStr with
        | some t, some c => some (t, (⟨c⟩ : Dict String))
        | _, _ => none
    | _ => none
  match (j.getObjVal? "defaults").toOption >>= parsePairsStr, (j.getObjVal? "args").toOption >>= parsePairsStr, lv with
  | some d, some a, some levels =>
    let r := descend (solverParams (⟨d⟩ : Dict String) ⟨a⟩ ⟨[]⟩) levels
    Json.mkObj [("dict", Json.arr (r.kv.map fun kv => Json.arr #[Json.str kv.1, Json.str kv.2]).toArray)]
  | _, _, _ => errJson "parse"

end Driver
