/-! Model of parameter handling (C05), core Lean only.
`Dict` = insertion-ordered association list with Python's lookup semantics (first match wins because
keys are kept unique by `set`); `renameFixed` = `Structure.update_params` (rename + shield) as repaired;
`overlay` = `dict.update`; `solverParams` = `Solver.update_params` (defaults < call values < add_param-derived). -/

structure Dict (V : Type) where
  kv : List (String × V)

namespace Dict
variable {V : Type}
def get? (d : Dict V) (k : String) : Option V := (d.kv.find? (·.1 == k)).map (·.2)
def hasKey (d : Dict V) (k : String) : Bool := d.kv.any (·.1 == k)
/-- `d[k] = v` : replace in place if present, else append -/
def set (d : Dict V) (k : String) (v : V) : Dict V :=
  if d.hasKey k then ⟨d.kv.map fun e => if e.1 == k then (k, v) else e⟩ else ⟨d.kv ++ [(k, v)]⟩
/-- the keys, in insertion order -/
def keys (d : Dict V) : List String := d.kv.map (·.1)
/-- `d.update(e)` -/
def overlay (d e : Dict V) : Dict V := e.kv.foldl (fun acc kv => acc.set kv.1 kv.2) d
end Dict

/-- the rename table as stored by `Structure.__init__`: (new, old) pairs in listing order -/
abbrev Table := List (String × String)

/-- specification: simultaneous substitution, as a lookup on inner (old) names -/
def simul {V : Type} (m : Table) (d : Dict V) (x : String) : Option V :=
  match m.find? (·.2 == x) with
  | some no => d.get? no.1                        -- x is an old name: it receives what was given under its new name
  | none => if m.any (·.1 == x) then none         -- x is (only) a new name: shielded
            else d.get? x

/-- `Structure.update_params` (rename + shield): drop every old and every new name, then add `old ← input[new]` -/
def renameFixed {V : Type} (m : Table) (d : Dict V) : Dict V :=
  ⟨d.kv.filter (fun e => !(m.any fun no => no.1 == e.1 || no.2 == e.1))
    ++ m.filterMap fun no => (d.get? no.1).map fun v => (no.2, v)⟩

/-- `Solver.update_params`: `param_dic.update(defaults); .update(call values); .update(derived)` -/
def solverParams {V : Type} (defaults args derived : Dict V) : Dict V :=
  ((Dict.mk []).overlay defaults |>.overlay args).overlay derived

/-- arguments of an `add_param` function: explicit value, else current solver default, else definition default -/
def addParamArgs {V : Type} (defn : Dict V) (defaults args : Dict V) : Dict V :=
  ⟨defn.kv.map fun kv => (kv.1, ((args.get? kv.1).or (defaults.get? kv.1)).getD kv.2)⟩


/-- `Solver.add_structure` (parameter part): the placed component's defaults are registered in the parent under the
names by which they are visible there (old name ↦ new name of the placement's table, other names unchanged; the
geometry keys `R`, `w`, `pol` are not raised), with `dict.update` semantics -/
def registerDefaults {V : Type} (m : Table) (parent child : Dict V) : Dict V :=
  parent.overlay ⟨(child.kv.filter fun kv => !(kv.1 == "R" || kv.1 == "w" || kv.1 == "pol")).map fun kv =>
    (match m.find? (·.2 == kv.1) with
     | some no => no.1
     | none => kv.1, kv.2)⟩

/-! any nesting depth: a path of placements from the top solver down to a component (see `Properties/C05.lean`) -/

/-- simultaneous substitution on look-up functions (what `simul` does with the dictionary's `get?`) -/
def simulF {V : Type} (m : Table) (L : String → Option V) (x : String) : Option V :=
  match m.find? (·.2 == x) with
  | some no => L no.1
  | none => if m.any (·.1 == x) then none else L x


/-- the parameter dictionary that reaches the bottom of a path of placements -/
def descend {V : Type} (top : Dict V) : List (Table × Dict V) → Dict V
  | [] => top
  | (m, cd) :: rest => descend (solverParams cd (renameFixed m top) ⟨[]⟩) rest
