import LekkerVerif.Model.DriverBase
import LekkerVerif.Model.Prune
open Lean

namespace Driver
open Prune

partial def parseHier (j : Json) : Option Hier :=
  match j.getObjVal? "m" with
  | .ok (.bool b) => some (.model b)
  | _ => match getArr j "s" with
    | some cs => (cs.toList.mapM parseHier).map Hier.solver
    | none => none

partial def hierJson : Hier → Json
  | .model e => Json.mkObj [("m", Json.bool e)]
  | .solver cs => Json.mkObj [("s", Json.arr (cs.map hierJson).toArray)]

def opPrune (j : Json) : Json :=
  match (j.getObjVal? "tree").toOption >>= parseHier with
  | some h => let r := prune h; Json.mkObj [("tree", hierJson r.1), ("empty", Json.bool r.2)]
  | none => errJson "parse"

end Driver
