/-! Model of the active-solver stack (`lekkersim.sol_list`) under nested `with` blocks (C17).
Core Lean only.  The behaviour of `__enter__` / `__exit__` is a parameter (`Cfg`); the theorems
instantiate it with what the translator reads off the current source (`Generated.enterKind/exitKind`),
the driver runs it with push / pop-always. -/

namespace Stack

inductive Enter | push | nop deriving DecidableEq, Repr
inductive Exit | popAlways | popOnNormal | popOnRaise | nop deriving DecidableEq, Repr

structure Cfg where
  enter : Enter
  exit : Exit
deriving DecidableEq, Repr

def Cfg.py : Cfg := ⟨.push, .popAlways⟩

inductive Prog where
  | helper (h : Nat)                      -- a module-level helper call (acts on the top of the stack)
  | raise                                 -- an exception raised at this point
  | withS (s : Nat) (body : List Prog)    -- `with s: body`
  | tryS (body : List Prog)               -- `try: body  except: pass`

inductive Outcome | normal | raised
deriving DecidableEq, Repr

/-- event: helper `h` acted on solver `s` (`none`: empty stack) -/
abbrev Event := Nat × Option Nat

def doEnter (c : Cfg) (s : Nat) (stk : List Nat) : List Nat :=
  match c.enter with
  | .push => s :: stk
  | .nop => stk

def doExit (c : Cfg) (out : Outcome) (stk : List Nat) : List Nat :=
  match c.exit, out with
  | .popAlways, _ => stk.tail
  | .popOnNormal, .normal => stk.tail
  | .popOnNormal, .raised => stk
  | .popOnRaise, .raised => stk.tail
  | .popOnRaise, .normal => stk
  | .nop, _ => stk

mutual
/-- run one statement: the stack afterwards, the helper events, whether an exception propagates -/
def exec (c : Cfg) : Prog → List Nat → List Nat × List Event × Outcome
  | .helper h, stk => (stk, [(h, stk.head?)], .normal)
  | .raise, stk => (stk, [], .raised)
  | .withS s body, stk =>
      let (stk', ev, out) := execList c body (doEnter c s stk)
      (doExit c out stk', ev, out)
  | .tryS body, stk =>
      let (stk', ev, _) := execList c body stk
      (stk', ev, .normal)
/-- run a block: stops at the first statement that raises -/
def execList (c : Cfg) : List Prog → List Nat → List Nat × List Event × Outcome
  | [], stk => (stk, [], .normal)
  | p :: ps, stk =>
      match exec c p stk with
      | (stk', ev, .raised) => (stk', ev, .raised)
      | (stk', ev, .normal) =>
          let (stk'', ev', out) := execList c ps stk'
          (stk'', ev ++ ev', out)
end

end Stack
