/-! Model of pin-name resolution (C16), core Lean only: a pin is (base name, optional mode name); its printable name
is `base` or `base_mode`; `Model.update_pins` builds the name table and raises on two pins that print alike;
`Structure.pin` resolves a name only if no two pins print alike; `Model.pin_mapping` renames pins and rebuilds
the table. -/

namespace Names

structure PinN where
  base : String
  mode : Option String
deriving DecidableEq, Repr

/-- `Pin.name` -/
def PinN.name (p : PinN) : String :=
  match p.mode with
  | none => p.base
  | some m => p.base ++ "_" ++ m

/-- `Model.update_pins`: the table name ↦ pin, in order; `none` = ValueError (two pins map to the same name) -/
def buildTable (pins : List PinN) : Option (List (String × PinN)) :=
  pins.foldl (fun acc p => acc.bind fun t => if t.any (·.1 == p.name) then none else some (t ++ [(p.name, p)])) (some [])

/-- `Structure.pin`: the dict comprehension collapses equal names; the length test then raises -/
def structTable (pins : List PinN) : Option (List (String × PinN)) :=
  let dic := pins.foldl (fun (acc : List (String × PinN)) p =>
    if acc.any (·.1 == p.name) then acc.map (fun e => if e.1 == p.name then (p.name, p) else e) else acc ++ [(p.name, p)]) []
  if dic.length != pins.length then none else some dic

def resolve (t : List (String × PinN)) (name : String) : Option PinN := (t.find? (·.1 == name)).map (·.2)

/-- `Model.pin_mapping`: pins that are keys of the mapping are replaced (the others stay), then `update_pins` -/
def renamePins (ρ : List (PinN × PinN)) (pins : List PinN) : List PinN :=
  pins.map fun p => match ρ.find? (·.1 == p) with
    | some e => e.2
    | none => p

/-- `Model.expand_mode`: every (mode-free) pin once per mode, the old printable name becoming the base name -/
def expandPins (pins : List PinN) (modes : List String) : List PinN :=
  pins.flatMap fun p => modes.map fun m => ⟨p.name, some m⟩

end Names
