import LekkerVerif.Model.DriverBase
import LekkerVerif.Model.Names
open Lean

namespace Driver
open Names

def parsePinN (j : Json) : Option PinN :=
  match j with
  | .arr #[.str b, .str m] => some ⟨b, some m⟩
  | .arr #[.str b, .null] => some ⟨b, none⟩
  | _ => none

def pinNJson (p : PinN) : Json := Json.arr #[Json.str p.base, match p.mode with | some m => Json.str m | none => Json.null]

def tableJson : Option (List (String × PinN)) → Json
  | none => Json.str "ValueError"
  | some t => Json.arr (t.map fun e => Json.arr #[Json.str e.1, pinNJson e.2]).toArray

/-- op `names`: pins, a renaming, names to resolve -/
def opNames (j : Json) : Json :=
  match (getArr j "pins") >>= fun a => a.toList.mapM parsePinN with
  | none => errJson "parse"
  | some pins =>
    let ρ : List (PinN × PinN) := match getArr j "rename" with
      | some a => a.toList.filterMap fun e => match e with
          | .arr #[x, y] => (parsePinN x).bind fun px => (parsePinN y).map fun py => (px, py)
          | _ => none
      | none => []
    let pins' := renamePins ρ pins
    let q : List String := match getArr j "resolve" with
      | some a => a.toList.filterMap fun e => match e with | .str s => some s | _ => none
      | none => []
    let t' := buildTable pins'
    Json.mkObj [("model", tableJson (buildTable pins)), ("structure", tableJson (structTable pins)),
                ("renamed", tableJson t'),
                ("resolved", Json.arr (q.map fun n => match t' with
                    | some t => (match resolve t n with | some p => pinNJson p | none => Json.str "KeyError")
                    | none => Json.str "ValueError").toArray)]

end Driver
