/-! Model of `Solver.prune` (C19), core Lean only.  A hierarchy is a tree of placements: a placed model
(empty = has no pins) or a placed solver with its own placements. -/

namespace Prune

inductive Hier where
  | model (empty : Bool)
  | solver (children : List Hier)

mutual
/-- `Solver.prune()` on a placed solver: returns the pruned solver and whether it ended up empty;
for a placed model: `Model.is_empty()` -/
def prune : Hier → Hier × Bool
  | .model e => (.model e, e)
  | .solver cs => let cs' := pruneList cs; (.solver cs', cs'.isEmpty)
/-- the loop over `copy(self.structures)`: empty models are removed, solvers are pruned recursively and
removed when they report empty, everything else is kept (in order) -/
def pruneList : List Hier → List Hier
  | [] => []
  | c :: cs =>
    let r := prune c
    if r.2 then pruneList cs else r.1 :: pruneList cs
end

mutual
/-- dead branch: an empty model, or a solver all of whose placements are dead -/
def dead : Hier → Bool
  | .model e => e
  | .solver cs => deadAll cs
def deadAll : List Hier → Bool
  | [] => true
  | c :: cs => dead c && deadAll cs
end

mutual
/-- the hierarchy built without the dead branches -/
def clean : Hier → Hier
  | .model e => .model e
  | .solver cs => .solver (cleanList cs)
def cleanList : List Hier → List Hier
  | [] => []
  | c :: cs => if dead c then cleanList cs else clean c :: cleanList cs
end

mutual
/-- no placement at any depth is dead -/
def noDead : Hier → Bool
  | .model _ => true
  | .solver cs => noDeadList cs
def noDeadList : List Hier → Bool
  | [] => true
  | c :: cs => (!dead c && noDead c) && noDeadList cs
end

end Prune
