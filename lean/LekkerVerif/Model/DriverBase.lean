import Lean.Data.Json
import LekkerVerif.Core.Sched
import LekkerVerif.Core.Batch
/-! JSON helpers shared by the driver ops (Mathlib-free). -/
open Lean

namespace Driver

def parseRat (s : String) : Option Rat :=
  match s.splitOn "/" with
  | [p] => p.toInt?.map fun i => (i : Rat)
  | [p, q] => do
    let a ← p.toInt?
    let b ← q.toNat?
    if b == 0 then none else some ((a : Rat) / (b : Rat))
  | _ => none

def ratToString (r : Rat) : String := s!"{r.num}/{r.den}"

def gratToJson (z : GRat) : Json := Json.arr #[Json.str (ratToString z.re), Json.str (ratToString z.im)]

def parseGRat (j : Json) : Option GRat :=
  match j with
  | .arr #[.str a, .str b] => do
    let re ← parseRat a
    let im ← parseRat b
    pure ⟨re, im⟩
  | _ => none

def parseVec (j : Json) : Option (Array GRat) :=
  match j with
  | .arr xs => xs.mapM parseGRat
  | _ => none

/-- row-major r×c matrix from a flat array of entries -/
def parseMat (r c : Nat) (j : Json) : Option (Mat GRat) := do
  let v ← parseVec j
  if v.size == r * c then some ⟨r, c, v⟩ else none

def matToJson (A : Mat GRat) : Json := Json.arr (A.d.map gratToJson)

def errJson (e : String) : Json := Json.mkObj [("err", Json.str e)]

def errName : Err → String
  | .connectivity => "connectivity" | .notSymmetric => "notSymmetric" | .listRemove => "listRemove"
  | .keyError => "keyError" | .singular => "singular" | .dimension => "dimension" | .empty => "empty"

def getNat (j : Json) (k : String) : Option Nat := (j.getObjValAs? Nat k).toOption
def getStr (j : Json) (k : String) : Option String := (j.getObjValAs? String k).toOption
def getArr (j : Json) (k : String) : Option (Array Json) :=
  match j.getObjVal? k with
  | .ok (.arr a) => some a
  | _ => none

end Driver
