import LekkerVerif.Model.HierParams
/-! The executable well-formedness check of parametric hierarchies (core Lean only): the hypothesis `PWF` of
`PNet.pflatSolve_preserves` (Proofs/HierParamsFlatten.lean), evaluated by the driver on every parametric hierarchy it solves. -/

/-- as `registerDefaults` computes it: the new name if the placement's table renames it, else the name itself -/
def vis (m : Table) (x : String) : String :=
  match m.find? (·.2 == x) with
  | some no => no.1
  | none => x

/-- the same as a Boolean check -/
def placeOK (m : Table) (ks : List String) : Bool :=
  decide ((m.map (·.2)).Nodup) && decide ((m.map (·.1)).Nodup) &&
  (m.map (·.1)).all (fun n => !ks.contains n || (m.map (·.2)).contains n) &&
  (m.map (·.2)).all (fun o => ks.contains o) &&
  ks.all (fun y => y != "R" && y != "w" && y != "pol")

namespace HNet

/-- pin `p` is a pin of the child it addresses -/
def pinAt (pinss : List (List String)) (p : PinRef) : Bool :=
  match pinss[p.1]? with
  | some ps => ps.contains p.2
  | none => false

/-- `LevelOK` as a Boolean check -/
def levelOKb (pinss : List (List String)) (links : List (PinRef × PinRef)) (exposed : List (String × PinRef)) : Bool :=
  pinss.all (fun ps => decide ps.Nodup) &&
  decide ((links.flatMap fun l => [l.1, l.2]).Nodup) &&
  links.all (fun l => pinAt pinss l.1 && pinAt pinss l.2) &&
  links.all (fun l => l.1.1 != l.2.1) &&
  decide ((exposed.map (·.2)).Nodup) &&
  exposed.all (fun e => pinAt pinss e.2) &&
  exposed.all (fun e => links.all fun l => e.2 != l.1 && e.2 != l.2) &&
  decide ((exposed.map (·.1)).Nodup)

end HNet

namespace PNet
variable {F : Type}

/-- the pin names an object presents to its parent (they do not depend on the parameter values) -/
def pinNames : PNet F → List String
  | .leaf pins _ _ _ _ _ => pins
  | .node _ _ exposed => exposed.map (·.1)

mutual
/-- **the executable well-formedness check**: every level is a well-formed level (`HNet.levelOKb` on the pin names of the
placed objects), and every placement's rename table satisfies `placeOK` against the visible parameter names of the placed
object (the keys of its `default_params`) -/
def pwf : PNet F → Bool
  | .leaf _ _ _ _ _ _ => true
  | .node children links exposed =>
    HNet.levelOKb (children.map fun mc => pinNames mc.2) links exposed && pwfAll children
def pwfAll : List (Table × PNet F) → Bool
  | [] => true
  | (m, ch) :: rest => placeOK m (defaults ch).keys && pwf ch && pwfAll rest
end

end PNet
