import LekkerVerif.Model.Params
/-! Model of `solve()` as a transformer on (circuit, scratch state) (C06), core Lean only.
The scratch state is what earlier calls may have left behind: the solver's working parameter dictionary and
a structure's partition table.  `Flags` says whether the code clears them before use and whether the monitor
closure binds its data — read from the source by the translator. -/

namespace Purity

structure Flags where
  resetParams : Bool       -- `self.param_dic = {}` before `update_params`
  resetPartition : Bool    -- `self.in_pins = {}; self.out_pins = {}` at the start of `split_in_out`
  closureBound : Bool      -- the monitor closure reads only values bound when it was created
deriving DecidableEq

structure Scratch (V : Type) where
  paramDic : Dict V          -- left in `Solver.param_dic`
  partition : List Nat       -- left in a structure's `in_pins` (pin ids)

/-- the working dictionary of a call: `param_dic.update(default_params); param_dic.update(kwargs)` -/
def resolve {V : Type} (fl : Flags) (h : Scratch V) (defaults args : Dict V) : Dict V :=
  ((if fl.resetParams then (⟨[]⟩ : Dict V) else h.paramDic).overlay defaults).overlay args

/-- the partition a merge works with: the pins of this merge, after whatever was there -/
def partitionUsed {V : Type} (fl : Flags) (h : Scratch V) (thisMerge : List Nat) : List Nat :=
  (if fl.resetPartition then [] else h.partition) ++ thisMerge

/-- a solve: any function of the circuit's own data, the resolved parameters and the partition -/
def solveM {V R : Type} (fl : Flags) (f : Dict V → List Nat → R) (h : Scratch V) (defaults args : Dict V)
    (thisMerge : List Nat) : R :=
  f (resolve fl h defaults args) (partitionUsed fl h thisMerge)

/-- what a result's monitor read-out evaluates: a value bound at solve time, or a read of the live scratch state -/
inductive MonRead (R : Type) | bound (v : R) | live
def makeMon {R : Type} (fl : Flags) (v : R) : MonRead R := if fl.closureBound then .bound v else .live
def readMon {R : Type} : MonRead R → R → R
  | .bound v, _ => v
  | .live, now => now

end Purity
