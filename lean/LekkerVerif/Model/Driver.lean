import LekkerVerif.Model.DriverBase
import LekkerVerif.Model.DriverStack
import LekkerVerif.Model.DriverParams
import LekkerVerif.Model.DriverWiring
import LekkerVerif.Model.DriverSplit
import LekkerVerif.Model.DriverPrune
import LekkerVerif.Model.DriverNames
import LekkerVerif.Core.Monitor
import LekkerVerif.Core.HierSolve
import LekkerVerif.Model.HierParams
import LekkerVerif.Model.HierParamsWF
import LekkerVerif.Core.HierFlatten
import LekkerVerif.Core.HierSplit
import LekkerVerif.Core.HierPrune
import LekkerVerif.Model.WiringNet
import LekkerVerif.Core.WFCheck
/-! Driver ops.  Each op runs executable definitions of the model on the decoded request. -/
open Lean

namespace Driver

/-! ### op `star` : S_matrix.add / int_complete on one pair or on a batch -/

def parseSMat (j : Json) : Option (SMat GRat) := do
  let N ← getNat j "N"
  let M ← getNat j "M"
  let s11 ← (j.getObjVal? "S11").toOption >>= parseMat M N
  let s22 ← (j.getObjVal? "S22").toOption >>= parseMat N M
  let s12 ← (j.getObjVal? "S12").toOption >>= parseMat M M
  let s21 ← (j.getObjVal? "S21").toOption >>= parseMat N N
  pure { N := N, M := M, S11 := s11, S22 := s22, S12 := s12, S21 := s21 }

def smatToJson (C : SMat GRat) : Json :=
  Json.mkObj [("N", toJson C.N), ("M", toJson C.M), ("S11", matToJson C.S11), ("S22", matToJson C.S22),
              ("S12", matToJson C.S12), ("S21", matToJson C.S21)]

/-- matrix · vector with the model's own `Mat.mul` -/
def mulVec (A : Mat GRat) (v : Array GRat) : Mat GRat := Mat.mul A ⟨v.size, 1, v⟩

/-- `int_complete`: uo = (1 - A12 B21)⁻¹ (A11 u + A12 B22 d), do = (1 - B21 A12)⁻¹ (B22 d + B21 A11 u) -/
def intComplete? (A B : SMat GRat) (u d : Array GRat) : Except Err (Mat GRat × Mat GRat) :=
  if A.M != B.N then .error .dimension else
  match Mat.inv? (Mat.sub (Mat.one A.M) (Mat.mul A.S12 B.S21)), Mat.inv? (Mat.sub (Mat.one A.M) (Mat.mul B.S21 A.S12)) with
  | some X, some Y =>
    let ut := mulVec A.S11 u
    let dt := mulVec B.S22 d
    .ok (Mat.mul X (Mat.add ut (Mat.mul A.S12 dt)), Mat.mul Y (Mat.add dt (Mat.mul B.S21 ut)))
  | _, _ => .error .singular

def opStar (j : Json) : Json :=
  match getArr j "As", getArr j "Bs" with
  | some as, some bs =>
    match as.toList.mapM parseSMat, bs.toList.mapM parseSMat with
    | some As, some Bs =>
      match SMat.addBatch As Bs with
      | .error e => errJson (errName e)
      | .ok Cs => Json.mkObj [("Cs", Json.arr (Cs.map smatToJson).toArray)]
    | _, _ => errJson "parse"
  | _, _ =>
    match (j.getObjVal? "A").toOption >>= parseSMat, (j.getObjVal? "B").toOption >>= parseSMat with
    | some A, some B =>
      match A.add? B with
      | .error e => errJson (errName e)
      | .ok C =>
        let base := [("C", smatToJson C)]
        match (j.getObjVal? "u").toOption >>= parseVec, (j.getObjVal? "d").toOption >>= parseVec with
        | some u, some d =>
          match intComplete? A B u d with
          | .ok (f, g) => Json.mkObj (base ++ [("f", matToJson f), ("g", matToJson g)])
          | .error e => Json.mkObj (base ++ [("werr", Json.str (errName e))])
        | _, _ => Json.mkObj base
    | _, _ => errJson "parse"

/-! ### op `solve` : a whole circuit through `NetD.solveWith` (= `loopWith sched n net.initial n`) -/

structure CompJ where
  pins : Array String
  idx : Array Nat
  S : Json
deriving FromJson
structure LinkJ where
  a : Nat
  p : String
  b : Nat
  q : String
deriving FromJson
structure ExpJ where
  name : String
  c : Nat
  p : String
deriving FromJson
structure CaseJ where
  comps : Array CompJ
  links : Array LinkJ
  exposed : Array ExpJ
deriving FromJson

def mkComp (c : CompJ) : Option (CompD GRat) := do
  let n := c.pins.size
  let S ← parseMat n n c.S
  pure { pins := c.pins.toList, idx := c.pins.toList.zip c.idx.toList, S := S }

/-- a forced schedule: the `t`-th merge joins the pair `pairs[t]` (ids: base structures `0..n-1`,
the composite created by merge `t` gets id `n + t`) -/
def forcedSched (n : Nat) (pairs : Array (Nat × Nat)) (live : List (St GRat)) : Option (Nat × Nat) :=
  pairs[n - live.length]?

def parsePairs (j : Json) : Option (Array (Nat × Nat)) :=
  match j with
  | .arr xs => xs.mapM fun x => match x with
    | .arr #[a, b] => do
      let i ← (fromJson? (α := Nat) a).toOption
      let k ← (fromJson? (α := Nat) b).toOption
      pure (i, k)
    | _ => none
  | _ => none

/-- the same loop as `Solve.loopWith`, step by step through `Solve.stepWith`, keeping every composite it creates -/
def loopTrace (sched : List (St GRat) → Option (Nat × Nat)) : Nat → List (St GRat) → Nat → List (St GRat) →
    Except Err (St GRat × List (St GRat))
  | 0, live, _, acc => match live with
    | [s] => .ok (s, acc.reverse)
    | _ => .error .empty
  | fuel + 1, live, fresh, acc => match live with
    | [s] => .ok (s, acc.reverse)
    | _ => match Solve.stepWith sched live fresh with
      | .error e => .error e
      | .ok live' => loopTrace sched fuel live' (fresh + 1) (match live'.getLast? with | some c => c :: acc | none => acc)

/-- a composite as seen from outside: its pins (base structure, name) and the coefficient between every ordered pair -/
def stToJson (s : St GRat) : Json :=
  Json.mkObj [("pins", Json.arr (s.pins.map fun p => Json.arr #[toJson p.1, Json.str p.2]).toArray),
              ("members", toJson (St.membersOf s)),
              ("S", Json.arr (s.pins.map fun p => Json.arr (s.pins.map fun q => gratToJson (s.sem p q)).toArray).toArray)]

/-- the hypotheses of the theorems about the elimination, evaluated on the circuit at hand (Core/WFCheck.lean) -/
def hypJson (net : NetD GRat) : Json :=
  Json.mkObj [("wf", net.wfB), ("idx", net.idxB), ("exposure", net.exposureB), ("nonempty", !net.comps.isEmpty)]

def opSolve (j : Json) : Json :=
  match fromJson? (α := CaseJ) j with
  | .error e => errJson ("parse: " ++ e)
  | .ok c =>
    match c.comps.toList.mapM mkComp with
    | none => errJson "parse"
    | some comps =>
      let net : NetD GRat := { comps := comps
                               links := c.links.toList.map fun l => ((l.a, l.p), (l.b, l.q))
                               exposed := c.exposed.toList.map fun e => (e.name, (e.c, e.p)) }
      let n := net.comps.length
      let sched : List (St GRat) → Option (Nat × Nat) :=
        match (j.getObjVal? "sched").toOption >>= parsePairs with
        | some pairs => forcedSched n pairs
        | none => Solve.pySched
      let wantTrace := match j.getObjVal? "trace" with | .ok (.bool true) => true | _ => false
      if wantTrace then
        match loopTrace sched n net.initial n [] with
        | .error e => errJson (errName e)
        | .ok (total, steps) =>
          let rows := net.exposed.map fun e1 =>
            Json.arr (net.exposed.map fun e2 => gratToJson (total.sem e1.2 e2.2)).toArray
          Json.mkObj [("T", Json.arr rows.toArray), ("pins", toJson total.pins.length), ("hyp", hypJson net),
                      ("steps", Json.arr (steps.map stToJson).toArray)]
      else
      match Solve.loopWith sched n net.initial n with
      | .error e => errJson (errName e)
      | .ok total =>
        let rows := net.exposed.map fun e1 =>
          Json.arr (net.exposed.map fun e2 => gratToJson (total.sem e1.2 e2.2)).toArray
        Json.mkObj [("T", Json.arr rows.toArray), ("pins", toJson total.pins.length), ("hyp", hypJson net)]

/-! ### op `hsolve` : a hierarchy through `HNet.solveH` (every sub-circuit solved first, its exposed block handed up) -/

partial def parseTree (j : Json) : Option (HNet GRat) :=
  match j.getObjVal? "leaf" with
  | .ok l => do
    let c ← (fromJson? (α := CompJ) l).toOption
    let cd ← mkComp c
    pure (.leaf cd)
  | .error _ => do
    let ch ← getArr j "children"
    let children ← ch.toList.mapM parseTree
    let links ← ((j.getObjVal? "links").toOption >>= fun x => (fromJson? (α := Array LinkJ) x).toOption)
    let exposed ← ((j.getObjVal? "exposed").toOption >>= fun x => (fromJson? (α := Array ExpJ) x).toOption)
    pure (.node children (links.toList.map fun l => ((l.a, l.p), (l.b, l.q))) (exposed.toList.map fun e => (e.name, (e.c, e.p))))

def opHSolve (j : Json) : Json :=
  match (j.getObjVal? "tree").toOption >>= parseTree with
  | none => errJson "parse"
  | some t =>
    match HNet.solveH Solve.pySched t with
    | .error e => errJson (errName e)
    | .ok c =>
      Json.mkObj [("pins", toJson c.pins), ("wftree", t.wfTreeB),
                  ("T", Json.arr (c.pins.map fun x => Json.arr (c.pins.map fun y => gratToJson (c.sem x y)).toArray).toArray)]

/-! ### op `phsolve` : `top.solve(**kw)` of a parametric hierarchy (`PNet.psolve`: defaults registered at placement, dictionaries
resolved and renamed on the way down, every level solved bottom-up) -/

structure PLeafJ where
  pins : Array String
  idx : Array Nat
  S0 : Json
  S1 : Json
  param : String
  dflt : Json
deriving FromJson

def parseKw (j : Json) : Option (Dict GRat) :=
  match j with
  | .arr xs => (xs.toList.mapM fun (x : Json) => match x with
      | Json.arr #[Json.str k, v] => (parseGRat v).map fun z => (k, z)
      | _ => none).map fun l => ⟨l⟩
  | _ => none

partial def parsePTree (j : Json) : Option (PNet GRat) :=
  match j.getObjVal? "leaf" with
  | .ok l => do
    let c ← (fromJson? (α := PLeafJ) l).toOption
    let n := c.pins.size
    let S0 ← parseMat n n c.S0
    let S1 ← parseMat n n c.S1
    let d ← parseGRat c.dflt
    pure (.leaf c.pins.toList (c.pins.toList.zip c.idx.toList) S0 S1 c.param d)
  | .error _ => do
    let ch ← getArr j "children"
    let children ← ch.toList.mapM fun (x : Json) => match x with
      | Json.arr #[t, sub] => do
        let tab ← parsePairsStr t
        let s ← parsePTree sub
        pure (tab, s)
      | _ => none
    let links ← ((j.getObjVal? "links").toOption >>= fun x => (fromJson? (α := Array LinkJ) x).toOption)
    let exposed ← ((j.getObjVal? "exposed").toOption >>= fun x => (fromJson? (α := Array ExpJ) x).toOption)
    pure (.node children (links.toList.map fun l => ((l.a, l.p), (l.b, l.q))) (exposed.toList.map fun e => (e.name, (e.c, e.p))))

def dictToJson (d : Dict GRat) : Json := Json.arr (d.kv.map fun kv => Json.arr #[Json.str kv.1, gratToJson kv.2]).toArray

def opPHSolve (j : Json) : Json :=
  match (j.getObjVal? "tree").toOption >>= parsePTree, (j.getObjVal? "kw").toOption >>= parseKw with
  | some t, some kw =>
    let base := [("defaults", dictToJson t.defaults), ("pwf", t.pwf)]
    let paths : List (List Nat) := match (j.getObjVal? "paths").toOption >>= fun x => (fromJson? (α := List (List Nat)) x).toOption with
      | some ps => ps
      | none => []
    let base := base ++ [("dicts", Json.arr (paths.map fun p => match PNet.dictAt kw t p with
      | some d => dictToJson d
      | none => Json.null).toArray)]
    match PNet.psolve Solve.pySched kw t with
    | .error e => Json.mkObj (base ++ [("err", Json.str (errName e))])
    | .ok c =>
      Json.mkObj (base ++ [("pins", toJson c.pins), ("wftree", (PNet.inst kw t).wfTreeB),
                  ("T", Json.arr (c.pins.map fun x => Json.arr (c.pins.map fun y => gratToJson (c.sem x y)).toArray).toArray)])
  | _, _ => errJson "parse"

def parseKwLists (j : Json) : Option (List (String × List GRat)) :=
  match j with
  | .arr xs => xs.toList.mapM fun (x : Json) => match x with
      | Json.arr #[Json.str k, Json.arr vs] => (vs.toList.mapM parseGRat).map fun l => (k, l)
      | _ => none
  | _ => none

/-- op `phsweep`: `top.solve(**kw)` with array-valued parameters (`PNet.psweep`) -/
def opPHSweep (j : Json) : Json :=
  match (j.getObjVal? "tree").toOption >>= parsePTree, (j.getObjVal? "kw").toOption >>= parseKwLists with
  | some t, some kw =>
    match PNet.psweep Solve.pySched kw t with
    | none => errJson "lengths"
    | some rs => Json.mkObj [("points", Json.arr (rs.map fun r => match r with
        | .error e => errJson (errName e)
        | .ok c => Json.mkObj [("pins", toJson c.pins),
            ("T", Json.arr (c.pins.map fun x => Json.arr (c.pins.map fun y => gratToJson (c.sem x y)).toArray).toArray)]).toArray)]
  | _, _ => errJson "parse"

/-- op `hflatten`: `Solver.flatten()` on the description (`HNet.flatten`): leaf paths in the order of the flattened level, links and
exposures re-addressed by leaf position; with `"solve": true` also the solve of the flattened circuit -/
def opHFlatten (j : Json) : Json :=
  match (j.getObjVal? "tree").toOption >>= parseTree with
  | none => errJson "parse"
  | some t =>
    let paths := (HNet.leaves t).map (·.1)
    match t.flatten with
    | .leaf _ => Json.mkObj [("leaf", true), ("paths", toJson paths)]
    | .node cs links exposed =>
      let base := [("paths", toJson paths), ("n", toJson cs.length),
        ("links", Json.arr (links.map fun l => Json.arr #[toJson l.1.1, Json.str l.1.2, toJson l.2.1, Json.str l.2.2]).toArray),
        ("exposed", Json.arr (exposed.map fun e => Json.arr #[Json.str e.1, toJson e.2.1, Json.str e.2.2]).toArray)]
      match HNet.solveH Solve.pySched (.node cs links exposed) with
      | .error e => Json.mkObj (base ++ [("err", Json.str (errName e))])
      | .ok c => Json.mkObj (base ++ [("pins", toJson c.pins),
          ("T", Json.arr (c.pins.map fun x => Json.arr (c.pins.map fun y => gratToJson (c.sem x y)).toArray).toArray)])

/-- op `wsolve`: a history of wiring calls through the wiring model (`Wiring.stepX`), and at every `["solve"]` the network the
state denotes (`Wiring.denote`) through the elimination loop: `Solver.solve()` after an edit history, entirely in the model -/
def opWSolve (j : Json) : Json :=
  match (j.getObjVal? "comps").toOption >>= fun x => (fromJson? (α := Array CompJ) x).toOption, getArr j "ops" with
  | some cj, some ops =>
    match cj.toList.mapM mkComp with
    | none => errJson "parse"
    | some comps =>
      let names : List (List Nat) := match j.getObjVal? "names" with
        | .ok (.arr xs) => xs.toList.map fun x => (natsOf x).getD []
        | _ => []
      let expnames : List String := match (j.getObjVal? "expnames").toOption >>= fun x => (fromJson? (α := List String) x).toOption with
        | some l => l
        | none => []
      let nameOf : Wiring.Pin → Nat := fun p => ((names.getD p.1 []).getD p.2 (1000000 + 1000 * p.1 + p.2))
      let pinName : Wiring.Pin → String := fun p => match comps[p.1]? with
        | some c => c.pins.getD p.2 "?"
        | none => "?"
      let expName : Nat → String := fun n => expnames.getD n "?"
      let (_, outs) := ops.toList.foldl (fun (acc : Wiring.W × List Json) (op : Json) =>
        match op with
        | Json.arr #[Json.str "solve"] =>
          let net : NetD GRat := Wiring.denote comps pinName expName acc.1
          let n := net.comps.length
          let r := match Solve.loopWith Solve.pySched n net.initial n with
            | .error e => errJson (errName e)
            | .ok total => Json.mkObj [("names", toJson (net.exposed.map (·.1))), ("hyp", hypJson net),
                ("T", Json.arr (net.exposed.map fun e1 => Json.arr (net.exposed.map fun e2 => gratToJson (total.sem e1.2 e2.2)).toArray).toArray)]
          (acc.1, acc.2 ++ [r])
        | _ => match parseOpX op with
          | none => (acc.1, acc.2 ++ [errJson "parse-op"])
          | some o => ((Wiring.stepX nameOf acc.1 o).1, acc.2)) (Wiring.init (comps.map fun c => c.pins.length), [])
      Json.mkObj [("solves", Json.arr outs.toArray)]
  | _, _ => errJson "parse"

/-- op `pflatten`: the rename tables `flatten()` leaves on the leaf placements (depth first) and `top.solve(**kw)` after it -/
def opPFlatten (j : Json) : Json :=
  match (j.getObjVal? "tree").toOption >>= parsePTree, (j.getObjVal? "kw").toOption >>= parseKw with
  | some t, some kw =>
    let tabs := (PNet.flatLeaves none t).map fun tl => Json.arr (tl.1.map fun no => Json.arr #[Json.str no.1, Json.str no.2]).toArray
    let base := [("tables", Json.arr tabs.toArray)]
    match PNet.pflatSolve Solve.pySched kw t with
    | .error e => Json.mkObj (base ++ [("err", Json.str (errName e))])
    | .ok c => Json.mkObj (base ++ [("pins", toJson c.pins),
        ("T", Json.arr (c.pins.map fun x => Json.arr (c.pins.map fun y => gratToJson (c.sem x y)).toArray).toArray)])
  | _, _ => errJson "parse"

/-- op `hsplit`: `Solver.split()` on a level (`HNet.splitLevel`): for every part the positions of its children in the original, the
names it exposes and its solve -/
def opHSplit (j : Json) : Json :=
  match (j.getObjVal? "tree").toOption >>= parseTree with
  | some (.node cs links exposed) =>
    let gs := HNet.groups cs.length links
    Json.mkObj [("parts", Json.arr (gs.map fun g =>
      let sub := HNet.subLevel cs links exposed g
      let base := [("positions", toJson (HNet.positions cs.length g)), ("names", toJson sub.pinNamesB), ("wftree", sub.wfTreeB)]
      match HNet.solveH Solve.pySched sub with
      | .error e => Json.mkObj (base ++ [("err", Json.str (errName e))])
      | .ok c => Json.mkObj (base ++ [("pins", toJson c.pins),
          ("T", Json.arr (c.pins.map fun x => Json.arr (c.pins.map fun y => gratToJson (c.sem x y)).toArray).toArray)])).toArray)]
  | _ => errJson "parse"

/-- op `hprune`: one level of `prune()` on the description (`HNet.pruneLevel`): the positions of the children that stay (those that
present at least one pin) and the solve of the pruned level -/
def opHPrune (j : Json) : Json :=
  match (j.getObjVal? "tree").toOption >>= parseTree with
  | some (.node cs links exposed) =>
    let base := [("kept", toJson (HNet.liveSet cs)), ("wftree", (HNet.node cs links exposed).wfTreeB)]
    match HNet.solveH Solve.pySched (HNet.pruneLevel (.node cs links exposed)) with
    | .error e => Json.mkObj (base ++ [("err", Json.str (errName e))])
    | .ok c => Json.mkObj (base ++ [("pins", toJson c.pins),
        ("T", Json.arr (c.pins.map fun x => Json.arr (c.pins.map fun y => gratToJson (c.sem x y)).toArray).toArray)])
  | _ => errJson "parse"

/-- op `hempty`: the criterion of `Solver.prune()` itself on the description (`HNet.emptyRec`, `HNet.keepSet`) and the solve of
the level it keeps (`HNet.keepLevel`) -/
def opHEmpty (j : Json) : Json :=
  match (j.getObjVal? "tree").toOption >>= parseTree with
  | some (.node cs links exposed) =>
    let base := [("empty", Json.bool (HNet.node cs links exposed).emptyRec), ("keep", toJson (HNet.keepSet cs)),
      ("live", toJson (HNet.liveSet cs)), ("wftree", (HNet.node cs links exposed).wfTreeB)]
    match HNet.solveH Solve.pySched (HNet.keepLevel (.node cs links exposed)) with
    | .error e => Json.mkObj (base ++ [("err", Json.str (errName e))])
    | .ok c => Json.mkObj (base ++ [("pins", toJson c.pins),
        ("T", Json.arr (c.pins.map fun x => Json.arr (c.pins.map fun y => gratToJson (c.sem x y)).toArray).toArray)])
  | _ => errJson "parse"

/-- op `monsolve`: the monitor path of `Solver.solve` (`Monitor.solveMonitored` with the pin-count heuristic) -/
def opMonSolve (j : Json) : Json :=
  match fromJson? (α := CaseJ) j with
  | .error e => errJson ("parse: " ++ e)
  | .ok c =>
    match c.comps.toList.mapM mkComp with
    | none => errJson "parse"
    | some comps =>
      let net : NetD GRat := { comps := comps
                               links := c.links.toList.map fun l => ((l.a, l.p), (l.b, l.q))
                               exposed := c.exposed.toList.map fun e => (e.name, (e.c, e.p)) }
      let mon : List Nat := match j.getObjVal? "mon" with
        | .ok (.arr xs) => xs.toList.filterMap fun x => (fromJson? (α := Nat) x).toOption
        | _ => []
      let exc : List (String × GRat) := match j.getObjVal? "exc" with
        | .ok (.arr xs) => xs.toList.filterMap fun x => match x with
          | .arr #[.str nm, z] => (parseGRat z).map fun v => (nm, v)
          | _ => none
        | _ => []
      match Monitor.solveMonitored Solve.pySched net mon exc with
      | .error e => errJson (errName e)
      | .ok (total, r) =>
        let rows := net.exposed.map fun e1 =>
          Json.arr (net.exposed.map fun e2 => gratToJson (total.sem e1.2 e2.2)).toArray
        let table := Monitor.tabulate (fun c => "M" ++ toString c) id r
        Json.mkObj [("T", Json.arr rows.toArray),
                    ("table", Json.arr (table.map fun kv => Json.arr #[Json.str kv.1, gratToJson kv.2]).toArray),
                    ("links", Json.arr (r.links.map fun l => Json.arr #[toJson l.1.1, Json.str l.1.2, toJson l.2.1, Json.str l.2.2]).toArray),
                    ("inward", Json.arr (r.inward.map gratToJson).toArray),
                    ("outward", Json.arr (r.outward.map gratToJson).toArray)]

def dispatch (j : Json) : Json :=
  match getStr j "op" with
  | some "star" => opStar j
  | some "solve" => opSolve j
  | some "monsolve" => opMonSolve j
  | some "hsolve" => opHSolve j
  | some "hflatten" => opHFlatten j
  | some "hsplit" => opHSplit j
  | some "hprune" => opHPrune j
  | some "hempty" => opHEmpty j
  | some "wsolve" => opWSolve j
  | some "phsolve" => opPHSolve j
  | some "pflatten" => opPFlatten j
  | some "phsweep" => opPHSweep j
  | some "stack" => opStack j
  | some "rename" => opRename j
  | some "compose" => opCompose j
  | some "solverparams" => opSolverParams j
  | some "register" => opRegister j
  | some "descend" => opDescend j
  | some "wiring" => opWiring j
  | some "split" => opSplit j
  | some "prune" => opPrune j
  | some "names" => opNames j
  | some "ping" => Json.mkObj [("ok", true)]
  | _ => errJson "unknown-op"

end Driver
