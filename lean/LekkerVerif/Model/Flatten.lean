import LekkerVerif.Model.Params
/-! Model of `Solver.flatten` (C11), core Lean only: the placement tree (what is inlined where) and the
composition of the parent's and the child's rename tables as the (repaired) code computes it. -/

namespace Flatten

/-- placement tree: a placed model (identified by a number) or a placed solver with its placements -/
inductive Tree where
  | model (id : Nat)
  | solver (children : List Tree)

/-- what one structure of the top level becomes: a model stays, a placed solver is replaced by its structures -/
def expandChild : Tree → List Tree
  | .model i => [.model i]
  | .solver ccs => ccs

/-- `flatten_top_level`: every solver-backed structure of the top level is replaced by its own structures -/
def inlineTop : Tree → Tree
  | .model i => .model i
  | .solver cs => .solver (cs.flatMap expandChild)

def isModel : Tree → Bool
  | .model _ => true
  | .solver _ => false

/-- `flatten_top_level` returns False when no structure of the top level is solver-backed -/
def flat : Tree → Bool
  | .model _ => true
  | .solver cs => cs.all isModel

/-- `flatten`: repeat while `flatten_top_level` does something (fuel bounds the number of rounds) -/
def flattenFuel : Nat → Tree → Tree
  | 0, t => t
  | n + 1, t => if flat t then t else flattenFuel n (inlineTop t)

mutual
/-- nesting depth below the top solver (a flat solver has depth 0) -/
def depth : Tree → Nat
  | .model _ => 0
  | .solver cs => depthList cs
def depthList : List Tree → Nat
  | [] => 0
  | c :: cs => max (match c with | .model _ => 0 | .solver ccs => depthList ccs + 1) (depthList cs)
end

mutual
/-- the placed models, left to right -/
def leaves : Tree → List Nat
  | .model i => [i]
  | .solver cs => leavesList cs
def leavesList : List Tree → List Nat
  | [] => []
  | c :: cs => leaves c ++ leavesList cs
end

/-- pass 1 of the composition: a lower entry whose middle name the parent renames is re-keyed (and leaves the lower table) -/
def pass1 (renamedHere : List String) (acc : Table × Table) (pe : String × String) : Table × Table :=
  if renamedHere.contains pe.2 then
    match acc.1.find? (·.1 == pe.2) with
    | some le => (acc.1.filter (fun e => !(e.1 == pe.2)), acc.2 ++ [(pe.1, le.2)])
    | none => acc
  else acc

/-- one step of `dict.update`: replace an existing key in place, append a new one -/
def upd (acc : Table) (e : String × String) : Table :=
  if acc.any (·.1 == e.1) then acc.map (fun a => if a.1 == e.1 then e else a) else acc ++ [e]

/-- composition of the rename tables when a lower structure (table `L`: new_mid ↦ old_bottom) is lifted out of
a sub-solver placed with table `P` (new_top ↦ old_mid), as `flatten_top_level` computes it:
entries of `L` whose middle name is renamed by `P` are re-keyed; entries of `P` whose middle name the lower
structure neither renames nor shields are added; everything else of `L` is kept. -/
def composeTables (P L : Table) : Table :=
  let shielded := L.map (·.2)
  let renamedHere := L.map (·.1)
  let r := P.foldl (pass1 renamedHere) (L, [])
  -- pass 2: parent entries for middle names the lower structure neither renames nor shields
  let up2 := P.filter fun pe => !(renamedHere.contains pe.2) && !(shielded.contains pe.2) && !(r.1.any (·.1 == pe.1))
  -- dict.update(up)
  (r.2 ++ up2).foldl upd r.1

end Flatten
