import LekkerVerif.Model.DriverBase
import LekkerVerif.Model.Split
open Lean

namespace Driver

/-- op `split`: adjacency lists (connected_to of every structure) and declaration order → the union loop's sets -/
def opSplit (j : Json) : Json :=
  match (j.getObjValAs? (List Nat) "order").toOption, (j.getObjValAs? (List (List Nat)) "adj").toOption with
  | some order, some adj =>
    let f : Nat → List Nat := fun i => adj.getD i []
    Json.mkObj [("sets", toJson ((Split.components order f).map fun s => s.eraseDups))]
  | _, _ => errJson "parse"

end Driver
