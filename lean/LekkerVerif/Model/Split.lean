/-! Model of the union loop of `Solver.split` (as repaired), core Lean only. -/

namespace Split

abbrev Node := Nat

/-- one iteration: merge all existing sets that meet `{st} ∪ neighbours(st)` with it -/
def unionStep (sets : List (List Node)) (st : Node) (nbrs : List Node) : List (List Node) :=
  let group := st :: nbrs
  let hit := sets.filter (fun s => s.any (group.contains ·))
  let miss := sets.filter (fun s => !s.any (group.contains ·))
  miss ++ [group ++ hit.flatten]

def components (structures : List Node) (adj : Node → List Node) : List (List Node) :=
  structures.foldl (fun sets st => unionStep sets st (adj st)) []

end Split
