/-! Model of the solver's wiring state machine (C07, C16), core Lean only.

Three redundant solver views (`connections`, `connections_list`, `free_pins`) plus the per-structure
tables (`pin_list`, `conn_dict`, `connected_to`) kept in an object heap: structure objects outlive
their membership in the solver (a cut structure can be added again).  `connect` mirrors the order of
effects of the (repaired) code: checks first, then the solver tables, then the two `add_conn` calls,
each of which can still raise *after* the solver tables were written. -/

namespace Wiring

abbrev Pin := Nat × Nat        -- (structure id, pin id)

structure SObj where
  pins   : List Nat
  conn   : List (Nat × Pin)      -- conn_dict: own pin ↦ (target structure, target pin)
  connTo : List Nat              -- connected_to
deriving DecidableEq, Repr

structure W where
  heap    : List (Nat × SObj)       -- all structure objects by id
  structs : List Nat                -- Solver.structures
  conns   : List (Pin × Pin)        -- Solver.connections (insertion-ordered dict)
  clist   : List Pin                -- Solver.connections_list
  free    : List Pin                -- Solver.free_pins
  mapping : List (Nat × Pin)        -- Solver.pin_mapping (exposed name id ↦ pin)
deriving DecidableEq, Repr

inductive Out | ok | valueError | exception
deriving DecidableEq, Repr

def getObj (w : W) (i : Nat) : Option SObj := (w.heap.find? (·.1 == i)).map (·.2)
def setObj (w : W) (i : Nat) (o : SObj) : W := { w with heap := w.heap.map fun e => if e.1 == i then (i, o) else e }

def lookup (l : List (Pin × Pin)) (p : Pin) : Option Pin := (l.find? (·.1 == p)).map (·.2)

/-- Structure.add_conn: raises when the pin already has a different partner -/
def addConn (o : SObj) (pin : Nat) (target : Pin) : Option SObj :=
  let connTo' := if o.connTo.contains target.1 then o.connTo else o.connTo ++ [target.1]
  match (o.conn.find? (·.1 == pin)).map (·.2) with
  | some t => if t == target then some { o with connTo := connTo' } else none      -- "Pin already connected"
  | none => some { o with conn := o.conn ++ [(pin, target)], connTo := connTo' }

/-- Solver.add_structure (wiring part) -/
def addStruct (w : W) (i : Nat) : W × Out :=
  if w.structs.contains i then (w, .valueError) else
  match getObj w i with
  | none => (w, .exception)
  | some o => ({ w with structs := w.structs ++ [i], free := w.free ++ o.pins.map fun p => (i, p) }, .ok)

/-- Solver.connect (pins already resolved to Pin objects), in code order -/
def connect (w : W) (p q : Pin) : W × Out :=
  if p.1 == q.1 then (w, .valueError) else
  if w.clist.contains p then
    if lookup w.conns p == some q then (w, .ok)
    else if lookup w.conns q == some p then (w, .ok)
    else (w, .valueError)
  else if w.clist.contains q then (w, .valueError)
  else if !(w.free.contains p) || !(w.free.contains q) then (w, .valueError)
  else
    let w1 := { w with clist := w.clist ++ [p, q], conns := w.conns ++ [(p, q)], free := (w.free.erase p).erase q }
    match getObj w1 p.1 with
    | none => (w1, .exception)
    | some op =>
      match addConn op p.2 q with
      | none => (w1, .exception)                    -- raised after the solver tables were written
      | some op' =>
        let w2 := setObj w1 p.1 op'
        match getObj w2 q.1 with
        | none => (w2, .exception)
        | some oq =>
          match addConn oq q.2 p with
          | none => (w2, .exception)
          | some oq' => (setObj w2 q.1 oq', .ok)

/-- Structure.cut_connections / remove_connections on a neighbour -/
def cutConnections (o : SObj) (target : Nat) : SObj :=
  { o with connTo := o.connTo.erase target, conn := o.conn.filter fun e => e.2.1 != target }
def removeConnections (o : SObj) (target : Nat) : SObj :=
  { pins := o.pins.filter fun p => !(o.conn.any fun e => e.1 == p && e.2.1 == target),
    connTo := o.connTo.erase target, conn := o.conn.filter fun e => e.2.1 != target }

def involves (i : Nat) (c : Pin × Pin) : Bool := c.1.1 == i || c.2.1 == i

/-- Solver.cut_structure (repaired: the cut structure's own tables are emptied) -/
def cutStruct (w : W) (i : Nat) : W × Out :=
  if !w.structs.contains i then (w, .exception) else
  match getObj w i with
  | none => (w, .exception)
  | some o =>
    let w1 := o.connTo.foldl (fun w n => match getObj w n with
                                          | some on => setObj w n (cutConnections on i)
                                          | none => w) w
    let w1 := setObj w1 i { o with conn := [], connTo := [] }
    let touched := w1.conns.filter (involves i)
    ({ w1 with structs := w1.structs.erase i,
               conns := w1.conns.filter fun c => !(involves i c),
               clist := w1.clist.filter fun p => !(touched.any fun c => c.1 == p || c.2 == p),
               free := (w1.free ++ touched.flatMap fun c => [c.2, c.1]).filter fun p => p.1 != i,
               mapping := w1.mapping.filter fun m => m.2.1 != i }, .ok)

/-- Solver.remove_structure (repaired: connections_list follows connections; own tables emptied) -/
def removeStruct (w : W) (i : Nat) : W × Out :=
  if !w.structs.contains i then (w, .exception) else
  match getObj w i with
  | none => (w, .exception)
  | some o =>
    let w1 := o.connTo.foldl (fun w n => match getObj w n with
                                          | some on => setObj w n (removeConnections on i)
                                          | none => w) w
    let w1 := setObj w1 i { o with conn := [], connTo := [] }
    let touched := w1.conns.filter (involves i)
    ({ w1 with structs := w1.structs.erase i,
               conns := w1.conns.filter fun c => !(involves i c),
               clist := w1.clist.filter fun p => !(touched.any fun c => c.1 == p || c.2 == p),
               free := w1.free.filter fun p => p.1 != i,
               mapping := w1.mapping.filter fun m => m.2.1 != i }, .ok)

/-- Solver.map_pins for one (name, pin) pair -/
def mapPin (w : W) (name : Nat) (p : Pin) : W × Out :=
  if w.mapping.any (·.1 == name) then
    ({ w with mapping := w.mapping.map fun m => if m.1 == name then (name, p) else m }, .ok)
  else ({ w with mapping := w.mapping ++ [(name, p)] }, .ok)

/-- `Model.put` / `Solver.put` with both pins given (as repaired): the placed structure `i` (a fresh object of the heap) is added and
its pin `s` connected to the target `q` - after both pins were validated, so that a rejected put leaves nothing behind -/
def put (w : W) (i : Nat) (s : Nat) (q : Pin) : W × Out :=
  match getObj w i with
  | none => (w, .exception)
  | some o =>
    if !(o.pins.contains s) then (w, .valueError)              -- the source pin is not a pin of the placed object
    else if w.clist.contains q then (w, .valueError)            -- "Pin already connected"
    else if !(w.free.contains q) then (w, .valueError)          -- unknown pin / not a free pin of the solver
    else
      let r := addStruct w i
      match r.2 with
      | .ok => connect r.1 (i, s) q
      | out => (w, out)

inductive Op
  | add (i : Nat) | connect (p q : Pin) | cut (i : Nat) | remove (i : Nat) | map (name : Nat) (p : Pin)
deriving DecidableEq, Repr

def step (w : W) : Op → W × Out
  | .add i => addStruct w i
  | .connect p q => connect w p q
  | .cut i => cutStruct w i
  | .remove i => removeStruct w i
  | .map n p => mapPin w n p

/-- the loop of `Solver.maps_all_pins` over `free_pins`: a pin that is already exposed is skipped; a pin whose own name is
already a key of the mapping raises - the entries written so far stay, the loop writes as it goes; otherwise the pin is
exposed under its own name -/
def raiseLoop (nameOf : Pin → Nat) : List Pin → List (Nat × Pin) → List (Nat × Pin) × Out
  | [], m => (m, .ok)
  | p :: ps, m =>
    if m.any (·.2 == p) then raiseLoop nameOf ps m
    else if m.any (·.1 == nameOf p) then (m, .exception)
    else raiseLoop nameOf ps (m ++ [(nameOf p, p)])

/-- `Solver.maps_all_pins` (`raise_pins`); `nameOf` gives the id of a pin's own name (pins of different structures may share it) -/
def raiseAll (nameOf : Pin → Nat) (w : W) : W × Out :=
  let r := raiseLoop nameOf w.free w.mapping
  ({ w with mapping := r.1 }, r.2)

/-- the wiring operations plus raise-all and put -/
inductive OpX
  | base (op : Op) | raise | put (i : Nat) (s : Nat) (q : Pin)
deriving DecidableEq, Repr

def stepX (nameOf : Pin → Nat) (w : W) : OpX → W × Out
  | .base op => step w op
  | .raise => raiseAll nameOf w
  | .put i s q => put w i s q

/-- an empty solver over a heap of fresh structure objects with the given pin counts -/
def init (pinCounts : List Nat) : W :=
  { heap := pinCounts.zipIdx.map fun nk => (nk.2, { pins := List.range nk.1, conn := [], connTo := [] }),
    structs := [], conns := [], clist := [], free := [], mapping := [] }

end Wiring
