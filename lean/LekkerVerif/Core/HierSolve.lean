import LekkerVerif.Core.Solve
import LekkerVerif.Core.Net
/-! Hierarchical circuits and their recursive solve (executable, core Lean only).

A `Solver` placed inside another `Solver` is solved first; the wrapping `Structure` adopts the solved model's pin
names (the child's exposed names) and indices (`Structure.createS`).  `HNet.solveH` is that recursion: every child
is solved, the level's `NetD` is built from the resulting components, the elimination loop runs on it
(`NetD.solveLevel`, the same call as `NetD.solveWith` / the driver's `opSolve`) and `NetD.extract` reads the
exposed block off the final structure. -/

/-- a hierarchical circuit: a component, or a level made of sub-circuits.  In a `node` a `PinRef` is
(position of the child in `children`, pin name of that child): for a `leaf` child a pin of the component, for a `node`
child one of its exposed names. -/
inductive HNet (F : Type) where
  | leaf (c : CompD F)
  | node (children : List (HNet F)) (links : List (PinRef × PinRef)) (exposed : List (String × PinRef))

namespace CompD
variable {F : Type} [Scalar F]

/-- the coefficient of a component between two of its pin names (through `idx`), as `St.sem` does for a structure -/
def sem (c : CompD F) (x y : String) : F :=
  match lookupL c.idx x, lookupL c.idx y with
  | some i, some j => c.S.get i j
  | _, _ => default

end CompD

namespace NetD
variable {F : Type} [Scalar F]

/-- the elimination loop on one level: `loopWith sched n net.initial n` (what `NetD.solveWith` and the driver run) -/
def solveLevel (sched : List (St F) → Option (Nat × Nat)) (net : NetD F) : Except Err (St F) :=
  Solve.loopWith sched net.comps.length net.initial net.comps.length

/-- the component a solved level presents to its parent: pins are the exposed names (in exposure order), indices
their positions, the matrix is the exposed block of the final structure -/
def extract (net : NetD F) (total : St F) : CompD F :=
  let pins := net.exposed.map (·.1)
  let ea := (net.exposed.map (·.2)).toArray
  { pins := pins, idx := pins.zipIdx,
    S := Mat.ofFn pins.length pins.length fun i j => total.sem ea[i]! ea[j]! }

end NetD

namespace HNet
variable {F : Type} [Scalar F]

mutual
/-- recursive solve: a leaf is its component; a node solves every child (first error wins), solves its own level
with the children's results as components and hands up the exposed block -/
def solveH (sched : List (St F) → Option (Nat × Nat)) : HNet F → Except Err (CompD F)
  | .leaf c => .ok c
  | .node children links exposed =>
    match solveAll sched children with
    | .error e => .error e
    | .ok comps =>
      let net : NetD F := { comps := comps, links := links, exposed := exposed }
      match net.solveLevel sched with
      | .error e => .error e
      | .ok total => .ok (net.extract total)
/-- the children of a level, in order; the first failure is returned -/
def solveAll (sched : List (St F) → Option (Nat × Nat)) : List (HNet F) → Except Err (List (CompD F))
  | [] => .ok []
  | h :: t =>
    match solveH sched h with
    | .error e => .error e
    | .ok c =>
      match solveAll sched t with
      | .error e => .error e
      | .ok cs => .ok (c :: cs)
end

end HNet
