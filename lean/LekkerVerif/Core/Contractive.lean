import LekkerVerif.Core.DefinedLoop
import LekkerVerif.Core.Energy
import Mathlib.Analysis.Complex.Norm

/-!
# A network of strictly passive components always solves

A partitioned matrix / structure is *`c`-contractive* when the outgoing power is at most `c` times the incoming
power.  For `0 ≤ c < 1` (strict passivity: every component dissipates at least the fraction `1 - c` of what it
receives)

* (M1) the star product of two `c`-contractive partitioned matrices is `c`-contractive (`star_contractive`);
* (M2) the inner system `1 - A.S12 * B.S21` of two `c`-contractive partitioned matrices is invertible
  (`isUnit_of_contractive`): a fixed point `x` of `A.S12 * B.S21` would satisfy `|x|² ≤ c² |x|²`;
* (M3) a merge of two `c`-contractive structures on a consistent state succeeds, and the composite is
  `c`-contractive (`St.join_ok_of_contr`);
* (M4) the elimination loop never hits a singular inner system: a well-formed network of `c`-contractive
  components solves, for every valid schedule, and the result is `c`-contractive
  (`NetD.solveWith_ok_of_contr`, over `ℂ` with the Euclidean power: `NetD.solveWith_ok_of_strictly_passive`).

The power is measured by an arbitrary per-wave weight `w : F → ℝ` that is non-negative, vanishes at `0` and only
there; over `ℂ` this is instantiated with `w z = ‖z‖²`.
-/

open Matrix

set_option linter.unusedSectionVars false

/-! ## kernel level -/

section kernel
variable {F : Type*} [Field F]
variable {n k m : Type*} [Fintype n] [Fintype k] [Fintype m]

/-- `A` outputs at most `c` times the power it receives; power measured by arbitrary functionals on the two sides
(the factor-`c` form of `SM.PassiveWrt`) -/
def SM.ContrWrt (c : ℝ) (A : SM F n m) (pn : (n → F) → ℝ) (pm : (m → F) → ℝ) : Prop :=
  ∀ u g, pn (A.S21 *ᵥ u + A.S22 *ᵥ g) + pm (A.S11 *ᵥ u + A.S12 *ᵥ g) ≤ c * (pn u + pm g)

/-- `1`-contractive is passive -/
theorem SM.contrWrt_one_iff (A : SM F n m) (pn : (n → F) → ℝ) (pm : (m → F) → ℝ) :
    A.ContrWrt 1 pn pm ↔ A.PassiveWrt pn pm := by
  unfold SM.ContrWrt SM.PassiveWrt
  simp only [one_mul]

variable [DecidableEq n] [DecidableEq k] [DecidableEq m]

/-- **(M1)** the star product of two `c`-contractive partitioned matrices (`c ≤ 1`) is `c`-contractive,
for arbitrary power functionals, the one on the interface being non-negative -/
theorem star_contractive (c : ℝ) (hc1 : c ≤ 1) (A : SM F n k) (B : SM F k m) (h : IsUnit (1 - A.S12 * B.S21))
    (pn : (n → F) → ℝ) (pk : (k → F) → ℝ) (pm : (m → F) → ℝ) (hk : ∀ x, 0 ≤ pk x)
    (hA : A.ContrWrt c pn pk) (hB : B.ContrWrt c pk pm) : (A.add B).ContrWrt c pn pm := by
  intro u d
  obtain ⟨f, g, e1, e2, e3, e4⟩ := star_complete A B h u d
  have iA := hA u g
  have iB := hB f d
  rw [← e1, ← e2] at iA
  rw [← e3, ← e4] at iB
  -- iA : pn rA + pk f ≤ c * (pn u + pk g) ;  iB : pk g + pm rB ≤ c * (pk f + pm d)
  have hnn : 0 ≤ (1 - c) * (pk f + pk g) := mul_nonneg (sub_nonneg.2 hc1) (add_nonneg (hk f) (hk g))
  nlinarith

/-- **(M2)** the inner system of two `c`-contractive partitioned matrices with `c < 1` is invertible, for arbitrary
non-negative power functionals vanishing at `0`, the one on the interface being definite -/
theorem isUnit_of_contractive (c : ℝ) (h0 : 0 ≤ c) (hc : c < 1) (A : SM F n k) (B : SM F k m)
    (pn : (n → F) → ℝ) (pk : (k → F) → ℝ) (pm : (m → F) → ℝ)
    (hn : ∀ x, 0 ≤ pn x) (hm : ∀ x, 0 ≤ pm x) (hk : ∀ x, 0 ≤ pk x)
    (hn0 : pn 0 = 0) (hm0 : pm 0 = 0) (hkd : ∀ x, pk x = 0 → x = 0)
    (hA : A.ContrWrt c pn pk) (hB : B.ContrWrt c pk pm) : IsUnit (1 - A.S12 * B.S21) := by
  rw [← Matrix.mulVec_injective_iff_isUnit]
  suffices key : ∀ z, (1 - A.S12 * B.S21) *ᵥ z = 0 → z = 0 by
    intro x y hxy
    exact sub_eq_zero.1 (key (x - y) (by rw [Matrix.mulVec_sub, hxy, sub_self]))
  intro z hz
  have hfix : A.S12 *ᵥ (B.S21 *ᵥ z) = z := by
    rw [Matrix.sub_mulVec, Matrix.one_mulVec, sub_eq_zero, ← Matrix.mulVec_mulVec] at hz
    exact hz.symm
  have iB := hB z 0
  have iA := hA 0 (B.S21 *ᵥ z)
  simp only [Matrix.mulVec_zero, add_zero, zero_add, hn0, hm0] at iA iB
  rw [hfix] at iA
  -- iB : pk (B21 z) + pm (B11 z) ≤ c * pk z ; iA : pn (A22 B21 z) + pk z ≤ c * pk (B21 z)
  have h1 : pk (B.S21 *ᵥ z) ≤ c * pk z := by linarith [hm (B.S11 *ᵥ z)]
  have h2 : pk z ≤ c * pk (B.S21 *ᵥ z) := by linarith [hn (A.S22 *ᵥ (B.S21 *ᵥ z))]
  have h3 : pk z ≤ c * (c * pk z) := h2.trans (mul_le_mul_of_nonneg_left h1 h0)
  have hcc : c * c < 1 := by nlinarith
  have hz0 : pk z = 0 := by
    apply le_antisymm _ (hk z)
    by_contra hp
    have hp' : 0 < pk z := not_le.1 hp
    have := mul_pos (sub_pos.2 hcc) hp'
    nlinarith
  exact hkd _ hz0

end kernel

/-! ## the Euclidean-type power `Σ w (x i)` -/

section weight
variable {F : Type} [Field F] [DecidableEq F]

theorem pwφ_nonneg (w : F → ℝ) (w0 : ∀ z, 0 ≤ w z) {ι : Type*} [Fintype ι] (x : ι → F) : 0 ≤ pwφ w x :=
  Finset.sum_nonneg fun i _ => w0 (x i)

theorem pwφ_zero (w : F → ℝ) (wz : w 0 = 0) {ι : Type*} [Fintype ι] : pwφ w (0 : ι → F) = 0 := by
  unfold pwφ
  simp [wz]

theorem pwφ_definite (w : F → ℝ) (w0 : ∀ z, 0 ≤ w z) (wd : ∀ z, w z = 0 → z = 0) {ι : Type*} [Fintype ι]
    (x : ι → F) (h : pwφ w x = 0) : x = 0 := by
  unfold pwφ at h
  funext i
  exact wd _ ((Finset.sum_eq_zero_iff_of_nonneg fun i _ => w0 (x i)).1 h i (Finset.mem_univ i))

theorem sumL_nonneg (w : F → ℝ) (w0 : ∀ z, 0 ≤ w z) (l : List PinRef) (x : PinRef → F) : 0 ≤ sumL w l x := by
  unfold sumL
  apply List.sum_nonneg
  intro y hy
  obtain ⟨p, _, rfl⟩ := List.mem_map.1 hy
  exact w0 _

theorem sumL_congr (w : F → ℝ) (l : List PinRef) (x y : PinRef → F) (h : ∀ p ∈ l, x p = y p) :
    sumL w l x = sumL w l y := by
  unfold sumL
  congr 1
  exact List.map_congr_left fun p hp => by rw [h p hp]

variable {n k m : Type*} [Fintype n] [Fintype k] [Fintype m] [DecidableEq n] [DecidableEq k] [DecidableEq m]

/-- **(M1)**, Euclidean-type power -/
theorem star_contractive_pw (w : F → ℝ) (w0 : ∀ z, 0 ≤ w z) (c : ℝ) (hc1 : c ≤ 1)
    (A : SM F n k) (B : SM F k m) (h : IsUnit (1 - A.S12 * B.S21))
    (hA : A.ContrWrt c (pwφ w) (pwφ w)) (hB : B.ContrWrt c (pwφ w) (pwφ w)) :
    (A.add B).ContrWrt c (pwφ w) (pwφ w) :=
  star_contractive c hc1 A B h _ _ _ (pwφ_nonneg w w0) hA hB

/-- **(M2)**, Euclidean-type power -/
theorem isUnit_of_contractive_pw (w : F → ℝ) (w0 : ∀ z, 0 ≤ w z) (wz : w 0 = 0) (wd : ∀ z, w z = 0 → z = 0)
    (c : ℝ) (h0 : 0 ≤ c) (hc : c < 1) (A : SM F n k) (B : SM F k m)
    (hA : A.ContrWrt c (pwφ w) (pwφ w)) (hB : B.ContrWrt c (pwφ w) (pwφ w)) :
    IsUnit (1 - A.S12 * B.S21) :=
  isUnit_of_contractive c h0 hc A B _ _ _ (pwφ_nonneg w w0) (pwφ_nonneg w w0) (pwφ_nonneg w w0)
    (pwφ_zero w wz) (pwφ_zero w wz) (pwφ_definite w w0 wd) hA hB

end weight

/-! ## structure level -/

section structures
variable {F : Type} [Field F] [DecidableEq F]

/-- a structure is `c`-contractive for the per-wave power `w`: for every solution `(a, b)` of its equation
(`a` incoming, `b` outgoing) the outgoing power is at most `c` times the incoming power -/
def St.Contr (w : F → ℝ) (c : ℝ) (s : St F) : Prop :=
  ∀ a b : PinRef → F, Eqn s.pins s.sem a b → sumL w s.pins b ≤ c * sumL w s.pins a

theorem St.contr_iff_out (w : F → ℝ) (c : ℝ) (s : St F) :
    s.Contr w c ↔ ∀ a : PinRef → F, sumL w s.pins (s.out a) ≤ c * sumL w s.pins a := by
  constructor
  · intro h a
    exact h a (s.out a) fun p _ => rfl
  · intro h a b e
    rw [sumL_congr w s.pins b (s.out a) fun p hp => e p hp]
    exact h a

/-- `1`-contractive is passive -/
theorem St.contr_one_iff (w : F → ℝ) (s : St F) : s.Contr w 1 ↔ s.PassiveW w := by
  rw [St.contr_iff_out]
  unfold St.PassiveW
  simp only [one_mul]

/-- the outputs of a structure along a partition `pins ~ kept ++ first ends of links`, in block form -/
theorem ablk_out (self : St F) (selfIn : List PinRef) (links : List (PinRef × PinRef))
    (pA : self.pins.Perm (selfIn ++ links.map Prod.fst)) (b : PinRef → F)
    (ub : Fin selfIn.length → F) (gb : Fin links.length → F)
    (h1 : ∀ i : Fin selfIn.length, b selfIn[i] = ub i) (h2 : ∀ j : Fin links.length, b links[j].1 = gb j) :
    (∀ i : Fin selfIn.length, self.out b selfIn[i] =
      ((St.ablk self selfIn links).S21 *ᵥ ub + (St.ablk self selfIn links).S22 *ᵥ gb) i) ∧
    (∀ j : Fin links.length, self.out b links[j].1 =
      ((St.ablk self selfIn links).S11 *ᵥ ub + (St.ablk self selfIn links).S12 *ᵥ gb) j) := by
  have key : ∀ p, self.out b p = (∑ j : Fin selfIn.length, self.sem p selfIn[j] * ub j)
      + ∑ j : Fin links.length, self.sem p links[j].1 * gb j := by
    intro p
    unfold St.out
    rw [rowSum_perm pA, rowSum_append, rowSum_get, rowSum_map]
    congr 1
    · exact Finset.sum_congr rfl fun j _ => by rw [h1 j]
    · exact Finset.sum_congr rfl fun j _ => by rw [h2 j]
  constructor
  · intro i; rw [key]; simp [St.ablk, blk, Matrix.mulVec, dotProduct]
  · intro j; rw [key]; simp [St.ablk, blk, Matrix.mulVec, dotProduct]

theorem bblk_out (st : St F) (links : List (PinRef × PinRef)) (stOut : List PinRef)
    (pB : st.pins.Perm (links.map Prod.snd ++ stOut)) (b : PinRef → F)
    (ub : Fin links.length → F) (gb : Fin stOut.length → F)
    (h1 : ∀ i : Fin stOut.length, b stOut[i] = gb i) (h2 : ∀ j : Fin links.length, b links[j].2 = ub j) :
    (∀ j : Fin links.length, st.out b links[j].2 =
      ((St.bblk st links stOut).S21 *ᵥ ub + (St.bblk st links stOut).S22 *ᵥ gb) j) ∧
    (∀ i : Fin stOut.length, st.out b stOut[i] =
      ((St.bblk st links stOut).S11 *ᵥ ub + (St.bblk st links stOut).S12 *ᵥ gb) i) := by
  have key : ∀ p, st.out b p = (∑ j : Fin links.length, st.sem p links[j].2 * ub j)
      + ∑ j : Fin stOut.length, st.sem p stOut[j] * gb j := by
    intro p
    unfold St.out
    rw [rowSum_perm pB, rowSum_append, rowSum_map, rowSum_get]
    congr 1
    · exact Finset.sum_congr rfl fun j _ => by rw [h2 j]
    · exact Finset.sum_congr rfl fun j _ => by rw [h1 j]
  constructor
  · intro j; rw [key]; simp [St.bblk, blk, Matrix.mulVec, dotProduct]
  · intro i; rw [key]; simp [St.bblk, blk, Matrix.mulVec, dotProduct]

/-- the kept / connected partition of a `c`-contractive structure is a `c`-contractive partitioned matrix
(first operand) -/
theorem ablk_contr (w : F → ℝ) (c : ℝ) (self : St F) (selfIn : List PinRef) (links : List (PinRef × PinRef))
    (hs : self.pins.Nodup) (pA : self.pins.Perm (selfIn ++ links.map Prod.fst)) (hL : self.Contr w c) :
    (St.ablk self selfIn links).ContrWrt c (pwφ w) (pwφ w) := by
  intro u g
  have hnd : (selfIn ++ links.map Prod.fst).Nodup := pA.nodup_iff.1 hs
  obtain ⟨a, ha1, ha2⟩ := exists_two selfIn links Prod.fst hnd u g
  obtain ⟨o1, o2⟩ := ablk_out self selfIn links pA a u g ha1 ha2
  have := (St.contr_iff_out w c self).1 hL a
  rw [sumL_perm w pA, sumL_perm w pA, sumL_append, sumL_append, sumL_map, sumL_map, sumL_get, sumL_get] at this
  unfold pwφ
  have e1 : ∑ i : Fin selfIn.length, w (self.out a selfIn[i])
      = ∑ i, w (((St.ablk self selfIn links).S21 *ᵥ u + (St.ablk self selfIn links).S22 *ᵥ g) i) :=
    Finset.sum_congr rfl fun i _ => by rw [o1 i]
  have e2 : ∑ j : Fin links.length, w (self.out a (Prod.fst links[j]))
      = ∑ j, w (((St.ablk self selfIn links).S11 *ᵥ u + (St.ablk self selfIn links).S12 *ᵥ g) j) :=
    Finset.sum_congr rfl fun j _ => by rw [o2 j]
  have e3 : ∑ i : Fin selfIn.length, w (a selfIn[i]) = ∑ i, w (u i) :=
    Finset.sum_congr rfl fun i _ => by rw [ha1 i]
  have e4 : ∑ j : Fin links.length, w (a (Prod.fst links[j])) = ∑ j, w (g j) :=
    Finset.sum_congr rfl fun j _ => by rw [ha2 j]
  rw [e1, e2, e3, e4] at this
  exact this

/-- the same for the second operand (connected pins first, kept pins second) -/
theorem bblk_contr (w : F → ℝ) (c : ℝ) (st : St F) (links : List (PinRef × PinRef)) (stOut : List PinRef)
    (ht : st.pins.Nodup) (pB : st.pins.Perm (links.map Prod.snd ++ stOut)) (hL : st.Contr w c) :
    (St.bblk st links stOut).ContrWrt c (pwφ w) (pwφ w) := by
  intro u g
  have pB' : st.pins.Perm (stOut ++ links.map Prod.snd) := pB.trans List.perm_append_comm
  have hnd : (stOut ++ links.map Prod.snd).Nodup := pB'.nodup_iff.1 ht
  obtain ⟨a, ha1, ha2⟩ := exists_two stOut links Prod.snd hnd g u
  obtain ⟨o1, o2⟩ := bblk_out st links stOut pB a u g ha1 ha2
  have := (St.contr_iff_out w c st).1 hL a
  rw [sumL_perm w pB, sumL_perm w pB, sumL_append, sumL_append, sumL_map, sumL_map, sumL_get, sumL_get] at this
  unfold pwφ
  have e1 : ∑ j : Fin links.length, w (st.out a (Prod.snd links[j]))
      = ∑ j, w (((St.bblk st links stOut).S21 *ᵥ u + (St.bblk st links stOut).S22 *ᵥ g) j) :=
    Finset.sum_congr rfl fun j _ => by rw [o1 j]
  have e2 : ∑ i : Fin stOut.length, w (st.out a stOut[i])
      = ∑ i, w (((St.bblk st links stOut).S11 *ᵥ u + (St.bblk st links stOut).S12 *ᵥ g) i) :=
    Finset.sum_congr rfl fun i _ => by rw [o2 i]
  have e3 : ∑ j : Fin links.length, w (a (Prod.snd links[j])) = ∑ j, w (u j) :=
    Finset.sum_congr rfl fun j _ => by rw [ha2 j]
  have e4 : ∑ i : Fin stOut.length, w (a stOut[i]) = ∑ i, w (g i) :=
    Finset.sum_congr rfl fun i _ => by rw [ha1 i]
  rw [e1, e2, e3, e4] at this
  exact this

/-- the outputs of a composite in block form -/
theorem join_out {x y z : St F} {links : List (PinRef × PinRef)} {selfIn stOut : List PinRef}
    (jf : St.JoinFacts x y z links selfIn stOut) (b : PinRef → F) :
    (∀ i : Fin selfIn.length, z.out b selfIn[i] =
      (((St.ablk x selfIn links).add (St.bblk y links stOut)).S21 *ᵥ (fun i => b selfIn[i]) +
       ((St.ablk x selfIn links).add (St.bblk y links stOut)).S22 *ᵥ (fun j => b stOut[j])) i) ∧
    (∀ j : Fin stOut.length, z.out b stOut[j] =
      (((St.ablk x selfIn links).add (St.bblk y links stOut)).S11 *ᵥ (fun i => b selfIn[i]) +
       ((St.ablk x selfIn links).add (St.bblk y links stOut)).S12 *ᵥ (fun j => b stOut[j])) j) := by
  have key : ∀ p, z.out b p = (∑ j : Fin selfIn.length, z.sem p selfIn[j] * b selfIn[j])
      + ∑ j : Fin stOut.length, z.sem p stOut[j] * b stOut[j] := by
    intro p
    unfold St.out
    rw [jf.hpins, rowSum_append, rowSum_get, rowSum_get]
  constructor
  · intro i
    rw [key]
    simp only [Pi.add_apply, Matrix.mulVec, dotProduct]
    congr 1
    · exact Finset.sum_congr rfl fun j _ => by rw [jf.e21 i j]
    · exact Finset.sum_congr rfl fun j _ => by rw [jf.e22 i j]
  · intro j
    rw [key]
    simp only [Pi.add_apply, Matrix.mulVec, dotProduct]
    congr 1
    · exact Finset.sum_congr rfl fun i _ => by rw [jf.e11 j i]
    · exact Finset.sum_congr rfl fun i _ => by rw [jf.e12 j i]

/-- **a successful `join` preserves `c`-contractivity** (`c ≤ 1`) -/
theorem St.join_contr (w : F → ℝ) (w0 : ∀ z, 0 ≤ w z) (c : ℝ) (hc1 : c ≤ 1) (self st z : St F) (newId : Nat)
    (hs : self.pins.Nodup) (ht : st.pins.Nodup) (hd : ∀ p, p ∈ self.pins → p ∈ st.pins → False)
    (ls : self.Contr w c) (lt : st.Contr w c) (h : St.join self st newId = .ok z) : z.Contr w c := by
  obtain ⟨links, selfIn, stOut, jf⟩ := St.join_facts self st z newId hs ht hd h
  have lA := ablk_contr w c self selfIn links hs jf.pA ls
  have lB := bblk_contr w c st links stOut ht jf.pB lt
  have lC := star_contractive_pw w w0 c hc1 _ _ jf.hu lA lB
  rw [St.contr_iff_out]
  intro a
  obtain ⟨o1, o2⟩ := join_out jf a
  have := lC (fun i => a selfIn[i]) (fun j => a stOut[j])
  unfold pwφ at this
  rw [jf.hpins, sumL_append, sumL_append, sumL_get, sumL_get, sumL_get, sumL_get]
  have e1 : ∑ i : Fin selfIn.length, w (z.out a selfIn[i]) = _ := Finset.sum_congr rfl fun i _ => by rw [o1 i]
  have e2 : ∑ j : Fin stOut.length, w (z.out a stOut[j]) = _ := Finset.sum_congr rfl fun j _ => by rw [o2 j]
  rw [e1, e2]
  exact this

end structures

/-! ## a merge of strictly passive structures is defined -/

section joins
variable {F : Type} [Field F] [DecidableEq F]
open Solve

/-- the inner system of `add?` read at explicit shapes -/
theorem SMat.isUnit_inner_shape (A B : SMat F) (n k m : Nat) (hn : A.N = n) (hk : A.M = k) (hm : B.M = m) :
    IsUnit (1 - (A.toSM A.N A.M).S12 * (B.toSM A.M B.M).S21) ↔
      IsUnit (1 - (A.toSM n k).S12 * (B.toSM k m).S21) := by
  subst hn hk hm
  rfl

/-- **(M3)** on a consistent state (hypotheses of `St.join_defined`), two `c`-contractive structures with
`0 ≤ c < 1` always merge, and the composite is `c`-contractive -/
theorem St.join_ok_of_contr (w : F → ℝ) (w0 : ∀ z, 0 ≤ w z) (wz : w 0 = 0) (wd : ∀ z, w z = 0 → z = 0)
    (c : ℝ) (h0 : 0 ≤ c) (hc : c < 1)
    (L : PinRef → PinRef → Prop) (B : Nat) (hsym : ∀ p q, L p q → L q p)
    (s t : St F) (n : Nat) (bs : Book L B s) (bt : Book L B t) (cs : ConnL L s)
    (hm : ∀ k, k ∈ St.membersOf s → k ∈ St.membersOf t → False) (is : Idx s) (it : Idx t)
    (hs : s.pins.Nodup) (ht : t.pins.Nodup) (Cs : s.Contr w c) (Ct : t.Contr w c) :
    ∃ z, St.join s t n = .ok z ∧ z.Contr w c := by
  obtain ⟨links, selfIn, stOut, A, B', _, h2, h3, h4, h5, hiff, _, _⟩ :=
    St.join_defined L B hsym s t n bs bt cs hm is it
  have hd : Disj s t := disj_of_members L B s t bs bt hm
  obtain ⟨eIn, subA, ndA⟩ := removeAll_eq_filter _ _ _ hs h2
  obtain ⟨eOut, subB, ndB⟩ := removeAll_eq_filter _ _ _ ht h3
  have pA : s.pins.Perm (selfIn ++ links.map Prod.fst) := by
    rw [eIn]; exact perm_filter_split _ _ hs ndA subA
  have pB : t.pins.Perm (links.map Prod.snd ++ stOut) := by
    rw [eOut]; exact (perm_filter_split _ _ ht ndB subB).trans List.perm_append_comm
  have lenA : (links.map (·.1)).length = links.length := by simp
  have lenB : (links.map (·.2)).length = links.length := by simp
  obtain ⟨aN, aM, _, aSM⟩ := St.split_spec s selfIn (links.map (·.1)) A selfIn.length links.length rfl lenA h4
  obtain ⟨_, bM, _, bSM⟩ := St.split_spec t (links.map (·.2)) stOut B' links.length stOut.length lenB rfl h5
  have hA' : A.toSM selfIn.length links.length = St.ablk s selfIn links := by
    rw [aSM]; simp [St.ablk]
  have hB' : B'.toSM links.length stOut.length = St.bblk t links stOut := by
    rw [bSM]; simp [St.bblk]
  have hu : IsUnit (1 - (St.ablk s selfIn links).S12 * (St.bblk t links stOut).S21) :=
    isUnit_of_contractive_pw w w0 wz wd c h0 hc _ _ (ablk_contr w c s selfIn links hs pA Cs)
      (bblk_contr w c t links stOut ht pB Ct)
  have hu' : IsUnit (1 - (A.toSM A.N A.M).S12 * (B'.toSM A.M B'.M).S21) := by
    rw [SMat.isUnit_inner_shape A B' _ _ _ aN aM bM, hA', hB']
    exact hu
  obtain ⟨z, hz⟩ := hiff.2 hu'
  exact ⟨z, hz, St.join_contr w w0 c hc.le s t z n hs ht hd Cs Ct hz⟩

end joins

/-! ## the elimination loop never fails -/

namespace Solve
variable {F : Type} [Field F] [DecidableEq F]

/-- one step: on a consistent state with at least two live `c`-contractive structures (`0 ≤ c < 1`) and a valid
schedule, the step succeeds and all live structures are again `c`-contractive -/
theorem stepWith_ok_of_contr (w : F → ℝ) (w0 : ∀ z, 0 ≤ w z) (wz : w 0 = 0) (wd : ∀ z, w z = 0 → z = 0)
    (c : ℝ) (h0 : 0 ≤ c) (hc : c < 1)
    (W : (PinRef → F) → (PinRef → F) → Prop) (L : PinRef → PinRef → Prop) (B : Nat)
    (hsym : ∀ p q, L p q → L q p) (base : List Nat) (sched) (hv : ValidSched sched)
    (live : List (St F)) (fresh : Nat) (inv : DefInv W L B base live fresh) (h2 : 2 ≤ live.length)
    (hC : ∀ s ∈ live, s.Contr w c) :
    ∃ live', stepWith sched live fresh = .ok live' ∧ ∀ s ∈ live', s.Contr w c := by
  obtain ⟨i, j, hs, hij, ⟨s, hsl, hsi⟩, ⟨t, htl, htj⟩⟩ := hv live inv.idsNodup h2
  have fi : (live.find? (·.id == i)).isSome = true := by
    rw [List.find?_isSome]; exact ⟨s, hsl, by simp [hsi]⟩
  have fj : (live.find? (·.id == j)).isSome = true := by
    rw [List.find?_isSome]; exact ⟨t, htl, by simp [htj]⟩
  obtain ⟨src, hsrc⟩ := Option.isSome_iff_exists.1 fi
  obtain ⟨tar, htar⟩ := Option.isSome_iff_exists.1 fj
  have hsm := List.mem_of_find?_eq_some hsrc
  have htm := List.mem_of_find?_eq_some htar
  have hsi' : src.id = i := by simpa using List.find?_some hsrc
  have hti' : tar.id = j := by simpa using List.find?_some htar
  have hne : src.id ≠ tar.id := by rw [hsi', hti']; exact hij
  obtain ⟨z, hz, Cz⟩ := St.join_ok_of_contr w w0 wz wd c h0 hc L B hsym src tar fresh
    (inv.full.book _ hsm) (inv.full.book _ htm) (inv.connL _ hsm)
    (inv.full.mdisj _ hsm _ htm hne) (inv.idx _ hsm) (inv.idx _ htm)
    (inv.full.linv.good _ hsm).nodup (inv.full.linv.good _ htm).nodup (hC _ hsm) (hC _ htm)
  have hstep : stepWith sched live fresh = .ok (live.filter (fun r => r.id != i && r.id != j) ++ [z]) := by
    unfold stepWith
    rw [hs]
    dsimp only
    rw [hsrc, htar]
    dsimp only
    rw [if_neg (by simpa using hij), hz]
  refine ⟨_, hstep, ?_⟩
  intro r hr
  rcases List.mem_append.1 hr with hr | hr
  · exact hC r (List.mem_of_mem_filter hr)
  · have : r = z := by simpa using hr
    rw [this]; exact Cz

/-- the loop: with enough fuel it returns a `c`-contractive structure -/
theorem loopWith_ok_of_contr (w : F → ℝ) (w0 : ∀ z, 0 ≤ w z) (wz : w 0 = 0) (wd : ∀ z, w z = 0 → z = 0)
    (c : ℝ) (h0 : 0 ≤ c) (hc : c < 1)
    (W : (PinRef → F) → (PinRef → F) → Prop) (L : PinRef → PinRef → Prop) (B : Nat)
    (hsym : ∀ p q, L p q → L q p) (base : List Nat) (sched) (hv : ValidSched sched) :
    ∀ (fuel : Nat) (live : List (St F)) (fresh : Nat),
      DefInv W L B base live fresh → (∀ s ∈ live, s.Contr w c) → 1 ≤ live.length → live.length ≤ fuel + 1 →
      ∃ total, loopWith sched fuel live fresh = .ok total ∧ total.Contr w c := by
  intro fuel
  induction fuel with
  | zero =>
    intro live fresh _ hC h1 hf
    obtain ⟨s, rfl⟩ := List.length_eq_one_iff.1 (by omega : live.length = 1)
    exact ⟨s, by simp [loopWith], hC s (by simp)⟩
  | succ n ih =>
    intro live fresh inv hC h1 hf
    rcases live with _ | ⟨a, _ | ⟨b, l⟩⟩
    · simp at h1
    · exact ⟨a, by simp [loopWith], hC a (by simp)⟩
    · obtain ⟨live', hst, hC'⟩ := stepWith_ok_of_contr w w0 wz wd c h0 hc W L B hsym base sched hv
        (a :: b :: l) fresh inv (by simp) hC
      obtain ⟨inv', h1', hlen⟩ := stepWith_def W L B hsym base sched _ live' fresh inv hst
      obtain ⟨total, ht, Ct⟩ := ih live' (fresh + 1) inv' hC' h1' (by omega)
      refine ⟨total, ?_, Ct⟩
      simp only [loopWith]
      rw [hst]
      exact ht

end Solve

namespace NetD
variable {F : Type} [Field F] [DecidableEq F]
open Solve

/-- **(M4)**, any field, any definite per-wave power: a well-formed, non-empty network all of whose components
are `c`-contractive with `0 ≤ c < 1` solves, for every valid schedule, and the result is `c`-contractive -/
theorem solveWith_ok_of_contr (w : F → ℝ) (w0 : ∀ z, 0 ≤ w z) (wz : w 0 = 0) (wd : ∀ z, w z = 0 → z = 0)
    (net : NetD F) (wf : net.WF) (hidx : net.IdxWF) (hne : net.comps ≠ [])
    (c : ℝ) (h0 : 0 ≤ c) (hc : c < 1) (hpass : ∀ s ∈ net.initial, s.Contr w c)
    (sched) (hv : ValidSched sched) :
    ∃ total, net.solveWith sched = .ok total ∧ total.Contr w c := by
  have hpos : 1 ≤ net.comps.length := List.length_pos_iff.2 hne
  exact loopWith_ok_of_contr w w0 wz wd c h0 hc net.Sol net.Lnk net.comps.length (fun p q h => h.symm)
    (List.range net.comps.length) sched hv net.comps.length net.initial net.comps.length
    (defInv_initial net wf hidx) hpass (by rw [length_initial]; exact hpos) (by rw [length_initial]; omega)

end NetD

/-! ## over `ℂ` with the Euclidean power `Σ ‖x i‖²` -/

section complex

/-- Euclidean power of a wave assignment on a pin list -/
noncomputable def pw (l : List PinRef) (a : PinRef → ℂ) : ℝ := (l.map fun p => ‖a p‖ ^ 2).sum

/-- a structure over `ℂ` is `c`-contractive: for every solution `(a, b)` of its equation (`a` incoming waves,
`b` outgoing waves) the outgoing power is at most `c` times the incoming power -/
def Contr (c : ℝ) (s : St ℂ) : Prop := ∀ a b : PinRef → ℂ, Eqn s.pins s.sem a b → pw s.pins b ≤ c * pw s.pins a

/-- the per-wave Euclidean power -/
noncomputable def nsq (z : ℂ) : ℝ := ‖z‖ ^ 2

theorem nsq_nonneg (z : ℂ) : 0 ≤ nsq z := sq_nonneg _
theorem nsq_zero : nsq 0 = 0 := by simp [nsq]
theorem nsq_definite (z : ℂ) (h : nsq z = 0) : z = 0 := by simpa [nsq] using h

theorem contr_iff (c : ℝ) (s : St ℂ) : Contr c s ↔ s.Contr nsq c := Iff.rfl

variable {n k m : Type*} [Fintype n] [Fintype k] [Fintype m] [DecidableEq n] [DecidableEq k] [DecidableEq m]

/-- Euclidean power of a finite family of waves -/
noncomputable def epow {ι : Type*} [Fintype ι] (x : ι → ℂ) : ℝ := ∑ i, ‖x i‖ ^ 2

/-- **(M1) over `ℂ`**: the star product of two `c`-contractive partitioned
matrices, `c ≤ 1`, is `c`-contractive -/
theorem star_contractive_complex (c : ℝ) (hc1 : c ≤ 1) (A : SM ℂ n k) (B : SM ℂ k m)
    (h : IsUnit (1 - A.S12 * B.S21)) (hA : A.ContrWrt c epow epow) (hB : B.ContrWrt c epow epow) :
    (A.add B).ContrWrt c epow epow :=
  star_contractive c hc1 A B h epow epow epow (fun _ => Finset.sum_nonneg fun _ _ => sq_nonneg _) hA hB

/-- **(M2) over `ℂ`**: two `c`-contractive partitioned matrices with `c < 1` always have an invertible inner
system: their star product is defined -/
theorem isUnit_of_contractive_complex (c : ℝ) (h0 : 0 ≤ c) (hc : c < 1) (A : SM ℂ n k) (B : SM ℂ k m)
    (hA : A.ContrWrt c epow epow) (hB : B.ContrWrt c epow epow) : IsUnit (1 - A.S12 * B.S21) :=
  isUnit_of_contractive_pw nsq nsq_nonneg nsq_zero nsq_definite c h0 hc A B hA hB

/-- **(M3) over `ℂ`** -/
theorem St.join_ok_of_strictly_passive (c : ℝ) (h0 : 0 ≤ c) (hc : c < 1)
    (L : PinRef → PinRef → Prop) (B : Nat) (hsym : ∀ p q, L p q → L q p)
    (s t : St ℂ) (n : Nat) (bs : Solve.Book L B s) (bt : Solve.Book L B t) (cs : Solve.ConnL L s)
    (hm : ∀ k, k ∈ St.membersOf s → k ∈ St.membersOf t → False) (is : Solve.Idx s) (it : Solve.Idx t)
    (hs : s.pins.Nodup) (ht : t.pins.Nodup) (Cs : _root_.Contr c s) (Ct : _root_.Contr c t) :
    ∃ z, St.join s t n = .ok z ∧ _root_.Contr c z :=
  St.join_ok_of_contr nsq nsq_nonneg nsq_zero nsq_definite c h0 hc L B hsym s t n bs bt cs hm is it hs ht Cs Ct

/-- **(M4) MAIN THEOREM**: a well-formed, non-empty network over `ℂ` all of whose components are strictly passive
(`c`-contractive with `0 ≤ c < 1`) ALWAYS solves, at every size, with every valid schedule: no merge can hit a
singular inner system.  Moreover the solved structure is again `c`-contractive. -/
theorem NetD.solveWith_ok_of_strictly_passive' (net : NetD ℂ) (wf : net.WF) (hidx : net.IdxWF) (hne : net.comps ≠ [])
    (c : ℝ) (h0 : 0 ≤ c) (hc : c < 1) (hpass : ∀ s ∈ net.initial, Contr c s)
    (sched) (hv : Solve.ValidSched sched) :
    ∃ total, net.solveWith sched = .ok total ∧ Contr c total :=
  NetD.solveWith_ok_of_contr nsq nsq_nonneg nsq_zero nsq_definite net wf hidx hne c h0 hc hpass sched hv

theorem NetD.solveWith_ok_of_strictly_passive (net : NetD ℂ) (wf : net.WF) (hidx : net.IdxWF) (hne : net.comps ≠ [])
    (c : ℝ) (h0 : 0 ≤ c) (hc : c < 1) (hpass : ∀ s ∈ net.initial, Contr c s)
    (sched) (hv : Solve.ValidSched sched) :
    ∃ total, net.solveWith sched = .ok total := by
  obtain ⟨total, h, _⟩ := NetD.solveWith_ok_of_strictly_passive' net wf hidx hne c h0 hc hpass sched hv
  exact ⟨total, h⟩

/-- in particular the pin-count heuristic of `Solver.solve` never fails on such a network -/
theorem NetD.solveWith_pySched_ok_of_strictly_passive (net : NetD ℂ) (wf : net.WF) (hidx : net.IdxWF)
    (hne : net.comps ≠ []) (c : ℝ) (h0 : 0 ≤ c) (hc : c < 1) (hpass : ∀ s ∈ net.initial, Contr c s) :
    ∃ total, net.solveWith Solve.pySched = .ok total ∧ Contr c total :=
  NetD.solveWith_ok_of_strictly_passive' net wf hidx hne c h0 hc hpass _ Solve.validSched_pySched

end complex

/-! ## non-vacuity: two attenuators in series -/

namespace ContractiveExample

/-- a reciprocal, reflection-free two-port attenuator with amplitude transmission `1/2`: `[[0, 1/2], [1/2, 0]]` -/
noncomputable def halfAttenuator : CompD ℂ :=
  { pins := ["a", "b"], idx := [("a", 0), ("b", 1)], S := ⟨2, 2, #[0, 1 / 2, 1 / 2, 0]⟩ }

/-- two attenuators in series: pin `b` of the first linked to pin `a` of the second -/
noncomputable def twoHalfAttenuators : NetD ℂ :=
  { comps := [halfAttenuator, halfAttenuator]
    links := [((0, "b"), (1, "a"))]
    exposed := [("in", (0, "a")), ("out", (1, "b"))] }

/-- an attenuator is `1/4`-contractive (power transmission `(1/2)² = 1/4`), wherever it sits in a network -/
theorem contr_halfAttenuator (net : NetD ℂ) (k : Nat) : Contr (1 / 4) (net.mkSt k halfAttenuator) := by
  intro a b e
  have ea := e (k, "a") (by simp [NetD.mkSt, halfAttenuator])
  have eb := e (k, "b") (by simp [NetD.mkSt, halfAttenuator])
  simp [rowSum, NetD.mkSt, halfAttenuator, St.sem, lookupL, Mat.get] at ea eb
  have h2 : ‖(2 : ℂ)⁻¹‖ = 2⁻¹ := by
    rw [inv_eq_one_div, Complex.norm_div, Complex.norm_two, ← Nat.cast_one, Complex.norm_natCast]
    norm_num
  simp [pw, NetD.mkSt, halfAttenuator, ea, eb, h2]
  exact le_of_eq (by ring)

theorem twoHalfAttenuators_wf : twoHalfAttenuators.WF := by
  refine ⟨?_, ?_, ?_, ?_⟩
  · intro c hc
    have : c = halfAttenuator := by simpa [twoHalfAttenuators] using hc
    subst this
    simp [halfAttenuator]
  · simp [twoHalfAttenuators]
  · intro l hl p hp
    have : l = ((0, "b"), (1, "a")) := by simpa [twoHalfAttenuators] using hl
    subst this
    rcases hp with rfl | rfl
    · exact ⟨halfAttenuator, by simp [twoHalfAttenuators], by simp [halfAttenuator]⟩
    · exact ⟨halfAttenuator, by simp [twoHalfAttenuators], by simp [halfAttenuator]⟩
  · intro l hl
    have : l = ((0, "b"), (1, "a")) := by simpa [twoHalfAttenuators] using hl
    subst this
    simp

theorem twoHalfAttenuators_idxWF : twoHalfAttenuators.IdxWF := by
  intro c hc n hn
  have : c = halfAttenuator := by simpa [twoHalfAttenuators] using hc
  subst this
  have : n = "a" ∨ n = "b" := by simpa [halfAttenuator] using hn
  rcases this with rfl | rfl <;> simp [halfAttenuator, lookupL]

theorem twoHalfAttenuators_contr : ∀ s ∈ twoHalfAttenuators.initial, Contr (1 / 4) s := by
  intro s hs
  obtain ⟨k, c, hk, rfl⟩ := (NetD.mem_initial _ s).1 hs
  have hc : c ∈ twoHalfAttenuators.comps := List.mem_of_getElem? hk
  have : c = halfAttenuator := by simpa [twoHalfAttenuators] using hc
  subst this
  exact contr_halfAttenuator _ k

/-- **non-vacuity**: the hypotheses of the main theorem are satisfiable by a network in which a merge really
takes place; the two attenuators in series solve under every valid schedule, and the result is `1/4`-contractive -/
example (sched) (hv : Solve.ValidSched sched) :
    ∃ total, twoHalfAttenuators.solveWith sched = .ok total ∧ Contr (1 / 4) total :=
  NetD.solveWith_ok_of_strictly_passive' twoHalfAttenuators twoHalfAttenuators_wf twoHalfAttenuators_idxWF
    (by simp [twoHalfAttenuators]) (1 / 4) (by norm_num) (by norm_num) twoHalfAttenuators_contr sched hv

end ContractiveExample

