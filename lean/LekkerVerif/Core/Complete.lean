import LekkerVerif.Core.RefineNet

/-! Spike: existence half — for every excitation of the boundary pins there is a solution -/

open Matrix

/-- extend a function by prescribed values on a duplicate-free list of keys -/
theorem exists_extend {P F : Type} [DecidableEq P] (keys : List P) (hnd : keys.Nodup) (vals : Fin keys.length → F) (u : P → F) :
    ∃ v : P → F, (∀ i : Fin keys.length, v keys[i] = vals i) ∧ ∀ p, p ∉ keys → v p = u p := by
  refine ⟨fun p => if h : p ∈ keys then vals ⟨keys.idxOf p, List.idxOf_lt_length_iff.2 h⟩ else u p, ?_, ?_⟩
  · intro i
    have hmem : keys[i] ∈ keys := List.getElem_mem i.2
    simp only [hmem, dite_true]
    congr 1
    apply Fin.ext
    simp only
    exact List.Nodup.idxOf_getElem hnd i.1 i.2
  · intro p hp
    simp [hp]

section blocks
variable {F : Type*} [Field F] {P : Type*} [DecidableEq P]

/-- a component equation in block form along a partition `pins ~ kept ++ conn` -/
theorem eqn_blocks (pins kept : List P) {κ : Type*} [Fintype κ] (conn : List P) (S : P → P → F)
    (hperm : pins.Perm (kept ++ conn)) (a b : P → F) (e : Eqn pins S a b) :
    ∀ p ∈ pins, b p = (∑ j : Fin kept.length, S p kept[j] * a kept[j]) + ∑ j : Fin conn.length, S p conn[j] * a conn[j] := by
  intro p hp
  rw [e p hp, rowSum_perm hperm, rowSum_append, rowSum_get, rowSum_get]

end blocks

namespace Solve
variable {F : Type} [Field F] [DecidableEq F]

/-- what a successful step did -/
theorem stepWith_cases (sched) (live live' : List (St F)) (fresh : Nat) (h : stepWith sched live fresh = .ok live') :
    ∃ src tar new, src ∈ live ∧ tar ∈ live ∧ src.id ≠ tar.id ∧ St.join src tar fresh = .ok new ∧
      live' = live.filter (fun r => r.id != src.id && r.id != tar.id) ++ [new] := by
  unfold stepWith at h
  split at h
  · simp at h
  · rename_i i j _
    split at h
    · rename_i src tar hsrc htar
      split at h
      · simp at h
      · rename_i hij
        split at h
        · simp at h
        · rename_i new hjoin
          simp only [Except.ok.injEq] at h
          have hsi : src.id = i := by simpa using List.find?_some hsrc
          have hti : tar.id = j := by simpa using List.find?_some htar
          refine ⟨src, tar, new, List.mem_of_find?_eq_some hsrc, List.mem_of_find?_eq_some htar, ?_, hjoin, ?_⟩
          · rw [hsi, hti]; simpa using hij
          · rw [hsi, hti]; exact h.symm
    · simp at h

/-- loop induction for an arbitrary invariant of the live list -/
theorem loopWith_induct (sched) (Q : List (St F) → Nat → Prop)
    (hstep : ∀ live live' fresh, Q live fresh → stepWith sched live fresh = .ok live' → Q live' (fresh + 1)) :
    ∀ (fuel : Nat) (live : List (St F)) (fresh : Nat) (total : St F),
      Q live fresh → loopWith sched fuel live fresh = .ok total → ∃ fr, Q [total] fr := by
  intro fuel
  induction fuel with
  | zero =>
    intro live fresh total q h
    simp only [loopWith] at h
    split at h
    · simp only [Except.ok.injEq] at h; subst h; exact ⟨fresh, q⟩
    · simp at h
  | succ n ih =>
    intro live fresh total q h
    simp only [loopWith] at h
    split at h
    · simp only [Except.ok.injEq] at h; subst h; exact ⟨fresh, q⟩
    · split at h
      · simp at h
      · rename_i live' hstep'
        exact ih live' (fresh + 1) total (hstep live live' fresh q hstep') h

end Solve

namespace NetD
variable {F : Type} [Field F] [DecidableEq F]
open Solve

/-- solution of the sub-network spanned by the base structures with ids in `M` -/
structure LocalSol (net : NetD F) (M : List Nat) (a b : PinRef → F) : Prop where
  comp : ∀ s ∈ net.initial, s.id ∈ M → Eqn s.pins s.sem a b
  link : ∀ l ∈ net.links, l.1.1 ∈ M → l.2.1 ∈ M → a l.1 = b l.2 ∧ a l.2 = b l.1

theorem LocalSol.mono {net : NetD F} {M M' : List Nat} {a b : PinRef → F} (h : net.LocalSol M' a b)
    (hsub : ∀ k ∈ M, k ∈ M') : net.LocalSol M a b :=
  ⟨fun s hs hk => h.comp s hs (hsub _ hk), fun l hl h1 h2 => h.link l hl (hsub _ h1) (hsub _ h2)⟩

/-- per-structure invariant for the existence half -/
structure Loc (net : NetD F) (s : St F) : Prop where
  nodup : s.pins.Nodup
  connL : ∀ l ∈ s.conn, net.Lnk l.1 l.2
  goodL : ∀ a b, net.LocalSol (St.membersOf s) a b → Eqn s.pins s.sem a b
  real  : ∀ u : PinRef → F, ∃ a b, net.LocalSol (St.membersOf s) a b ∧ ∀ p ∈ s.pins, a p = u p

end NetD

namespace St
variable {F : Type} [Field F] [DecidableEq F]

/-- the partitioned matrix of `self` in a join: kept pins `kept`, connected pins the first ends of `links` -/
def ablk (self : St F) (kept : List PinRef) (links : List (PinRef × PinRef)) : SM F (Fin kept.length) (Fin links.length) :=
  { S21 := blk self.sem (fun i : Fin kept.length => kept[i]) (fun i : Fin kept.length => kept[i])
    S22 := blk self.sem (fun i : Fin kept.length => kept[i]) (fun i : Fin links.length => links[i].1)
    S11 := blk self.sem (fun i : Fin links.length => links[i].1) (fun i : Fin kept.length => kept[i])
    S12 := blk self.sem (fun i : Fin links.length => links[i].1) (fun i : Fin links.length => links[i].1) }

/-- the partitioned matrix of `st` in a join -/
def bblk (st : St F) (links : List (PinRef × PinRef)) (kept : List PinRef) : SM F (Fin links.length) (Fin kept.length) :=
  { S21 := blk st.sem (fun i : Fin links.length => links[i].2) (fun i : Fin links.length => links[i].2)
    S22 := blk st.sem (fun i : Fin links.length => links[i].2) (fun i : Fin kept.length => kept[i])
    S11 := blk st.sem (fun i : Fin kept.length => kept[i]) (fun i : Fin links.length => links[i].2)
    S12 := blk st.sem (fun i : Fin kept.length => kept[i]) (fun i : Fin kept.length => kept[i]) }

structure JoinFacts (x y z : St F) (links : List (PinRef × PinRef)) (selfIn stOut : List PinRef) : Prop where
  hl : linkPins x y = .ok links
  hpins : z.pins = selfIn ++ stOut
  eIn : selfIn = x.pins.filter (fun p => !(links.map (·.1)).contains p)
  eOut : stOut = y.pins.filter (fun p => !(links.map (·.2)).contains p)
  ndA : (links.map (·.1)).Nodup
  ndB : (links.map (·.2)).Nodup
  subA : ∀ p ∈ links.map (·.1), p ∈ x.pins
  subB : ∀ p ∈ links.map (·.2), p ∈ y.pins
  pA : x.pins.Perm (selfIn ++ links.map Prod.fst)
  pB : y.pins.Perm (links.map Prod.snd ++ stOut)
  hu : IsUnit (1 - (ablk x selfIn links).S12 * (bblk y links stOut).S21)
  e21 : ∀ (i j : Fin selfIn.length), z.sem selfIn[i] selfIn[j] = ((ablk x selfIn links).add (bblk y links stOut)).S21 i j
  e22 : ∀ (i : Fin selfIn.length) (j : Fin stOut.length), z.sem selfIn[i] stOut[j] = ((ablk x selfIn links).add (bblk y links stOut)).S22 i j
  e11 : ∀ (i : Fin stOut.length) (j : Fin selfIn.length), z.sem stOut[i] selfIn[j] = ((ablk x selfIn links).add (bblk y links stOut)).S11 i j
  e12 : ∀ (i j : Fin stOut.length), z.sem stOut[i] stOut[j] = ((ablk x selfIn links).add (bblk y links stOut)).S12 i j

theorem join_facts (self st c : St F) (newId : Nat)
    (hs : self.pins.Nodup) (ht : st.pins.Nodup) (hd : ∀ p, p ∈ self.pins → p ∈ st.pins → False)
    (h : join self st newId = .ok c) :
    ∃ links selfIn stOut, JoinFacts self st c links selfIn stOut := by
  obtain ⟨links, selfIn, stOut, A, B, C, addPins, hl, h1, h2, h3, h4, h5, h6, hc⟩ := join_ok self st c newId h
  refine ⟨links, selfIn, stOut, ?_⟩
  obtain ⟨eIn, subA, ndA⟩ := removeAll_eq_filter _ _ _ hs h1
  obtain ⟨eOut, subB, ndB⟩ := removeAll_eq_filter _ _ _ ht h2
  have hnd : (self.pins ++ st.pins).Nodup :=
    List.nodup_append.2 ⟨hs, ht, fun p hp q hq e => hd p hp (e ▸ hq)⟩
  obtain ⟨eAdd, _, _⟩ := removeAll_eq_filter _ _ _ hnd h6
  rw [filter_append_disjoint _ _ _ _ subA subB hd, ← eIn, ← eOut] at eAdd
  have hpins : c.pins = selfIn ++ stOut := by rw [hc]; simp [build, eAdd]
  have pA : self.pins.Perm (selfIn ++ links.map Prod.fst) := by
    rw [eIn]; exact perm_filter_split _ _ hs ndA subA
  have pB : st.pins.Perm (links.map Prod.snd ++ stOut) := by
    rw [eOut]; exact (perm_filter_split _ _ ht ndB subB).trans List.perm_append_comm
  have lenA : (links.map (·.1)).length = links.length := by simp
  have lenB : (links.map (·.2)).length = links.length := by simp
  obtain ⟨aN, aM, aWF, aSM⟩ := split_spec self selfIn (links.map (·.1)) A selfIn.length links.length rfl lenA h3
  obtain ⟨bN, bM, bWF, bSM⟩ := split_spec st (links.map (·.2)) stOut B links.length stOut.length lenB rfl h4
  obtain ⟨_, cN, cM, cWF, hu, cSM⟩ := SMat.add?_spec' A B C selfIn.length links.length stOut.length aWF bWF aN aM bM h5
  have hA' : A.toSM selfIn.length links.length = ablk self selfIn links := by
    rw [aSM]; simp [ablk, blk]
  have hB' : B.toSM links.length stOut.length = bblk st links stOut := by
    rw [bSM]; simp [bblk, blk]
  rw [hA', hB'] at hu cSM
  have lnd : (selfIn ++ stOut).Nodup := by
    have := hnd.filter (fun p => !(links.map (·.1) ++ links.map (·.2)).contains p)
    rwa [filter_append_disjoint _ _ _ _ subA subB hd, ← eIn, ← eOut] at this
  have semc : ∀ (x y : Nat) (hx : x < (selfIn ++ stOut).length) (hy : y < (selfIn ++ stOut).length),
      c.sem (selfIn ++ stOut)[x] (selfIn ++ stOut)[y] = (assemble C).get x y := by
    intro x y hx hy
    rw [hc, eAdd]
    exact sem_build self st newId C _ lnd x y hx hy
  have llen : (selfIn ++ stOut).length = selfIn.length + stOut.length := List.length_append
  refine ⟨hl, hpins, eIn, eOut, ndA, ndB, subA, subB, pA, pB, hu, ?_, ?_, ?_, ?_⟩
  · intro i j
    have := semc i.1 j.1 (by omega) (by omega)
    rw [List.getElem_append_left i.2, List.getElem_append_left j.2] at this
    refine this.trans ?_
    rw [assemble_get C _ _ (by omega) (by omega), ← cSM]
    simp [cN, i.2, j.2, SMat.toSM, Mat.toMatrix]
  · intro i j
    have := semc i.1 (selfIn.length + j.1) (by omega) (by omega)
    rw [List.getElem_append_left i.2, List.getElem_append_right (by omega)] at this
    simp only [Nat.add_sub_cancel_left] at this
    refine this.trans ?_
    rw [assemble_get C _ _ (by omega) (by omega), ← cSM]
    simp [cN, i.2, SMat.toSM, Mat.toMatrix]
  · intro i j
    have := semc (selfIn.length + i.1) j.1 (by omega) (by omega)
    rw [List.getElem_append_right (by omega), List.getElem_append_left j.2] at this
    simp only [Nat.add_sub_cancel_left] at this
    refine this.trans ?_
    rw [assemble_get C _ _ (by omega) (by omega), ← cSM]
    simp [cN, j.2, SMat.toSM, Mat.toMatrix]
  · intro i j
    have := semc (selfIn.length + i.1) (selfIn.length + j.1) (by omega) (by omega)
    rw [List.getElem_append_right (by omega), List.getElem_append_right (by omega)] at this
    simp only [Nat.add_sub_cancel_left] at this
    refine this.trans ?_
    rw [assemble_get C _ _ (by omega) (by omega), ← cSM]
    simp [cN, SMat.toSM, Mat.toMatrix]

end St

section rows
variable {F : Type} [Field F] [DecidableEq F]

theorem rowSum_congr (l : List PinRef) (S : PinRef → PinRef → F) (a a' : PinRef → F) (p : PinRef)
    (h : ∀ q ∈ l, a q = a' q) : rowSum l S a p = rowSum l S a' p := by
  unfold rowSum
  congr 1
  apply List.map_congr_left
  intro q hq
  rw [h q hq]

theorem rowsA (self : St F) (selfIn : List PinRef) (links : List (PinRef × PinRef))
    (pA : self.pins.Perm (selfIn ++ links.map Prod.fst)) (a b : PinRef → F) (e : Eqn self.pins self.sem a b) :
    ∀ p ∈ self.pins, b p = (∑ j : Fin selfIn.length, self.sem p selfIn[j] * a selfIn[j])
      + ∑ j : Fin links.length, self.sem p links[j].1 * a links[j].1 := by
  intro p hp
  rw [e p hp, rowSum_perm pA, rowSum_append, rowSum_get, rowSum_map]

theorem rowsB (st : St F) (links : List (PinRef × PinRef)) (stOut : List PinRef)
    (pB : st.pins.Perm (links.map Prod.snd ++ stOut)) (a b : PinRef → F) (e : Eqn st.pins st.sem a b) :
    ∀ p ∈ st.pins, b p = (∑ j : Fin links.length, st.sem p links[j].2 * a links[j].2)
      + ∑ j : Fin stOut.length, st.sem p stOut[j] * a stOut[j] := by
  intro p hp
  rw [e p hp, rowSum_perm pB, rowSum_append, rowSum_map, rowSum_get]

end rows

namespace Solve
variable {F : Type} [Field F] [DecidableEq F]

/-- a pin of `s` is eliminated by the join iff its entry points into `t` -/
theorem elimS (L : PinRef → PinRef → Prop) (B : Nat) (s t : St F) (bs : Book L B s) (bt : Book L B t)
    (links : List (PinRef × PinRef)) (hl : St.linkPins s t = .ok links) :
    ∀ p q, (p, q) ∈ s.conn → (p ∈ links.map (·.1) ↔ q.1 ∈ St.membersOf t) := by
  intro p q hpq
  rw [linkPins_fst s t links hl, mem_getOutTo]
  constructor
  · rintro ⟨q', hq', hg⟩
    have := key_unique s.conn bs.connKey p q q' hpq hq'
    subst this
    exact group_target L B t bt _ (bs.connOut _ hpq).2 hg
  · intro hq
    exact ⟨q, hpq, membersOf_sub_group t _ hq⟩

end Solve

namespace NetD
variable {F : Type} [Field F] [DecidableEq F]
open Solve St

/-- pins of an initial structure are owned by it -/
theorem initial_owner (net : NetD F) (s0 : St F) (hs0 : s0 ∈ net.initial) : ∀ p ∈ s0.pins, p.1 = s0.id := by
  obtain ⟨k, c, _, rfl⟩ := (mem_initial net s0).1 hs0
  intro p hp
  exact ((mem_pins_mkSt net k c p).1 hp).1

/-- existence is preserved by `join` -/
theorem join_loc (net : NetD F) (B : Nat) (s t c : St F) (fresh : Nat)
    (Ls : net.Loc s) (Lt : net.Loc t) (bs : Book net.Lnk B s) (bt : Book net.Lnk B t)
    (hd : Disj s t) (hm : ∀ k, k ∈ membersOf s → k ∈ membersOf t → False)
    (h : join s t fresh = .ok c) : net.Loc c := by
  obtain ⟨links, selfIn, stOut, jf⟩ := join_facts s t c fresh Ls.nodup Lt.nodup hd h
  have hmo := join_membersOf s t c fresh h
  have lsub := linkPins_sub s t links jf.hl
  have lsym := linkPins_symm s t links jf.hl
  have hel := elimS net.Lnk B s t bs bt links jf.hl
  -- membership of kept pins
  have inS : ∀ p ∈ selfIn, p ∈ s.pins ∧ p ∉ links.map (·.1) := by
    intro p hp; rw [jf.eIn] at hp; have := List.mem_filter.1 hp; exact ⟨this.1, by simpa using this.2⟩
  have inT : ∀ p ∈ stOut, p ∈ t.pins ∧ p ∉ links.map (·.2) := by
    intro p hp; rw [jf.eOut] at hp; have := List.mem_filter.1 hp; exact ⟨this.1, by simpa using this.2⟩
  have lk1 : ∀ i : Fin links.length, links[i].1 ∈ links.map (·.1) := fun i => List.mem_map.2 ⟨links[i], List.getElem_mem i.2, rfl⟩
  have lk2 : ∀ i : Fin links.length, links[i].2 ∈ links.map (·.2) := fun i => List.mem_map.2 ⟨links[i], List.getElem_mem i.2, rfl⟩
  -- link equations for any local solution of the merged group
  have linkeq : ∀ a b, net.LocalSol (membersOf c) a b → ∀ l ∈ links, a l.1 = b l.2 ∧ a l.2 = b l.1 := by
    intro a b hw l hl
    have hls := lsub l hl
    have hL := Ls.connL l hls
    have o1 : l.1.1 ∈ membersOf c := by rw [hmo]; exact List.mem_append_left _ (bs.own _ (bs.connIn l hls))
    have o2 : l.2.1 ∈ membersOf c := by
      rw [hmo]; exact List.mem_append_right _ ((hel l.1 l.2 hls).1 (List.mem_map.2 ⟨l, hl, rfl⟩))
    rcases hL with hL | hL
    · exact hw.link _ hL o1 o2
    · have := hw.link _ hL o2 o1
      exact ⟨this.2, this.1⟩
  have subS : ∀ k ∈ membersOf s, k ∈ membersOf c := by intro k hk; rw [hmo]; exact List.mem_append_left _ hk
  have subT : ∀ k ∈ membersOf t, k ∈ membersOf c := by intro k hk; rw [hmo]; exact List.mem_append_right _ hk
  obtain ⟨_, _, hsound⟩ := St.join_sound s t c fresh Ls.nodup Lt.nodup hd h
  refine ⟨?_, ?_, ?_, ?_⟩
  · -- nodup
    rw [jf.hpins, jf.eIn, jf.eOut]
    refine List.nodup_append.2 ⟨Ls.nodup.filter _, Lt.nodup.filter _, ?_⟩
    intro p hp q hq e
    exact hd p (List.mem_of_mem_filter hp) (e ▸ List.mem_of_mem_filter hq)
  · -- connL
    intro l hl
    obtain ⟨_, _, _, _, _, C, addPins, _, _, _, _, _, _, _, hc⟩ := St.join_ok s t c fresh h
    rw [hc] at hl
    rcases build_conn_sub s t fresh C addPins l hl with h' | h'
    · exact Ls.connL l h'
    · exact Lt.connL l h'
  · -- goodL
    intro a b hw
    obtain ⟨links2, hl2, _, heq⟩ := St.join_sound s t c fresh Ls.nodup Lt.nodup hd h
    have : links2 = links := by rw [jf.hl] at hl2; exact (Except.ok.inj hl2).symm
    subst this
    exact heq a b (Ls.goodL a b (hw.mono subS)) (Lt.goodL a b (hw.mono subT)) (linkeq a b hw)
  · -- real
    intro u
    let A := ablk s selfIn links
    let Bm := bblk t links stOut
    let uA : Fin selfIn.length → F := fun i => u selfIn[i]
    let uB : Fin stOut.length → F := fun j => u stOut[j]
    obtain ⟨f, g, _, pe2, pe3, _⟩ := star_complete A Bm jf.hu uA uB
    -- boundary data for the two sides
    obtain ⟨us, hus1, hus2⟩ := exists_extend (links.map (·.1)) jf.ndA
      (fun i => g ⟨i.1, by have := i.2; simpa using this⟩) u
    obtain ⟨ut, hut1, hut2⟩ := exists_extend (links.map (·.2)) jf.ndB
      (fun i => f ⟨i.1, by have := i.2; simpa using this⟩) u
    have hus : ∀ i : Fin links.length, us links[i].1 = g i := by
      intro i
      have := hus1 ⟨i.1, by simp⟩
      simpa using this
    have hut : ∀ i : Fin links.length, ut links[i].2 = f i := by
      intro i
      have := hut1 ⟨i.1, by simp⟩
      simpa using this
    obtain ⟨as, bs', ls, hsb⟩ := Ls.real us
    obtain ⟨at', bt', lt, htb⟩ := Lt.real ut
    have Es := Ls.goodL as bs' ls
    have Et := Lt.goodL at' bt' lt
    have asK : ∀ j : Fin selfIn.length, as selfIn[j] = u selfIn[j] := by
      intro j
      have hm := inS selfIn[j] (List.getElem_mem j.2)
      rw [hsb _ hm.1, hus2 _ hm.2]
    have asC : ∀ j : Fin links.length, as links[j].1 = g j := by
      intro j; rw [hsb _ (jf.subA _ (lk1 j)), hus j]
    have atK : ∀ j : Fin stOut.length, at' stOut[j] = u stOut[j] := by
      intro j
      have hm := inT stOut[j] (List.getElem_mem j.2)
      rw [htb _ hm.1, hut2 _ hm.2]
    have atC : ∀ j : Fin links.length, at' links[j].2 = f j := by
      intro j; rw [htb _ (jf.subB _ (lk2 j)), hut j]
    have bsC : ∀ i : Fin links.length, bs' links[i].1 = f i := by
      intro i
      rw [rowsA s selfIn links jf.pA as bs' Es _ (jf.subA _ (lk1 i))]
      have := congrFun pe2 i
      rw [this]
      simp only [Pi.add_apply, Matrix.mulVec, dotProduct, A, ablk, blk, uA]
      congr 1
      · exact Finset.sum_congr rfl fun j _ => by rw [asK j]
      · exact Finset.sum_congr rfl fun j _ => by rw [asC j]
    have btC : ∀ i : Fin links.length, bt' links[i].2 = g i := by
      intro i
      rw [rowsB t links stOut jf.pB at' bt' Et _ (jf.subB _ (lk2 i))]
      have := congrFun pe3 i
      rw [this]
      simp only [Pi.add_apply, Matrix.mulVec, dotProduct, Bm, bblk, blk, uB]
      congr 1
      · exact Finset.sum_congr rfl fun j _ => by rw [atC j]
      · exact Finset.sum_congr rfl fun j _ => by rw [atK j]
    -- glue along ownership
    let a : PinRef → F := fun p => if p.1 ∈ membersOf s then as p else at' p
    let b : PinRef → F := fun p => if p.1 ∈ membersOf s then bs' p else bt' p
    have aS : ∀ p, p.1 ∈ membersOf s → a p = as p ∧ b p = bs' p := by intro p hp; simp [a, b, hp]
    have aT : ∀ p, p.1 ∈ membersOf t → a p = at' p ∧ b p = bt' p := by
      intro p hp
      have : p.1 ∉ membersOf s := fun h' => hm _ h' hp
      simp [a, b, this]
    -- every link between the two groups is one of `links`
    have cross : ∀ p q, net.Lnk p q → p.1 ∈ membersOf s → q.1 ∈ membersOf t → ∃ i : Fin links.length, links[i] = (p, q) := by
      intro p q hL hp hq
      have hps : p ∈ s.pins := by
        by_contra hno
        exact hm _ (bs.inner p q hp hno hL) hq
      have hpq := bs.full p hps q hL
      have hmem := (hel p q hpq).2 hq
      obtain ⟨l, hl1, hl2⟩ := List.mem_map.1 hmem
      obtain ⟨i, hi, rfl⟩ := List.getElem_of_mem hl1
      refine ⟨⟨i, hi⟩, ?_⟩
      have h3 : (p, links[i].2) ∈ s.conn := by have := lsub _ hl1; rwa [← hl2]
      have := key_unique s.conn bs.connKey p q links[i].2 hpq h3
      exact Prod.ext hl2 this.symm
    refine ⟨a, b, ⟨?_, ?_⟩, ?_⟩
    · -- component equations
      intro s0 hs0 hk
      have own0 := initial_owner net s0 hs0
      rw [hmo] at hk
      intro p hp
      rcases List.mem_append.1 hk with hk | hk
      · have hp' : p.1 ∈ membersOf s := by rw [own0 p hp]; exact hk
        rw [(aS p hp').2, ls.comp s0 hs0 hk p hp]
        exact (rowSum_congr _ _ _ _ _ fun q hq => (aS q (by rw [own0 q hq]; exact hk)).1).symm
      · have hp' : p.1 ∈ membersOf t := by rw [own0 p hp]; exact hk
        rw [(aT p hp').2, lt.comp s0 hs0 hk p hp]
        exact (rowSum_congr _ _ _ _ _ fun q hq => (aT q (by rw [own0 q hq]; exact hk)).1).symm
    · -- link equations
      intro l hl h1 h2
      rw [hmo] at h1 h2
      rcases List.mem_append.1 h1 with h1 | h1 <;> rcases List.mem_append.1 h2 with h2 | h2
      · rw [(aS _ h1).1, (aS _ h1).2, (aS _ h2).1, (aS _ h2).2]; exact ls.link l hl h1 h2
      · obtain ⟨i, hi⟩ := cross l.1 l.2 (Or.inl hl) h1 h2
        have e1 : links[i].1 = l.1 := by rw [hi]
        have e2 : links[i].2 = l.2 := by rw [hi]
        rw [(aS _ h1).1, (aS _ h1).2, (aT _ h2).1, (aT _ h2).2, ← e1, ← e2, asC i, btC i, atC i, bsC i]
        exact ⟨rfl, rfl⟩
      · obtain ⟨i, hi⟩ := cross l.2 l.1 (Or.inr hl) h2 h1
        have e1 : links[i].1 = l.2 := by rw [hi]
        have e2 : links[i].2 = l.1 := by rw [hi]
        rw [(aT _ h1).1, (aT _ h1).2, (aS _ h2).1, (aS _ h2).2, ← e1, ← e2, asC i, btC i, atC i, bsC i]
        exact ⟨rfl, rfl⟩
      · rw [(aT _ h1).1, (aT _ h1).2, (aT _ h2).1, (aT _ h2).2]; exact lt.link l hl h1 h2
    · -- boundary values
      intro p hp
      rw [jf.hpins] at hp
      rcases List.mem_append.1 hp with hp | hp
      · have hm' := inS p hp
        rw [(aS p (bs.own p hm'.1)).1, hsb p hm'.1, hus2 p hm'.2]
      · have hm' := inT p hp
        rw [(aT p (bt.own p hm'.1)).1, htb p hm'.1, hut2 p hm'.2]

end NetD

namespace NetD
variable {F : Type} [Field F] [DecidableEq F]
open Solve St

theorem loc_mkSt (net : NetD F) (wf : net.WF) (k : Nat) (c : CompD F) (hk : net.comps[k]? = some c) :
    net.Loc (net.mkSt k c) := by
  have hin : net.mkSt k c ∈ net.initial := (mem_initial net _).2 ⟨k, c, hk, rfl⟩
  refine ⟨(good_mkSt net wf k c hk).nodup, ?_, ?_, ?_⟩
  · intro l hl
    have hl' : l ∈ connOf net.links k := hl
    rcases (mem_connOf _ _ _).1 hl' with ⟨h1, _⟩ | ⟨h1, _, _⟩
    · exact Or.inl h1
    · exact Or.inr h1
  · intro a b hw
    exact hw.comp _ hin (by rw [membersOf_mkSt]; simp [mkSt])
  · intro u
    refine ⟨u, fun p => rowSum (net.mkSt k c).pins (net.mkSt k c).sem u p, ⟨?_, ?_⟩, fun p _ => rfl⟩
    · intro s0 hs0 hid
      rw [membersOf_mkSt] at hid
      obtain ⟨k', c', hk', rfl⟩ := (mem_initial net s0).1 hs0
      have : k' = k := by simpa [mkSt] using hid
      subst this
      rw [hk] at hk'
      rw [← Option.some.inj hk']
      intro p _; rfl
    · intro l hl h1 h2
      rw [membersOf_mkSt] at h1 h2
      simp only [List.mem_singleton] at h1 h2
      exact absurd (h1.trans h2.symm) (wf.noSelf l hl)

/-- loop-level invariant for the existence half -/
structure ExInv (net : NetD F) (live : List (St F)) (fresh : Nat) : Prop where
  full : FullInv net.Sol net.Lnk net.comps.length (List.range net.comps.length) live fresh
  loc : ∀ s ∈ live, net.Loc s
  keep : ∀ s0 ∈ net.initial, ∀ p ∈ s0.pins, (∀ q, ¬ net.Lnk p q) → ∃ s ∈ live, p ∈ s.pins

theorem exInv_initial (net : NetD F) (wf : net.WF) : net.ExInv net.initial net.comps.length := by
  refine ⟨fullInv_initial net wf, ?_, fun s0 hs0 p hp _ => ⟨s0, hs0, hp⟩⟩
  intro s hs
  obtain ⟨k, c, hk, rfl⟩ := (mem_initial net s).1 hs
  exact loc_mkSt net wf k c hk

theorem exInv_step (net : NetD F) (sched) (live live' : List (St F)) (fresh : Nat)
    (inv : net.ExInv live fresh) (h : stepWith sched live fresh = .ok live') : net.ExInv live' (fresh + 1) := by
  have hfull := stepWith_full net.Sol net.Lnk net.comps.length (fun p q h => h.symm) _ sched live live' fresh inv.full h
  obtain ⟨src, tar, new, hsm, htm, hne, hjoin, rfl⟩ := stepWith_cases sched live live' fresh h
  have hd := inv.full.linv.disj _ hsm _ htm hne
  have hmd := inv.full.mdisj _ hsm _ htm hne
  have lnew := join_loc net net.comps.length src tar new fresh (inv.loc _ hsm) (inv.loc _ htm)
    (inv.full.book _ hsm) (inv.full.book _ htm) hd hmd hjoin
  obtain ⟨links, selfIn, stOut, jf⟩ := join_facts src tar new fresh (inv.loc _ hsm).nodup (inv.loc _ htm).nodup hd hjoin
  refine ⟨hfull, ?_, ?_⟩
  · intro s hs
    rcases List.mem_append.1 hs with hs | hs
    · exact inv.loc _ (List.mem_of_mem_filter hs)
    · have : s = new := by simpa using hs
      rw [this]; exact lnew
  · intro s0 hs0 p hp hfree
    obtain ⟨s, hs, hps⟩ := inv.keep s0 hs0 p hp hfree
    by_cases h1 : s.id = src.id
    · have : s = src := inv.full.uniq _ hs _ hsm h1
      subst this
      refine ⟨new, List.mem_append_right _ (List.mem_singleton_self _), ?_⟩
      rw [jf.hpins, jf.eIn]
      refine List.mem_append_left _ (List.mem_filter.2 ⟨hps, ?_⟩)
      have : p ∉ links.map (·.1) := by
        intro hm
        obtain ⟨l, hl, rfl⟩ := List.mem_map.1 hm
        exact hfree l.2 ((inv.loc _ hsm).connL l (linkPins_sub _ _ links jf.hl l hl))
      simpa using this
    · by_cases h2 : s.id = tar.id
      · have : s = tar := inv.full.uniq _ hs _ htm h2
        subst this
        refine ⟨new, List.mem_append_right _ (List.mem_singleton_self _), ?_⟩
        rw [jf.hpins, jf.eOut]
        refine List.mem_append_right _ (List.mem_filter.2 ⟨hps, ?_⟩)
        have : p ∉ links.map (·.2) := by
          intro hm
          obtain ⟨l, hl, rfl⟩ := List.mem_map.1 hm
          exact hfree l.1 ((inv.loc _ htm).connL (l.2, l.1) (linkPins_symm _ _ links jf.hl l hl))
        simpa using this
      · refine ⟨s, List.mem_append_left _ (List.mem_filter.2 ⟨hs, by simp [h1, h2]⟩), hps⟩

/-- **C01, existence half, any schedule**: when `solve` succeeds, every excitation of the exposed pins (zero at the
    unexposed free pins) is realised by a solution of the network equations. -/
theorem solveWith_complete (net : NetD F) (wf : net.WF) (sched) (total : St F)
    (h : net.solveWith sched = .ok total)
    (hE : ∀ e ∈ net.exposed, (∃ s0 ∈ net.initial, e.2 ∈ s0.pins) ∧ ∀ q, ¬ net.Lnk e.2 q) (v : PinRef → F) :
    ∃ a b, net.Sol a b ∧ (∀ e ∈ net.exposed, a e.2 = v e.2) ∧ ∀ e ∈ net.exposed, e.2 ∈ total.pins := by
  obtain ⟨fr, inv⟩ := loopWith_induct sched (fun live fresh => net.ExInv live fresh)
    (fun live live' fresh q hs => exInv_step net sched live live' fresh q hs) _ _ _ total (exInv_initial net wf) h
  have loc := inv.loc total (by simp)
  let u : PinRef → F := fun p => if p ∈ net.exposed.map (·.2) then v p else 0
  obtain ⟨a, b, hw, hb⟩ := loc.real u
  have allmem : ∀ k, k < net.comps.length → k ∈ membersOf total := by
    intro k hk
    obtain ⟨s, hs, hks⟩ := inv.full.cover k (List.mem_range.2 hk)
    have : s = total := by simpa using hs
    rwa [this] at hks
  have expin : ∀ e ∈ net.exposed, e.2 ∈ total.pins := by
    intro e he
    obtain ⟨⟨s0, hs0, hp0⟩, hfree⟩ := hE e he
    obtain ⟨s', hs', hps'⟩ := inv.keep s0 hs0 e.2 hp0 hfree
    have : s' = total := by simpa using hs'
    rwa [this] at hps'
  refine ⟨a, b, ⟨?_, ?_, ?_⟩, ?_, expin⟩
  · intro s hs
    obtain ⟨k, c, hk, rfl⟩ := (mem_initial net s).1 hs
    exact hw.comp _ hs (allmem k (List.getElem?_eq_some_iff.1 hk).1)
  · intro l hl
    have o1 : l.1.1 < net.comps.length := by
      obtain ⟨c, hc, _⟩ := wf.endsPins l hl l.1 (Or.inl rfl); exact (List.getElem?_eq_some_iff.1 hc).1
    have o2 : l.2.1 < net.comps.length := by
      obtain ⟨c, hc, _⟩ := wf.endsPins l hl l.2 (Or.inr rfl); exact (List.getElem?_eq_some_iff.1 hc).1
    exact hw.link l hl (allmem _ o1) (allmem _ o2)
  · intro s hs p hp hfree hne
    obtain ⟨s', hs', hps'⟩ := inv.keep s hs p hp hfree
    have : s' = total := by simpa using hs'
    rw [this] at hps'
    rw [hb p hps']
    simp [u, hne]
  · intro e he
    have hmem : e.2 ∈ net.exposed.map (·.2) := List.mem_map.2 ⟨e, he, rfl⟩
    rw [hb _ (expin e he)]
    simp [u, hmem]

end NetD

namespace NetD
variable {F : Type} [Field F] [DecidableEq F]
open Solve St

theorem sum_indicator (E : List (String × PinRef)) (hn : (E.map (·.2)).Nodup) (f : PinRef → F) (y : String × PinRef)
    (hy : y ∈ E) : (E.map fun e => f e.2 * (if e.2 = y.2 then (1 : F) else 0)).sum = f y.2 := by
  induction E with
  | nil => simp at hy
  | cons e es ih =>
    have hn' : (e.2 :: es.map (·.2)).Nodup := hn
    obtain ⟨hne, hnes⟩ := List.nodup_cons.1 hn'
    simp only [List.map_cons, List.sum_cons]
    rcases List.mem_cons.1 hy with rfl | hy
    · have : (es.map fun e => f e.2 * (if e.2 = y.2 then (1 : F) else 0)).sum = 0 := by
        apply List.sum_eq_zero
        intro z hz
        obtain ⟨e', he', rfl⟩ := List.mem_map.1 hz
        have : e'.2 ≠ y.2 := fun h => hne (h ▸ List.mem_map.2 ⟨e', he', rfl⟩)
        rw [if_neg this, mul_zero]
      rw [this, if_pos rfl, mul_one, add_zero]
    · have : e.2 ≠ y.2 := fun h => hne (h ▸ List.mem_map.2 ⟨y, hy, rfl⟩)
      rw [if_neg this, mul_zero, zero_add]
      exact ih hnes hy

/-- **C03 for the executable model**: two schedules that both succeed give the same coefficient between every pair of
    exposed pins. -/
theorem solveWith_schedule_independent (net : NetD F) (wf : net.WF) (sched₁ sched₂) (t₁ t₂ : St F)
    (h₁ : net.solveWith sched₁ = .ok t₁) (h₂ : net.solveWith sched₂ = .ok t₂)
    (hEn : (net.exposed.map (·.2)).Nodup)
    (hE : ∀ e ∈ net.exposed, (∃ s0 ∈ net.initial, e.2 ∈ s0.pins) ∧ ∀ q, ¬ net.Lnk e.2 q) :
    ∀ x ∈ net.exposed, ∀ y ∈ net.exposed, t₁.sem x.2 y.2 = t₂.sem x.2 y.2 := by
  intro x hx y hy
  obtain ⟨a, b, hs, hv, hin₁⟩ := solveWith_complete net wf sched₁ t₁ h₁ hE (fun p => if p = y.2 then 1 else 0)
  obtain ⟨_, _, _, _, hin₂⟩ := solveWith_complete net wf sched₂ t₂ h₂ hE (fun p => if p = y.2 then 1 else 0)
  have r₁ := solveWith_readout net wf sched₁ t₁ h₁ hEn hin₁ a b hs x hx
  have r₂ := solveWith_readout net wf sched₂ t₂ h₂ hEn hin₂ a b hs x hx
  have e₁ : (net.exposed.map fun e => t₁.sem x.2 e.2 * a e.2).sum = t₁.sem x.2 y.2 := by
    rw [← sum_indicator net.exposed hEn (fun q => t₁.sem x.2 q) y hy]
    congr 1
    apply List.map_congr_left
    intro e he
    rw [hv e he]
  have e₂ : (net.exposed.map fun e => t₂.sem x.2 e.2 * a e.2).sum = t₂.sem x.2 y.2 := by
    rw [← sum_indicator net.exposed hEn (fun q => t₂.sem x.2 q) y hy]
    congr 1
    apply List.map_congr_left
    intro e he
    rw [hv e he]
  rw [← e₁, ← e₂, ← r₁, ← r₂]

end NetD

