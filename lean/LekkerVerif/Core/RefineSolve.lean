import LekkerVerif.Core.RefineJoin
import LekkerVerif.Core.Solve
import Mathlib.Data.List.Pairwise

open Matrix

namespace Solve
variable {F : Type} [Field F] [DecidableEq F]

/-- `W a b` : "(a, b) is a global solution of the network equations" — kept abstract -/
structure Good (W : (PinRef → F) → (PinRef → F) → Prop) (s : St F) : Prop where
  nodup : s.pins.Nodup
  eqn : ∀ a b, W a b → Eqn s.pins s.sem a b
  conn : ∀ a b, W a b → ∀ l ∈ s.conn, a l.1 = b l.2 ∧ a l.2 = b l.1

def Disj (s t : St F) : Prop := ∀ p, p ∈ s.pins → p ∈ t.pins → False

theorem Disj.symm {s t : St F} (h : Disj s t) : Disj t s := fun p hp hq => h p hq hp

theorem lookupL_mem {α β : Type} [BEq α] [LawfulBEq α] (l : List (α × β)) (k : α) (v : β)
    (h : lookupL l k = some v) : (k, v) ∈ l := by
  unfold lookupL at h
  cases hf : l.find? (·.1 == k) with
  | none => simp [hf] at h
  | some kv =>
    simp only [hf, Option.map_some, Option.some.injEq] at h
    have hm := List.mem_of_find?_eq_some hf
    have hk := List.find?_some hf
    simp only [beq_iff_eq] at hk
    obtain ⟨k', v'⟩ := kv
    simp only at hk h
    subst hk h
    exact hm

/-- every pair returned by `linkPins` is an entry of `self.conn` -/
theorem linkPins_sub (self st : St F) (links : List (PinRef × PinRef)) (h : St.linkPins self st = .ok links) :
    ∀ l ∈ links, l ∈ self.conn := by
  unfold St.linkPins at h
  simp only at h
  split at h
  · simp at h
  · intro l hl
    -- generic fact about mapM in Except
    have key : ∀ (xs : List PinRef) (ys : List (PinRef × PinRef)),
        (xs.mapM (m := Except Err) fun p =>
          match lookupL self.conn p with
          | none => .error .keyError
          | some q => match lookupL st.conn q with
            | none => .error .keyError
            | some p' => if p' != p then .error .notSymmetric else .ok (p, q)) = .ok ys →
        ∀ l ∈ ys, l ∈ self.conn := by
      intro xs
      induction xs with
      | nil => intro ys h l hl; simp [List.mapM_nil, pure, Except.pure] at h; subst h; simp at hl
      | cons x xs ih =>
        intro ys h l hl
        simp only [List.mapM_cons, bind, Except.bind, pure, Except.pure] at h
        split at h
        · simp at h
        · rename_i v hv
          split at h
          · simp at h
          · rename_i vs hvs
            simp only [Except.ok.injEq] at h
            subst h
            rcases List.mem_cons.1 hl with rfl | hl
            · -- the head: v = (x, q) with lookupL self.conn x = some q
              split at hv
              · simp at hv
              · rename_i q hq
                split at hv
                · simp at hv
                · split at hv
                  · simp at hv
                  · simp only [Except.ok.injEq] at hv
                    subst hv
                    exact lookupL_mem _ _ _ hq
            · exact ih vs hvs l hl
    exact key _ _ h l hl

/-- `{**self.conn_dict, **st.conn_dict}` only contains entries of the two dictionaries -/
theorem merged_sub (xs acc : List (PinRef × PinRef)) :
    ∀ l ∈ xs.foldl (fun acc kv =>
        if acc.any (·.1 == kv.1) then acc.map (fun e => if e.1 == kv.1 then kv else e) else acc ++ [kv]) acc,
      l ∈ acc ∨ l ∈ xs := by
  induction xs generalizing acc with
  | nil => intro l hl; exact Or.inl hl
  | cons x xs ih =>
    intro l hl
    simp only [List.foldl_cons] at hl
    rcases ih _ l hl with h | h
    · split at h
      · rcases List.mem_map.1 h with ⟨e, he, rfl⟩
        split
        · exact Or.inr List.mem_cons_self
        · exact Or.inl he
      · rcases List.mem_append.1 h with h | h
        · exact Or.inl h
        · simp only [List.mem_singleton] at h; subst h; exact Or.inr List.mem_cons_self
    · exact Or.inr (List.mem_cons_of_mem _ h)

theorem build_conn_sub (self st : St F) (newId : Nat) (C : SMat F) (addPins : List PinRef) :
    ∀ l ∈ (St.build self st newId C addPins).conn, l ∈ self.conn ∨ l ∈ st.conn := by
  intro l hl
  simp only [St.build] at hl
  exact merged_sub _ _ l (List.mem_of_mem_filter hl)

theorem join_good (W : (PinRef → F) → (PinRef → F) → Prop) (s t c : St F) (newId : Nat)
    (hs : Good W s) (ht : Good W t) (hd : Disj s t) (h : St.join s t newId = .ok c) :
    Good W c ∧ ∀ p ∈ c.pins, p ∈ s.pins ∨ p ∈ t.pins := by
  obtain ⟨links, hl, hpins, heq⟩ := St.join_sound s t c newId hs.nodup ht.nodup hd h
  have hsub : ∀ p ∈ c.pins, p ∈ s.pins ∨ p ∈ t.pins := by
    intro p hp
    rw [hpins] at hp
    rcases List.mem_append.1 hp with hp | hp
    · exact Or.inl (List.mem_of_mem_filter hp)
    · exact Or.inr (List.mem_of_mem_filter hp)
  refine ⟨⟨?_, ?_, ?_⟩, hsub⟩
  · rw [hpins]
    refine List.nodup_append.2 ⟨hs.nodup.filter _, ht.nodup.filter _, ?_⟩
    intro p hp q hq e
    exact hd p (List.mem_of_mem_filter hp) (e ▸ List.mem_of_mem_filter hq)
  · intro a b hw
    exact heq a b (hs.eqn a b hw) (ht.eqn a b hw)
      (fun l hl' => hs.conn a b hw l (linkPins_sub s t links hl l hl'))
  · intro a b hw l hl'
    obtain ⟨_, _, _, _, _, C, addPins, _, _, _, _, _, _, _, hc⟩ := St.join_ok s t c newId h
    rw [hc] at hl'
    rcases build_conn_sub s t newId C addPins l hl' with h' | h'
    · exact hs.conn a b hw l h'
    · exact ht.conn a b hw l h'

/-! ### the elimination loop for an arbitrary schedule -/

structure LiveInv (W : (PinRef → F) → (PinRef → F) → Prop) (live : List (St F)) (fresh : Nat) : Prop where
  good : ∀ s ∈ live, Good W s
  disj : ∀ s ∈ live, ∀ t ∈ live, s.id ≠ t.id → Disj s t
  ids : ∀ s ∈ live, s.id < fresh

theorem join_id (s t c : St F) (newId : Nat) (h : St.join s t newId = .ok c) : c.id = newId := by
  obtain ⟨_, _, _, _, _, C, addPins, _, _, _, _, _, _, _, hc⟩ := St.join_ok s t c newId h
  rw [hc]; rfl

theorem stepWith_inv (W : (PinRef → F) → (PinRef → F) → Prop) (sched) (live live' : List (St F)) (fresh : Nat)
    (inv : LiveInv W live fresh) (h : stepWith sched live fresh = .ok live') : LiveInv W live' (fresh + 1) := by
  unfold stepWith at h
  split at h
  · simp at h
  · rename_i i j _
    split at h
    · rename_i src tar hsrc htar
      split at h
      · simp at h
      · rename_i hij
        split at h
        · simp at h
        · rename_i new hjoin
          simp only [Except.ok.injEq] at h
          subst h
          have hsm := List.mem_of_find?_eq_some hsrc
          have htm := List.mem_of_find?_eq_some htar
          have hsi : src.id = i := by simpa using List.find?_some hsrc
          have hti : tar.id = j := by simpa using List.find?_some htar
          have hne : src.id ≠ tar.id := by
            rw [hsi, hti]; simpa using hij
          obtain ⟨gnew, subnew⟩ := join_good W src tar new fresh (inv.good _ hsm) (inv.good _ htm)
            (inv.disj _ hsm _ htm hne) hjoin
          have idnew := join_id src tar new fresh hjoin
          have memrest : ∀ r ∈ live.filter (fun r => r.id != i && r.id != j), r ∈ live ∧ r.id ≠ i ∧ r.id ≠ j := by
            intro r hr
            have := List.mem_filter.1 hr
            simpa using this
          refine ⟨?_, ?_, ?_⟩
          · intro s hs
            rcases List.mem_append.1 hs with hs | hs
            · exact inv.good _ (memrest s hs).1
            · simp only [List.mem_singleton] at hs; subst hs; exact gnew
          · intro s hs t ht hst
            rcases List.mem_append.1 hs with hs1 | hs1 <;> rcases List.mem_append.1 ht with ht1 | ht1
            · exact inv.disj _ (memrest s hs1).1 _ (memrest t ht1).1 hst
            · obtain ⟨hsl, hsi', hsj'⟩ := memrest s hs1
              have et : t = new := by simpa using ht1
              intro p hp hq
              rw [et] at hq
              rcases subnew p hq with hq | hq
              · exact inv.disj _ hsl _ hsm (by rw [hsi]; exact hsi') p hp hq
              · exact inv.disj _ hsl _ htm (by rw [hti]; exact hsj') p hp hq
            · obtain ⟨htl, hti', htj'⟩ := memrest t ht1
              have es : s = new := by simpa using hs1
              intro p hp hq
              rw [es] at hp
              rcases subnew p hp with hp | hp
              · exact inv.disj _ hsm _ htl (by rw [hsi]; exact fun e => hti' e.symm) p hp hq
              · exact inv.disj _ htm _ htl (by rw [hti]; exact fun e => htj' e.symm) p hp hq
            · have es : s = new := by simpa using hs1
              have et : t = new := by simpa using ht1
              exact absurd (by rw [es, et]) hst
          · intro s hs
            rcases List.mem_append.1 hs with hs | hs
            · exact Nat.lt_succ_of_lt (inv.ids _ (memrest s hs).1)
            · simp only [List.mem_singleton] at hs; subst hs; rw [idnew]; exact Nat.lt_succ_self _
    · simp at h

/-- whatever the schedule, the structure the loop ends with satisfies its component equation for every global solution -/
theorem loopWith_sound (W : (PinRef → F) → (PinRef → F) → Prop) (sched) :
    ∀ (fuel : Nat) (live : List (St F)) (fresh : Nat) (total : St F),
      LiveInv W live fresh → loopWith sched fuel live fresh = .ok total → Good W total := by
  intro fuel
  induction fuel with
  | zero =>
    intro live fresh total inv h
    simp only [loopWith] at h
    split at h
    · simp only [Except.ok.injEq] at h; subst h; exact inv.good _ (by simp)
    · simp at h
  | succ n ih =>
    intro live fresh total inv h
    simp only [loopWith] at h
    split at h
    · simp only [Except.ok.injEq] at h; subst h; exact inv.good _ (by simp)
    · split at h
      · simp at h
      · rename_i live' hstep
        exact ih live' (fresh + 1) total (stepWith_inv W sched live live' fresh inv hstep) h

end Solve

