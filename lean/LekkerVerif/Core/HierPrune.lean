import LekkerVerif.Core.HierSplit
/-! `Solver.prune()` on one level of a hierarchical circuit — the matrix side (executable, core Lean only).

A child that presents no pin to its parent (a component without pins, a sub-solver that exposes nothing) is a dead
branch: nothing can be linked to it and nothing of it can be exposed.  `HNet.pruneLevel` drops the dead children of a
level and re-addresses the links and the exposures by the positions of the children that stay (`HNet.subLevel` on the
set of live positions).  `Solver.prune()` recurses into the sub-solvers; that recursion is the business of the Prune
model, here the point is what the level solves to.

* `HNet.isDead h` — the child presents no pin name to its parent;
* `HNet.liveSet cs` — the positions of the children that are not dead, increasing;
* `HNet.pruneLevel` — the level without its dead children (a component is itself). -/

namespace HNet
variable {F : Type}

/-- a child is dead when it presents no pin name to its parent -/
def isDead : HNet F → Bool
  | .leaf c => c.pins.isEmpty
  | .node _ _ exposed => exposed.isEmpty

/-- the positions of the children that are not dead -/
def liveSet (cs : List (HNet F)) : List Nat :=
  (List.range cs.length).filter fun i => !(cs.getD i (.node [] [] [])).isDead

/-- the level without its dead children, links and exposures re-addressed -/
def pruneLevel : HNet F → HNet F
  | .leaf c => .leaf c
  | .node cs links exposed => subLevel cs links exposed (liveSet cs)

/-! ### the criterion of `Solver.prune()` itself (theorems in Core/HierPruneRec.lean) -/

mutual
/-- the return value of `Solver.prune()` / `Model.is_empty()`: nothing with a pin is left underneath -/
def emptyRec : HNet F → Bool
  | .leaf c => c.pins.isEmpty
  | .node cs _ _ => emptyAll cs
/-- `len(not_empty) == 0` -/
def emptyAll : List (HNet F) → Bool
  | [] => true
  | h :: t => emptyRec h && emptyAll t
end

/-- the positions of the children `prune()` keeps on a level -/
def keepSet (cs : List (HNet F)) : List Nat :=
  (List.range cs.length).filter fun i => !(cs.getD i (.node [] [] [])).emptyRec

/-- the level with the children `prune()` removes gone -/
def keepLevel : HNet F → HNet F
  | .leaf c => .leaf c
  | .node cs links exposed => subLevel cs links exposed (keepSet cs)

/-! Sanity check: a level of four children, the second one a sub-solver that exposes nothing, the last one a component
without pins (so `d.pins = []` is assumed).  Both are dropped, the third child moves to position 1. -/

example (a c d : CompD F) (ha : a.pins = ["a", "b"]) (hc : c.pins = ["a", "b"]) (hd : d.pins = []) :
    pruneLevel (.node [.leaf a, .node [.leaf a] [] [], .leaf c, .leaf d] [((0, "b"), (2, "a"))]
      [("in", (0, "a")), ("out", (2, "b"))]) =
    .node [.leaf a, .leaf c] [((0, "b"), (1, "a"))] [("in", (0, "a")), ("out", (1, "b"))] := by
  simp [pruneLevel, liveSet, isDead, subLevel, positions, reindex, ha, hc, hd, List.range, List.range.loop,
    List.idxOf, List.findIdx, List.findIdx.go]

end HNet
