import LekkerVerif.Core.Disjoint

/-! A circuit assembled from mode-expanded blocks wired mode by mode is a bundle of independent copies of the
single-mode circuit (C13, network level). -/

variable {F : Type*} [Field F]
variable {P : Type*} [DecidableEq P] {M : Type*} [DecidableEq M]

namespace ANet

/-- the single-mode network `N` carried by mode `m`: pins `(p, m)` -/
def atMode (N : ANet P F) (m : M) : ANet (P × M) F :=
  { parts := N.parts.map fun pt => (pt.1.map fun p => (p, m), fun x y => pt.2 x.1 y.1),
    links := N.links.map fun l => ((l.1, m), (l.2, m)),
    exposed := N.exposed.map fun p => (p, m) }

theorem atMode_pinSet (N : ANet P F) (m : M) (x : P × M) : (N.atMode m).pinSet x ↔ (x.2 = m ∧ N.pinSet x.1) := by
  unfold pinSet atMode
  constructor
  · rintro ⟨pt', hpt', hx⟩
    obtain ⟨pt, hpt, rfl⟩ := List.mem_map.1 hpt'
    obtain ⟨p, hp, rfl⟩ := List.mem_map.1 hx
    exact ⟨rfl, pt, hpt, hp⟩
  · rintro ⟨hm, pt, hpt, hp⟩
    refine ⟨_, List.mem_map.2 ⟨pt, hpt, rfl⟩, List.mem_map.2 ⟨x.1, hp, ?_⟩⟩
    rw [← hm]

theorem atMode_lnk (N : ANet P F) (m : M) (p : P) (y : P × M) : (N.atMode m).Lnk (p, m) y ↔ (y.2 = m ∧ N.Lnk p y.1) := by
  unfold Lnk atMode
  simp only [List.mem_map, Prod.mk.injEq]
  constructor
  · rintro (⟨l, hl, ⟨h1, _⟩, rfl⟩ | ⟨l, hl, rfl, ⟨h1, _⟩⟩)
    · refine ⟨rfl, Or.inl ?_⟩; rw [← h1]; exact hl
    · refine ⟨rfl, Or.inr ?_⟩; rw [← h1]; exact hl
  · rintro ⟨hm, h | h⟩
    · exact Or.inl ⟨(p, y.1), h, by simp, by rw [← hm]⟩
    · exact Or.inr ⟨(y.1, p), h, by rw [← hm], by simp⟩

theorem rowSum_atMode (pins : List P) (S : P → P → F) (m : M) (a : P × M → F) (p : P) :
    rowSum (pins.map fun q => (q, m)) (fun x y => S x.1 y.1) a (p, m) = rowSum pins S (fun q => a (q, m)) p := by
  unfold rowSum
  rw [List.map_map]
  rfl

/-- the waves of mode `m` solve the carried network exactly when they solve the single-mode network -/
theorem atMode_sol (N : ANet P F) (m : M) (a b : P × M → F) :
    (N.atMode m).Sol a b ↔ N.Sol (fun p => a (p, m)) (fun p => b (p, m)) := by
  constructor
  · intro h
    refine ⟨?_, ?_, ?_⟩
    · intro pt hpt p hp
      have := h.comp _ (List.mem_map.2 ⟨pt, hpt, rfl⟩) (p, m) (List.mem_map.2 ⟨p, hp, rfl⟩)
      rw [rowSum_atMode] at this
      exact this
    · intro l hl
      exact h.link ((l.1, m), (l.2, m)) (List.mem_map.2 ⟨l, hl, rfl⟩)
    · intro pt hpt p hp hfree hne
      apply h.free _ (List.mem_map.2 ⟨pt, hpt, rfl⟩) (p, m) (List.mem_map.2 ⟨p, hp, rfl⟩)
      · intro y hy
        exact hfree y.1 ((atMode_lnk N m p y).1 hy).2
      · intro he
        obtain ⟨q, hq, e⟩ := List.mem_map.1 he
        have : q = p := by simpa using congrArg Prod.fst e
        exact hne (this ▸ hq)
  · intro h
    refine ⟨?_, ?_, ?_⟩
    · intro pt' hpt' x hx
      obtain ⟨pt, hpt, rfl⟩ := List.mem_map.1 hpt'
      obtain ⟨p, hp, rfl⟩ := List.mem_map.1 hx
      show b (p, m) = _
      rw [rowSum_atMode]
      exact h.comp pt hpt p hp
    · intro l' hl'
      obtain ⟨l, hl, rfl⟩ := List.mem_map.1 hl'
      exact h.link l hl
    · intro pt' hpt' x hx hfree hne
      obtain ⟨pt, hpt, rfl⟩ := List.mem_map.1 hpt'
      obtain ⟨p, hp, rfl⟩ := List.mem_map.1 hx
      apply h.free pt hpt p hp
      · intro q hq
        exact hfree (q, m) ((atMode_lnk N m p (q, m)).2 ⟨rfl, hq⟩)
      · intro he
        exact hne (List.mem_map.2 ⟨p, he, rfl⟩)

/-- the carried network has the single-mode operator -/
theorem atMode_solvedBy (N : ANet P F) (m : M) (T : P → P → F) (h : N.SolvedBy T) :
    (N.atMode m).SolvedBy (fun x y => T x.1 y.1) := by
  constructor
  · intro a b hs e he
    obtain ⟨p, hp, rfl⟩ := List.mem_map.1 he
    have := h.1 _ _ ((atMode_sol N m a b).1 hs) p hp
    show b (p, m) = rowSum (N.exposed.map fun p => (p, m)) (fun x y => T x.1 y.1) a (p, m)
    rw [rowSum_atMode]
    exact this
  · intro v
    obtain ⟨a, b, hs, hv⟩ := h.2 (fun p => v (p, m))
    refine ⟨fun x => a x.1, fun x => b x.1, (atMode_sol N m _ _).2 hs, ?_⟩
    intro e he
    obtain ⟨p, hp, rfl⟩ := List.mem_map.1 he
    exact hv p hp

theorem nodup_map_pair (l : List P) (m : M) (h : l.Nodup) : (l.map fun p => (p, m)).Nodup := by
  induction l with
  | nil => simp
  | cons a t ih =>
    rw [List.nodup_cons] at h
    rw [List.map_cons, List.nodup_cons]
    refine ⟨?_, ih h.2⟩
    intro hm
    obtain ⟨q, hq, e⟩ := List.mem_map.1 hm
    have : q = a := by simpa using congrArg Prod.fst e
    exact h.1 (this ▸ hq)

/-- links and exposed pins of a network belong to its parts -/
structure Closed (N : ANet P F) : Prop where
  links : ∀ l ∈ N.links, N.pinSet l.1 ∧ N.pinSet l.2
  exposed : ∀ e ∈ N.exposed, N.pinSet e

theorem atMode_apart (N : ANet P F) (cl : N.Closed) (m₁ m₂ : M) (hne : m₁ ≠ m₂) : Apart (N.atMode m₁) (N.atMode m₂) := by
  refine ⟨?_, ?_, ?_, ?_, ?_⟩
  · intro x h1 h2
    exact hne (((atMode_pinSet N m₁ x).1 h1).1.symm.trans ((atMode_pinSet N m₂ x).1 h2).1)
  · intro l' hl'
    obtain ⟨l, hl, rfl⟩ := List.mem_map.1 hl'
    exact ⟨(atMode_pinSet N m₁ _).2 ⟨rfl, (cl.links l hl).1⟩, (atMode_pinSet N m₁ _).2 ⟨rfl, (cl.links l hl).2⟩⟩
  · intro l' hl'
    obtain ⟨l, hl, rfl⟩ := List.mem_map.1 hl'
    exact ⟨(atMode_pinSet N m₂ _).2 ⟨rfl, (cl.links l hl).1⟩, (atMode_pinSet N m₂ _).2 ⟨rfl, (cl.links l hl).2⟩⟩
  · intro e' he'
    obtain ⟨e, he, rfl⟩ := List.mem_map.1 he'
    exact (atMode_pinSet N m₁ _).2 ⟨rfl, cl.exposed e he⟩
  · intro e' he'
    obtain ⟨e, he, rfl⟩ := List.mem_map.1 he'
    exact (atMode_pinSet N m₂ _).2 ⟨rfl, cl.exposed e he⟩

/-- **modes are independent (network level)**: the circuit carried by two different modes side by side — which is what
base-name wiring of mode-expanded blocks builds — has, for *any* operator `Tm` that solves it, the single-mode
coefficient between like modes and zero between different modes -/
theorem modes_independent (N : ANet P F) (cl : N.Closed) (hn : N.exposed.Nodup) (T : P → P → F) (h : N.SolvedBy T)
    (m₁ m₂ : M) (hne : m₁ ≠ m₂) (Tm : P × M → P × M → F)
    (hT : (union (N.atMode m₁) (N.atMode m₂)).SolvedBy Tm) :
    ∀ p ∈ N.exposed, ∀ q ∈ N.exposed,
      Tm (p, m₁) (q, m₁) = T p q ∧ Tm (p, m₂) (q, m₂) = T p q ∧ Tm (p, m₁) (q, m₂) = 0 ∧ Tm (q, m₂) (p, m₁) = 0 := by
  have ap := atMode_apart N cl m₁ m₂ hne
  have hnod : ((N.atMode m₁).exposed ++ (N.atMode m₂).exposed).Nodup := by
    refine List.nodup_append.2 ⟨?_, ?_, ?_⟩
    · exact nodup_map_pair N.exposed m₁ hn
    · exact nodup_map_pair N.exposed m₂ hn
    · intro x hx y hy e
      obtain ⟨p, _, rfl⟩ := List.mem_map.1 hx
      obtain ⟨q, _, rfl⟩ := List.mem_map.1 hy
      exact hne (by simpa using congrArg Prod.snd e)
  obtain ⟨k1, k2, k3⟩ := component_behaves ap hnod Tm _ _ (atMode_solvedBy N m₁ T h) (atMode_solvedBy N m₂ T h) hT
  intro p hp q hq
  have e1 : (p, m₁) ∈ (N.atMode m₁).exposed := List.mem_map.2 ⟨p, hp, rfl⟩
  have e1q : (q, m₁) ∈ (N.atMode m₁).exposed := List.mem_map.2 ⟨q, hq, rfl⟩
  have e2 : (p, m₂) ∈ (N.atMode m₂).exposed := List.mem_map.2 ⟨p, hp, rfl⟩
  have e2q : (q, m₂) ∈ (N.atMode m₂).exposed := List.mem_map.2 ⟨q, hq, rfl⟩
  exact ⟨k1 _ e1 _ e1q, k2 _ e2 _ e2q, (k3 _ e1 _ e2q).1, (k3 _ e1 _ e2q).2⟩


/-- the two-mode circuit as the code builds it: every block is *one* part on the pins of both modes with the
block-diagonal matrix of `expand_mode` (`C13_expand`), and `connect_all` links like modes -/
def expanded2 (N : ANet P F) (m₁ m₂ : M) : ANet (P × M) F :=
  { parts := N.parts.map fun pt => ((pt.1.map fun p => (p, m₁)) ++ (pt.1.map fun p => (p, m₂)),
                                     fun x y => if x.2 = y.2 then pt.2 x.1 y.1 else 0),
    links := (N.atMode m₁).links ++ (N.atMode m₂).links,
    exposed := (N.atMode m₁).exposed ++ (N.atMode m₂).exposed }

theorem rowSum_diag_same (pins : List P) (S : P → P → F) (m : M) (a : P × M → F) (p : P) :
    rowSum (pins.map fun q => (q, m)) (fun x y => if x.2 = y.2 then S x.1 y.1 else 0) a (p, m)
      = rowSum (pins.map fun q => (q, m)) (fun x y => S x.1 y.1) a (p, m) := by
  apply rowSum_congrS
  intro q hq
  obtain ⟨q0, _, rfl⟩ := List.mem_map.1 hq
  simp

theorem rowSum_diag_other (pins : List P) (S : P → P → F) (m m' : M) (hne : m ≠ m') (a : P × M → F) (p : P) :
    rowSum (pins.map fun q => (q, m')) (fun x y => if x.2 = y.2 then S x.1 y.1 else 0) a (p, m) = 0 := by
  apply rowSum_zero
  intro q hq
  obtain ⟨q0, _, rfl⟩ := List.mem_map.1 hq
  simp [hne]

/-- the block-diagonal parts are the two per-mode parts: same solutions -/
theorem expanded2_sol (N : ANet P F) (m₁ m₂ : M) (hne : m₁ ≠ m₂) (a b : P × M → F) :
    (N.expanded2 m₁ m₂).Sol a b ↔ (union (N.atMode m₁) (N.atMode m₂)).Sol a b := by
  have hne' : m₂ ≠ m₁ := fun e => hne e.symm
  constructor
  · intro h
    refine ⟨?_, h.link, ?_⟩
    · intro pt' hpt' x hx
      rcases List.mem_append.1 hpt' with hpt' | hpt'
      · obtain ⟨pt, hpt, rfl⟩ := List.mem_map.1 hpt'
        obtain ⟨p, hp, rfl⟩ := List.mem_map.1 hx
        have := h.comp _ (List.mem_map.2 ⟨pt, hpt, rfl⟩) (p, m₁) (List.mem_append_left _ (List.mem_map.2 ⟨p, hp, rfl⟩))
        rw [rowSum_append, rowSum_diag_same, rowSum_diag_other _ _ _ _ hne, add_zero] at this
        exact this
      · obtain ⟨pt, hpt, rfl⟩ := List.mem_map.1 hpt'
        obtain ⟨p, hp, rfl⟩ := List.mem_map.1 hx
        have := h.comp _ (List.mem_map.2 ⟨pt, hpt, rfl⟩) (p, m₂) (List.mem_append_right _ (List.mem_map.2 ⟨p, hp, rfl⟩))
        rw [rowSum_append, rowSum_diag_same, rowSum_diag_other _ _ _ _ hne', zero_add] at this
        exact this
    · intro pt' hpt' x hx hfree hne
      rcases List.mem_append.1 hpt' with hpt' | hpt'
      · obtain ⟨pt, hpt, rfl⟩ := List.mem_map.1 hpt'
        exact h.free _ (List.mem_map.2 ⟨pt, hpt, rfl⟩) x (List.mem_append_left _ hx) hfree hne
      · obtain ⟨pt, hpt, rfl⟩ := List.mem_map.1 hpt'
        exact h.free _ (List.mem_map.2 ⟨pt, hpt, rfl⟩) x (List.mem_append_right _ hx) hfree hne
  · intro h
    refine ⟨?_, h.link, ?_⟩
    · intro pt' hpt' x hx
      obtain ⟨pt, hpt, rfl⟩ := List.mem_map.1 hpt'
      rcases List.mem_append.1 hx with hx | hx
      · obtain ⟨p, hp, rfl⟩ := List.mem_map.1 hx
        have := h.comp _ (List.mem_append_left _ (List.mem_map.2 ⟨pt, hpt, rfl⟩)) (p, m₁) (List.mem_map.2 ⟨p, hp, rfl⟩)
        show b (p, m₁) = _
        rw [rowSum_append, rowSum_diag_same, rowSum_diag_other _ _ _ _ hne, add_zero]
        exact this
      · obtain ⟨p, hp, rfl⟩ := List.mem_map.1 hx
        have := h.comp _ (List.mem_append_right _ (List.mem_map.2 ⟨pt, hpt, rfl⟩)) (p, m₂) (List.mem_map.2 ⟨p, hp, rfl⟩)
        show b (p, m₂) = _
        rw [rowSum_append, rowSum_diag_same, rowSum_diag_other _ _ _ _ hne', zero_add]
        exact this
    · intro pt' hpt' x hx hfree hne
      obtain ⟨pt, hpt, rfl⟩ := List.mem_map.1 hpt'
      rcases List.mem_append.1 hx with hx | hx
      · exact h.free _ (List.mem_append_left _ (List.mem_map.2 ⟨pt, hpt, rfl⟩)) x hx hfree hne
      · exact h.free _ (List.mem_append_right _ (List.mem_map.2 ⟨pt, hpt, rfl⟩)) x hx hfree hne

/-- **a circuit assembled from mode-expanded blocks behaves as independent copies of the single-mode circuit**:
any operator that solves the two-mode circuit built from block-diagonal parts has the single-mode coefficient between
like modes and zero between different modes -/
theorem expanded2_independent (N : ANet P F) (cl : N.Closed) (hn : N.exposed.Nodup) (T : P → P → F) (h : N.SolvedBy T)
    (m₁ m₂ : M) (hne : m₁ ≠ m₂) (Tm : P × M → P × M → F) (hT : (N.expanded2 m₁ m₂).SolvedBy Tm) :
    ∀ p ∈ N.exposed, ∀ q ∈ N.exposed,
      Tm (p, m₁) (q, m₁) = T p q ∧ Tm (p, m₂) (q, m₂) = T p q ∧ Tm (p, m₁) (q, m₂) = 0 ∧ Tm (q, m₂) (p, m₁) = 0 := by
  apply modes_independent N cl hn T h m₁ m₂ hne Tm
  constructor
  · intro a b hs e he
    exact hT.1 a b ((expanded2_sol N m₁ m₂ hne a b).2 hs) e he
  · intro v
    obtain ⟨a, b, hs, hv⟩ := hT.2 v
    exact ⟨a, b, (expanded2_sol N m₁ m₂ hne a b).1 hs, hv⟩

end ANet
