import LekkerVerif.Core.Join
/-! Batched star product: numpy applies `matmul`/`inv` slice-wise along the leading sweep axis
(assumption A-numpy-batch, validated by the correspondence run); the model is a map over slices. -/
namespace SMat
variable {F : Type} [Scalar F]

def addBatch : List (SMat F) → List (SMat F) → Except Err (List (SMat F))
  | [], _ => .ok []
  | _, [] => .ok []
  | a :: as, b :: bs =>
    match a.add? b with
    | .error e => .error e
    | .ok c => match addBatch as bs with
      | .error e => .error e
      | .ok cs => .ok (c :: cs)
end SMat
