import LekkerVerif.Core.HierSolve
import LekkerVerif.Model.Split
/-! `Solver.split()` on one level of a hierarchical circuit (executable, core Lean only).

`split()` works on the solver's own level: the children (components or sub-solvers) stay what they are, the level is cut
into the sets of children the union loop (`Split.components`, Model/Split.lean) builds from the links of the level, and
every set becomes a solver of its own with the links that run inside the set and the exposures that point into it.

* `HNet.adjOf links i` — the neighbours of child position `i`: the other ends of the links that touch child `i`;
* `HNet.groups n links` — the sets `split()` builds for a level of `n` children (as the union loop leaves them: lists that
  may name a position more than once);
* `HNet.positions n g` — the positions of a set in increasing order, each once;
* `HNet.subLevel cs links exposed g` — the sub-solver of the set `g`: the children at `positions cs.length g` (increasing
  position order), the links both of whose ends lie in `g`, the exposures whose pin lies in `g`; a pin reference
  `(i, name)` is re-addressed as (position of `i` inside `positions cs.length g`, name);
* `HNet.splitLevel` — the sub-solver of every set (a component is returned as it is). -/

namespace HNet
variable {F : Type}

/-- the children linked to child `i`, one entry per link end that touches `i` -/
def adjOf (links : List (PinRef × PinRef)) (i : Nat) : List Nat :=
  links.flatMap fun l => (if l.1.1 = i then [l.2.1] else []) ++ (if l.2.1 = i then [l.1.1] else [])

/-- the sets of child positions `Solver.split()` builds on a level of `n` children -/
def groups (n : Nat) (links : List (PinRef × PinRef)) : List (List Nat) :=
  Split.components (List.range n) (adjOf links)

/-- the positions (below `n`) a set names, increasing, each once -/
def positions (n : Nat) (g : List Nat) : List Nat := (List.range n).filter fun i => g.contains i

/-- a pin reference re-addressed by the position of its child inside the sub-list `ps` -/
def reindex (ps : List Nat) (r : PinRef) : PinRef := (ps.idxOf r.1, r.2)

/-- the sub-solver for the set `g` of child positions -/
def subLevel (cs : List (HNet F)) (links : List (PinRef × PinRef)) (exposed : List (String × PinRef))
    (g : List Nat) : HNet F :=
  let ps := positions cs.length g
  .node (ps.map fun i => cs.getD i (.node [] [] []))
    ((links.filter fun l => g.contains l.1.1 && g.contains l.2.1).map fun l => (reindex ps l.1, reindex ps l.2))
    ((exposed.filter fun e => g.contains e.2.1).map fun e => (e.1, reindex ps e.2))

/-- `Solver.split()` on the top level of a circuit: one sub-solver per connected set of children -/
def splitLevel : HNet F → List (HNet F)
  | .leaf c => [.leaf c]
  | .node cs links exposed => (groups cs.length links).map (subLevel cs links exposed)

/-! Sanity check: a level of three children, the first two linked.  The union loop returns the sets `[1, 0, 0, 1]` and
`[2]`; the sub-solvers are the chain of the first two children (link and exposures kept) and the third child alone, its
exposure re-addressed to position 0. -/

example : groups 3 [((0, "b"), (1, "a"))] = [[1, 0, 0, 1], [2]] := by decide

example (a b c : CompD F) :
    splitLevel (.node [.leaf a, .leaf b, .leaf c] [((0, "b"), (1, "a"))]
      [("in", (0, "a")), ("x", (2, "a")), ("out", (1, "b"))]) =
    [.node [.leaf a, .leaf b] [((0, "b"), (1, "a"))] [("in", (0, "a")), ("out", (1, "b"))],
     .node [.leaf c] [] [("x", (0, "a"))]] := by
  rfl

end HNet
