import LekkerVerif.Core.Join
/-! Spike: elimination loop with the pin-count heuristic (ties broken by position; any schedule is fine by C03) -/
namespace Solve
variable {F : Type} [Scalar F]

/-- find the live composite that currently contains base structure `b` (gone_to forwarding) -/
def goneTo (live : List (St F)) (b : Nat) : Option (St F) := live.find? fun s => s.group.contains b

/-- stable sort by pin count (insertion sort) -/
def sortByPins (l : List (St F)) : List (St F) :=
  l.foldl (fun acc s =>
    let (a, b) := acc.span (fun t => t.pins.length ≤ s.pins.length)
    a ++ [s] ++ b) []

def step (live : List (St F)) (fresh : Nat) : Except Err (List (St F)) := do
  let sorted := sortByPins live
  match sorted with
  | [] => throw .empty
  | src :: rest =>
    -- connected_to of src sorted by pin count of where they have gone to, then the rest of the list
    let nbrs := (src.connTo.filterMap (goneTo sorted)).filter (fun t => t.id != src.id)
    let cand := sortByPins nbrs ++ rest
    match cand with
    | [] => throw .empty
    | tar :: _ =>
      let new ← src.join tar fresh
      return (sorted.filter fun s => s.id != src.id && s.id != tar.id) ++ [new]

def loop (fuel : Nat) (live : List (St F)) (fresh : Nat) : Except Err (St F) :=
  match fuel, live with
  | _, [s] => pure s
  | 0, _ => throw .empty
  | fuel + 1, live => do
    let live' ← step live fresh
    loop fuel live' (fresh + 1)

/-- one merge: the schedule names two live structures by id -/
def stepWith (sched : List (St F) → Option (Nat × Nat)) (live : List (St F)) (fresh : Nat) :
    Except Err (List (St F)) :=
  match sched live with
  | none => .error .empty
  | some (i, j) =>
    match live.find? (·.id == i), live.find? (·.id == j) with
    | some src, some tar =>
      if i == j then .error .empty else
      match St.join src tar fresh with
      | .error e => .error e
      | .ok new => .ok (live.filter (fun r => r.id != i && r.id != j) ++ [new])
    | _, _ => .error .empty

def loopWith (sched : List (St F) → Option (Nat × Nat)) : Nat → List (St F) → Nat → Except Err (St F)
  | 0, live, _ => match live with
    | [s] => .ok s
    | _ => .error .empty
  | fuel + 1, live, fresh => match live with
    | [s] => .ok s
    | _ => match stepWith sched live fresh with
      | .error e => .error e
      | .ok live' => loopWith sched fuel live' (fresh + 1)


end Solve
