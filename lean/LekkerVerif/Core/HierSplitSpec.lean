import LekkerVerif.Core.HierSplit
import LekkerVerif.Core.HierSolveSpec
import LekkerVerif.Properties.C12

/-! # `split()` yields the connected components, each behaving like the original (C12, one level)

`HNet.splitLevel` (Core/HierSplit.lean) is the model of `Solver.split()` on the solver's own level.  Over every field, every
merge schedule, every well-formed level (`HNet.WFTree`), whatever the children are (components or sub-solvers):

* `HNet.groups_partition`, `HNet.groups_closed`, `HNet.groups_connected` — every child position lies in exactly one set of
  the union loop, every link lies inside one set, two children share a set exactly when a chain of links joins them;
* `HNet.WFTree.subLevel`, `HNet.WFTree.splitLevel` — every sub-solver returned is well formed;
* `HNet.split_behaves` (`HNet.subLevel_behaves`) — a sub-solver exposes names of the original and returns, between every
  two of them, the coefficient the original returns;
* `HNet.split_across_zero` (`HNet.level_across_zero`) — names exposed by the sub-solvers of two different sets have no
  coefficient between them in the original;
* `HNet.splitLevel_connected` — when the union loop leaves one set, the only sub-solver is the level itself.

Route: the flattened circuit of the level (`HNet.flat`) is cut by the predicate "the pin lies under a child of the set"
(`ANet.inside`, `ANet.outside`, `ANet.Splits`): the two sides are `ANet.Apart` because no link joins two sets, the flattened
circuit is the two sides side by side (`ANet.union`, up to the order of parts, links and exposed pins:
`ANet.solvedBy_of_sameNE`), the inside is the flattened circuit of the sub-solver with every path-pin re-addressed from the
child position inside the set to the child position in the level (`ANet.map`, `HNet.upPin`/`HNet.downPin`), and an operator
of two networks side by side is each side's operator on that side's pins and zero across (`ANet.component_behaves`,
`ANet.sides_of_union`).  One set against the rest is enough, so no n-ary union is needed. -/

open NetD Solve

/-! ### a network cut along a predicate on its pins -/

section abstractSplit
namespace ANet
variable {F : Type*} [Field F] {P : Type*} [DecidableEq P]

omit [DecidableEq P] in
theorem rowSum_zero_input (pins : List P) (S : P → P → F) (a : P → F) (p : P) (h : ∀ q ∈ pins, a q = 0) :
    rowSum pins S a p = 0 := by
  unfold rowSum
  apply List.sum_eq_zero
  intro x hx
  obtain ⟨q, hq, rfl⟩ := List.mem_map.1 hx
  rw [h q hq, mul_zero]

omit [DecidableEq P] in
/-- no wave anywhere is a solution of every network -/
theorem sol_zero (N : ANet P F) : N.Sol (fun _ => 0) (fun _ => 0) := by
  refine ⟨?_, fun _ _ => ⟨rfl, rfl⟩, fun _ _ _ _ _ _ => rfl⟩
  intro part _ p _
  exact (rowSum_zero_input part.1 part.2 (fun _ => 0) p (fun _ _ => rfl)).symm

/-- an operator of two networks side by side is an operator of each side -/
theorem sides_of_union {N₁ N₂ : ANet P F} (ap : Apart N₁ N₂) (T : P → P → F) (hT : (union N₁ N₂).SolvedBy T) :
    N₁.SolvedBy T ∧ N₂.SolvedBy T := by
  constructor
  · constructor
    · intro a b h e he
      obtain ⟨a', b', hs, g₁, g₂⟩ := sol_union_of_sides ap a b (fun _ => 0) (fun _ => 0) h (sol_zero N₂)
      have := hT.1 a' b' hs e (List.mem_append_left _ he)
      rw [show (union N₁ N₂).exposed = N₁.exposed ++ N₂.exposed from rfl, rowSum_append,
        rowSum_zero_input N₂.exposed T a' e (fun q hq => (g₂ q (ap.exp₂ q hq)).1), add_zero,
        (g₁ e (ap.exp₁ e he)).2] at this
      rw [this]
      exact rowSum_congr _ _ _ _ _ (fun q hq => (g₁ q (ap.exp₁ q hq)).1)
    · intro v
      obtain ⟨a, b, hs, hv⟩ := hT.2 v
      exact ⟨a, b, sol_left_of_union ap a b hs, fun e he => hv e (List.mem_append_left _ he)⟩
  · constructor
    · intro a b h e he
      obtain ⟨a', b', hs, g₁, g₂⟩ := sol_union_of_sides ap (fun _ => 0) (fun _ => 0) a b (sol_zero N₁) h
      have := hT.1 a' b' hs e (List.mem_append_right _ he)
      rw [show (union N₁ N₂).exposed = N₁.exposed ++ N₂.exposed from rfl, rowSum_append,
        rowSum_zero_input N₁.exposed T a' e (fun q hq => (g₁ q (ap.exp₁ q hq)).1), zero_add,
        (g₂ e (ap.exp₂ e he)).2] at this
      rw [this]
      exact rowSum_congr _ _ _ _ _ (fun q hq => (g₂ q (ap.exp₂ q hq)).1)
    · intro v
      obtain ⟨a, b, hs, hv⟩ := hT.2 v
      exact ⟨a, b, sol_right_of_union ap a b hs, fun e he => hv e (List.mem_append_right _ he)⟩

omit [DecidableEq P] in
/-- the network equations only depend on which parts *with pins*, which links and which exposed pins there are -/
theorem sol_of_sameNE (N N' : ANet P F) (hp : ∀ part, part.1 ≠ [] → (part ∈ N.parts ↔ part ∈ N'.parts))
    (hl : ∀ l, l ∈ N.links ↔ l ∈ N'.links) (he : ∀ e, e ∈ N.exposed ↔ e ∈ N'.exposed)
    (a b : P → F) (h : N.Sol a b) : N'.Sol a b := by
  refine ⟨?_, fun l hl' => h.link l ((hl l).2 hl'), ?_⟩
  · intro part hpart p hpp
    have hne : part.1 ≠ [] := fun e => by rw [e] at hpp; cases hpp
    exact h.comp part ((hp part hne).2 hpart) p hpp
  · intro part hpart p hpp hfree hne
    have hne' : part.1 ≠ [] := fun e => by rw [e] at hpp; cases hpp
    apply h.free part ((hp part hne').2 hpart) p hpp
    · intro q hq
      apply hfree q
      rcases hq with hq | hq
      · exact Or.inl ((hl _).1 hq)
      · exact Or.inr ((hl _).1 hq)
    · intro hin; exact hne ((he p).1 hin)

/-- … and so does the solution operator; the exposed pins may be listed in another order -/
theorem solvedBy_of_sameNE (N N' : ANet P F) (hp : ∀ part, part.1 ≠ [] → (part ∈ N.parts ↔ part ∈ N'.parts))
    (hl : ∀ l, l ∈ N.links ↔ l ∈ N'.links) (he : N.exposed.Perm N'.exposed) (T : P → P → F)
    (h : N.SolvedBy T) : N'.SolvedBy T := by
  have he' : ∀ e, e ∈ N.exposed ↔ e ∈ N'.exposed := fun e => he.mem_iff
  constructor
  · intro a b hs e hin
    rw [← rowSum_perm he]
    exact h.1 a b (sol_of_sameNE N' N (fun p hne => (hp p hne).symm) (fun l => (hl l).symm) (fun e => (he' e).symm) a b hs) e
      ((he' e).2 hin)
  · intro v
    obtain ⟨a, b, hs, hv⟩ := h.2 v
    exact ⟨a, b, sol_of_sameNE N N' hp hl he' a b hs, fun e hin => hv e ((he' e).2 hin)⟩

/-- the side of a network inside `I`: the parts with a pin inside, the links that start inside, the exposed pins inside -/
def inside (N : ANet P F) (I : P → Bool) : ANet P F :=
  { parts := N.parts.filter (fun part => part.1.any I), links := N.links.filter (fun l => I l.1),
    exposed := N.exposed.filter I }

/-- the other side -/
def outside (N : ANet P F) (I : P → Bool) : ANet P F :=
  { parts := N.parts.filter (fun part => !part.1.any I), links := N.links.filter (fun l => !I l.1),
    exposed := N.exposed.filter (fun e => !I e) }

/-- `I` cuts the network without cutting a part or a link (and the description is closed) -/
structure Splits (N : ANet P F) (I : P → Bool) : Prop where
  parts : ∀ part ∈ N.parts, ∀ p ∈ part.1, ∀ q ∈ part.1, I p = I q
  links : ∀ l ∈ N.links, I l.1 = I l.2
  linkPins : ∀ l ∈ N.links, N.pinSet l.1 ∧ N.pinSet l.2
  expPins : ∀ e ∈ N.exposed, N.pinSet e

variable {N : ANet P F} {I : P → Bool}

omit [Field F] [DecidableEq P] in
theorem pinSet_inside (sp : Splits N I) (p : P) : (N.inside I).pinSet p ↔ N.pinSet p ∧ I p = true := by
  constructor
  · rintro ⟨part, hp, hpp⟩
    obtain ⟨h1, h2⟩ := List.mem_filter.1 hp
    obtain ⟨q, hq, hIq⟩ := List.any_eq_true.1 h2
    exact ⟨⟨part, h1, hpp⟩, by rw [sp.parts part h1 p hpp q hq]; exact hIq⟩
  · rintro ⟨⟨part, hp, hpp⟩, hI⟩
    exact ⟨part, List.mem_filter.2 ⟨hp, List.any_eq_true.2 ⟨p, hpp, hI⟩⟩, hpp⟩

omit [Field F] [DecidableEq P] in
theorem pinSet_outside (p : P) : (N.outside I).pinSet p ↔ ∃ part ∈ N.parts, p ∈ part.1 ∧ ∀ q ∈ part.1, I q = false := by
  constructor
  · rintro ⟨part, hp, hpp⟩
    obtain ⟨h1, h2⟩ := List.mem_filter.1 hp
    refine ⟨part, h1, hpp, ?_⟩
    intro q hq
    cases hIq : I q with
    | false => rfl
    | true =>
      have : part.1.any I = true := List.any_eq_true.2 ⟨q, hq, hIq⟩
      rw [this] at h2; cases h2
  · rintro ⟨part, hp, hpp, hall⟩
    refine ⟨part, List.mem_filter.2 ⟨hp, ?_⟩, hpp⟩
    cases hany : part.1.any I with
    | false => rfl
    | true =>
      obtain ⟨q, hq, hIq⟩ := List.any_eq_true.1 hany
      rw [hall q hq] at hIq; cases hIq

omit [Field F] [DecidableEq P] in
theorem pinSet_outside' (sp : Splits N I) (p : P) : (N.outside I).pinSet p ↔ N.pinSet p ∧ I p = false := by
  rw [pinSet_outside]
  constructor
  · rintro ⟨part, hp, hpp, hall⟩
    exact ⟨⟨part, hp, hpp⟩, hall p hpp⟩
  · rintro ⟨⟨part, hp, hpp⟩, hI⟩
    exact ⟨part, hp, hpp, fun q hq => by rw [← sp.parts part hp p hpp q hq]; exact hI⟩

omit [Field F] [DecidableEq P] in
/-- the two sides do not touch -/
theorem apart_of_splits (sp : Splits N I) : Apart (N.inside I) (N.outside I) := by
  refine ⟨?_, ?_, ?_, ?_, ?_⟩
  · intro p h1 h2
    have a := ((pinSet_inside sp p).1 h1).2
    have b := ((pinSet_outside' sp p).1 h2).2
    rw [a] at b; cases b
  · intro l hl
    obtain ⟨h1, h2⟩ := List.mem_filter.1 hl
    obtain ⟨p1, p2⟩ := sp.linkPins l h1
    exact ⟨(pinSet_inside sp _).2 ⟨p1, h2⟩, (pinSet_inside sp _).2 ⟨p2, by rw [← sp.links l h1]; exact h2⟩⟩
  · intro l hl
    obtain ⟨h1, h2⟩ := List.mem_filter.1 hl
    obtain ⟨p1, p2⟩ := sp.linkPins l h1
    have h2' : I l.1 = false := by simpa using h2
    exact ⟨(pinSet_outside' sp _).2 ⟨p1, h2'⟩, (pinSet_outside' sp _).2 ⟨p2, by rw [← sp.links l h1]; exact h2'⟩⟩
  · intro e he
    obtain ⟨h1, h2⟩ := List.mem_filter.1 he
    exact (pinSet_inside sp _).2 ⟨sp.expPins e h1, h2⟩
  · intro e he
    obtain ⟨h1, h2⟩ := List.mem_filter.1 he
    exact (pinSet_outside' sp _).2 ⟨sp.expPins e h1, by simpa using h2⟩

/-- the network is its two sides side by side -/
theorem union_sides_solvedBy (T : P → P → F) (h : N.SolvedBy T) : (union (N.inside I) (N.outside I)).SolvedBy T := by
  refine solvedBy_of_sameNE N _ ?_ ?_ ?_ T h
  · intro part _
    show part ∈ N.parts ↔ part ∈ N.parts.filter (fun part => part.1.any I) ++ N.parts.filter (fun part => !part.1.any I)
    rw [List.mem_append, List.mem_filter, List.mem_filter]
    cases part.1.any I <;> simp
  · intro l
    show l ∈ N.links ↔ l ∈ N.links.filter (fun l => I l.1) ++ N.links.filter (fun l => !I l.1)
    rw [List.mem_append, List.mem_filter, List.mem_filter]
    cases I l.1 <;> simp
  · exact (List.filter_append_perm I N.exposed).symm

omit [Field F] [DecidableEq P] in
theorem union_sides_nodup (hn : N.exposed.Nodup) : ((N.inside I).exposed ++ (N.outside I).exposed).Nodup :=
  ((List.filter_append_perm I N.exposed).nodup_iff).2 hn

/-- **one side of a cut network behaves like the whole**: on the exposed pins inside `I` the operator of the whole network
is the operator of the inside alone -/
theorem inside_behaves (sp : Splits N I) (hn : N.exposed.Nodup) (T T₁ : P → P → F) (hT : N.SolvedBy T)
    (h₁ : (N.inside I).SolvedBy T₁) :
    ∀ x ∈ N.exposed, ∀ y ∈ N.exposed, I x = true → I y = true → T x y = T₁ x y := by
  intro x hx y hy ix iy
  have ap := apart_of_splits sp
  have hU := union_sides_solvedBy (I := I) T hT
  exact (component_behaves ap (union_sides_nodup hn) T T₁ T h₁ (sides_of_union ap T hU).2 hU).1
    x (List.mem_filter.2 ⟨hx, ix⟩) y (List.mem_filter.2 ⟨hy, iy⟩)

/-- … and has no coefficient between the two sides -/
theorem across_zero (sp : Splits N I) (hn : N.exposed.Nodup) (T : P → P → F) (hT : N.SolvedBy T) :
    ∀ x ∈ N.exposed, ∀ y ∈ N.exposed, I x = true → I y = false → T x y = 0 ∧ T y x = 0 := by
  intro x hx y hy ix iy
  have ap := apart_of_splits sp
  have hU := union_sides_solvedBy (I := I) T hT
  have hs := sides_of_union ap T hU
  exact (component_behaves ap (union_sides_nodup hn) T T T hs.1 hs.2 hU).2.2
    x (List.mem_filter.2 ⟨hx, ix⟩) y (List.mem_filter.2 ⟨hy, by simpa using iy⟩)

end ANet
end abstractSplit

/-! ### positions, re-addressing, and the sets of the union loop -/

namespace HNet
section combinatorics

theorem mem_positions (n : Nat) (g : List Nat) (i : Nat) : i ∈ positions n g ↔ i < n ∧ i ∈ g := by
  unfold positions
  rw [List.mem_filter, List.mem_range, List.contains_iff_mem]

theorem positions_nodup (n : Nat) (g : List Nat) : (positions n g).Nodup :=
  List.Nodup.sublist List.filter_sublist List.nodup_range

theorem getElem?_idxOf {ps : List Nat} {i : Nat} (h : i ∈ ps) : ps[ps.idxOf i]? = some i := by
  have hlt := List.idxOf_lt_length_iff.2 h
  rw [List.getElem?_eq_getElem hlt, List.getElem_idxOf]

theorem idxOf_inj {ps : List Nat} {i j : Nat} (hi : i ∈ ps) (e : ps.idxOf i = ps.idxOf j) : i = j := by
  have hlt := List.idxOf_lt_length_iff.2 hi
  have hj : j ∈ ps := List.idxOf_lt_length_iff.1 (e ▸ hlt)
  have h1 := getElem?_idxOf hi
  have h2 := getElem?_idxOf hj
  rw [e, h2] at h1
  exact (Option.some.inj h1).symm

theorem idxOf_of_getElem? {ps : List Nat} (hn : ps.Nodup) {i j : Nat} (h : ps[j]? = some i) : ps.idxOf i = j := by
  obtain ⟨h1, h2⟩ := List.getElem?_eq_some_iff.1 h
  rw [← h2]
  exact hn.idxOf_getElem j h1

theorem reindex_inj {ps : List Nat} {r r' : PinRef} (hr : r.1 ∈ ps) (e : reindex ps r = reindex ps r') : r = r' :=
  Prod.ext (idxOf_inj hr (show (reindex ps r).1 = (reindex ps r').1 from congrArg Prod.fst e))
    (show (reindex ps r).2 = (reindex ps r').2 from congrArg Prod.snd e)

theorem mem_adjOf (links : List (PinRef × PinRef)) (x y : Nat) :
    y ∈ adjOf links x ↔ ∃ l ∈ links, (l.1.1 = x ∧ l.2.1 = y) ∨ (l.2.1 = x ∧ l.1.1 = y) := by
  unfold adjOf
  rw [List.mem_flatMap]
  constructor
  · rintro ⟨l, hl, hy⟩
    refine ⟨l, hl, ?_⟩
    rcases List.mem_append.1 hy with hy | hy
    · by_cases h : l.1.1 = x
      · rw [if_pos h] at hy; exact Or.inl ⟨h, (List.mem_singleton.1 hy).symm⟩
      · rw [if_neg h] at hy; cases hy
    · by_cases h : l.2.1 = x
      · rw [if_pos h] at hy; exact Or.inr ⟨h, (List.mem_singleton.1 hy).symm⟩
      · rw [if_neg h] at hy; cases hy
  · rintro ⟨l, hl, (⟨h1, h2⟩ | ⟨h1, h2⟩)⟩
    · exact ⟨l, hl, List.mem_append_left _ (by rw [if_pos h1, h2]; exact List.mem_singleton.2 rfl)⟩
    · exact ⟨l, hl, List.mem_append_right _ (by rw [if_pos h1, h2]; exact List.mem_singleton.2 rfl)⟩

theorem adjOf_symm (links : List (PinRef × PinRef)) (x y : Nat) (h : y ∈ adjOf links x) : x ∈ adjOf links y := by
  obtain ⟨l, hl, h⟩ := (mem_adjOf links x y).1 h
  refine (mem_adjOf links y x).2 ⟨l, hl, ?_⟩
  rcases h with ⟨h1, h2⟩ | ⟨h1, h2⟩
  · exact Or.inr ⟨h2, h1⟩
  · exact Or.inl ⟨h2, h1⟩

/-- **every child position lies in exactly one set** -/
theorem groups_partition (n : Nat) (links : List (PinRef × PinRef)) (i : Nat) (hi : i < n) :
    (∃ g ∈ groups n links, i ∈ g) ∧ ∀ g ∈ groups n links, ∀ g' ∈ groups n links, i ∈ g → i ∈ g' → g = g' :=
  Split.C12_partition (adjOf links) (adjOf_symm links) (List.range n) i (List.mem_range.2 hi)

/-- **every link lies inside one set**: no link joins two different sets -/
theorem groups_closed (n : Nat) (links : List (PinRef × PinRef)) (g : List Nat) (hg : g ∈ groups n links)
    (l : PinRef × PinRef) (hl : l ∈ links) (h1 : l.1.1 < n) (h2 : l.2.1 < n) : l.1.1 ∈ g ↔ l.2.1 ∈ g := by
  have inv := Split.components_inv (adjOf links) (adjOf_symm links) (List.range n)
  constructor
  · intro hin
    obtain ⟨S, hS, hxS, hadj⟩ := inv.cover l.1.1 (List.mem_range.2 h1)
    have : g = S := inv.disj g hg S hS l.1.1 hin hxS
    rw [this]
    exact hadj l.2.1 ((mem_adjOf links _ _).2 ⟨l, hl, Or.inl ⟨rfl, rfl⟩⟩)
  · intro hin
    obtain ⟨S, hS, hxS, hadj⟩ := inv.cover l.2.1 (List.mem_range.2 h2)
    have : g = S := inv.disj g hg S hS l.2.1 hin hxS
    rw [this]
    exact hadj l.1.1 ((mem_adjOf links _ _).2 ⟨l, hl, Or.inr ⟨rfl, rfl⟩⟩)

/-- two children share a set exactly when a chain of links joins them -/
theorem groups_connected (n : Nat) (links : List (PinRef × PinRef))
    (hends : ∀ l ∈ links, l.1.1 < n ∧ l.2.1 < n) (i j : Nat) (hi : i < n) :
    (∃ g ∈ groups n links, i ∈ g ∧ j ∈ g) ↔ Split.Conn (adjOf links) i j := by
  refine Split.C12_components (adjOf links) (adjOf_symm links) (List.range n) ?_ i j (List.mem_range.2 hi)
  intro x _ y hy
  obtain ⟨l, hl, h⟩ := (mem_adjOf links x y).1 hy
  rcases h with ⟨_, h2⟩ | ⟨_, h2⟩
  · rw [← h2]; exact List.mem_range.2 (hends l hl).2
  · rw [← h2]; exact List.mem_range.2 (hends l hl).1

end combinatorics
end HNet

/-! ### the sub-solvers are well formed -/

namespace HNet
section wf
variable {F : Type}

/-- the children of a sub-solver: position `j` holds the child at the `j`-th position of the set -/
theorem subChildren_get (cs : List (HNet F)) (ps : List Nat) (hps : ∀ i ∈ ps, i < cs.length) (j : Nat) (h : HNet F) :
    (ps.map fun i => cs.getD i (.node [] [] []))[j]? = some h ↔ ∃ i, ps[j]? = some i ∧ cs[i]? = some h := by
  rw [List.getElem?_map]
  cases hj : ps[j]? with
  | none => simp
  | some i =>
    have hi : i < cs.length := hps i (List.mem_of_getElem? hj)
    simp only [Option.map_some, Option.some.injEq, exists_eq_left']
    rw [List.getD_eq_getElem?_getD, List.getElem?_eq_getElem hi]
    simp

theorem subChildren_idxOf (cs : List (HNet F)) (ps : List Nat) (hps : ∀ i ∈ ps, i < cs.length) (i : Nat) (hi : i ∈ ps) :
    (ps.map fun i => cs.getD i (.node [] [] []))[ps.idxOf i]? = cs[i]? := by
  have hlt : i < cs.length := hps i hi
  rw [List.getElem?_eq_getElem hlt]
  exact (subChildren_get cs ps hps _ _).2 ⟨i, getElem?_idxOf hi, List.getElem?_eq_getElem hlt⟩

theorem lt_of_pinNames_get {cs : List (HNet F)} {k : Nat} {pn : List String}
    (h : (cs.map pinNames)[k]? = some pn) : k < cs.length := by
  have := (List.getElem?_eq_some_iff.1 h).1
  simpa using this

/-- **(1) every sub-solver `split()` returns is well formed** (for any set of positions, in fact) -/
theorem WFTree.subLevel {cs : List (HNet F)} {links : List (PinRef × PinRef)} {exposed : List (String × PinRef)}
    (w : WFTree (HNet.node cs links exposed)) (g : List Nat) : WFTree (HNet.subLevel cs links exposed g) := by
  cases w with
  | node _ _ _ hch lev =>
  unfold HNet.subLevel
  simp only
  generalize hps : positions cs.length g = ps
  have hlt : ∀ i ∈ ps, i < cs.length := fun i hi => ((mem_positions _ _ _).1 (hps ▸ hi)).1
  have hin : ∀ i, i < cs.length → g.contains i = true → i ∈ ps := fun i h1 h2 =>
    hps ▸ (mem_positions _ _ _).2 ⟨h1, List.contains_iff_mem.1 h2⟩
  have hend : ∀ l ∈ links, l.1.1 < cs.length ∧ l.2.1 < cs.length := by
    intro l hl
    obtain ⟨p1, h1, _⟩ := lev.endsPins l hl l.1 (Or.inl rfl)
    obtain ⟨p2, h2, _⟩ := lev.endsPins l hl l.2 (Or.inr rfl)
    exact ⟨lt_of_pinNames_get h1, lt_of_pinNames_get h2⟩
  have hexp : ∀ e ∈ exposed, e.2.1 < cs.length := by
    intro e he
    obtain ⟨p1, h1, _⟩ := lev.expPins e he
    exact lt_of_pinNames_get h1
  have hpin : ∀ (r : PinRef) (pn : List String), r.1 ∈ ps → (cs.map pinNames)[r.1]? = some pn →
      ((ps.map fun i => cs.getD i (HNet.node [] [] [])).map pinNames)[(reindex ps r).1]? = some pn := by
    intro r pn hr h
    show ((ps.map fun i => cs.getD i (HNet.node [] [] [])).map pinNames)[ps.idxOf r.1]? = some pn
    rw [List.getElem?_map, subChildren_idxOf cs ps hlt r.1 hr, ← List.getElem?_map]
    exact h
  -- the links and exposures kept
  have hL : ∀ l, l ∈ links.filter (fun l => g.contains l.1.1 && g.contains l.2.1) →
      l ∈ links ∧ l.1.1 ∈ ps ∧ l.2.1 ∈ ps := by
    intro l hl
    obtain ⟨h1, h2⟩ := List.mem_filter.1 hl
    rw [Bool.and_eq_true] at h2
    exact ⟨h1, hin _ (hend l h1).1 h2.1, hin _ (hend l h1).2 h2.2⟩
  have hE : ∀ e, e ∈ exposed.filter (fun e => g.contains e.2.1) → e ∈ exposed ∧ e.2.1 ∈ ps := by
    intro e he
    obtain ⟨h1, h2⟩ := List.mem_filter.1 he
    exact ⟨h1, hin _ (hexp e h1) h2⟩
  refine WFTree.node _ _ _ ?_ ⟨?_, ?_, ?_, ?_, ?_, ?_, ?_, ?_⟩
  · intro h hh
    obtain ⟨i, hi, rfl⟩ := List.mem_map.1 hh
    rw [List.getD_eq_getElem?_getD, List.getElem?_eq_getElem (hlt i hi)]
    exact hch _ (List.getElem_mem _)
  · intro pn hpn
    obtain ⟨h, hh, rfl⟩ := List.mem_map.1 hpn
    obtain ⟨i, hi, rfl⟩ := List.mem_map.1 hh
    rw [List.getD_eq_getElem?_getD, List.getElem?_eq_getElem (hlt i hi)]
    exact lev.pinsNodup _ (List.mem_map.2 ⟨_, List.getElem_mem _, rfl⟩)
  · have e : (((links.filter fun l => g.contains l.1.1 && g.contains l.2.1).map
          fun l => (reindex ps l.1, reindex ps l.2)).flatMap fun l => [l.1, l.2]) =
        ((links.filter fun l => g.contains l.1.1 && g.contains l.2.1).flatMap fun l => [l.1, l.2]).map (reindex ps) := by
      rw [List.flatMap_map, List.map_flatMap]
      rfl
    rw [e]
    refine List.Nodup.map_on ?_ (List.Nodup.sublist (List.Sublist.flatMap List.filter_sublist _) lev.endsNodup)
    intro x hx y _ exy
    obtain ⟨l, hl, hxl⟩ := List.mem_flatMap.1 hx
    obtain ⟨_, h1, h2⟩ := hL l hl
    simp only [List.mem_cons, List.not_mem_nil, or_false] at hxl
    rcases hxl with rfl | rfl
    · exact reindex_inj h1 exy
    · exact reindex_inj h2 exy
  · intro l' hl' p hp
    obtain ⟨l, hl, rfl⟩ := List.mem_map.1 hl'
    obtain ⟨hl0, h1, h2⟩ := hL l hl
    rcases hp with rfl | rfl
    · obtain ⟨pn, hpn, hmem⟩ := lev.endsPins l hl0 l.1 (Or.inl rfl)
      exact ⟨pn, hpin l.1 pn h1 hpn, hmem⟩
    · obtain ⟨pn, hpn, hmem⟩ := lev.endsPins l hl0 l.2 (Or.inr rfl)
      exact ⟨pn, hpin l.2 pn h2 hpn, hmem⟩
  · intro l' hl' e
    obtain ⟨l, hl, rfl⟩ := List.mem_map.1 hl'
    obtain ⟨hl0, h1, _⟩ := hL l hl
    exact lev.noSelf l hl0 (idxOf_inj h1 e)
  · rw [List.map_map]
    have e : ((exposed.filter fun e => g.contains e.2.1).map
          ((fun x : String × PinRef => x.2) ∘ fun e => (e.1, reindex ps e.2))) =
        ((exposed.filter fun e => g.contains e.2.1).map (·.2)).map (reindex ps) := by
      rw [List.map_map]; rfl
    rw [e]
    refine List.Nodup.map_on ?_ (List.Nodup.sublist (List.filter_sublist.map _) lev.expNodup)
    intro x hx y _ exy
    obtain ⟨e0, he0, rfl⟩ := List.mem_map.1 hx
    exact reindex_inj (hE e0 he0).2 exy
  · intro e' he'
    obtain ⟨e, he, rfl⟩ := List.mem_map.1 he'
    obtain ⟨he0, h1⟩ := hE e he
    obtain ⟨pn, hpn, hmem⟩ := lev.expPins e he0
    exact ⟨pn, hpin e.2 pn h1 hpn, hmem⟩
  · intro e' he' l' hl'
    obtain ⟨e, he, rfl⟩ := List.mem_map.1 he'
    obtain ⟨l, hl, rfl⟩ := List.mem_map.1 hl'
    obtain ⟨he0, h1⟩ := hE e he
    obtain ⟨hl0, _, _⟩ := hL l hl
    constructor
    · intro e1; exact (lev.expFree e he0 l hl0).1 (reindex_inj h1 e1)
    · intro e1; exact (lev.expFree e he0 l hl0).2 (reindex_inj h1 e1)
  · rw [List.map_map]
    exact List.Nodup.sublist (List.filter_sublist.map _) lev.namesNodup

/-- **(1)** in the form of the task: every element of `splitLevel` of a well-formed level is well formed -/
theorem WFTree.splitLevel {h : HNet F} (w : WFTree h) : ∀ sub ∈ HNet.splitLevel h, WFTree sub := by
  intro sub hsub
  cases h with
  | leaf c =>
    rw [List.mem_singleton.1 (show sub ∈ [HNet.leaf c] from hsub)]
    exact w
  | node cs links exposed =>
    obtain ⟨g, _, rfl⟩ := List.mem_map.1 (show sub ∈ (groups cs.length links).map (HNet.subLevel cs links exposed) from hsub)
    exact w.subLevel g

end wf
end HNet

/-! ### the flattened sub-solver is one side of the flattened level -/

namespace HNet
section flatSides
variable {F : Type} [Field F] [DecidableEq F]

/-- child position inside the set ↦ child position in the level -/
def upPin (ps : List Nat) (p : HPin) : HPin :=
  match p.1 with
  | [] => p
  | j :: t => (ps.getD j 0 :: t, p.2)

/-- and back -/
def downPin (ps : List Nat) (q : HPin) : HPin :=
  match q.1 with
  | [] => q
  | i :: t => (ps.idxOf i :: t, q.2)

/-- the pin lies under a child of the set -/
def inPos (ps : List Nat) (p : HPin) : Bool :=
  match p.1 with
  | [] => false
  | i :: _ => ps.contains i

theorem upPin_pre (ps : List Nat) (j : Nat) (p : HPin) : upPin ps (pre j p) = pre (ps.getD j 0) p := rfl
theorem downPin_pre (ps : List Nat) (i : Nat) (p : HPin) : downPin ps (pre i p) = pre (ps.idxOf i) p := rfl
theorem inPos_pre (ps : List Nat) (i : Nat) (p : HPin) : inPos ps (pre i p) = ps.contains i := rfl

theorem unpre_downPin (ps : List Nat) (q : HPin) : unpre (downPin ps q) = unpre q := by
  obtain ⟨l, x⟩ := q
  cases l <;> rfl

theorem upPin_pre_of_get {ps : List Nat} {j i : Nat} (h : ps[j]? = some i) (p : HPin) : upPin ps (pre j p) = pre i p := by
  rw [upPin_pre, List.getD_eq_getElem?_getD, h]; rfl

theorem down_up {ps : List Nat} (hn : ps.Nodup) {j i : Nat} (h : ps[j]? = some i) (p : HPin) :
    downPin ps (upPin ps (pre j p)) = pre j p := by
  rw [upPin_pre_of_get h, downPin_pre, idxOf_of_getElem? hn h]

omit [Field F] [DecidableEq F] in
theorem inPos_resolveRef (ps : List Nat) (cs : List (HNet F)) (r : PinRef) : inPos ps (resolveRef cs r) = ps.contains r.1 := rfl

/-- a part of a flattened child, seen from the level: the child sits at position `i` -/
def liftPart (i : Nat) (p0 : List HPin × (HPin → HPin → F)) : List HPin × (HPin → HPin → F) :=
  (p0.1.map (pre i), fun q q' => p0.2 (unpre q) (unpre q'))

theorem mem_flat_node_parts (cs : List (HNet F)) (links : List (PinRef × PinRef)) (exposed : List (String × PinRef))
    (part : List HPin × (HPin → HPin → F)) :
    part ∈ (flat (.node cs links exposed)).parts ↔
      ∃ i h p0, cs[i]? = some h ∧ p0 ∈ (flat h).parts ∧ part = liftPart i p0 := by
  rw [flat_node]
  show part ∈ (flatAll cs 0).flatMap (·.parts) ↔ _
  rw [List.mem_flatMap]
  constructor
  · rintro ⟨A, hA, hp⟩
    obtain ⟨i, h, hi, rfl⟩ := (mem_flatAll cs 0 A).1 hA
    obtain ⟨p0, hp0, rfl⟩ := List.mem_map.1
      (show part ∈ (flat h).parts.map (fun part => (part.1.map (pre (0 + i)), fun q q' => part.2 (unpre q) (unpre q'))) from hp)
    refine ⟨i, h, p0, hi, hp0, ?_⟩
    rw [Nat.zero_add]; rfl
  · rintro ⟨i, h, p0, hi, hp0, rfl⟩
    refine ⟨_, (mem_flatAll cs 0 _).2 ⟨i, h, hi, rfl⟩, ?_⟩
    rw [Nat.zero_add]
    exact List.mem_map.2 ⟨p0, hp0, rfl⟩

theorem mem_flat_node_links (cs : List (HNet F)) (links : List (PinRef × PinRef)) (exposed : List (String × PinRef))
    (l : HPin × HPin) :
    l ∈ (flat (.node cs links exposed)).links ↔
      (∃ l0 ∈ links, l = (resolveRef cs l0.1, resolveRef cs l0.2)) ∨
      ∃ i h l0, cs[i]? = some h ∧ l0 ∈ (flat h).links ∧ l = (pre i l0.1, pre i l0.2) := by
  rw [flat_node]
  show l ∈ links.map (fun l => (resolveRef cs l.1, resolveRef cs l.2)) ++ (flatAll cs 0).flatMap (·.links) ↔ _
  rw [List.mem_append, List.mem_map, List.mem_flatMap]
  constructor
  · rintro (⟨l0, hl0, rfl⟩ | ⟨A, hA, hp⟩)
    · exact Or.inl ⟨l0, hl0, rfl⟩
    · obtain ⟨i, h, hi, rfl⟩ := (mem_flatAll cs 0 A).1 hA
      obtain ⟨l0, hl0, rfl⟩ := List.mem_map.1
        (show l ∈ (flat h).links.map (fun l => (pre (0 + i) l.1, pre (0 + i) l.2)) from hp)
      refine Or.inr ⟨i, h, l0, hi, hl0, ?_⟩
      rw [Nat.zero_add]
  · rintro (⟨l0, hl0, rfl⟩ | ⟨i, h, l0, hi, hl0, rfl⟩)
    · exact Or.inl ⟨l0, hl0, rfl⟩
    · refine Or.inr ⟨_, (mem_flatAll cs 0 _).2 ⟨i, h, hi, rfl⟩, ?_⟩
      rw [Nat.zero_add]
      exact List.mem_map.2 ⟨l0, hl0, rfl⟩

/-- the pieces of `subLevel` -/
def subCs (cs : List (HNet F)) (ps : List Nat) : List (HNet F) := ps.map fun i => cs.getD i (.node [] [] [])
def subLinks (links : List (PinRef × PinRef)) (g ps : List Nat) : List (PinRef × PinRef) :=
  (links.filter fun l => g.contains l.1.1 && g.contains l.2.1).map fun l => (reindex ps l.1, reindex ps l.2)
def subExp (exposed : List (String × PinRef)) (g ps : List Nat) : List (String × PinRef) :=
  (exposed.filter fun e => g.contains e.2.1).map fun e => (e.1, reindex ps e.2)

omit [Field F] [DecidableEq F] in
theorem subLevel_eq (cs : List (HNet F)) (links : List (PinRef × PinRef)) (exposed : List (String × PinRef)) (g : List Nat) :
    subLevel cs links exposed g =
      .node (subCs cs (positions cs.length g)) (subLinks links g (positions cs.length g))
        (subExp exposed g (positions cs.length g)) := rfl

/-- what the proofs below use about a set `g` of the union loop and its position list `ps` -/
structure Ctx (cs : List (HNet F)) (links : List (PinRef × PinRef)) (exposed : List (String × PinRef))
    (g ps : List Nat) : Prop where
  nodup : ps.Nodup
  lt : ∀ i ∈ ps, i < cs.length
  linkIn : ∀ l ∈ links, (g.contains l.1.1 && g.contains l.2.1) = ps.contains l.1.1
  linkEq : ∀ l ∈ links, ps.contains l.1.1 = ps.contains l.2.1
  expIn : ∀ e ∈ exposed, g.contains e.2.1 = ps.contains e.2.1

omit [Field F] [DecidableEq F] in
theorem ctx_of_group {cs : List (HNet F)} {links : List (PinRef × PinRef)} {exposed : List (String × PinRef)}
    (lev : LevelOK (cs.map pinNames) links exposed) (g : List Nat) (hg : g ∈ groups cs.length links) :
    Ctx cs links exposed g (positions cs.length g) := by
  have hc : ∀ i, i < cs.length → (positions cs.length g).contains i = g.contains i := by
    intro i hi
    rw [Bool.eq_iff_iff, List.contains_iff_mem, List.contains_iff_mem, mem_positions]
    exact ⟨fun h => h.2, fun h => ⟨hi, h⟩⟩
  have hend : ∀ l ∈ links, l.1.1 < cs.length ∧ l.2.1 < cs.length := by
    intro l hl
    obtain ⟨p1, h1, _⟩ := lev.endsPins l hl l.1 (Or.inl rfl)
    obtain ⟨p2, h2, _⟩ := lev.endsPins l hl l.2 (Or.inr rfl)
    exact ⟨lt_of_pinNames_get h1, lt_of_pinNames_get h2⟩
  have hcl : ∀ l ∈ links, g.contains l.1.1 = g.contains l.2.1 := by
    intro l hl
    rw [Bool.eq_iff_iff, List.contains_iff_mem, List.contains_iff_mem]
    exact groups_closed cs.length links g hg l hl (hend l hl).1 (hend l hl).2
  refine ⟨positions_nodup _ _, fun i hi => ((mem_positions _ _ _).1 hi).1, ?_, ?_, ?_⟩
  · intro l hl
    rw [hc _ (hend l hl).1, ← hcl l hl, Bool.and_self]
  · intro l hl
    rw [hc _ (hend l hl).1, hc _ (hend l hl).2, hcl l hl]
  · intro e he
    obtain ⟨p1, h1, _⟩ := lev.expPins e he
    rw [hc _ (lt_of_pinNames_get h1)]

section withCtx
variable {cs : List (HNet F)} {links : List (PinRef × PinRef)} {exposed : List (String × PinRef)} {g ps : List Nat}

omit [Field F] [DecidableEq F] in
theorem Ctx.mem_subLink (cx : Ctx cs links exposed g ps) (l : PinRef × PinRef) :
    l ∈ links.filter (fun l => g.contains l.1.1 && g.contains l.2.1) ↔ l ∈ links ∧ l.1.1 ∈ ps ∧ l.2.1 ∈ ps := by
  rw [List.mem_filter]
  constructor
  · rintro ⟨h1, h2⟩
    rw [cx.linkIn l h1] at h2
    exact ⟨h1, List.contains_iff_mem.1 h2, List.contains_iff_mem.1 (cx.linkEq l h1 ▸ h2)⟩
  · rintro ⟨h1, h2, _⟩
    exact ⟨h1, by rw [cx.linkIn l h1]; exact List.contains_iff_mem.2 h2⟩

omit [Field F] [DecidableEq F] in
theorem Ctx.mem_subExp (cx : Ctx cs links exposed g ps) (e : String × PinRef) :
    e ∈ exposed.filter (fun e => g.contains e.2.1) ↔ e ∈ exposed ∧ e.2.1 ∈ ps := by
  rw [List.mem_filter]
  constructor
  · rintro ⟨h1, h2⟩
    rw [cx.expIn e h1] at h2
    exact ⟨h1, List.contains_iff_mem.1 h2⟩
  · rintro ⟨h1, h2⟩
    exact ⟨h1, by rw [cx.expIn e h1]; exact List.contains_iff_mem.2 h2⟩

omit [Field F] [DecidableEq F] in
theorem subCs_idxOf (cx : Ctx cs links exposed g ps) (i : Nat) (hi : i ∈ ps) : (subCs cs ps)[ps.idxOf i]? = cs[i]? :=
  subChildren_idxOf cs ps cx.lt i hi

omit [Field F] [DecidableEq F] in
theorem subCs_get (cx : Ctx cs links exposed g ps) (j : Nat) (h : HNet F) :
    (subCs cs ps)[j]? = some h ↔ ∃ i, ps[j]? = some i ∧ cs[i]? = some h :=
  subChildren_get cs ps cx.lt j h

omit [Field F] [DecidableEq F] in
/-- a re-addressed reference resolves to the same leaf pin, under the position inside the set -/
theorem resolveRef_sub (cx : Ctx cs links exposed g ps) (r : PinRef) (hr : r.1 ∈ ps) :
    resolveRef (subCs cs ps) (reindex ps r) = pre (ps.idxOf r.1) (resolveAt cs r.1 r.2) := by
  unfold resolveRef reindex
  simp only
  rw [resolveAt_eq, resolveAt_eq, subCs_idxOf cx r.1 hr]

omit [Field F] [DecidableEq F] in
theorem up_resolveRef_sub (cx : Ctx cs links exposed g ps) (r : PinRef) (hr : r.1 ∈ ps) :
    upPin ps (resolveRef (subCs cs ps) (reindex ps r)) = resolveRef cs r := by
  rw [resolveRef_sub cx r hr, upPin_pre_of_get (getElem?_idxOf hr)]
  rfl

omit [Field F] [DecidableEq F] in
theorem down_resolveRef (cx : Ctx cs links exposed g ps) (r : PinRef) (hr : r.1 ∈ ps) :
    downPin ps (resolveRef cs r) = resolveRef (subCs cs ps) (reindex ps r) := by
  rw [resolveRef_sub cx r hr]
  rfl

/-- the renaming is undone on every pin the flattened sub-solver mentions -/
theorem sub_mentions (cx : Ctx cs links exposed g ps) (p : HPin)
    (hm : (flat (.node (subCs cs ps) (subLinks links g ps) (subExp exposed g ps))).Mentions p) :
    downPin ps (upPin ps p) = p := by
  have key : ∀ (j i : Nat) (p0 : HPin), ps[j]? = some i → downPin ps (upPin ps (pre j p0)) = pre j p0 :=
    fun j i p0 h => down_up cx.nodup h p0
  have keyR : ∀ r : PinRef, r.1 ∈ ps →
      downPin ps (upPin ps (resolveRef (subCs cs ps) (reindex ps r))) = resolveRef (subCs cs ps) (reindex ps r) := by
    intro r hr
    rw [resolveRef_sub cx r hr]
    exact key _ _ _ (getElem?_idxOf hr)
  rcases hm with ⟨part, hpart, hp⟩ | ⟨l, hl, hp⟩ | hp
  · obtain ⟨j, h, p0, hj, _, rfl⟩ := (mem_flat_node_parts _ _ _ _).1 hpart
    obtain ⟨p1, _, rfl⟩ := List.mem_map.1 (show p ∈ p0.1.map (pre j) from hp)
    obtain ⟨i, hi, _⟩ := (subCs_get cx j h).1 hj
    exact key j i p1 hi
  · rcases (mem_flat_node_links _ _ _ _).1 hl with ⟨l', hl', rfl⟩ | ⟨j, h, l0, hj, _, rfl⟩
    · obtain ⟨l0, hl0, rfl⟩ := List.mem_map.1 hl'
      obtain ⟨_, h1, h2⟩ := (cx.mem_subLink l0).1 hl0
      rcases hp with rfl | rfl
      · exact keyR _ h1
      · exact keyR _ h2
    · obtain ⟨i, hi, _⟩ := (subCs_get cx j h).1 hj
      rcases hp with rfl | rfl
      · exact key j i _ hi
      · exact key j i _ hi
  · rw [flat_node] at hp
    obtain ⟨e', he', rfl⟩ := List.mem_map.1 hp
    obtain ⟨e, he, rfl⟩ := List.mem_map.1 he'
    exact keyR e.2 ((cx.mem_subExp e).1 he).2

omit [Field F] [DecidableEq F] in
theorem up_liftPart {j i : Nat} (h : ps[j]? = some i) (p0 : List HPin × (HPin → HPin → F)) :
    (((liftPart j p0).1.map (upPin ps), fun q q' => (liftPart j p0).2 (downPin ps q) (downPin ps q')) :
      List HPin × (HPin → HPin → F)) = liftPart i p0 := by
  refine Prod.ext ?_ ?_
  · show (p0.1.map (pre j)).map (upPin ps) = p0.1.map (pre i)
    rw [List.map_map]
    apply List.map_congr_left
    intro p _
    exact upPin_pre_of_get h p
  · show (fun q q' => p0.2 (unpre (downPin ps q)) (unpre (downPin ps q'))) = fun q q' => p0.2 (unpre q) (unpre q')
    funext q q'
    rw [unpre_downPin, unpre_downPin]

/-- the parts (with pins) of the renamed flattened sub-solver are the parts of the flattened level under the set -/
theorem sub_parts (cx : Ctx cs links exposed g ps) (part : List HPin × (HPin → HPin → F)) (hne : part.1 ≠ []) :
    part ∈ ((flat (.node (subCs cs ps) (subLinks links g ps) (subExp exposed g ps))).map (upPin ps) (downPin ps)).parts ↔
    part ∈ ((flat (.node cs links exposed)).inside (inPos ps)).parts := by
  show part ∈ (flat (.node (subCs cs ps) (subLinks links g ps) (subExp exposed g ps))).parts.map
      (fun part => (part.1.map (upPin ps), fun q q' => part.2 (downPin ps q) (downPin ps q'))) ↔
    part ∈ (flat (.node cs links exposed)).parts.filter (fun part => part.1.any (inPos ps))
  rw [List.mem_map, List.mem_filter]
  constructor
  · rintro ⟨p', hp', rfl⟩
    obtain ⟨j, h, p0, hj, hp0, rfl⟩ := (mem_flat_node_parts _ _ _ _).1 hp'
    obtain ⟨i, hi, hci⟩ := (subCs_get cx j h).1 hj
    rw [up_liftPart hi p0] at hne ⊢
    refine ⟨(mem_flat_node_parts _ _ _ _).2 ⟨i, h, p0, hci, hp0, rfl⟩, ?_⟩
    obtain ⟨q, hq⟩ := List.exists_mem_of_ne_nil _ hne
    refine List.any_eq_true.2 ⟨q, hq, ?_⟩
    obtain ⟨q0, _, rfl⟩ := List.mem_map.1 (show q ∈ p0.1.map (pre i) from hq)
    rw [inPos_pre]
    exact List.contains_iff_mem.2 (List.mem_of_getElem? hi)
  · rintro ⟨hp, hany⟩
    obtain ⟨i, h, p0, hci, hp0, rfl⟩ := (mem_flat_node_parts _ _ _ _).1 hp
    obtain ⟨q, hq, hIq⟩ := List.any_eq_true.1 hany
    obtain ⟨q0, _, rfl⟩ := List.mem_map.1 (show q ∈ p0.1.map (pre i) from hq)
    rw [inPos_pre] at hIq
    have hi : i ∈ ps := List.contains_iff_mem.1 hIq
    refine ⟨liftPart (ps.idxOf i) p0, (mem_flat_node_parts _ _ _ _).2 ⟨ps.idxOf i, h, p0, ?_, hp0, rfl⟩,
      up_liftPart (getElem?_idxOf hi) p0⟩
    rw [subCs_idxOf cx i hi]; exact hci

/-- the same for the links -/
theorem sub_links (cx : Ctx cs links exposed g ps) (l : HPin × HPin) :
    l ∈ ((flat (.node (subCs cs ps) (subLinks links g ps) (subExp exposed g ps))).map (upPin ps) (downPin ps)).links ↔
    l ∈ ((flat (.node cs links exposed)).inside (inPos ps)).links := by
  show l ∈ (flat (.node (subCs cs ps) (subLinks links g ps) (subExp exposed g ps))).links.map
      (fun l => (upPin ps l.1, upPin ps l.2)) ↔
    l ∈ (flat (.node cs links exposed)).links.filter (fun l => inPos ps l.1)
  rw [List.mem_map, List.mem_filter]
  constructor
  · rintro ⟨l', hl', rfl⟩
    rcases (mem_flat_node_links _ _ _ _).1 hl' with ⟨l1, hl1, rfl⟩ | ⟨j, h, l0, hj, hl0, rfl⟩
    · obtain ⟨l0, hl0, rfl⟩ := List.mem_map.1 hl1
      obtain ⟨hin, h1, h2⟩ := (cx.mem_subLink l0).1 hl0
      simp only
      rw [up_resolveRef_sub cx l0.1 h1, up_resolveRef_sub cx l0.2 h2]
      exact ⟨(mem_flat_node_links _ _ _ _).2 (Or.inl ⟨l0, hin, rfl⟩), List.contains_iff_mem.2 h1⟩
    · obtain ⟨i, hi, hci⟩ := (subCs_get cx j h).1 hj
      simp only
      rw [upPin_pre_of_get hi, upPin_pre_of_get hi]
      exact ⟨(mem_flat_node_links _ _ _ _).2 (Or.inr ⟨i, h, l0, hci, hl0, rfl⟩),
        List.contains_iff_mem.2 (List.mem_of_getElem? hi)⟩
  · rintro ⟨hl, hI⟩
    rcases (mem_flat_node_links _ _ _ _).1 hl with ⟨l0, hl0, rfl⟩ | ⟨i, h, l0, hci, hl0, rfl⟩
    · have h1 : l0.1.1 ∈ ps := List.contains_iff_mem.1 hI
      have h2 : l0.2.1 ∈ ps := List.contains_iff_mem.1 (cx.linkEq l0 hl0 ▸ (show ps.contains l0.1.1 = true from hI))
      refine ⟨(resolveRef (subCs cs ps) (reindex ps l0.1), resolveRef (subCs cs ps) (reindex ps l0.2)),
        (mem_flat_node_links _ _ _ _).2 (Or.inl ⟨(reindex ps l0.1, reindex ps l0.2), ?_, rfl⟩), ?_⟩
      · exact List.mem_map.2 ⟨l0, (cx.mem_subLink l0).2 ⟨hl0, h1, h2⟩, rfl⟩
      · simp only
        rw [up_resolveRef_sub cx l0.1 h1, up_resolveRef_sub cx l0.2 h2]
    · have hi : i ∈ ps := List.contains_iff_mem.1 hI
      refine ⟨(pre (ps.idxOf i) l0.1, pre (ps.idxOf i) l0.2),
        (mem_flat_node_links _ _ _ _).2 (Or.inr ⟨ps.idxOf i, h, l0, ?_, hl0, rfl⟩), ?_⟩
      · rw [subCs_idxOf cx i hi]; exact hci
      · simp only
        rw [upPin_pre_of_get (getElem?_idxOf hi), upPin_pre_of_get (getElem?_idxOf hi)]

/-- and the exposed pins, in the same order -/
theorem sub_exposed (cx : Ctx cs links exposed g ps) :
    ((flat (.node (subCs cs ps) (subLinks links g ps) (subExp exposed g ps))).map (upPin ps) (downPin ps)).exposed =
    ((flat (.node cs links exposed)).inside (inPos ps)).exposed := by
  show (flat (.node (subCs cs ps) (subLinks links g ps) (subExp exposed g ps))).exposed.map (upPin ps) =
    (flat (.node cs links exposed)).exposed.filter (inPos ps)
  rw [flat_node, flat_node]
  show (((exposed.filter fun e => g.contains e.2.1).map fun e => (e.1, reindex ps e.2)).map
      fun e => resolveRef (subCs cs ps) e.2).map (upPin ps) =
    (exposed.map fun e => resolveRef cs e.2).filter (inPos ps)
  rw [List.filter_map, List.map_map, List.map_map]
  have hf : exposed.filter (inPos ps ∘ fun e => resolveRef cs e.2) = exposed.filter (fun e => g.contains e.2.1) := by
    apply List.filter_congr
    intro e he
    exact (cx.expIn e he).symm
  rw [hf]
  apply List.map_congr_left
  intro e he
  exact up_resolveRef_sub cx e.2 ((cx.mem_subExp e).1 he).2

/-- the set cuts the flattened level without cutting a part or a link -/
theorem flat_splits (cx : Ctx cs links exposed g ps) (closed : (flat (.node cs links exposed)).ClosedFree) :
    ANet.Splits (flat (.node cs links exposed)) (inPos ps) := by
  refine ⟨?_, ?_, closed.links, fun e he => (closed.exposed e he).1⟩
  · intro part hp p hpp q hq
    obtain ⟨i, h, p0, _, _, rfl⟩ := (mem_flat_node_parts _ _ _ _).1 hp
    obtain ⟨p1, _, rfl⟩ := List.mem_map.1 (show p ∈ p0.1.map (pre i) from hpp)
    obtain ⟨q1, _, rfl⟩ := List.mem_map.1 (show q ∈ p0.1.map (pre i) from hq)
    rfl
  · intro l hl
    rcases (mem_flat_node_links _ _ _ _).1 hl with ⟨l0, hl0, rfl⟩ | ⟨i, h, l0, _, _, rfl⟩
    · exact cx.linkEq l0 hl0
    · rfl

end withCtx
end flatSides
end HNet

/-! ### C12: every sub-solver returned by `split()` behaves like the original -/

namespace HNet
section mainThm
variable {F : Type} [Field F] [DecidableEq F]

omit [Field F] [DecidableEq F] in
theorem resolve_node_of_mem {cs : List (HNet F)} {links : List (PinRef × PinRef)} {exposed : List (String × PinRef)}
    (hn : (exposed.map (·.1)).Nodup) (e : String × PinRef) (he : e ∈ exposed) :
    resolve (.node cs links exposed) e.1 = resolveRef cs e.2 := by
  rw [resolve_node, lookupL_of_mem_nodup exposed e he hn]

omit [Field F] [DecidableEq F] in
theorem subExp_names (exposed : List (String × PinRef)) (g ps : List Nat) :
    (subExp exposed g ps).map (·.1) = (exposed.filter fun e => g.contains e.2.1).map (·.1) := by
  unfold subExp
  rw [List.map_map]; rfl

omit [Field F] [DecidableEq F] in
/-- the names a sub-solver exposes: the exposed names of the level whose pin lies in the set -/
theorem pinNames_subLevel (cs : List (HNet F)) (links : List (PinRef × PinRef)) (exposed : List (String × PinRef))
    (g : List Nat) :
    pinNames (subLevel cs links exposed g) = (exposed.filter fun e => g.contains e.2.1).map (·.1) := by
  rw [subLevel_eq]
  exact subExp_names exposed g _

/-- what the flattened level gives for one set of the union loop: the cut, and the exposed pins -/
theorem level_cut {cs : List (HNet F)} {links : List (PinRef × PinRef)} {exposed : List (String × PinRef)}
    (lev : LevelOK (cs.map pinNames) links exposed) {c : CompD F} {T : HPin → HPin → F}
    (hT : FlatInv (.node cs links exposed) c T) (hpins : c.pins = exposed.map (·.1)) :
    (flat (.node cs links exposed)).exposed.Nodup ∧
    (∀ e ∈ exposed, resolveRef cs e.2 ∈ (flat (.node cs links exposed)).exposed) ∧
    (∀ e ∈ exposed, ∀ e' ∈ exposed, T (resolveRef cs e.2) (resolveRef cs e'.2) = c.sem e.1 e'.1) := by
  refine ⟨?_, ?_, ?_⟩
  · rw [hT.exposed]
    exact List.Nodup.map_on (fun x hx y hy e => hT.inj x hx y hy e) (hpins ▸ lev.namesNodup)
  · intro e he
    rw [flat_node]
    exact List.mem_map.2 ⟨e, he, rfl⟩
  · intro e he e' he'
    have h1 : e.1 ∈ c.pins := by rw [hpins]; exact List.mem_map.2 ⟨e, he, rfl⟩
    have h2 : e'.1 ∈ c.pins := by rw [hpins]; exact List.mem_map.2 ⟨e', he', rfl⟩
    rw [← hT.coeff e.1 h1 e'.1 h2, resolve_node_of_mem lev.namesNodup e he, resolve_node_of_mem lev.namesNodup e' he']

/-- **(2a, 2b) one sub-solver**: the sub-solver of a set of the union loop exposes names of the level, and between every
two of them it returns the coefficient the level returns (any schedules) -/
theorem subLevel_behaves (s s' : List (St F) → Option (Nat × Nat)) (cs : List (HNet F))
    (links : List (PinRef × PinRef)) (exposed : List (String × PinRef)) (w : WFTree (.node cs links exposed))
    (c : CompD F) (hs : solveH s (.node cs links exposed) = .ok c)
    (g : List Nat) (hg : g ∈ groups cs.length links)
    (c' : CompD F) (hs' : solveH s' (subLevel cs links exposed g) = .ok c') :
    (∀ x ∈ c'.pins, x ∈ c.pins) ∧ ∀ x ∈ c'.pins, ∀ y ∈ c'.pins, c'.sem x y = c.sem x y := by
  have w' := w.subLevel g
  cases w with
  | node _ _ _ hch lev =>
  have wn : WFTree (HNet.node cs links exposed) := WFTree.node cs links exposed hch lev
  have cx := ctx_of_group lev g hg
  obtain ⟨T, hT⟩ := solveH_flatInv s (wn.levelsOK s) c hs
  obtain ⟨T', hT'⟩ := solveH_flatInv s' (w'.levelsOK s') c' hs'
  have hpins : c.pins = exposed.map (·.1) := solveH_pins s _ c hs
  have hpins' : c'.pins = (exposed.filter fun e => g.contains e.2.1).map (·.1) := by
    rw [solveH_pins s' _ c' hs', pinNames_subLevel]
  generalize hps : positions cs.length g = ps at cx
  have hT'' : FlatInv (.node (subCs cs ps) (subLinks links g ps) (subExp exposed g ps)) c' T' := by
    rw [← hps]; exact hT'
  have hnames' : ((subExp exposed g ps).map (·.1)).Nodup := by
    rw [subExp_names]
    exact List.Nodup.sublist (List.filter_sublist.map _) lev.namesNodup
  obtain ⟨hnd, hmem, hcoef⟩ := level_cut lev hT hpins
  -- the renamed operator of the sub-solver solves the inside of the cut
  have hsub : ((flat (.node cs links exposed)).inside (inPos ps)).SolvedBy
      (fun q q' => T' (downPin ps q) (downPin ps q')) :=
    ANet.solvedBy_of_sameNE _ _ (sub_parts cx) (sub_links cx) (sub_exposed cx ▸ List.Perm.refl _) _
      (ANet.map_solvedBy (sub_mentions cx) T' hT''.solved)
  have key := ANet.inside_behaves (flat_splits cx hT.closed) hnd T _ hT.solved hsub
  refine ⟨?_, ?_⟩
  · intro x hx
    rw [hpins'] at hx
    obtain ⟨e, he, rfl⟩ := List.mem_map.1 hx
    rw [hpins]
    exact List.mem_map.2 ⟨e, (List.mem_filter.1 he).1, rfl⟩
  · intro x hx y hy
    have hx' := hx
    have hy' := hy
    rw [hpins'] at hx hy
    obtain ⟨e, he, rfl⟩ := List.mem_map.1 hx
    obtain ⟨e2, he2, rfl⟩ := List.mem_map.1 hy
    obtain ⟨he0, hep⟩ := (cx.mem_subExp e).1 he
    obtain ⟨he20, he2p⟩ := (cx.mem_subExp e2).1 he2
    have r1 : resolve (.node (subCs cs ps) (subLinks links g ps) (subExp exposed g ps)) e.1 =
        resolveRef (subCs cs ps) (reindex ps e.2) :=
      resolve_node_of_mem hnames' (e.1, reindex ps e.2) (List.mem_map.2 ⟨e, he, rfl⟩)
    have r2 : resolve (.node (subCs cs ps) (subLinks links g ps) (subExp exposed g ps)) e2.1 =
        resolveRef (subCs cs ps) (reindex ps e2.2) :=
      resolve_node_of_mem hnames' (e2.1, reindex ps e2.2) (List.mem_map.2 ⟨e2, he2, rfl⟩)
    rw [← hT''.coeff e.1 hx' e2.1 hy', r1, r2, ← hcoef e he0 e2 he20,
      key _ (hmem e he0) _ (hmem e2 he20) (List.contains_iff_mem.2 hep) (List.contains_iff_mem.2 he2p)]
    show T' _ _ = T' (downPin ps (resolveRef cs e.2)) (downPin ps (resolveRef cs e2.2))
    rw [down_resolveRef cx e.2 hep, down_resolveRef cx e2.2 he2p]

/-- **(2c) one set against the rest**: the level has no coefficient between an exposed name whose pin lies in a set of
the union loop and an exposed name whose pin lies outside it -/
theorem level_across_zero (s : List (St F) → Option (Nat × Nat)) (cs : List (HNet F))
    (links : List (PinRef × PinRef)) (exposed : List (String × PinRef)) (w : WFTree (.node cs links exposed))
    (c : CompD F) (hs : solveH s (.node cs links exposed) = .ok c)
    (g : List Nat) (hg : g ∈ groups cs.length links)
    (e : String × PinRef) (he : e ∈ exposed) (e' : String × PinRef) (he' : e' ∈ exposed)
    (hin : e.2.1 ∈ g) (hout : e'.2.1 ∉ g) : c.sem e.1 e'.1 = 0 ∧ c.sem e'.1 e.1 = 0 := by
  cases w with
  | node _ _ _ hch lev =>
  have wn : WFTree (HNet.node cs links exposed) := WFTree.node cs links exposed hch lev
  have cx := ctx_of_group lev g hg
  obtain ⟨T, hT⟩ := solveH_flatInv s (wn.levelsOK s) c hs
  have hpins : c.pins = exposed.map (·.1) := solveH_pins s _ c hs
  obtain ⟨hnd, hmem, hcoef⟩ := level_cut lev hT hpins
  have i1 : inPos (positions cs.length g) (resolveRef cs e.2) = true := by
    rw [inPos_resolveRef, ← cx.expIn e he]; exact List.contains_iff_mem.2 hin
  have i2 : inPos (positions cs.length g) (resolveRef cs e'.2) = false := by
    rw [inPos_resolveRef, ← cx.expIn e' he', Bool.eq_false_iff]
    intro h; exact hout (List.contains_iff_mem.1 h)
  have key := ANet.across_zero (flat_splits cx hT.closed) hnd T hT.solved _ (hmem e he) _ (hmem e' he') i1 i2
  rw [← hcoef e he e' he', ← hcoef e' he' e he]
  exact key

/-- **C12, behavioural half (2a, 2b)**: `h` a well-formed circuit whose solve returns `c`; every sub-solver `split()`
returns, if its solve returns `c'` (any schedule), exposes names of `h` and has between every two of them the coefficient
`h` has -/
theorem split_behaves (s s' : List (St F) → Option (Nat × Nat)) (h : HNet F) (w : WFTree h)
    (c : CompD F) (hs : solveH s h = .ok c) (sub : HNet F) (hsub : sub ∈ splitLevel h)
    (c' : CompD F) (hs' : solveH s' sub = .ok c') :
    (∀ x ∈ c'.pins, x ∈ c.pins) ∧ ∀ x ∈ c'.pins, ∀ y ∈ c'.pins, c'.sem x y = c.sem x y := by
  cases h with
  | leaf c0 =>
    rw [List.mem_singleton.1 (show sub ∈ [HNet.leaf c0] from hsub), solveH_leaf] at hs'
    rw [solveH_leaf] at hs
    cases hs; cases hs'
    exact ⟨fun _ hx => hx, fun _ _ _ _ => rfl⟩
  | node cs links exposed =>
    obtain ⟨g, hg, rfl⟩ := List.mem_map.1 (show sub ∈ (groups cs.length links).map (subLevel cs links exposed) from hsub)
    exact subLevel_behaves s s' cs links exposed w c hs g hg c' hs'

/-- **C12, behavioural half (2c)**: names the sub-solvers of two different sets expose have no coefficient between them in
the original -/
theorem split_across_zero (s : List (St F) → Option (Nat × Nat)) (cs : List (HNet F))
    (links : List (PinRef × PinRef)) (exposed : List (String × PinRef)) (w : WFTree (.node cs links exposed))
    (c : CompD F) (hs : solveH s (.node cs links exposed) = .ok c)
    (g : List Nat) (hg : g ∈ groups cs.length links) (g' : List Nat) (hg' : g' ∈ groups cs.length links) (hne : g ≠ g')
    (x : String) (hx : x ∈ pinNames (subLevel cs links exposed g))
    (y : String) (hy : y ∈ pinNames (subLevel cs links exposed g')) : c.sem x y = 0 := by
  rw [pinNames_subLevel] at hx hy
  obtain ⟨e, he, rfl⟩ := List.mem_map.1 hx
  obtain ⟨e', he', rfl⟩ := List.mem_map.1 hy
  obtain ⟨he0, hin⟩ := List.mem_filter.1 he
  obtain ⟨he0', hin'⟩ := List.mem_filter.1 he'
  have hlt : e'.2.1 < cs.length := by
    cases w with
    | node _ _ _ _ lev =>
      obtain ⟨p1, h1, _⟩ := lev.expPins e' he0'
      exact lt_of_pinNames_get h1
  have hout : e'.2.1 ∉ g := fun h =>
    hne ((groups_partition cs.length links e'.2.1 hlt).2 g hg g' hg' h (List.contains_iff_mem.1 hin'))
  exact (level_across_zero s cs links exposed w c hs g hg e he0 e' he0' (List.contains_iff_mem.1 hin) hout).1

/-- non-vacuity: the level of the sanity check in `Core/HierSplit.lean` (three two-ports, the first two chained) is well
formed whatever the matrices, so the theorems above apply to it and to its two sub-solvers -/
example (c1 c2 c3 : CompD F) (h1 : c1.pins = ["a", "b"]) (h2 : c2.pins = ["a", "b"]) (h3 : c3.pins = ["a", "b"]) :
    WFTree (.node [.leaf c1, .leaf c2, .leaf c3] [((0, "b"), (1, "a"))]
      [("in", (0, "a")), ("x", (2, "a")), ("out", (1, "b")), ("y", (2, "b"))]) := by
  refine WFTree.node _ _ _ ?_ ?_
  · intro h hh
    simp only [List.mem_cons, List.not_mem_nil, or_false] at hh
    rcases hh with rfl | rfl | rfl <;> exact WFTree.leaf _
  · constructor <;> simp [pinNames, h1, h2, h3]

end mainThm
end HNet

/-! ### a connected level is returned as it is -/

namespace HNet
section connected
variable {F : Type}

/-- **`split()` of a connected level**: when the union loop leaves one set, the only sub-solver is the level itself
(same children in the same order, same links, same exposure) -/
theorem splitLevel_connected {cs : List (HNet F)} {links : List (PinRef × PinRef)} {exposed : List (String × PinRef)}
    (w : WFTree (.node cs links exposed)) (g : List Nat) (hone : groups cs.length links = [g]) :
    splitLevel (.node cs links exposed) = [.node cs links exposed] := by
  cases w with
  | node _ _ _ hch lev =>
  have hall : ∀ i, i < cs.length → i ∈ g := by
    intro i hi
    obtain ⟨g', hg', hin⟩ := (groups_partition cs.length links i hi).1
    rw [hone, List.mem_singleton] at hg'
    rw [← hg']; exact hin
  have hpos : positions cs.length g = List.range cs.length := by
    unfold positions
    rw [List.filter_eq_self]
    intro i hi
    exact List.contains_iff_mem.2 (hall i (List.mem_range.1 hi))
  have hidx : ∀ i, i < cs.length → (List.range cs.length).idxOf i = i := by
    intro i hi
    apply idxOf_of_getElem? List.nodup_range
    rw [List.getElem?_eq_getElem (by simpa using hi)]
    simp
  have hre : ∀ r : PinRef, r.1 < cs.length → reindex (List.range cs.length) r = r := by
    intro r hr
    exact Prod.ext (hidx r.1 hr) rfl
  have hend : ∀ l ∈ links, l.1.1 < cs.length ∧ l.2.1 < cs.length := by
    intro l hl
    obtain ⟨p1, h1, _⟩ := lev.endsPins l hl l.1 (Or.inl rfl)
    obtain ⟨p2, h2, _⟩ := lev.endsPins l hl l.2 (Or.inr rfl)
    exact ⟨lt_of_pinNames_get h1, lt_of_pinNames_get h2⟩
  have hexp : ∀ e ∈ exposed, e.2.1 < cs.length := by
    intro e he
    obtain ⟨p1, h1, _⟩ := lev.expPins e he
    exact lt_of_pinNames_get h1
  show (groups cs.length links).map (subLevel cs links exposed) = _
  rw [hone, List.map_cons, List.map_nil]
  congr 1
  unfold subLevel
  simp only
  rw [hpos]
  congr 1
  · apply List.ext_getElem
    · simp
    · intro i h1 h2
      have hi : i < cs.length := h2
      simp [List.getD_eq_getElem?_getD, hi]
  · have hf : links.filter (fun l => g.contains l.1.1 && g.contains l.2.1) = links := by
      rw [List.filter_eq_self]
      intro l hl
      rw [Bool.and_eq_true]
      exact ⟨List.contains_iff_mem.2 (hall _ (hend l hl).1), List.contains_iff_mem.2 (hall _ (hend l hl).2)⟩
    rw [hf]
    conv_rhs => rw [← List.map_id links]
    apply List.map_congr_left
    intro l hl
    rw [hre l.1 (hend l hl).1, hre l.2 (hend l hl).2]
    rfl
  · have hf : exposed.filter (fun e => g.contains e.2.1) = exposed := by
      rw [List.filter_eq_self]
      intro e he
      exact List.contains_iff_mem.2 (hall _ (hexp e he))
    rw [hf]
    conv_rhs => rw [← List.map_id exposed]
    apply List.map_congr_left
    intro e he
    rw [hre e.2 (hexp e he)]
    rfl

end connected
end HNet
