import LekkerVerif.Core.Monitor
import LekkerVerif.Core.RefineAdd
import LekkerVerif.Proofs.KernelTie

/-! Specification of the monitor path.

* Part 1: the executable `Monitor.intComplete?` (array-backed matrices, lists of amplitudes), seen through
  `Mat.toMatrix`, is the canonical pair of interface waves `SM.waves` of the Mathlib-level matrices, hence the kernel
  regenerated from the Python source (`Generated.intComplete`).
* Part 2: which links the read-out reports: `St.linkPins a b` lists, in the order of `a`'s connection table, exactly the
  symmetric connections from `a` into a member of `b`, and `Monitor.intermediate` reports precisely those. -/

open Matrix

/-! ### columns -/

namespace Mat
variable {F : Type} [Field F] [DecidableEq F]

/-- the column held by an `r × 1` Mathlib matrix -/
def colVec {r : Nat} (C : Matrix (Fin r) (Fin 1) F) : Fin r → F := fun i => C i 0

omit [DecidableEq F] in
theorem colVec_mul {r k : Nat} (P : Matrix (Fin r) (Fin k) F) (C : Matrix (Fin k) (Fin 1) F) :
    colVec (P * C) = P *ᵥ colVec C := by
  funext i
  simp [colVec, Matrix.mul_apply, Matrix.mulVec, dotProduct]

omit [DecidableEq F] in
theorem colVec_add {r : Nat} (C D : Matrix (Fin r) (Fin 1) F) : colVec (C + D) = colVec C + colVec D := rfl

/-- a list stored as a column -/
theorem colVec_list (v : List F) (n : Nat) :
    colVec ((⟨v.length, 1, v.toArray⟩ : Mat F).toMatrix n 1) = fun i : Fin n => v.getD i.1 0 := by
  funext i
  simp only [colVec, toMatrix, get]
  by_cases h : i.1 < v.length
  · rw [getElem!_pos _ _ (by simpa using h)]
    simp [List.getD_eq_getElem?_getD, h]
  · rw [getElem!_neg _ _ (by simpa using h)]
    rw [List.getD_eq_getElem?_getD, List.getElem?_eq_none (by omega)]
    rfl

/-- the data of an `r × 1` product, read as a list -/
theorem mul_toList_length (P Q : Mat F) : (mul P Q).d.toList.length = P.r * Q.c := by
  simp [mul, ofFn]

theorem toList_getD_col (M : Mat F) (hc : M.c = 1) (i : Nat) : M.d.toList.getD i 0 = M.get i 0 := by
  unfold get
  rw [hc]
  simp only [Nat.mul_one, Nat.add_zero]
  by_cases h : i < M.d.size
  · rw [getElem!_pos M.d i h]
    simp [List.getD_eq_getElem?_getD, h]
  · rw [getElem!_neg M.d i h, List.getD_eq_getElem?_getD, List.getElem?_eq_none (by simpa using h)]
    rfl

end Mat

/-! ### Part 1 : `int_complete` -/

namespace Monitor
variable {F : Type} [Field F] [DecidableEq F]

set_option linter.unusedVariables false in
/-- `hu`, `hd` (the excitations have the length of the outer ports) are kept for the intended reading; the proof does not
need them: a missing entry is read as `0` on both sides (`getD`, out-of-range array read). -/
theorem intComplete?_spec (A B : SMat F) (hA : A.WF) (hB : B.WF) (u d uo dd : List F)
    (hu : u.length = A.N) (hd : d.length = B.M) (h : intComplete? A B u d = .ok (uo, dd)) :
    A.M = B.N ∧ uo.length = A.M ∧ dd.length = A.M ∧
    IsUnit (1 - (A.toSM A.N A.M).S12 * (B.toSM A.M B.M).S21) ∧
    ((fun i : Fin A.M => uo.getD i.1 0), (fun i : Fin A.M => dd.getD i.1 0))
      = (A.toSM A.N A.M).waves (B.toSM A.M B.M) (fun i : Fin A.N => u.getD i.1 0)
          (fun i : Fin B.M => d.getD i.1 0) := by
  obtain ⟨a11r, a11c, a22r, a22c, a12r, a12c, a21r, a21c⟩ := hA
  obtain ⟨b11r, b11c, b22r, b22c, b12r, b12c, b21r, b21c⟩ := hB
  unfold intComplete? at h
  split at h
  · simp at h
  · rename_i hMN
    have hM : A.M = B.N := by simpa using hMN
    split at h
    · rename_i X Y hX hY
      have sX := Mat.inv?_spec _ X A.M (by simp) (by simp) hX
      have sY := Mat.inv?_spec _ Y A.M (by simp) (by simp) hY
      obtain ⟨xr, xc, xl, _⟩ := sX
      obtain ⟨yr, yc, yl, _⟩ := sY
      have eX : (Mat.sub (Mat.one A.M) (Mat.mul A.S12 B.S21)).toMatrix A.M A.M
          = 1 - A.S12.toMatrix A.M A.M * B.S21.toMatrix A.M A.M := by
        rw [Mat.toMatrix_sub' _ _ A.M A.M (by simp) (by simp), Mat.toMatrix_one,
          Mat.toMatrix_mul' _ _ A.M A.M A.M a12r a12c (by rw [b21c, hM])]
      have eY : (Mat.sub (Mat.one A.M) (Mat.mul B.S21 A.S12)).toMatrix A.M A.M
          = 1 - B.S21.toMatrix A.M A.M * A.S12.toMatrix A.M A.M := by
        rw [Mat.toMatrix_sub' _ _ A.M A.M (by simp) (by simp), Mat.toMatrix_one,
          Mat.toMatrix_mul' _ _ A.M A.M A.M (by rw [b21r, hM]) (by rw [b21c, hM]) a12c]
      rw [eX] at xl
      rw [eY] at yl
      have iX : X.toMatrix A.M A.M = (1 - A.S12.toMatrix A.M A.M * B.S21.toMatrix A.M A.M)⁻¹ :=
        (Matrix.inv_eq_right_inv xl).symm
      have iY : Y.toMatrix A.M A.M = (1 - B.S21.toMatrix A.M A.M * A.S12.toMatrix A.M A.M)⁻¹ :=
        (Matrix.inv_eq_right_inv yl).symm
      have uX : IsUnit (1 - A.S12.toMatrix A.M A.M * B.S21.toMatrix A.M A.M) :=
        (Matrix.isUnit_iff_isUnit_det _).2 (Matrix.isUnit_det_of_right_inverse xl)
      simp only [Except.ok.injEq, Prod.mk.injEq] at h
      obtain ⟨h1, h2⟩ := h
      subst h1 h2
      -- the two transported columns
      have eut : (Mat.mul A.S11 (⟨u.length, 1, u.toArray⟩ : Mat F)).toMatrix A.M 1
          = A.S11.toMatrix A.M A.N * (⟨u.length, 1, u.toArray⟩ : Mat F).toMatrix A.N 1 :=
        Mat.toMatrix_mul' _ _ A.M A.N 1 a11r a11c rfl
      have edt : (Mat.mul B.S22 (⟨d.length, 1, d.toArray⟩ : Mat F)).toMatrix A.M 1
          = B.S22.toMatrix A.M B.M * (⟨d.length, 1, d.toArray⟩ : Mat F).toMatrix B.M 1 :=
        Mat.toMatrix_mul' _ _ A.M B.M 1 (by rw [b22r, hM]) b22c rfl
      refine ⟨hM, ?_, ?_, uX, ?_⟩
      · rw [Mat.mul_toList_length]; simp [xr]
      · rw [Mat.mul_toList_length]; simp [yr]
      · simp only [SMat.toSM, SM.waves]
        refine Prod.ext ?_ ?_
        · show (fun i : Fin A.M => _) = _
          have : (fun i : Fin A.M => (Mat.mul X (Mat.add (Mat.mul A.S11 ⟨u.length, 1, u.toArray⟩)
              (Mat.mul A.S12 (Mat.mul B.S22 ⟨d.length, 1, d.toArray⟩)))).d.toList.getD i.1 0)
              = Mat.colVec ((Mat.mul X (Mat.add (Mat.mul A.S11 ⟨u.length, 1, u.toArray⟩)
              (Mat.mul A.S12 (Mat.mul B.S22 ⟨d.length, 1, d.toArray⟩)))).toMatrix A.M 1) := by
            funext i
            rw [Mat.toList_getD_col _ rfl]; rfl
          rw [this, Mat.toMatrix_mul' _ _ A.M A.M 1 xr xc rfl,
            Mat.toMatrix_add' _ _ A.M 1 (by simp [a11r]) rfl, eut,
            Mat.toMatrix_mul' _ _ A.M A.M 1 a12r a12c rfl, edt, iX,
            Mat.colVec_mul, Mat.colVec_add, Mat.colVec_mul, Mat.colVec_mul, Mat.colVec_mul,
            Mat.colVec_list, Mat.colVec_list, Matrix.mulVec_mulVec]
        · show (fun i : Fin A.M => _) = _
          have : (fun i : Fin A.M => (Mat.mul Y (Mat.add (Mat.mul B.S22 ⟨d.length, 1, d.toArray⟩)
              (Mat.mul B.S21 (Mat.mul A.S11 ⟨u.length, 1, u.toArray⟩)))).d.toList.getD i.1 0)
              = Mat.colVec ((Mat.mul Y (Mat.add (Mat.mul B.S22 ⟨d.length, 1, d.toArray⟩)
              (Mat.mul B.S21 (Mat.mul A.S11 ⟨u.length, 1, u.toArray⟩)))).toMatrix A.M 1) := by
            funext i
            rw [Mat.toList_getD_col _ rfl]; rfl
          rw [this, Mat.toMatrix_mul' _ _ A.M A.M 1 yr yc rfl,
            Mat.toMatrix_add' _ _ A.M 1 (by simp [b22r, hM]) rfl, edt,
            Mat.toMatrix_mul' _ _ A.M A.M 1 (by rw [b21r, hM]) (by rw [b21c, hM]) rfl, eut, iY,
            Mat.colVec_mul, Mat.colVec_add, Mat.colVec_mul, Mat.colVec_mul, Mat.colVec_mul,
            Mat.colVec_list, Mat.colVec_list, Matrix.mulVec_mulVec]
    · simp at h

/-- the executable `int_complete` computes the kernel regenerated from the Python source -/
theorem intComplete?_is_generated (A B : SMat F) (hA : A.WF) (hB : B.WF) (u d uo dd : List F)
    (hu : u.length = A.N) (hd : d.length = B.M) (h : intComplete? A B u d = .ok (uo, dd)) :
    ((fun i : Fin A.M => uo.getD i.1 0), (fun i : Fin A.M => dd.getD i.1 0))
      = Generated.intComplete (A.toSM A.N A.M) (B.toSM A.M B.M) (fun i : Fin A.N => u.getD i.1 0)
          (fun i : Fin B.M => d.getD i.1 0) := by
  rw [Generated.intComplete_eq]
  exact (intComplete?_spec A B hA hB u d uo dd hu hd h).2.2.2.2

end Monitor

/-! ### Part 2 : the links of the read-out -/

/-- a successful `mapM` in `Except` relates input and output pointwise -/
theorem List.mapM_except_ok {α β ε : Type} (f : α → Except ε β) :
    ∀ (l : List α) (r : List β), l.mapM f = .ok r → List.Forall₂ (fun x y => f x = .ok y) l r
  | [], r, h => by
    simp only [List.mapM_nil, pure, Except.pure, Except.ok.injEq] at h
    subst h; exact .nil
  | x :: xs, r, h => by
    rw [List.mapM_cons] at h
    cases hx : f x with
    | error e => simp [hx, bind, Except.bind] at h
    | ok y =>
      cases hxs : xs.mapM f with
      | error e => simp [hx, hxs, bind, Except.bind] at h
      | ok ys =>
        simp only [hx, hxs, bind, Except.bind, pure, Except.pure, Except.ok.injEq] at h
        subst h
        exact .cons hx (List.mapM_except_ok f xs ys hxs)

namespace St
-- none of these facts uses the arithmetic of `F` (they hold for any `F`, in particular under `[Scalar F]`)
variable {F : Type}

theorem mem_getOutTo (a b : St F) (p : PinRef) :
    p ∈ a.getOutTo b ↔ ∃ q, (p, q) ∈ a.conn ∧ b.group.contains q.1 = true := by
  unfold getOutTo
  simp only [List.mem_filterMap]
  constructor
  · rintro ⟨⟨p', q⟩, hm, hif⟩
    split at hif
    · rename_i hc
      simp only [Option.some.injEq] at hif
      subst hif
      exact ⟨q, hm, hc⟩
    · simp at hif
  · rintro ⟨q, hm, hc⟩
    exact ⟨(p, q), hm, by rw [if_pos hc]⟩

/-- what one successful step of the `mapM` of `linkPins` says -/
private theorem linkStep_ok (a b : St F) (p : PinRef) (y : PinRef × PinRef)
    (h : (match lookupL a.conn p with
      | none => (.error .keyError : Except Err (PinRef × PinRef))
      | some q => match lookupL b.conn q with
        | none => .error .keyError
        | some p' => if p' != p then .error .notSymmetric else .ok (p, q)) = .ok y) :
    y.1 = p ∧ lookupL a.conn y.1 = some y.2 ∧ lookupL b.conn y.2 = some y.1 := by
  split at h
  · simp at h
  · rename_i q hq
    split at h
    · simp at h
    · rename_i p' hp'
      split at h
      · simp at h
      · rename_i hne
        simp only [Except.ok.injEq] at h
        subst h
        have : p' = p := by simpa using hne
        subst this
        exact ⟨rfl, hq, hp'⟩

private theorem linkPins_forall (a b : St F) (links : List (PinRef × PinRef)) (h : St.linkPins a b = .ok links) :
    List.Forall₂ (fun p y => y.1 = p ∧ lookupL a.conn y.1 = some y.2 ∧ lookupL b.conn y.2 = some y.1)
      (a.getOutTo b) links := by
  unfold linkPins at h
  simp only at h
  split at h
  · simp at h
  · exact (List.mapM_except_ok _ _ _ h).imp fun p y hy => linkStep_ok a b p y hy

theorem linkPins_fst (a b : St F) (links : List (PinRef × PinRef)) (h : St.linkPins a b = .ok links) :
    links.map (·.1) = a.getOutTo b := by
  have := linkPins_forall a b links h
  generalize a.getOutTo b = out at this
  clear h
  induction this with
  | nil => rfl
  | cons hxy _ ih => simp [hxy.1, ih]

theorem linkPins_sound (a b : St F) (links : List (PinRef × PinRef)) (h : St.linkPins a b = .ok links) :
    ∀ l ∈ links, lookupL a.conn l.1 = some l.2 ∧ lookupL b.conn l.2 = some l.1 ∧ l.1 ∈ a.getOutTo b := by
  intro l hl
  have hf := linkPins_forall a b links h
  have hfst := linkPins_fst a b links h
  have hall : ∀ l ∈ links, lookupL a.conn l.1 = some l.2 ∧ lookupL b.conn l.2 = some l.1 := by
    generalize a.getOutTo b = out at hf
    clear hfst hl h
    induction hf with
    | nil => simp
    | cons hxy _ ih =>
      intro l hl
      rcases List.mem_cons.1 hl with rfl | hl
      · exact hxy.2
      · exact ih l hl
  refine ⟨(hall l hl).1, (hall l hl).2, ?_⟩
  rw [← hfst]
  exact List.mem_map_of_mem hl

end St

namespace Monitor
variable {F : Type} [Scalar F]

theorem intermediate_links (main mon : St F) (exc : PinRef → F) (r : Monitor.Readout F)
    (h : Monitor.intermediate main mon exc = .ok r) : St.linkPins main mon = .ok r.links := by
  unfold intermediate at h
  cases hl : St.linkPins main mon with
  | error e => simp [hl, bind, Except.bind] at h
  | ok links =>
    simp only [hl, bind, Except.bind, pure, Except.pure] at h
    repeat' split at h
    all_goals first
      | (simp only [Except.ok.injEq] at h; subst h; rfl)
      | simp at h

end Monitor
