import LekkerVerif.Core.Subst

/-! Two networks side by side without a link between them: the whole behaves, on the pins each side owns, like that
side alone, and nothing couples the two sides (C12: every sub-circuit returned by `split()` behaves like the original). -/

variable {F : Type*} [Field F]
variable {P : Type*} [DecidableEq P]

namespace ANet

/-- the two networks in one: all parts, all links, all exposed pins -/
def union (N₁ N₂ : ANet P F) : ANet P F :=
  { parts := N₁.parts ++ N₂.parts, links := N₁.links ++ N₂.links, exposed := N₁.exposed ++ N₂.exposed }

/-- the two sides do not touch: no common pin, links and exposed pins stay on their own side -/
structure Apart (N₁ N₂ : ANet P F) : Prop where
  disjoint : ∀ p, N₁.pinSet p → ¬ N₂.pinSet p
  links₁ : ∀ l ∈ N₁.links, N₁.pinSet l.1 ∧ N₁.pinSet l.2
  links₂ : ∀ l ∈ N₂.links, N₂.pinSet l.1 ∧ N₂.pinSet l.2
  exp₁ : ∀ e ∈ N₁.exposed, N₁.pinSet e
  exp₂ : ∀ e ∈ N₂.exposed, N₂.pinSet e

variable {N₁ N₂ : ANet P F}

theorem union_lnk_iff (p q : P) : (union N₁ N₂).Lnk p q ↔ (N₁.Lnk p q ∨ N₂.Lnk p q) := by
  unfold Lnk union
  simp only [List.mem_append]
  constructor
  · rintro ((h | h) | (h | h))
    · exact Or.inl (Or.inl h)
    · exact Or.inr (Or.inl h)
    · exact Or.inl (Or.inr h)
    · exact Or.inr (Or.inr h)
  · rintro ((h | h) | (h | h))
    · exact Or.inl (Or.inl h)
    · exact Or.inr (Or.inl h)
    · exact Or.inl (Or.inr h)
    · exact Or.inr (Or.inr h)

/-- a solution of the whole is a solution of each side -/
theorem sol_left_of_union (ap : Apart N₁ N₂) (a b : P → F) (h : (union N₁ N₂).Sol a b) : N₁.Sol a b := by
  refine ⟨fun part hp => h.comp part (List.mem_append_left _ hp), fun l hl => h.link l (List.mem_append_left _ hl), ?_⟩
  intro part hp p hpp hfree hne
  have hin : N₁.pinSet p := ⟨part, hp, hpp⟩
  apply h.free part (List.mem_append_left _ hp) p hpp
  · intro q hq
    rcases (union_lnk_iff p q).1 hq with hq | hq
    · exact hfree q hq
    · rcases hq with hq | hq
      · exact ap.disjoint p hin (ap.links₂ _ hq).1
      · exact ap.disjoint p hin (ap.links₂ _ hq).2
  · intro hE
    rcases List.mem_append.1 hE with hE | hE
    · exact hne hE
    · exact ap.disjoint p hin (ap.exp₂ p hE)

theorem sol_right_of_union (ap : Apart N₁ N₂) (a b : P → F) (h : (union N₁ N₂).Sol a b) : N₂.Sol a b := by
  refine ⟨fun part hp => h.comp part (List.mem_append_right _ hp), fun l hl => h.link l (List.mem_append_right _ hl), ?_⟩
  intro part hp p hpp hfree hne
  have hin : N₂.pinSet p := ⟨part, hp, hpp⟩
  apply h.free part (List.mem_append_right _ hp) p hpp
  · intro q hq
    rcases (union_lnk_iff p q).1 hq with hq | hq
    · rcases hq with hq | hq
      · exact ap.disjoint p (ap.links₁ _ hq).1 hin
      · exact ap.disjoint p (ap.links₁ _ hq).2 hin
    · exact hfree q hq
  · intro hE
    rcases List.mem_append.1 hE with hE | hE
    · exact ap.disjoint p (ap.exp₁ p hE) hin
    · exact hne hE

/-- solutions of the two sides glue to a solution of the whole -/
theorem sol_union_of_sides (ap : Apart N₁ N₂) (a₁ b₁ a₂ b₂ : P → F) (h₁ : N₁.Sol a₁ b₁) (h₂ : N₂.Sol a₂ b₂) :
    ∃ a b, (union N₁ N₂).Sol a b ∧ (∀ p, N₁.pinSet p → a p = a₁ p ∧ b p = b₁ p) ∧ (∀ p, N₂.pinSet p → a p = a₂ p ∧ b p = b₂ p) := by
  classical
  refine ⟨fun p => if N₁.pinSet p then a₁ p else a₂ p, fun p => if N₁.pinSet p then b₁ p else b₂ p, ?_, ?_, ?_⟩
  · refine ⟨?_, ?_, ?_⟩
    · intro part hp
      rcases List.mem_append.1 hp with hp | hp
      · intro p hpp
        show (if N₁.pinSet p then b₁ p else b₂ p) = _
        rw [if_pos ⟨part, hp, hpp⟩, h₁.comp part hp p hpp]
        apply rowSum_congr
        intro q hq; rw [if_pos ⟨part, hp, hq⟩]
      · intro p hpp
        have hn : ∀ q ∈ part.1, ¬ N₁.pinSet q := fun q hq h1 => ap.disjoint q h1 ⟨part, hp, hq⟩
        show (if N₁.pinSet p then b₁ p else b₂ p) = _
        rw [if_neg (hn p hpp), h₂.comp part hp p hpp]
        apply rowSum_congr
        intro q hq; rw [if_neg (hn q hq)]
    · intro l hl
      show (if N₁.pinSet l.1 then a₁ l.1 else a₂ l.1) = (if N₁.pinSet l.2 then b₁ l.2 else b₂ l.2) ∧
        (if N₁.pinSet l.2 then a₁ l.2 else a₂ l.2) = (if N₁.pinSet l.1 then b₁ l.1 else b₂ l.1)
      rcases List.mem_append.1 hl with hl | hl
      · obtain ⟨i1, i2⟩ := ap.links₁ l hl
        rw [if_pos i1, if_pos i2, if_pos i1, if_pos i2]; exact h₁.link l hl
      · obtain ⟨i1, i2⟩ := ap.links₂ l hl
        have n1 : ¬ N₁.pinSet l.1 := fun h => ap.disjoint _ h i1
        have n2 : ¬ N₁.pinSet l.2 := fun h => ap.disjoint _ h i2
        rw [if_neg n1, if_neg n2, if_neg n1, if_neg n2]; exact h₂.link l hl
    · intro part hp p hpp hfree hne
      have hfree₁ : ∀ q, ¬ N₁.Lnk p q := fun q hq => hfree q ((union_lnk_iff p q).2 (Or.inl hq))
      have hfree₂ : ∀ q, ¬ N₂.Lnk p q := fun q hq => hfree q ((union_lnk_iff p q).2 (Or.inr hq))
      show (if N₁.pinSet p then a₁ p else a₂ p) = 0
      rcases List.mem_append.1 hp with hp | hp
      · rw [if_pos ⟨part, hp, hpp⟩]
        exact h₁.free part hp p hpp hfree₁ (fun h => hne (List.mem_append_left _ h))
      · rw [if_neg (fun h1 => ap.disjoint p h1 ⟨part, hp, hpp⟩)]
        exact h₂.free part hp p hpp hfree₂ (fun h => hne (List.mem_append_right _ h))
  · intro p hp; simp [hp]
  · intro p hp
    have : ¬ N₁.pinSet p := fun h => ap.disjoint p h hp
    simp [this]

/-- the operator of the whole: each side's operator on its own pins, zero across -/
def sumOp (N₁ : ANet P F) (T₁ T₂ : P → P → F) [∀ p, Decidable (N₁.pinSet p)] (e y : P) : F :=
  if N₁.pinSet e then (if N₁.pinSet y then T₁ e y else 0) else (if N₁.pinSet y then 0 else T₂ e y)

theorem rowSum_zero (pins : List P) (S : P → P → F) (a : P → F) (p : P) (h : ∀ q ∈ pins, S p q = 0) :
    rowSum pins S a p = 0 := by
  unfold rowSum
  apply List.sum_eq_zero
  intro x hx
  obtain ⟨q, hq, rfl⟩ := List.mem_map.1 hx
  rw [h q hq, zero_mul]

/-- **disconnected sub-circuits are independent**: if `T₁`, `T₂` are the solution operators of the two sides, the whole
is solved by `T₁` on the pins of the first side, `T₂` on the pins of the second, and zero between them -/
theorem union_solvedBy (ap : Apart N₁ N₂) (T₁ T₂ : P → P → F) (h₁ : N₁.SolvedBy T₁) (h₂ : N₂.SolvedBy T₂)
    [∀ p, Decidable (N₁.pinSet p)] : (union N₁ N₂).SolvedBy (sumOp N₁ T₁ T₂) := by
  constructor
  · intro a b h e he
    show b e = rowSum (N₁.exposed ++ N₂.exposed) (sumOp N₁ T₁ T₂) a e
    rw [rowSum_append]
    rcases List.mem_append.1 he with he | he
    · have hin := ap.exp₁ e he
      rw [h₁.1 a b (sol_left_of_union ap a b h) e he]
      have z : rowSum N₂.exposed (sumOp N₁ T₁ T₂) a e = 0 := by
        apply rowSum_zero
        intro q hq
        have : ¬ N₁.pinSet q := fun h1 => ap.disjoint q h1 (ap.exp₂ q hq)
        simp [sumOp, hin, this]
      rw [z, add_zero]
      apply rowSum_congrS
      intro q hq
      simp [sumOp, hin, ap.exp₁ q hq]
    · have hin := ap.exp₂ e he
      have hn : ¬ N₁.pinSet e := fun h1 => ap.disjoint e h1 hin
      rw [h₂.1 a b (sol_right_of_union ap a b h) e he]
      have z : rowSum N₁.exposed (sumOp N₁ T₁ T₂) a e = 0 := by
        apply rowSum_zero
        intro q hq
        simp [sumOp, hn, ap.exp₁ q hq]
      rw [z, zero_add]
      apply rowSum_congrS
      intro q hq
      have : ¬ N₁.pinSet q := fun h1 => ap.disjoint q h1 (ap.exp₂ q hq)
      simp [sumOp, hn, this]
  · intro v
    obtain ⟨a₁, b₁, s₁, v₁⟩ := h₁.2 v
    obtain ⟨a₂, b₂, s₂, v₂⟩ := h₂.2 v
    obtain ⟨a, b, hs, g₁, g₂⟩ := sol_union_of_sides ap a₁ b₁ a₂ b₂ s₁ s₂
    refine ⟨a, b, hs, ?_⟩
    intro e he
    rcases List.mem_append.1 he with he | he
    · rw [(g₁ e (ap.exp₁ e he)).1]; exact v₁ e he
    · rw [(g₂ e (ap.exp₂ e he)).1]; exact v₂ e he


theorem sum_indicator' (E : List P) (hn : E.Nodup) (f : P → F) (y : P) (hy : y ∈ E) :
    (E.map fun e => f e * (if e = y then (1 : F) else 0)).sum = f y := by
  induction E with
  | nil => cases hy
  | cons e es ih =>
    obtain ⟨hne, hnes⟩ := List.nodup_cons.1 hn
    simp only [List.map_cons, List.sum_cons]
    rcases List.mem_cons.1 hy with rfl | hy
    · have : (es.map fun e => f e * (if e = y then (1 : F) else 0)).sum = 0 := by
        apply List.sum_eq_zero
        intro z hz
        obtain ⟨e', he', rfl⟩ := List.mem_map.1 hz
        have : e' ≠ y := fun h => hne (h ▸ he')
        simp [this]
      rw [this]; simp
    · have : e ≠ y := fun h => hne (h ▸ hy)
      rw [ih hnes hy]; simp [this]

/-- the solution operator of a network is unique on its exposed pins -/
theorem solvedBy_unique (N : ANet P F) (hn : N.exposed.Nodup) (T T' : P → P → F) (h : N.SolvedBy T) (h' : N.SolvedBy T') :
    ∀ x ∈ N.exposed, ∀ y ∈ N.exposed, T x y = T' x y := by
  intro x hx y hy
  obtain ⟨a, b, hs, hv⟩ := h.2 (fun p => if p = y then 1 else 0)
  have r := h.1 a b hs x hx
  have r' := h'.1 a b hs x hx
  have e : ∀ U : P → P → F, rowSum N.exposed U a x = U x y := by
    intro U
    unfold rowSum
    rw [← sum_indicator' N.exposed hn (fun q => U x q) y hy]
    congr 1
    apply List.map_congr_left
    intro e he
    rw [hv e he]
  rw [← e T, ← e T', ← r, ← r']

/-- **each sub-circuit behaves like the original** (C12): whatever operator `T` solves the whole circuit, on the pins the
first side owns it is that side's own operator, and it does not couple the two sides -/
theorem component_behaves (ap : Apart N₁ N₂) (hn : (N₁.exposed ++ N₂.exposed).Nodup) (T T₁ T₂ : P → P → F)
    (h₁ : N₁.SolvedBy T₁) (h₂ : N₂.SolvedBy T₂) (hT : (union N₁ N₂).SolvedBy T) :
    (∀ x ∈ N₁.exposed, ∀ y ∈ N₁.exposed, T x y = T₁ x y) ∧ (∀ x ∈ N₂.exposed, ∀ y ∈ N₂.exposed, T x y = T₂ x y) ∧
    (∀ x ∈ N₁.exposed, ∀ y ∈ N₂.exposed, T x y = 0 ∧ T y x = 0) := by
  classical
  have hu := union_solvedBy ap T₁ T₂ h₁ h₂
  have key := solvedBy_unique (union N₁ N₂) hn T (sumOp N₁ T₁ T₂) hT hu
  refine ⟨?_, ?_, ?_⟩
  · intro x hx y hy
    rw [key x (List.mem_append_left _ hx) y (List.mem_append_left _ hy)]
    simp [sumOp, ap.exp₁ x hx, ap.exp₁ y hy]
  · intro x hx y hy
    have nx : ¬ N₁.pinSet x := fun h => ap.disjoint x h (ap.exp₂ x hx)
    have ny : ¬ N₁.pinSet y := fun h => ap.disjoint y h (ap.exp₂ y hy)
    rw [key x (List.mem_append_right _ hx) y (List.mem_append_right _ hy)]
    simp [sumOp, nx, ny]
  · intro x hx y hy
    have ny : ¬ N₁.pinSet y := fun h => ap.disjoint y h (ap.exp₂ y hy)
    constructor
    · rw [key x (List.mem_append_left _ hx) y (List.mem_append_right _ hy)]
      simp [sumOp, ap.exp₁ x hx, ny]
    · rw [key y (List.mem_append_right _ hy) x (List.mem_append_left _ hx)]
      simp [sumOp, ap.exp₁ x hx, ny]

end ANet
