import LekkerVerif.Core.KernelDefs

open Matrix

variable {F : Type*} [Field F]
variable {n k m : Type*} [Fintype n] [Fintype k] [Fintype m] [DecidableEq n] [DecidableEq k] [DecidableEq m]

/-- hand-written canonical form of `S_matrix.add` (the regenerated definition `Generated.add` is proved equal to it in `Proofs/KernelTie.lean`) -/
noncomputable def SM.add (A : SM F n k) (B : SM F k m) : SM F n m :=
  let T1 := B.S11 * (1 - A.S12 * B.S21)⁻¹
  let T2 := A.S22 * (1 - B.S21 * A.S12)⁻¹
  { S21 := A.S21 + T2 * B.S21 * A.S11
    S11 := T1 * A.S11
    S12 := B.S12 + T1 * A.S12 * B.S22
    S22 := T2 * B.S22 }

def PairEq (A : SM F n k) (B : SM F k m) (u : n → F) (d : m → F) (rA : n → F) (rB : m → F) (f g : k → F) : Prop :=
  rA = A.S21 *ᵥ u + A.S22 *ᵥ g ∧ f = A.S11 *ᵥ u + A.S12 *ᵥ g ∧
  g = B.S21 *ᵥ f + B.S22 *ᵥ d ∧ rB = B.S11 *ᵥ f + B.S12 *ᵥ d

theorem isUnit_swap (X : Matrix k k F) (Y : Matrix k k F) (h : IsUnit (1 - X * Y)) : IsUnit (1 - Y * X) := by
  have := (Matrix.isUnit_iff_isUnit_det _).1 h
  rw [Matrix.isUnit_iff_isUnit_det]
  rwa [Matrix.det_one_sub_mul_comm] at this

theorem solve_lin (M : Matrix k k F) (h : IsUnit M) (x y : k → F) (hx : M *ᵥ x = y) : x = M⁻¹ *ᵥ y := by
  rw [← hx, Matrix.mulVec_mulVec, Matrix.nonsing_inv_mul _ ((Matrix.isUnit_iff_isUnit_det _).1 h), Matrix.one_mulVec]

theorem star_sound (A : SM F n k) (B : SM F k m) (h : IsUnit (1 - A.S12 * B.S21))
    (u : n → F) (d : m → F) (rA : n → F) (rB : m → F) (f g : k → F)
    (he : PairEq A B u d rA rB f g) :
    rA = (A.add B).S21 *ᵥ u + (A.add B).S22 *ᵥ d ∧ rB = (A.add B).S11 *ᵥ u + (A.add B).S12 *ᵥ d := by
  obtain ⟨h1, h2, h3, h4⟩ := he
  have h' := isUnit_swap _ _ h
  have hf : f = (1 - A.S12 * B.S21)⁻¹ *ᵥ (A.S11 *ᵥ u + (A.S12 * B.S22) *ᵥ d) := by
    apply solve_lin _ h
    rw [Matrix.sub_mulVec, Matrix.one_mulVec, ← Matrix.mulVec_mulVec, ← Matrix.mulVec_mulVec]
    nth_rewrite 1 [h2]
    nth_rewrite 1 [h3]
    simp only [Matrix.mulVec_add]
    abel
  have hg : g = (1 - B.S21 * A.S12)⁻¹ *ᵥ (B.S22 *ᵥ d + (B.S21 * A.S11) *ᵥ u) := by
    apply solve_lin _ h'
    rw [Matrix.sub_mulVec, Matrix.one_mulVec, ← Matrix.mulVec_mulVec, ← Matrix.mulVec_mulVec]
    nth_rewrite 1 [h3]
    nth_rewrite 1 [h2]
    simp only [Matrix.mulVec_add]
    abel
  constructor
  · rw [h1, hg]
    simp only [SM.add, Matrix.mulVec_add, Matrix.add_mulVec, Matrix.mulVec_mulVec, Matrix.mul_assoc]
    abel
  · rw [h4, hf]
    simp only [SM.add, Matrix.mulVec_add, Matrix.add_mulVec, Matrix.mulVec_mulVec, Matrix.mul_assoc]
    abel

/-- completeness: for every excitation the pair equations have a solution, and its outputs are the star formulas -/
theorem star_complete (A : SM F n k) (B : SM F k m) (h : IsUnit (1 - A.S12 * B.S21))
    (u : n → F) (d : m → F) :
    ∃ f g, PairEq A B u d ((A.add B).S21 *ᵥ u + (A.add B).S22 *ᵥ d) ((A.add B).S11 *ᵥ u + (A.add B).S12 *ᵥ d) f g := by
  have hd := (Matrix.isUnit_iff_isUnit_det _).1 h
  let f := (1 - A.S12 * B.S21)⁻¹ *ᵥ (A.S11 *ᵥ u + (A.S12 * B.S22) *ᵥ d)
  let g := B.S21 *ᵥ f + B.S22 *ᵥ d
  have h2 : f = A.S11 *ᵥ u + A.S12 *ᵥ g := by
    have hx : (1 - A.S12 * B.S21) *ᵥ f = A.S11 *ᵥ u + (A.S12 * B.S22) *ᵥ d := by
      show (1 - A.S12 * B.S21) *ᵥ ((1 - A.S12 * B.S21)⁻¹ *ᵥ _) = _
      rw [Matrix.mulVec_mulVec, Matrix.mul_nonsing_inv _ hd, Matrix.one_mulVec]
    rw [Matrix.sub_mulVec, Matrix.one_mulVec, ← Matrix.mulVec_mulVec] at hx
    show f = A.S11 *ᵥ u + A.S12 *ᵥ (B.S21 *ᵥ f + B.S22 *ᵥ d)
    rw [← Matrix.mulVec_mulVec] at hx
    rw [Matrix.mulVec_add]
    rw [sub_eq_iff_eq_add] at hx
    exact hx.trans (by abel)
  have pe : PairEq A B u d (A.S21 *ᵥ u + A.S22 *ᵥ g) (B.S11 *ᵥ f + B.S12 *ᵥ d) f g := ⟨rfl, h2, rfl, rfl⟩
  obtain ⟨e1, e2⟩ := star_sound A B h u d _ _ f g pe
  exact ⟨f, g, by rw [← e1, ← e2]; exact pe⟩

/-- the interface waves are determined by the excitation (uniqueness) -/
theorem star_waves (A : SM F n k) (B : SM F k m) (h : IsUnit (1 - A.S12 * B.S21))
    (u : n → F) (d : m → F) (rA : n → F) (rB : m → F) (f g : k → F) (he : PairEq A B u d rA rB f g) :
    f = (1 - A.S12 * B.S21)⁻¹ *ᵥ (A.S11 *ᵥ u + (A.S12 * B.S22) *ᵥ d) ∧
    g = (1 - B.S21 * A.S12)⁻¹ *ᵥ (B.S22 *ᵥ d + (B.S21 * A.S11) *ᵥ u) := by
  obtain ⟨h1, h2, h3, h4⟩ := he
  have h' := isUnit_swap _ _ h
  constructor
  · apply solve_lin _ h
    rw [Matrix.sub_mulVec, Matrix.one_mulVec, ← Matrix.mulVec_mulVec, ← Matrix.mulVec_mulVec]
    nth_rewrite 1 [h2]
    nth_rewrite 1 [h3]
    simp only [Matrix.mulVec_add]
    abel
  · apply solve_lin _ h'
    rw [Matrix.sub_mulVec, Matrix.one_mulVec, ← Matrix.mulVec_mulVec, ← Matrix.mulVec_mulVec]
    nth_rewrite 1 [h3]
    nth_rewrite 1 [h2]
    simp only [Matrix.mulVec_add]
    abel

/-! ### matrices are determined by their action -/

theorem eq_of_mulVec_eq {p q : Type*} [Fintype q] [DecidableEq q] (M N : Matrix p q F)
    (h : ∀ v : q → F, M *ᵥ v = N *ᵥ v) : M = N := by
  ext i j
  have := congrFun (h (Pi.single j 1)) i
  simpa [Matrix.mulVec_single_one] using this

/-- two partitioned matrices with the same input/output behaviour are equal -/
theorem SM.ext_of_action {X Y : SM F n m}
    (h : ∀ (u : n → F) (d : m → F),
      X.S21 *ᵥ u + X.S22 *ᵥ d = Y.S21 *ᵥ u + Y.S22 *ᵥ d ∧ X.S11 *ᵥ u + X.S12 *ᵥ d = Y.S11 *ᵥ u + Y.S12 *ᵥ d) :
    X = Y := by
  have h21 : X.S21 = Y.S21 := eq_of_mulVec_eq _ _ fun u => by simpa using (h u 0).1
  have h22 : X.S22 = Y.S22 := eq_of_mulVec_eq _ _ fun d => by simpa using (h 0 d).1
  have h11 : X.S11 = Y.S11 := eq_of_mulVec_eq _ _ fun u => by simpa using (h u 0).2
  have h12 : X.S12 = Y.S12 := eq_of_mulVec_eq _ _ fun d => by simpa using (h 0 d).2
  cases X; cases Y; simp_all

variable {l : Type*} [Fintype l] [DecidableEq l]

/-- associativity, whenever the four inner systems are invertible -/
theorem star_assoc (A : SM F n k) (B : SM F k l) (C : SM F l m)
    (hAB : IsUnit (1 - A.S12 * B.S21)) (hABC : IsUnit (1 - (A.add B).S12 * C.S21))
    (hBC : IsUnit (1 - B.S12 * C.S21)) (hA_BC : IsUnit (1 - A.S12 * (B.add C).S21)) :
    (A.add B).add C = A.add (B.add C) := by
  apply SM.ext_of_action
  intro u d
  -- a solution of (A⋆B, C)
  obtain ⟨f2, g2, e1, e2, e3, e4⟩ := star_complete (A.add B) C hABC u d
  -- open A⋆B with inputs (u, g2): its outputs are the left-hand sides of e1, e2
  obtain ⟨f1, g1, p1, p2, p3, p4⟩ := star_complete A B hAB u g2
  -- regroup: (B, C) with inputs (f1, d)
  have pBC : PairEq B C f1 d g1 ((((A.add B).add C).S11 *ᵥ u + ((A.add B).add C).S12 *ᵥ d)) f2 g2 := by
    refine ⟨p3, ?_, e3, e4⟩
    rw [e2]; exact p4
  obtain ⟨q1, q2⟩ := star_sound B C hBC f1 d _ _ f2 g2 pBC
  -- (A, B⋆C) with inputs (u, d)
  have pA : PairEq A (B.add C) u d (((A.add B).add C).S21 *ᵥ u + ((A.add B).add C).S22 *ᵥ d)
      (((A.add B).add C).S11 *ᵥ u + ((A.add B).add C).S12 *ᵥ d) f1 g1 := by
    refine ⟨?_, p2, q1, q2⟩
    rw [e1]; exact p1
  exact star_sound A (B.add C) hA_BC u d _ _ f1 g1 pA


/-! ### neutral element -/

/-- the reflectionless through-connection -/
def SM.through (κ : Type*) [DecidableEq κ] : SM F κ κ := { S11 := 1, S22 := 1, S12 := 0, S21 := 0 }

theorem star_through_right (A : SM F n k) : A.add (SM.through k) = A := by
  cases A
  simp [SM.add, SM.through]

theorem star_through_left (B : SM F k m) : (SM.through k).add B = B := by
  cases B
  simp [SM.add, SM.through]

/-! ### reciprocity -/

/-- a partitioned matrix is reciprocal when the assembled matrix `[[S21,S22],[S11,S12]]` is symmetric -/
def SM.Reciprocal (A : SM F n m) : Prop := A.S21ᵀ = A.S21 ∧ A.S12ᵀ = A.S12 ∧ A.S22ᵀ = A.S11

omit [DecidableEq n] [DecidableEq m] in
theorem push_through (X : Matrix k k F) (Y : Matrix k k F) (h : IsUnit (1 - X * Y)) :
    Y * (1 - X * Y)⁻¹ = (1 - Y * X)⁻¹ * Y := by
  have h' := isUnit_swap _ _ h
  have hd := (Matrix.isUnit_iff_isUnit_det _).1 h
  have hd' := (Matrix.isUnit_iff_isUnit_det _).1 h'
  have e : (1 - Y * X) * Y = Y * (1 - X * Y) := by
    simp [Matrix.sub_mul, Matrix.mul_sub, Matrix.mul_assoc]
  calc Y * (1 - X * Y)⁻¹
      = (1 - Y * X)⁻¹ * ((1 - Y * X) * Y) * (1 - X * Y)⁻¹ := by
        rw [← Matrix.mul_assoc _ _ Y, Matrix.nonsing_inv_mul _ hd', Matrix.one_mul]
    _ = (1 - Y * X)⁻¹ * Y := by
        rw [e, Matrix.mul_assoc, Matrix.mul_assoc, Matrix.mul_nonsing_inv _ hd, Matrix.mul_one]

theorem star_reciprocal (A : SM F n k) (B : SM F k m) (h : IsUnit (1 - A.S12 * B.S21))
    (hA : A.Reciprocal) (hB : B.Reciprocal) : (A.add B).Reciprocal := by
  obtain ⟨a1, a2, a3⟩ := hA
  obtain ⟨b1, b2, b3⟩ := hB
  have a3' : A.S11ᵀ = A.S22 := by rw [← a3, Matrix.transpose_transpose]
  have b3' : B.S11ᵀ = B.S22 := by rw [← b3, Matrix.transpose_transpose]
  have h' := isUnit_swap _ _ h
  -- ((1 - X Y)⁻¹)ᵀ = (1 - Yᵀ Xᵀ)⁻¹
  have tinv1 : ((1 - B.S21 * A.S12)⁻¹)ᵀ = (1 - A.S12 * B.S21)⁻¹ := by
    rw [Matrix.transpose_nonsing_inv]; congr 1
    simp [Matrix.transpose_sub, Matrix.transpose_mul, a2, b1]
  have tinv2 : ((1 - A.S12 * B.S21)⁻¹)ᵀ = (1 - B.S21 * A.S12)⁻¹ := by
    rw [Matrix.transpose_nonsing_inv]; congr 1
    simp [Matrix.transpose_sub, Matrix.transpose_mul, a2, b1]
  have pt1 := push_through A.S12 B.S21 h        -- B21 (1 - A12 B21)⁻¹ = (1 - B21 A12)⁻¹ B21
  have pt2 := push_through B.S21 A.S12 h'       -- A12 (1 - B21 A12)⁻¹ = (1 - A12 B21)⁻¹ A12
  refine ⟨?_, ?_, ?_⟩
  · simp only [SM.add, Matrix.transpose_add, Matrix.transpose_mul, a1, a3', b1, a3, tinv1]
    congr 1
    rw [← Matrix.mul_assoc B.S21, pt1]; simp only [Matrix.mul_assoc]
  · simp only [SM.add, Matrix.transpose_add, Matrix.transpose_mul, b2, b3, b3', a2, tinv2]
    congr 1
    rw [← Matrix.mul_assoc A.S12, pt2]; simp only [Matrix.mul_assoc]
  · simp only [SM.add, Matrix.transpose_mul, b3, a3, tinv1, Matrix.mul_assoc]


/-! ### energy: passivity and losslessness are preserved (any "power" functional) -/

section energy
variable {R : Type*} [AddCommGroup R] [PartialOrder R] [IsOrderedAddMonoid R]

/-- `A` never outputs more power than it receives, power measured by arbitrary functionals on the two sides -/
def SM.PassiveWrt (A : SM F n m) (pn : (n → F) → R) (pm : (m → F) → R) : Prop :=
  ∀ u g, pn (A.S21 *ᵥ u + A.S22 *ᵥ g) + pm (A.S11 *ᵥ u + A.S12 *ᵥ g) ≤ pn u + pm g

theorem star_passive (A : SM F n k) (B : SM F k m) (h : IsUnit (1 - A.S12 * B.S21))
    (pn : (n → F) → R) (pk : (k → F) → R) (pm : (m → F) → R)
    (hA : A.PassiveWrt pn pk) (hB : B.PassiveWrt pk pm) : (A.add B).PassiveWrt pn pm := by
  intro u d
  obtain ⟨f, g, e1, e2, e3, e4⟩ := star_complete A B h u d
  have iA := hA u g
  have iB := hB f d
  rw [← e1, ← e2] at iA
  rw [← e3, ← e4] at iB
  -- iA : pn rA + pk f ≤ pn u + pk g ;  iB : pk g + pm rB ≤ pk f + pm d
  have := add_le_add iA iB
  have e : pn ((A.add B).S21 *ᵥ u + (A.add B).S22 *ᵥ d) + pm ((A.add B).S11 *ᵥ u + (A.add B).S12 *ᵥ d) + (pk f + pk g)
      ≤ pn u + pm d + (pk f + pk g) := by
    calc _ = pn ((A.add B).S21 *ᵥ u + (A.add B).S22 *ᵥ d) + pk f + (pk g + pm ((A.add B).S11 *ᵥ u + (A.add B).S12 *ᵥ d)) := by abel
      _ ≤ pn u + pk g + (pk f + pm d) := this
      _ = _ := by abel
  exact le_of_add_le_add_right e
end energy

section lossless
variable {R : Type*} [AddCommGroup R]

/-- sesquilinear balance with arbitrary pairings -/
def SM.LosslessWrt (A : SM F n m) (ipn : (n → F) → (n → F) → R) (ipm : (m → F) → (m → F) → R) : Prop :=
  ∀ u g u' g', ipn (A.S21 *ᵥ u' + A.S22 *ᵥ g') (A.S21 *ᵥ u + A.S22 *ᵥ g) + ipm (A.S11 *ᵥ u' + A.S12 *ᵥ g') (A.S11 *ᵥ u + A.S12 *ᵥ g)
    = ipn u' u + ipm g' g

theorem star_lossless (A : SM F n k) (B : SM F k m) (h : IsUnit (1 - A.S12 * B.S21))
    (ipn : (n → F) → (n → F) → R) (ipk : (k → F) → (k → F) → R) (ipm : (m → F) → (m → F) → R)
    (hA : A.LosslessWrt ipn ipk) (hB : B.LosslessWrt ipk ipm) : (A.add B).LosslessWrt ipn ipm := by
  intro u d u' d'
  obtain ⟨f, g, e1, e2, e3, e4⟩ := star_complete A B h u d
  obtain ⟨f', g', e1', e2', e3', e4'⟩ := star_complete A B h u' d'
  have iA := hA u g u' g'
  have iB := hB f d f' d'
  rw [← e1, ← e2, ← e1', ← e2'] at iA
  rw [← e3, ← e4, ← e3', ← e4'] at iB
  have := congrArg₂ (fun x y => x + y) iA iB
  beta_reduce at this
  have e : ipn ((A.add B).S21 *ᵥ u' + (A.add B).S22 *ᵥ d') ((A.add B).S21 *ᵥ u + (A.add B).S22 *ᵥ d)
      + ipm ((A.add B).S11 *ᵥ u' + (A.add B).S12 *ᵥ d') ((A.add B).S11 *ᵥ u + (A.add B).S12 *ᵥ d) + (ipk f' f + ipk g' g)
      = ipn u' u + ipm d' d + (ipk f' f + ipk g' g) := by
    calc _ = _ := by abel
      _ = _ := this
      _ = _ := by abel
  exact add_right_cancel e
end lossless


/-! ### the concrete pairing over a star field, and the assembled matrix -/
section assembled
variable {K : Type*} [Field K] [StarRing K]
variable {n' m' : Type*} [Fintype n'] [Fintype m'] [DecidableEq n'] [DecidableEq m']

/-- `[[S21, S22], [S11, S12]]` as in `get_S_back` -/
def SM.assemble (A : SM K n' m') : Matrix (n' ⊕ m') (n' ⊕ m') K := Matrix.fromBlocks A.S21 A.S22 A.S11 A.S12

def ip {ι : Type*} [Fintype ι] (x y : ι → K) : K := star x ⬝ᵥ y

theorem assemble_mulVec (A : SM K n' m') (u : n' → K) (g : m' → K) :
    A.assemble *ᵥ Sum.elim u g = Sum.elim (A.S21 *ᵥ u + A.S22 *ᵥ g) (A.S11 *ᵥ u + A.S12 *ᵥ g) := by
  simp [SM.assemble, Matrix.fromBlocks_mulVec]

theorem ip_sum_elim (x y : n' → K) (x' y' : m' → K) :
    ip (Sum.elim x x') (Sum.elim y y') = ip x y + ip x' y' := by
  simp [ip, dotProduct, Fintype.sum_sum_type]

/-- a unitary assembled matrix is lossless for the standard pairing -/
theorem lossless_of_unitary (A : SM K n' m') (h : A.assembleᴴ * A.assemble = 1) :
    A.LosslessWrt (ip (K := K)) (ip (K := K)) := by
  intro u g u' g'
  rw [← ip_sum_elim, ← assemble_mulVec, ← assemble_mulVec, ← ip_sum_elim]
  unfold ip
  rw [Matrix.star_mulVec, Matrix.dotProduct_mulVec, Matrix.vecMul_vecMul, h, Matrix.vecMul_one]



theorem ip_mulVec {ι : Type*} [Fintype ι] [DecidableEq ι] (M : Matrix ι ι K) (x y : ι → K) :
    ip (M *ᵥ x) (M *ᵥ y) = ip x ((Mᴴ * M) *ᵥ y) := by
  unfold ip
  rw [Matrix.star_mulVec, Matrix.dotProduct_mulVec, Matrix.vecMul_vecMul, ← Matrix.dotProduct_mulVec]

theorem ip_single {ι : Type*} [Fintype ι] [DecidableEq ι] (i : ι) (y : ι → K) :
    ip (Pi.single i (1 : K)) y = y i := by
  unfold ip dotProduct
  rw [Finset.sum_eq_single i]
  · simp
  · intro j _ hj; simp [Pi.single_apply, hj]
  · intro hi; exact absurd (Finset.mem_univ i) hi

/-- a lossless partitioned matrix assembles to a unitary matrix -/
theorem unitary_of_lossless (A : SM K n' m') (h : A.LosslessWrt (ip (K := K)) (ip (K := K))) :
    A.assembleᴴ * A.assemble = 1 := by
  have key : ∀ x y : n' ⊕ m' → K, ip (A.assemble *ᵥ x) (A.assemble *ᵥ y) = ip x y := by
    intro x y
    have hx : x = Sum.elim (x ∘ Sum.inl) (x ∘ Sum.inr) := by ext i; cases i <;> rfl
    have hy : y = Sum.elim (y ∘ Sum.inl) (y ∘ Sum.inr) := by ext i; cases i <;> rfl
    rw [hx, hy, assemble_mulVec, assemble_mulVec, ip_sum_elim, ip_sum_elim]
    exact h _ _ _ _
  ext i j
  have := key (Pi.single i 1) (Pi.single j 1)
  rw [ip_mulVec, ip_single, ip_single, Matrix.mulVec_single_one] at this
  simpa [Matrix.one_apply, Pi.single_apply, eq_comm] using this

end assembled
