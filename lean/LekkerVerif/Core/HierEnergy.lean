import LekkerVerif.Core.HierFlattenSpec
import LekkerVerif.Properties.C08
import Mathlib.Algebra.Order.Field.Rat
import Mathlib.Tactic.Linarith

/-! # C08 for hierarchies: the recursive solve preserves reciprocity, passivity and losslessness

`CompD.Recip`, `CompD.PassiveW`, `CompD.LosslessW` say that a component is reciprocal / passive / lossless on its own pin
names, independently of the level it is placed in (`CompD.mkSt_recip`, `CompD.mkSt_passive`, `CompD.mkSt_lossless`: the
structure a level builds from it has the corresponding `St.` property).

* `HNet.solveH_recip` — all leaves reciprocal → the result of the executable recursion `HNet.solveH` is reciprocal;
* `HNet.solveH_passive` — all leaves passive (any power functional `w ≥ 0`, `w 0 = 0`, values in any ordered additive
  group) → the result is passive;
* `HNet.solveH_lossless` — all leaves lossless (any pairing `φ`) and every level exposes all its free pins
  (`HNet.FullyExposed`) → the result is lossless;

for every well-formed hierarchy (`HNet.WFTree`) of any depth and branching and every merge schedule.  One level:
the children's results are passive (induction), hence every initial structure of the level, hence the structure the
elimination loop ends with (`C08_passive`); the component handed up is the block of that structure on the exposed pins, and
exposing only some of the free pins (zero input on the others) only drops non-negative output terms
(`NetD.extract_passive`). -/

open NetD Solve

/-! ### components on their own pins -/

namespace CompD
variable {F : Type} [Field F] [DecidableEq F]

/-- the component's matrix is symmetric on its pin names -/
def Recip (c : CompD F) : Prop := ∀ x ∈ c.pins, ∀ y ∈ c.pins, c.sem x y = c.sem y x

/-- the output wave of a component at pin name `x` for the input assignment `a` -/
def out (c : CompD F) (a : String → F) (x : String) : F := (c.pins.map fun y => c.sem x y * a y).sum

/-- lossless on its own pins with respect to the pairing `φ` -/
def LosslessW {R : Type*} [AddCommGroup R] (φ : F → F → R) (c : CompD F) : Prop :=
  ∀ a a' : String → F,
    (c.pins.map fun x => φ (c.out a' x) (c.out a x)).sum = (c.pins.map fun x => φ (a' x) (a x)).sum

/-- passive on its own pins with respect to the power functional `w`: total output power ≤ total input power -/
def PassiveW {R : Type*} [AddCommGroup R] [PartialOrder R] (w : F → R) (c : CompD F) : Prop :=
  ∀ a : String → F, (c.pins.map fun x => w (c.out a x)).sum ≤ (c.pins.map fun x => w (a x)).sum

/-- the output of the structure a level builds from a component is the component's own output -/
theorem mkSt_out (net : NetD F) (k : Nat) (c : CompD F) (a : PinRef → F) (x : String) :
    (net.mkSt k c).out a (k, x) = c.out (fun n => a (k, n)) x := by
  unfold St.out rowSum CompD.out
  show ((c.pins.map fun n => ((k, n) : PinRef)).map fun q => (net.mkSt k c).sem (k, x) q * a q).sum = _
  rw [List.map_map]
  congr 1
  apply List.map_congr_left
  intro y _
  simp only [Function.comp]
  rw [NetD.mkSt_sem]

theorem mkSt_recip (net : NetD F) (k : Nat) (c : CompD F) (h : c.Recip) : (net.mkSt k c).Recip := by
  intro p hp q hq
  obtain ⟨hp1, hp2⟩ := (NetD.mem_pins_mkSt net k c p).1 hp
  obtain ⟨hq1, hq2⟩ := (NetD.mem_pins_mkSt net k c q).1 hq
  obtain ⟨pk, x⟩ := p
  obtain ⟨qk, y⟩ := q
  simp only at hp1 hp2 hq1 hq2
  subst hp1; subst hq1
  rw [NetD.mkSt_sem, NetD.mkSt_sem]
  exact h x hp2 y hq2

theorem mkSt_lossless {R : Type*} [AddCommGroup R] (φ : F → F → R) (net : NetD F) (k : Nat) (c : CompD F)
    (h : c.LosslessW φ) : (net.mkSt k c).LosslessW φ := by
  intro a a'
  have := h (fun n => a (k, n)) (fun n => a' (k, n))
  have e1 : ((c.pins.map fun n => ((k, n) : PinRef)).map
        fun p => φ ((net.mkSt k c).out a' p) ((net.mkSt k c).out a p)) =
      c.pins.map fun x => φ (c.out (fun n => a' (k, n)) x) (c.out (fun n => a (k, n)) x) := by
    rw [List.map_map]
    apply List.map_congr_left
    intro x _
    simp only [Function.comp]
    rw [mkSt_out, mkSt_out]
  have e2 : ((c.pins.map fun n => ((k, n) : PinRef)).map fun p => φ (a' p) (a p)) =
      c.pins.map fun x => φ (a' (k, x)) (a (k, x)) := by
    rw [List.map_map]; rfl
  show ((c.pins.map fun n => ((k, n) : PinRef)).map _).sum = ((c.pins.map fun n => ((k, n) : PinRef)).map _).sum
  rw [e1, e2]
  exact this

theorem mkSt_passive {R : Type*} [AddCommGroup R] [PartialOrder R] [IsOrderedAddMonoid R] (w : F → R)
    (net : NetD F) (k : Nat) (c : CompD F) (h : c.PassiveW w) : (net.mkSt k c).PassiveW w := by
  intro a
  have := h (fun n => a (k, n))
  have e1 : ((c.pins.map fun n => ((k, n) : PinRef)).map fun p => w ((net.mkSt k c).out a p)) =
      c.pins.map fun x => w (c.out (fun n => a (k, n)) x) := by
    rw [List.map_map]
    apply List.map_congr_left
    intro x _
    simp only [Function.comp]
    rw [mkSt_out]
  have e2 : ((c.pins.map fun n => ((k, n) : PinRef)).map fun p => w (a p)) = c.pins.map fun x => w (a (k, x)) := by
    rw [List.map_map]; rfl
  show ((c.pins.map fun n => ((k, n) : PinRef)).map _).sum ≤ ((c.pins.map fun n => ((k, n) : PinRef)).map _).sum
  rw [e1, e2]
  exact this

/-- conversely: passivity of the placed structure (at any position of any level) is passivity of the component -/
theorem passive_of_mkSt {R : Type*} [AddCommGroup R] [PartialOrder R] [IsOrderedAddMonoid R] (w : F → R)
    (net : NetD F) (k : Nat) (c : CompD F) (h : (net.mkSt k c).PassiveW w) : c.PassiveW w := by
  intro a
  have := h (fun p => a p.2)
  have e1 : ((c.pins.map fun n => ((k, n) : PinRef)).map fun p => w ((net.mkSt k c).out (fun p => a p.2) p)) =
      c.pins.map fun x => w (c.out a x) := by
    rw [List.map_map]
    apply List.map_congr_left
    intro x _
    simp only [Function.comp]
    rw [mkSt_out]
  have e2 : ((c.pins.map fun n => ((k, n) : PinRef)).map fun p => w ((fun p : PinRef => a p.2) p)) =
      c.pins.map fun x => w (a x) := by
    rw [List.map_map]; rfl
  rw [← e1, ← e2]
  exact this

end CompD

/-! ### one level: from the solved structure to the component handed up -/

namespace NetD
variable {F : Type} [Field F] [DecidableEq F]

/-- what a well-formed level gives about the structure the elimination ends with -/
structure LevelFacts (net : NetD F) (total : St F) : Prop where
  wf : net.WF
  names : (net.exposed.map (·.1)).Nodup
  expNodup : (net.exposed.map (·.2)).Nodup
  expIn : ∀ e ∈ net.exposed, e.2 ∈ total.pins
  nodup : total.pins.Nodup

theorem levelFacts {comps : List (CompD F)} {links : List (PinRef × PinRef)} {exposed : List (String × PinRef)}
    (lev : HNet.LevelOK (comps.map CompD.pins) links exposed) (sched) (total : St F)
    (h : (HNet.levelNet comps links exposed).solveWith sched = .ok total) :
    (HNet.levelNet comps links exposed).LevelFacts total := by
  obtain ⟨wf, ex⟩ := lev.wf
  obtain ⟨_, _, _, _, hin⟩ := solveWith_complete _ wf sched total h ex.free (fun _ => 0)
  exact ⟨wf, lev.namesNodup, ex.nodup, hin,
    (Solve.loopWith_sound _ sched _ _ _ total (NetD.fullInv_initial _ wf).linv h).nodup⟩

/-- every initial structure of a level has a per-structure property once every component has the per-component one -/
theorem initial_of_comps (net : NetD F) (P : CompD F → Prop) (Q : St F → Prop)
    (hPQ : ∀ k c, P c → Q (net.mkSt k c)) (hP : ∀ c ∈ net.comps, P c) : ∀ s ∈ net.initial, Q s := by
  intro s hs
  obtain ⟨k, c, hk, rfl⟩ := (NetD.mem_initial net s).1 hs
  exact hPQ k c (hP c (List.mem_of_getElem? hk))

/-- **reciprocity survives the exposure** -/
theorem extract_recip (net : NetD F) (total : St F) (lf : net.LevelFacts total) (hT : total.Recip) :
    (net.extract total).Recip := by
  intro x hx y hy
  obtain ⟨e, he, rfl⟩ := List.mem_map.1 (show x ∈ net.exposed.map (·.1) from hx)
  obtain ⟨e', he', rfl⟩ := List.mem_map.1 (show y ∈ net.exposed.map (·.1) from hy)
  rw [extract_sem net total lf.names e e' he he', extract_sem net total lf.names e' e he' he]
  exact hT _ (lf.expIn e he) _ (lf.expIn e' he')

omit [DecidableEq F] in
/-- an input assignment on the exposed names, seen as an assignment on the pins of the level: the exposed pins carry
the values of their names, every other pin carries zero -/
theorem exists_lift (net : NetD F) (hE : (net.exposed.map (·.2)).Nodup) (a : String → F) :
    ∃ A : PinRef → F, (∀ e ∈ net.exposed, A e.2 = a e.1) ∧ ∀ p, p ∉ net.exposed.map (·.2) → A p = 0 := by
  obtain ⟨A, hA, hz⟩ := exists_extend (net.exposed.map (·.2)) hE
    (fun i => a (net.exposed[i.1]'(by have := i.2; simpa using this)).1) (fun _ => 0)
  refine ⟨A, ?_, hz⟩
  intro e he
  obtain ⟨i, hi, rfl⟩ := List.getElem_of_mem he
  have := hA ⟨i, by simpa using hi⟩
  simpa using this

/-- with zero input on the unexposed free pins, the solved structure's output on an exposed pin is the extracted
component's output on its name -/
theorem extract_out (net : NetD F) (total : St F) (lf : net.LevelFacts total) (a : String → F) (A : PinRef → F)
    (hA : ∀ e ∈ net.exposed, A e.2 = a e.1) (hz : ∀ p, p ∉ net.exposed.map (·.2) → A p = 0) :
    ∀ e ∈ net.exposed, total.out A e.2 = (net.extract total).out a e.1 := by
  intro e he
  unfold St.out rowSum CompD.out
  rw [sum_restrict total.pins (net.exposed.map (·.2)) (fun q => total.sem e.2 q * A q) lf.nodup lf.expNodup
    (by intro x hx; obtain ⟨y, hy, rfl⟩ := List.mem_map.1 hx; exact lf.expIn y hy)
    (by intro x _ hnx; simp [hz x hnx])]
  show _ = ((net.exposed.map (·.1)).map fun y => (net.extract total).sem e.1 y * a y).sum
  rw [List.map_map, List.map_map]
  congr 1
  apply List.map_congr_left
  intro e' he'
  simp only [Function.comp]
  rw [hA e' he', extract_sem net total lf.names e e' he he']

/-- **passivity survives the exposure of only some free pins**: zero input on the unexposed free pins, and the outputs
there are dropped — non-negative terms on the smaller side -/
theorem extract_passive {R : Type*} [AddCommGroup R] [PartialOrder R] [IsOrderedAddMonoid R] (w : F → R)
    (w0 : ∀ z, 0 ≤ w z) (wz : w 0 = 0) (net : NetD F) (total : St F) (lf : net.LevelFacts total)
    (hT : total.PassiveW w) : (net.extract total).PassiveW w := by
  intro a
  obtain ⟨A, hA, hz⟩ := exists_lift net lf.expNodup a
  have hout := extract_out net total lf a A hA hz
  have hsub : ∀ x ∈ net.exposed.map (·.2), x ∈ total.pins := by
    intro x hx; obtain ⟨y, hy, rfl⟩ := List.mem_map.1 hx; exact lf.expIn y hy
  have hp := perm_filter_split total.pins (net.exposed.map (·.2)) lf.nodup lf.expNodup hsub
  have key := hT A
  rw [sumL_perm w hp, sumL_perm w hp, sumL_append, sumL_append] at key
  have hrest0 : sumL w (total.pins.filter fun p => !(net.exposed.map (·.2)).contains p) A = 0 := by
    unfold sumL
    apply List.sum_eq_zero
    intro y hy
    obtain ⟨x, hx, rfl⟩ := List.mem_map.1 hy
    have := (List.mem_filter.1 hx).2
    rw [hz x (by simpa using this), wz]
  have hrest : 0 ≤ sumL w (total.pins.filter fun p => !(net.exposed.map (·.2)).contains p) (total.out A) := by
    unfold sumL
    apply List.sum_nonneg
    intro y hy
    obtain ⟨x, _, rfl⟩ := List.mem_map.1 hy
    exact w0 _
  rw [hrest0, zero_add] at key
  have key2 : sumL w (net.exposed.map (·.2)) (total.out A) ≤ sumL w (net.exposed.map (·.2)) A :=
    le_trans (le_add_of_nonneg_left hrest) key
  have e1 : ((net.extract total).pins.map fun x => w ((net.extract total).out a x)) =
      (net.exposed.map (·.2)).map fun p => w (total.out A p) := by
    show ((net.exposed.map (·.1)).map _) = _
    rw [List.map_map, List.map_map]
    apply List.map_congr_left
    intro e he
    simp only [Function.comp]
    rw [hout e he]
  have e2 : ((net.extract total).pins.map fun x => w (a x)) = (net.exposed.map (·.2)).map fun p => w (A p) := by
    show ((net.exposed.map (·.1)).map _) = _
    rw [List.map_map, List.map_map]
    apply List.map_congr_left
    intro e he
    simp only [Function.comp]
    rw [hA e he]
  rw [e1, e2]
  exact key2

/-- **losslessness survives the exposure of all free pins** -/
theorem extract_lossless {R : Type*} [AddCommGroup R] (φ : F → F → R) (net : NetD F) (total : St F)
    (lf : net.LevelFacts total) (hall : ∀ p ∈ total.pins, p ∈ net.exposed.map (·.2))
    (hT : total.LosslessW φ) : (net.extract total).LosslessW φ := by
  intro a a'
  obtain ⟨A, hA, hz⟩ := exists_lift net lf.expNodup a
  obtain ⟨A', hA', hz'⟩ := exists_lift net lf.expNodup a'
  have hout := extract_out net total lf a A hA hz
  have hout' := extract_out net total lf a' A' hA' hz'
  have hp : total.pins.Perm (net.exposed.map (·.2)) := by
    apply (List.perm_ext_iff_of_nodup lf.nodup lf.expNodup).2
    intro p
    constructor
    · exact hall p
    · intro hx; obtain ⟨y, hy, rfl⟩ := List.mem_map.1 hx; exact lf.expIn y hy
  have key := hT A A'
  rw [pairL_perm φ hp, pairL_perm φ hp] at key
  have e1 : ((net.extract total).pins.map fun x => φ ((net.extract total).out a' x) ((net.extract total).out a x)) =
      (net.exposed.map (·.2)).map fun p => φ (total.out A' p) (total.out A p) := by
    show ((net.exposed.map (·.1)).map _) = _
    rw [List.map_map, List.map_map]
    apply List.map_congr_left
    intro e he
    simp only [Function.comp]
    rw [hout e he, hout' e he]
  have e2 : ((net.extract total).pins.map fun x => φ (a' x) (a x)) =
      (net.exposed.map (·.2)).map fun p => φ (A' p) (A p) := by
    show ((net.exposed.map (·.1)).map _) = _
    rw [List.map_map, List.map_map]
    apply List.map_congr_left
    intro e he
    simp only [Function.comp]
    rw [hA e he, hA' e he]
  rw [e1, e2]
  exact key

/-- when every unlinked pin of every component is exposed, the solved structure has no other pin than the exposed ones -/
theorem total_pins_exposed (net : NetD F) (wf : net.WF) (sched) (total : St F)
    (h : net.solveWith sched = .ok total)
    (hfull : ∀ k c, net.comps[k]? = some c → ∀ x ∈ c.pins, (∀ q, ¬ net.Lnk (k, x) q) → (k, x) ∈ net.exposed.map (·.2)) :
    ∀ p ∈ total.pins, p ∈ net.exposed.map (·.2) := by
  intro p hp
  obtain ⟨_, hno⟩ := solveWith_sound net wf sched total h
  obtain ⟨s, hs, hps⟩ := loopWith_pins net.Sol (fun p => ∃ s ∈ net.initial, p ∈ s.pins) sched _ _ _ total
    (fullInv_initial net wf).linv (fun s hs p hp => ⟨s, hs, hp⟩) h p hp
  obtain ⟨k, c, hk, rfl⟩ := (mem_initial net s).1 hs
  obtain ⟨h1, h2⟩ := (mem_pins_mkSt net k c p).1 hps
  obtain ⟨pk, x⟩ := p
  simp only at h1 h2
  subst h1
  exact hfull pk c hk x h2 (hno _ hp)

end NetD

/-! ### the whole hierarchy -/

namespace HNet
variable {F : Type} [Field F] [DecidableEq F]

/-- the leaf components of a hierarchy -/
def leafComps (h : HNet F) : List (CompD F) := (leaves h).map (·.2)

/-- **induction along the recursive solve**: a property of components that holds of every leaf and is handed from the
children's results to the result of a level holds of the result of the whole recursion.  `G` is whatever has to be known
about the description at every node (well-formedness, ...). -/
theorem solveH_induct (sched : List (St F) → Option (Nat × Nat)) (P : CompD F → Prop) (G : HNet F → Prop)
    (hchild : ∀ cs links exposed, G (.node cs links exposed) → ∀ h ∈ cs, G h)
    (hlevel : ∀ cs links exposed comps total, G (.node cs links exposed) →
      List.Forall₂ (fun h c => solveH sched h = .ok c) cs comps → (∀ c ∈ comps, P c) →
      (levelNet comps links exposed).solveWith sched = .ok total → P ((levelNet comps links exposed).extract total)) :
    ∀ h, G h → (∀ c ∈ leafComps h, P c) → ∀ c, solveH sched h = .ok c → P c := by
  intro h
  induction h using HNet.induction with
  | leaf c0 =>
    intro _ hl c hs
    rw [solveH_leaf] at hs
    cases hs
    exact hl c0 (by simp [leafComps, leaves_leaf])
  | node cs links exposed ih =>
    intro g hl c hs
    obtain ⟨comps, total, hF, ht, rfl⟩ := solveH_node_inv sched cs links exposed c hs
    refine hlevel cs links exposed comps total g hF ?_ ht
    intro c hc
    obtain ⟨i, hi, rfl⟩ := List.getElem_of_mem hc
    obtain ⟨hlen, hget⟩ := List.forall₂_iff_get.1 hF
    have hi' : i < cs.length := hlen ▸ hi
    refine ih cs[i] (List.getElem_mem hi') (hchild _ _ _ g _ (List.getElem_mem hi')) ?_ comps[i]
      (by simpa using hget i hi' hi)
    intro c' hc'
    obtain ⟨pc, hpc, rfl⟩ := List.mem_map.1 hc'
    apply hl
    refine List.mem_map.2 ⟨((0 + i) :: pc.1, pc.2), ?_, rfl⟩
    rw [leaves_node, mem_leavesAll]
    exact ⟨i, cs[i], pc, List.getElem?_eq_getElem hi', hpc, rfl⟩

omit [Field F] [DecidableEq F] in
theorem WFTree.child {cs : List (HNet F)} {links : List (PinRef × PinRef)} {exposed : List (String × PinRef)}
    (w : WFTree (.node cs links exposed)) : ∀ h ∈ cs, WFTree h := by
  cases w with
  | node _ _ _ hch _ => exact hch

omit [Field F] [DecidableEq F] in
theorem WFTree.level {cs : List (HNet F)} {links : List (PinRef × PinRef)} {exposed : List (String × PinRef)}
    (w : WFTree (.node cs links exposed)) : LevelOK (cs.map pinNames) links exposed := by
  cases w with
  | node _ _ _ _ hlev => exact hlev

/-- the level facts at a node of a well-formed hierarchy, once the children are solved -/
theorem WFTree.levelFacts {cs : List (HNet F)} {links : List (PinRef × PinRef)} {exposed : List (String × PinRef)}
    (w : WFTree (.node cs links exposed)) (sched) (comps : List (CompD F)) (total : St F)
    (hF : List.Forall₂ (fun h c => solveH sched h = .ok c) cs comps)
    (ht : (levelNet comps links exposed).solveWith sched = .ok total) :
    (levelNet comps links exposed).LevelFacts total := by
  have hlev := w.level
  rw [← solveAll_pins sched cs comps hF] at hlev
  exact NetD.levelFacts hlev sched total ht

/-- **C08 for hierarchies, reciprocity**: if every leaf component of a well-formed hierarchy is reciprocal, so is the
component the recursive solve returns — any depth, any schedule -/
theorem solveH_recip (sched : List (St F) → Option (Nat × Nat)) (h : HNet F) (w : WFTree h)
    (hl : ∀ c ∈ leafComps h, c.Recip) (c : CompD F) (hs : solveH sched h = .ok c) : c.Recip := by
  refine solveH_induct sched CompD.Recip WFTree (fun _ _ _ g => g.child) ?_ h w hl c hs
  intro cs links exposed comps total g hF hP ht
  have lf := g.levelFacts sched comps total hF ht
  exact NetD.extract_recip _ total lf
    (C08_reciprocal _ lf.wf sched total ht
      (NetD.initial_of_comps _ CompD.Recip St.Recip (fun k c hc => CompD.mkSt_recip _ k c hc) hP))

/-- **C08 for hierarchies, passivity**: if every leaf component of a well-formed hierarchy is passive for the power
functional `w` (non-negative, zero at zero; values in any ordered additive group), so is the component the recursive
solve returns — any depth, any schedule -/
theorem solveH_passive {R : Type*} [AddCommGroup R] [PartialOrder R] [IsOrderedAddMonoid R] (w : F → R)
    (w0 : ∀ z, 0 ≤ w z) (wz : w 0 = 0) (sched : List (St F) → Option (Nat × Nat)) (h : HNet F) (wt : WFTree h)
    (hl : ∀ c ∈ leafComps h, c.PassiveW w) (c : CompD F) (hs : solveH sched h = .ok c) : c.PassiveW w := by
  refine solveH_induct sched (CompD.PassiveW w) WFTree (fun _ _ _ g => g.child) ?_ h wt hl c hs
  intro cs links exposed comps total g hF hP ht
  have lf := g.levelFacts sched comps total hF ht
  exact NetD.extract_passive w w0 wz _ total lf
    (C08_passive w _ lf.wf sched total ht
      (NetD.initial_of_comps _ (CompD.PassiveW w) (St.PassiveW w) (fun k c hc => CompD.mkSt_passive w _ k c hc) hP))

/-- every level exposes all its free pins: every pin of every child that is not an end of a link of the level is exposed -/
inductive FullyExposed : HNet F → Prop
  | leaf (c : CompD F) : FullyExposed (.leaf c)
  | node (cs : List (HNet F)) (links : List (PinRef × PinRef)) (exposed : List (String × PinRef)) :
      (∀ h ∈ cs, FullyExposed h) →
      (∀ k ps, (cs.map pinNames)[k]? = some ps → ∀ x ∈ ps,
        (∀ l ∈ links, (k, x) ≠ l.1 ∧ (k, x) ≠ l.2) → (k, x) ∈ exposed.map (·.2)) →
      FullyExposed (.node cs links exposed)

/-- **C08 for hierarchies, losslessness**: if every leaf component of a well-formed hierarchy is lossless for the pairing
`φ` and every level exposes all its free pins, the component the recursive solve returns is lossless -/
theorem solveH_lossless {R : Type*} [AddCommGroup R] (φ : F → F → R) (sched : List (St F) → Option (Nat × Nat))
    (h : HNet F) (wt : WFTree h) (fe : FullyExposed h)
    (hl : ∀ c ∈ leafComps h, c.LosslessW φ) (c : CompD F) (hs : solveH sched h = .ok c) : c.LosslessW φ := by
  refine solveH_induct sched (CompD.LosslessW φ) (fun h => WFTree h ∧ FullyExposed h) ?_ ?_ h ⟨wt, fe⟩ hl c hs
  · intro cs links exposed g h hh
    refine ⟨g.1.child h hh, ?_⟩
    cases g.2 with
    | node _ _ _ hch _ => exact hch h hh
  · intro cs links exposed comps total g hF hP ht
    have lf := g.1.levelFacts sched comps total hF ht
    have hfull : ∀ k ps, (cs.map pinNames)[k]? = some ps → ∀ x ∈ ps,
        (∀ l ∈ links, (k, x) ≠ l.1 ∧ (k, x) ≠ l.2) → (k, x) ∈ exposed.map (·.2) := by
      cases g.2 with
      | node _ _ _ _ hf => exact hf
    rw [← solveAll_pins sched cs comps hF] at hfull
    refine NetD.extract_lossless φ _ total lf ?_
      (C08_lossless φ _ lf.wf sched total ht
        (NetD.initial_of_comps _ (CompD.LosslessW φ) (St.LosslessW φ) (fun k c hc => CompD.mkSt_lossless φ _ k c hc) hP))
    apply NetD.total_pins_exposed _ lf.wf sched total ht
    intro k c hk x hx hfree
    have hk' : comps[k]? = some c := hk
    refine hfull k c.pins (by rw [List.getElem?_map, hk']; rfl) x hx ?_
    intro l hl
    constructor
    · intro e; exact hfree l.2 (Or.inl (by rw [e]; exact hl))
    · intro e; exact hfree l.1 (Or.inr (by rw [e]; exact hl))

end HNet

/-! ### non-vacuity: a two-level hierarchy of half-attenuators over ℚ -/

section NonVacuity
open HNet

/-- a reciprocal, passive two-port: `[[0, 1/2], [1/2, 0]]` -/
def attNV : CompD ℚ := { pins := ["a", "b"], idx := [("a", 0), ("b", 1)], S := ⟨2, 2, #[0, 1/2, 1/2, 0]⟩ }

theorem attNV_sem : attNV.sem "a" "a" = 0 ∧ attNV.sem "a" "b" = 1/2 ∧ attNV.sem "b" "a" = 1/2 ∧ attNV.sem "b" "b" = 0 := by
  refine ⟨?_, ?_, ?_, ?_⟩ <;> simp [attNV, CompD.sem, lookupL, Mat.get]

theorem attNV_recip : attNV.Recip := by
  obtain ⟨h1, h2, h3, h4⟩ := attNV_sem
  intro x hx y hy
  simp only [attNV, List.mem_cons, List.not_mem_nil, or_false] at hx hy
  rcases hx with rfl | rfl <;> rcases hy with rfl | rfl <;> simp [h1, h2, h3, h4]

theorem attNV_passive : attNV.PassiveW (fun z : ℚ => z ^ 2) := by
  obtain ⟨h1, h2, h3, h4⟩ := attNV_sem
  intro a
  have p : attNV.pins = ["a", "b"] := rfl
  simp only [CompD.out, p, List.map_cons, List.map_nil, List.sum_cons, List.sum_nil, h1, h2, h3, h4]
  nlinarith [sq_nonneg (a "a"), sq_nonneg (a "b")]

/-- two attenuators chained and wrapped as a sub-circuit, chained with a third -/
def treeNV : HNet ℚ :=
  .node [.node [.leaf attNV, .leaf attNV] [((0, "b"), (1, "a"))] [("x", (0, "a")), ("y", (1, "b"))], .leaf attNV]
    [((0, "y"), (1, "a"))] [("in", (0, "x")), ("out", (1, "b"))]

theorem treeNV_wf : WFTree treeNV := by
  refine WFTree.node _ _ _ ?_ ?_
  · intro h hh
    simp only [List.mem_cons, List.not_mem_nil, or_false] at hh
    rcases hh with rfl | rfl
    · refine WFTree.node _ _ _ ?_ ?_
      · intro h hh
        simp only [List.mem_cons, List.not_mem_nil, or_false] at hh
        rcases hh with rfl | rfl
        · exact WFTree.leaf _
        · exact WFTree.leaf _
      · constructor <;> simp [pinNames, attNV]
    · exact WFTree.leaf _
  · constructor <;> simp [pinNames, attNV]

theorem treeNV_leaves : ∀ c ∈ leafComps treeNV, c = attNV := by
  simp [leafComps, treeNV, leaves, leavesAll]

/-- whatever the schedule, if the recursive solve of the two-level tree returns, the result is reciprocal and passive -/
example (sched) (c : CompD ℚ) (hs : solveH sched treeNV = .ok c) : c.Recip ∧ c.PassiveW (fun z : ℚ => z ^ 2) :=
  ⟨solveH_recip sched treeNV treeNV_wf (fun c hc => treeNV_leaves c hc ▸ attNV_recip) c hs,
   solveH_passive (fun z : ℚ => z ^ 2) (fun z => sq_nonneg z) (by norm_num) sched treeNV treeNV_wf
     (fun c hc => treeNV_leaves c hc ▸ attNV_passive) c hs⟩

/-- success of a run -/
def okNV : Except Err (CompD ℚ) → Bool
  | .ok _ => true
  | .error _ => false

/-- and the recursive solve of that tree does return (pin-count schedule; the result is `[[0, 1/8], [1/8, 0]]`) -/
theorem treeNV_solves : ∃ c, solveH Solve.pySched treeNV = .ok c := by
  have h : okNV (solveH Solve.pySched treeNV) = true := by decide +kernel
  cases hs : solveH Solve.pySched treeNV with
  | ok c => exact ⟨c, rfl⟩
  | error e => rw [hs] at h; cases h

example : ∃ c, solveH Solve.pySched treeNV = .ok c ∧ c.Recip ∧ c.PassiveW (fun z : ℚ => z ^ 2) := by
  obtain ⟨c, hs⟩ := treeNV_solves
  exact ⟨c, hs, solveH_recip _ treeNV treeNV_wf (fun c hc => treeNV_leaves c hc ▸ attNV_recip) c hs,
    solveH_passive (fun z : ℚ => z ^ 2) (fun z => sq_nonneg z) (by norm_num) _ treeNV treeNV_wf
      (fun c hc => treeNV_leaves c hc ▸ attNV_passive) c hs⟩

/-- a lossless two-port (a through connection): `[[0, 1], [1, 0]]` -/
def thruNV : CompD ℚ := { pins := ["a", "b"], idx := [("a", 0), ("b", 1)], S := ⟨2, 2, #[0, 1, 1, 0]⟩ }

theorem thruNV_sem : thruNV.sem "a" "a" = 0 ∧ thruNV.sem "a" "b" = 1 ∧ thruNV.sem "b" "a" = 1 ∧ thruNV.sem "b" "b" = 0 := by
  refine ⟨?_, ?_, ?_, ?_⟩ <;> simp [thruNV, CompD.sem, lookupL, Mat.get]

theorem thruNV_lossless : thruNV.LosslessW (fun x y : ℚ => x * y) := by
  obtain ⟨h1, h2, h3, h4⟩ := thruNV_sem
  intro a a'
  have p : thruNV.pins = ["a", "b"] := rfl
  simp only [CompD.out, p, List.map_cons, List.map_nil, List.sum_cons, List.sum_nil, h1, h2, h3, h4]
  ring

/-- the same two-level shape with through connections -/
def treeLNV : HNet ℚ :=
  .node [.node [.leaf thruNV, .leaf thruNV] [((0, "b"), (1, "a"))] [("x", (0, "a")), ("y", (1, "b"))], .leaf thruNV]
    [((0, "y"), (1, "a"))] [("in", (0, "x")), ("out", (1, "b"))]

theorem treeLNV_wf : WFTree treeLNV := by
  refine WFTree.node _ _ _ ?_ ?_
  · intro h hh
    simp only [List.mem_cons, List.not_mem_nil, or_false] at hh
    rcases hh with rfl | rfl
    · refine WFTree.node _ _ _ ?_ ?_
      · intro h hh
        simp only [List.mem_cons, List.not_mem_nil, or_false] at hh
        rcases hh with rfl | rfl
        · exact WFTree.leaf _
        · exact WFTree.leaf _
      · constructor <;> simp [pinNames, thruNV]
    · exact WFTree.leaf _
  · constructor <;> simp [pinNames, thruNV]

theorem fullyExposed_two (c1 c2 : HNet ℚ) (f1 : FullyExposed c1) (f2 : FullyExposed c2) (x1 y1 x2 y2 n1 n2 : String)
    (h1 : c1.pinNames = [x1, y1]) (h2 : c2.pinNames = [x2, y2]) :
    FullyExposed (.node [c1, c2] [((0, y1), (1, x2))] [(n1, (0, x1)), (n2, (1, y2))]) := by
  refine FullyExposed.node _ _ _ ?_ ?_
  · intro h hh
    simp only [List.mem_cons, List.not_mem_nil, or_false] at hh
    rcases hh with rfl | rfl
    · exact f1
    · exact f2
  · intro k ps hk x hx hfree
    have hf := hfree _ (List.mem_singleton.2 rfl)
    match k, hk with
    | 0, hk =>
      simp only [List.map_cons, List.getElem?_cons_zero, Option.some.injEq, h1] at hk
      subst hk
      simp only [List.mem_cons, List.not_mem_nil, or_false] at hx
      rcases hx with rfl | rfl
      · simp
      · exact absurd rfl hf.1
    | 1, hk =>
      simp only [List.map_cons, List.getElem?_cons_succ, List.getElem?_cons_zero, Option.some.injEq, h2] at hk
      subst hk
      simp only [List.mem_cons, List.not_mem_nil, or_false] at hx
      rcases hx with rfl | rfl
      · exact absurd rfl hf.2
      · simp
    | k + 2, hk => simp at hk

theorem treeLNV_full : FullyExposed treeLNV :=
  fullyExposed_two _ _
    (fullyExposed_two _ _ (FullyExposed.leaf _) (FullyExposed.leaf _) "a" "b" "a" "b" "x" "y" rfl rfl)
    (FullyExposed.leaf _) "x" "y" "a" "b" "in" "out" rfl rfl

theorem treeLNV_leaves : ∀ c ∈ leafComps treeLNV, c = thruNV := by
  simp [leafComps, treeLNV, leaves, leavesAll]

theorem treeLNV_solves : ∃ c, solveH Solve.pySched treeLNV = .ok c := by
  have h : okNV (solveH Solve.pySched treeLNV) = true := by decide +kernel
  cases hs : solveH Solve.pySched treeLNV with
  | ok c => exact ⟨c, rfl⟩
  | error e => rw [hs] at h; cases h

/-- the fully exposed tree of through connections solves, and the result is lossless -/
example : ∃ c, solveH Solve.pySched treeLNV = .ok c ∧ c.LosslessW (fun x y : ℚ => x * y) := by
  obtain ⟨c, hs⟩ := treeLNV_solves
  exact ⟨c, hs, solveH_lossless _ _ treeLNV treeLNV_wf treeLNV_full
    (fun c hc => treeLNV_leaves c hc ▸ thruNV_lossless) c hs⟩

end NonVacuity
