import LekkerVerif.Core.Solve
/-! Spike: a plain network description and the top-level executable solve (any schedule) -/

structure CompD (F : Type) where
  pins : List String
  idx  : List (String × Nat)
  S    : Mat F

structure NetD (F : Type) where
  comps   : List (CompD F)
  links   : List (PinRef × PinRef)
  exposed : List (String × PinRef)

namespace NetD
variable {F : Type} [Scalar F]

/-- conn_dict of component `k`: its own end first -/
def connOf (links : List (PinRef × PinRef)) (k : Nat) : List (PinRef × PinRef) :=
  links.filterMap fun l => if l.1.1 == k then some l else if l.2.1 == k then some (l.2, l.1) else none

def mkSt (net : NetD F) (k : Nat) (c : CompD F) : St F :=
  { id := k, pins := c.pins.map fun n => (k, n), idx := c.idx.map fun ni => ((k, ni.1), ni.2), S := c.S,
    conn := connOf net.links k, connTo := [], members := [] }

def initial (net : NetD F) : List (St F) := net.comps.zipIdx.map fun ck => net.mkSt ck.2 ck.1

end NetD
