import LekkerVerif.Core.Solve
import LekkerVerif.Core.Net
/-! Executable transcription of the monitor path of `Solver.solve` (single sweep point): the non-monitored structures are
merged into `main`, the monitored ones into `monitor` (two runs of the elimination loop), `Structure.intermediate`
partitions both along the links that join them and `S_matrix.int_complete` gives, per such link, the wave entering the
monitored side and the wave leaving it.  Core Lean only (runs in the native driver). -/

namespace Monitor
variable {F : Type} [Scalar F]

/-- `S_matrix.int_complete` : uo = (1 - A12 B21)⁻¹ (A11 u + A12 B22 d), do = (1 - B21 A12)⁻¹ (B22 d + B21 A11 u) -/
def intComplete? (A B : SMat F) (u d : List F) : Except Err (List F × List F) :=
  if A.M != B.N then .error .dimension else
  match Mat.inv? (Mat.sub (Mat.one A.M) (Mat.mul A.S12 B.S21)), Mat.inv? (Mat.sub (Mat.one A.M) (Mat.mul B.S21 A.S12)) with
  | some X, some Y =>
    let col (v : List F) : Mat F := ⟨v.length, 1, v.toArray⟩
    let ut := Mat.mul A.S11 (col u)
    let dt := Mat.mul B.S22 (col d)
    let uo := Mat.mul X (Mat.add ut (Mat.mul A.S12 dt))
    let do' := Mat.mul Y (Mat.add dt (Mat.mul B.S21 ut))
    .ok (uo.d.toList, do'.d.toList)
  | _, _ => .error .singular

/-- what `get_monitor` tabulates: per link between `main` and `monitor` (in the order of `main`'s connection table) the pin
on the monitored side, the wave entering the monitored side and the wave leaving it -/
structure Readout (F : Type) where
  links : List (PinRef × PinRef)      -- (pin of main, pin of monitor)
  inward : List F
  outward : List F

/-- `Structure.intermediate` + the closure it returns, applied to an excitation given per pin -/
def intermediate (main mon : St F) (exc : PinRef → F) : Except Err (Readout F) := do
  let links ← St.linkPins main mon
  let locOut := links.map (·.1)
  let tarIn := links.map (·.2)
  let mainIn ← removeAll main.pins locOut
  let monOut ← removeAll mon.pins tarIn
  let A ← main.split mainIn locOut
  let B ← mon.split tarIn monOut
  let (uo, do') ← intComplete? A B (mainIn.map exc) (monOut.map exc)
  return { links := links, inward := uo, outward := do' }

/-- merge the base structures whose id satisfies `keep` with the given schedule (the loop of `Solver.solve` on a sub-list) -/
def mergeSubset (sched : List (St F) → Option (Nat × Nat)) (net : NetD F) (keep : Nat → Bool) (fresh : Nat) : Except Err (St F) :=
  let live := net.initial.filter fun s => keep s.id
  Solve.loopWith sched live.length live fresh

/-- the monitor path of `Solver.solve`: `main`, `monitor`, their join (the external matrix) and the read-out for an
excitation given by exposed name -/
def solveMonitored (sched : List (St F) → Option (Nat × Nat)) (net : NetD F) (mon : List Nat) (exc : List (String × F)) :
    Except Err (St F × Readout F) := do
  let n := net.comps.length
  let main ← mergeSubset sched net (fun k => !mon.contains k) n
  let monitor ← mergeSubset sched net (fun k => mon.contains k) (2 * n)
  let total ← St.join main monitor (3 * n)
  let excPin : PinRef → F := fun p =>
    match net.exposed.find? (·.2 == p) with
    | some e => ((exc.find? (·.1 == e.1)).map (·.2)).getD 0
    | none => 0
  let r ← intermediate main monitor excPin
  return (total, r)

/-- `get_monitor`: one pair of columns per reported link, named after the monitor name given to the structure that owns the
pin on the monitored side and that pin: `<monitor>_<pin>_i` (wave entering the monitored side) and `<monitor>_<pin>_o`
(wave leaving it); `view` is the identity in amplitude mode and the squared modulus in power mode -/
def tabulate {G : Type} (monName : Nat → String) (view : F → G) (r : Readout F) : List (String × G) :=
  (r.links.zip (r.inward.zip r.outward)).flatMap fun e =>
    let key := monName e.1.2.1 ++ "_" ++ e.1.2.2
    [(key ++ "_i", view e.2.1), (key ++ "_o", view e.2.2)]

end Monitor
