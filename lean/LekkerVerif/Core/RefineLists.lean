import LekkerVerif.Core.Join
import Mathlib.Data.List.Basic
import Mathlib.Data.List.Perm.Basic
import Mathlib.Data.List.Nodup

/-! list-level facts about the transcription: `removeAll` is a filter on duplicate-free lists, `zipIdx` lookup -/

theorem removeAll_eq_filter : ∀ (xs l r : List PinRef), l.Nodup → removeAll l xs = .ok r →
    r = l.filter (fun p => !xs.contains p) ∧ (∀ x ∈ xs, x ∈ l) ∧ xs.Nodup := by
  intro xs
  induction xs with
  | nil =>
    intro l r _ h
    simp only [removeAll, Except.ok.injEq] at h
    subst h
    simp
  | cons x xs ih =>
    intro l r hl h
    simp only [removeAll] at h
    split at h
    · rename_i hx
      have hxl : x ∈ l := by simpa using hx
      obtain ⟨e, hsub, hnd⟩ := ih (l.erase x) r (hl.erase x) h
      refine ⟨?_, ?_, ?_⟩
      · rw [e, hl.erase_eq_filter, List.filter_filter]
        apply List.filter_congr
        intro p _
        by_cases hp : p = x <;> simp [hp, List.contains_cons]
      · intro y hy
        rcases List.mem_cons.1 hy with rfl | hy
        · exact hxl
        · exact List.mem_of_mem_erase (hsub y hy)
      · refine List.nodup_cons.2 ⟨?_, hnd⟩
        intro hxs
        have := hsub x hxs
        exact (List.Nodup.not_mem_erase hl) this
    · simp at h

theorem perm_filter_split (l xs : List PinRef) (hl : l.Nodup) (hx : xs.Nodup) (hsub : ∀ x ∈ xs, x ∈ l) :
    l.Perm (l.filter (fun p => !xs.contains p) ++ xs) := by
  have h1 : (l.filter (fun p => !xs.contains p) ++ l.filter (fun p => !(fun p => !xs.contains p) p)).Perm l :=
    List.filter_append_perm _ l
  have h2 : (l.filter (fun p => !(fun p => !xs.contains p) p)).Perm xs := by
    apply (List.perm_ext_iff_of_nodup (hl.filter _) hx).2
    intro a
    simp only [List.mem_filter, Bool.not_not, List.contains_iff_mem]
    constructor
    · exact fun h => h.2
    · exact fun h => ⟨hsub a h, h⟩
  exact h1.symm.trans (List.Perm.append_left _ h2)

theorem filter_append_disjoint (l1 l2 xs ys : List PinRef)
    (hx : ∀ x ∈ xs, x ∈ l1) (hy : ∀ y ∈ ys, y ∈ l2) (hd : ∀ p, p ∈ l1 → p ∈ l2 → False) :
    (l1 ++ l2).filter (fun p => !(xs ++ ys).contains p)
      = l1.filter (fun p => !xs.contains p) ++ l2.filter (fun p => !ys.contains p) := by
  rw [List.filter_append]
  congr 1
  · apply List.filter_congr
    intro p hp
    have : p ∉ ys := fun h => hd p hp (hy p h)
    simp [this]
  · apply List.filter_congr
    intro p hp
    have : p ∉ xs := fun h => hd p (hx p h) hp
    simp [this]

theorem lookupL_zipIdx_aux : ∀ (l : List PinRef) (n i : Nat) (h : i < l.length), l.Nodup →
    lookupL (l.zipIdx n) l[i] = some (n + i) := by
  intro l
  induction l with
  | nil => intro n i h; simp at h
  | cons a t ih =>
    intro n i h hnd
    obtain ⟨hat, hnt⟩ := List.nodup_cons.1 hnd
    cases i with
    | zero => simp [lookupL, List.zipIdx_cons, List.find?]
    | succ i =>
      have hi : i < t.length := by simpa using h
      have hne : (a == t[i]) = false := by
        simp only [beq_eq_false_iff_ne, ne_eq]
        intro e; exact hat (e ▸ List.getElem_mem hi)
      have := ih (n + 1) i hi hnt
      simp only [lookupL, List.zipIdx_cons, List.find?, List.getElem_cons_succ, hne] at this ⊢
      rw [this]; congr 1; omega

theorem lookupL_zipIdx (l : List PinRef) (i : Nat) (h : i < l.length) (hnd : l.Nodup) :
    lookupL l.zipIdx l[i] = some i := by
  simpa using lookupL_zipIdx_aux l 0 i h hnd
