/-! Spike: Mathlib-free generic scalar + array-backed matrices -/

class Scalar (F : Type) extends Add F, Mul F, Sub F, Neg F, Zero F, One F, Inv F, BEq F, Inhabited F

structure GRat where
  re : Rat
  im : Rat
deriving DecidableEq, Repr

namespace GRat
instance : Add GRat := ⟨fun a b => ⟨a.re + b.re, a.im + b.im⟩⟩
instance : Sub GRat := ⟨fun a b => ⟨a.re - b.re, a.im - b.im⟩⟩
instance : Neg GRat := ⟨fun a => ⟨-a.re, -a.im⟩⟩
instance : Mul GRat := ⟨fun a b => ⟨a.re * b.re - a.im * b.im, a.re * b.im + a.im * b.re⟩⟩
instance : Zero GRat := ⟨⟨0, 0⟩⟩
instance : One GRat := ⟨⟨1, 0⟩⟩
instance : Inv GRat := ⟨fun a => let n := a.re * a.re + a.im * a.im; ⟨a.re / n, -a.im / n⟩⟩
instance : Scalar GRat := { default := ⟨0,0⟩ }
end GRat

/-- r×c matrix stored row-major as data -/
structure Mat (F : Type) where
  r : Nat
  c : Nat
  d : Array F      -- size r*c
deriving Repr

namespace Mat
variable {F : Type} [Scalar F]

@[inline] def get (A : Mat F) (i j : Nat) : F := A.d[i * A.c + j]!
def ofFn (r c : Nat) (f : Nat → Nat → F) : Mat F :=
  ⟨r, c, Array.ofFn (n := r * c) fun k => f (k.1 / c) (k.1 % c)⟩
def sumTo (k : Nat) (f : Nat → F) : F := Nat.fold k (fun i _ acc => acc + f i) 0
def mul (A B : Mat F) : Mat F := ofFn A.r B.c fun i j => sumTo A.c fun l => A.get i l * B.get l j
def add (A B : Mat F) : Mat F := ofFn A.r A.c fun i j => A.get i j + B.get i j
def sub (A B : Mat F) : Mat F := ofFn A.r A.c fun i j => A.get i j - B.get i j
def one (n : Nat) : Mat F := ofFn n n fun i j => if i = j then 1 else 0
def beq (A B : Mat F) : Bool := A.r == B.r && A.c == B.c && (A.d.size == B.d.size) &&
  (List.range A.d.size).all fun k => A.d[k]! == B.d[k]!

def gaussJordan (A : Mat F) : Option (Array (Array F)) := Id.run do
  let n := A.r
  let mut M : Array (Array F) := Array.ofFn fun (i : Fin n) => Array.ofFn fun (j : Fin (2*n)) =>
    if j.1 < n then A.get i.1 j.1 else (if j.1 - n = i.1 then 1 else 0)
  for col in [0:n] do
    let mut piv := n
    for r in [col:n] do
      if piv == n && !((M[r]!)[col]! == (0:F)) then piv := r
    if piv == n then return none
    let tmp := M[col]!
    M := M.set! col (M[piv]!)
    M := M.set! piv tmp
    let pinv := ((M[col]!)[col]!)⁻¹
    M := M.set! col ((M[col]!).map (· * pinv))
    for r in [0:n] do
      if r != col then
        let f := (M[r]!)[col]!
        if !(f == (0:F)) then
          let rowc := M[col]!
          M := M.set! r ((M[r]!).mapIdx fun j x => x - f * rowc[j]!)
  return some M

def inv? (A : Mat F) : Option (Mat F) :=
  match gaussJordan A with
  | none => none
  | some M =>
    let n := A.r
    let X : Mat F := ofFn n n fun i j => (M[i]!)[n + j]!
    if beq (mul A X) (one n) && beq (mul X A) (one n) then some X else none
end Mat
