import LekkerVerif.Core.Join
import LekkerVerif.Core.Bridge
import LekkerVerif.Core.Kernel

open Matrix

namespace SMat
variable {F : Type} [Field F] [DecidableEq F]

def WF (A : SMat F) : Prop :=
  A.S11.r = A.M ∧ A.S11.c = A.N ∧ A.S22.r = A.N ∧ A.S22.c = A.M ∧
  A.S12.r = A.M ∧ A.S12.c = A.M ∧ A.S21.r = A.N ∧ A.S21.c = A.N

def toSM (A : SMat F) (n m : Nat) : SM F (Fin n) (Fin m) :=
  { S11 := A.S11.toMatrix m n, S22 := A.S22.toMatrix n m, S12 := A.S12.toMatrix m m, S21 := A.S21.toMatrix n n }

@[simp] theorem mul_r (A B : Mat F) : (Mat.mul A B).r = A.r := rfl
@[simp] theorem mul_c (A B : Mat F) : (Mat.mul A B).c = B.c := rfl
@[simp] theorem add_r (A B : Mat F) : (Mat.add A B).r = A.r := rfl
@[simp] theorem add_c (A B : Mat F) : (Mat.add A B).c = A.c := rfl
@[simp] theorem sub_r (A B : Mat F) : (Mat.sub A B).r = A.r := rfl
@[simp] theorem sub_c (A B : Mat F) : (Mat.sub A B).c = A.c := rfl
@[simp] theorem one_r (n : Nat) : (Mat.one n : Mat F).r = n := rfl
@[simp] theorem one_c (n : Nat) : (Mat.one n : Mat F).c = n := rfl

theorem add?_spec (A B C : SMat F) (hA : A.WF) (hB : B.WF) (h : A.add? B = .ok C) :
    A.M = B.N ∧ C.N = A.N ∧ C.M = B.M ∧ C.WF ∧
    IsUnit (1 - (A.toSM A.N A.M).S12 * (B.toSM A.M B.M).S21) ∧
    C.toSM A.N B.M = (A.toSM A.N A.M).add (B.toSM A.M B.M) := by
  obtain ⟨a11r, a11c, a22r, a22c, a12r, a12c, a21r, a21c⟩ := hA
  obtain ⟨b11r, b11c, b22r, b22c, b12r, b12c, b21r, b21c⟩ := hB
  unfold add? at h
  split at h
  · simp at h
  · rename_i hMN
    have hM : A.M = B.N := by simpa using hMN
    split at h
    · rename_i X Y hX hY
      have sX := Mat.inv?_spec _ X A.M (by simp) (by simp) hX
      have sY := Mat.inv?_spec _ Y A.M (by simp) (by simp) hY
      obtain ⟨xr, xc, xl, _⟩ := sX
      obtain ⟨yr, yc, yl, _⟩ := sY
      -- the two inner systems as Mathlib matrices
      have eX : (Mat.sub (Mat.one A.M) (Mat.mul A.S12 B.S21)).toMatrix A.M A.M
          = 1 - A.S12.toMatrix A.M A.M * B.S21.toMatrix A.M A.M := by
        rw [Mat.toMatrix_sub' _ _ A.M A.M (by simp) (by simp), Mat.toMatrix_one,
          Mat.toMatrix_mul' _ _ A.M A.M A.M a12r a12c (by rw [b21c, hM])]
      have eY : (Mat.sub (Mat.one A.M) (Mat.mul B.S21 A.S12)).toMatrix A.M A.M
          = 1 - B.S21.toMatrix A.M A.M * A.S12.toMatrix A.M A.M := by
        rw [Mat.toMatrix_sub' _ _ A.M A.M (by simp) (by simp), Mat.toMatrix_one,
          Mat.toMatrix_mul' _ _ A.M A.M A.M (by rw [b21r, hM]) (by rw [b21c, hM]) a12c]
      rw [eX] at xl
      rw [eY] at yl
      have iX : X.toMatrix A.M A.M = (1 - A.S12.toMatrix A.M A.M * B.S21.toMatrix A.M A.M)⁻¹ :=
        (Matrix.inv_eq_right_inv xl).symm
      have iY : Y.toMatrix A.M A.M = (1 - B.S21.toMatrix A.M A.M * A.S12.toMatrix A.M A.M)⁻¹ :=
        (Matrix.inv_eq_right_inv yl).symm
      have uX : IsUnit (1 - A.S12.toMatrix A.M A.M * B.S21.toMatrix A.M A.M) :=
        (Matrix.isUnit_iff_isUnit_det _).2 (Matrix.isUnit_det_of_right_inverse xl)
      simp only [Except.ok.injEq] at h
      subst h
      refine ⟨hM, rfl, rfl, ?_, uX, ?_⟩
      · simp [WF, *]
      · simp only [toSM, SM.add]
        congr 1
        · -- S11 = T1 * A.S11
          rw [Mat.toMatrix_mul' _ _ B.M A.M A.N (by simp [b11r]) (by simp [xc]) a11c,
            Mat.toMatrix_mul' _ _ B.M A.M A.M b11r (by rw [b11c, hM]) xc, iX]
        · -- S22 = T2 * B.S22
          rw [Mat.toMatrix_mul' _ _ A.N A.M B.M (by simp [a22r]) (by simp [yc]) b22c,
            Mat.toMatrix_mul' _ _ A.N A.M A.M a22r a22c yc, iY]
        · -- S12 = B.S12 + T1 * A.S12 * B.S22
          rw [Mat.toMatrix_add' _ _ B.M B.M b12r b12c,
            Mat.toMatrix_mul' _ _ B.M A.M B.M (by simp [b11r]) (by simp [a12c]) b22c,
            Mat.toMatrix_mul' _ _ B.M A.M A.M (by simp [b11r]) (by simp [xc]) a12c,
            Mat.toMatrix_mul' _ _ B.M A.M A.M b11r (by rw [b11c, hM]) xc, iX]
        · -- S21 = A.S21 + T2 * B.S21 * A.S11
          rw [Mat.toMatrix_add' _ _ A.N A.N a21r a21c,
            Mat.toMatrix_mul' _ _ A.N A.M A.N (by simp [a22r]) (by simp [b21c, hM]) a11c,
            Mat.toMatrix_mul' _ _ A.N A.M A.M (by simp [a22r]) (by simp [yc]) (by rw [b21c, hM]),
            Mat.toMatrix_mul' _ _ A.N A.M A.M a22r a22c yc, iY]
    · simp at h
end SMat
