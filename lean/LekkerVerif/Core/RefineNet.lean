import LekkerVerif.Core.Net
import LekkerVerif.Core.RefineBook

namespace NetD
variable {F : Type} [Field F] [DecidableEq F]

/-- the symmetric link relation -/
def Lnk (net : NetD F) (p q : PinRef) : Prop := (p, q) ∈ net.links ∨ (q, p) ∈ net.links

theorem Lnk.symm {net : NetD F} {p q : PinRef} (h : net.Lnk p q) : net.Lnk q p := Or.symm h

/-- network equations: component equations, link equations, no input at unexposed free pins -/
structure Sol (net : NetD F) (a b : PinRef → F) : Prop where
  comp : ∀ s ∈ net.initial, Eqn s.pins s.sem a b
  link : ∀ l ∈ net.links, a l.1 = b l.2 ∧ a l.2 = b l.1
  free : ∀ s ∈ net.initial, ∀ p ∈ s.pins, (∀ q, ¬ net.Lnk p q) → p ∉ net.exposed.map (·.2) → a p = 0

/-- well-formed description -/
structure WF (net : NetD F) : Prop where
  pinsNodup : ∀ c ∈ net.comps, c.pins.Nodup
  endsNodup : (net.links.flatMap fun l => [l.1, l.2]).Nodup       -- every pin in at most one link
  endsPins  : ∀ l ∈ net.links, ∀ p, (p = l.1 ∨ p = l.2) → ∃ c, net.comps[p.1]? = some c ∧ p.2 ∈ c.pins
  noSelf    : ∀ l ∈ net.links, l.1.1 ≠ l.2.1

theorem mem_initial (net : NetD F) (s : St F) :
    s ∈ net.initial ↔ ∃ k c, net.comps[k]? = some c ∧ s = net.mkSt k c := by
  unfold initial
  simp only [List.mem_map, List.mem_zipIdx_iff_getElem?, Prod.exists]
  constructor
  · rintro ⟨c, k, h, rfl⟩; exact ⟨k, c, by simpa using h, rfl⟩
  · rintro ⟨k, c, h, rfl⟩; exact ⟨c, k, by simpa using h, rfl⟩

theorem mem_connOf (links : List (PinRef × PinRef)) (k : Nat) (e : PinRef × PinRef) :
    e ∈ connOf links k ↔ (e ∈ links ∧ e.1.1 = k) ∨ ((e.2, e.1) ∈ links ∧ e.2.1 ≠ k ∧ e.1.1 = k) := by
  unfold connOf
  simp only [List.mem_filterMap]
  constructor
  · rintro ⟨l, hl, h⟩
    split at h
    · rename_i h1
      simp only [Option.some.injEq] at h; subst h
      exact Or.inl ⟨hl, by simpa using h1⟩
    · rename_i h1
      split at h
      · rename_i h2
        simp only [Option.some.injEq] at h; subst h
        exact Or.inr ⟨hl, by simpa using h1, by simpa using h2⟩
      · simp at h
  · rintro (⟨hl, h1⟩ | ⟨hl, h1, h2⟩)
    · exact ⟨e, hl, by simp [h1]⟩
    · refine ⟨(e.2, e.1), hl, ?_⟩
      have : ((e.2.1 == k) = false) := by simpa using h1
      simp [this, h2]

end NetD

namespace NetD
variable {F : Type} [Field F] [DecidableEq F]
open Solve

theorem connOf_keys_sublist (links : List (PinRef × PinRef)) (k : Nat) :
    ((connOf links k).map (·.1)).Sublist (links.flatMap fun l => [l.1, l.2]) := by
  induction links with
  | nil => simp [connOf]
  | cons l ls ih =>
    simp only [connOf, List.filterMap_cons, List.flatMap_cons] at ih ⊢
    split
    · exact List.Sublist.trans ih (List.sublist_append_right _ _)
    · rename_i e he
      split at he
      · simp only [Option.some.injEq] at he; subst he
        simp only [List.map_cons, List.cons_append, List.nil_append]
        exact List.Sublist.cons₂ _ (List.Sublist.cons _ ih)
      · split at he
        · simp only [Option.some.injEq] at he; subst he
          simp only [List.map_cons, List.cons_append, List.nil_append]
          exact List.Sublist.cons _ (List.Sublist.cons₂ _ ih)
        · simp at he

theorem membersOf_mkSt (net : NetD F) (k : Nat) (c : CompD F) : St.membersOf (net.mkSt k c) = [k] := by
  simp [St.membersOf, mkSt]

theorem mem_pins_mkSt (net : NetD F) (k : Nat) (c : CompD F) (p : PinRef) :
    p ∈ (net.mkSt k c).pins ↔ p.1 = k ∧ p.2 ∈ c.pins := by
  simp only [mkSt, List.mem_map]
  constructor
  · rintro ⟨n, hn, rfl⟩; exact ⟨rfl, hn⟩
  · rintro ⟨h1, h2⟩; exact ⟨p.2, h2, by rw [← h1]⟩

theorem good_mkSt (net : NetD F) (wf : net.WF) (k : Nat) (c : CompD F) (hk : net.comps[k]? = some c) :
    Good net.Sol (net.mkSt k c) := by
  have hc : c ∈ net.comps := List.mem_of_getElem? hk
  refine ⟨?_, ?_, ?_⟩
  · simp only [mkSt]
    exact (wf.pinsNodup c hc).map (fun a b e => (Prod.mk.inj e).2)
  · intro a b hw
    exact hw.comp _ ((mem_initial net _).2 ⟨k, c, hk, rfl⟩)
  · intro a b hw e he
    have he' : e ∈ connOf net.links k := he
    rcases (mem_connOf _ _ _).1 he' with ⟨h1, _⟩ | ⟨h1, _, _⟩
    · exact hw.link e h1
    · have := hw.link (e.2, e.1) h1
      exact ⟨this.2, this.1⟩

theorem book_mkSt (net : NetD F) (wf : net.WF) (k : Nat) (c : CompD F) (hk : net.comps[k]? = some c) :
    Book net.Lnk net.comps.length (net.mkSt k c) := by
  have hklt : k < net.comps.length := by
    have := List.getElem?_eq_some_iff.1 hk; exact this.1
  -- an endpoint owned by k is a pin of this structure
  have endpin : ∀ l ∈ net.links, ∀ p, (p = l.1 ∨ p = l.2) → p.1 = k → p ∈ (net.mkSt k c).pins := by
    intro l hl p hp hpk
    obtain ⟨c', hc', hp2⟩ := wf.endsPins l hl p hp
    rw [hpk, hk] at hc'
    have : c = c' := Option.some.inj hc'
    subst this
    exact (mem_pins_mkSt net k c p).2 ⟨hpk, hp2⟩
  have ownlt : ∀ l ∈ net.links, ∀ p, (p = l.1 ∨ p = l.2) → p.1 < net.comps.length := by
    intro l hl p hp
    obtain ⟨c', hc', _⟩ := wf.endsPins l hl p hp
    exact (List.getElem?_eq_some_iff.1 hc').1
  refine ⟨?_, ?_, ?_, ?_, ?_, ?_, ?_, ?_⟩
  · intro p hp
    rw [membersOf_mkSt]
    simp [((mem_pins_mkSt net k c p).1 hp).1]
  · exact List.Nodup.sublist (connOf_keys_sublist net.links k) wf.endsNodup
  · intro e he
    have he' : e ∈ connOf net.links k := he
    rcases (mem_connOf _ _ _).1 he' with ⟨h1, h2⟩ | ⟨h1, _, h2⟩
    · exact endpin e h1 e.1 (Or.inl rfl) h2
    · exact endpin (e.2, e.1) h1 e.1 (Or.inr rfl) h2
  · intro e he
    have he' : e ∈ connOf net.links k := he
    rw [membersOf_mkSt]
    rcases (mem_connOf _ _ _).1 he' with ⟨h1, h2⟩ | ⟨h1, h3, h2⟩
    · refine ⟨?_, ownlt e h1 e.2 (Or.inr rfl)⟩
      have := wf.noSelf e h1
      simp only [List.mem_singleton]
      exact fun h => this (h2.trans h.symm)
    · refine ⟨by simpa using h3, ownlt (e.2, e.1) h1 e.2 (Or.inl rfl)⟩
  · intro p hp q hL
    have hpk := ((mem_pins_mkSt net k c p).1 hp).1
    show (p, q) ∈ connOf net.links k
    rw [mem_connOf]
    rcases hL with h | h
    · exact Or.inl ⟨h, hpk⟩
    · refine Or.inr ⟨h, ?_, hpk⟩
      have := wf.noSelf (q, p) h
      simp only at this
      rw [hpk] at this
      exact this
  · intro q r hq hnq hL
    rw [membersOf_mkSt] at hq
    have hqk : q.1 = k := by simpa using hq
    exfalso
    rcases hL with h | h
    · exact hnq (endpin (q, r) h q (Or.inl rfl) hqk)
    · exact hnq (endpin (r, q) h q (Or.inr rfl) hqk)
  · intro h; exact absurd rfl h
  · intro _; exact hklt

end NetD

namespace NetD
variable {F : Type} [Field F] [DecidableEq F]
open Solve

theorem fullInv_initial (net : NetD F) (wf : net.WF) :
    FullInv net.Sol net.Lnk net.comps.length (List.range net.comps.length) net.initial net.comps.length := by
  have getk : ∀ s ∈ net.initial, ∃ k c, net.comps[k]? = some c ∧ s = net.mkSt k c := fun s hs => (mem_initial net s).1 hs
  refine ⟨⟨?_, ?_, ?_⟩, ?_, ?_, le_refl _, ?_, ?_⟩
  · intro s hs
    obtain ⟨k, c, hk, rfl⟩ := getk s hs
    exact good_mkSt net wf k c hk
  · intro s hs t ht hne p hp hq
    obtain ⟨k, c, hk, rfl⟩ := getk s hs
    obtain ⟨k', c', hk', rfl⟩ := getk t ht
    have h1 := ((mem_pins_mkSt net k c p).1 hp).1
    have h2 := ((mem_pins_mkSt net k' c' p).1 hq).1
    exact hne (h1.symm.trans h2)
  · intro s hs
    obtain ⟨k, c, hk, rfl⟩ := getk s hs
    exact (List.getElem?_eq_some_iff.1 hk).1
  · intro s hs
    obtain ⟨k, c, hk, rfl⟩ := getk s hs
    exact book_mkSt net wf k c hk
  · intro s hs t ht hne k hks hkt
    obtain ⟨k1, c1, _, rfl⟩ := getk s hs
    obtain ⟨k2, c2, _, rfl⟩ := getk t ht
    rw [membersOf_mkSt] at hks hkt
    simp only [List.mem_singleton] at hks hkt
    exact hne (hks.symm.trans hkt)
  · intro k hk
    have hlt : k < net.comps.length := List.mem_range.1 hk
    refine ⟨net.mkSt k net.comps[k], (mem_initial net _).2 ⟨k, _, List.getElem?_eq_getElem hlt, rfl⟩, ?_⟩
    rw [membersOf_mkSt]; simp
  · intro s hs t ht he
    obtain ⟨k1, c1, h1, rfl⟩ := getk s hs
    obtain ⟨k2, c2, h2, rfl⟩ := getk t ht
    have : k1 = k2 := he
    subst this
    rw [h1] at h2
    rw [Option.some.inj h2]

/-- the top-level executable solve for an arbitrary schedule -/
def solveWith (sched : List (St F) → Option (Nat × Nat)) (net : NetD F) : Except Err (St F) :=
  loopWith sched net.comps.length net.initial net.comps.length

/-- **C01, soundness half, any schedule**: every solution of the network equations satisfies the equation of the
    structure `solve` ends with, and that structure has no linked pin left. -/
theorem solveWith_sound (net : NetD F) (wf : net.WF) (sched) (total : St F)
    (h : net.solveWith sched = .ok total) :
    (∀ a b, net.Sol a b → Eqn total.pins total.sem a b) ∧ (∀ p ∈ total.pins, ∀ q, ¬ net.Lnk p q) := by
  have hLbase : ∀ p q, net.Lnk p q → q.1 ∈ List.range net.comps.length := by
    intro p q hL
    rw [List.mem_range]
    rcases hL with hL | hL
    · obtain ⟨c, hc, _⟩ := wf.endsPins _ hL q (Or.inr rfl)
      exact (List.getElem?_eq_some_iff.1 hc).1
    · obtain ⟨c, hc, _⟩ := wf.endsPins _ hL q (Or.inl rfl)
      exact (List.getElem?_eq_some_iff.1 hc).1
  obtain ⟨g, hno⟩ := loopWith_full net.Sol net.Lnk net.comps.length (fun p q h => h.symm)
    (List.range net.comps.length) hLbase sched _ _ _ total (fullInv_initial net wf) h
  exact ⟨g.eqn, hno⟩

end NetD

namespace Solve
variable {F : Type} [Field F] [DecidableEq F]

/-- pins are never invented: any property of all initial pins holds for the pins of the result -/
theorem loopWith_pins (W : (PinRef → F) → (PinRef → F) → Prop) (P0 : PinRef → Prop) (sched) :
    ∀ (fuel : Nat) (live : List (St F)) (fresh : Nat) (total : St F),
      LiveInv W live fresh → (∀ s ∈ live, ∀ p ∈ s.pins, P0 p) →
      loopWith sched fuel live fresh = .ok total → ∀ p ∈ total.pins, P0 p := by
  have step : ∀ (live live' : List (St F)) (fresh : Nat), LiveInv W live fresh →
      (∀ s ∈ live, ∀ p ∈ s.pins, P0 p) → stepWith sched live fresh = .ok live' →
      (∀ s ∈ live', ∀ p ∈ s.pins, P0 p) := by
    intro live live' fresh inv hP h
    unfold stepWith at h
    split at h
    · simp at h
    · rename_i i j _
      split at h
      · rename_i src tar hsrc htar
        split at h
        · simp at h
        · rename_i hij
          split at h
          · simp at h
          · rename_i new hjoin
            simp only [Except.ok.injEq] at h
            subst h
            have hsm := List.mem_of_find?_eq_some hsrc
            have htm := List.mem_of_find?_eq_some htar
            have hsi : src.id = i := by simpa using List.find?_some hsrc
            have hti : tar.id = j := by simpa using List.find?_some htar
            have hne : src.id ≠ tar.id := by rw [hsi, hti]; simpa using hij
            obtain ⟨_, subnew⟩ := join_good W src tar new fresh (inv.good _ hsm) (inv.good _ htm)
              (inv.disj _ hsm _ htm hne) hjoin
            intro s hs p hp
            rcases List.mem_append.1 hs with hs | hs
            · exact hP s (List.mem_of_mem_filter hs) p hp
            · have : s = new := by simpa using hs
              rw [this] at hp
              rcases subnew p hp with hp | hp
              · exact hP _ hsm p hp
              · exact hP _ htm p hp
      · simp at h
  intro fuel
  induction fuel with
  | zero =>
    intro live fresh total inv hP h
    simp only [loopWith] at h
    split at h
    · simp only [Except.ok.injEq] at h; subst h; exact hP _ (by simp)
    · simp at h
  | succ n ih =>
    intro live fresh total inv hP h
    simp only [loopWith] at h
    split at h
    · simp only [Except.ok.injEq] at h; subst h; exact hP _ (by simp)
    · split at h
      · simp at h
      · rename_i live' hstep
        exact ih live' (fresh + 1) total (stepWith_inv W sched live live' fresh inv hstep)
          (step live live' fresh inv hP hstep) h
end Solve

namespace NetD
variable {F : Type} [Field F] [DecidableEq F]
open Solve

/-- a sum over a duplicate-free list whose terms vanish outside a duplicate-free sub-collection -/
theorem sum_restrict (l E : List PinRef) (f : PinRef → F) (hl : l.Nodup) (hE : E.Nodup) (hsub : ∀ x ∈ E, x ∈ l)
    (hz : ∀ x ∈ l, x ∉ E → f x = 0) : (l.map f).sum = (E.map f).sum := by
  have hp := perm_filter_split l E hl hE hsub
  rw [(hp.map f).sum_eq, List.map_append, List.sum_append]
  have : ((l.filter fun p => !E.contains p).map f).sum = 0 := by
    apply List.sum_eq_zero
    intro y hy
    obtain ⟨x, hx, rfl⟩ := List.mem_map.1 hy
    have := List.mem_filter.1 hx
    exact hz x this.1 (by simpa using this.2)
  rw [this, zero_add]

/-- **read-out**: on the exposed pins the outputs of every solution are the exposed-pin block of `total` applied to the
    exposed inputs (unexposed free pins receive no wave). -/
theorem solveWith_readout (net : NetD F) (wf : net.WF) (sched) (total : St F)
    (h : net.solveWith sched = .ok total)
    (hEn : (net.exposed.map (·.2)).Nodup) (hEin : ∀ e ∈ net.exposed, e.2 ∈ total.pins)
    (a b : PinRef → F) (hs : net.Sol a b) :
    ∀ e ∈ net.exposed, b e.2 = (net.exposed.map fun y => total.sem e.2 y.2 * a y.2).sum := by
  obtain ⟨heq, hno⟩ := solveWith_sound net wf sched total h
  have inv := fullInv_initial net wf
  have hgood := loopWith_sound net.Sol sched _ _ _ total inv.linv h
  have horig : ∀ p ∈ total.pins, ∃ s ∈ net.initial, p ∈ s.pins :=
    loopWith_pins net.Sol (fun p => ∃ s ∈ net.initial, p ∈ s.pins) sched _ _ _ total inv.linv
      (fun s hs p hp => ⟨s, hs, hp⟩) h
  intro e he
  have := heq a b hs e.2 (hEin e he)
  rw [this]
  unfold rowSum
  have key := sum_restrict total.pins (net.exposed.map (·.2)) (fun q => total.sem e.2 q * a q)
    hgood.nodup hEn
    (by intro x hx; obtain ⟨y, hy, rfl⟩ := List.mem_map.1 hx; exact hEin y hy)
    (by
      intro x hx hnx
      obtain ⟨s, hsi, hxs⟩ := horig x hx
      have : a x = 0 := hs.free s hsi x hxs (hno x hx) hnx
      simp [this])
  rw [key, List.map_map]
  rfl

end NetD
