import LekkerVerif.Core.Solve
import Batteries.Data.List.Basic
/-! Shape independence: the bookkeeping of `St.join` and of the elimination loops does not depend on
the matrix values (`S`).  This is what justifies running one control flow for a whole parameter sweep. -/

set_option linter.unusedSectionVars false

variable {F : Type} [Scalar F]

/-! ## Generic helpers -/
namespace ShapeIndep

theorem bind_ok {α β : Type} {x : Except Err α} {f : α → Except Err β} {b : β}
    (h : (x >>= f) = .ok b) : ∃ a, x = .ok a ∧ f a = .ok b := by
  cases x with
  | error e => simp only [bind, Except.bind] at h; cases h
  | ok a => exact ⟨a, rfl, h⟩

/-- relation on options induced by a relation on values -/
def OptRel {α β : Type} (R : α → β → Prop) : Option α → Option β → Prop
  | some a, some b => R a b
  | none, none => True
  | _, _ => False

variable {α β γ : Type} {R : α → β → Prop}

theorem forall₂_append {l₁ l₂ : List α} {l₁' l₂' : List β}
    (h₁ : List.Forall₂ R l₁ l₁') (h₂ : List.Forall₂ R l₂ l₂') :
    List.Forall₂ R (l₁ ++ l₂) (l₁' ++ l₂') := by
  induction h₁ with
  | nil => exact h₂
  | cons hab _ ih => exact List.Forall₂.cons hab ih

theorem forall₂_singleton {a : α} {b : β} (h : R a b) : List.Forall₂ R [a] [b] :=
  List.Forall₂.cons h List.Forall₂.nil

theorem forall₂_reverse {l : List α} {l' : List β} (h : List.Forall₂ R l l') :
    List.Forall₂ R l.reverse l'.reverse := by
  induction h with
  | nil => exact List.Forall₂.nil
  | cons hab _ ih =>
    simp only [List.reverse_cons]
    exact forall₂_append ih (forall₂_singleton hab)

theorem forall₂_filter {p : α → Bool} {q : β → Bool} (hpq : ∀ a b, R a b → p a = q b)
    {l : List α} {l' : List β} (h : List.Forall₂ R l l') :
    List.Forall₂ R (l.filter p) (l'.filter q) := by
  induction h with
  | nil => exact List.Forall₂.nil
  | @cons a b _ _ hab _ ih =>
    simp only [List.filter_cons, hpq a b hab]
    split
    · exact List.Forall₂.cons hab ih
    · exact ih

theorem forall₂_find? {p : α → Bool} {q : β → Bool} (hpq : ∀ a b, R a b → p a = q b)
    {l : List α} {l' : List β} (h : List.Forall₂ R l l') :
    OptRel R (l.find? p) (l'.find? q) := by
  induction h with
  | nil => exact True.intro
  | @cons a b _ _ hab _ ih =>
    simp only [List.find?_cons, hpq a b hab]
    split
    · exact hab
    · exact ih

theorem forall₂_filterMap_same {f : γ → Option α} {g : γ → Option β}
    (hfg : ∀ x, OptRel R (f x) (g x)) (l : List γ) :
    List.Forall₂ R (l.filterMap f) (l.filterMap g) := by
  induction l with
  | nil => exact List.Forall₂.nil
  | cons x xs ih =>
    have hx := hfg x
    simp only [List.filterMap_cons]
    cases hf : f x <;> cases hg : g x <;> simp only [hf, hg, OptRel] at hx ⊢
    · exact ih
    · exact List.Forall₂.cons hx ih

theorem forall₂_spanLoop {p : α → Bool} {q : β → Bool} (hpq : ∀ a b, R a b → p a = q b)
    {l : List α} {l' : List β} (h : List.Forall₂ R l l') :
    ∀ {rs : List α} {rs' : List β}, List.Forall₂ R rs rs' →
      List.Forall₂ R (List.span.loop p l rs).1 (List.span.loop q l' rs').1 ∧
      List.Forall₂ R (List.span.loop p l rs).2 (List.span.loop q l' rs').2 := by
  induction h with
  | nil =>
    intro rs rs' hrs
    simp only [List.span.loop]
    exact ⟨forall₂_reverse hrs, List.Forall₂.nil⟩
  | @cons a b as bs hab hrest ih =>
    intro rs rs' hrs
    simp only [List.span.loop, hpq a b hab]
    cases hq : q b with
    | true => exact ih (List.Forall₂.cons hab hrs)
    | false => exact ⟨forall₂_reverse hrs, List.Forall₂.cons hab hrest⟩

theorem forall₂_span {p : α → Bool} {q : β → Bool} (hpq : ∀ a b, R a b → p a = q b)
    {l : List α} {l' : List β} (h : List.Forall₂ R l l') :
    List.Forall₂ R (l.span p).1 (l'.span q).1 ∧ List.Forall₂ R (l.span p).2 (l'.span q).2 :=
  forall₂_spanLoop hpq h List.Forall₂.nil

end ShapeIndep

open ShapeIndep

/-! ## Same shape -/
namespace St

/-- two structures that differ at most in their matrix `S` -/
def SameShape (a b : St F) : Prop :=
  a.id = b.id ∧ a.pins = b.pins ∧ a.idx = b.idx ∧ a.conn = b.conn ∧ a.connTo = b.connTo ∧
    a.members = b.members

theorem SameShape.refl (a : St F) : a.SameShape a := ⟨rfl, rfl, rfl, rfl, rfl, rfl⟩

theorem SameShape.symm {a b : St F} (h : a.SameShape b) : b.SameShape a :=
  ⟨h.1.symm, h.2.1.symm, h.2.2.1.symm, h.2.2.2.1.symm, h.2.2.2.2.1.symm, h.2.2.2.2.2.symm⟩

theorem SameShape.trans {a b c : St F} (h : a.SameShape b) (g : b.SameShape c) : a.SameShape c :=
  ⟨h.1.trans g.1, h.2.1.trans g.2.1, h.2.2.1.trans g.2.2.1, h.2.2.2.1.trans g.2.2.2.1,
    h.2.2.2.2.1.trans g.2.2.2.2.1, h.2.2.2.2.2.trans g.2.2.2.2.2⟩

theorem SameShape.id_eq {a b : St F} (h : a.SameShape b) : a.id = b.id := h.1
theorem SameShape.pins_eq {a b : St F} (h : a.SameShape b) : a.pins = b.pins := h.2.1
theorem SameShape.idx_eq {a b : St F} (h : a.SameShape b) : a.idx = b.idx := h.2.2.1
theorem SameShape.conn_eq {a b : St F} (h : a.SameShape b) : a.conn = b.conn := h.2.2.2.1
theorem SameShape.connTo_eq {a b : St F} (h : a.SameShape b) : a.connTo = b.connTo := h.2.2.2.2.1
theorem SameShape.members_eq {a b : St F} (h : a.SameShape b) : a.members = b.members :=
  h.2.2.2.2.2

/-! ### shape-only functions -/

theorem group_sameShape {a a' : St F} (h : a.SameShape a') : a.group = a'.group := by
  unfold group; rw [h.id_eq, h.members_eq]

theorem getOutTo_sameShape {a a' b b' : St F} (ha : a.SameShape a') (hb : b.SameShape b') :
    a.getOutTo b = a'.getOutTo b' := by
  unfold getOutTo; rw [group_sameShape hb, ha.conn_eq]

theorem getInFrom_sameShape {a a' b b' : St F} (ha : a.SameShape a') (hb : b.SameShape b') :
    a.getInFrom b = a'.getInFrom b' := by
  unfold getInFrom; rw [group_sameShape ha, hb.conn_eq]

theorem linkPins_sameShape {a a' b b' : St F} (ha : a.SameShape a') (hb : b.SameShape b') :
    St.linkPins a b = St.linkPins a' b' := by
  unfold linkPins
  rw [getOutTo_sameShape ha hb, getInFrom_sameShape hb ha, ha.conn_eq, hb.conn_eq]

theorem hasIdx_sameShape {a a' : St F} (h : a.SameShape a') (l : List PinRef) :
    a.hasIdx l = a'.hasIdx l := by
  unfold hasIdx; rw [h.idx_eq]

theorem membersOf_sameShape {a a' : St F} (h : a.SameShape a') : a.membersOf = a'.membersOf := by
  unfold membersOf; rw [h.id_eq, h.members_eq]

theorem build_sameShape {a a' b b' : St F} (ha : a.SameShape a') (hb : b.SameShape b') (n : Nat)
    (C C' : SMat F) (p : List PinRef) : (build a b n C p).SameShape (build a' b' n C' p) := by
  simp only [build, SameShape, membersOf_sameShape ha, membersOf_sameShape hb, ha.conn_eq,
    hb.conn_eq, ha.connTo_eq, hb.connTo_eq, and_self]

/-! ### `split` and `add?` -/

theorem split_ok {s : St F} {i o : List PinRef} {A : SMat F} (h : s.split i o = .ok A) :
    (s.hasIdx i && s.hasIdx o) = true ∧ A.N = i.length ∧ A.M = o.length := by
  unfold split at h
  split at h
  · rename_i hc
    cases h
    exact ⟨hc, rfl, rfl⟩
  · cases h

theorem split_of_hasIdx {s : St F} {i o : List PinRef} (h : (s.hasIdx i && s.hasIdx o) = true) :
    ∃ A, s.split i o = .ok A ∧ A.N = i.length ∧ A.M = o.length := by
  unfold split
  rw [if_pos h]
  exact ⟨_, rfl, rfl, rfl⟩

end St

theorem SMat.add?_ok_dim {A B C : SMat F} (h : A.add? B = .ok C) : (A.M != B.N) = false := by
  cases hd : (A.M != B.N) with
  | false => rfl
  | true =>
    unfold SMat.add? at h
    rw [if_pos hd] at h
    cases h

theorem SMat.add?_ok_or_singular {A B : SMat F} (hd : (A.M != B.N) = false) :
    (∃ C, A.add? B = .ok C) ∨ A.add? B = .error .singular := by
  unfold SMat.add?
  rw [if_neg (by rw [hd]; exact Bool.false_ne_true)]
  split
  · exact Or.inl ⟨_, rfl⟩
  · exact Or.inr rfl

namespace St

/-! ### `join` -/

/-- everything `join` computed when it succeeded -/
theorem join_ok_elim {a b : St F} {n : Nat} {c : St F} (h : St.join a b n = .ok c) :
    ∃ (links : List (PinRef × PinRef)) (selfIn stOut : List PinRef) (A B C : SMat F)
      (addPins : List PinRef),
      linkPins a b = .ok links ∧
      removeAll a.pins (links.map (·.1)) = .ok selfIn ∧
      removeAll b.pins (links.map (·.2)) = .ok stOut ∧
      a.split selfIn (links.map (·.1)) = .ok A ∧
      b.split (links.map (·.2)) stOut = .ok B ∧
      A.add? B = .ok C ∧
      removeAll (a.pins ++ b.pins) (links.map (·.1) ++ links.map (·.2)) = .ok addPins ∧
      c = build a b n C addPins := by
  unfold join at h
  obtain ⟨links, h1, h⟩ := bind_ok h
  dsimp only at h
  obtain ⟨selfIn, h2, h⟩ := bind_ok h
  obtain ⟨stOut, h3, h⟩ := bind_ok h
  obtain ⟨A, h4, h⟩ := bind_ok h
  obtain ⟨B, h5, h⟩ := bind_ok h
  obtain ⟨C, h6, h⟩ := bind_ok h
  obtain ⟨addPins, h7, h⟩ := bind_ok h
  simp only [pure, Except.pure, Except.ok.injEq] at h
  exact ⟨links, selfIn, stOut, A, B, C, addPins, h1, h2, h3, h4, h5, h6, h7, h.symm⟩

/-- `join` once everything up to the star product is known -/
theorem join_eq_of {a b : St F} {n : Nat} {links : List (PinRef × PinRef)}
    {selfIn stOut addPins : List PinRef} {A B : SMat F}
    (h1 : linkPins a b = .ok links)
    (h2 : removeAll a.pins (links.map (·.1)) = .ok selfIn)
    (h3 : removeAll b.pins (links.map (·.2)) = .ok stOut)
    (h4 : a.split selfIn (links.map (·.1)) = .ok A)
    (h5 : b.split (links.map (·.2)) stOut = .ok B)
    (h7 : removeAll (a.pins ++ b.pins) (links.map (·.1) ++ links.map (·.2)) = .ok addPins) :
    St.join a b n = match A.add? B with
      | .ok C => .ok (build a b n C addPins)
      | .error e => .error e := by
  unfold join
  simp only [h1, h2, h3, h4, h5, h7, bind, Except.bind, pure, Except.pure]
  cases A.add? B <;> rfl

end St

namespace St

/-- the composite's id, pin list, index map, connection table, neighbour list and members do not
depend on the matrix values of the two operands -/
theorem join_sameShape {a a' b b' : St F} (ha : a.SameShape a') (hb : b.SameShape b') (n : Nat)
    {c c' : St F} (h : St.join a b n = .ok c) (h' : St.join a' b' n = .ok c') :
    c.SameShape c' := by
  obtain ⟨links, _, _, _, _, C, addPins, h1, _, _, _, _, _, h7, rfl⟩ := join_ok_elim h
  obtain ⟨links', _, _, _, _, C', addPins', h1', _, _, _, _, _, h7', rfl⟩ := join_ok_elim h'
  rw [linkPins_sameShape ha hb, h1'] at h1
  cases h1
  rw [ha.pins_eq, hb.pins_eq, h7'] at h7
  cases h7
  exact build_sameShape ha hb n C C' addPins

/-- when `join` succeeds on one slice, the only way it can fail on a same-shape slice is a singular
star product: every other failure class depends on the shape only -/
theorem join_ok_of_sameShape_ne_singular {a a' b b' : St F} (ha : a.SameShape a')
    (hb : b.SameShape b') (n : Nat) {c : St F} (h : St.join a b n = .ok c) :
    (∃ c', St.join a' b' n = .ok c') ∨ St.join a' b' n = .error .singular := by
  obtain ⟨links, selfIn, stOut, A, B, C, addPins, h1, h2, h3, h4, h5, h6, h7, _⟩ := join_ok_elim h
  rw [linkPins_sameShape ha hb] at h1
  rw [ha.pins_eq] at h2
  rw [hb.pins_eq] at h3
  rw [ha.pins_eq, hb.pins_eq] at h7
  obtain ⟨hA, hAN, hAM⟩ := split_ok h4
  obtain ⟨hB, hBN, hBM⟩ := split_ok h5
  rw [hasIdx_sameShape ha, hasIdx_sameShape ha] at hA
  rw [hasIdx_sameShape hb, hasIdx_sameShape hb] at hB
  obtain ⟨A', h4', hAN', hAM'⟩ := split_of_hasIdx hA
  obtain ⟨B', h5', hBN', hBM'⟩ := split_of_hasIdx hB
  have hd : (A'.M != B'.N) = false := by
    have := SMat.add?_ok_dim h6
    rw [hAM, hBN] at this
    rw [hAM', hBN']
    exact this
  rw [join_eq_of h1 h2 h3 h4' h5' h7]
  rcases SMat.add?_ok_or_singular hd with ⟨C', hC'⟩ | hs
  · rw [hC']; exact Or.inl ⟨_, rfl⟩
  · rw [hs]; exact Or.inr rfl

end St

/-! ## The elimination loops -/
namespace Solve

/-- two lists of live structures that differ at most in the matrices -/
def SameShapes (l l' : List (St F)) : Prop := List.Forall₂ St.SameShape l l'

theorem SameShapes.refl (l : List (St F)) : SameShapes l l := by
  induction l with
  | nil => exact List.Forall₂.nil
  | cons a _ ih => exact List.Forall₂.cons (St.SameShape.refl a) ih

theorem sortByPins_sameShapes {l l' : List (St F)} (h : SameShapes l l') :
    SameShapes (sortByPins l) (sortByPins l') := by
  unfold sortByPins
  suffices H : ∀ {acc acc' : List (St F)}, SameShapes acc acc' →
      SameShapes
        (l.foldl (fun acc s =>
          let (a, b) := acc.span (fun t => t.pins.length ≤ s.pins.length); a ++ [s] ++ b) acc)
        (l'.foldl (fun acc s =>
          let (a, b) := acc.span (fun t => t.pins.length ≤ s.pins.length); a ++ [s] ++ b) acc') from
    H List.Forall₂.nil
  induction h with
  | nil => intro acc acc' hacc; exact hacc
  | @cons s s' _ _ hs _ ih =>
    intro acc acc' hacc
    simp only [List.foldl_cons]
    apply ih
    have hsp := forall₂_span (R := St.SameShape)
      (p := fun t : St F => decide (t.pins.length ≤ s.pins.length))
      (q := fun t : St F => decide (t.pins.length ≤ s'.pins.length))
      (fun x y hxy => by simp only [hxy.pins_eq, hs.pins_eq]) hacc
    exact forall₂_append (forall₂_append hsp.1 (forall₂_singleton hs)) hsp.2

theorem goneTo_sameShapes {l l' : List (St F)} (h : SameShapes l l') (b : Nat) :
    OptRel St.SameShape (goneTo l b) (goneTo l' b) :=
  forall₂_find? (fun x y hxy => by simp only [St.group_sameShape hxy]) h

theorem find?_id_sameShapes {l l' : List (St F)} (h : SameShapes l l') (i : Nat) :
    OptRel St.SameShape (l.find? (·.id == i)) (l'.find? (·.id == i)) :=
  forall₂_find? (fun x y hxy => by simp only [hxy.id_eq]) h

/-- one scheduled merge -/
theorem stepWith_sameShape (sched : List (St F) → Option (Nat × Nat))
    (hs : ∀ l l', SameShapes l l' → sched l = sched l') {live live' : List (St F)}
    (h : SameShapes live live') (fresh : Nat) {r r' : List (St F)}
    (e : stepWith sched live fresh = .ok r) (e' : stepWith sched live' fresh = .ok r') :
    SameShapes r r' := by
  unfold stepWith at e e'
  rw [← hs live live' h] at e'
  cases hsch : sched live with
  | none => rw [hsch] at e; cases e
  | some ij =>
    obtain ⟨i, j⟩ := ij
    rw [hsch] at e e'
    dsimp only at e e'
    have hi := find?_id_sameShapes h i
    have hj := find?_id_sameShapes h j
    cases hfi : live.find? (·.id == i) with
    | none => rw [hfi] at e; cases e
    | some src =>
      cases hfj : live.find? (·.id == j) with
      | none => rw [hfi, hfj] at e; cases e
      | some tar =>
        cases hfi' : live'.find? (·.id == i) with
        | none => rw [hfi'] at e'; cases e'
        | some src' =>
          cases hfj' : live'.find? (·.id == j) with
          | none => rw [hfi', hfj'] at e'; cases e'
          | some tar' =>
            rw [hfi, hfi'] at hi
            rw [hfj, hfj'] at hj
            rw [hfi, hfj] at e
            rw [hfi', hfj'] at e'
            dsimp only at e e'
            split at e
            · cases e
            · split at e'
              · cases e'
              · cases hjn : St.join src tar fresh with
                | error er => rw [hjn] at e; cases e
                | ok new =>
                  cases hjn' : St.join src' tar' fresh with
                  | error er => rw [hjn'] at e'; cases e'
                  | ok new' =>
                    rw [hjn] at e
                    rw [hjn'] at e'
                    cases e
                    cases e'
                    exact forall₂_append
                      (forall₂_filter (fun x y hxy => by simp only [hxy.id_eq]) h)
                      (forall₂_singleton (St.join_sameShape hi hj fresh hjn hjn'))

theorem loopWith_singleton (sched : List (St F) → Option (Nat × Nat)) (fuel : Nat) (s : St F)
    (fresh : Nat) : loopWith sched fuel [s] fresh = .ok s := by
  cases fuel <;> rfl

theorem loopWith_succ_elim {sched : List (St F) → Option (Nat × Nat)} {fuel : Nat}
    {live : List (St F)} {fresh : Nat} {s : St F} (hne : ∀ t, live ≠ [t])
    (e : loopWith sched (fuel + 1) live fresh = .ok s) :
    ∃ r, stepWith sched live fresh = .ok r ∧ loopWith sched fuel r (fresh + 1) = .ok s := by
  unfold loopWith at e
  split at e
  · exact absurd rfl (hne _)
  · split at e
    · cases e
    · exact ⟨_, ‹_›, e⟩

/-- the whole scheduled elimination -/
theorem loopWith_sameShape (sched : List (St F) → Option (Nat × Nat))
    (hs : ∀ l l', SameShapes l l' → sched l = sched l') (fuel : Nat) :
    ∀ {live live' : List (St F)}, SameShapes live live' → ∀ (fresh : Nat) {s s' : St F},
      loopWith sched fuel live fresh = .ok s → loopWith sched fuel live' fresh = .ok s' →
      s.SameShape s' := by
  induction fuel with
  | zero =>
    intro live live' h fresh s s' e e'
    unfold loopWith at e e'
    cases h with
    | nil => cases e
    | cons hab hrest =>
      cases hrest with
      | nil => cases e; cases e'; exact hab
      | cons _ _ => cases e
  | succ fuel ih =>
    intro live live' h fresh s s' e e'
    have main : (∀ t, live ≠ [t]) → (∀ t, live' ≠ [t]) → s.SameShape s' := by
      intro hne hne'
      obtain ⟨r, hr, e⟩ := loopWith_succ_elim hne e
      obtain ⟨r', hr', e'⟩ := loopWith_succ_elim hne' e'
      exact ih (stepWith_sameShape sched hs h fresh hr hr') (fresh + 1) e e'
    cases h with
    | nil => exact main (fun t ht => by cases ht) (fun t ht => by cases ht)
    | cons hab hrest =>
      cases hrest with
      | nil =>
        rw [loopWith_singleton] at e e'
        cases e; cases e'; exact hab
      | cons _ _ => exact main (fun t ht => by cases ht) (fun t ht => by cases ht)

/-- one merge of the heuristic loop -/
theorem step_sameShape {live live' : List (St F)} (h : SameShapes live live') (fresh : Nat)
    {r r' : List (St F)} (e : step live fresh = .ok r) (e' : step live' fresh = .ok r') :
    SameShapes r r' := by
  have hsorted := sortByPins_sameShapes h
  unfold step at e e'
  dsimp only at e e'
  split at e
  · cases e
  · rename_i src rest hsrc
    split at e'
    · cases e'
    · rename_i src' rest' hsrc'
      have hsorted0 := hsorted
      rw [hsrc, hsrc'] at hsorted
      cases hsorted with
      | cons hsrc_eq hrest =>
        have hcand : SameShapes
            (sortByPins (List.filter (fun t => t.id != src.id)
              (List.filterMap (goneTo (sortByPins live)) src.connTo)) ++ rest)
            (sortByPins (List.filter (fun t => t.id != src'.id)
              (List.filterMap (goneTo (sortByPins live')) src'.connTo)) ++ rest') := by
          refine forall₂_append ?_ hrest
          apply sortByPins_sameShapes
          refine forall₂_filter (fun x y hxy => by simp only [hxy.id_eq, hsrc_eq.id_eq]) ?_
          rw [hsrc_eq.connTo_eq]
          exact forall₂_filterMap_same (goneTo_sameShapes hsorted0) _
        split at e
        · cases e
        · rename_i tar tl htar
          split at e'
          · cases e'
          · rename_i tar' tl' htar'
            rw [htar, htar'] at hcand
            cases hcand with
            | cons htar_eq _ =>
              obtain ⟨new, hj, e⟩ := bind_ok e
              obtain ⟨new', hj', e'⟩ := bind_ok e'
              simp only [pure, Except.pure, Except.ok.injEq] at e e'
              subst e
              subst e'
              exact forall₂_append
                (forall₂_filter (fun x y hxy => by
                  simp only [hxy.id_eq, hsrc_eq.id_eq, htar_eq.id_eq]) hsorted0)
                (forall₂_singleton (St.join_sameShape hsrc_eq htar_eq fresh hj hj'))

theorem loop_singleton (fuel : Nat) (s : St F) (fresh : Nat) : loop fuel [s] fresh = .ok s := by
  cases fuel <;> rfl

theorem loop_zero_elim {live : List (St F)} {fresh : Nat} {s : St F} (hne : ∀ t, live ≠ [t])
    (e : loop 0 live fresh = .ok s) : False := by
  unfold loop at e
  split at e
  · exact absurd rfl (hne _)
  · cases e
  · rename_i heq _; cases heq

theorem loop_succ_elim {fuel : Nat} {live : List (St F)} {fresh : Nat} {s : St F}
    (hne : ∀ t, live ≠ [t]) (e : loop (fuel + 1) live fresh = .ok s) :
    ∃ r, step live fresh = .ok r ∧ loop fuel r (fresh + 1) = .ok s := by
  unfold loop at e
  split at e
  · exact absurd rfl (hne _)
  · cases e
  · rename_i heq _
    cases heq
    exact bind_ok e

/-- the whole heuristic elimination -/
theorem loop_sameShape (fuel : Nat) :
    ∀ {live live' : List (St F)}, SameShapes live live' → ∀ (fresh : Nat) {s s' : St F},
      loop fuel live fresh = .ok s → loop fuel live' fresh = .ok s' → s.SameShape s' := by
  induction fuel with
  | zero =>
    intro live live' h fresh s s' e e'
    cases h with
    | nil => exact (loop_zero_elim (fun t ht => by cases ht) e).elim
    | cons hab hrest =>
      cases hrest with
      | nil =>
        rw [loop_singleton] at e e'
        cases e; cases e'; exact hab
      | cons _ _ => exact (loop_zero_elim (fun t ht => by cases ht) e).elim
  | succ fuel ih =>
    intro live live' h fresh s s' e e'
    have main : (∀ t, live ≠ [t]) → (∀ t, live' ≠ [t]) → s.SameShape s' := by
      intro hne hne'
      obtain ⟨r, hr, e⟩ := loop_succ_elim hne e
      obtain ⟨r', hr', e'⟩ := loop_succ_elim hne' e'
      exact ih (step_sameShape h fresh hr hr') (fresh + 1) e e'
    cases h with
    | nil => exact main (fun t ht => by cases ht) (fun t ht => by cases ht)
    | cons hab hrest =>
      cases hrest with
      | nil =>
        rw [loop_singleton] at e e'
        cases e; cases e'; exact hab
      | cons _ _ => exact main (fun t ht => by cases ht) (fun t ht => by cases ht)

end Solve

/-! ## C04: the control flow does not depend on the matrix values -/
