import LekkerVerif.Core.HierSolve
import LekkerVerif.Properties.C02
import LekkerVerif.Core.Disjoint

/-! # Hierarchical solve: specification

Theorems about `HNet.solveH` (`Core/HierSolve.lean`), over every field and every merge schedule.

* `NetD.extract_sem` / `NetD.extract_sem_placed` — `extract` is faithful (coefficient between two exposed names =
  coefficient of the solved structure between the pins they expose).
* `HNet.solveH_node_inv`, `HNet.solveH_node_solves` — one level: inversion of a successful recursive solve and, by C01,
  the returned component carries the solution operator of the level's network whose components are the children's results.
* `ANet.map`, `ANet.map_solvedBy`, `ANet.solvedBy_of_map`, `ANet.map_solvedBy_iff` — renaming invariance (the renaming only
  has to be injective on the pins the description mentions).
* `ANet.substitution_all` — all children of a level substituted at once (iterated `ANet.substitution`).
* `HNet.flat`, `HNet.resolve`, `HNet.solveH_sound` — the result of the recursive solve is a solution operator of the
  flattened circuit (all leaves, all links with the exposures resolved), `HNet.solveH_flat_operator` — the only one;
  `HNet.WFTree` is a syntactic well-formedness condition that implies the semantic one (`HNet.LevelsOK`). -/

open NetD Solve

section lookups
variable {α β : Type} [BEq α] [LawfulBEq α]

theorem lookupL_zipIdx_gen : ∀ (l : List α) (n i : Nat) (h : i < l.length), l.Nodup →
    lookupL (l.zipIdx n) l[i] = some (n + i) := by
  intro l
  induction l with
  | nil => intro n i h; simp at h
  | cons a t ih =>
    intro n i h hnd
    obtain ⟨hat, hnt⟩ := List.nodup_cons.1 hnd
    cases i with
    | zero => simp [lookupL, List.zipIdx_cons]
    | succ i =>
      have hi : i < t.length := by simpa using h
      have hne : (a == t[i]) = false := by
        simp only [beq_eq_false_iff_ne, ne_eq]
        intro e; exact hat (e ▸ List.getElem_mem hi)
      have := ih (n + 1) i hi hnt
      simp only [lookupL, List.zipIdx_cons, List.find?, List.getElem_cons_succ, hne] at this ⊢
      rw [this]; congr 1; omega

/-- looking a key up after an injective re-keying -/
theorem lookupL_map_key {γ : Type} [BEq γ] [LawfulBEq γ] (f : α → γ) (hf : Function.Injective f) :
    ∀ (l : List (α × β)) (x : α), lookupL (l.map fun kv => (f kv.1, kv.2)) (f x) = lookupL l x := by
  intro l x
  induction l with
  | nil => rfl
  | cons a t ih =>
    simp only [lookupL, List.map_cons, List.find?] at ih ⊢
    by_cases h : a.1 = x
    · simp [h]
    · have h1 : (a.1 == x) = false := by simpa using h
      have h2 : (f a.1 == f x) = false := by simpa using fun e => h (hf e)
      rw [h1, h2]; exact ih

end lookups

section levels
variable {F : Type} [Field F] [DecidableEq F]

/-- a component placed at position `k` of a level: the structure's coefficient between two of its pins is the
component's coefficient between the pin names -/
theorem NetD.mkSt_sem (net : NetD F) (k : Nat) (c : CompD F) (x y : String) :
    (net.mkSt k c).sem (k, x) (k, y) = c.sem x y := by
  have hf : Function.Injective (fun n : String => ((k, n) : PinRef)) := fun a b e => (Prod.mk.inj e).2
  unfold St.sem CompD.sem
  show (match lookupL (c.idx.map fun ni => ((k, ni.1), ni.2)) (k, x),
      lookupL (c.idx.map fun ni => ((k, ni.1), ni.2)) (k, y) with
    | some i, some j => c.S.get i j
    | _, _ => default) = _
  rw [lookupL_map_key (fun n : String => ((k, n) : PinRef)) hf c.idx x,
    lookupL_map_key (fun n : String => ((k, n) : PinRef)) hf c.idx y]
  cases lookupL c.idx x <;> cases lookupL c.idx y <;> rfl

/-- **`extract` is faithful**: when the exposed names are distinct, the coefficient of the extracted component between
two exposed names is the coefficient of the solved structure between the pins they expose -/
theorem NetD.extract_sem (net : NetD F) (total : St F) (hn : (net.exposed.map (·.1)).Nodup)
    (x y : String × PinRef) (hx : x ∈ net.exposed) (hy : y ∈ net.exposed) :
    (net.extract total).sem x.1 y.1 = total.sem x.2 y.2 := by
  obtain ⟨i, hi, rfl⟩ := List.getElem_of_mem hx
  obtain ⟨j, hj, rfl⟩ := List.getElem_of_mem hy
  have hi' : i < (net.exposed.map (·.1)).length := by simpa using hi
  have hj' : j < (net.exposed.map (·.1)).length := by simpa using hj
  have li := lookupL_zipIdx_gen (net.exposed.map (·.1)) 0 i hi' hn
  have lj := lookupL_zipIdx_gen (net.exposed.map (·.1)) 0 j hj' hn
  simp only [List.getElem_map, Nat.zero_add] at li lj
  unfold CompD.sem NetD.extract
  simp only [li, lj]
  rw [Mat.get_ofFn _ _ _ _ _ hi' hj']
  have ei : (net.exposed.map (·.2)).toArray[i]! = net.exposed[i].2 := by
    rw [getElem!_pos _ _ (by simpa using hi)]; simp
  have ej : (net.exposed.map (·.2)).toArray[j]! = net.exposed[j].2 := by
    rw [getElem!_pos _ _ (by simpa using hj)]; simp
  rw [ei, ej]

/-- the same through the structure a parent level builds from the extracted component (`NetD.mkSt`, `St.sem`) -/
theorem NetD.extract_sem_placed (net : NetD F) (total : St F) (hn : (net.exposed.map (·.1)).Nodup)
    (parent : NetD F) (k : Nat) (x y : String × PinRef) (hx : x ∈ net.exposed) (hy : y ∈ net.exposed) :
    (parent.mkSt k (net.extract total)).sem (k, x.1) (k, y.1) = total.sem x.2 y.2 := by
  rw [NetD.mkSt_sem, NetD.extract_sem net total hn x y hx hy]

@[simp] theorem NetD.extract_pins (net : NetD F) (total : St F) : (net.extract total).pins = net.exposed.map (·.1) := rfl

theorem NetD.solveLevel_eq_solveWith (sched) (net : NetD F) : net.solveLevel sched = net.solveWith sched := rfl

/-! ### one level of the recursion -/

namespace HNet

theorem solveH_leaf (sched : List (St F) → Option (Nat × Nat)) (c : CompD F) : solveH sched (.leaf c) = .ok c := by
  rw [solveH]

/-- `solveAll` succeeds exactly with the list of the children's own results, in order -/
theorem solveAll_ok_iff (sched : List (St F) → Option (Nat × Nat)) :
    ∀ (cs : List (HNet F)) (comps : List (CompD F)),
      solveAll sched cs = .ok comps ↔ List.Forall₂ (fun h c => solveH sched h = .ok c) cs comps := by
  intro cs
  induction cs with
  | nil =>
    intro comps
    rw [solveAll]
    constructor
    · intro h; cases h; exact List.Forall₂.nil
    · intro h; cases h; rfl
  | cons h t ih =>
    intro comps
    rw [solveAll]
    constructor
    · intro hs
      split at hs
      · cases hs
      · rename_i c hc
        split at hs
        · cases hs
        · rename_i cs' ht
          cases hs
          exact List.Forall₂.cons hc ((ih cs').1 ht)
    · intro hf
      cases hf with
      | cons hc ht =>
        rw [hc]
        simp only
        rw [(ih _).2 ht]

/-- the level a node solves, once its children are solved -/
def levelNet (comps : List (CompD F)) (links : List (PinRef × PinRef)) (exposed : List (String × PinRef)) : NetD F :=
  { comps := comps, links := links, exposed := exposed }

/-- **inversion**: if the recursive solve of a node succeeds then every child's solve succeeded (with the components
`comps`, in order), the elimination loop succeeded on the level whose components are the children's results, and the
node's result is the `extract` of that run -/
theorem solveH_node_inv (sched : List (St F) → Option (Nat × Nat)) (cs : List (HNet F))
    (links : List (PinRef × PinRef)) (exposed : List (String × PinRef)) (c : CompD F)
    (h : solveH sched (.node cs links exposed) = .ok c) :
    ∃ comps total, List.Forall₂ (fun h c => solveH sched h = .ok c) cs comps ∧
      (levelNet comps links exposed).solveWith sched = .ok total ∧
      c = (levelNet comps links exposed).extract total := by
  rw [solveH] at h
  split at h
  · cases h
  · rename_i comps hc
    simp only at h
    split at h
    · cases h
    · rename_i total ht
      cases h
      exact ⟨comps, total, (solveAll_ok_iff sched cs comps).1 hc, ht, rfl⟩

/-- and conversely -/
theorem solveH_node_of (sched : List (St F) → Option (Nat × Nat)) (cs : List (HNet F))
    (links : List (PinRef × PinRef)) (exposed : List (String × PinRef)) (comps : List (CompD F)) (total : St F)
    (hc : List.Forall₂ (fun h c => solveH sched h = .ok c) cs comps)
    (ht : (levelNet comps links exposed).solveWith sched = .ok total) :
    solveH sched (.node cs links exposed) = .ok ((levelNet comps links exposed).extract total) := by
  rw [solveH, (solveAll_ok_iff sched cs comps).2 hc]
  simp only
  have : NetD.solveLevel sched { comps := comps, links := links, exposed := exposed } = .ok total := ht
  rw [this]
  rfl

end HNet

/-- `c` carries, between its pin *names*, the solution operator of the network `net` whose exposure names those pins -/
def NetD.SolvedByNames (net : NetD F) (c : CompD F) : Prop :=
  (∀ a b, net.Sol a b → ∀ e ∈ net.exposed, b e.2 = (net.exposed.map fun y => c.sem e.1 y.1 * a y.2).sum) ∧
  (∀ v : PinRef → F, ∃ a b, net.Sol a b ∧ ∀ e ∈ net.exposed, a e.2 = v e.2)

theorem NetD.solvedByNames_extract (net : NetD F) (total : St F) (hn : (net.exposed.map (·.1)).Nodup)
    (h : net.SolvedBy total.sem) : net.SolvedByNames (net.extract total) := by
  refine ⟨?_, h.2⟩
  intro a b hs e he
  rw [h.1 a b hs e he]
  congr 1
  apply List.map_congr_left
  intro y hy
  rw [NetD.extract_sem net total hn e y he hy]

/-- **one level is solved exactly**: the component a node hands up carries (between its exposed names) the solution
operator of the level's network, in which every child is one component carrying the child's own result -/
theorem HNet.solveH_node_solves (sched : List (St F) → Option (Nat × Nat)) (cs : List (HNet F))
    (links : List (PinRef × PinRef)) (exposed : List (String × PinRef)) (c : CompD F)
    (h : HNet.solveH sched (.node cs links exposed) = .ok c) :
    ∃ comps, List.Forall₂ (fun h c => HNet.solveH sched h = .ok c) cs comps ∧
      c.pins = exposed.map (·.1) ∧
      ((HNet.levelNet comps links exposed).WF → (HNet.levelNet comps links exposed).ExposureOK →
        (exposed.map (·.1)).Nodup → (HNet.levelNet comps links exposed).SolvedByNames c) := by
  obtain ⟨comps, total, hc, ht, rfl⟩ := HNet.solveH_node_inv sched cs links exposed c h
  refine ⟨comps, hc, rfl, ?_⟩
  intro wf ex hn
  exact NetD.solvedByNames_extract _ total hn (C01_solve_solves _ wf ex sched total ht)

end levels

/-! ### renaming the pins of an abstract network -/

section pinRenaming
namespace ANet
variable {F : Type*} [Field F] {P Q : Type*}

/-- rename every pin by `f`; the pin-keyed matrices are transported through `g` (a left inverse of `f` where it matters) -/
def map (f : P → Q) (g : Q → P) (N : ANet P F) : ANet Q F :=
  { parts := N.parts.map fun part => (part.1.map f, fun q q' => part.2 (g q) (g q')),
    links := N.links.map fun l => (f l.1, f l.2),
    exposed := N.exposed.map f }

/-- the pins a description mentions: pins of parts, ends of links, exposed pins -/
def Mentions (N : ANet P F) (p : P) : Prop :=
  N.pinSet p ∨ (∃ l ∈ N.links, p = l.1 ∨ p = l.2) ∨ p ∈ N.exposed

/-- the network equations only look at the waves on mentioned pins -/
theorem Sol.congr [DecidableEq P] {N : ANet P F} {a b a2 b2 : P → F} (h : N.Sol a b)
    (e : ∀ p, N.Mentions p → a p = a2 p ∧ b p = b2 p) : N.Sol a2 b2 := by
  refine ⟨?_, ?_, ?_⟩
  · intro part hp p hpp
    rw [← (e p (Or.inl ⟨part, hp, hpp⟩)).2, h.comp part hp p hpp]
    exact rowSum_congr _ _ _ _ _ (fun q hq => (e q (Or.inl ⟨part, hp, hq⟩)).1)
  · intro l hl
    have e1 := e l.1 (Or.inr (Or.inl ⟨l, hl, Or.inl rfl⟩))
    have e2 := e l.2 (Or.inr (Or.inl ⟨l, hl, Or.inr rfl⟩))
    rw [← e1.1, ← e1.2, ← e2.1, ← e2.2]
    exact h.link l hl
  · intro part hp p hpp hfree hne
    rw [← (e p (Or.inl ⟨part, hp, hpp⟩)).1]
    exact h.free part hp p hpp hfree hne

variable {f : P → Q} {g : Q → P} {N : ANet P F}

theorem rowSum_map_left (hg : ∀ p, N.Mentions p → g (f p) = p) (l : List P) (hl : ∀ p ∈ l, N.Mentions p)
    (S : P → P → F) (a' : Q → F) (p : P) (hp : N.Mentions p) :
    rowSum (l.map f) (fun q q' => S (g q) (g q')) a' (f p) = rowSum l S (a' ∘ f) p := by
  unfold rowSum
  rw [List.map_map]
  congr 1
  apply List.map_congr_left
  intro q hq
  simp only [Function.comp]
  rw [hg p hp, hg q (hl q hq)]

omit [Field F] in
theorem map_lnk_iff (hg : ∀ p, N.Mentions p → g (f p) = p) (p : P) (hp : N.Mentions p) (q' : Q) :
    (N.map f g).Lnk (f p) q' ↔ ∃ q, q' = f q ∧ N.Lnk p q := by
  unfold Lnk map
  simp only [List.mem_map, Prod.mk.injEq]
  constructor
  · rintro (⟨l, hl, h1, h2⟩ | ⟨l, hl, h1, h2⟩)
    · have : l.1 = p := by
        rw [← hg l.1 (Or.inr (Or.inl ⟨l, hl, Or.inl rfl⟩)), h1, hg p hp]
      exact ⟨l.2, h2.symm, Or.inl (by rw [← this]; exact hl)⟩
    · have : l.2 = p := by
        rw [← hg l.2 (Or.inr (Or.inl ⟨l, hl, Or.inr rfl⟩)), h2, hg p hp]
      exact ⟨l.1, h1.symm, Or.inr (by rw [← this]; exact hl)⟩
  · rintro ⟨q, rfl, (h | h)⟩
    · exact Or.inl ⟨(p, q), h, rfl, rfl⟩
    · exact Or.inr ⟨(q, p), h, rfl, rfl⟩

omit [Field F] in
theorem map_mem_exposed_iff (hg : ∀ p, N.Mentions p → g (f p) = p) (p : P) (hp : N.Mentions p) :
    f p ∈ (N.map f g).exposed ↔ p ∈ N.exposed := by
  unfold map
  simp only [List.mem_map]
  constructor
  · rintro ⟨e, he, h⟩
    have : e = p := by rw [← hg e (Or.inr (Or.inr he)), h, hg p hp]
    rw [← this]; exact he
  · intro h; exact ⟨p, h, rfl⟩

/-- the renamed network has the renamed solutions -/
theorem map_sol_iff (hg : ∀ p, N.Mentions p → g (f p) = p) (a' b' : Q → F) :
    (N.map f g).Sol a' b' ↔ N.Sol (a' ∘ f) (b' ∘ f) := by
  constructor
  · intro h
    refine ⟨?_, ?_, ?_⟩
    · intro part hp p hpp
      have := h.comp (part.1.map f, fun q q' => part.2 (g q) (g q')) (List.mem_map.2 ⟨part, hp, rfl⟩) (f p)
        (List.mem_map.2 ⟨p, hpp, rfl⟩)
      rw [rowSum_map_left hg part.1 (fun q hq => Or.inl ⟨part, hp, hq⟩) part.2 a' p (Or.inl ⟨part, hp, hpp⟩)] at this
      exact this
    · intro l hl
      exact h.link (f l.1, f l.2) (List.mem_map.2 ⟨l, hl, rfl⟩)
    · intro part hp p hpp hfree hne
      have hm : N.Mentions p := Or.inl ⟨part, hp, hpp⟩
      apply h.free (part.1.map f, fun q q' => part.2 (g q) (g q')) (List.mem_map.2 ⟨part, hp, rfl⟩) (f p)
        (List.mem_map.2 ⟨p, hpp, rfl⟩)
      · intro q' hq'
        obtain ⟨q, _, hq⟩ := (map_lnk_iff hg p hm q').1 hq'
        exact hfree q hq
      · intro hin; exact hne ((map_mem_exposed_iff hg p hm).1 hin)
  · intro h
    refine ⟨?_, ?_, ?_⟩
    · intro part' hp' q hq
      obtain ⟨part, hp, rfl⟩ := List.mem_map.1 hp'
      obtain ⟨p, hpp, rfl⟩ := List.mem_map.1 hq
      rw [rowSum_map_left hg part.1 (fun q hq => Or.inl ⟨part, hp, hq⟩) part.2 a' p (Or.inl ⟨part, hp, hpp⟩)]
      exact h.comp part hp p hpp
    · intro l' hl'
      obtain ⟨l, hl, rfl⟩ := List.mem_map.1 hl'
      exact h.link l hl
    · intro part' hp' q hq hfree hne
      obtain ⟨part, hp, rfl⟩ := List.mem_map.1 hp'
      obtain ⟨p, hpp, rfl⟩ := List.mem_map.1 hq
      have hm : N.Mentions p := Or.inl ⟨part, hp, hpp⟩
      apply h.free part hp p hpp
      · intro q hq
        exact hfree (f q) ((map_lnk_iff hg p hm (f q)).2 ⟨q, rfl, hq⟩)
      · intro hin; exact hne ((map_mem_exposed_iff hg p hm).2 hin)

/-- **renaming invariance**: the solution operator of a renamed network is the transported operator.  `f` only has to be
injective on the pins the description mentions (`g` undoes it there) — exactly the situation of a wrapping structure
whose pins are the child's exposed *names* instead of the child's exposed internal pins -/
theorem map_solvedBy [DecidableEq P] (hg : ∀ p, N.Mentions p → g (f p) = p) (T : P → P → F) (h : N.SolvedBy T) :
    (N.map f g).SolvedBy (fun q q' => T (g q) (g q')) := by
  have hE : ∀ e ∈ N.exposed, N.Mentions e := fun e he => Or.inr (Or.inr he)
  constructor
  · intro a' b' hs e' he'
    obtain ⟨e, he, rfl⟩ := List.mem_map.1 he'
    have := h.1 _ _ ((map_sol_iff hg a' b').1 hs) e he
    show b' (f e) = rowSum (N.exposed.map f) (fun q q' => T (g q) (g q')) a' (f e)
    rw [rowSum_map_left hg N.exposed hE T a' e (hE e he)]
    exact this
  · intro v'
    obtain ⟨a, b, hs, hv⟩ := h.2 (v' ∘ f)
    refine ⟨a ∘ g, b ∘ g, (map_sol_iff hg _ _).2 (hs.congr ?_), ?_⟩
    · intro p hp
      simp only [Function.comp]
      rw [hg p hp]; exact ⟨rfl, rfl⟩
    · intro e' he'
      obtain ⟨e, he, rfl⟩ := List.mem_map.1 he'
      show a (g (f e)) = v' (f e)
      rw [hg e (hE e he)]; exact hv e he

/-- and conversely: an operator of the renamed network, read back through `f`, is an operator of the original -/
theorem solvedBy_of_map [DecidableEq P] (hg : ∀ p, N.Mentions p → g (f p) = p) (T' : Q → Q → F) (h : (N.map f g).SolvedBy T') :
    N.SolvedBy (fun p p' => T' (f p) (f p')) := by
  have hE : ∀ e ∈ N.exposed, N.Mentions e := fun e he => Or.inr (Or.inr he)
  constructor
  · intro a b hs e he
    have hs' : (N.map f g).Sol (a ∘ g) (b ∘ g) := by
      apply (map_sol_iff hg _ _).2
      apply hs.congr
      intro p hp
      simp only [Function.comp]
      rw [hg p hp]; exact ⟨rfl, rfl⟩
    have := h.1 _ _ hs' (f e) (List.mem_map.2 ⟨e, he, rfl⟩)
    simp only [Function.comp] at this
    rw [hg e (hE e he)] at this
    rw [this]
    show rowSum (N.exposed.map f) T' (a ∘ g) (f e) = rowSum N.exposed (fun p p' => T' (f p) (f p')) a e
    unfold rowSum
    rw [List.map_map]
    congr 1
    apply List.map_congr_left
    intro q hq
    simp only [Function.comp]
    rw [hg q (hE q hq)]
  · intro v
    obtain ⟨a', b', hs, hv⟩ := h.2 (v ∘ g)
    refine ⟨a' ∘ f, b' ∘ f, (map_sol_iff hg _ _).1 hs, ?_⟩
    intro e he
    have := hv (f e) (List.mem_map.2 ⟨e, he, rfl⟩)
    simp only [Function.comp] at this ⊢
    rw [this, hg e (hE e he)]

/-- the iff form for a globally injective renaming with left inverse `g` -/
theorem map_solvedBy_iff [DecidableEq P] (hg : Function.LeftInverse g f) (T : P → P → F) :
    (N.map f g).SolvedBy (fun q q' => T (g q) (g q')) ↔ N.SolvedBy T := by
  constructor
  · intro h
    have := solvedBy_of_map (fun p _ => hg p) _ h
    simpa only [hg _] using this
  · exact map_solvedBy (fun p _ => hg p) T

end ANet
end pinRenaming

/-! ### substituting all children of a level -/

section multi
namespace ANet
variable {F : Type*} [Field F] {P : Type*} [DecidableEq P]

/-- the solution operator only depends on *which* parts and links there are (same exposure list) -/
theorem solvedBy_of_same (N N' : ANet P F) (hp : ∀ part, part ∈ N.parts ↔ part ∈ N'.parts)
    (hl : ∀ l, l ∈ N.links ↔ l ∈ N'.links) (he : N.exposed = N'.exposed) (T : P → P → F)
    (h : N.SolvedBy T) : N'.SolvedBy T := by
  have he' : ∀ e, e ∈ N.exposed ↔ e ∈ N'.exposed := fun e => by rw [he]
  constructor
  · intro a b hs e hin
    rw [← he] at hin ⊢
    exact h.1 a b (sol_of_same N' N (fun p => (hp p).symm) (fun l => (hl l).symm) (fun e => (he' e).symm) a b hs) e hin
  · intro v
    obtain ⟨a, b, hs, hv⟩ := h.2 v
    exact ⟨a, b, sol_of_same N N' hp hl he' a b hs, fun e hin => hv e (by rw [he]; exact hin)⟩

/-- a sub-network keeps to itself: its links join its own pins, its exposed pins are its own and free inside it -/
structure ClosedFree (N : ANet P F) : Prop where
  links : ∀ l ∈ N.links, N.pinSet l.1 ∧ N.pinSet l.2
  exposed : ∀ e ∈ N.exposed, N.pinSet e ∧ ∀ q, ¬ N.Lnk e q

/-- several sub-networks side by side, each seen as one part on its exposed pins (with the matrix `cs.2`) -/
def wrapped (out : List (List P × (P → P → F))) (Cs : List (ANet P F × (P → P → F))) (L : List (P × P)) (E : List P) :
    ANet P F :=
  { parts := out ++ Cs.map (fun cs => (cs.1.exposed, cs.2)), links := L, exposed := E }

/-- the same with every sub-network inlined -/
def inlinedAll (out : List (List P × (P → P → F))) (Cs : List (ANet P F × (P → P → F))) (L : List (P × P)) (E : List P) :
    ANet P F :=
  { parts := out ++ Cs.flatMap (·.1.parts), links := L ++ Cs.flatMap (·.1.links), exposed := E }

/-- **substitution of all children of a level at once**: if every sub-network is solved by the matrix its wrapper
carries, the sub-networks are closed and pairwise disjoint, and the level reaches them only through their exposed pins,
then an operator of the level with wrappers is an operator of the level with everything inlined -/
theorem substitution_all : ∀ (Cs : List (ANet P F × (P → P → F))) (out : List (List P × (P → P → F)))
    (L : List (P × P)) (E : List P) (T : P → P → F),
    (∀ cs ∈ Cs, ∃ Tc, cs.1.SolvedBy Tc ∧ ∀ p ∈ cs.1.exposed, ∀ q ∈ cs.1.exposed, cs.2 p q = Tc p q) →
    (∀ cs ∈ Cs, cs.1.ClosedFree) →
    (∀ part ∈ out, ∀ p ∈ part.1, ∀ cs ∈ Cs, ¬ cs.1.pinSet p) →
    Cs.Pairwise (fun c d => ∀ p, c.1.pinSet p → ¬ d.1.pinSet p) →
    (∀ l ∈ L, ∀ cs ∈ Cs, (cs.1.pinSet l.1 → l.1 ∈ cs.1.exposed) ∧ (cs.1.pinSet l.2 → l.2 ∈ cs.1.exposed)) →
    (∀ e ∈ E, ∀ cs ∈ Cs, cs.1.pinSet e → e ∈ cs.1.exposed) →
    (wrapped out Cs L E).SolvedBy T → (inlinedAll out Cs L E).SolvedBy T := by
  intro Cs
  induction Cs with
  | nil =>
    intro out L E T _ _ _ _ _ _ h
    simpa [wrapped, inlinedAll] using h
  | cons c rest ih =>
    intro out L E T hsolved hclosed hout hpair hL hE h
    obtain ⟨hc_rest, hpair_rest⟩ := List.pairwise_cons.1 hpair
    -- step 1: the wrapper of `c` last
    have h1 : (parent (out ++ rest.map (fun cs => (cs.1.exposed, cs.2))) c.1 c.2 L E).SolvedBy T := by
      refine solvedBy_of_same _ _ ?_ ?_ ?_ T h
      · intro part
        simp only [wrapped, parent, List.map_cons, List.mem_append, List.mem_cons, List.mem_map, List.not_mem_nil, or_false]
        constructor
        · rintro (h | h | h)
          · exact Or.inl (Or.inl h)
          · exact Or.inr h
          · exact Or.inl (Or.inr h)
        · rintro ((h | h) | h)
          · exact Or.inl h
          · exact Or.inr (Or.inr h)
          · exact Or.inr (Or.inl h)
      · intro l; rfl
      · rfl
    have pl : Placed (out ++ rest.map (fun cs => (cs.1.exposed, cs.2))) c.1 L E := by
      refine ⟨?_, (hclosed c (by simp)).links, (hclosed c (by simp)).exposed, ?_, ?_⟩
      · intro part hp p hpp hcp
        rcases List.mem_append.1 hp with hp | hp
        · exact hout part hp p hpp c (by simp) hcp
        · obtain ⟨d, hd, rfl⟩ := List.mem_map.1 hp
          exact hc_rest d hd p hcp (((hclosed d (List.mem_cons_of_mem _ hd)).exposed p hpp).1)
      · intro l hl; exact hL l hl c (by simp)
      · intro e he; exact hE e he c (by simp)
    obtain ⟨Tc, hTc, hSK⟩ := hsolved c (by simp)
    have h2 := substitution pl Tc c.2 T hTc hSK h1
    -- step 2: the rest, with the parts and links of `c` among the outer ones
    have h3 : (wrapped (out ++ c.1.parts) rest (L ++ c.1.links) E).SolvedBy T := by
      refine solvedBy_of_same _ _ ?_ ?_ ?_ T h2
      · intro part
        simp only [wrapped, inlined, List.mem_append, List.mem_map]
        constructor
        · rintro ((h | h) | h)
          · exact Or.inl (Or.inl h)
          · exact Or.inr h
          · exact Or.inl (Or.inr h)
        · rintro ((h | h) | h)
          · exact Or.inl (Or.inl h)
          · exact Or.inr h
          · exact Or.inl (Or.inr h)
      · intro l; rfl
      · rfl
    have h4 := ih (out ++ c.1.parts) (L ++ c.1.links) E T
      (fun cs hcs => hsolved cs (List.mem_cons_of_mem _ hcs))
      (fun cs hcs => hclosed cs (List.mem_cons_of_mem _ hcs))
      (by
        intro part hp p hpp d hd
        rcases List.mem_append.1 hp with hp | hp
        · exact hout part hp p hpp d (List.mem_cons_of_mem _ hd)
        · exact hc_rest d hd p ⟨part, hp, hpp⟩)
      hpair_rest
      (by
        intro l hl d hd
        rcases List.mem_append.1 hl with hl | hl
        · exact hL l hl d (List.mem_cons_of_mem _ hd)
        · obtain ⟨i1, i2⟩ := (hclosed c (by simp)).links l hl
          exact ⟨fun hd1 => absurd hd1 (hc_rest d hd _ i1), fun hd2 => absurd hd2 (hc_rest d hd _ i2)⟩)
      (fun e he d hd => hE e he d (List.mem_cons_of_mem _ hd))
      h3
    simpa [inlinedAll, List.append_assoc] using h4

end ANet
end multi

/-! ### the flattened circuit -/



section flat
variable {F : Type} [Field F] [DecidableEq F]

namespace HNet

/-- a pin of the flattened circuit: the path of child positions down to a leaf, and a pin name of that leaf -/
abbrev HPin := List Nat × String

def pre (k : Nat) (p : HPin) : HPin := (k :: p.1, p.2)
def unpre (p : HPin) : HPin := (p.1.tail, p.2)

theorem unpre_pre (k : Nat) : Function.LeftInverse unpre (pre k) := fun _ => rfl

mutual
/-- the leaf pin an exposed name of a sub-circuit stands for (junk for a name that is not exposed) -/
def resolve : HNet F → String → HPin
  | .leaf _, x => ([], x)
  | .node cs _ exposed, x =>
    match lookupL exposed x with
    | none => ([], x)
    | some r => pre r.1 (resolveAt cs r.1 r.2)
/-- the same for a pin name of the `k`-th child of a level -/
def resolveAt : List (HNet F) → Nat → String → HPin
  | [], _, x => ([], x)
  | h :: _, 0, x => resolve h x
  | _ :: t, k + 1, x => resolveAt t k x
end

/-- a level's pin reference as a pin of the flattened circuit -/
def resolveRef (cs : List (HNet F)) (r : PinRef) : HPin := pre r.1 (resolveAt cs r.1 r.2)

mutual
/-- the flattened circuit: all leaves, all links with the exposures of sub-circuits resolved, the top exposure -/
noncomputable def flat : HNet F → ANet HPin F
  | .leaf c =>
    { parts := [(c.pins.map fun x => ([], x), fun p q => c.sem p.2 q.2)], links := [],
      exposed := c.pins.map fun x => ([], x) }
  | .node cs links exposed =>
    { parts := (flatAll cs 0).flatMap (·.parts)
      links := links.map (fun l => (resolveRef cs l.1, resolveRef cs l.2)) ++ (flatAll cs 0).flatMap (·.links)
      exposed := exposed.map fun e => resolveRef cs e.2 }
/-- the flattened children of a level, each under its position -/
noncomputable def flatAll : List (HNet F) → Nat → List (ANet HPin F)
  | [], _ => []
  | h :: t, k => (flat h).map (pre k) unpre :: flatAll t (k + 1)
end

omit [Field F] [DecidableEq F] in
theorem resolveAt_eq : ∀ (cs : List (HNet F)) (k : Nat) (x : String),
    resolveAt cs k x = match cs[k]? with | some h => resolve h x | none => ([], x) := by
  intro cs
  induction cs with
  | nil => intro k x; rw [resolveAt]; rfl
  | cons h t ih =>
    intro k x
    cases k with
    | zero => rw [resolveAt]; rfl
    | succ k => rw [resolveAt, ih]; rfl

theorem mem_flatAll : ∀ (cs : List (HNet F)) (k : Nat) (N : ANet HPin F),
    N ∈ flatAll cs k ↔ ∃ i h, cs[i]? = some h ∧ N = (flat h).map (pre (k + i)) unpre := by
  intro cs
  induction cs with
  | nil => intro k N; rw [flatAll]; simp
  | cons h t ih =>
    intro k N
    rw [flatAll, List.mem_cons, ih]
    constructor
    · rintro (rfl | ⟨i, h', hi, rfl⟩)
      · exact ⟨0, h, rfl, rfl⟩
      · exact ⟨i + 1, h', by simpa using hi, by rw [show k + 1 + i = k + (i + 1) by omega]⟩
    · rintro ⟨i, h', hi, rfl⟩
      cases i with
      | zero => left; simp at hi; subst hi; rfl
      | succ i => right; exact ⟨i, h', by simpa using hi, by rw [show k + 1 + i = k + (i + 1) by omega]⟩

end HNet
end flat

/-! ### facts about renamed networks (globally injective renaming) -/
section mapFacts
namespace ANet
variable {F : Type*} [Field F] {P Q : Type*} {f : P → Q} {g : Q → P} {N : ANet P F}

omit [Field F] in
theorem pinSet_map (q : Q) : (N.map f g).pinSet q ↔ ∃ p, N.pinSet p ∧ q = f p := by
  unfold pinSet map
  simp only [List.mem_map]
  constructor
  · rintro ⟨part', ⟨part, hp, rfl⟩, hq⟩
    obtain ⟨p, hpp, rfl⟩ := List.mem_map.1 hq
    exact ⟨p, ⟨part, hp, hpp⟩, rfl⟩
  · rintro ⟨p, ⟨part, hp, hpp⟩, rfl⟩
    exact ⟨_, ⟨part, hp, rfl⟩, List.mem_map.2 ⟨p, hpp, rfl⟩⟩

omit [Field F] in
theorem ClosedFree.map (hg : Function.LeftInverse g f) (h : N.ClosedFree) : (N.map f g).ClosedFree := by
  constructor
  · intro l' hl'
    obtain ⟨l, hl, rfl⟩ := List.mem_map.1 hl'
    obtain ⟨h1, h2⟩ := h.links l hl
    exact ⟨(pinSet_map _).2 ⟨l.1, h1, rfl⟩, (pinSet_map _).2 ⟨l.2, h2, rfl⟩⟩
  · intro e' he'
    obtain ⟨e, he, rfl⟩ := List.mem_map.1 he'
    obtain ⟨h1, h2⟩ := h.exposed e he
    refine ⟨(pinSet_map _).2 ⟨e, h1, rfl⟩, ?_⟩
    intro q' hq'
    obtain ⟨q, _, hq⟩ := (map_lnk_iff (fun p _ => hg p) e (Or.inr (Or.inr he)) q').1 hq'
    exact h2 q hq

end ANet
end mapFacts

section soundness
variable {F : Type} [Field F] [DecidableEq F]
namespace HNet

/-- every level of the hierarchy is a well-formed network description once its children are solved -/
inductive LevelsOK (sched : List (St F) → Option (Nat × Nat)) : HNet F → Prop
  | leaf (c : CompD F) : LevelsOK sched (.leaf c)
  | node (cs : List (HNet F)) (links : List (PinRef × PinRef)) (exposed : List (String × PinRef)) :
      (∀ h ∈ cs, LevelsOK sched h) →
      (∀ comps, List.Forall₂ (fun h c => solveH sched h = .ok c) cs comps →
        (levelNet comps links exposed).WF ∧ (levelNet comps links exposed).ExposureOK ∧ (exposed.map (·.1)).Nodup) →
      LevelsOK sched (.node cs links exposed)

/-- what the induction carries: `T` solves the flattened circuit, its exposed pins are the resolved pin names of `c`,
`T` is `c`'s matrix there, distinct names resolve to distinct pins, and the flattened circuit is closed -/
structure FlatInv (h : HNet F) (c : CompD F) (T : HPin → HPin → F) : Prop where
  solved : h.flat.SolvedBy T
  exposed : h.flat.exposed = c.pins.map h.resolve
  coeff : ∀ x ∈ c.pins, ∀ y ∈ c.pins, T (h.resolve x) (h.resolve y) = c.sem x y
  inj : ∀ x ∈ c.pins, ∀ y ∈ c.pins, h.resolve x = h.resolve y → x = y
  closed : h.flat.ClosedFree

theorem flat_leaf (c : CompD F) : (HNet.leaf c).flat =
    { parts := [(c.pins.map fun x => ([], x), fun p q => c.sem p.2 q.2)], links := [],
      exposed := c.pins.map fun x => ([], x) } := by rw [flat]

omit [Field F] [DecidableEq F] in
theorem resolve_leaf (c : CompD F) (x : String) : (HNet.leaf c).resolve x = ([], x) := by rw [resolve]

theorem flatInv_leaf (c : CompD F) : FlatInv (.leaf c) c (fun p q => c.sem p.2 q.2) := by
  have hres : (HNet.leaf c).resolve = fun x => (([], x) : HPin) := funext (resolve_leaf c)
  refine ⟨?_, ?_, ?_, ?_, ?_⟩
  · rw [flat_leaf]
    constructor
    · intro a b hs e he
      exact hs.comp _ (List.mem_singleton.2 rfl) e he
    · intro v
      refine ⟨v, fun p => rowSum (c.pins.map fun x => (([], x) : HPin)) (fun p q => c.sem p.2 q.2) v p, ⟨?_, ?_, ?_⟩, fun _ _ => rfl⟩
      · intro part hp
        rw [List.mem_singleton.1 hp]
        intro p _; rfl
      · intro l hl; cases hl
      · intro part hp p hpp _ hne
        rw [List.mem_singleton.1 hp] at hpp
        exact absurd hpp hne
  · rw [flat_leaf, hres]
  · intro x _ y _; rw [hres]
  · intro x _ y _ h; rw [hres] at h; exact (Prod.mk.inj h).2
  · rw [flat_leaf]
    constructor
    · intro l hl; cases hl
    · intro e he
      refine ⟨⟨_, List.mem_singleton.2 rfl, he⟩, ?_⟩
      intro q hq; rcases hq with hq | hq <;> cases hq

end HNet
end soundness

section soundness2
variable {F : Type} [Field F] [DecidableEq F]

theorem lookupL_of_mem_nodup {α β : Type} [BEq α] [LawfulBEq α] : ∀ (l : List (α × β)) (e : α × β),
    e ∈ l → (l.map (·.1)).Nodup → lookupL l e.1 = some e.2 := by
  intro l
  induction l with
  | nil => intro e he; cases he
  | cons a t ih =>
    intro e he hn
    simp only [List.map_cons, List.nodup_cons] at hn
    rcases List.mem_cons.1 he with rfl | he
    · simp [lookupL]
    · have hne : (a.1 == e.1) = false := by
        simp only [beq_eq_false_iff_ne, ne_eq]
        intro h; exact hn.1 (h ▸ List.mem_map.2 ⟨e, he, rfl⟩)
      have := ih e he hn.2
      simp only [lookupL, List.find?, hne] at this ⊢
      exact this

namespace HNet

omit [Field F] [DecidableEq F] in
theorem resolve_node (cs : List (HNet F)) (links : List (PinRef × PinRef)) (exposed : List (String × PinRef)) (x : String) :
    (HNet.node cs links exposed).resolve x =
      match lookupL exposed x with
      | none => ([], x)
      | some r => resolveRef cs r := by
  rw [resolve]; rfl

theorem flat_node (cs : List (HNet F)) (links : List (PinRef × PinRef)) (exposed : List (String × PinRef)) :
    (HNet.node cs links exposed).flat =
    { parts := (flatAll cs 0).flatMap (·.parts)
      links := links.map (fun l => (resolveRef cs l.1, resolveRef cs l.2)) ++ (flatAll cs 0).flatMap (·.links)
      exposed := exposed.map fun e => resolveRef cs e.2 } := by rw [flat]

theorem flatInv_node (cs : List (HNet F)) (links : List (PinRef × PinRef)) (exposed : List (String × PinRef))
    (comps : List (CompD F)) (total : St F) (hlen : cs.length = comps.length)
    (hch : ∀ (i : Nat) (h1 : i < cs.length) (h2 : i < comps.length), ∃ T, FlatInv cs[i] comps[i] T)
    (wf : (levelNet comps links exposed).WF) (ex : (levelNet comps links exposed).ExposureOK)
    (hn : (exposed.map (·.1)).Nodup) (hT : (levelNet comps links exposed).SolvedBy total.sem) :
    ∃ T, FlatInv (.node cs links exposed) ((levelNet comps links exposed).extract total) T := by
  classical
  have hT' : ∀ i : Fin cs.length, ∃ T, FlatInv cs[i] (comps[i.1]'(hlen ▸ i.2)) T := fun i => hch i.1 i.2 _
  choose Tf hTf using hT'
  -- the pins of the level
  let LevelPin : PinRef → Prop := fun r => ∃ i : Fin cs.length, r.1 = i.1 ∧ r.2 ∈ (comps[i.1]'(hlen ▸ i.2)).pins
  have hLP : ∀ r c, comps[r.1]? = some c → r.2 ∈ c.pins → LevelPin r := by
    intro r c hc hr
    obtain ⟨h1, h2⟩ := List.getElem?_eq_some_iff.1 hc
    exact ⟨⟨r.1, hlen ▸ h1⟩, rfl, by rw [h2]; exact hr⟩
  have hφ : ∀ (i : Fin cs.length) (x : String), resolveRef cs (i.1, x) = pre i.1 ((cs[i]).resolve x) := by
    intro i x
    unfold resolveRef
    rw [resolveAt_eq]
    simp
  have hinj : ∀ r r', LevelPin r → LevelPin r' → resolveRef cs r = resolveRef cs r' → r = r' := by
    rintro ⟨k, x⟩ ⟨k', y⟩ ⟨i, hi, hx⟩ ⟨j, hj, hy⟩ he
    simp only at hi hj hx hy
    subst hi; subst hj
    rw [hφ, hφ] at he
    have h1 : i.1 = j.1 := by
      have := congrArg (fun p : HPin => p.1.head?) he
      simpa [pre] using this
    have hij : i = j := Fin.ext h1
    subst hij
    have h2 : (cs[i]).resolve x = (cs[i]).resolve y := by
      have := congrArg unpre he
      simpa [unpre_pre i.1 _] using this
    rw [(hTf i).inj x hx y hy h2]
  -- a left inverse of the resolution on the pins of the level
  let g : HPin → PinRef := fun q => if h : ∃ r, LevelPin r ∧ resolveRef cs r = q then h.choose else (0, "")
  have hg : ∀ r, LevelPin r → g (resolveRef cs r) = r := by
    intro r hr
    have hex : ∃ r', LevelPin r' ∧ resolveRef cs r' = resolveRef cs r := ⟨r, hr, rfl⟩
    show (if h : ∃ r', LevelPin r' ∧ resolveRef cs r' = resolveRef cs r then h.choose else (0, "")) = r
    rw [dif_pos hex]
    exact hinj _ _ hex.choose_spec.1 hr hex.choose_spec.2
  set L := levelNet comps links exposed with hLdef
  have hpinsL : ∀ r, L.toANet.pinSet r → LevelPin r := by
    rintro r ⟨part, hp, hr⟩
    obtain ⟨s, hs, rfl⟩ := List.mem_map.1 hp
    obtain ⟨k, c, hk, rfl⟩ := (NetD.mem_initial L s).1 hs
    obtain ⟨h1, h2⟩ := (NetD.mem_pins_mkSt L k c r).1 hr
    exact hLP r c (by rw [h1]; exact hk) h2
  have hexpL : ∀ e ∈ exposed, LevelPin e.2 := by
    intro e he
    obtain ⟨⟨s0, hs0, hin⟩, _⟩ := ex.free e he
    exact hpinsL e.2 ⟨(s0.pins, s0.sem), List.mem_map.2 ⟨s0, hs0, rfl⟩, hin⟩
  have hlinkL : ∀ l ∈ links, LevelPin l.1 ∧ LevelPin l.2 := by
    intro l hl
    obtain ⟨c1, hc1, hp1⟩ := wf.endsPins l hl l.1 (Or.inl rfl)
    obtain ⟨c2, hc2, hp2⟩ := wf.endsPins l hl l.2 (Or.inr rfl)
    exact ⟨hLP _ c1 hc1 hp1, hLP _ c2 hc2 hp2⟩
  have hment : ∀ r, L.toANet.Mentions r → LevelPin r := by
    rintro r (h | ⟨l, hl, h⟩ | h)
    · exact hpinsL r h
    · rcases h with rfl | rfl
      · exact (hlinkL l hl).1
      · exact (hlinkL l hl).2
    · obtain ⟨e, he, rfl⟩ := List.mem_map.1 h
      exact hexpL e he
  have hM := ANet.map_solvedBy (f := resolveRef cs) (g := g) (fun p hp => hg p (hment p hp)) total.sem
    (L.toANet_solvedBy total.sem hT)
  -- the flattened children, each under its position, with the matrix the level uses for it
  let C : Fin cs.length → ANet HPin F := fun i => (cs[i]).flat.map (pre i.1) unpre
  let SK : Fin cs.length → HPin → HPin → F := fun i q q' => (L.mkSt i.1 (comps[i.1]'(hlen ▸ i.2))).sem (g q) (g q')
  have hCexp : ∀ i : Fin cs.length, (C i).exposed = ((comps[i.1]'(hlen ▸ i.2)).pins.map (cs[i]).resolve).map (pre i.1) := by
    intro i
    show ((cs[i]).flat.exposed).map (pre i.1) = _
    rw [(hTf i).exposed]
  have hCmem : ∀ (i : Fin cs.length) (x : String), x ∈ (comps[i.1]'(hlen ▸ i.2)).pins →
      resolveRef cs (i.1, x) ∈ (C i).exposed := by
    intro i x hx
    rw [hCexp, hφ]
    exact List.mem_map.2 ⟨_, List.mem_map.2 ⟨x, hx, rfl⟩, rfl⟩
  have hChead : ∀ (i : Fin cs.length) (q : HPin), (C i).pinSet q → q.1.head? = some i.1 := by
    intro i q hq
    obtain ⟨p, _, rfl⟩ := (ANet.pinSet_map q).1 hq
    rfl
  have hkey : ∀ (i : Fin cs.length) (r : PinRef), LevelPin r → (C i).pinSet (resolveRef cs r) →
      resolveRef cs r ∈ (C i).exposed := by
    rintro i ⟨k, x⟩ ⟨j, hj, hx⟩ hp
    simp only at hj hx
    subst hj
    have := hChead i _ hp
    have hji : j = i := by
      apply Fin.ext
      simpa [resolveRef, pre] using this
    subst hji
    exact hCmem j x hx
  have hCclosed : ∀ i : Fin cs.length, (C i).ClosedFree := fun i => ANet.ClosedFree.map (unpre_pre i.1) (hTf i).closed
  have hCdisj : ∀ i j : Fin cs.length, i ≠ j → ∀ p, (C i).pinSet p → ¬ (C j).pinSet p := by
    intro i j hij p h1 h2
    have := (hChead i p h1).symm.trans (hChead j p h2)
    exact hij (Fin.ext (Option.some.inj this))
  let Cs : List (ANet HPin F × (HPin → HPin → F)) := List.ofFn fun i => (C i, SK i)
  have hCs : ∀ cs' ∈ Cs, ∃ i, cs' = (C i, SK i) := by
    intro cs' h
    obtain ⟨i, hi⟩ := List.mem_ofFn.1 h
    exact ⟨i, hi.symm⟩
  let Lφ := links.map (fun l => (resolveRef cs l.1, resolveRef cs l.2))
  let Eφ := exposed.map fun e => resolveRef cs e.2
  let T : HPin → HPin → F := fun q q' => total.sem (g q) (g q')
  have hpart : ∀ i : Fin cs.length,
      (((L.mkSt i.1 (comps[i.1]'(hlen ▸ i.2))).pins.map (resolveRef cs),
        fun q q' => (L.mkSt i.1 (comps[i.1]'(hlen ▸ i.2))).sem (g q) (g q')) : List HPin × (HPin → HPin → F)) =
      ((C i).exposed, SK i) := by
    intro i
    refine Prod.ext ?_ rfl
    show ((comps[i.1]'(hlen ▸ i.2)).pins.map fun n => (i.1, n)).map (resolveRef cs) = (C i).exposed
    rw [hCexp, List.map_map, List.map_map]
    apply List.map_congr_left
    intro x _
    exact hφ i x
  have hwrapped : (ANet.wrapped [] Cs Lφ Eφ).SolvedBy T := by
    refine ANet.solvedBy_of_same _ _ ?_ ?_ ?_ T hM
    · intro part
      show part ∈ (L.initial.map fun s => (s.pins, s.sem)).map
          (fun part => (part.1.map (resolveRef cs), fun q q' => part.2 (g q) (g q'))) ↔
        part ∈ [] ++ Cs.map (fun cs => (cs.1.exposed, cs.2))
      rw [List.nil_append, List.map_map]
      constructor
      · intro h
        obtain ⟨s, hs, rfl⟩ := List.mem_map.1 h
        obtain ⟨k, c, hk, rfl⟩ := (NetD.mem_initial L s).1 hs
        obtain ⟨h1, h2⟩ := List.getElem?_eq_some_iff.1 hk
        subst h2
        exact List.mem_map.2 ⟨(C ⟨k, hlen ▸ h1⟩, SK ⟨k, hlen ▸ h1⟩), List.mem_ofFn.2 ⟨⟨k, hlen ▸ h1⟩, rfl⟩,
          (hpart ⟨k, hlen ▸ h1⟩).symm⟩
      · intro h
        obtain ⟨cs', hcs', rfl⟩ := List.mem_map.1 h
        obtain ⟨i, rfl⟩ := hCs cs' hcs'
        refine List.mem_map.2 ⟨L.mkSt i.1 (comps[i.1]'(hlen ▸ i.2)), ?_, hpart i⟩
        exact (NetD.mem_initial L _).2 ⟨i.1, _, List.getElem?_eq_getElem _, rfl⟩
    · intro l; rfl
    · show (L.exposed.map (·.2)).map (resolveRef cs) = exposed.map fun e => resolveRef cs e.2
      rw [List.map_map]; rfl
  have hinl : (ANet.inlinedAll [] Cs Lφ Eφ).SolvedBy T := by
    apply ANet.substitution_all Cs [] Lφ Eφ T _ _ _ _ _ _ hwrapped
    · intro cs' h
      obtain ⟨i, rfl⟩ := hCs cs' h
      refine ⟨fun q q' => Tf i (unpre q) (unpre q'),
        ANet.map_solvedBy (fun p _ => unpre_pre i.1 p) (Tf i) (hTf i).solved, ?_⟩
      intro p hp q hq
      rw [hCexp] at hp hq
      obtain ⟨p0, hp0, rfl⟩ := List.mem_map.1 hp
      obtain ⟨x, hx, rfl⟩ := List.mem_map.1 hp0
      obtain ⟨q0, hq0, rfl⟩ := List.mem_map.1 hq
      obtain ⟨y, hy, rfl⟩ := List.mem_map.1 hq0
      show (L.mkSt i.1 (comps[i.1]'(hlen ▸ i.2))).sem (g (pre i.1 ((cs[i]).resolve x))) (g (pre i.1 ((cs[i]).resolve y))) =
        Tf i ((cs[i]).resolve x) ((cs[i]).resolve y)
      rw [← hφ i x, ← hφ i y, hg _ ⟨i, rfl, hx⟩, hg _ ⟨i, rfl, hy⟩, NetD.mkSt_sem, (hTf i).coeff x hx y hy]
    · intro cs' h; obtain ⟨i, rfl⟩ := hCs cs' h; exact hCclosed i
    · intro part hp; cases hp
    · apply List.pairwise_ofFn.2
      intro i j hij
      exact hCdisj i j (Fin.ne_of_lt hij)
    · intro l' hl' cs' h
      obtain ⟨i, rfl⟩ := hCs cs' h
      obtain ⟨l, hl, rfl⟩ := List.mem_map.1 hl'
      exact ⟨hkey i l.1 (hlinkL l hl).1, hkey i l.2 (hlinkL l hl).2⟩
    · intro e' he' cs' h
      obtain ⟨i, rfl⟩ := hCs cs' h
      obtain ⟨e, he, rfl⟩ := List.mem_map.1 he'
      exact hkey i e.2 (hexpL e he)
  -- the flattened node is that network with all children inlined
  have hCall : ∀ N, N ∈ flatAll cs 0 ↔ ∃ i, N = C i := by
    intro N
    rw [mem_flatAll]
    constructor
    · rintro ⟨i, h, hi, rfl⟩
      obtain ⟨h1, h2⟩ := List.getElem?_eq_some_iff.1 hi
      subst h2
      exact ⟨⟨i, h1⟩, by rw [Nat.zero_add]; rfl⟩
    · rintro ⟨i, rfl⟩
      exact ⟨i.1, cs[i], List.getElem?_eq_getElem _, by rw [Nat.zero_add]⟩
  have hflatMap : ∀ {β : Type} (sel : ANet HPin F → List β) (b : β),
      b ∈ Cs.flatMap (fun cs' => sel cs'.1) ↔ b ∈ (flatAll cs 0).flatMap sel := by
    intro β sel b
    rw [List.mem_flatMap, List.mem_flatMap]
    constructor
    · rintro ⟨cs', h, hp⟩
      obtain ⟨i, rfl⟩ := hCs cs' h
      exact ⟨C i, (hCall _).2 ⟨i, rfl⟩, hp⟩
    · rintro ⟨N, hN, hp⟩
      obtain ⟨i, rfl⟩ := (hCall N).1 hN
      exact ⟨(C i, SK i), List.mem_ofFn.2 ⟨i, rfl⟩, hp⟩
  have hNN : (HNet.node cs links exposed).flat =
      { parts := (flatAll cs 0).flatMap (·.parts), links := Lφ ++ (flatAll cs 0).flatMap (·.links), exposed := Eφ } :=
    flat_node cs links exposed
  have hres : ∀ e ∈ exposed, (HNet.node cs links exposed).resolve e.1 = resolveRef cs e.2 := by
    intro e he
    rw [resolve_node, lookupL_of_mem_nodup exposed e he hn]
  have hLPexp : ∀ r, LevelPin r → ∃ i, resolveRef cs r ∈ (C i).exposed := by
    rintro ⟨k, x⟩ ⟨i, hi, hx⟩
    simp only at hi hx
    subst hi
    exact ⟨i, hCmem i x hx⟩
  refine ⟨T, ?_, ?_, ?_, ?_, ?_⟩
  · rw [hNN]
    refine ANet.solvedBy_of_same _ _ ?_ ?_ ?_ T hinl
    · intro part
      show part ∈ [] ++ Cs.flatMap (fun cs' => cs'.1.parts) ↔ part ∈ (flatAll cs 0).flatMap (·.parts)
      rw [List.nil_append]
      exact hflatMap (·.parts) part
    · intro l
      show l ∈ Lφ ++ Cs.flatMap (fun cs' => cs'.1.links) ↔ l ∈ Lφ ++ (flatAll cs 0).flatMap (·.links)
      rw [List.mem_append, List.mem_append, hflatMap (·.links) l]
    · rfl
  · rw [hNN]
    show Eφ = (exposed.map (·.1)).map (HNet.node cs links exposed).resolve
    rw [List.map_map]
    apply List.map_congr_left
    intro e he
    exact (hres e he).symm
  · intro x hx y hy
    obtain ⟨e, he, rfl⟩ := List.mem_map.1 hx
    obtain ⟨e', he', rfl⟩ := List.mem_map.1 hy
    rw [hres e he, hres e' he']
    show total.sem (g (resolveRef cs e.2)) (g (resolveRef cs e'.2)) = _
    rw [hg _ (hexpL e he), hg _ (hexpL e' he'), NetD.extract_sem L total hn e e' he he']
  · intro x hx y hy hxy
    obtain ⟨e, he, rfl⟩ := List.mem_map.1 hx
    obtain ⟨e', he', rfl⟩ := List.mem_map.1 hy
    rw [hres e he, hres e' he'] at hxy
    have h2 : e.2 = e'.2 := hinj _ _ (hexpL e he) (hexpL e' he') hxy
    rw [List.inj_on_of_nodup_map ex.nodup he he' h2]
  · rw [hNN]
    have hpinNode : ∀ (i : Fin cs.length) (q : HPin), (C i).pinSet q →
        ANet.pinSet (F := F) { parts := (flatAll cs 0).flatMap (·.parts), links := Lφ ++ (flatAll cs 0).flatMap (·.links), exposed := Eφ } q := by
      rintro i q ⟨part, hp, hq⟩
      exact ⟨part, List.mem_flatMap.2 ⟨C i, (hCall _).2 ⟨i, rfl⟩, hp⟩, hq⟩
    have hLPpin : ∀ r, LevelPin r →
        ANet.pinSet (F := F) { parts := (flatAll cs 0).flatMap (·.parts), links := Lφ ++ (flatAll cs 0).flatMap (·.links), exposed := Eφ } (resolveRef cs r) := by
      intro r hr
      obtain ⟨i, hi⟩ := hLPexp r hr
      exact hpinNode i _ ((hCclosed i).exposed _ hi).1
    constructor
    · intro l hl
      rcases List.mem_append.1 hl with hl | hl
      · obtain ⟨l0, hl0, rfl⟩ := List.mem_map.1 hl
        exact ⟨hLPpin _ (hlinkL l0 hl0).1, hLPpin _ (hlinkL l0 hl0).2⟩
      · obtain ⟨N, hN, hlN⟩ := List.mem_flatMap.1 hl
        obtain ⟨i, rfl⟩ := (hCall N).1 hN
        obtain ⟨h1, h2⟩ := (hCclosed i).links l hlN
        exact ⟨hpinNode i _ h1, hpinNode i _ h2⟩
    · intro e' he'
      obtain ⟨e, he, rfl⟩ := List.mem_map.1 he'
      refine ⟨hLPpin _ (hexpL e he), ?_⟩
      intro q hq
      rcases hq with hq | hq
      · rcases List.mem_append.1 hq with hq | hq
        · obtain ⟨l0, hl0, hl0e⟩ := List.mem_map.1 hq
          have h1 : resolveRef cs l0.1 = resolveRef cs e.2 := (Prod.mk.inj hl0e).1
          have h2 : l0.1 = e.2 := hinj _ _ (hlinkL l0 hl0).1 (hexpL e he) h1
          exact (ex.free e he).2 l0.2 (Or.inl (by rw [← h2]; exact hl0))
        · obtain ⟨N, hN, hlN⟩ := List.mem_flatMap.1 hq
          obtain ⟨j, rfl⟩ := (hCall N).1 hN
          have hin := hkey j e.2 (hexpL e he) ((hCclosed j).links _ hlN).1
          exact ((hCclosed j).exposed _ hin).2 q (Or.inl hlN)
      · rcases List.mem_append.1 hq with hq | hq
        · obtain ⟨l0, hl0, hl0e⟩ := List.mem_map.1 hq
          have h1 : resolveRef cs l0.2 = resolveRef cs e.2 := (Prod.mk.inj hl0e).2
          have h2 : l0.2 = e.2 := hinj _ _ (hlinkL l0 hl0).2 (hexpL e he) h1
          exact (ex.free e he).2 l0.1 (Or.inr (by rw [← h2]; exact hl0))
        · obtain ⟨N, hN, hlN⟩ := List.mem_flatMap.1 hq
          obtain ⟨j, rfl⟩ := (hCall N).1 hN
          have hin := hkey j e.2 (hexpL e he) ((hCclosed j).links _ hlN).2
          exact ((hCclosed j).exposed _ hin).2 q (Or.inr hlN)

/-- the invariant holds at every node of a hierarchy whose levels are well formed -/
theorem solveH_flatInv (sched : List (St F) → Option (Nat × Nat)) {h : HNet F} (ok : LevelsOK sched h) :
    ∀ c, solveH sched h = .ok c → ∃ T, FlatInv h c T := by
  induction ok with
  | leaf c0 =>
    intro c hs
    rw [solveH_leaf] at hs
    cases hs
    exact ⟨_, flatInv_leaf c0⟩
  | node cs links exposed _ hlev ih =>
    intro c hs
    obtain ⟨comps, total, hF, ht, rfl⟩ := solveH_node_inv sched cs links exposed c hs
    obtain ⟨wf, ex, hn⟩ := hlev comps hF
    obtain ⟨hlen, hget⟩ := List.forall₂_iff_get.1 hF
    exact flatInv_node cs links exposed comps total hlen
      (fun i h1 h2 => ih cs[i] (List.getElem_mem h1) comps[i] (by simpa using hget i h1 h2))
      wf ex hn (C01_solve_solves _ wf ex sched total ht)

/-- **the hierarchical solve is sound for the flattened circuit**: if every level of the hierarchy is well formed and the
recursive solve returns `c`, then `c` carries — between its pin names, each standing for the leaf pin it resolves to —
a solution operator of the single-level network made of all leaves and all connections -/
theorem solveH_sound (sched : List (St F) → Option (Nat × Nat)) (h : HNet F) (ok : LevelsOK sched h)
    (c : CompD F) (hs : solveH sched h = .ok c) :
    ∃ T, h.flat.SolvedBy T ∧ h.flat.exposed = c.pins.map h.resolve ∧
      ∀ x ∈ c.pins, ∀ y ∈ c.pins, T (h.resolve x) (h.resolve y) = c.sem x y := by
  obtain ⟨T, hT⟩ := solveH_flatInv sched ok c hs
  exact ⟨T, hT.solved, hT.exposed, hT.coeff⟩

end HNet
end soundness2

/-! ### uniqueness, and a syntactic well-formedness condition -/

section corollaries
variable {F : Type} [Field F] [DecidableEq F]
namespace HNet

/-- **and it is the only one**: whatever computes a solution operator of the flattened circuit (for instance the
elimination loop on the flat description, any schedule) finds the coefficients the hierarchical solve returned -/
theorem solveH_flat_operator (sched : List (St F) → Option (Nat × Nat)) (h : HNet F) (ok : LevelsOK sched h)
    (c : CompD F) (hs : solveH sched h = .ok c) (hp : c.pins.Nodup)
    (T' : HPin → HPin → F) (hT' : h.flat.SolvedBy T') :
    ∀ x ∈ c.pins, ∀ y ∈ c.pins, T' (h.resolve x) (h.resolve y) = c.sem x y := by
  obtain ⟨T, hT⟩ := solveH_flatInv sched ok c hs
  have hnd : h.flat.exposed.Nodup := by
    rw [hT.exposed]
    exact List.Nodup.map_on (fun x hx y hy e => hT.inj x hx y hy e) hp
  intro x hx y hy
  have hx' : h.resolve x ∈ h.flat.exposed := by rw [hT.exposed]; exact List.mem_map.2 ⟨x, hx, rfl⟩
  have hy' : h.resolve y ∈ h.flat.exposed := by rw [hT.exposed]; exact List.mem_map.2 ⟨y, hy, rfl⟩
  rw [← hT.coeff x hx y hy]
  exact ANet.solvedBy_unique h.flat hnd T' T hT' hT.solved _ hx' _ hy'

/-! ### a syntactic sufficient condition for `LevelsOK` -/

/-- the pin names a sub-circuit presents to its parent -/
def pinNames : HNet F → List String
  | .leaf c => c.pins
  | .node _ _ exposed => exposed.map (·.1)

theorem solveH_pins (sched : List (St F) → Option (Nat × Nat)) (h : HNet F) (c : CompD F)
    (hs : solveH sched h = .ok c) : c.pins = h.pinNames := by
  cases h with
  | leaf c0 => rw [solveH_leaf] at hs; cases hs; rfl
  | node cs links exposed =>
    obtain ⟨comps, total, _, _, rfl⟩ := solveH_node_inv sched cs links exposed c hs
    rfl

theorem solveAll_pins (sched : List (St F) → Option (Nat × Nat)) (cs : List (HNet F)) (comps : List (CompD F))
    (hF : List.Forall₂ (fun h c => solveH sched h = .ok c) cs comps) : comps.map CompD.pins = cs.map pinNames := by
  induction hF with
  | nil => rfl
  | cons hab _ ih => simp only [List.map_cons, ih, solveH_pins sched _ _ hab]

/-- one level, described by the pin names of its children only: names and pins are distinct, every end of a link and
every exposed pin is a pin of a child, a pin is in at most one link, no child is linked to itself, exposed pins are free -/
structure LevelOK (pinss : List (List String)) (links : List (PinRef × PinRef)) (exposed : List (String × PinRef)) :
    Prop where
  pinsNodup : ∀ ps ∈ pinss, ps.Nodup
  endsNodup : (links.flatMap fun l => [l.1, l.2]).Nodup
  endsPins : ∀ l ∈ links, ∀ p, (p = l.1 ∨ p = l.2) → ∃ ps, pinss[p.1]? = some ps ∧ p.2 ∈ ps
  noSelf : ∀ l ∈ links, l.1.1 ≠ l.2.1
  expNodup : (exposed.map (·.2)).Nodup
  expPins : ∀ e ∈ exposed, ∃ ps, pinss[e.2.1]? = some ps ∧ e.2.2 ∈ ps
  expFree : ∀ e ∈ exposed, ∀ l ∈ links, e.2 ≠ l.1 ∧ e.2 ≠ l.2
  namesNodup : (exposed.map (·.1)).Nodup

theorem LevelOK.wf {comps : List (CompD F)} {links : List (PinRef × PinRef)} {exposed : List (String × PinRef)}
    (h : LevelOK (comps.map CompD.pins) links exposed) :
    (levelNet comps links exposed).WF ∧ (levelNet comps links exposed).ExposureOK := by
  have hget : ∀ (k : Nat) (ps : List String), (comps.map CompD.pins)[k]? = some ps → ∃ c : CompD F, comps[k]? = some c ∧ c.pins = ps := by
    intro k ps hk
    rw [List.getElem?_map] at hk
    cases hc : comps[k]? with
    | none => rw [hc] at hk; cases hk
    | some c => rw [hc] at hk; exact ⟨c, rfl, Option.some.inj hk⟩
  constructor
  · refine ⟨?_, h.endsNodup, ?_, h.noSelf⟩
    · intro c hc; exact h.pinsNodup c.pins (List.mem_map.2 ⟨c, hc, rfl⟩)
    · intro l hl p hp
      obtain ⟨ps, hps, hin⟩ := h.endsPins l hl p hp
      obtain ⟨c, hc, rfl⟩ := hget _ _ hps
      exact ⟨c, hc, hin⟩
  · refine ⟨h.expNodup, ?_⟩
    intro e he
    constructor
    · obtain ⟨ps, hps, hin⟩ := h.expPins e he
      obtain ⟨c, hc, rfl⟩ := hget _ _ hps
      exact ⟨(levelNet comps links exposed).mkSt e.2.1 c,
        (NetD.mem_initial _ _).2 ⟨e.2.1, c, hc, rfl⟩, (NetD.mem_pins_mkSt _ _ _ _).2 ⟨rfl, hin⟩⟩
    · intro q hq
      rcases hq with hq | hq
      · exact (h.expFree e he _ hq).1 rfl
      · exact (h.expFree e he _ hq).2 rfl

/-- a hierarchy every level of which is well formed, stated on the description alone -/
inductive WFTree : HNet F → Prop
  | leaf (c : CompD F) : WFTree (.leaf c)
  | node (cs : List (HNet F)) (links : List (PinRef × PinRef)) (exposed : List (String × PinRef)) :
      (∀ h ∈ cs, WFTree h) → LevelOK (cs.map pinNames) links exposed → WFTree (.node cs links exposed)

theorem WFTree.levelsOK (sched : List (St F) → Option (Nat × Nat)) {h : HNet F} (w : WFTree h) : LevelsOK sched h := by
  induction w with
  | leaf c => exact LevelsOK.leaf c
  | node cs links exposed _ hlev ih =>
    refine LevelsOK.node cs links exposed ih ?_
    intro comps hF
    have hpins := solveAll_pins sched cs comps hF
    rw [← hpins] at hlev
    exact ⟨hlev.wf.1, hlev.wf.2, hlev.namesNodup⟩

/-- soundness of the hierarchical solve under the syntactic well-formedness condition -/
theorem solveH_sound_of_wfTree (sched : List (St F) → Option (Nat × Nat)) (h : HNet F) (w : WFTree h)
    (c : CompD F) (hs : solveH sched h = .ok c) :
    ∃ T, h.flat.SolvedBy T ∧ h.flat.exposed = c.pins.map h.resolve ∧
      ∀ x ∈ c.pins, ∀ y ∈ c.pins, T (h.resolve x) (h.resolve y) = c.sem x y :=
  solveH_sound sched h (w.levelsOK sched) c hs


/-- non-vacuity: a two-level hierarchy (a chain of two two-ports wrapped as a sub-circuit, chained with a third)
satisfies the syntactic condition, whatever the matrices -/
example (c1 c2 c3 : CompD F) (h1 : c1.pins = ["a", "b"]) (h2 : c2.pins = ["a", "b"]) (h3 : c3.pins = ["a", "b"]) :
    WFTree (.node
      [.node [.leaf c1, .leaf c2] [((0, "b"), (1, "a"))] [("x", (0, "a")), ("y", (1, "b"))], .leaf c3]
      [((0, "y"), (1, "a"))] [("in", (0, "x")), ("out", (1, "b"))]) := by
  refine WFTree.node _ _ _ ?_ ?_
  · intro h hh
    simp only [List.mem_cons, List.not_mem_nil, or_false] at hh
    rcases hh with rfl | rfl
    · refine WFTree.node _ _ _ ?_ ?_
      · intro h hh
        simp only [List.mem_cons, List.not_mem_nil, or_false] at hh
        rcases hh with rfl | rfl
        · exact WFTree.leaf _
        · exact WFTree.leaf _
      · constructor <;> simp [pinNames, h1, h2]
    · exact WFTree.leaf _
  · constructor <;> simp [pinNames, h3]

end HNet
end corollaries
