import LekkerVerif.Core.Basic

/-!
# A functional specification of `Mat.gaussJordan`

`Mat.gaussJordan` (in `Basic.lean`) is written imperatively (`Id.run do`, `for`, `let mut`,
early `return none`).  Here the same algorithm is written as plain recursive/`foldl` functions
(`gjSpec`), and `gaussJordan_eq_spec` proves that the two are *equal* for every `Scalar` type.
No Mathlib is needed for this file.
-/

namespace Mat
variable {F : Type} [Scalar F]

/-- initial augmented array `[A | 1]` -/
def gjInit (A : Mat F) : Array (Array F) :=
  Array.ofFn fun (i : Fin A.r) => Array.ofFn fun (j : Fin (2*A.r)) =>
    if j.1 < A.r then A.get i.1 j.1 else (if j.1 - A.r = i.1 then 1 else 0)

/-- one iteration of the pivot search: keep the first row with a non-zero entry -/
def pivStep (n col : Nat) (M : Array (Array F)) (piv r : Nat) : Nat :=
  if piv == n && !((M[r]!)[col]! == (0:F)) then r else piv

/-- pivot search over rows `col, …, n-1`; the value `n` means "not found" -/
def pivSearch (n col : Nat) (M : Array (Array F)) : Nat :=
  (List.range' col (n - col)).foldl (pivStep n col M) n

/-- one iteration of the elimination loop: clear the entry `(r, col)` using row `col` -/
def elimStep (col : Nat) (M : Array (Array F)) (r : Nat) : Array (Array F) :=
  if r != col then
    if !((M[r]!)[col]! == (0:F)) then
      M.set! r ((M[r]!).mapIdx fun j x => x - (M[r]!)[col]! * (M[col]!)[j]!)
    else M
  else M

/-- swap rows `col` and `piv` -/
def swapRows (col piv : Nat) (M : Array (Array F)) : Array (Array F) :=
  (M.set! col (M[piv]!)).set! piv (M[col]!)

/-- normalise row `col` so that its entry in column `col` becomes `1` -/
def scaleRow (col : Nat) (M : Array (Array F)) : Array (Array F) :=
  M.set! col ((M[col]!).map (· * ((M[col]!)[col]!)⁻¹))

/-- swap rows `col` and `piv`, then normalise row `col` -/
def swapScale (col piv : Nat) (M : Array (Array F)) : Array (Array F) :=
  scaleRow col (swapRows col piv M)

/-- processing of one column; `none` when no pivot exists -/
def gjStep (n col : Nat) (M : Array (Array F)) : Option (Array (Array F)) :=
  let piv := pivSearch n col M
  if piv == n then none
  else some ((List.range' 0 n).foldl (elimStep col) (swapScale col piv M))

/-- the outer loop over a list of columns -/
def gjLoop (n : Nat) : List Nat → Array (Array F) → Option (Array (Array F))
  | [], M => some M
  | col :: cs, M =>
    match gjStep n col M with
    | none => none
    | some M' => gjLoop n cs M'

/-- functional specification of `gaussJordan` -/
def gjSpec (A : Mat F) : Option (Array (Array F)) := gjLoop A.r (List.range' 0 A.r) (gjInit A)

/-! ### the imperative code equals the specification -/

theorem forIn_yield_foldl {α β : Type} (l : List α) (init : β) (f : α → β → Id (ForInStep β))
    (g : β → α → β) (h : ∀ a b, f a b = pure (ForInStep.yield (g b a))) :
    forIn l init f = (pure (l.foldl g init) : Id β) := by
  have : f = fun a b => pure (ForInStep.yield (g b a)) := by funext a b; exact h a b
  subst this
  exact List.forIn_pure_yield_eq_foldl _ _

/-- state of the outer loop after desugaring: (early-return slot, the mutable `M`) -/
abbrev GJState (F : Type) := Option (Option (Array (Array F))) × Array (Array F)

/-- read off the result from the final outer loop state -/
def gjFin (s : GJState F) : Option (Array (Array F)) :=
  match s.fst with
  | some r => r
  | none => some s.snd

/-- the desugared body of the outer `for` loop -/
def gjBody (n col : Nat) (s : GJState F) : Id (ForInStep (GJState F)) := do
  let p ← forIn (List.range' col (n - col)) n fun r p =>
      if (p == n && !(s.snd[r]![col]! == (0:F))) = true then pure (ForInStep.yield r)
      else pure (ForInStep.yield p)
  if (p == n) = true then pure (ForInStep.done (some none, s.snd))
  else do
    let M' ← forIn (List.range' 0 n) (swapScale col p s.snd) fun r M =>
        if (r != col) = true then
          if (!(M[r]![col]! == (0:F))) = true then
            pure (ForInStep.yield
              (M.set! r (Array.mapIdx (fun j x => x - M[r]![col]! * M[col]![j]!) M[r]!)))
          else pure (ForInStep.yield M)
        else pure (ForInStep.yield M)
    pure (ForInStep.yield (none, M'))

theorem gjBody_eq (n col : Nat) (s : GJState F) :
    gjBody n col s = pure (match gjStep n col s.snd with
      | none => ForInStep.done (some none, s.snd)
      | some M' => ForInStep.yield (none, M')) := by
  unfold gjBody gjStep
  rw [forIn_yield_foldl _ _ _ (pivStep n col s.snd)
    (by intro a b; unfold pivStep; split <;> rfl)]
  have hp : List.foldl (pivStep n col s.snd) n (List.range' col (n - col))
      = pivSearch n col s.snd := rfl
  rw [hp, pure_bind]
  generalize pivSearch n col s.snd = p
  by_cases h : (p == n) = true
  · simp only [h, if_true]
  · simp only [h]
    rw [forIn_yield_foldl _ _ _ (elimStep col)
      (by
        intro a b; unfold elimStep; split
        · split <;> rfl
        · rfl)]
    rfl

theorem gjOuter (n : Nat) (cs : List Nat) (M : Array (Array F)) :
    gjFin (Id.run (forIn cs ((none, M) : GJState F) (gjBody n))) = gjLoop n cs M := by
  induction cs generalizing M with
  | nil => rfl
  | cons c cs ih =>
    rw [List.forIn_cons, gjBody_eq]
    simp only [pure_bind, gjLoop]
    cases h : gjStep n c M with
    | none => simp [gjFin]
    | some M' => simpa using ih M'

omit [Scalar F] in
theorem run_fin (X : Id (GJState F)) :
    (X >>= fun __s => Break.runK.match_1 (motive := fun _ => Id (Option (Array (Array F))))
      __s.fst (fun r => pure r) (fun _ => pure (some __s.snd))).run = gjFin X.run := by
  unfold gjFin
  show Id.run (Break.runK.match_1 (motive := fun _ => Id (Option (Array (Array F))))
    X.run.fst (fun r => pure r) (fun _ => pure (some X.run.snd))) = _
  split <;> rename_i h <;> rw [h] <;> rfl

/-- **The imperative Gauss–Jordan elimination equals its functional specification.** -/
theorem gaussJordan_eq_spec (A : Mat F) : gaussJordan A = gjSpec A := by
  unfold gjSpec
  rw [← gjOuter A.r (List.range' 0 A.r) (gjInit A)]
  unfold gaussJordan
  simp only [Std.Legacy.Range.forIn_eq_forIn_range', Std.Legacy.Range.size, Nat.add_sub_cancel,
    Nat.div_one, Nat.sub_zero]
  rw [run_fin]
  rfl

end Mat
