import LekkerVerif.Core.HierFlatten
import LekkerVerif.Core.HierSolveSpec

/-! # `flatten()` preserves the solved matrix (C11)

`HNet.flatten` (Core/HierFlatten.lean) is the model of `Solver.flatten()`.  For every well-formed hierarchy (`HNet.WFTree`),
every depth and branching, every merge schedule at every level:

* `HNet.WFTree.flatten` — the flattening is well formed again (so `solveH_sound` applies to it);
* `HNet.flatten_preserves` — the hierarchical solve and the solve of the flattening return the same pins and the same
  coefficient between every two of them.  Route: the flattened network of the flattening is the flattened network of the
  hierarchy with every leaf pin renamed from (path, name) to (position of the leaf, name) (`ANet.map_solvedBy`), and the
  solution operator of a network is unique (`solveH_flat_operator`);
* `HNet.flatten_isFlat`, `HNet.flatten_idem` — no sub-circuit is left, and flattening again changes nothing.

`HNet.Struct` collects what well-formedness of every level gives globally: leaf paths are distinct, exposed names resolve
injectively to leaf pins, every end of every (resolved) link is a leaf pin, no leaf pin is used twice, no link joins a leaf to
itself, exposed pins are free. -/

open NetD Solve

namespace HNet

section basics
variable {F : Type}

/-- induction over hierarchies: a property that holds for leaves, and for a node whenever it holds for its children -/
theorem induction {motive : HNet F → Prop} (leaf : ∀ c, motive (.leaf c))
    (node : ∀ cs links exposed, (∀ h ∈ cs, motive h) → motive (.node cs links exposed)) : ∀ h, motive h := by
  intro h
  refine HNet.rec (motive_1 := motive) (motive_2 := fun cs => ∀ h ∈ cs, motive h) leaf ?_ ?_ ?_ h
  · intro cs links exposed ih; exact node cs links exposed ih
  · intro h hh; cases hh
  · intro hd tl ih1 ih2 h hh
    rcases List.mem_cons.1 hh with rfl | hh
    · exact ih1
    · exact ih2 h hh

theorem under_eq_pre : @under = @pre := rfl

theorem leafPinAt_eq_of (cs : List (HNet F)) (ih : ∀ h ∈ cs, ∀ x, leafPin h x = resolve h x) :
    ∀ k x, leafPinAt cs k x = resolveAt cs k x := by
  induction cs with
  | nil => intro k x; rw [leafPinAt, resolveAt]
  | cons h t iht =>
    intro k x
    cases k with
    | zero => rw [leafPinAt, resolveAt]; exact ih h (by simp) x
    | succ k => rw [leafPinAt, resolveAt]; exact iht (fun h' hh' => ih h' (List.mem_cons_of_mem _ hh')) k x

theorem leafPin_eq_resolve : ∀ (h : HNet F) (x : String), leafPin h x = resolve h x := by
  intro h
  induction h using HNet.induction with
  | leaf c => intro x; rw [leafPin, resolve]
  | node cs links exposed ih =>
    intro x
    rw [leafPin, resolve]
    cases lookupL exposed x with
    | none => rfl
    | some r => simp only; rw [leafPinAt_eq_of cs ih]; rfl

theorem leafPinAt_eq_resolveAt (cs : List (HNet F)) (k : Nat) (x : String) : leafPinAt cs k x = resolveAt cs k x :=
  leafPinAt_eq_of cs (fun h _ => leafPin_eq_resolve h) k x

theorem leafRef_eq_resolveRef (cs : List (HNet F)) (r : PinRef) : leafRef cs r = resolveRef cs r := by
  unfold leafRef resolveRef
  rw [leafPinAt_eq_resolveAt]; rfl

theorem leaves_leaf (c : CompD F) : leaves (HNet.leaf c) = [([], c)] := by rw [leaves]
theorem leaves_node (cs : List (HNet F)) (links : List (PinRef × PinRef)) (exposed : List (String × PinRef)) :
    leaves (HNet.node cs links exposed) = leavesAll cs 0 := by rw [leaves]
theorem allLinks_leaf (c : CompD F) : allLinks (HNet.leaf c) = [] := by rw [allLinks]
theorem allLinks_node (cs : List (HNet F)) (links : List (PinRef × PinRef)) (exposed : List (String × PinRef)) :
    allLinks (HNet.node cs links exposed) =
      links.map (fun l => (leafRef cs l.1, leafRef cs l.2)) ++ allLinksAll cs 0 := by rw [allLinks]

theorem mem_leavesAll : ∀ (cs : List (HNet F)) (k : Nat) (pc : List Nat × CompD F),
    pc ∈ leavesAll cs k ↔ ∃ i h pc0, cs[i]? = some h ∧ pc0 ∈ leaves h ∧ pc = ((k + i) :: pc0.1, pc0.2) := by
  intro cs
  induction cs with
  | nil => intro k pc; rw [leavesAll]; simp
  | cons h t ih =>
    intro k pc
    rw [leavesAll, List.mem_append, ih, List.mem_map]
    constructor
    · rintro (⟨pc0, h0, rfl⟩ | ⟨i, h', pc0, hi, h0, rfl⟩)
      · exact ⟨0, h, pc0, rfl, h0, rfl⟩
      · exact ⟨i + 1, h', pc0, by simpa using hi, h0, by rw [show k + 1 + i = k + (i + 1) by omega]⟩
    · rintro ⟨i, h', pc0, hi, h0, rfl⟩
      cases i with
      | zero =>
        left
        simp only [List.getElem?_cons_zero, Option.some.injEq] at hi
        subst hi
        exact ⟨pc0, h0, rfl⟩
      | succ i =>
        right
        exact ⟨i, h', pc0, by simpa using hi, h0, by rw [show k + 1 + i = k + (i + 1) by omega]⟩

theorem mem_allLinksAll : ∀ (cs : List (HNet F)) (k : Nat) (l : PathPin × PathPin),
    l ∈ allLinksAll cs k ↔ ∃ i h l0, cs[i]? = some h ∧ l0 ∈ allLinks h ∧ l = (under (k + i) l0.1, under (k + i) l0.2) := by
  intro cs
  induction cs with
  | nil => intro k l; rw [allLinksAll]; simp
  | cons h t ih =>
    intro k l
    rw [allLinksAll, List.mem_append, ih, List.mem_map]
    constructor
    · rintro (⟨l0, h0, rfl⟩ | ⟨i, h', l0, hi, h0, rfl⟩)
      · exact ⟨0, h, l0, rfl, h0, rfl⟩
      · exact ⟨i + 1, h', l0, by simpa using hi, h0, by rw [show k + 1 + i = k + (i + 1) by omega]⟩
    · rintro ⟨i, h', l0, hi, h0, rfl⟩
      cases i with
      | zero =>
        left
        simp only [List.getElem?_cons_zero, Option.some.injEq] at hi
        subst hi
        exact ⟨l0, h0, rfl⟩
      | succ i =>
        right
        exact ⟨i, h', l0, by simpa using hi, h0, by rw [show k + 1 + i = k + (i + 1) by omega]⟩

end basics

/-! ### the flattened network in terms of `leaves` and `allLinks` -/
section flatLists
variable {F : Type} [Field F] [DecidableEq F]

/-- the part of the flattened network a leaf gives -/
def partOf (pc : List Nat × CompD F) : List HPin × (HPin → HPin → F) :=
  (pc.2.pins.map fun x => (pc.1, x), fun q q' => pc.2.sem q.2 q'.2)

theorem flatAll_parts (cs : List (HNet F)) (ih : ∀ h ∈ cs, (flat h).parts = (leaves h).map partOf) :
    ∀ k, (flatAll cs k).flatMap (·.parts) = (leavesAll cs k).map partOf := by
  induction cs with
  | nil => intro k; rw [flatAll, leavesAll]; rfl
  | cons h t iht =>
    intro k
    rw [flatAll, leavesAll, List.flatMap_cons, List.map_append,
      iht (fun h' hh' => ih h' (List.mem_cons_of_mem _ hh')) (k + 1)]
    congr 1
    show (flat h).parts.map (fun part => (part.1.map (pre k), fun q q' => part.2 (unpre q) (unpre q'))) = _
    rw [ih h (by simp), List.map_map, List.map_map]
    apply List.map_congr_left
    intro pc _
    refine Prod.ext ?_ rfl
    show (pc.2.pins.map fun x => (pc.1, x)).map (pre k) = pc.2.pins.map fun x => (k :: pc.1, x)
    rw [List.map_map]; rfl

theorem flatAll_links (cs : List (HNet F)) (ih : ∀ h ∈ cs, (flat h).links = allLinks h) :
    ∀ k, (flatAll cs k).flatMap (·.links) = allLinksAll cs k := by
  induction cs with
  | nil => intro k; rw [flatAll, allLinksAll]; rfl
  | cons h t iht =>
    intro k
    rw [flatAll, allLinksAll, List.flatMap_cons, iht (fun h' hh' => ih h' (List.mem_cons_of_mem _ hh')) (k + 1)]
    congr 1
    show (flat h).links.map (fun l => (pre k l.1, pre k l.2)) = _
    rw [ih h (by simp)]; rfl

theorem flat_parts : ∀ h : HNet F, (flat h).parts = (leaves h).map partOf := by
  intro h
  induction h using HNet.induction with
  | leaf c => rw [flat_leaf, leaves_leaf]; rfl
  | node cs links exposed ih => rw [flat_node, leaves_node]; exact flatAll_parts cs ih 0

theorem flat_links : ∀ h : HNet F, (flat h).links = allLinks h := by
  intro h
  induction h using HNet.induction with
  | leaf c => rw [flat_leaf, allLinks_leaf]
  | node cs links exposed ih =>
    rw [flat_node, allLinks_node]
    show _ ++ _ = _
    rw [flatAll_links cs ih 0]
    congr 1
    apply List.map_congr_left
    intro l _
    rw [leafRef_eq_resolveRef, leafRef_eq_resolveRef]

end flatLists
end HNet

/-! ### what a well-formed hierarchy guarantees about its leaves and links -/
namespace HNet
section structure_
variable {F : Type}

theorem leavesAll_paths_nodup (cs : List (HNet F)) (ih : ∀ h ∈ cs, ((leaves h).map (·.1)).Nodup) :
    ∀ k, ((leavesAll cs k).map (·.1)).Nodup := by
  induction cs with
  | nil => intro k; rw [leavesAll]; exact List.nodup_nil
  | cons h t iht =>
    intro k
    rw [leavesAll, List.map_append, List.map_map]
    refine List.nodup_append.2 ⟨?_, iht (fun h' hh' => ih h' (List.mem_cons_of_mem _ hh')) (k + 1), ?_⟩
    · have := (ih h (by simp)).map (f := fun p : List Nat => k :: p) (fun a b e => List.tail_eq_of_cons_eq e)
      rw [List.map_map] at this
      exact this
    · intro a ha b hb e
      obtain ⟨pc, _, rfl⟩ := List.mem_map.1 ha
      obtain ⟨pc', hpc', rfl⟩ := List.mem_map.1 hb
      obtain ⟨i, h', pc0, _, _, rfl⟩ := (mem_leavesAll t (k + 1) pc').1 hpc'
      have : k = k + 1 + i := List.head_eq_of_cons_eq e
      omega

theorem allLinksAll_ends_nodup (cs : List (HNet F))
    (ih : ∀ h ∈ cs, ((allLinks h).flatMap fun l => [l.1, l.2]).Nodup) :
    ∀ k, ((allLinksAll cs k).flatMap fun l => [l.1, l.2]).Nodup := by
  induction cs with
  | nil => intro k; rw [allLinksAll]; exact List.nodup_nil
  | cons h t iht =>
    intro k
    rw [allLinksAll, List.flatMap_append, List.flatMap_map]
    refine List.nodup_append.2 ⟨?_, iht (fun h' hh' => ih h' (List.mem_cons_of_mem _ hh')) (k + 1), ?_⟩
    · have := (ih h (by simp)).map (f := under k) (fun a b e => by
        have e1 : (under k a).1 = (under k b).1 := congrArg Prod.fst e
        have h1 : a.1 = b.1 := List.tail_eq_of_cons_eq e1
        have h2 : (under k a).2 = (under k b).2 := congrArg Prod.snd e
        exact Prod.ext h1 h2)
      rw [List.map_flatMap] at this
      exact this
    · intro a ha b hb e
      obtain ⟨l, _, hal⟩ := List.mem_flatMap.1 ha
      obtain ⟨l', hl', hbl⟩ := List.mem_flatMap.1 hb
      obtain ⟨i, h', l0, _, _, rfl⟩ := (mem_allLinksAll t (k + 1) l').1 hl'
      have ha1 : a.1.head? = some k := by
        simp only [List.mem_cons, List.not_mem_nil, or_false] at hal
        rcases hal with rfl | rfl <;> rfl
      have hb1 : b.1.head? = some (k + 1 + i) := by
        simp only [List.mem_cons, List.not_mem_nil, or_false] at hbl
        rcases hbl with rfl | rfl <;> rfl
      rw [e, hb1] at ha1
      have := Option.some.inj ha1
      omega

end structure_
end HNet

namespace HNet
section struct2
variable {F : Type}

/-- `p` is a pin of a leaf of `h` -/
def IsLeafPin (h : HNet F) (p : HPin) : Prop := ∃ pc ∈ leaves h, pc.1 = p.1 ∧ p.2 ∈ pc.2.pins

/-- structure of a well-formed hierarchy, in terms of its leaves and its resolved links -/
structure Struct (h : HNet F) : Prop where
  leafNodup : ((leaves h).map (·.1)).Nodup
  pinsNodup : (pinNames h).Nodup → ∀ pc ∈ leaves h, pc.2.pins.Nodup
  inj : ∀ x ∈ pinNames h, ∀ y ∈ pinNames h, resolve h x = resolve h y → x = y
  expPin : ∀ x ∈ pinNames h, IsLeafPin h (resolve h x)
  linkPin : ∀ l ∈ allLinks h, IsLeafPin h l.1 ∧ IsLeafPin h l.2
  endsNodup : ((allLinks h).flatMap fun l => [l.1, l.2]).Nodup
  noSelf : ∀ l ∈ allLinks h, l.1.1 ≠ l.2.1
  expFree : ∀ x ∈ pinNames h, ∀ l ∈ allLinks h, resolve h x ≠ l.1 ∧ resolve h x ≠ l.2

theorem struct_leaf (c : CompD F) : Struct (.leaf c) := by
  have hp : pinNames (HNet.leaf c) = c.pins := rfl
  refine ⟨?_, ?_, ?_, ?_, ?_, ?_, ?_, ?_⟩
  · rw [leaves_leaf]; simp
  · intro hn pc hpc
    rw [leaves_leaf] at hpc
    rw [List.mem_singleton.1 hpc]
    exact hn
  · intro x _ y _ e
    rw [resolve_leaf, resolve_leaf] at e
    exact (Prod.mk.inj e).2
  · intro x hx
    rw [resolve_leaf]
    exact ⟨([], c), by rw [leaves_leaf]; simp, rfl, hx⟩
  · intro l hl; rw [allLinks_leaf] at hl; cases hl
  · rw [allLinks_leaf]; exact List.nodup_nil
  · intro l hl; rw [allLinks_leaf] at hl; cases hl
  · intro x _ l hl; rw [allLinks_leaf] at hl; cases hl

theorem struct_node (cs : List (HNet F)) (links : List (PinRef × PinRef)) (exposed : List (String × PinRef))
    (lev : LevelOK (cs.map pinNames) links exposed) (ih : ∀ h ∈ cs, Struct h) :
    Struct (.node cs links exposed) := by
  have hget : ∀ (k : Nat) (ps : List String), (cs.map pinNames)[k]? = some ps →
      ∃ h : HNet F, cs[k]? = some h ∧ pinNames h = ps := by
    intro k ps hk
    rw [List.getElem?_map] at hk
    cases hc : cs[k]? with
    | none => rw [hc] at hk; cases hk
    | some h => rw [hc] at hk; exact ⟨h, rfl, Option.some.inj hk⟩
  have hmem : ∀ (k : Nat) (h : HNet F), cs[k]? = some h → h ∈ cs := fun k h hk => List.mem_of_getElem? hk
  let LevelPin : PinRef → Prop := fun r => ∃ h : HNet F, cs[r.1]? = some h ∧ r.2 ∈ pinNames h
  have hφ : ∀ (r : PinRef) (h : HNet F), cs[r.1]? = some h → resolveRef cs r = pre r.1 (resolve h r.2) := by
    intro r h hr
    unfold resolveRef
    rw [resolveAt_eq, hr]
  have hinj : ∀ r r', LevelPin r → LevelPin r' → resolveRef cs r = resolveRef cs r' → r = r' := by
    rintro ⟨k, x⟩ ⟨k', y⟩ ⟨h, hk, hx⟩ ⟨h', hk', hy⟩ e
    rw [hφ _ h hk, hφ _ h' hk'] at e
    have e1 : (pre k (resolve h x)).1 = (pre k' (resolve h' y)).1 := congrArg Prod.fst e
    have h1 : k = k' := List.head_eq_of_cons_eq e1
    subst h1
    simp only at hk hk'
    rw [hk] at hk'
    have h2 : h = h' := Option.some.inj hk'
    subst h2
    have e2 : resolve h x = resolve h y := by
      have := congrArg unpre e
      simpa [unpre_pre k _] using this
    rw [(ih h (hmem _ _ hk)).inj x hx y hy e2]
  have hlift : ∀ (i : Nat) (h : HNet F) (p : HPin), cs[i]? = some h → IsLeafPin h p →
      IsLeafPin (.node cs links exposed) (pre i p) := by
    rintro i h p hi ⟨pc0, h0, h1, h2⟩
    refine ⟨(i :: pc0.1, pc0.2), ?_, ?_, h2⟩
    · rw [leaves_node]
      exact (mem_leavesAll cs 0 _).2 ⟨i, h, pc0, hi, h0, by rw [Nat.zero_add]⟩
    · show i :: pc0.1 = i :: p.1
      rw [h1]
  have hleaf : ∀ r, LevelPin r → IsLeafPin (.node cs links exposed) (resolveRef cs r) := by
    rintro r ⟨h, hk, hx⟩
    rw [hφ r h hk]
    exact hlift r.1 h _ hk ((ih h (hmem _ _ hk)).expPin r.2 hx)
  have hchild : ∀ l ∈ allLinksAll cs 0, ∃ (i : Nat) (h : HNet F) (l0 : HPin × HPin),
      cs[i]? = some h ∧ l0 ∈ allLinks h ∧ l = (pre i l0.1, pre i l0.2) := by
    intro l hl
    obtain ⟨i, h, l0, hi, h0, rfl⟩ := (mem_allLinksAll cs 0 l).1 hl
    exact ⟨i, h, l0, hi, h0, by rw [Nat.zero_add]; rfl⟩
  have hfree : ∀ r, LevelPin r → ∀ l ∈ allLinksAll cs 0, resolveRef cs r ≠ l.1 ∧ resolveRef cs r ≠ l.2 := by
    rintro r ⟨h, hk, hx⟩ l hl
    obtain ⟨i, h', l0, hi, h0, rfl⟩ := hchild l hl
    rw [hφ r h hk]
    have key : ∀ p : HPin, pre r.1 (resolve h r.2) = pre i p → resolve h r.2 = p ∧ h = h' := by
      intro p e
      have e1 : (pre r.1 (resolve h r.2)).1 = (pre i p).1 := congrArg Prod.fst e
      have h1 : r.1 = i := List.head_eq_of_cons_eq e1
      subst h1
      rw [hk] at hi
      refine ⟨?_, Option.some.inj hi⟩
      have := congrArg unpre e
      simpa [unpre_pre r.1 _] using this
    constructor
    · intro e
      obtain ⟨e1, rfl⟩ := key _ e
      exact ((ih h (hmem _ _ hk)).expFree r.2 hx l0 h0).1 e1
    · intro e
      obtain ⟨e1, rfl⟩ := key _ e
      exact ((ih h (hmem _ _ hk)).expFree r.2 hx l0 h0).2 e1
  have hlinkL : ∀ l ∈ links, LevelPin l.1 ∧ LevelPin l.2 := by
    intro l hl
    obtain ⟨ps1, hps1, hin1⟩ := lev.endsPins l hl l.1 (Or.inl rfl)
    obtain ⟨ps2, hps2, hin2⟩ := lev.endsPins l hl l.2 (Or.inr rfl)
    obtain ⟨h1, hh1, rfl⟩ := hget _ _ hps1
    obtain ⟨h2, hh2, rfl⟩ := hget _ _ hps2
    exact ⟨⟨h1, hh1, hin1⟩, ⟨h2, hh2, hin2⟩⟩
  have hexpL : ∀ e ∈ exposed, LevelPin e.2 := by
    intro e he
    obtain ⟨ps, hps, hin⟩ := lev.expPins e he
    obtain ⟨h, hh, rfl⟩ := hget _ _ hps
    exact ⟨h, hh, hin⟩
  have hres : ∀ e ∈ exposed, resolve (.node cs links exposed) e.1 = resolveRef cs e.2 := by
    intro e he
    rw [resolve_node, lookupL_of_mem_nodup exposed e he lev.namesNodup]
  have hnames : pinNames (HNet.node cs links exposed) = exposed.map (·.1) := rfl
  have hlevelLinks : ∀ l ∈ links.map (fun l => (leafRef cs l.1, leafRef cs l.2)),
      ∃ l0 ∈ links, l = (resolveRef cs l0.1, resolveRef cs l0.2) := by
    intro l hl
    obtain ⟨l0, hl0, rfl⟩ := List.mem_map.1 hl
    exact ⟨l0, hl0, by rw [leafRef_eq_resolveRef, leafRef_eq_resolveRef]⟩
  refine ⟨?_, ?_, ?_, ?_, ?_, ?_, ?_, ?_⟩
  · rw [leaves_node]
    exact leavesAll_paths_nodup cs (fun h hh => (ih h hh).leafNodup) 0
  · intro _ pc hpc
    rw [leaves_node] at hpc
    obtain ⟨i, h, pc0, hi, h0, rfl⟩ := (mem_leavesAll cs 0 pc).1 hpc
    exact (ih h (hmem _ _ hi)).pinsNodup
      (lev.pinsNodup (pinNames h) (List.mem_map.2 ⟨h, hmem _ _ hi, rfl⟩)) pc0 h0
  · intro x hx y hy e
    rw [hnames] at hx hy
    obtain ⟨ex, hex, rfl⟩ := List.mem_map.1 hx
    obtain ⟨ey, hey, rfl⟩ := List.mem_map.1 hy
    rw [hres ex hex, hres ey hey] at e
    have h2 : ex.2 = ey.2 := hinj _ _ (hexpL ex hex) (hexpL ey hey) e
    rw [List.inj_on_of_nodup_map lev.expNodup hex hey h2]
  · intro x hx
    rw [hnames] at hx
    obtain ⟨e, he, rfl⟩ := List.mem_map.1 hx
    rw [hres e he]
    exact hleaf e.2 (hexpL e he)
  · intro l hl
    rw [allLinks_node] at hl
    rcases List.mem_append.1 hl with hl | hl
    · obtain ⟨l0, hl0, rfl⟩ := hlevelLinks l hl
      exact ⟨hleaf _ (hlinkL l0 hl0).1, hleaf _ (hlinkL l0 hl0).2⟩
    · obtain ⟨i, h, l0, hi, h0, rfl⟩ := hchild l hl
      obtain ⟨p1, p2⟩ := (ih h (hmem _ _ hi)).linkPin l0 h0
      exact ⟨hlift i h _ hi p1, hlift i h _ hi p2⟩
  · rw [allLinks_node, List.flatMap_append]
    refine List.nodup_append.2 ⟨?_, allLinksAll_ends_nodup cs (fun h hh => (ih h hh).endsNodup) 0, ?_⟩
    · have e : ((links.map fun l => (leafRef cs l.1, leafRef cs l.2)).flatMap fun l => [l.1, l.2]) =
          (links.flatMap fun l => [l.1, l.2]).map (resolveRef cs) := by
        rw [List.flatMap_map, List.map_flatMap]
        congr 1
        funext l
        simp only [leafRef_eq_resolveRef, List.map_cons, List.map_nil]
      rw [e]
      refine List.Nodup.map_on ?_ lev.endsNodup
      intro x hx y hy exy
      obtain ⟨lx, hlx, hxl⟩ := List.mem_flatMap.1 hx
      obtain ⟨ly, hly, hyl⟩ := List.mem_flatMap.1 hy
      have px : LevelPin x := by
        simp only [List.mem_cons, List.not_mem_nil, or_false] at hxl
        rcases hxl with rfl | rfl
        · exact (hlinkL lx hlx).1
        · exact (hlinkL lx hlx).2
      have py : LevelPin y := by
        simp only [List.mem_cons, List.not_mem_nil, or_false] at hyl
        rcases hyl with rfl | rfl
        · exact (hlinkL ly hly).1
        · exact (hlinkL ly hly).2
      exact hinj x y px py exy
    · intro a ha b hb e
      obtain ⟨l, hl, hal⟩ := List.mem_flatMap.1 ha
      obtain ⟨l', hl', hbl⟩ := List.mem_flatMap.1 hb
      obtain ⟨l0, hl0, rfl⟩ := hlevelLinks l hl
      simp only [List.mem_cons, List.not_mem_nil, or_false] at hal hbl
      rcases hal with rfl | rfl
      · rcases hbl with rfl | rfl
        · exact (hfree _ (hlinkL l0 hl0).1 l' hl').1 e
        · exact (hfree _ (hlinkL l0 hl0).1 l' hl').2 e
      · rcases hbl with rfl | rfl
        · exact (hfree _ (hlinkL l0 hl0).2 l' hl').1 e
        · exact (hfree _ (hlinkL l0 hl0).2 l' hl').2 e
  · intro l hl
    rw [allLinks_node] at hl
    rcases List.mem_append.1 hl with hl | hl
    · obtain ⟨l0, hl0, rfl⟩ := hlevelLinks l hl
      intro e
      have : l0.1.1 = l0.2.1 := List.head_eq_of_cons_eq e
      exact lev.noSelf l0 hl0 this
    · obtain ⟨i, h, l0, hi, h0, rfl⟩ := hchild l hl
      intro e
      have : l0.1.1 = l0.2.1 := List.tail_eq_of_cons_eq e
      exact (ih h (hmem _ _ hi)).noSelf l0 h0 this
  · intro x hx l hl
    rw [hnames] at hx
    obtain ⟨e, he, rfl⟩ := List.mem_map.1 hx
    rw [hres e he]
    rw [allLinks_node] at hl
    rcases List.mem_append.1 hl with hl | hl
    · obtain ⟨l0, hl0, rfl⟩ := hlevelLinks l hl
      constructor
      · intro e1
        exact (lev.expFree e he l0 hl0).1 (hinj _ _ (hexpL e he) (hlinkL l0 hl0).1 e1)
      · intro e1
        exact (lev.expFree e he l0 hl0).2 (hinj _ _ (hexpL e he) (hlinkL l0 hl0).2 e1)
    · exact hfree e.2 (hexpL e he) l hl

theorem WFTree.struct {h : HNet F} (w : WFTree h) : Struct h := by
  induction w with
  | leaf c => exact struct_leaf c
  | node cs links exposed _ lev ih => exact struct_node cs links exposed lev ih

end struct2
end HNet

/-! ### the flattened hierarchy is well formed -/
namespace HNet
section flattenWF
variable {F : Type}

theorem posOf_of_getElem? : ∀ (ls : List (List Nat × CompD F)), ((ls.map (·.1)).Nodup) →
    ∀ (i : Nat) (pc : List Nat × CompD F), ls[i]? = some pc → posOf ls pc.1 = i := by
  intro ls
  induction ls with
  | nil => intro _ i pc hi; simp at hi
  | cons a t ih =>
    intro hn i pc hi
    simp only [List.map_cons, List.nodup_cons] at hn
    unfold posOf
    rw [List.findIdx_cons]
    cases i with
    | zero =>
      simp only [List.getElem?_cons_zero, Option.some.injEq] at hi
      subst hi
      simp
    | succ i =>
      simp only [List.getElem?_cons_succ] at hi
      have hne : (a.1 == pc.1) = false := by
        simp only [beq_eq_false_iff_ne, ne_eq]
        intro e
        exact hn.1 (e ▸ List.mem_map.2 ⟨pc, List.mem_of_getElem? hi, rfl⟩)
      rw [hne]
      have := ih hn.2 i pc hi
      unfold posOf at this
      simp [this]

theorem flatten_leaf (c : CompD F) : flatten (HNet.leaf c) = .leaf c := rfl

theorem flatten_node (cs : List (HNet F)) (links : List (PinRef × PinRef)) (exposed : List (String × PinRef)) :
    flatten (HNet.node cs links exposed) =
      .node ((leaves (.node cs links exposed)).map fun pc => .leaf pc.2)
        ((allLinks (.node cs links exposed)).map fun l =>
          (readdress (leaves (.node cs links exposed)) l.1, readdress (leaves (.node cs links exposed)) l.2))
        (exposed.map fun e => (e.1, readdress (leaves (.node cs links exposed)) (leafRef cs e.2))) := rfl

/-- a leaf pin has a position, and re-addressing finds it -/
theorem IsLeafPin.pos {h : HNet F} (st : Struct h) {p : HPin} (hp : IsLeafPin h p) :
    ∃ (i : Nat) (pc : List Nat × CompD F), (leaves h)[i]? = some pc ∧ pc.1 = p.1 ∧ p.2 ∈ pc.2.pins ∧
      posOf (leaves h) p.1 = i := by
  obtain ⟨pc, hpc, h1, h2⟩ := hp
  obtain ⟨i, hi⟩ := List.getElem?_of_mem hpc
  exact ⟨i, pc, hi, h1, h2, by rw [← h1]; exact posOf_of_getElem? _ st.leafNodup i pc hi⟩

theorem readdress_inj {h : HNet F} (st : Struct h) {p q : HPin} (hp : IsLeafPin h p) (hq : IsLeafPin h q)
    (e : readdress (leaves h) p = readdress (leaves h) q) : p = q := by
  obtain ⟨i, pc, hi, h1, _, hpos⟩ := hp.pos st
  obtain ⟨j, pc', hj, h1', _, hpos'⟩ := hq.pos st
  have e1 : posOf (leaves h) p.1 = posOf (leaves h) q.1 := congrArg Prod.fst e
  have e2 : (readdress (leaves h) p).2 = (readdress (leaves h) q).2 := congrArg Prod.snd e
  rw [hpos, hpos'] at e1
  subst e1
  rw [hi] at hj
  have : pc = pc' := Option.some.inj hj
  subst this
  exact Prod.ext (h1.symm.trans h1') e2

/-- **the flattened hierarchy is well formed** -/
theorem WFTree.flatten {h : HNet F} (w : WFTree h) : WFTree h.flatten := by
  have st := w.struct
  cases w with
  | leaf c => exact WFTree.leaf c
  | node cs links exposed hch lev =>
    rw [flatten_node]
    set ls := leaves (HNet.node cs links exposed) with hls
    have hres : ∀ e ∈ exposed, leafRef cs e.2 = resolve (.node cs links exposed) e.1 := by
      intro e he
      rw [resolve_node, lookupL_of_mem_nodup exposed e he lev.namesNodup, leafRef_eq_resolveRef]
    have hnames : pinNames (HNet.node cs links exposed) = exposed.map (·.1) := rfl
    have hexpLeaf : ∀ e ∈ exposed, IsLeafPin (.node cs links exposed) (leafRef cs e.2) := by
      intro e he
      rw [hres e he]
      exact st.expPin e.1 (by rw [hnames]; exact List.mem_map.2 ⟨e, he, rfl⟩)
    -- a re-addressed leaf pin is a pin of the component at its position
    have hpinAt : ∀ p, IsLeafPin (.node cs links exposed) p →
        ∃ ps, ((ls.map fun pc => HNet.leaf pc.2).map pinNames)[(readdress ls p).1]? = some ps ∧ (readdress ls p).2 ∈ ps := by
      intro p hp
      obtain ⟨i, pc, hi, _, h2, hpos⟩ := hp.pos st
      refine ⟨pc.2.pins, ?_, h2⟩
      show ((ls.map fun pc => HNet.leaf pc.2).map pinNames)[posOf ls p.1]? = some pc.2.pins
      rw [hpos, List.map_map, List.getElem?_map, hi]
      rfl
    refine WFTree.node _ _ _ ?_ ⟨?_, ?_, ?_, ?_, ?_, ?_, ?_, ?_⟩
    · intro h hh
      obtain ⟨pc, _, rfl⟩ := List.mem_map.1 hh
      exact WFTree.leaf _
    · intro ps hps
      rw [List.map_map] at hps
      obtain ⟨pc, hpc, rfl⟩ := List.mem_map.1 hps
      exact st.pinsNodup (by rw [hnames]; exact lev.namesNodup) pc hpc
    · have e : (((allLinks (HNet.node cs links exposed)).map fun l => (readdress ls l.1, readdress ls l.2)).flatMap
          fun l => [l.1, l.2]) =
          ((allLinks (HNet.node cs links exposed)).flatMap fun l => [l.1, l.2]).map (readdress ls) := by
        rw [List.flatMap_map, List.map_flatMap]
        rfl
      rw [e]
      refine List.Nodup.map_on ?_ st.endsNodup
      intro x hx y hy exy
      obtain ⟨lx, hlx, hxl⟩ := List.mem_flatMap.1 hx
      obtain ⟨ly, hly, hyl⟩ := List.mem_flatMap.1 hy
      have px : IsLeafPin (.node cs links exposed) x := by
        simp only [List.mem_cons, List.not_mem_nil, or_false] at hxl
        rcases hxl with rfl | rfl
        · exact (st.linkPin lx hlx).1
        · exact (st.linkPin lx hlx).2
      have py : IsLeafPin (.node cs links exposed) y := by
        simp only [List.mem_cons, List.not_mem_nil, or_false] at hyl
        rcases hyl with rfl | rfl
        · exact (st.linkPin ly hly).1
        · exact (st.linkPin ly hly).2
      exact readdress_inj st px py exy
    · intro l' hl' p hp
      obtain ⟨l, hl, rfl⟩ := List.mem_map.1 hl'
      rcases hp with rfl | rfl
      · exact hpinAt l.1 (st.linkPin l hl).1
      · exact hpinAt l.2 (st.linkPin l hl).2
    · intro l' hl' e
      obtain ⟨l, hl, rfl⟩ := List.mem_map.1 hl'
      obtain ⟨i, pc, hi, h1, _, hpos⟩ := (st.linkPin l hl).1.pos st
      obtain ⟨j, pc', hj, h1', _, hpos'⟩ := (st.linkPin l hl).2.pos st
      have e' : posOf ls l.1.1 = posOf ls l.2.1 := e
      rw [hpos, hpos'] at e'
      subst e'
      rw [hi] at hj
      have : pc = pc' := Option.some.inj hj
      subst this
      exact st.noSelf l hl (h1.symm.trans h1')
    · rw [List.map_map]
      have e : (exposed.map ((fun x : String × PinRef => x.2) ∘ fun e => (e.1, readdress ls (leafRef cs e.2)))) =
          (exposed.map (·.2)).map (fun r => readdress ls (leafRef cs r)) := by
        rw [List.map_map]; rfl
      rw [e]
      refine List.Nodup.map_on ?_ lev.expNodup
      intro x hx y hy exy
      obtain ⟨ex, hex, rfl⟩ := List.mem_map.1 hx
      obtain ⟨ey, hey, rfl⟩ := List.mem_map.1 hy
      have h1 := readdress_inj st (hexpLeaf ex hex) (hexpLeaf ey hey) exy
      rw [hres ex hex, hres ey hey] at h1
      have h2 : ex.1 = ey.1 := st.inj ex.1 (by rw [hnames]; exact List.mem_map.2 ⟨ex, hex, rfl⟩)
        ey.1 (by rw [hnames]; exact List.mem_map.2 ⟨ey, hey, rfl⟩) h1
      rw [List.inj_on_of_nodup_map lev.namesNodup hex hey h2]
    · intro e' he'
      obtain ⟨e, he, rfl⟩ := List.mem_map.1 he'
      exact hpinAt _ (hexpLeaf e he)
    · intro e' he' l' hl'
      obtain ⟨e, he, rfl⟩ := List.mem_map.1 he'
      obtain ⟨l, hl, rfl⟩ := List.mem_map.1 hl'
      have hf := st.expFree e.1 (by rw [hnames]; exact List.mem_map.2 ⟨e, he, rfl⟩) l hl
      rw [← hres e he] at hf
      constructor
      · intro e1
        exact hf.1 (readdress_inj st (hexpLeaf e he) (st.linkPin l hl).1 e1)
      · intro e1
        exact hf.2 (readdress_inj st (hexpLeaf e he) (st.linkPin l hl).2 e1)
    · rw [List.map_map]
      exact lev.namesNodup

end flattenWF
end HNet

/-! ### the flattened network of the flattened hierarchy is a renaming of the flattened network -/
namespace HNet
section main
variable {F : Type} [Field F] [DecidableEq F]

/-- path-addressed leaf pin ↦ position-addressed leaf pin -/
def toPos (ls : List (List Nat × CompD F)) (p : HPin) : HPin := ([posOf ls p.1], p.2)
/-- and back -/
def ofPos (ls : List (List Nat × CompD F)) (q : HPin) : HPin := (((ls[q.1.headD 0]?).map (·.1)).getD [], q.2)

omit [Field F] [DecidableEq F] in
theorem resolveRef_leafList (ls : List (List Nat × CompD F)) (r : PinRef) :
    resolveRef (ls.map fun pc => HNet.leaf pc.2) r = ([r.1], r.2) := by
  unfold resolveRef
  rw [resolveAt_eq, List.getElem?_map]
  cases ls[r.1]? with
  | none => rfl
  | some pc => simp only [Option.map_some]; rw [resolve_leaf]; rfl

omit [Field F] [DecidableEq F] in
theorem allLinksAll_leafList (ls : List (List Nat × CompD F)) (k : Nat) :
    allLinksAll (ls.map fun pc => HNet.leaf pc.2) k = [] := by
  apply List.eq_nil_iff_forall_not_mem.2
  intro l hl
  obtain ⟨i, h, l0, hi, h0, _⟩ := (mem_allLinksAll _ k l).1 hl
  rw [List.getElem?_map] at hi
  cases hls : ls[i]? with
  | none => rw [hls] at hi; cases hi
  | some pc =>
    rw [hls] at hi
    simp only [Option.map_some, Option.some.injEq] at hi
    subst hi
    rw [allLinks_leaf] at h0
    cases h0

omit [Field F] [DecidableEq F] in
theorem mem_leavesAll_leafList (ls : List (List Nat × CompD F)) (pc' : List Nat × CompD F) :
    pc' ∈ leavesAll (ls.map fun pc => HNet.leaf pc.2) 0 ↔ ∃ i pc, ls[i]? = some pc ∧ pc' = ([i], pc.2) := by
  rw [mem_leavesAll]
  constructor
  · rintro ⟨i, h, pc0, hi, h0, rfl⟩
    rw [List.getElem?_map] at hi
    cases hls : ls[i]? with
    | none => rw [hls] at hi; cases hi
    | some pc =>
      rw [hls] at hi
      simp only [Option.map_some, Option.some.injEq] at hi
      subst hi
      rw [leaves_leaf] at h0
      rw [List.mem_singleton.1 h0]
      exact ⟨i, pc, hls, by rw [Nat.zero_add]⟩
  · rintro ⟨i, pc, hi, rfl⟩
    refine ⟨i, .leaf pc.2, ([], pc.2), ?_, ?_, by rw [Nat.zero_add]⟩
    · rw [List.getElem?_map, hi]; rfl
    · rw [leaves_leaf]; exact List.mem_singleton.2 rfl

/-- **`flatten()` preserves the scattering matrix**: the hierarchical solve of a well-formed hierarchy and the solve of its
flattening (any schedules, at any level) return the same pins and the same coefficient between every two of them -/
theorem flatten_preserves (s s' : List (St F) → Option (Nat × Nat)) (h : HNet F) (w : WFTree h) (c c' : CompD F)
    (hs : solveH s h = .ok c) (hs' : solveH s' h.flatten = .ok c') :
    c'.pins = c.pins ∧ ∀ x ∈ c.pins, ∀ y ∈ c.pins, c'.sem x y = c.sem x y := by
  have st := w.struct
  have w' := w.flatten
  cases w with
  | leaf c0 =>
    rw [flatten_leaf, solveH_leaf] at hs'
    rw [solveH_leaf] at hs
    cases hs'
    cases hs
    exact ⟨rfl, fun _ _ _ _ => rfl⟩
  | node cs links exposed hch lev =>
    have wn : WFTree (HNet.node cs links exposed) := WFTree.node cs links exposed hch lev
    obtain ⟨T, hT⟩ := solveH_flatInv s (wn.levelsOK s) c hs
    set ls := leaves (HNet.node cs links exposed) with hls
    have hnames : pinNames (HNet.node cs links exposed) = exposed.map (·.1) := rfl
    have hpins : c.pins = exposed.map (·.1) := solveH_pins s _ c hs
    have hpins' : c'.pins = exposed.map (·.1) := by
      rw [solveH_pins s' _ c' hs', flatten_node]
      show (exposed.map fun e => (e.1, readdress ls (leafRef cs e.2))).map (·.1) = _
      rw [List.map_map]; rfl
    have hres : ∀ e ∈ exposed, leafRef cs e.2 = resolve (.node cs links exposed) e.1 := by
      intro e he
      rw [resolve_node, lookupL_of_mem_nodup exposed e he lev.namesNodup, leafRef_eq_resolveRef]
    have hexpLeaf : ∀ e ∈ exposed, IsLeafPin (.node cs links exposed) (leafRef cs e.2) := by
      intro e he
      rw [hres e he]
      exact st.expPin e.1 (by rw [hnames]; exact List.mem_map.2 ⟨e, he, rfl⟩)
    -- the renaming is undone on leaf pins
    have hg : ∀ p, IsLeafPin (.node cs links exposed) p → ofPos ls (toPos ls p) = p := by
      intro p hp
      obtain ⟨i, pc, hi, h1, _, hpos⟩ := hp.pos st
      show (((ls[posOf ls p.1]?).map (·.1)).getD [], p.2) = p
      rw [hpos, hi]
      exact Prod.ext h1 rfl
    have hment : ∀ p, (flat (HNet.node cs links exposed)).Mentions p → IsLeafPin (.node cs links exposed) p := by
      rintro p (⟨part, hpart, hp⟩ | ⟨l, hl, hp⟩ | hp)
      · rw [flat_parts] at hpart
        obtain ⟨pc, hpc, rfl⟩ := List.mem_map.1 hpart
        obtain ⟨x, hx, rfl⟩ := List.mem_map.1 hp
        exact ⟨pc, hpc, rfl, hx⟩
      · rw [flat_links] at hl
        rcases hp with rfl | rfl
        · exact (st.linkPin l hl).1
        · exact (st.linkPin l hl).2
      · rw [flat_node] at hp
        obtain ⟨e, he, rfl⟩ := List.mem_map.1 hp
        rw [← leafRef_eq_resolveRef]
        exact hexpLeaf e he
    have hmap := ANet.map_solvedBy (f := toPos ls) (g := ofPos ls) (fun p hp => hg p (hment p hp)) T hT.solved
    -- the flattened network of the flattening is that renamed network
    have hflat' : (flat (flatten (HNet.node cs links exposed))).SolvedBy (fun q q' => T (ofPos ls q) (ofPos ls q')) := by
      refine ANet.solvedBy_of_same _ _ ?_ ?_ ?_ _ hmap
      · intro part
        rw [flat_parts (flatten _), flatten_node, leaves_node]
        show part ∈ (flat (HNet.node cs links exposed)).parts.map
            (fun part => (part.1.map (toPos ls), fun q q' => part.2 (ofPos ls q) (ofPos ls q'))) ↔ _
        rw [flat_parts, List.map_map, List.mem_map, List.mem_map]
        have hpart : ∀ (i : Nat) (pc : List Nat × CompD F), ls[i]? = some pc →
            ((fun part : List HPin × (HPin → HPin → F) =>
                (part.1.map (toPos ls), fun q q' => part.2 (ofPos ls q) (ofPos ls q'))) ∘ partOf) pc =
              partOf ([i], pc.2) := by
          intro i pc hi
          refine Prod.ext ?_ rfl
          show (pc.2.pins.map fun x => (pc.1, x)).map (toPos ls) = pc.2.pins.map fun x => ([i], x)
          rw [List.map_map]
          apply List.map_congr_left
          intro x _
          show ([posOf ls pc.1], x) = ([i], x)
          rw [posOf_of_getElem? ls st.leafNodup i pc hi]
        constructor
        · rintro ⟨pc, hpc, rfl⟩
          obtain ⟨i, hi⟩ := List.getElem?_of_mem hpc
          exact ⟨([i], pc.2), (mem_leavesAll_leafList ls _).2 ⟨i, pc, hi, rfl⟩, (hpart i pc hi).symm⟩
        · rintro ⟨pc', hpc', rfl⟩
          obtain ⟨i, pc, hi, rfl⟩ := (mem_leavesAll_leafList ls pc').1 hpc'
          exact ⟨pc, List.mem_of_getElem? hi, hpart i pc hi⟩
      · intro l
        rw [flat_links (flatten _), flatten_node, allLinks_node, allLinksAll_leafList, List.append_nil]
        show l ∈ (flat (HNet.node cs links exposed)).links.map (fun l => (toPos ls l.1, toPos ls l.2)) ↔ _
        rw [flat_links, List.map_map]
        have : ((fun l : PinRef × PinRef => (leafRef (ls.map fun pc => HNet.leaf pc.2) l.1,
              leafRef (ls.map fun pc => HNet.leaf pc.2) l.2)) ∘
            fun l : HPin × HPin => (readdress ls l.1, readdress ls l.2)) =
            fun l : HPin × HPin => (toPos ls l.1, toPos ls l.2) := by
          funext l
          simp only [Function.comp, leafRef_eq_resolveRef, resolveRef_leafList]
          rfl
        rw [this]
      · have e1 : (flat (HNet.node cs links exposed)).exposed = exposed.map fun e => resolveRef cs e.2 := by
          rw [flat_node]
        have e2 : (flat (flatten (HNet.node cs links exposed))).exposed =
            (exposed.map fun e => (e.1, readdress ls (leafRef cs e.2))).map
              fun e => resolveRef (ls.map fun pc => HNet.leaf pc.2) e.2 := by
          rw [flatten_node, flat_node]
        show (flat (HNet.node cs links exposed)).exposed.map (toPos ls) = _
        rw [e1, e2]
        simp only [List.map_map]
        apply List.map_congr_left
        intro e _
        simp only [Function.comp, resolveRef_leafList, leafRef_eq_resolveRef]
        rfl
    -- uniqueness on the flattening
    have hnd' : c'.pins.Nodup := by rw [hpins']; exact lev.namesNodup
    have huniq := solveH_flat_operator s' _ (w'.levelsOK s') c' hs' hnd' _ hflat'
    refine ⟨by rw [hpins, hpins'], ?_⟩
    intro x hx y hy
    have hresolve' : ∀ e ∈ exposed, resolve (flatten (HNet.node cs links exposed)) e.1 =
        toPos ls (resolve (.node cs links exposed) e.1) := by
      intro e he
      rw [flatten_node, resolve_node]
      have hmem : (e.1, readdress ls (leafRef cs e.2)) ∈
          exposed.map fun e => (e.1, readdress ls (leafRef cs e.2)) := List.mem_map.2 ⟨e, he, rfl⟩
      have hn' : ((exposed.map fun e => (e.1, readdress ls (leafRef cs e.2))).map (·.1)).Nodup := by
        rw [List.map_map]; exact lev.namesNodup
      rw [lookupL_of_mem_nodup _ _ hmem hn']
      simp only [resolveRef_leafList]
      rw [← hres e he]
      rfl
    rw [hpins] at hx hy
    obtain ⟨ex, hex, rfl⟩ := List.mem_map.1 hx
    obtain ⟨ey, hey, rfl⟩ := List.mem_map.1 hy
    have hx' : ex.1 ∈ c'.pins := by rw [hpins']; exact List.mem_map.2 ⟨ex, hex, rfl⟩
    have hy' : ey.1 ∈ c'.pins := by rw [hpins']; exact List.mem_map.2 ⟨ey, hey, rfl⟩
    have hcx : ex.1 ∈ c.pins := by rw [hpins]; exact List.mem_map.2 ⟨ex, hex, rfl⟩
    have hcy : ey.1 ∈ c.pins := by rw [hpins]; exact List.mem_map.2 ⟨ey, hey, rfl⟩
    rw [← huniq ex.1 hx' ey.1 hy', hresolve' ex hex, hresolve' ey hey]
    show T (ofPos ls (toPos ls _)) (ofPos ls (toPos ls _)) = _
    rw [hg _ (by rw [← hres ex hex]; exact hexpLeaf ex hex), hg _ (by rw [← hres ey hey]; exact hexpLeaf ey hey)]
    exact hT.coeff ex.1 hcx ey.1 hcy

end main
end HNet

/-! ### the flattening has no sub-circuits, and flattening again changes nothing -/
namespace HNet
section idem
variable {F : Type}

/-- a circuit without sub-circuits: a component, or one level of components -/
def IsFlat : HNet F → Prop
  | .leaf _ => True
  | .node cs _ _ => ∀ ch ∈ cs, ∃ c, ch = HNet.leaf c

/-- **no sub-solvers are left**: every child of the flattening is a component -/
theorem flatten_isFlat (h : HNet F) : IsFlat h.flatten := by
  cases h with
  | leaf c => exact True.intro
  | node cs links exposed =>
    rw [flatten_node]
    intro ch hch
    obtain ⟨pc, _, rfl⟩ := List.mem_map.1 hch
    exact ⟨pc.2, rfl⟩

theorem leavesAll_leafList_comps (ls : List (List Nat × CompD F)) :
    ∀ k, (leavesAll (ls.map fun pc => HNet.leaf pc.2) k).map (·.2) = ls.map (·.2) := by
  induction ls with
  | nil => intro k; rw [List.map_nil, leavesAll]
  | cons a t ih =>
    intro k
    rw [List.map_cons, leavesAll, leaves_leaf, List.map_append, ih (k + 1)]
    rfl

/-- the leaves of the flattening are the leaves, in the same order -/
theorem leaves_flatten_comps (h : HNet F) : (leaves h.flatten).map (·.2) = (leaves h).map (·.2) := by
  cases h with
  | leaf c => rfl
  | node cs links exposed =>
    rw [flatten_node, leaves_node]
    exact leavesAll_leafList_comps _ 0

theorem posOf_le (ls : List (List Nat × CompD F)) (path : List Nat) : posOf ls path ≤ ls.length :=
  List.findIdx_le_length

theorem posOf_leafList : ∀ (ls : List (List Nat × CompD F)) (k j : Nat), j ≤ ls.length →
    posOf (leavesAll (ls.map fun pc => HNet.leaf pc.2) k) [k + j] = j := by
  intro ls
  induction ls with
  | nil =>
    intro k j hj
    rw [List.map_nil, leavesAll]
    simp only [List.length_nil, Nat.le_zero_eq] at hj
    subst hj
    rfl
  | cons a t ih =>
    intro k j hj
    rw [List.map_cons, leavesAll, leaves_leaf]
    show posOf (([k], a.2) :: leavesAll (t.map fun pc => HNet.leaf pc.2) (k + 1)) [k + j] = j
    unfold posOf
    rw [List.findIdx_cons]
    cases j with
    | zero => simp
    | succ j =>
      have hne : (([k] : List Nat) == [k + (j + 1)]) = false := by
        simp only [beq_eq_false_iff_ne, ne_eq, List.cons.injEq, and_true]
        omega
      simp only [hne, cond_false]
      have := ih (k + 1) j (by simpa using hj)
      unfold posOf at this
      rw [show k + (j + 1) = k + 1 + j by omega, this]

/-- **flattening is idempotent** -/
theorem flatten_idem (h : HNet F) : h.flatten.flatten = h.flatten := by
  cases h with
  | leaf c => rfl
  | node cs links exposed =>
    rw [flatten_node]
    generalize hls : leaves (HNet.node cs links exposed) = ls
    generalize allLinks (HNet.node cs links exposed) = al
    rw [flatten_node]
    have hleafRef : ∀ r : PinRef, leafRef (ls.map fun pc => HNet.leaf pc.2) r = ([r.1], r.2) := by
      intro r; rw [leafRef_eq_resolveRef, resolveRef_leafList]
    have hback : ∀ p : HPin, readdress (leaves (HNet.node (ls.map fun pc => HNet.leaf pc.2)
          (al.map fun l => (readdress ls l.1, readdress ls l.2))
          (exposed.map fun e => (e.1, readdress ls (leafRef cs e.2)))))
        (leafRef (ls.map fun pc => HNet.leaf pc.2) (readdress ls p)) = readdress ls p := by
      intro p
      rw [hleafRef, leaves_node]
      show (posOf (leavesAll (ls.map fun pc => HNet.leaf pc.2) 0) [posOf ls p.1], p.2) = (posOf ls p.1, p.2)
      have := posOf_leafList ls 0 (posOf ls p.1) (posOf_le ls p.1)
      rw [Nat.zero_add] at this
      rw [this]
    congr 1
    · have hm : ∀ l : List (List Nat × CompD F), l.map (fun pc => HNet.leaf pc.2) = (l.map (·.2)).map HNet.leaf := by
        intro l; rw [List.map_map]; rfl
      rw [leaves_node, hm (leavesAll _ 0), leavesAll_leafList_comps ls 0, ← hm ls]
    · rw [allLinks_node, allLinksAll_leafList, List.append_nil, List.map_map, List.map_map]
      apply List.map_congr_left
      intro l _
      simp only [Function.comp]
      rw [hback, hback]
    · rw [List.map_map]
      apply List.map_congr_left
      intro e _
      simp only [Function.comp]
      rw [hback]

end idem
end HNet

namespace HNet
variable {F : Type} [Field F] [DecidableEq F]

/-- the flattening of a well-formed hierarchy satisfies the hypotheses of C01 at its only level, for every schedule -/
theorem flatten_levelsOK (sched : List (St F) → Option (Nat × Nat)) {h : HNet F} (w : WFTree h) :
    LevelsOK sched h.flatten := w.flatten.levelsOK sched

end HNet
