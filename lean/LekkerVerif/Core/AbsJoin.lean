import LekkerVerif.Core.Kernel
import Mathlib.Algebra.BigOperators.Fin

open Matrix

variable {F : Type*} [Field F]

variable {P : Type*} [DecidableEq P]

def rowSum (pins : List P) (S : P → P → F) (a : P → F) (p : P) : F := (pins.map fun q => S p q * a q).sum
def Eqn (pins : List P) (S : P → P → F) (a b : P → F) : Prop := ∀ p ∈ pins, b p = rowSum pins S a p


/-- block of a pin-keyed matrix along two indexed families of pins -/
def blk {ι κ : Type*} (S : P → P → F) (rows : ι → P) (cols : κ → P) : Matrix ι κ F := fun i j => S (rows i) (cols j)

theorem rowSum_perm {pins pins' : List P} (h : pins.Perm pins') (S : P → P → F) (a : P → F) (p : P) :
    rowSum pins S a p = rowSum pins' S a p := by
  unfold rowSum; exact (h.map _).sum_eq

theorem rowSum_append (l₁ l₂ : List P) (S : P → P → F) (a : P → F) (p : P) :
    rowSum (l₁ ++ l₂) S a p = rowSum l₁ S a p + rowSum l₂ S a p := by
  unfold rowSum; simp

theorem rowSum_get (l : List P) (S : P → P → F) (a : P → F) (p : P) :
    rowSum l S a p = ∑ j : Fin l.length, S p l[j] * a l[j] := by
  unfold rowSum; rw [← Fin.sum_univ_fun_getElem]; rfl

theorem rowSum_map {α : Type*} (l : List α) (g : α → P) (S : P → P → F) (a : P → F) (p : P) :
    rowSum (l.map g) S a p = ∑ j : Fin l.length, S p (g l[j]) * a (g l[j]) := by
  unfold rowSum; rw [List.map_map, ← Fin.sum_univ_fun_getElem]; rfl

theorem pair_eq_abstract
    (pinsA pinsB keptA keptB : List P) (links : List (P × P)) (SA SB : P → P → F)
    (hA : pinsA.Perm (keptA ++ links.map Prod.fst)) (hB : pinsB.Perm (links.map Prod.snd ++ keptB))
    (a b : P → F) (eA : Eqn pinsA SA a b) (eB : Eqn pinsB SB a b)
    (hl : ∀ l ∈ links, a l.1 = b l.2 ∧ a l.2 = b l.1) :
    let kA : Fin keptA.length → P := fun i => keptA[i]
    let kB : Fin keptB.length → P := fun i => keptB[i]
    let cA : Fin links.length → P := fun i => links[i].1
    let cB : Fin links.length → P := fun i => links[i].2
    let A : SM F (Fin keptA.length) (Fin links.length) :=
      { S21 := blk SA kA kA, S22 := blk SA kA cA, S11 := blk SA cA kA, S12 := blk SA cA cA }
    let B : SM F (Fin links.length) (Fin keptB.length) :=
      { S21 := blk SB cB cB, S22 := blk SB cB kB, S11 := blk SB kB cB, S12 := blk SB kB kB }
    PairEq A B (a ∘ kA) (a ∘ kB) (b ∘ kA) (b ∘ kB) (b ∘ cA) (a ∘ cA) := by
  intro kA kB cA cB A B
  have memA : ∀ p, p ∈ keptA ++ links.map Prod.fst → p ∈ pinsA := fun p hp => hA.symm.subset hp
  have memB : ∀ p, p ∈ links.map Prod.snd ++ keptB → p ∈ pinsB := fun p hp => hB.symm.subset hp
  -- component equation of A in block form, at any pin p of A
  have rowA : ∀ p ∈ pinsA, b p = (∑ j, SA p (kA j) * a (kA j)) + ∑ j, SA p (cA j) * a (cA j) := by
    intro p hp
    rw [eA p hp, rowSum_perm hA, rowSum_append, rowSum_get, rowSum_map]
  have rowB : ∀ p ∈ pinsB, b p = (∑ j, SB p (cB j) * a (cB j)) + ∑ j, SB p (kB j) * a (kB j) := by
    intro p hp
    rw [eB p hp, rowSum_perm hB, rowSum_append, rowSum_map, rowSum_get]
  have lk : ∀ i : Fin links.length, a (cA i) = b (cB i) ∧ a (cB i) = b (cA i) := fun i =>
    hl links[i] (List.getElem_mem _)
  -- g := waves entering A at its connected pins; f := waves leaving A there
  refine ⟨?_, ?_, ?_, ?_⟩
  · funext i
    have := rowA (kA i) (memA _ (List.mem_append_left _ (List.getElem_mem _)))
    simpa [A, blk, Matrix.mulVec, dotProduct] using this
  · funext i
    have := rowA (cA i) (memA _ (List.mem_append_right _ (List.mem_map.2 ⟨links[i], List.getElem_mem _, rfl⟩)))
    simpa [A, blk, Matrix.mulVec, dotProduct] using this
  · funext i
    have := rowB (cB i) (memB _ (List.mem_append_left _ (List.mem_map.2 ⟨links[i], List.getElem_mem _, rfl⟩)))
    simp only [Function.comp, (lk i).1]
    rw [this]
    simp [B, blk, Matrix.mulVec, dotProduct, Function.comp, fun j => (lk j).2]
  · funext i
    have := rowB (kB i) (memB _ (List.mem_append_right _ (List.getElem_mem _)))
    rw [Function.comp, this]
    simp [B, blk, Matrix.mulVec, dotProduct, Function.comp, fun j => (lk j).2]

/-- the join of two parts along their links is sound for every solution of the two parts' equations -/
theorem join_sound_abstract
    (pinsA pinsB keptA keptB : List P) (links : List (P × P)) (SA SB : P → P → F)
    (hA : pinsA.Perm (keptA ++ links.map Prod.fst)) (hB : pinsB.Perm (links.map Prod.snd ++ keptB))
    (a b : P → F) (eA : Eqn pinsA SA a b) (eB : Eqn pinsB SB a b)
    (hl : ∀ l ∈ links, a l.1 = b l.2 ∧ a l.2 = b l.1) :
    let kA : Fin keptA.length → P := fun i => keptA[i]
    let kB : Fin keptB.length → P := fun i => keptB[i]
    let cA : Fin links.length → P := fun i => links[i].1
    let cB : Fin links.length → P := fun i => links[i].2
    let A : SM F (Fin keptA.length) (Fin links.length) :=
      { S21 := blk SA kA kA, S22 := blk SA kA cA, S11 := blk SA cA kA, S12 := blk SA cA cA }
    let B : SM F (Fin links.length) (Fin keptB.length) :=
      { S21 := blk SB cB cB, S22 := blk SB cB kB, S11 := blk SB kB cB, S12 := blk SB kB kB }
    IsUnit (1 - A.S12 * B.S21) →
    (b ∘ kA = (A.add B).S21 *ᵥ (a ∘ kA) + (A.add B).S22 *ᵥ (a ∘ kB)) ∧
    (b ∘ kB = (A.add B).S11 *ᵥ (a ∘ kA) + (A.add B).S12 *ᵥ (a ∘ kB)) := by
  intro kA kB cA cB A B hu
  exact star_sound A B hu (a ∘ kA) (a ∘ kB) (b ∘ kA) (b ∘ kB) (b ∘ cA) (a ∘ cA)
    (pair_eq_abstract pinsA pinsB keptA keptB links SA SB hA hB a b eA eB hl)
