import LekkerVerif.Core.HierSolve
/-! `Solver.flatten()` on hierarchical circuits (executable, core Lean only).

`HNet.flatten` turns a hierarchy into the one-level circuit made of all its leaf components: every link of every level is
kept, each end resolved — through the chain of exposures — down to the leaf pin it stands for and re-addressed as
(position of that leaf among `HNet.leaves`, pin name of the leaf); the root's exposed names keep their names and point at the
re-addressed leaf pins.  An end that does not resolve to a leaf (ill-formed description) is addressed at position
`leaves.length`, i.e. at no component. -/

namespace HNet
variable {F : Type}

/-- a leaf pin addressed by the path of child positions down to the leaf -/
abbrev PathPin := List Nat × String

/-- the same pin seen from one level up, the sub-circuit sitting at position `k` -/
def under (k : Nat) (p : PathPin) : PathPin := (k :: p.1, p.2)

mutual
/-- the leaf pin a pin name of a sub-circuit stands for (a name that is not exposed is left at the sub-circuit itself) -/
def leafPin : HNet F → String → PathPin
  | .leaf _, x => ([], x)
  | .node cs _ exposed, x =>
    match lookupL exposed x with
    | none => ([], x)
    | some r => under r.1 (leafPinAt cs r.1 r.2)
/-- the same for a pin name of the `k`-th child of a level -/
def leafPinAt : List (HNet F) → Nat → String → PathPin
  | [], _, x => ([], x)
  | h :: _, 0, x => leafPin h x
  | _ :: t, k + 1, x => leafPinAt t k x
end

/-- a level's pin reference as a leaf pin -/
def leafRef (cs : List (HNet F)) (r : PinRef) : PathPin := under r.1 (leafPinAt cs r.1 r.2)

mutual
/-- all leaf components with their paths, depth first -/
def leaves : HNet F → List (List Nat × CompD F)
  | .leaf c => [([], c)]
  | .node cs _ _ => leavesAll cs 0
/-- the leaves of the children of a level, the first child sitting at position `k` -/
def leavesAll : List (HNet F) → Nat → List (List Nat × CompD F)
  | [], _ => []
  | h :: t, k => (leaves h).map (fun pc => (k :: pc.1, pc.2)) ++ leavesAll t (k + 1)
end

mutual
/-- all links of all levels, both ends resolved to leaf pins -/
def allLinks : HNet F → List (PathPin × PathPin)
  | .leaf _ => []
  | .node cs links _ => links.map (fun l => (leafRef cs l.1, leafRef cs l.2)) ++ allLinksAll cs 0
/-- the links inside the children of a level, the first child sitting at position `k` -/
def allLinksAll : List (HNet F) → Nat → List (PathPin × PathPin)
  | [], _ => []
  | h :: t, k => (allLinks h).map (fun l => (under k l.1, under k l.2)) ++ allLinksAll t (k + 1)
end

/-- position of the leaf with path `path` (`ls.length` when there is none) -/
def posOf (ls : List (List Nat × CompD F)) (path : List Nat) : Nat := ls.findIdx fun pc => pc.1 == path

/-- a leaf pin re-addressed by the position of its leaf -/
def readdress (ls : List (List Nat × CompD F)) (p : PathPin) : PinRef := (posOf ls p.1, p.2)

/-- `Solver.flatten()`: the one-level circuit of all leaves, all links, and the root's exposure -/
def flatten : HNet F → HNet F
  | .leaf c => .leaf c
  | .node cs links exposed =>
    let ls := leaves (.node cs links exposed)
    .node (ls.map fun pc => .leaf pc.2)
      ((allLinks (.node cs links exposed)).map fun l => (readdress ls l.1, readdress ls l.2))
      (exposed.map fun e => (e.1, readdress ls (leafRef cs e.2)))

/-! Sanity check (run with `#eval` over `GRat`, pin-count schedule): for
`node [leaf c3, node [leaf c1, leaf c2] [((0,b),(1,a))] [(x,(0,a)),(y,(1,b))]] [((1,y),(0,a))] [(in,(1,x)),(out,(0,b))]`
the leaves have paths `[0], [1,0], [1,1]`, `flatten` gives the level of three components with
`links = [((2,b),(0,a)), ((1,b),(2,a))]`, `exposed = [(in,(1,a)), (out,(0,b))]`; `solveH` returns the same pins and the
same matrix on both, and flattening again returns the same description. -/

end HNet
