import LekkerVerif.Core.Complete
import LekkerVerif.Core.ShapeIndep
import LekkerVerif.Core.Defined
import LekkerVerif.Core.Sched

/-!
# On a consistent state a merge can only fail with a singular inner system

`St.join` has five shape steps that can fail (`linkPins`: `connectivity`, `keyError`, `notSymmetric`;
three `removeAll`s: `listRemove`; two `split`s: `keyError`) and one numerical step (`SMat.add?`:
`dimension`, `singular`).  On a state satisfying the bookkeeping invariant `Book` (RefineBook.lean) plus
two further invariants

* `Idx s`     : every pin of `s` has a matrix index,
* `ConnL L s` : every entry of the connection table of `s` is a link of the network,

all shape steps succeed and the dimensions of the star product match by construction, so the only
possible failure is `.singular` — and by `Defined.lean` this happens exactly when the inner system
`1 - A.S12 * B.S21` of the two partitioned matrices is not invertible.
-/

open ShapeIndep

set_option linter.unusedSectionVars false

/-! ## list-level facts -/

theorem lookupL_isSome_iff {α β : Type} [BEq α] [LawfulBEq α] (l : List (α × β)) (k : α) :
    (lookupL l k).isSome = true ↔ k ∈ l.map (·.1) := by
  unfold lookupL
  rw [Option.isSome_map, List.find?_isSome]
  simp

/-- `removeAll` succeeds when the removed elements are distinct elements of the list; the result is a
sub-collection of the list -/
theorem removeAll_ok : ∀ (xs l : List PinRef), xs.Nodup → (∀ x ∈ xs, x ∈ l) →
    ∃ r, removeAll l xs = .ok r ∧ ∀ y ∈ r, y ∈ l
  | [], l, _, _ => ⟨l, rfl, fun _ h => h⟩
  | x :: xs, l, hnd, hsub => by
    obtain ⟨hx, hxs⟩ := List.nodup_cons.1 hnd
    have hxl : x ∈ l := hsub x List.mem_cons_self
    have hrest : ∀ y ∈ xs, y ∈ l.erase x := by
      intro y hy
      have hne : y ≠ x := by rintro rfl; exact hx hy
      exact (List.mem_erase_of_ne hne).2 (hsub y (List.mem_cons_of_mem _ hy))
    obtain ⟨r, hr, hsubr⟩ := removeAll_ok xs (l.erase x) hxs hrest
    refine ⟨r, ?_, fun y hy => List.mem_of_mem_erase (hsubr y hy)⟩
    simp only [removeAll]
    rw [if_pos (by simpa using hxl)]
    exact hr

theorem mapM_ok {α β : Type} (f : α → Except Err β) (g : α → β) :
    ∀ (xs : List α), (∀ x ∈ xs, f x = .ok (g x)) → xs.mapM f = .ok (xs.map g)
  | [], _ => by simp [List.mapM_nil, pure, Except.pure]
  | x :: xs, h => by
    have h1 := h x List.mem_cons_self
    have h2 := mapM_ok f g xs (fun y hy => h y (List.mem_cons_of_mem _ hy))
    simp only [List.mapM_cons, bind, Except.bind, pure, Except.pure, h1, h2, List.map_cons]

namespace Solve
variable {F : Type} [Field F] [DecidableEq F]

/-! ## the two additional invariants -/

/-- every pin has a matrix index (`split_in_out` raises `KeyError` otherwise) -/
def Idx (s : St F) : Prop := ∀ p ∈ s.pins, (lookupL s.idx p).isSome

/-- every entry of the connection table is a link of the network -/
def ConnL (L : PinRef → PinRef → Prop) (s : St F) : Prop := ∀ l ∈ s.conn, L l.1 l.2

theorem lookupL_of_mem (l : List (PinRef × PinRef)) (hnd : (l.map (·.1)).Nodup) (k v : PinRef)
    (h : (k, v) ∈ l) : lookupL l k = some v := by
  have hs : (lookupL l k).isSome = true :=
    (lookupL_isSome_iff l k).2 (List.mem_map.2 ⟨(k, v), h, rfl⟩)
  obtain ⟨v', hv'⟩ := Option.isSome_iff_exists.1 hs
  rw [hv', key_unique l hnd k v v' h (lookupL_mem l k v' hv')]

/-- every composite built by `build` has an index for each of its pins -/
theorem idx_build (self st : St F) (newId : Nat) (C : SMat F) (addPins : List PinRef) :
    Idx (St.build self st newId C addPins) := by
  intro p hp
  have hp' : p ∈ addPins := hp
  show (lookupL addPins.zipIdx p).isSome = true
  rw [lookupL_isSome_iff]
  have : addPins.zipIdx.map (·.1) = addPins := by
    apply List.ext_getElem <;> simp
  rw [this]; exact hp'

theorem join_idx (s t c : St F) (n : Nat) (h : St.join s t n = .ok c) : Idx c := by
  obtain ⟨_, _, _, _, _, C, addPins, _, _, _, _, _, _, _, hc⟩ := St.join_ok s t c n h
  rw [hc]; exact idx_build s t n C addPins

theorem join_connL (L : PinRef → PinRef → Prop) (s t c : St F) (n : Nat) (cs : ConnL L s) (ct : ConnL L t)
    (h : St.join s t n = .ok c) : ConnL L c := by
  obtain ⟨_, _, _, _, _, C, addPins, _, _, _, _, _, _, _, hc⟩ := St.join_ok s t c n h
  intro l hl
  rw [hc] at hl
  rcases build_conn_sub s t n C addPins l hl with h' | h'
  · exact cs l h'
  · exact ct l h'

/-! ## the shape steps of `join` succeed -/

theorem filterMap_ite_eq {α β : Type} (c : α → Bool) (g : α → β) (l : List α) :
    l.filterMap (fun x => if c x then some (g x) else none) = (l.filter c).map g := by
  induction l with
  | nil => rfl
  | cons a l ih => cases hc : c a <;> simp [hc, ih]

theorem getOutTo_eq_map_filter (s t : St F) :
    s.getOutTo t = (s.conn.filter fun lt => t.group.contains lt.2.1).map (·.1) :=
  filterMap_ite_eq (fun lt : PinRef × PinRef => t.group.contains lt.2.1) (·.1) s.conn

theorem getInFrom_eq_map_filter (s t : St F) :
    t.getInFrom s = (s.conn.filter fun lt => t.group.contains lt.2.1).map (·.2) :=
  filterMap_ite_eq (fun lt : PinRef × PinRef => t.group.contains lt.2.1) (·.2) s.conn

/-- the length check of `linkPins` compares two projections of the same filtered table -/
theorem length_getOutTo (s t : St F) : (s.getOutTo t).length = (t.getInFrom s).length := by
  rw [getOutTo_eq_map_filter, getInFrom_eq_map_filter, List.length_map, List.length_map]

theorem getOutTo_nodup (s t : St F) (hk : (s.conn.map (·.1)).Nodup) : (s.getOutTo t).Nodup := by
  rw [getOutTo_eq_map_filter]
  exact List.Nodup.sublist (List.Sublist.map _ List.filter_sublist) hk

/-- Disjoint members give disjoint pin lists. -/
theorem disj_of_members (L : PinRef → PinRef → Prop) (B : Nat) (s t : St F) (bs : Book L B s) (bt : Book L B t)
    (hm : ∀ k, k ∈ St.membersOf s → k ∈ St.membersOf t → False) : Disj s t :=
  fun p hp hq => hm p.1 (bs.own p hp) (bt.own p hq)

/-- an entry of `s.conn` that points into `t`'s group has its reverse entry in `t.conn` -/
theorem reverse_entry (L : PinRef → PinRef → Prop) (B : Nat) (hsym : ∀ p q, L p q → L q p)
    (s t : St F) (bs : Book L B s) (bt : Book L B t) (cs : ConnL L s)
    (hm : ∀ k, k ∈ St.membersOf s → k ∈ St.membersOf t → False)
    (p q : PinRef) (hpq : (p, q) ∈ s.conn) (hg : q.1 ∈ t.group) : (q, p) ∈ t.conn := by
  have hL : L p q := cs _ hpq
  have hqt : q.1 ∈ St.membersOf t := group_target L B t bt _ (bs.connOut _ hpq).2 hg
  have hps : p.1 ∈ St.membersOf s := bs.own _ (bs.connIn _ hpq)
  have hq : q ∈ t.pins := by
    by_contra hno
    exact hm _ hps (bt.inner q p hqt hno (hsym p q hL))
  exact bt.full q hq p (hsym p q hL)

/-- `linkPins` succeeds on a consistent state -/
theorem linkPins_ok (L : PinRef → PinRef → Prop) (B : Nat) (hsym : ∀ p q, L p q → L q p)
    (s t : St F) (bs : Book L B s) (bt : Book L B t) (cs : ConnL L s)
    (hm : ∀ k, k ∈ St.membersOf s → k ∈ St.membersOf t → False) :
    ∃ links, St.linkPins s t = .ok links := by
  unfold St.linkPins
  simp only
  rw [if_neg (by simp [length_getOutTo s t])]
  refine ⟨_, mapM_ok _ (fun p => (p, (lookupL s.conn p).getD p)) _ ?_⟩
  intro p hp
  obtain ⟨q, hpq, hg⟩ := (mem_getOutTo s t p).1 hp
  have h1 : lookupL s.conn p = some q := lookupL_of_mem s.conn bs.connKey p q hpq
  have h2 : lookupL t.conn q = some p :=
    lookupL_of_mem t.conn bt.connKey q p (reverse_entry L B hsym s t bs bt cs hm p q hpq hg)
  simp [h1, h2]

/-- all shape steps of `join` succeed on a consistent state, the two partitioned matrices are well formed and
their inner dimensions agree -/
theorem join_shape_ok (L : PinRef → PinRef → Prop) (B : Nat) (hsym : ∀ p q, L p q → L q p)
    (s t : St F) (bs : Book L B s) (bt : Book L B t) (cs : ConnL L s)
    (hm : ∀ k, k ∈ St.membersOf s → k ∈ St.membersOf t → False) (is : Idx s) (it : Idx t) :
    ∃ (links : List (PinRef × PinRef)) (selfIn stOut addPins : List PinRef) (A B' : SMat F),
      St.linkPins s t = .ok links ∧
      removeAll s.pins (links.map (·.1)) = .ok selfIn ∧
      removeAll t.pins (links.map (·.2)) = .ok stOut ∧
      s.split selfIn (links.map (·.1)) = .ok A ∧
      t.split (links.map (·.2)) stOut = .ok B' ∧
      removeAll (s.pins ++ t.pins) (links.map (·.1) ++ links.map (·.2)) = .ok addPins ∧
      A.WF ∧ B'.WF ∧ A.M = B'.N := by
  obtain ⟨links, hl⟩ := linkPins_ok L B hsym s t bs bt cs hm
  have lfst := linkPins_fst s t links hl
  have lsub := linkPins_sub s t links hl
  have lsym := linkPins_symm s t links hl
  have hd : Disj s t := disj_of_members L B s t bs bt hm
  -- the eliminated pins of `s`
  have nd1 : (links.map (·.1)).Nodup := by rw [lfst]; exact getOutTo_nodup s t bs.connKey
  have sub1 : ∀ x ∈ links.map (·.1), x ∈ s.pins := by
    intro x hx
    obtain ⟨l, hl1, rfl⟩ := List.mem_map.1 hx
    exact bs.connIn l (lsub l hl1)
  -- the eliminated pins of `t`
  have nd2 : (links.map (·.2)).Nodup := by
    refine List.Nodup.map_on ?_ (List.Nodup.of_map _ nd1)
    intro x hx y hy e
    have h1 := lsym x hx
    have h2 := lsym y hy
    rw [← e] at h2
    have e1 : x.1 = y.1 := key_unique t.conn bt.connKey x.2 x.1 y.1 h1 h2
    exact Prod.ext e1 e
  have sub2 : ∀ x ∈ links.map (·.2), x ∈ t.pins := by
    intro x hx
    obtain ⟨l, hl1, rfl⟩ := List.mem_map.1 hx
    exact bt.connIn _ (lsym l hl1)
  obtain ⟨selfIn, h2, hsI⟩ := removeAll_ok _ s.pins nd1 sub1
  obtain ⟨stOut, h3, hsO⟩ := removeAll_ok _ t.pins nd2 sub2
  have nd3 : (links.map (·.1) ++ links.map (·.2)).Nodup :=
    List.nodup_append.2 ⟨nd1, nd2, fun a ha b hb e => hd a (sub1 a ha) (e ▸ sub2 b hb)⟩
  have sub3 : ∀ x ∈ links.map (·.1) ++ links.map (·.2), x ∈ s.pins ++ t.pins := by
    intro x hx
    rcases List.mem_append.1 hx with hx | hx
    · exact List.mem_append_left _ (sub1 x hx)
    · exact List.mem_append_right _ (sub2 x hx)
  obtain ⟨addPins, h7, _⟩ := removeAll_ok _ (s.pins ++ t.pins) nd3 sub3
  -- the two `split`s
  have hasS : ∀ l : List PinRef, (∀ x ∈ l, x ∈ s.pins) → s.hasIdx l = true := by
    intro l hl'
    unfold St.hasIdx
    exact List.all_eq_true.2 fun x hx => is x (hl' x hx)
  have hasT : ∀ l : List PinRef, (∀ x ∈ l, x ∈ t.pins) → t.hasIdx l = true := by
    intro l hl'
    unfold St.hasIdx
    exact List.all_eq_true.2 fun x hx => it x (hl' x hx)
  obtain ⟨A, h4, hAN, hAM⟩ := St.split_of_hasIdx (s := s) (i := selfIn) (o := links.map (·.1))
    (by rw [hasS _ hsI, hasS _ sub1]; rfl)
  obtain ⟨B', h5, hBN, hBM⟩ := St.split_of_hasIdx (s := t) (i := links.map (·.2)) (o := stOut)
    (by rw [hasT _ sub2, hasT _ hsO]; rfl)
  have wA := (St.split_spec s selfIn (links.map (·.1)) A _ _ rfl rfl h4).2.2.1
  have wB := (St.split_spec t (links.map (·.2)) stOut B' _ _ rfl rfl h5).2.2.1
  refine ⟨links, selfIn, stOut, addPins, A, B', hl, h2, h3, h4, h5, h7, wA, wB, ?_⟩
  rw [hAM, hBN]; simp

end Solve

namespace St
variable {F : Type} [Field F] [DecidableEq F]
open Solve

/-- **(a)** on a consistent state a merge either succeeds or fails with `.singular`; moreover (with the two
partitioned matrices `A`, `B'` exposed) it succeeds exactly when the inner system is invertible. -/
theorem join_defined (L : PinRef → PinRef → Prop) (B : Nat) (hsym : ∀ p q, L p q → L q p)
    (s t : St F) (n : Nat) (bs : Book L B s) (bt : Book L B t) (cs : ConnL L s)
    (hm : ∀ k, k ∈ St.membersOf s → k ∈ St.membersOf t → False) (is : Idx s) (it : Idx t) :
    ∃ (links : List (PinRef × PinRef)) (selfIn stOut : List PinRef) (A B' : SMat F),
      St.linkPins s t = .ok links ∧
      removeAll s.pins (links.map (·.1)) = .ok selfIn ∧
      removeAll t.pins (links.map (·.2)) = .ok stOut ∧
      s.split selfIn (links.map (·.1)) = .ok A ∧
      t.split (links.map (·.2)) stOut = .ok B' ∧
      ((∃ c, St.join s t n = .ok c) ↔
        IsUnit (1 - (A.toSM A.N A.M).S12 * (B'.toSM A.M B'.M).S21)) ∧
      (St.join s t n = .error .singular ↔
        ¬ IsUnit (1 - (A.toSM A.N A.M).S12 * (B'.toSM A.M B'.M).S21)) ∧
      ∀ e, St.join s t n = .error e → e = .singular := by
  obtain ⟨links, selfIn, stOut, addPins, A, B', h1, h2, h3, h4, h5, h7, wA, wB, hM⟩ :=
    join_shape_ok L B hsym s t bs bt cs hm is it
  have hj := St.join_eq_of (n := n) h1 h2 h3 h4 h5 h7
  refine ⟨links, selfIn, stOut, A, B', h1, h2, h3, h4, h5, ?_, ?_, ?_⟩
  · rw [hj]
    constructor
    · rintro ⟨c, hc⟩
      cases ha : A.add? B' with
      | ok C => exact ((SMat.add?_ok_iff A B' wA wB).1 ⟨C, ha⟩).2
      | error e => rw [ha] at hc; cases hc
    · intro hu
      obtain ⟨C, hC⟩ := (SMat.add?_ok_iff A B' wA wB).2 ⟨hM, hu⟩
      rw [hC]; exact ⟨_, rfl⟩
  · rw [hj]
    constructor
    · intro hs
      cases ha : A.add? B' with
      | ok C => rw [ha] at hs; cases hs
      | error e =>
        rw [ha] at hs
        have : e = .singular := by injection hs
        subst this
        exact ((SMat.add?_singular_iff A B' wA wB).1 ha).2
    · intro hu
      rw [(SMat.add?_singular_iff A B' wA wB).2 ⟨hM, hu⟩]
  · intro e he
    rw [hj] at he
    cases ha : A.add? B' with
    | ok C => rw [ha] at he; cases he
    | error e' =>
      rw [ha] at he
      have : e' = e := by injection he
      subst this
      rcases SMat.add?_error_cases A B' e' ha with rfl | rfl
      · exact absurd hM ((SMat.add?_dimension_iff A B').1 ha)
      · rfl

/-- **(a)**, the requested form -/
theorem join_error_singular (L : PinRef → PinRef → Prop) (B : Nat) (hsym : ∀ p q, L p q → L q p)
    (s t : St F) (n : Nat) (bs : Book L B s) (bt : Book L B t) (cs : ConnL L s)
    (hm : ∀ k, k ∈ St.membersOf s → k ∈ St.membersOf t → False) (is : Idx s) (it : Idx t) :
    (∃ c, St.join s t n = .ok c) ∨ St.join s t n = .error .singular := by
  obtain ⟨_, _, _, _, _, _, _, _, _, _, _, _, herr⟩ := join_defined L B hsym s t n bs bt cs hm is it
  cases hj : St.join s t n with
  | ok c => exact Or.inl ⟨c, rfl⟩
  | error e => rw [herr e hj]; exact Or.inr rfl

end St

/-! ## the elimination loop -/

namespace Solve
variable {F : Type} [Field F] [DecidableEq F]

/-- a schedule is *valid* when, on every live list with pairwise distinct ids and at least two structures, it
names two live structures with different ids -/
def ValidSched (sched : List (St F) → Option (Nat × Nat)) : Prop :=
  ∀ live : List (St F), (live.map (·.id)).Nodup → 2 ≤ live.length →
    ∃ i j, sched live = some (i, j) ∧ i ≠ j ∧ (∃ s ∈ live, s.id = i) ∧ (∃ t ∈ live, t.id = j)

/-- the loop invariant: `FullInv` plus the two new structure invariants and distinct ids -/
structure DefInv (W : (PinRef → F) → (PinRef → F) → Prop) (L : PinRef → PinRef → Prop) (B : Nat)
    (base : List Nat) (live : List (St F)) (fresh : Nat) : Prop where
  full : FullInv W L B base live fresh
  idx : ∀ s ∈ live, Idx s
  connL : ∀ s ∈ live, ConnL L s
  idsNodup : (live.map (·.id)).Nodup

/-- a successful step preserves the invariant and shortens the live list -/
theorem stepWith_def (W : (PinRef → F) → (PinRef → F) → Prop) (L : PinRef → PinRef → Prop) (B : Nat)
    (hsym : ∀ p q, L p q → L q p) (base : List Nat) (sched) (live live' : List (St F)) (fresh : Nat)
    (inv : DefInv W L B base live fresh) (h : stepWith sched live fresh = .ok live') :
    DefInv W L B base live' (fresh + 1) ∧ 1 ≤ live'.length ∧ live'.length + 1 ≤ live.length := by
  have hfull := stepWith_full W L B hsym base sched live live' fresh inv.full h
  obtain ⟨src, tar, new, hsm, htm, hne, hjoin, rfl⟩ := stepWith_cases sched live live' fresh h
  have idnew := join_id src tar new fresh hjoin
  have memrest : ∀ r ∈ live.filter (fun r => r.id != src.id && r.id != tar.id), r ∈ live :=
    fun r hr => (List.mem_filter.1 hr).1
  refine ⟨⟨hfull, ?_, ?_, ?_⟩, by simp, ?_⟩
  · intro s hs
    rcases List.mem_append.1 hs with hs | hs
    · exact inv.idx s (memrest s hs)
    · have : s = new := by simpa using hs
      rw [this]; exact join_idx src tar new fresh hjoin
  · intro s hs
    rcases List.mem_append.1 hs with hs | hs
    · exact inv.connL s (memrest s hs)
    · have : s = new := by simpa using hs
      rw [this]; exact join_connL L src tar new fresh (inv.connL _ hsm) (inv.connL _ htm) hjoin
  · rw [List.map_append]
    refine List.nodup_append.2 ⟨?_, by simp, ?_⟩
    · exact List.Nodup.sublist (List.Sublist.map _ List.filter_sublist) inv.idsNodup
    · intro a ha b hb e
      obtain ⟨r, hr, rfl⟩ := List.mem_map.1 ha
      have hlt := inv.full.linv.ids r (memrest r hr)
      have : b = fresh := by simpa [idnew] using hb
      omega
  · -- the two merged structures are removed
    have hcount := List.length_eq_length_filter_add (l := live) (fun r => r.id != src.id && r.id != tar.id)
    have hst : src ≠ tar := fun e => hne (by rw [e])
    have h2 : [src, tar].length ≤ (live.filter fun r => !(r.id != src.id && r.id != tar.id)).length := by
      apply List.Subperm.length_le
      apply List.subperm_of_subset
      · simp [hst]
      · intro x hx
        rcases List.mem_cons.1 hx with rfl | hx
        · exact List.mem_filter.2 ⟨hsm, by simp⟩
        · have : x = tar := by simpa using hx
          rw [this]; exact List.mem_filter.2 ⟨htm, by simp⟩
    simp only [List.length_cons, List.length_nil] at h2
    simp only [List.length_append, List.length_cons, List.length_nil]
    omega

/-- **(b)** one step: on a consistent state with at least two live structures and a valid schedule, a failing
step fails with `.singular` -/
theorem stepWith_error_singular (W : (PinRef → F) → (PinRef → F) → Prop) (L : PinRef → PinRef → Prop) (B : Nat)
    (hsym : ∀ p q, L p q → L q p) (base : List Nat) (sched) (hv : ValidSched sched)
    (live : List (St F)) (fresh : Nat) (inv : DefInv W L B base live fresh) (h2 : 2 ≤ live.length)
    (e : Err) (h : stepWith sched live fresh = .error e) : e = .singular := by
  obtain ⟨i, j, hs, hij, ⟨s, hsl, hsi⟩, ⟨t, htl, htj⟩⟩ := hv live inv.idsNodup h2
  have fi : (live.find? (·.id == i)).isSome = true := by
    rw [List.find?_isSome]; exact ⟨s, hsl, by simp [hsi]⟩
  have fj : (live.find? (·.id == j)).isSome = true := by
    rw [List.find?_isSome]; exact ⟨t, htl, by simp [htj]⟩
  obtain ⟨src, hsrc⟩ := Option.isSome_iff_exists.1 fi
  obtain ⟨tar, htar⟩ := Option.isSome_iff_exists.1 fj
  have hsm := List.mem_of_find?_eq_some hsrc
  have htm := List.mem_of_find?_eq_some htar
  have hsi' : src.id = i := by simpa using List.find?_some hsrc
  have hti' : tar.id = j := by simpa using List.find?_some htar
  have hne : src.id ≠ tar.id := by rw [hsi', hti']; exact hij
  unfold stepWith at h
  rw [hs] at h
  dsimp only at h
  rw [hsrc, htar] at h
  dsimp only at h
  rw [if_neg (by simpa using hij)] at h
  obtain ⟨_, _, _, _, _, _, _, _, _, _, _, _, herr⟩ :=
    St.join_defined L B hsym src tar fresh (inv.full.book _ hsm) (inv.full.book _ htm) (inv.connL _ hsm)
      (inv.full.mdisj _ hsm _ htm hne) (inv.idx _ hsm) (inv.idx _ htm)
  cases hjn : St.join src tar fresh with
  | ok c => rw [hjn] at h; cases h
  | error e' =>
    rw [hjn] at h
    have : e' = e := by injection h
    rw [← this]; exact herr e' hjn

/-- **(b)** the loop: with enough fuel, a failing run fails with `.singular` -/
theorem loopWith_error_singular (W : (PinRef → F) → (PinRef → F) → Prop) (L : PinRef → PinRef → Prop) (B : Nat)
    (hsym : ∀ p q, L p q → L q p) (base : List Nat) (sched) (hv : ValidSched sched) :
    ∀ (fuel : Nat) (live : List (St F)) (fresh : Nat) (e : Err),
      DefInv W L B base live fresh → 1 ≤ live.length → live.length ≤ fuel + 1 →
      loopWith sched fuel live fresh = .error e → e = .singular := by
  intro fuel
  induction fuel with
  | zero =>
    intro live fresh e _ h1 hf h
    obtain ⟨s, rfl⟩ := List.length_eq_one_iff.1 (by omega : live.length = 1)
    simp [loopWith] at h
  | succ n ih =>
    intro live fresh e inv h1 hf h
    rcases live with _ | ⟨a, _ | ⟨b, l⟩⟩
    · simp at h1
    · simp [loopWith] at h
    · simp only [loopWith] at h
      cases hst : stepWith sched (a :: b :: l) fresh with
      | error e' =>
        rw [hst] at h
        have : e' = e := by injection h
        rw [← this]
        exact stepWith_error_singular W L B hsym base sched hv _ fresh inv (by simp) e' hst
      | ok live' =>
        rw [hst] at h
        obtain ⟨inv', h1', hlen⟩ := stepWith_def W L B hsym base sched _ live' fresh inv hst
        exact ih live' (fresh + 1) e inv' h1' (by omega) h

/-- a valid schedule exists: merge the first two live structures -/
def firstTwo (live : List (St F)) : Option (Nat × Nat) :=
  match live with
  | a :: b :: _ => some (a.id, b.id)
  | _ => none

theorem validSched_firstTwo : ValidSched (firstTwo (F := F)) := by
  intro live hnd h2
  rcases live with _ | ⟨a, _ | ⟨b, l⟩⟩
  · simp at h2
  · simp at h2
  · refine ⟨a.id, b.id, rfl, ?_, ⟨a, by simp, rfl⟩, ⟨b, by simp, rfl⟩⟩
    intro e
    simp [e] at hnd

end Solve

/-! ## the pin-count heuristic of `Solver.solve` is a valid schedule -/

namespace Solve
variable {F : Type} [Field F] [DecidableEq F]

theorem sortByPins_perm (l : List (St F)) : (sortByPins l).Perm l := by
  unfold sortByPins
  suffices H : ∀ acc : List (St F),
      (l.foldl (fun acc s =>
        let (a, b) := acc.span (fun t => t.pins.length ≤ s.pins.length); a ++ [s] ++ b) acc).Perm (acc ++ l) by
    simpa using H []
  induction l with
  | nil => intro acc; simp
  | cons s l ih =>
    intro acc
    simp only [List.foldl_cons]
    refine (ih _).trans ?_
    have hsp : (acc.span fun t => decide (t.pins.length ≤ s.pins.length)).1 ++
        (acc.span fun t => decide (t.pins.length ≤ s.pins.length)).2 = acc := by
      rw [List.span_eq_takeWhile_dropWhile]; exact List.takeWhile_append_dropWhile
    have : ((acc.span fun t => decide (t.pins.length ≤ s.pins.length)).1 ++ [s] ++
        (acc.span fun t => decide (t.pins.length ≤ s.pins.length)).2).Perm (acc ++ [s]) := by
      conv_rhs => rw [← hsp]
      simp only [List.append_assoc]
      exact List.Perm.append_left _ List.perm_append_comm
    have h2 := List.Perm.append_right l this
    simpa using h2

theorem pySched_spec (live : List (St F)) (src : St F) (rest : List (St F))
    (h : sortByPins live = src :: rest) (hr : rest ≠ []) :
    ∃ tar, pySched live = some (src.id, tar.id) ∧ (tar ∈ rest ∨ (tar.id ≠ src.id ∧ tar ∈ src :: rest)) := by
  unfold pySched
  rw [h]
  dsimp only
  split
  · rename_i hnil
    exact absurd (List.append_eq_nil_iff.1 hnil).2 hr
  · rename_i tar tl hcons
    refine ⟨tar, rfl, ?_⟩
    have hmem : tar ∈ _ ++ rest := hcons ▸ List.mem_cons_self
    rcases List.mem_append.1 hmem with hm | hm
    · right
      have hm' := (sortByPins_perm _).mem_iff.1 hm
      obtain ⟨hm1, hm2⟩ := List.mem_filter.1 hm'
      refine ⟨by simpa using hm2, ?_⟩
      obtain ⟨b, _, hb⟩ := List.mem_filterMap.1 hm1
      unfold goneTo at hb
      exact List.mem_of_find?_eq_some hb
    · exact Or.inl hm

theorem validSched_pySched : ValidSched (pySched (F := F)) := by
  intro live hnd h2
  have hp := sortByPins_perm live
  have hlen := hp.length_eq
  cases hs : sortByPins live with
  | nil => rw [hs] at hlen; simp at hlen; omega
  | cons src rest =>
    rw [hs] at hp hlen
    have hr : rest ≠ [] := by
      intro e; rw [e] at hlen; simp at hlen; omega
    obtain ⟨tar, hsched, htar⟩ := pySched_spec live src rest hs hr
    have hnd' : ((src :: rest).map (·.id)).Nodup := (hp.map _).nodup_iff.2 hnd
    have hsrc : src ∈ live := hp.mem_iff.1 List.mem_cons_self
    refine ⟨src.id, tar.id, hsched, ?_, ⟨src, hsrc, rfl⟩, ⟨tar, ?_, rfl⟩⟩
    · rcases htar with ht | ⟨hne, _⟩
      · intro e
        rw [List.map_cons, List.nodup_cons] at hnd'
        exact hnd'.1 (e ▸ List.mem_map.2 ⟨tar, ht, rfl⟩)
      · exact fun e => hne e.symm
    · rcases htar with ht | ⟨_, ht⟩
      · exact hp.mem_iff.1 (List.mem_cons_of_mem _ ht)
      · exact hp.mem_iff.1 ht

end Solve

/-! ## the top-level solve -/

namespace NetD
variable {F : Type} [Field F] [DecidableEq F]
open Solve

/-- every pin name of every component has a matrix index (not part of `NetD.WF`) -/
def IdxWF (net : NetD F) : Prop := ∀ c ∈ net.comps, ∀ n ∈ c.pins, (lookupL c.idx n).isSome

theorem idx_mkSt (net : NetD F) (k : Nat) (c : CompD F) (h : ∀ n ∈ c.pins, (lookupL c.idx n).isSome) :
    Idx (net.mkSt k c) := by
  intro p hp
  obtain ⟨hpk, hpn⟩ := (mem_pins_mkSt net k c p).1 hp
  have := (lookupL_isSome_iff c.idx p.2).1 (h p.2 hpn)
  obtain ⟨ni, hni, hn⟩ := List.mem_map.1 this
  show (lookupL (c.idx.map fun ni => ((k, ni.1), ni.2)) p).isSome = true
  rw [lookupL_isSome_iff]
  refine List.mem_map.2 ⟨((k, ni.1), ni.2), List.mem_map.2 ⟨ni, hni, rfl⟩, ?_⟩
  exact Prod.ext hpk.symm hn

theorem connL_mkSt (net : NetD F) (k : Nat) (c : CompD F) : ConnL net.Lnk (net.mkSt k c) := by
  intro e he
  have he' : e ∈ connOf net.links k := he
  rcases (mem_connOf _ _ _).1 he' with ⟨h1, _⟩ | ⟨h1, _, _⟩
  · exact Or.inl h1
  · exact Or.inr h1

theorem initial_ids (net : NetD F) : net.initial.map (·.id) = List.range' 0 net.comps.length := by
  unfold initial
  rw [List.map_map, ← List.zipIdx_map_snd 0 net.comps]
  rfl

theorem defInv_initial (net : NetD F) (wf : net.WF) (hidx : net.IdxWF) :
    DefInv net.Sol net.Lnk net.comps.length (List.range net.comps.length) net.initial net.comps.length := by
  refine ⟨fullInv_initial net wf, ?_, ?_, ?_⟩
  · intro s hs
    obtain ⟨k, c, hk, rfl⟩ := (mem_initial net s).1 hs
    exact idx_mkSt net k c (hidx c (List.mem_of_getElem? hk))
  · intro s hs
    obtain ⟨k, c, hk, rfl⟩ := (mem_initial net s).1 hs
    exact connL_mkSt net k c
  · rw [initial_ids]; exact List.nodup_range'

theorem length_initial (net : NetD F) : net.initial.length = net.comps.length := by
  simp [initial]

/-- **(c)** for a well-formed, non-empty network whose components index all their pins, and a valid schedule,
the only error `solveWith` can produce is `.singular` -/
theorem solveWith_error_singular (net : NetD F) (wf : net.WF) (hidx : net.IdxWF) (hne : net.comps ≠ [])
    (sched) (hv : ValidSched sched) (e : Err) (h : net.solveWith sched = .error e) : e = .singular := by
  have hpos : 1 ≤ net.comps.length := List.length_pos_iff.2 hne
  exact loopWith_error_singular net.Sol net.Lnk net.comps.length (fun p q h => h.symm)
    (List.range net.comps.length) sched hv net.comps.length net.initial net.comps.length e
    (defInv_initial net wf hidx) (by rw [length_initial]; exact hpos) (by rw [length_initial]; omega) h

/-- dichotomy form of **(c)** -/
theorem solveWith_ok_or_singular (net : NetD F) (wf : net.WF) (hidx : net.IdxWF) (hne : net.comps ≠ [])
    (sched) (hv : ValidSched sched) :
    (∃ total, net.solveWith sched = .ok total) ∨ net.solveWith sched = .error .singular := by
  cases h : net.solveWith sched with
  | ok total => exact Or.inl ⟨total, rfl⟩
  | error e => rw [solveWith_error_singular net wf hidx hne sched hv e h]; exact Or.inr rfl

/-- **(c)** for the pin-count heuristic of `Solver.solve` (no schedule hypothesis left) -/
theorem solveWith_pySched_error_singular (net : NetD F) (wf : net.WF) (hidx : net.IdxWF) (hne : net.comps ≠ [])
    (e : Err) (h : net.solveWith pySched = .error e) : e = .singular :=
  solveWith_error_singular net wf hidx hne pySched validSched_pySched e h

end NetD
