import LekkerVerif.Core.RefineAdd
import LekkerVerif.Core.RefineLists
import LekkerVerif.Core.AbsJoin

open Matrix

namespace SMat
variable {F : Type} [Field F] [DecidableEq F]
/-- shape-generic form of `add?_spec` -/
theorem add?_spec' (A B C : SMat F) (n k m : Nat) (hA : A.WF) (hB : B.WF)
    (hn : A.N = n) (hk : A.M = k) (hm : B.M = m) (h : A.add? B = .ok C) :
    B.N = k ∧ C.N = n ∧ C.M = m ∧ C.WF ∧
    IsUnit (1 - (A.toSM n k).S12 * (B.toSM k m).S21) ∧
    C.toSM n m = (A.toSM n k).add (B.toSM k m) := by
  subst hn hk hm
  obtain ⟨h1, h2, h3, h4, h5, h6⟩ := add?_spec A B C hA hB h
  exact ⟨h1.symm, h2, h3, h4, h5, h6⟩
end SMat

namespace St
variable {F : Type} [Field F] [DecidableEq F]

theorem gather_toMatrix (s : St F) (rows cols : List PinRef) (n m : Nat)
    (hn : rows.length = n) (hm : cols.length = m) :
    (s.gather rows cols).toMatrix n m
      = blk s.sem (fun i : Fin n => rows[i.1]'(hn ▸ i.2)) (fun j : Fin m => cols[j.1]'(hm ▸ j.2)) := by
  subst hn hm
  unfold gather
  rw [Mat.toMatrix_ofFn]
  ext i j
  simp only [blk]
  rw [getElem!_pos rows.toArray i.1 (by simp), getElem!_pos cols.toArray j.1 (by simp)]
  simp

theorem split_spec (s : St F) (inL outL : List PinRef) (A : SMat F) (n m : Nat)
    (hn : inL.length = n) (hm : outL.length = m) (h : s.split inL outL = .ok A) :
    A.N = n ∧ A.M = m ∧ A.WF ∧
    A.toSM n m =
      { S21 := blk s.sem (fun i : Fin n => inL[i.1]'(hn ▸ i.2)) (fun j : Fin n => inL[j.1]'(hn ▸ j.2))
        S22 := blk s.sem (fun i : Fin n => inL[i.1]'(hn ▸ i.2)) (fun j : Fin m => outL[j.1]'(hm ▸ j.2))
        S11 := blk s.sem (fun i : Fin m => outL[i.1]'(hm ▸ i.2)) (fun j : Fin n => inL[j.1]'(hn ▸ j.2))
        S12 := blk s.sem (fun i : Fin m => outL[i.1]'(hm ▸ i.2)) (fun j : Fin m => outL[j.1]'(hm ▸ j.2)) } := by
  unfold split at h
  split at h
  · simp only [Except.ok.injEq] at h
    subst h
    refine ⟨hn, hm, ?_, ?_⟩
    · simp [SMat.WF, gather]
    · simp only [SMat.toSM]
      rw [gather_toMatrix s inL inL n n hn hn, gather_toMatrix s inL outL n m hn hm,
        gather_toMatrix s outL inL m n hm hn, gather_toMatrix s outL outL m m hm hm]
  · simp at h

/-- the matrix of the merged structure, read through its fresh index map -/
theorem sem_build (self st : St F) (newId : Nat) (C : SMat F) (l : List PinRef) (hl : l.Nodup)
    (i j : Nat) (hi : i < l.length) (hj : j < l.length) :
    (build self st newId C l).sem l[i] l[j] = (assemble C).get i j := by
  unfold sem
  simp only [build]
  rw [lookupL_zipIdx l i hi hl, lookupL_zipIdx l j hj hl]

theorem assemble_get (C : SMat F) (i j : Nat) (hi : i < C.N + C.M) (hj : j < C.N + C.M) :
    (assemble C).get i j =
      if i < C.N then (if j < C.N then C.S21.get i j else C.S22.get i (j - C.N))
      else (if j < C.N then C.S11.get (i - C.N) j else C.S12.get (i - C.N) (j - C.N)) := by
  unfold assemble
  rw [Mat.get_ofFn _ _ _ _ _ hi hj]

end St
