import Mathlib.LinearAlgebra.Matrix.SchurComplement

open Matrix

variable {F : Type*} [Field F]
variable {n k m : Type*} [Fintype n] [Fintype k] [Fintype m] [DecidableEq n] [DecidableEq k] [DecidableEq m]

structure SM (F : Type*) (n m : Type*) where
  S11 : Matrix m n F
  S22 : Matrix n m F
  S12 : Matrix m m F
  S21 : Matrix n n F
