import LekkerVerif.Core.Basic
/-! Spike: executable transcription of Structure.join (single sweep point), decomposed into small steps -/

abbrev PinRef := Nat × String          -- (id of the *base* structure, pin name)

inductive Err | connectivity | notSymmetric | listRemove | keyError | singular | dimension | empty
deriving Repr, DecidableEq

structure SMat (F : Type) where
  N : Nat
  M : Nat
  S11 : Mat F      -- M×N
  S22 : Mat F      -- N×M
  S12 : Mat F      -- M×M
  S21 : Mat F      -- N×N

namespace SMat
variable {F : Type} [Scalar F]
/-- S_matrix.add -/
def add? (A B : SMat F) : Except Err (SMat F) :=
  if A.M != B.N then .error .dimension else
  match Mat.inv? (Mat.sub (Mat.one A.M) (Mat.mul A.S12 B.S21)), Mat.inv? (Mat.sub (Mat.one A.M) (Mat.mul B.S21 A.S12)) with
  | some X, some Y =>
    let T1 := Mat.mul B.S11 X
    let T2 := Mat.mul A.S22 Y
    .ok { N := A.N, M := B.M
          S21 := Mat.add A.S21 (Mat.mul (Mat.mul T2 B.S21) A.S11)
          S11 := Mat.mul T1 A.S11
          S12 := Mat.add B.S12 (Mat.mul (Mat.mul T1 A.S12) B.S22)
          S22 := Mat.mul T2 B.S22 }
  | _, _ => .error .singular
end SMat

structure St (F : Type) where
  id      : Nat                          -- object identity
  pins    : List PinRef                  -- pin_list
  idx     : List (PinRef × Nat)          -- pin_dic
  S       : Mat F                        -- Smatrix (N×N)
  conn    : List (PinRef × PinRef)       -- conn_dict (insertion order)
  connTo  : List Nat                     -- connected_to (ids of base structures)
  members : List Nat                     -- `structures` : ids of base members, [] for a base structure

def lookupL {α β : Type} [BEq α] (l : List (α × β)) (k : α) : Option β := (l.find? (·.1 == k)).map (·.2)

/-- list.remove for each element, failing when absent -/
def removeAll (l : List PinRef) : List PinRef → Except Err (List PinRef)
  | [] => .ok l
  | x :: xs => if l.contains x then removeAll (l.erase x) xs else .error .listRemove

namespace St
variable {F : Type} [Scalar F]

def group (s : St F) : List Nat := s.id :: s.members          -- [st] + st.structures

def getOutTo (self st : St F) : List PinRef :=
  self.conn.filterMap fun lt => if st.group.contains lt.2.1 then some lt.1 else none
def getInFrom (self st : St F) : List PinRef :=          -- self.get_in_from(st): pins of self that st connects to
  st.conn.filterMap fun lt => if self.group.contains lt.2.1 then some lt.2 else none

/-- the two connectivity checks of `join`, and `tar_in` re-ordered along `loc_out` -/
def linkPins (self st : St F) : Except Err (List (PinRef × PinRef)) :=
  let locOut := self.getOutTo st
  let tarIn0 := st.getInFrom self
  if locOut.length != tarIn0.length then .error .connectivity else
  locOut.mapM fun p =>
    match lookupL self.conn p with
    | none => .error .keyError
    | some q => match lookupL st.conn q with
      | none => .error .keyError
      | some p' => if p' != p then .error .notSymmetric else .ok (p, q)

def sem (s : St F) (p q : PinRef) : F :=
  match lookupL s.idx p, lookupL s.idx q with
  | some i, some j => s.S.get i j
  | _, _ => default

def hasIdx (s : St F) (l : List PinRef) : Bool := l.all fun p => (lookupL s.idx p).isSome

/-- the gather of `split_in_out` -/
def gather (s : St F) (rows cols : List PinRef) : Mat F :=
  let ra := rows.toArray; let ca := cols.toArray
  Mat.ofFn rows.length cols.length fun i j => s.sem ra[i]! ca[j]!

/-- split_in_out (KeyError when a pin has no index) -/
def split (s : St F) (inL outL : List PinRef) : Except Err (SMat F) :=
  if s.hasIdx inL && s.hasIdx outL then
    .ok { N := inL.length, M := outL.length
          S21 := s.gather inL inL, S22 := s.gather inL outL
          S11 := s.gather outL inL, S12 := s.gather outL outL }
  else .error .keyError

/-- get_S_back: [[S21,S22],[S11,S12]] -/
def assemble (C : SMat F) : Mat F :=
  Mat.ofFn (C.N + C.M) (C.N + C.M) fun i j =>
    if i < C.N then (if j < C.N then C.S21.get i j else C.S22.get i (j - C.N))
    else (if j < C.N then C.S11.get (i - C.N) j else C.S12.get (i - C.N) (j - C.N))

def membersOf (s : St F) : List Nat := if s.members.isEmpty then [s.id] else s.members

/-- the bookkeeping part of `join` once the matrix is known -/
def build (self st : St F) (newId : Nat) (C : SMat F) (addPins : List PinRef) : St F :=
  let members := membersOf self ++ membersOf st
  let connTo := (self.connTo ++ st.connTo).foldl (fun acc s =>
    if !acc.contains s && !members.contains s then acc ++ [s] else acc) []
  let merged := st.conn.foldl (fun acc kv =>
    if acc.any (·.1 == kv.1) then acc.map (fun e => if e.1 == kv.1 then kv else e) else acc ++ [kv]) self.conn
  let conn := merged.filter fun lt => !(members.contains lt.1.1 && members.contains lt.2.1)
  { id := newId, pins := addPins, idx := addPins.zipIdx, S := assemble C, conn := conn, connTo := connTo, members := members }

/-- Structure.join; `newId` plays the role of the fresh object -/
def join (self st : St F) (newId : Nat) : Except Err (St F) := do
  let links ← linkPins self st
  let locOut := links.map (·.1)
  let tarIn := links.map (·.2)
  let selfIn ← removeAll self.pins locOut         -- sel_output
  let stOut ← removeAll st.pins tarIn             -- sel_input
  let A ← self.split selfIn locOut
  let B ← st.split tarIn stOut
  let C ← A.add? B
  let addPins ← removeAll (self.pins ++ st.pins) (locOut ++ tarIn)
  return build self st newId C addPins

end St
