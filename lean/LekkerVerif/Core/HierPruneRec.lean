import LekkerVerif.Core.HierPruneSpec

/-! # the criterion `Solver.prune()` itself uses, and why it is safe (C19, any depth)

`Solver.prune()` (sol.py) does not look at what a sub-solver exposes: it removes a component whose model has no pins
(`Model.is_empty`) and a sub-solver whose own `prune()` returned `True`, that is one **all** of whose children went, all the
way down.  `HNet.emptyRec` (Core/HierPrune.lean, core Lean only, so the driver runs it) is that return value on the executable hierarchy.  Core/HierPrune.lean drops the children that
present no pin name to the level (`HNet.isDead`).  This file relates the two, for every well-formed hierarchy of any depth
and branching:

* `HNet.emptyRec_isDead` — what the code removes presents no pin to its parent (so no link can end on it and no exposure can
  point at it: removing it is covered by `HNet.subLevel_behaves_of_closed`);
* `HNet.keepSet` — the positions the code keeps; `HNet.liveSet_sub_keepSet` — every live child is kept;
* `HNet.keepSet_closed` — no link of the level leaves the kept set;
* `HNet.keep_preserves` — the level the code keeps exposes the same names and returns the same coefficient between every two. -/

open NetD Solve

namespace HNet
variable {F : Type}

theorem emptyAll_iff (cs : List (HNet F)) : emptyAll cs = true ↔ ∀ h ∈ cs, emptyRec h = true := by
  induction cs with
  | nil => simp [emptyAll]
  | cons h t ih => simp [emptyAll, ih]

theorem mem_keepSet (cs : List (HNet F)) (i : Nat) : i ∈ keepSet cs ↔ ∃ h, cs[i]? = some h ∧ emptyRec h = false := by
  unfold keepSet
  rw [List.mem_filter, List.mem_range]
  constructor
  · rintro ⟨hi, hd⟩
    rw [List.getD_eq_getElem?_getD, List.getElem?_eq_getElem hi] at hd
    exact ⟨cs[i], List.getElem?_eq_getElem hi, by simpa using hd⟩
  · rintro ⟨h, hi, hd⟩
    obtain ⟨h1, _⟩ := List.getElem?_eq_some_iff.1 hi
    refine ⟨h1, ?_⟩
    rw [List.getD_eq_getElem?_getD, hi]
    simp [hd]

/-- **what the code removes presents no pin to its parent**, at any depth -/
theorem emptyRec_isDead {h : HNet F} (w : WFTree h) (he : emptyRec h = true) : isDead h = true := by
  induction w with
  | leaf c => simpa [emptyRec, isDead] using he
  | node cs links exposed _ lev ih =>
    have hall : ∀ h ∈ cs, emptyRec h = true := (emptyAll_iff cs).1 (by simpa [emptyRec] using he)
    show exposed.isEmpty = true
    rw [List.isEmpty_iff]
    cases hexp : exposed with
    | nil => rfl
    | cons e t =>
      exfalso
      have hmem : e ∈ exposed := by rw [hexp]; exact List.mem_cons_self
      obtain ⟨h0, hk, hd⟩ := (mem_liveSet cs e.2.1).1 (liveSet_exposed lev e hmem)
      have hin : h0 ∈ cs := List.mem_of_getElem? hk
      rw [ih h0 hin (hall h0 hin)] at hd
      cases hd

/-- every child that presents a pin is kept by the code -/
theorem liveSet_sub_keepSet {cs : List (HNet F)} (hch : ∀ h ∈ cs, WFTree h) (i : Nat) (hi : i ∈ liveSet cs) :
    i ∈ keepSet cs := by
  obtain ⟨h, hk, hd⟩ := (mem_liveSet cs i).1 hi
  refine (mem_keepSet cs i).2 ⟨h, hk, ?_⟩
  cases he : emptyRec h with
  | false => rfl
  | true =>
    rw [emptyRec_isDead (hch h (List.mem_of_getElem? hk)) he] at hd
    cases hd

/-- **no link leaves the kept set** -/
theorem keepSet_closed {cs : List (HNet F)} {links : List (PinRef × PinRef)} {exposed : List (String × PinRef)}
    (hch : ∀ h ∈ cs, WFTree h) (lev : LevelOK (cs.map pinNames) links exposed) (l : PinRef × PinRef) (hl : l ∈ links) :
    l.1.1 ∈ keepSet cs ↔ l.2.1 ∈ keepSet cs :=
  ⟨fun _ => liveSet_sub_keepSet hch _ (liveSet_links lev l hl).2,
   fun _ => liveSet_sub_keepSet hch _ (liveSet_links lev l hl).1⟩

section field
variable [Field F] [DecidableEq F]

/-- **the level the code keeps behaves as the level**: with the children `prune()` removes gone (all the way down they hold
nothing with a pin), the level exposes the same names and returns between every two of them the same coefficient -/
theorem keep_preserves (s s' : List (St F) → Option (Nat × Nat)) (cs : List (HNet F))
    (links : List (PinRef × PinRef)) (exposed : List (String × PinRef)) (w : WFTree (.node cs links exposed))
    (c c' : CompD F) (hs : solveH s (.node cs links exposed) = .ok c)
    (hs' : solveH s' (subLevel cs links exposed (keepSet cs)) = .ok c') :
    c'.pins = c.pins ∧ ∀ x ∈ c.pins, ∀ y ∈ c.pins, c'.sem x y = c.sem x y := by
  have hch : ∀ h ∈ cs, WFTree h := by
    cases w with
    | node _ _ _ hch _ => exact hch
  have lev : LevelOK (cs.map pinNames) links exposed := by
    cases w with
    | node _ _ _ _ lev => exact lev
  have hb := subLevel_behaves_of_closed s s' cs links exposed w c hs (keepSet cs)
    (fun l hl _ _ => keepSet_closed hch lev l hl) c' hs'
  have hpins : c'.pins = c.pins := by
    rw [solveH_pins s' _ c' hs', solveH_pins s _ c hs, pinNames_subLevel]
    show _ = exposed.map (·.1)
    congr 1
    rw [List.filter_eq_self]
    intro e he
    exact List.contains_iff_mem.2 (liveSet_sub_keepSet hch _ (liveSet_exposed lev e he))
  refine ⟨hpins, ?_⟩
  intro x hx y hy
  exact hb.2 x (hpins ▸ hx) y (hpins ▸ hy)

end field

/-! Sanity check: a sub-solver that exposes nothing but still holds a component with pins is dead for its parent and yet
not empty for the code (it stays); a sub-solver of pin-less components is both. -/

example (a d : CompD F) (ha : a.pins = ["a", "b"]) (hd : d.pins = []) :
    isDead (.node [.leaf a] [] [] : HNet F) = true ∧ emptyRec (.node [.leaf a] [] [] : HNet F) = false ∧
    emptyRec (.node [.leaf d, .node [.leaf d] [] []] [] [] : HNet F) = true := by
  simp [isDead, emptyRec, emptyAll, ha, hd]

/-- non-vacuity: on the well-formed level of the sanity check of `Core/HierPruneSpec.lean` (two chained two-ports, a sub-solver
that exposes nothing but holds a component, a component without pins) the code keeps the sub-solver too (`keepSet` = 0, 1, 2)
while only 0 and 2 present pins (`liveSet`) -/
example (a c d : CompD F) (ha : a.pins = ["a", "b"]) (hc : c.pins = ["a", "b"]) (hd : d.pins = []) :
    keepSet [.leaf a, .node [.leaf a] [] [], .leaf c, .leaf d] = [0, 1, 2] ∧
    liveSet [.leaf a, .node [.leaf a] [] [], .leaf c, .leaf d] = [0, 2] := by
  simp [keepSet, liveSet, isDead, emptyRec, emptyAll, ha, hc, hd, List.range, List.range.loop]

end HNet
