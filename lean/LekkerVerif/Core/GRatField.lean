import LekkerVerif.Core.Basic
import Mathlib.Algebra.Field.Defs
import Mathlib.Algebra.Order.Field.Rat
import Mathlib.Tactic.Ring
import Mathlib.Tactic.FieldSimp
import Mathlib.Tactic.Positivity
import Mathlib.Tactic.Linarith

namespace GRat

@[ext] theorem ext' {a b : GRat} (h1 : a.re = b.re) (h2 : a.im = b.im) : a = b := by
  cases a; cases b; simp_all

@[simp] theorem add_re (a b : GRat) : (a + b).re = a.re + b.re := rfl
@[simp] theorem add_im (a b : GRat) : (a + b).im = a.im + b.im := rfl
@[simp] theorem mul_re (a b : GRat) : (a * b).re = a.re * b.re - a.im * b.im := rfl
@[simp] theorem mul_im (a b : GRat) : (a * b).im = a.re * b.im + a.im * b.re := rfl
@[simp] theorem neg_re (a : GRat) : (-a).re = -a.re := rfl
@[simp] theorem neg_im (a : GRat) : (-a).im = -a.im := rfl
@[simp] theorem sub_re (a b : GRat) : (a - b).re = a.re - b.re := rfl
@[simp] theorem sub_im (a b : GRat) : (a - b).im = a.im - b.im := rfl
@[simp] theorem zero_re : (0 : GRat).re = 0 := rfl
@[simp] theorem zero_im : (0 : GRat).im = 0 := rfl
@[simp] theorem one_re : (1 : GRat).re = 1 := rfl
@[simp] theorem one_im : (1 : GRat).im = 0 := rfl
@[simp] theorem inv_re (a : GRat) : (a⁻¹).re = a.re / (a.re * a.re + a.im * a.im) := rfl
@[simp] theorem inv_im (a : GRat) : (a⁻¹).im = -a.im / (a.re * a.re + a.im * a.im) := rfl

theorem normSq_pos {a : GRat} (h : a ≠ 0) : 0 < a.re * a.re + a.im * a.im := by
  have : a.re ≠ 0 ∨ a.im ≠ 0 := by
    by_contra hc
    push Not at hc
    exact h (ext' hc.1 hc.2)
  rcases this with h1 | h1
  · have := mul_self_pos.2 h1; nlinarith [mul_self_nonneg a.im]
  · have := mul_self_pos.2 h1; nlinarith [mul_self_nonneg a.re]

instance : Field GRat where
  add_assoc a b c := by ext <;> simp <;> ring
  zero_add a := by ext <;> simp
  add_zero a := by ext <;> simp
  add_comm a b := by ext <;> simp <;> ring
  neg_add_cancel a := by ext <;> simp
  sub_eq_add_neg a b := by ext <;> simp <;> ring
  mul_assoc a b c := by ext <;> simp <;> ring
  one_mul a := by ext <;> simp
  mul_one a := by ext <;> simp
  left_distrib a b c := by ext <;> simp <;> ring
  right_distrib a b c := by ext <;> simp <;> ring
  zero_mul a := by ext <;> simp
  mul_zero a := by ext <;> simp
  mul_comm a b := by ext <;> simp <;> ring
  exists_pair_ne := ⟨0, 1, by intro h; have := congrArg GRat.re h; simp at this⟩
  mul_inv_cancel a h := by
    have hne : a.re * a.re + a.im * a.im ≠ 0 := ne_of_gt (normSq_pos h)
    ext
    · simp only [mul_re, inv_re, inv_im, one_re]
      rw [mul_div_assoc', mul_div_assoc', ← sub_div, div_eq_one_iff_eq hne]
      ring
    · simp only [mul_im, inv_re, inv_im, one_im]; field_simp; ring
  inv_zero := by ext <;> simp
  nsmul := nsmulRec
  zsmul := zsmulRec
  nnqsmul := _
  qsmul := _
  nnqsmul_def := fun _ _ => rfl
  qsmul_def := fun _ _ => rfl
end GRat
