import LekkerVerif.Core.ModesNet

/-! A circuit assembled from mode-expanded blocks wired mode by mode, for an arbitrary (duplicate-free) list of modes,
is a bundle of independent copies of the single-mode circuit (C13, network level, any number of modes).

Generalises `expanded2_sol` / `expanded2_independent` of `ModesNet.lean` from two modes to a list `ms : List M` with
`ms.Nodup`.  All statements are as requested; no deviation was necessary. -/

variable {F : Type*} [Field F]
variable {P : Type*} [DecidableEq P] {M : Type*} [DecidableEq M]

set_option linter.unusedSectionVars false

namespace ANet

/-! ### generalities -/

theorem union_pinSet (N₁ N₂ : ANet P F) (x : P) : (union N₁ N₂).pinSet x ↔ (N₁.pinSet x ∨ N₂.pinSet x) := by
  unfold pinSet union
  constructor
  · rintro ⟨pt, hpt, hx⟩
    rcases List.mem_append.1 hpt with h | h
    · exact Or.inl ⟨pt, h, hx⟩
    · exact Or.inr ⟨pt, h, hx⟩
  · rintro (⟨pt, h, hx⟩ | ⟨pt, h, hx⟩)
    · exact ⟨pt, List.mem_append_left _ h, hx⟩
    · exact ⟨pt, List.mem_append_right _ h, hx⟩

theorem union_closed (N₁ N₂ : ANet P F) (c₁ : N₁.Closed) (c₂ : N₂.Closed) : (union N₁ N₂).Closed := by
  constructor
  · intro l hl
    rcases List.mem_append.1 hl with hl | hl
    · exact ⟨(union_pinSet N₁ N₂ _).2 (Or.inl (c₁.links l hl).1), (union_pinSet N₁ N₂ _).2 (Or.inl (c₁.links l hl).2)⟩
    · exact ⟨(union_pinSet N₁ N₂ _).2 (Or.inr (c₂.links l hl).1), (union_pinSet N₁ N₂ _).2 (Or.inr (c₂.links l hl).2)⟩
  · intro e he
    rcases List.mem_append.1 he with he | he
    · exact (union_pinSet N₁ N₂ _).2 (Or.inl (c₁.exposed e he))
    · exact (union_pinSet N₁ N₂ _).2 (Or.inr (c₂.exposed e he))

theorem atMode_closed (N : ANet P F) (cl : N.Closed) (m : M) : (N.atMode m).Closed := by
  constructor
  · intro l' hl'
    obtain ⟨l, hl, rfl⟩ := List.mem_map.1 hl'
    exact ⟨(atMode_pinSet N m _).2 ⟨rfl, (cl.links l hl).1⟩, (atMode_pinSet N m _).2 ⟨rfl, (cl.links l hl).2⟩⟩
  · intro e' he'
    obtain ⟨e, he, rfl⟩ := List.mem_map.1 he'
    exact (atMode_pinSet N m _).2 ⟨rfl, cl.exposed e he⟩

/-- the solution operator only matters on the exposed pins -/
theorem solvedBy_congr (N : ANet P F) (T T' : P → P → F)
    (h : ∀ x ∈ N.exposed, ∀ y ∈ N.exposed, T x y = T' x y) (hs : N.SolvedBy T) : N.SolvedBy T' := by
  refine ⟨?_, hs.2⟩
  intro a b hab e he
  rw [hs.1 a b hab e he]
  exact rowSum_congrS _ _ _ _ _ (fun q hq => h e he q hq)

theorem mem_map_pair (l : List P) (m : M) (x : P × M) : (x ∈ l.map fun p => (p, m)) ↔ (x.2 = m ∧ x.1 ∈ l) := by
  constructor
  · intro hx
    obtain ⟨p, hp, rfl⟩ := List.mem_map.1 hx
    exact ⟨rfl, hp⟩
  · rintro ⟨hm, hp⟩
    refine List.mem_map.2 ⟨x.1, hp, ?_⟩
    rw [← hm]

/-! ### the bundle: the single-mode circuit carried by every mode of a list -/

/-- the single-mode circuit carried by every mode of the list, side by side -/
def bundle (N : ANet P F) : List M → ANet (P × M) F
  | [] => ⟨[], [], []⟩
  | m :: ms => union (N.atMode m) (bundle N ms)

theorem bundle_nil (N : ANet P F) : bundle N ([] : List M) = ⟨[], [], []⟩ := rfl

theorem bundle_cons (N : ANet P F) (m : M) (ms : List M) : bundle N (m :: ms) = union (N.atMode m) (bundle N ms) := rfl

/-- block-diagonal operator: the single-mode coefficient between like modes, zero between different modes -/
def diagOp (T : P → P → F) (x y : P × M) : F := if x.2 = y.2 then T x.1 y.1 else 0

/-- the circuit the code builds from mode-expanded blocks: every block is *one* part on the pins of all modes with the
block-diagonal matrix of `expand_mode`, and `connect_all` links like modes -/
def expandedL (N : ANet P F) (ms : List M) : ANet (P × M) F :=
  { parts := N.parts.map fun pt => (ms.flatMap (fun m => pt.1.map fun p => (p, m)),
                                     fun x y => if x.2 = y.2 then pt.2 x.1 y.1 else 0),
    links := (bundle N ms).links,
    exposed := (bundle N ms).exposed }

theorem bundle_pinSet (N : ANet P F) (ms : List M) (x : P × M) :
    (bundle N ms).pinSet x ↔ (x.2 ∈ ms ∧ N.pinSet x.1) := by
  induction ms with
  | nil =>
    constructor
    · rintro ⟨pt, hpt, _⟩
      have hpt' : pt ∈ ([] : List (List (P × M) × (P × M → P × M → F))) := hpt
      cases hpt'
    · rintro ⟨h, _⟩
      cases h
  | cons m ms ih =>
    rw [bundle_cons, union_pinSet, atMode_pinSet, ih, List.mem_cons]
    constructor
    · rintro (⟨h1, h2⟩ | ⟨h1, h2⟩)
      · exact ⟨Or.inl h1, h2⟩
      · exact ⟨Or.inr h1, h2⟩
    · rintro ⟨h1 | h1, h2⟩
      · exact Or.inl ⟨h1, h2⟩
      · exact Or.inr ⟨h1, h2⟩

theorem mem_bundle_exposed (N : ANet P F) (ms : List M) (e : P × M) :
    e ∈ (bundle N ms).exposed ↔ (e.2 ∈ ms ∧ e.1 ∈ N.exposed) := by
  induction ms with
  | nil =>
    constructor
    · intro h
      have h' : e ∈ ([] : List (P × M)) := h
      cases h'
    · rintro ⟨h, _⟩
      cases h
  | cons m ms ih =>
    show e ∈ (N.atMode m).exposed ++ (bundle N ms).exposed ↔ _
    rw [List.mem_append, ih, List.mem_cons]
    show (e ∈ N.exposed.map fun p => (p, m)) ∨ _ ↔ _
    rw [mem_map_pair]
    constructor
    · rintro (⟨h1, h2⟩ | ⟨h1, h2⟩)
      · exact ⟨Or.inl h1, h2⟩
      · exact ⟨Or.inr h1, h2⟩
    · rintro ⟨h1 | h1, h2⟩
      · exact Or.inl ⟨h1, h2⟩
      · exact Or.inr ⟨h1, h2⟩

theorem mem_bundle_links (N : ANet P F) (ms : List M) (l : (P × M) × (P × M)) :
    l ∈ (bundle N ms).links ↔ ∃ m ∈ ms, ∃ l0 ∈ N.links, l = ((l0.1, m), (l0.2, m)) := by
  induction ms with
  | nil =>
    constructor
    · intro h
      have h' : l ∈ ([] : List ((P × M) × (P × M))) := h
      cases h'
    · rintro ⟨m, hm, _⟩
      cases hm
  | cons m ms ih =>
    show l ∈ (N.atMode m).links ++ (bundle N ms).links ↔ _
    rw [List.mem_append, ih]
    constructor
    · rintro (h | ⟨m', hm', l0, hl0, e⟩)
      · obtain ⟨l0, hl0, e⟩ := List.mem_map.1 h
        exact ⟨m, List.mem_cons.2 (Or.inl rfl), l0, hl0, e.symm⟩
      · exact ⟨m', List.mem_cons.2 (Or.inr hm'), l0, hl0, e⟩
    · rintro ⟨m', hm', l0, hl0, e⟩
      rcases List.mem_cons.1 hm' with hm' | hm'
      · left
        rw [← hm']
        exact List.mem_map.2 ⟨l0, hl0, e.symm⟩
      · exact Or.inr ⟨m', hm', l0, hl0, e⟩

theorem mem_bundle_parts (N : ANet P F) (ms : List M) (part : List (P × M) × (P × M → P × M → F)) :
    part ∈ (bundle N ms).parts ↔
      ∃ m ∈ ms, ∃ pt ∈ N.parts, part = (pt.1.map fun p => (p, m), fun x y => pt.2 x.1 y.1) := by
  induction ms with
  | nil =>
    constructor
    · intro h
      have h' : part ∈ ([] : List (List (P × M) × (P × M → P × M → F))) := h
      cases h'
    · rintro ⟨m, hm, _⟩
      cases hm
  | cons m ms ih =>
    show part ∈ (N.atMode m).parts ++ (bundle N ms).parts ↔ _
    rw [List.mem_append, ih]
    constructor
    · rintro (h | ⟨m', hm', pt, hpt, e⟩)
      · obtain ⟨pt, hpt, e⟩ := List.mem_map.1 h
        exact ⟨m, List.mem_cons.2 (Or.inl rfl), pt, hpt, e.symm⟩
      · exact ⟨m', List.mem_cons.2 (Or.inr hm'), pt, hpt, e⟩
    · rintro ⟨m', hm', pt, hpt, e⟩
      rcases List.mem_cons.1 hm' with hm' | hm'
      · left
        rw [← hm']
        exact List.mem_map.2 ⟨pt, hpt, e.symm⟩
      · exact Or.inr ⟨m', hm', pt, hpt, e⟩

theorem bundle_closed (N : ANet P F) (cl : N.Closed) (ms : List M) : (bundle N ms).Closed := by
  induction ms with
  | nil =>
    constructor
    · intro l hl
      have h' : l ∈ ([] : List ((P × M) × (P × M))) := hl
      cases h'
    · intro e he
      have h' : e ∈ ([] : List (P × M)) := he
      cases h'
  | cons m ms ih =>
    rw [bundle_cons]
    exact union_closed _ _ (atMode_closed N cl m) ih

theorem bundle_apart (N : ANet P F) (cl : N.Closed) (m : M) (ms : List M) (hm : m ∉ ms) :
    Apart (N.atMode m) (bundle N ms) := by
  have c₁ := atMode_closed N cl m
  have c₂ := bundle_closed N cl ms
  refine ⟨?_, c₁.links, c₂.links, c₁.exposed, c₂.exposed⟩
  intro x h1 h2
  have e1 := ((atMode_pinSet N m x).1 h1).1
  have e2 := ((bundle_pinSet N ms x).1 h2).1
  rw [e1] at e2
  exact hm e2

theorem bundle_exposed_nodup (N : ANet P F) (hn : N.exposed.Nodup) (ms : List M) (hms : ms.Nodup) :
    (bundle N ms).exposed.Nodup := by
  induction ms with
  | nil => exact List.nodup_nil
  | cons m ms ih =>
    obtain ⟨hm, hms'⟩ := List.nodup_cons.1 hms
    show ((N.atMode m).exposed ++ (bundle N ms).exposed).Nodup
    refine List.nodup_append.2 ⟨nodup_map_pair N.exposed m hn, ih hms', ?_⟩
    intro x hx y hy e
    obtain ⟨p, _, rfl⟩ := List.mem_map.1 hx
    have h2 := ((mem_bundle_exposed N ms y).1 hy).1
    rw [← e] at h2
    exact hm h2

/-- on pins of the network, "own operator on the first mode, block-diagonal on the others, zero across" is the
block-diagonal operator -/
theorem sumOp_atMode_diag (N : ANet P F) (m : M) (T : P → P → F) [∀ p, Decidable ((N.atMode m).pinSet p)]
    (x y : P × M) (hx : N.pinSet x.1) (hy : N.pinSet y.1) :
    sumOp (N.atMode m) (fun x y => T x.1 y.1) (diagOp T) x y = diagOp T x y := by
  have ex : (N.atMode m).pinSet x ↔ x.2 = m := by
    rw [atMode_pinSet]; exact ⟨fun h => h.1, fun h => ⟨h, hx⟩⟩
  have ey : (N.atMode m).pinSet y ↔ y.2 = m := by
    rw [atMode_pinSet]; exact ⟨fun h => h.1, fun h => ⟨h, hy⟩⟩
  unfold sumOp
  by_cases h1 : x.2 = m
  · by_cases h2 : y.2 = m
    · rw [if_pos (ex.2 h1), if_pos (ey.2 h2)]
      unfold diagOp
      rw [if_pos (h1.trans h2.symm)]
    · rw [if_pos (ex.2 h1), if_neg (fun h => h2 (ey.1 h))]
      unfold diagOp
      rw [if_neg (fun e => h2 (e.symm.trans h1))]
  · by_cases h2 : y.2 = m
    · rw [if_neg (fun h => h1 (ex.1 h)), if_pos (ey.2 h2)]
      unfold diagOp
      rw [if_neg (fun e => h1 (e.trans h2))]
    · rw [if_neg (fun h => h1 (ex.1 h)), if_neg (fun h => h2 (ey.1 h))]

/-- **the bundle is solved by the block-diagonal operator** -/
theorem bundle_solvedBy (N : ANet P F) (cl : N.Closed) (T : P → P → F) (h : N.SolvedBy T) (ms : List M)
    (hms : ms.Nodup) : (bundle N ms).SolvedBy (diagOp T) := by
  classical
  induction ms with
  | nil =>
    constructor
    · intro a b _ e he
      have h' : e ∈ ([] : List (P × M)) := he
      cases h'
    · intro v
      refine ⟨fun _ => 0, fun _ => 0, ⟨?_, ?_, ?_⟩, ?_⟩
      · intro part hpart
        have h' : part ∈ ([] : List (List (P × M) × (P × M → P × M → F))) := hpart
        cases h'
      · intro l hl
        have h' : l ∈ ([] : List ((P × M) × (P × M))) := hl
        cases h'
      · intro part hpart
        have h' : part ∈ ([] : List (List (P × M) × (P × M → P × M → F))) := hpart
        cases h'
      · intro e he
        have h' : e ∈ ([] : List (P × M)) := he
        cases h'
  | cons m ms ih =>
    obtain ⟨hm, hms'⟩ := List.nodup_cons.1 hms
    have ap := bundle_apart N cl m ms hm
    have hu := union_solvedBy ap (fun x y => T x.1 y.1) (diagOp T) (atMode_solvedBy N m T h) (ih hms')
    rw [bundle_cons]
    refine solvedBy_congr _ _ _ ?_ hu
    have clb := bundle_closed N cl (m :: ms)
    intro x hx y hy
    exact sumOp_atMode_diag N m T x y ((bundle_pinSet N (m :: ms) x).1 (clb.exposed x hx)).2
      ((bundle_pinSet N (m :: ms) y).1 (clb.exposed y hy)).2

/-! ### the circuit built from mode-expanded blocks -/

theorem rowSum_diag_flatMap_zero (pins : List P) (S : P → P → F) (ms : List M) (m : M) (hm : m ∉ ms)
    (a : P × M → F) (p : P) :
    rowSum (ms.flatMap fun m' => pins.map fun q => (q, m')) (fun x y => if x.2 = y.2 then S x.1 y.1 else 0) a (p, m)
      = 0 := by
  apply rowSum_zero
  intro q hq
  obtain ⟨m', hm', hq'⟩ := List.mem_flatMap.1 hq
  obtain ⟨q0, _, rfl⟩ := List.mem_map.1 hq'
  have hne : m ≠ m' := fun e => hm (e ▸ hm')
  simp [hne]

/-- a row of a block-diagonal part only sees the pins of its own mode -/
theorem rowSum_diag_flatMap (pins : List P) (S : P → P → F) (ms : List M) (hms : ms.Nodup) (m : M) (hm : m ∈ ms)
    (a : P × M → F) (p : P) :
    rowSum (ms.flatMap fun m' => pins.map fun q => (q, m')) (fun x y => if x.2 = y.2 then S x.1 y.1 else 0) a (p, m)
      = rowSum (pins.map fun q => (q, m)) (fun x y => S x.1 y.1) a (p, m) := by
  induction ms with
  | nil => cases hm
  | cons m' ms ih =>
    obtain ⟨hm', hms'⟩ := List.nodup_cons.1 hms
    rw [List.flatMap_cons, rowSum_append]
    by_cases e : m = m'
    · rw [← e] at hm' ⊢
      rw [rowSum_diag_same, rowSum_diag_flatMap_zero pins S ms m hm', add_zero]
    · have hin : m ∈ ms := by
        rcases List.mem_cons.1 hm with h | h
        · exact absurd h e
        · exact h
      rw [rowSum_diag_other pins S m m' e, ih hms' hin, zero_add]

/-- the block-diagonal parts are the per-mode parts: same solutions -/
theorem expandedL_sol (N : ANet P F) (ms : List M) (hms : ms.Nodup) (a b : P × M → F) :
    (N.expandedL ms).Sol a b ↔ (bundle N ms).Sol a b := by
  constructor
  · intro h
    refine ⟨?_, h.link, ?_⟩
    · intro part hpart x hx
      obtain ⟨m, hm, pt, hpt, rfl⟩ := (mem_bundle_parts N ms part).1 hpart
      obtain ⟨p, hp, rfl⟩ := List.mem_map.1 hx
      have := h.comp _ (List.mem_map.2 ⟨pt, hpt, rfl⟩) (p, m)
        (List.mem_flatMap.2 ⟨m, hm, List.mem_map.2 ⟨p, hp, rfl⟩⟩)
      rw [rowSum_diag_flatMap _ _ ms hms m hm] at this
      exact this
    · intro part hpart x hx hfree hne
      obtain ⟨m, hm, pt, hpt, rfl⟩ := (mem_bundle_parts N ms part).1 hpart
      exact h.free _ (List.mem_map.2 ⟨pt, hpt, rfl⟩) x (List.mem_flatMap.2 ⟨m, hm, hx⟩) hfree hne
  · intro h
    refine ⟨?_, h.link, ?_⟩
    · intro part hpart x hx
      obtain ⟨pt, hpt, rfl⟩ := List.mem_map.1 hpart
      obtain ⟨m, hm, hx'⟩ := List.mem_flatMap.1 hx
      obtain ⟨p, hp, rfl⟩ := List.mem_map.1 hx'
      have := h.comp _ ((mem_bundle_parts N ms _).2 ⟨m, hm, pt, hpt, rfl⟩) (p, m) (List.mem_map.2 ⟨p, hp, rfl⟩)
      show b (p, m) = _
      rw [rowSum_diag_flatMap _ _ ms hms m hm]
      exact this
    · intro part hpart x hx hfree hne
      obtain ⟨pt, hpt, rfl⟩ := List.mem_map.1 hpart
      obtain ⟨m, hm, hx'⟩ := List.mem_flatMap.1 hx
      exact h.free _ ((mem_bundle_parts N ms _).2 ⟨m, hm, pt, hpt, rfl⟩) x hx' hfree hne

theorem expandedL_pinSet (N : ANet P F) (ms : List M) (x : P × M) :
    (N.expandedL ms).pinSet x ↔ (bundle N ms).pinSet x := by
  rw [bundle_pinSet]
  constructor
  · rintro ⟨part, hpart, hx⟩
    obtain ⟨pt, hpt, rfl⟩ := List.mem_map.1 hpart
    obtain ⟨m, hm, hx'⟩ := List.mem_flatMap.1 hx
    obtain ⟨hxm, hxp⟩ := (mem_map_pair pt.1 m x).1 hx'
    exact ⟨hxm ▸ hm, pt, hpt, hxp⟩
  · rintro ⟨hm, pt, hpt, hxp⟩
    exact ⟨_, List.mem_map.2 ⟨pt, hpt, rfl⟩,
      List.mem_flatMap.2 ⟨x.2, hm, (mem_map_pair pt.1 x.2 x).2 ⟨rfl, hxp⟩⟩⟩

theorem expandedL_lnk (N : ANet P F) (ms : List M) (x y : P × M) :
    (N.expandedL ms).Lnk x y ↔ (bundle N ms).Lnk x y := Iff.rfl

theorem expandedL_exposed (N : ANet P F) (ms : List M) : (N.expandedL ms).exposed = (bundle N ms).exposed := rfl

theorem expandedL_links (N : ANet P F) (ms : List M) : (N.expandedL ms).links = (bundle N ms).links := rfl

/-- **the circuit assembled from mode-expanded blocks is solved by the block-diagonal operator** -/
theorem expandedL_solved (N : ANet P F) (cl : N.Closed) (T : P → P → F) (h : N.SolvedBy T) (ms : List M)
    (hms : ms.Nodup) : (N.expandedL ms).SolvedBy (diagOp T) := by
  have hb := bundle_solvedBy N cl T h ms hms
  constructor
  · intro a b hs e he
    exact hb.1 a b ((expandedL_sol N ms hms a b).1 hs) e he
  · intro v
    obtain ⟨a, b, hs, hv⟩ := hb.2 v
    exact ⟨a, b, (expandedL_sol N ms hms a b).2 hs, hv⟩

/-- **a circuit assembled from mode-expanded blocks behaves as independent copies of the single-mode circuit**, for any
number of modes: any operator that solves the multi-mode circuit built from block-diagonal parts has the single-mode
coefficient between like modes and zero between different modes -/
theorem expandedL_independent (N : ANet P F) (cl : N.Closed) (hn : N.exposed.Nodup) (T : P → P → F)
    (h : N.SolvedBy T) (ms : List M) (hms : ms.Nodup) (Tm : P × M → P × M → F)
    (hT : (N.expandedL ms).SolvedBy Tm) :
    ∀ m ∈ ms, ∀ m' ∈ ms, ∀ p ∈ N.exposed, ∀ q ∈ N.exposed,
      Tm (p, m) (q, m') = if m = m' then T p q else 0 := by
  intro m hm m' hm' p hp q hq
  have hnod : (N.expandedL ms).exposed.Nodup := bundle_exposed_nodup N hn ms hms
  have e1 : (p, m) ∈ (N.expandedL ms).exposed := (mem_bundle_exposed N ms (p, m)).2 ⟨hm, hp⟩
  have e2 : (q, m') ∈ (N.expandedL ms).exposed := (mem_bundle_exposed N ms (q, m')).2 ⟨hm', hq⟩
  rw [solvedBy_unique (N.expandedL ms) hnod Tm (diagOp T) hT (expandedL_solved N cl T h ms hms) _ e1 _ e2]
  rfl

/-- the same statement for the bundle itself -/
theorem bundle_independent (N : ANet P F) (cl : N.Closed) (hn : N.exposed.Nodup) (T : P → P → F)
    (h : N.SolvedBy T) (ms : List M) (hms : ms.Nodup) (Tm : P × M → P × M → F)
    (hT : (bundle N ms).SolvedBy Tm) :
    ∀ m ∈ ms, ∀ m' ∈ ms, ∀ p ∈ N.exposed, ∀ q ∈ N.exposed,
      Tm (p, m) (q, m') = if m = m' then T p q else 0 := by
  intro m hm m' hm' p hp q hq
  have hnod := bundle_exposed_nodup N hn ms hms
  have e1 : (p, m) ∈ (bundle N ms).exposed := (mem_bundle_exposed N ms (p, m)).2 ⟨hm, hp⟩
  have e2 : (q, m') ∈ (bundle N ms).exposed := (mem_bundle_exposed N ms (q, m')).2 ⟨hm', hq⟩
  rw [solvedBy_unique (bundle N ms) hnod Tm (diagOp T) hT (bundle_solvedBy N cl T h ms hms) _ e1 _ e2]
  rfl

/-! ### non-vacuity: a one-pin reflector carried by three modes -/

/-- a single one-pin part with reflection `r`, its pin exposed -/
def reflector (r : F) : ANet Unit F := ⟨[([()], fun _ _ => r)], [], [()]⟩

theorem reflector_closed (r : F) : (reflector r).Closed := by
  constructor
  · intro l hl
    have h' : l ∈ ([] : List (Unit × Unit)) := hl
    cases h'
  · intro e _
    exact ⟨([()], fun _ _ => r), List.mem_cons.2 (Or.inl rfl), List.mem_cons.2 (Or.inl rfl)⟩

theorem reflector_solvedBy (r : F) : (reflector r).SolvedBy (fun _ _ => r) := by
  constructor
  · intro a b hs e he
    exact hs.comp ([()], fun _ _ => r) (List.mem_cons.2 (Or.inl rfl)) e he
  · intro v
    refine ⟨v, fun _ => r * v (), ⟨?_, ?_, ?_⟩, fun _ _ => rfl⟩
    · intro part hpart p _
      have hp : part = ([()], fun _ _ => r) := by
        rcases List.mem_cons.1 hpart with h | h
        · exact h
        · cases h
      subst hp
      show r * v () = rowSum [()] (fun _ _ => r) v p
      simp [rowSum]
    · intro l hl
      have h' : l ∈ ([] : List (Unit × Unit)) := hl
      cases h'
    · intro part _ p _ _ hne
      exact absurd (List.mem_cons.2 (Or.inl rfl) : p ∈ (reflector r).exposed) hne

/-- the hypotheses of the main theorems are satisfiable, with three modes -/
example (r : F) :
    ((reflector r).expandedL [(0 : Fin 3), 1, 2]).SolvedBy (diagOp fun _ _ => r) :=
  expandedL_solved (reflector r) (reflector_closed r) _ (reflector_solvedBy r) _ (by decide)

example (r : F) (Tm : Unit × Fin 3 → Unit × Fin 3 → F)
    (hT : ((reflector r).expandedL [(0 : Fin 3), 1, 2]).SolvedBy Tm) :
    Tm ((), 0) ((), 0) = r ∧ Tm ((), 0) ((), 2) = 0 := by
  have k := expandedL_independent (reflector r) (reflector_closed r) (by simp [reflector]) _
    (reflector_solvedBy r) [(0 : Fin 3), 1, 2] (by decide) Tm hT
  have m0 : (0 : Fin 3) ∈ [(0 : Fin 3), 1, 2] := by decide
  have m2 : (2 : Fin 3) ∈ [(0 : Fin 3), 1, 2] := by decide
  have u : () ∈ (reflector r).exposed := List.mem_cons.2 (Or.inl rfl)
  constructor
  · rw [k 0 m0 0 m0 () u () u]; simp
  · rw [k 0 m0 2 m2 () u () u]; simp

end ANet
