import LekkerVerif.Core.HierSolve
/-! Executable checkers for the well-formedness hypotheses of the theorems (core Lean only).

The theorems about the elimination and about hierarchies assume `NetD.WF`, `NetD.IdxWF`, `NetD.ExposureOK`, `HNet.WFTree`.  The
driver evaluates the Boolean versions below on every circuit it is asked to solve and reports them, so the evidence of a run states
on how many of the generated inputs the hypotheses of the theorems actually held.  `Core/WFCheckSpec.lean` proves each checker
sound (`… = true → …`). -/

namespace NetD
variable {F : Type}

/-- the pins of the component at position `k` -/
def pinsAt (net : NetD F) (k : Nat) : List String := match net.comps[k]? with
  | some c => c.pins
  | none => []

/-- `NetD.WF`: distinct pin names per component, every pin in at most one link, link ends exist, no self link -/
def wfB (net : NetD F) : Bool :=
  net.comps.all (fun c => decide c.pins.Nodup) &&
  decide (net.links.flatMap fun l => [l.1, l.2]).Nodup &&
  net.links.all (fun l => (net.pinsAt l.1.1).contains l.1.2 && (net.pinsAt l.2.1).contains l.2.2) &&
  net.links.all (fun l => l.1.1 != l.2.1)

/-- `NetD.IdxWF`: every pin name of every component has a matrix index -/
def idxB (net : NetD F) : Bool :=
  net.comps.all fun c => c.pins.all fun n => (lookupL c.idx n).isSome

/-- `NetD.ExposureOK`: exposed pins are distinct, exist, and are no end of a link -/
def exposureB (net : NetD F) : Bool :=
  decide (net.exposed.map (·.2)).Nodup &&
  net.exposed.all (fun e => (net.pinsAt e.2.1).contains e.2.2) &&
  net.exposed.all (fun e => net.links.all fun l => e.2 != l.1 && e.2 != l.2)

end NetD

namespace HNet
variable {F : Type}

/-- the pin names a sub-circuit presents to its parent -/
def pinNamesB : HNet F → List String
  | .leaf c => c.pins
  | .node _ _ exposed => exposed.map (·.1)

/-- one level (`HNet.LevelOK`) on the pin-name lists of the children -/
def levelOKB (pinss : List (List String)) (links : List (PinRef × PinRef)) (exposed : List (String × PinRef)) : Bool :=
  let pinsAt := fun (k : Nat) => (pinss[k]?).getD []
  let has := fun (p : PinRef) => (pinss[p.1]?).isSome && (pinsAt p.1).contains p.2
  pinss.all (fun ps => decide ps.Nodup) &&
  decide (links.flatMap fun l => [l.1, l.2]).Nodup &&
  links.all (fun l => has l.1 && has l.2) &&
  links.all (fun l => l.1.1 != l.2.1) &&
  decide (exposed.map (·.2)).Nodup &&
  exposed.all (fun e => has e.2) &&
  exposed.all (fun e => links.all fun l => e.2 != l.1 && e.2 != l.2) &&
  decide (exposed.map (·.1)).Nodup

mutual
/-- `HNet.WFTree`: every level of the hierarchy is well formed (syntactic: independent of the matrices) -/
def wfTreeB : HNet F → Bool
  | .leaf _ => true
  | .node cs links exposed => wfTreeAllB cs && levelOKB (cs.map pinNamesB) links exposed
def wfTreeAllB : List (HNet F) → Bool
  | [] => true
  | h :: t => wfTreeB h && wfTreeAllB t
end

end HNet
