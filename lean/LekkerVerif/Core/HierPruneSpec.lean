import LekkerVerif.Core.HierPrune
import LekkerVerif.Core.HierSplitSpec

/-! # `prune()` does not change what the level solves to (C19, the matrix side, one level)

`HNet.pruneLevel` (Core/HierPrune.lean) drops the children of a level that present no pin to it.  Over every field, every
merge schedule, every well-formed level (`HNet.WFTree`), whatever the children are:

* `HNet.subLevel_behaves_of_closed` — the result of Core/HierSplitSpec.lean for *any* set of positions that no link
  leaves (not only the sets of the union loop): the sub-solver of the set exposes names of the level and returns between
  every two of them the coefficient the level returns;
* `HNet.liveSet_closed`, `HNet.liveSet_exposed` — no link ends on a dead child, no exposure points at one;
* `HNet.prune_preserves` — the pruned level returns the same pins and the same coefficient between every two of them;
* `HNet.WFTree.pruneLevel` — the pruned level is well formed;
* `HNet.pruneLevel_node` — the children of the pruned level are the children that are not dead, in order;
* `HNet.subLevel_full`, `HNet.pruneLevel_idem` — the sub-solver of a set that holds every position is the level itself;
  pruning again changes nothing. -/

open NetD Solve

namespace HNet

/-! ### any set of positions no link leaves -/
section closedSets
variable {F : Type} [Field F] [DecidableEq F]

omit [Field F] [DecidableEq F] in
/-- the facts the cut of the flattened level needs, for a set of positions closed under the links of the level -/
theorem ctx_of_closed {cs : List (HNet F)} {links : List (PinRef × PinRef)} {exposed : List (String × PinRef)}
    (lev : LevelOK (cs.map pinNames) links exposed) (g : List Nat)
    (hclosed : ∀ l ∈ links, l.1.1 < cs.length → l.2.1 < cs.length → (l.1.1 ∈ g ↔ l.2.1 ∈ g)) :
    Ctx cs links exposed g (positions cs.length g) := by
  have hc : ∀ i, i < cs.length → (positions cs.length g).contains i = g.contains i := by
    intro i hi
    rw [Bool.eq_iff_iff, List.contains_iff_mem, List.contains_iff_mem, mem_positions]
    exact ⟨fun h => h.2, fun h => ⟨hi, h⟩⟩
  have hend : ∀ l ∈ links, l.1.1 < cs.length ∧ l.2.1 < cs.length := by
    intro l hl
    obtain ⟨p1, h1, _⟩ := lev.endsPins l hl l.1 (Or.inl rfl)
    obtain ⟨p2, h2, _⟩ := lev.endsPins l hl l.2 (Or.inr rfl)
    exact ⟨lt_of_pinNames_get h1, lt_of_pinNames_get h2⟩
  have hcl : ∀ l ∈ links, g.contains l.1.1 = g.contains l.2.1 := by
    intro l hl
    rw [Bool.eq_iff_iff, List.contains_iff_mem, List.contains_iff_mem]
    exact hclosed l hl (hend l hl).1 (hend l hl).2
  refine ⟨positions_nodup _ _, fun i hi => ((mem_positions _ _ _).1 hi).1, ?_, ?_, ?_⟩
  · intro l hl
    rw [hc _ (hend l hl).1, ← hcl l hl, Bool.and_self]
  · intro l hl
    rw [hc _ (hend l hl).1, hc _ (hend l hl).2, hcl l hl]
  · intro e he
    obtain ⟨p1, h1, _⟩ := lev.expPins e he
    rw [hc _ (lt_of_pinNames_get h1)]

/-- **(1) a set of children no link leaves behaves like the level**: `g` a set of child positions such that every link
of the level has both ends in `g` or none; the sub-solver of `g` exposes names of the level and returns, between every two
of them, the coefficient the level returns (any schedules) -/
theorem subLevel_behaves_of_closed (s s' : List (St F) → Option (Nat × Nat)) (cs : List (HNet F))
    (links : List (PinRef × PinRef)) (exposed : List (String × PinRef)) (w : WFTree (.node cs links exposed))
    (c : CompD F) (hs : solveH s (.node cs links exposed) = .ok c)
    (g : List Nat)
    (hclosed : ∀ l ∈ links, l.1.1 < cs.length → l.2.1 < cs.length → (l.1.1 ∈ g ↔ l.2.1 ∈ g))
    (c' : CompD F) (hs' : solveH s' (subLevel cs links exposed g) = .ok c') :
    (∀ x ∈ c'.pins, x ∈ c.pins) ∧ ∀ x ∈ c'.pins, ∀ y ∈ c'.pins, c'.sem x y = c.sem x y := by
  have w' := w.subLevel g
  cases w with
  | node _ _ _ hch lev =>
  have wn : WFTree (HNet.node cs links exposed) := WFTree.node cs links exposed hch lev
  have cx := ctx_of_closed lev g hclosed
  obtain ⟨T, hT⟩ := solveH_flatInv s (wn.levelsOK s) c hs
  obtain ⟨T', hT'⟩ := solveH_flatInv s' (w'.levelsOK s') c' hs'
  have hpins : c.pins = exposed.map (·.1) := solveH_pins s _ c hs
  have hpins' : c'.pins = (exposed.filter fun e => g.contains e.2.1).map (·.1) := by
    rw [solveH_pins s' _ c' hs', pinNames_subLevel]
  generalize hps : positions cs.length g = ps at cx
  have hT'' : FlatInv (.node (subCs cs ps) (subLinks links g ps) (subExp exposed g ps)) c' T' := by
    rw [← hps]; exact hT'
  have hnames' : ((subExp exposed g ps).map (·.1)).Nodup := by
    rw [subExp_names]
    exact List.Nodup.sublist (List.filter_sublist.map _) lev.namesNodup
  obtain ⟨hnd, hmem, hcoef⟩ := level_cut lev hT hpins
  have hsub : ((flat (.node cs links exposed)).inside (inPos ps)).SolvedBy
      (fun q q' => T' (downPin ps q) (downPin ps q')) :=
    ANet.solvedBy_of_sameNE _ _ (sub_parts cx) (sub_links cx) (sub_exposed cx ▸ List.Perm.refl _) _
      (ANet.map_solvedBy (sub_mentions cx) T' hT''.solved)
  have key := ANet.inside_behaves (flat_splits cx hT.closed) hnd T _ hT.solved hsub
  refine ⟨?_, ?_⟩
  · intro x hx
    rw [hpins'] at hx
    obtain ⟨e, he, rfl⟩ := List.mem_map.1 hx
    rw [hpins]
    exact List.mem_map.2 ⟨e, (List.mem_filter.1 he).1, rfl⟩
  · intro x hx y hy
    have hx' := hx
    have hy' := hy
    rw [hpins'] at hx hy
    obtain ⟨e, he, rfl⟩ := List.mem_map.1 hx
    obtain ⟨e2, he2, rfl⟩ := List.mem_map.1 hy
    obtain ⟨he0, hep⟩ := (cx.mem_subExp e).1 he
    obtain ⟨he20, he2p⟩ := (cx.mem_subExp e2).1 he2
    have r1 : resolve (.node (subCs cs ps) (subLinks links g ps) (subExp exposed g ps)) e.1 =
        resolveRef (subCs cs ps) (reindex ps e.2) :=
      resolve_node_of_mem hnames' (e.1, reindex ps e.2) (List.mem_map.2 ⟨e, he, rfl⟩)
    have r2 : resolve (.node (subCs cs ps) (subLinks links g ps) (subExp exposed g ps)) e2.1 =
        resolveRef (subCs cs ps) (reindex ps e2.2) :=
      resolve_node_of_mem hnames' (e2.1, reindex ps e2.2) (List.mem_map.2 ⟨e2, he2, rfl⟩)
    rw [← hT''.coeff e.1 hx' e2.1 hy', r1, r2, ← hcoef e he0 e2 he20,
      key _ (hmem e he0) _ (hmem e2 he20) (List.contains_iff_mem.2 hep) (List.contains_iff_mem.2 he2p)]
    show T' _ _ = T' (downPin ps (resolveRef cs e.2)) (downPin ps (resolveRef cs e2.2))
    rw [down_resolveRef cx e.2 hep, down_resolveRef cx e2.2 he2p]

end closedSets

/-! ### the live set -/
section live
variable {F : Type}

/-- a child is dead exactly when it presents no pin name -/
theorem isDead_iff (h : HNet F) : isDead h = true ↔ pinNames h = [] := by
  cases h with
  | leaf c => exact List.isEmpty_iff
  | node cs links exposed =>
    show exposed.isEmpty = true ↔ exposed.map (·.1) = []
    rw [List.isEmpty_iff, List.map_eq_nil_iff]

theorem mem_liveSet (cs : List (HNet F)) (i : Nat) : i ∈ liveSet cs ↔ ∃ h, cs[i]? = some h ∧ isDead h = false := by
  unfold liveSet
  rw [List.mem_filter, List.mem_range]
  constructor
  · rintro ⟨hi, hd⟩
    rw [List.getD_eq_getElem?_getD, List.getElem?_eq_getElem hi] at hd
    exact ⟨cs[i], List.getElem?_eq_getElem hi, by simpa using hd⟩
  · rintro ⟨h, hi, hd⟩
    obtain ⟨h1, _⟩ := List.getElem?_eq_some_iff.1 hi
    refine ⟨h1, ?_⟩
    rw [List.getD_eq_getElem?_getD, hi]
    simp [hd]

/-- a child that has a pin is live -/
theorem live_of_pin {cs : List (HNet F)} {k : Nat} {pn : List String} {x : String}
    (hk : (cs.map pinNames)[k]? = some pn) (hx : x ∈ pn) : k ∈ liveSet cs := by
  rw [List.getElem?_map] at hk
  cases hc : cs[k]? with
  | none => rw [hc] at hk; cases hk
  | some h =>
    rw [hc] at hk
    have hpn : pinNames h = pn := Option.some.inj hk
    refine (mem_liveSet cs k).2 ⟨h, hc, ?_⟩
    cases hd : isDead h with
    | false => rfl
    | true =>
      rw [(isDead_iff h).1 hd] at hpn
      rw [← hpn] at hx
      cases hx

/-- **no link ends on a dead child** -/
theorem liveSet_links {cs : List (HNet F)} {links : List (PinRef × PinRef)} {exposed : List (String × PinRef)}
    (lev : LevelOK (cs.map pinNames) links exposed) (l : PinRef × PinRef) (hl : l ∈ links) :
    l.1.1 ∈ liveSet cs ∧ l.2.1 ∈ liveSet cs := by
  obtain ⟨p1, h1, m1⟩ := lev.endsPins l hl l.1 (Or.inl rfl)
  obtain ⟨p2, h2, m2⟩ := lev.endsPins l hl l.2 (Or.inr rfl)
  exact ⟨live_of_pin h1 m1, live_of_pin h2 m2⟩

/-- … so the live set is closed under the links of the level -/
theorem liveSet_closed {cs : List (HNet F)} {links : List (PinRef × PinRef)} {exposed : List (String × PinRef)}
    (lev : LevelOK (cs.map pinNames) links exposed) (l : PinRef × PinRef) (hl : l ∈ links) :
    l.1.1 ∈ liveSet cs ↔ l.2.1 ∈ liveSet cs :=
  ⟨fun _ => (liveSet_links lev l hl).2, fun _ => (liveSet_links lev l hl).1⟩

/-- **no exposure points at a dead child** -/
theorem liveSet_exposed {cs : List (HNet F)} {links : List (PinRef × PinRef)} {exposed : List (String × PinRef)}
    (lev : LevelOK (cs.map pinNames) links exposed) (e : String × PinRef) (he : e ∈ exposed) :
    e.2.1 ∈ liveSet cs := by
  obtain ⟨p1, h1, m1⟩ := lev.expPins e he
  exact live_of_pin h1 m1

theorem positions_liveSet (cs : List (HNet F)) : positions cs.length (liveSet cs) = liveSet cs := by
  unfold positions
  show (List.range cs.length).filter (fun i => (liveSet cs).contains i) =
    (List.range cs.length).filter fun i => !(cs.getD i (.node [] [] [])).isDead
  apply List.filter_congr
  intro i hi
  rw [Bool.eq_iff_iff, List.contains_iff_mem]
  unfold liveSet
  rw [List.mem_filter]
  exact ⟨fun h => h.2, fun h => ⟨hi, h⟩⟩

theorem range_map_getD (cs : List (HNet F)) (d : HNet F) : (List.range cs.length).map (fun i => cs.getD i d) = cs := by
  apply List.ext_getElem
  · simp
  · intro i h1 h2
    have hi : i < cs.length := h2
    simp [List.getD_eq_getElem?_getD, hi]

theorem subCs_liveSet (cs : List (HNet F)) : subCs cs (liveSet cs) = cs.filter fun h => !h.isDead := by
  unfold subCs liveSet
  conv_rhs => rw [← range_map_getD cs (.node [] [] [])]
  rw [List.filter_map]
  rfl

theorem pruneLevel_leaf (c : CompD F) : pruneLevel (HNet.leaf c) = .leaf c := rfl

/-- **`pruneLevel` removes exactly the dead children**: the children of the pruned level are the children that are not
dead, in order; links and exposures are re-addressed by the positions inside the live set -/
theorem pruneLevel_node (cs : List (HNet F)) (links : List (PinRef × PinRef)) (exposed : List (String × PinRef)) :
    pruneLevel (.node cs links exposed) =
      .node (cs.filter fun h => !h.isDead) (subLinks links (liveSet cs) (liveSet cs))
        (subExp exposed (liveSet cs) (liveSet cs)) := by
  show subLevel cs links exposed (liveSet cs) = _
  rw [subLevel_eq, positions_liveSet, subCs_liveSet]

/-- **(3) the pruned level is well formed** -/
theorem WFTree.pruneLevel {h : HNet F} (w : WFTree h) : WFTree h.pruneLevel := by
  cases h with
  | leaf c => exact w
  | node cs links exposed => exact w.subLevel (liveSet cs)

/-- the sub-solver of a set that holds every position is the level itself -/
theorem subLevel_full {cs : List (HNet F)} {links : List (PinRef × PinRef)} {exposed : List (String × PinRef)}
    (w : WFTree (.node cs links exposed)) (g : List Nat) (hall : ∀ i, i < cs.length → i ∈ g) :
    subLevel cs links exposed g = .node cs links exposed := by
  cases w with
  | node _ _ _ hch lev =>
  have hpos : positions cs.length g = List.range cs.length := by
    unfold positions
    rw [List.filter_eq_self]
    intro i hi
    exact List.contains_iff_mem.2 (hall i (List.mem_range.1 hi))
  have hidx : ∀ i, i < cs.length → (List.range cs.length).idxOf i = i := by
    intro i hi
    apply idxOf_of_getElem? List.nodup_range
    rw [List.getElem?_eq_getElem (by simpa using hi)]
    simp
  have hre : ∀ r : PinRef, r.1 < cs.length → reindex (List.range cs.length) r = r := by
    intro r hr
    exact Prod.ext (hidx r.1 hr) rfl
  have hend : ∀ l ∈ links, l.1.1 < cs.length ∧ l.2.1 < cs.length := by
    intro l hl
    obtain ⟨p1, h1, _⟩ := lev.endsPins l hl l.1 (Or.inl rfl)
    obtain ⟨p2, h2, _⟩ := lev.endsPins l hl l.2 (Or.inr rfl)
    exact ⟨lt_of_pinNames_get h1, lt_of_pinNames_get h2⟩
  have hexp : ∀ e ∈ exposed, e.2.1 < cs.length := by
    intro e he
    obtain ⟨p1, h1, _⟩ := lev.expPins e he
    exact lt_of_pinNames_get h1
  unfold subLevel
  simp only
  rw [hpos]
  congr 1
  · exact range_map_getD cs _
  · have hf : links.filter (fun l => g.contains l.1.1 && g.contains l.2.1) = links := by
      rw [List.filter_eq_self]
      intro l hl
      rw [Bool.and_eq_true]
      exact ⟨List.contains_iff_mem.2 (hall _ (hend l hl).1), List.contains_iff_mem.2 (hall _ (hend l hl).2)⟩
    rw [hf]
    conv_rhs => rw [← List.map_id links]
    apply List.map_congr_left
    intro l hl
    rw [hre l.1 (hend l hl).1, hre l.2 (hend l hl).2]
    rfl
  · have hf : exposed.filter (fun e => g.contains e.2.1) = exposed := by
      rw [List.filter_eq_self]
      intro e he
      exact List.contains_iff_mem.2 (hall _ (hexp e he))
    rw [hf]
    conv_rhs => rw [← List.map_id exposed]
    apply List.map_congr_left
    intro e he
    rw [hre e.2 (hexp e he)]
    rfl

/-- **pruning again changes nothing** -/
theorem pruneLevel_idem {h : HNet F} (w : WFTree h) : pruneLevel (pruneLevel h) = pruneLevel h := by
  cases h with
  | leaf c => rfl
  | node cs links exposed =>
    have w' := w.pruneLevel
    rw [pruneLevel_node] at w' ⊢
    refine subLevel_full w' _ ?_
    intro i hi
    refine (mem_liveSet _ i).2 ⟨_, List.getElem?_eq_getElem hi, ?_⟩
    have := (List.mem_filter.1 (List.getElem_mem hi)).2
    simpa using this

end live

/-! ### C19, the matrix side -/
section pruneThm
variable {F : Type} [Field F] [DecidableEq F]

/-- **(2) `prune()` preserves the solved matrix**: the level without its dead children returns the same pins and the
same coefficient between every two of them (any schedules) -/
theorem prune_preserves (s s' : List (St F) → Option (Nat × Nat)) (h : HNet F) (w : WFTree h) (c c' : CompD F)
    (hs : solveH s h = .ok c) (hs' : solveH s' h.pruneLevel = .ok c') :
    c'.pins = c.pins ∧ ∀ x ∈ c.pins, ∀ y ∈ c.pins, c'.sem x y = c.sem x y := by
  cases h with
  | leaf c0 =>
    rw [pruneLevel_leaf, solveH_leaf] at hs'
    rw [solveH_leaf] at hs
    cases hs; cases hs'
    exact ⟨rfl, fun _ _ _ _ => rfl⟩
  | node cs links exposed =>
    have lev : LevelOK (cs.map pinNames) links exposed := by
      cases w with
      | node _ _ _ _ lev => exact lev
    have hs'' : solveH s' (subLevel cs links exposed (liveSet cs)) = .ok c' := hs'
    have hb := subLevel_behaves_of_closed s s' cs links exposed w c hs (liveSet cs)
      (fun l hl _ _ => liveSet_closed lev l hl) c' hs''
    have hpins : c'.pins = c.pins := by
      rw [solveH_pins s' _ c' hs'', solveH_pins s _ c hs, pinNames_subLevel]
      show _ = exposed.map (·.1)
      congr 1
      rw [List.filter_eq_self]
      intro e he
      exact List.contains_iff_mem.2 (liveSet_exposed lev e he)
    refine ⟨hpins, ?_⟩
    intro x hx y hy
    exact hb.2 x (hpins ▸ hx) y (hpins ▸ hy)

/-- non-vacuity: the level of the sanity check in `Core/HierPrune.lean` (two chained two-ports, a sub-solver that
exposes nothing and a component without pins) is well formed whatever the matrices -/
example (a c d : CompD F) (ha : a.pins = ["a", "b"]) (hc : c.pins = ["a", "b"]) (hd : d.pins = []) :
    WFTree (.node [.leaf a, .node [.leaf a] [] [], .leaf c, .leaf d] [((0, "b"), (2, "a"))]
      [("in", (0, "a")), ("out", (2, "b"))]) := by
  refine WFTree.node _ _ _ ?_ ?_
  · intro h hh
    simp only [List.mem_cons, List.not_mem_nil, or_false] at hh
    rcases hh with rfl | rfl | rfl | rfl
    · exact WFTree.leaf _
    · refine WFTree.node _ _ _ ?_ ?_
      · intro h hh
        rw [List.mem_singleton.1 hh]
        exact WFTree.leaf _
      · constructor <;> simp [pinNames, ha]
    · exact WFTree.leaf _
    · exact WFTree.leaf _
  · constructor <;> simp [pinNames, ha, hc, hd]

end pruneThm
end HNet
