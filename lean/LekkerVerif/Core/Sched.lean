import LekkerVerif.Core.Solve
import LekkerVerif.Core.Net
/-! The pin-count heuristic of `Solver.solve` as a schedule function for `loopWith` (ties broken by position). -/
namespace Solve
variable {F : Type} [Scalar F]

/-- smallest structure first; among the structures it is connected to, the smallest; otherwise the next in the list -/
def pySched (live : List (St F)) : Option (Nat × Nat) :=
  match sortByPins live with
  | [] => none
  | src :: rest =>
    let nbrIds := src.conn.foldl (fun acc l => if acc.contains l.2.1 then acc else acc ++ [l.2.1]) []
    let nbrs := (nbrIds.filterMap (goneTo (src :: rest))).filter (fun t => t.id != src.id)
    match sortByPins nbrs ++ rest with
    | [] => none
    | tar :: _ => some (src.id, tar.id)
end Solve
