import LekkerVerif.Core.Complete

/-! Properties of a structure's matrix that every `join` preserves, carried through the elimination
loop for an arbitrary schedule (network-level C08). -/

open Matrix

namespace Solve
variable {F : Type} [Field F] [DecidableEq F]

/-- any per-structure predicate preserved by `join` holds of the structure the loop ends with -/
theorem loopWith_preserves (W : (PinRef → F) → (PinRef → F) → Prop) (Pr : St F → Prop)
    (hjoin : ∀ (s t c : St F) (newId : Nat), s.pins.Nodup → t.pins.Nodup → Disj s t → Pr s → Pr t →
      St.join s t newId = .ok c → Pr c) (sched) :
    ∀ (fuel : Nat) (live : List (St F)) (fresh : Nat) (total : St F),
      LiveInv W live fresh → (∀ s ∈ live, Pr s) → loopWith sched fuel live fresh = .ok total → Pr total := by
  intro fuel live fresh total inv hp h
  have := loopWith_induct sched (fun live fresh => LiveInv W live fresh ∧ ∀ s ∈ live, Pr s) ?_
    fuel live fresh total ⟨inv, hp⟩ h
  · obtain ⟨_, _, q⟩ := this
    exact q total (by simp)
  · intro live live' fresh ⟨inv, hp⟩ hstep
    refine ⟨stepWith_inv W sched live live' fresh inv hstep, ?_⟩
    obtain ⟨src, tar, new, hsrc, htar, hne, hj, rfl⟩ := stepWith_cases sched live live' fresh hstep
    intro s hs
    rcases List.mem_append.1 hs with hs | hs
    · exact hp s (List.mem_of_mem_filter hs)
    · have : s = new := by simpa using hs
      subst this
      exact hjoin src tar s fresh (inv.good src hsrc).nodup (inv.good tar htar).nodup
        (inv.disj src hsrc tar htar hne) (hp src hsrc) (hp tar htar) hj

end Solve

namespace St
variable {F : Type} [Field F] [DecidableEq F]

/-- the structure's matrix is symmetric on its pins -/
def Recip (s : St F) : Prop := ∀ p ∈ s.pins, ∀ q ∈ s.pins, s.sem p q = s.sem q p

theorem join_recip (self st c : St F) (newId : Nat)
    (hs : self.pins.Nodup) (ht : st.pins.Nodup) (hd : ∀ p, p ∈ self.pins → p ∈ st.pins → False)
    (rs : self.Recip) (rt : st.Recip) (h : join self st newId = .ok c) : c.Recip := by
  obtain ⟨links, selfIn, stOut, jf⟩ := join_facts self st c newId hs ht hd h
  have inA : ∀ p ∈ selfIn, p ∈ self.pins := fun p hp => by rw [jf.eIn] at hp; exact List.mem_of_mem_filter hp
  have inB : ∀ p ∈ stOut, p ∈ st.pins := fun p hp => by rw [jf.eOut] at hp; exact List.mem_of_mem_filter hp
  have lA : ∀ i : Fin links.length, links[i].1 ∈ self.pins := fun i =>
    jf.subA _ (List.mem_map.2 ⟨links[i], List.getElem_mem _, rfl⟩)
  have lB : ∀ i : Fin links.length, links[i].2 ∈ st.pins := fun i =>
    jf.subB _ (List.mem_map.2 ⟨links[i], List.getElem_mem _, rfl⟩)
  have kA : ∀ i : Fin selfIn.length, selfIn[i] ∈ self.pins := fun i => inA _ (List.getElem_mem _)
  have kB : ∀ i : Fin stOut.length, stOut[i] ∈ st.pins := fun i => inB _ (List.getElem_mem _)
  have rA : (ablk self selfIn links).Reciprocal := by
    refine ⟨?_, ?_, ?_⟩ <;> ext i j <;> simp only [ablk, blk, Matrix.transpose_apply]
    · exact rs _ (kA j) _ (kA i)
    · exact rs _ (lA j) _ (lA i)
    · exact rs _ (kA j) _ (lA i)
  have rB : (bblk st links stOut).Reciprocal := by
    refine ⟨?_, ?_, ?_⟩ <;> ext i j <;> simp only [bblk, blk, Matrix.transpose_apply]
    · exact rt _ (lB j) _ (lB i)
    · exact rt _ (kB j) _ (kB i)
    · exact rt _ (lB j) _ (kB i)
  obtain ⟨r21, r12, r22⟩ := star_reciprocal _ _ jf.hu rA rB
  intro p hp q hq
  rw [jf.hpins] at hp hq
  rcases List.mem_append.1 hp with hp | hp <;> rcases List.mem_append.1 hq with hq | hq
  · obtain ⟨i, hi, rfl⟩ := List.getElem_of_mem hp
    obtain ⟨j, hj, rfl⟩ := List.getElem_of_mem hq
    have := congrFun (congrFun r21 ⟨i, hi⟩) ⟨j, hj⟩
    rw [Matrix.transpose_apply] at this
    have e1 := jf.e21 ⟨i, hi⟩ ⟨j, hj⟩
    have e2 := jf.e21 ⟨j, hj⟩ ⟨i, hi⟩
    simp only [Fin.getElem_fin] at e1 e2
    rw [e1, e2, this]
  · obtain ⟨i, hi, rfl⟩ := List.getElem_of_mem hp
    obtain ⟨j, hj, rfl⟩ := List.getElem_of_mem hq
    have := congrFun (congrFun r22 ⟨j, hj⟩) ⟨i, hi⟩
    rw [Matrix.transpose_apply] at this
    have e1 := jf.e22 ⟨i, hi⟩ ⟨j, hj⟩
    have e2 := jf.e11 ⟨j, hj⟩ ⟨i, hi⟩
    simp only [Fin.getElem_fin] at e1 e2
    rw [e1, e2, this]
  · obtain ⟨i, hi, rfl⟩ := List.getElem_of_mem hp
    obtain ⟨j, hj, rfl⟩ := List.getElem_of_mem hq
    have := congrFun (congrFun r22 ⟨i, hi⟩) ⟨j, hj⟩
    rw [Matrix.transpose_apply] at this
    have e1 := jf.e11 ⟨i, hi⟩ ⟨j, hj⟩
    have e2 := jf.e22 ⟨j, hj⟩ ⟨i, hi⟩
    simp only [Fin.getElem_fin] at e1 e2
    rw [e1, e2, this]
  · obtain ⟨i, hi, rfl⟩ := List.getElem_of_mem hp
    obtain ⟨j, hj, rfl⟩ := List.getElem_of_mem hq
    have := congrFun (congrFun r12 ⟨i, hi⟩) ⟨j, hj⟩
    rw [Matrix.transpose_apply] at this
    have e1 := jf.e12 ⟨i, hi⟩ ⟨j, hj⟩
    have e2 := jf.e12 ⟨j, hj⟩ ⟨i, hi⟩
    simp only [Fin.getElem_fin] at e1 e2
    rw [e1, e2, this]

end St

namespace NetD
variable {F : Type} [Field F] [DecidableEq F]
open Solve

/-- **network-level reciprocity, any schedule**: if every component's matrix is symmetric on its pins,
so is the matrix `solve` returns -/
theorem solveWith_recip (net : NetD F) (wf : net.WF) (sched) (total : St F)
    (h : net.solveWith sched = .ok total) (hr : ∀ s ∈ net.initial, s.Recip) : total.Recip :=
  loopWith_preserves net.Sol St.Recip
    (fun s t c newId hs ht hd rs rt hj => St.join_recip s t c newId hs ht hd rs rt hj)
    sched _ _ _ total (fullInv_initial net wf).linv hr h

end NetD

/-! ### losslessness (any pairing) through `join` and through the loop -/

section lossless
variable {F : Type} [Field F] [DecidableEq F]
variable {R : Type*} [AddCommGroup R]

/-- pairing of two wave assignments over a list of pins -/
def pairL (φ : F → F → R) (l : List PinRef) (x y : PinRef → F) : R := (l.map fun p => φ (x p) (y p)).sum

/-- the same pairing over a finite index type -/
def ipφ (φ : F → F → R) {ι : Type*} [Fintype ι] (x y : ι → F) : R := ∑ i, φ (x i) (y i)

theorem pairL_perm (φ : F → F → R) {l l' : List PinRef} (h : l.Perm l') (x y : PinRef → F) :
    pairL φ l x y = pairL φ l' x y := by
  unfold pairL; exact (h.map _).sum_eq

theorem pairL_append (φ : F → F → R) (l₁ l₂ : List PinRef) (x y : PinRef → F) :
    pairL φ (l₁ ++ l₂) x y = pairL φ l₁ x y + pairL φ l₂ x y := by
  unfold pairL; simp

theorem pairL_get (φ : F → F → R) (l : List PinRef) (x y : PinRef → F) :
    pairL φ l x y = ∑ i : Fin l.length, φ (x l[i]) (y l[i]) := by
  unfold pairL; rw [← Fin.sum_univ_fun_getElem]; rfl

theorem pairL_map {α : Type*} (φ : F → F → R) (l : List α) (g : α → PinRef) (x y : PinRef → F) :
    pairL φ (l.map g) x y = ∑ i : Fin l.length, φ (x (g l[i])) (y (g l[i])) := by
  unfold pairL; rw [List.map_map, ← Fin.sum_univ_fun_getElem]; rfl

/-- the output wave of a structure at pin `p` for input assignment `a` -/
def St.out (s : St F) (a : PinRef → F) (p : PinRef) : F := rowSum s.pins s.sem a p

/-- a structure is lossless with respect to the pairing `φ` -/
def St.LosslessW (φ : F → F → R) (s : St F) : Prop :=
  ∀ a a' : PinRef → F, pairL φ s.pins (s.out a') (s.out a) = pairL φ s.pins a' a

/-- an assignment with prescribed values on the kept pins and on the link pins -/
theorem exists_two (kept : List PinRef) (links : List (PinRef × PinRef)) (pick : PinRef × PinRef → PinRef)
    (hnd : (kept ++ links.map pick).Nodup) (u : Fin kept.length → F) (g : Fin links.length → F) :
    ∃ v : PinRef → F, (∀ i : Fin kept.length, v kept[i] = u i) ∧ ∀ j : Fin links.length, v (pick links[j]) = g j := by
  have hk : kept.Nodup := (List.nodup_append.1 hnd).1
  have hl : (links.map pick).Nodup := (List.nodup_append.1 hnd).2.1
  have hdis : ∀ p ∈ kept, p ∉ links.map pick := fun p hp hq => (List.nodup_append.1 hnd).2.2 p hp p hq rfl
  obtain ⟨v1, hv1, _⟩ := exists_extend kept hk u (fun _ => 0)
  obtain ⟨v, hv, hrest⟩ := exists_extend (links.map pick) hl
    (fun i => g ⟨i.1, by have := i.2; simpa using this⟩) v1
  refine ⟨v, ?_, ?_⟩
  · intro i
    exact (hrest _ (hdis _ (List.getElem_mem i.2))).trans (hv1 i)
  · intro j
    have := hv ⟨j.1, by simp⟩
    simpa [List.getElem_map] using this

/-- the kept / connected partition of a lossless structure is a lossless partitioned matrix (first operand) -/
theorem ablk_lossless (φ : F → F → R) (self : St F) (selfIn : List PinRef) (links : List (PinRef × PinRef))
    (hs : self.pins.Nodup) (pA : self.pins.Perm (selfIn ++ links.map Prod.fst)) (hL : self.LosslessW φ) :
    (St.ablk self selfIn links).LosslessWrt (ipφ φ) (ipφ φ) := by
  intro u g u' g'
  have hnd : (selfIn ++ links.map Prod.fst).Nodup := pA.nodup_iff.1 hs
  obtain ⟨a, ha1, ha2⟩ := exists_two selfIn links Prod.fst hnd u g
  obtain ⟨a', ha1', ha2'⟩ := exists_two selfIn links Prod.fst hnd u' g'
  have hout : ∀ (b : PinRef → F) (ub : Fin selfIn.length → F) (gb : Fin links.length → F),
      (∀ i : Fin selfIn.length, b selfIn[i] = ub i) → (∀ j : Fin links.length, b links[j].1 = gb j) →
      (∀ i : Fin selfIn.length, self.out b selfIn[i] = ((St.ablk self selfIn links).S21 *ᵥ ub + (St.ablk self selfIn links).S22 *ᵥ gb) i) ∧
      (∀ j : Fin links.length, self.out b links[j].1 = ((St.ablk self selfIn links).S11 *ᵥ ub + (St.ablk self selfIn links).S12 *ᵥ gb) j) := by
    intro b ub gb h1 h2
    have key : ∀ p, self.out b p = (∑ j : Fin selfIn.length, self.sem p selfIn[j] * ub j) + ∑ j : Fin links.length, self.sem p links[j].1 * gb j := by
      intro p
      unfold St.out
      rw [rowSum_perm pA, rowSum_append, rowSum_get, rowSum_map]
      congr 1
      · exact Finset.sum_congr rfl fun j _ => by rw [h1 j]
      · exact Finset.sum_congr rfl fun j _ => by rw [h2 j]
    constructor
    · intro i; rw [key]; simp [St.ablk, blk, Matrix.mulVec, dotProduct]
    · intro j; rw [key]; simp [St.ablk, blk, Matrix.mulVec, dotProduct]
  obtain ⟨o1, o2⟩ := hout a u g ha1 ha2
  obtain ⟨o1', o2'⟩ := hout a' u' g' ha1' ha2'
  have := hL a a'
  rw [pairL_perm φ pA, pairL_perm φ pA, pairL_append, pairL_append, pairL_map, pairL_map, pairL_get, pairL_get] at this
  unfold ipφ
  convert this using 2
  · exact Finset.sum_congr rfl fun i _ => by rw [o1' i, o1 i]
  · exact Finset.sum_congr rfl fun j _ => by rw [o2' j, o2 j]
  · exact Finset.sum_congr rfl fun i _ => by rw [ha1' i, ha1 i]
  · exact Finset.sum_congr rfl fun j _ => by rw [ha2' j, ha2 j]

/-- the same for the second operand (connected pins first, kept pins second) -/
theorem bblk_lossless (φ : F → F → R) (st : St F) (links : List (PinRef × PinRef)) (stOut : List PinRef)
    (ht : st.pins.Nodup) (pB : st.pins.Perm (links.map Prod.snd ++ stOut)) (hL : st.LosslessW φ) :
    (St.bblk st links stOut).LosslessWrt (ipφ φ) (ipφ φ) := by
  intro u g u' g'
  -- here `u` lives on the connected pins (left ports of B) and `g` on the kept pins
  have pB' : st.pins.Perm (stOut ++ links.map Prod.snd) := pB.trans List.perm_append_comm
  have hnd : (stOut ++ links.map Prod.snd).Nodup := pB'.nodup_iff.1 ht
  obtain ⟨a, ha1, ha2⟩ := exists_two stOut links Prod.snd hnd g u
  obtain ⟨a', ha1', ha2'⟩ := exists_two stOut links Prod.snd hnd g' u'
  have hout : ∀ (b : PinRef → F) (ub : Fin links.length → F) (gb : Fin stOut.length → F),
      (∀ i : Fin stOut.length, b stOut[i] = gb i) → (∀ j : Fin links.length, b links[j].2 = ub j) →
      (∀ j : Fin links.length, st.out b links[j].2 = ((St.bblk st links stOut).S21 *ᵥ ub + (St.bblk st links stOut).S22 *ᵥ gb) j) ∧
      (∀ i : Fin stOut.length, st.out b stOut[i] = ((St.bblk st links stOut).S11 *ᵥ ub + (St.bblk st links stOut).S12 *ᵥ gb) i) := by
    intro b ub gb h1 h2
    have key : ∀ p, st.out b p = (∑ j : Fin links.length, st.sem p links[j].2 * ub j) + ∑ j : Fin stOut.length, st.sem p stOut[j] * gb j := by
      intro p
      unfold St.out
      rw [rowSum_perm pB, rowSum_append, rowSum_map, rowSum_get]
      congr 1
      · exact Finset.sum_congr rfl fun j _ => by rw [h2 j]
      · exact Finset.sum_congr rfl fun j _ => by rw [h1 j]
    constructor
    · intro j; rw [key]; simp [St.bblk, blk, Matrix.mulVec, dotProduct]
    · intro i; rw [key]; simp [St.bblk, blk, Matrix.mulVec, dotProduct]
  obtain ⟨o1, o2⟩ := hout a u g ha1 ha2
  obtain ⟨o1', o2'⟩ := hout a' u' g' ha1' ha2'
  have := hL a a'
  rw [pairL_perm φ pB, pairL_perm φ pB, pairL_append, pairL_append, pairL_map, pairL_map, pairL_get, pairL_get] at this
  unfold ipφ
  convert this using 2
  · exact Finset.sum_congr rfl fun j _ => by rw [o1' j, o1 j]
  · exact Finset.sum_congr rfl fun i _ => by rw [o2' i, o2 i]
  · exact Finset.sum_congr rfl fun j _ => by rw [ha2' j, ha2 j]
  · exact Finset.sum_congr rfl fun i _ => by rw [ha1' i, ha1 i]

/-- **`join` preserves losslessness** (any pairing) -/
theorem St.join_lossless (φ : F → F → R) (self st c : St F) (newId : Nat)
    (hs : self.pins.Nodup) (ht : st.pins.Nodup) (hd : ∀ p, p ∈ self.pins → p ∈ st.pins → False)
    (ls : self.LosslessW φ) (lt : st.LosslessW φ) (h : St.join self st newId = .ok c) : c.LosslessW φ := by
  obtain ⟨links, selfIn, stOut, jf⟩ := St.join_facts self st c newId hs ht hd h
  have lA := ablk_lossless φ self selfIn links hs jf.pA ls
  have lB := bblk_lossless φ st links stOut ht jf.pB lt
  have lC := star_lossless _ _ jf.hu _ _ _ lA lB
  intro a a'
  have hout : ∀ b : PinRef → F,
      (∀ i : Fin selfIn.length, c.out b selfIn[i] =
        (((St.ablk self selfIn links).add (St.bblk st links stOut)).S21 *ᵥ (fun i => b selfIn[i]) +
         ((St.ablk self selfIn links).add (St.bblk st links stOut)).S22 *ᵥ (fun j => b stOut[j])) i) ∧
      (∀ j : Fin stOut.length, c.out b stOut[j] =
        (((St.ablk self selfIn links).add (St.bblk st links stOut)).S11 *ᵥ (fun i => b selfIn[i]) +
         ((St.ablk self selfIn links).add (St.bblk st links stOut)).S12 *ᵥ (fun j => b stOut[j])) j) := by
    intro b
    have key : ∀ p, c.out b p = (∑ j : Fin selfIn.length, c.sem p selfIn[j] * b selfIn[j]) + ∑ j : Fin stOut.length, c.sem p stOut[j] * b stOut[j] := by
      intro p
      unfold St.out
      rw [jf.hpins, rowSum_append, rowSum_get, rowSum_get]
    constructor
    · intro i
      rw [key]
      simp only [Matrix.add_apply, Pi.add_apply, Matrix.mulVec, dotProduct]
      congr 1
      · exact Finset.sum_congr rfl fun j _ => by
          rw [jf.e21 i j]
      · exact Finset.sum_congr rfl fun j _ => by
          rw [jf.e22 i j]
    · intro j
      rw [key]
      simp only [Matrix.add_apply, Pi.add_apply, Matrix.mulVec, dotProduct]
      congr 1
      · exact Finset.sum_congr rfl fun i _ => by
          rw [jf.e11 j i]
      · exact Finset.sum_congr rfl fun i _ => by
          rw [jf.e12 j i]
  obtain ⟨o1, o2⟩ := hout a
  obtain ⟨o1', o2'⟩ := hout a'
  have := lC (fun i => a selfIn[i]) (fun j => a stOut[j]) (fun i => a' selfIn[i]) (fun j => a' stOut[j])
  unfold ipφ at this
  rw [jf.hpins, pairL_append, pairL_append, pairL_get, pairL_get, pairL_get, pairL_get]
  convert this using 2
  · exact Finset.sum_congr rfl fun i _ => by rw [o1' i, o1 i]
  · exact Finset.sum_congr rfl fun j _ => by rw [o2' j, o2 j]

end lossless

namespace NetD
variable {F : Type} [Field F] [DecidableEq F] {R : Type*} [AddCommGroup R]
open Solve

/-- **network-level losslessness, any schedule, any pairing**: if every component is lossless, so is what `solve` returns -/
theorem solveWith_lossless (φ : F → F → R) (net : NetD F) (wf : net.WF) (sched) (total : St F)
    (h : net.solveWith sched = .ok total) (hl : ∀ s ∈ net.initial, s.LosslessW φ) : total.LosslessW φ :=
  loopWith_preserves net.Sol (St.LosslessW φ)
    (fun s t c newId hs ht hd ls lt hj => St.join_lossless φ s t c newId hs ht hd ls lt hj)
    sched _ _ _ total (fullInv_initial net wf).linv hl h

end NetD

section passive
variable {F : Type} [Field F] [DecidableEq F]
variable {R : Type*} [AddCommGroup R] [PartialOrder R] [IsOrderedAddMonoid R]

/-- total power of a wave assignment over a list of pins -/
def sumL (w : F → R) (l : List PinRef) (x : PinRef → F) : R := (l.map fun p => w (x p)).sum
/-- the same over a finite index type -/
def pwφ (w : F → R) {ι : Type*} [Fintype ι] (x : ι → F) : R := ∑ i, w (x i)

theorem sumL_perm (w : F → R) {l l' : List PinRef} (h : l.Perm l') (x : PinRef → F) : sumL w l x = sumL w l' x := by
  unfold sumL; exact (h.map _).sum_eq
theorem sumL_append (w : F → R) (l₁ l₂ : List PinRef) (x : PinRef → F) : sumL w (l₁ ++ l₂) x = sumL w l₁ x + sumL w l₂ x := by
  unfold sumL; simp
theorem sumL_get (w : F → R) (l : List PinRef) (x : PinRef → F) : sumL w l x = ∑ i : Fin l.length, w (x l[i]) := by
  unfold sumL; rw [← Fin.sum_univ_fun_getElem]; rfl
theorem sumL_map {α : Type*} (w : F → R) (l : List α) (g : α → PinRef) (x : PinRef → F) :
    sumL w (l.map g) x = ∑ i : Fin l.length, w (x (g l[i])) := by
  unfold sumL; rw [List.map_map, ← Fin.sum_univ_fun_getElem]; rfl

/-- a structure is passive with respect to the power functional `w` (per-pin power `w (amplitude)`) -/
def St.PassiveW (w : F → R) (s : St F) : Prop :=
  ∀ a : PinRef → F, sumL w s.pins (s.out a) ≤ sumL w s.pins a

/-- the kept / connected partition of a passive structure is a passive partitioned matrix (first operand) -/
theorem ablk_passive (w : F → R) (self : St F) (selfIn : List PinRef) (links : List (PinRef × PinRef))
    (hs : self.pins.Nodup) (pA : self.pins.Perm (selfIn ++ links.map Prod.fst)) (hL : self.PassiveW w) :
    (St.ablk self selfIn links).PassiveWrt (pwφ w) (pwφ w) := by
  intro u g
  have hnd : (selfIn ++ links.map Prod.fst).Nodup := pA.nodup_iff.1 hs
  obtain ⟨a, ha1, ha2⟩ := exists_two selfIn links Prod.fst hnd u g
  have hout : ∀ (b : PinRef → F) (ub : Fin selfIn.length → F) (gb : Fin links.length → F),
      (∀ i : Fin selfIn.length, b selfIn[i] = ub i) → (∀ j : Fin links.length, b links[j].1 = gb j) →
      (∀ i : Fin selfIn.length, self.out b selfIn[i] = ((St.ablk self selfIn links).S21 *ᵥ ub + (St.ablk self selfIn links).S22 *ᵥ gb) i) ∧
      (∀ j : Fin links.length, self.out b links[j].1 = ((St.ablk self selfIn links).S11 *ᵥ ub + (St.ablk self selfIn links).S12 *ᵥ gb) j) := by
    intro b ub gb h1 h2
    have key : ∀ p, self.out b p = (∑ j : Fin selfIn.length, self.sem p selfIn[j] * ub j) + ∑ j : Fin links.length, self.sem p links[j].1 * gb j := by
      intro p
      unfold St.out
      rw [rowSum_perm pA, rowSum_append, rowSum_get, rowSum_map]
      congr 1
      · exact Finset.sum_congr rfl fun j _ => by rw [h1 j]
      · exact Finset.sum_congr rfl fun j _ => by rw [h2 j]
    constructor
    · intro i; rw [key]; simp [St.ablk, blk, Matrix.mulVec, dotProduct]
    · intro j; rw [key]; simp [St.ablk, blk, Matrix.mulVec, dotProduct]
  obtain ⟨o1, o2⟩ := hout a u g ha1 ha2
  have := hL a
  rw [sumL_perm w pA, sumL_perm w pA, sumL_append, sumL_append, sumL_map, sumL_map, sumL_get, sumL_get] at this
  unfold pwφ
  convert this using 2
  · exact Finset.sum_congr rfl fun i _ => by rw [o1 i]
  · exact Finset.sum_congr rfl fun j _ => by rw [o2 j]
  · exact Finset.sum_congr rfl fun i _ => by rw [ha1 i]
  · exact Finset.sum_congr rfl fun j _ => by rw [ha2 j]

/-- the same for the second operand (connected pins first, kept pins second) -/
theorem bblk_passive (w : F → R) (st : St F) (links : List (PinRef × PinRef)) (stOut : List PinRef)
    (ht : st.pins.Nodup) (pB : st.pins.Perm (links.map Prod.snd ++ stOut)) (hL : st.PassiveW w) :
    (St.bblk st links stOut).PassiveWrt (pwφ w) (pwφ w) := by
  intro u g
  -- here `u` lives on the connected pins (left ports of B) and `g` on the kept pins
  have pB' : st.pins.Perm (stOut ++ links.map Prod.snd) := pB.trans List.perm_append_comm
  have hnd : (stOut ++ links.map Prod.snd).Nodup := pB'.nodup_iff.1 ht
  obtain ⟨a, ha1, ha2⟩ := exists_two stOut links Prod.snd hnd g u
  have hout : ∀ (b : PinRef → F) (ub : Fin links.length → F) (gb : Fin stOut.length → F),
      (∀ i : Fin stOut.length, b stOut[i] = gb i) → (∀ j : Fin links.length, b links[j].2 = ub j) →
      (∀ j : Fin links.length, st.out b links[j].2 = ((St.bblk st links stOut).S21 *ᵥ ub + (St.bblk st links stOut).S22 *ᵥ gb) j) ∧
      (∀ i : Fin stOut.length, st.out b stOut[i] = ((St.bblk st links stOut).S11 *ᵥ ub + (St.bblk st links stOut).S12 *ᵥ gb) i) := by
    intro b ub gb h1 h2
    have key : ∀ p, st.out b p = (∑ j : Fin links.length, st.sem p links[j].2 * ub j) + ∑ j : Fin stOut.length, st.sem p stOut[j] * gb j := by
      intro p
      unfold St.out
      rw [rowSum_perm pB, rowSum_append, rowSum_map, rowSum_get]
      congr 1
      · exact Finset.sum_congr rfl fun j _ => by rw [h2 j]
      · exact Finset.sum_congr rfl fun j _ => by rw [h1 j]
    constructor
    · intro j; rw [key]; simp [St.bblk, blk, Matrix.mulVec, dotProduct]
    · intro i; rw [key]; simp [St.bblk, blk, Matrix.mulVec, dotProduct]
  obtain ⟨o1, o2⟩ := hout a u g ha1 ha2
  have := hL a
  rw [sumL_perm w pB, sumL_perm w pB, sumL_append, sumL_append, sumL_map, sumL_map, sumL_get, sumL_get] at this
  unfold pwφ
  convert this using 2
  · exact Finset.sum_congr rfl fun j _ => by rw [o1 j]
  · exact Finset.sum_congr rfl fun i _ => by rw [o2 i]
  · exact Finset.sum_congr rfl fun j _ => by rw [ha2 j]
  · exact Finset.sum_congr rfl fun i _ => by rw [ha1 i]

/-- **`join` preserves passivity** (any power functional) -/
theorem St.join_passive (w : F → R) (self st c : St F) (newId : Nat)
    (hs : self.pins.Nodup) (ht : st.pins.Nodup) (hd : ∀ p, p ∈ self.pins → p ∈ st.pins → False)
    (ls : self.PassiveW w) (lt : st.PassiveW w) (h : St.join self st newId = .ok c) : c.PassiveW w := by
  obtain ⟨links, selfIn, stOut, jf⟩ := St.join_facts self st c newId hs ht hd h
  have lA := ablk_passive w self selfIn links hs jf.pA ls
  have lB := bblk_passive w st links stOut ht jf.pB lt
  have lC := star_passive _ _ jf.hu _ _ _ lA lB
  intro a
  have hout : ∀ b : PinRef → F,
      (∀ i : Fin selfIn.length, c.out b selfIn[i] =
        (((St.ablk self selfIn links).add (St.bblk st links stOut)).S21 *ᵥ (fun i => b selfIn[i]) +
         ((St.ablk self selfIn links).add (St.bblk st links stOut)).S22 *ᵥ (fun j => b stOut[j])) i) ∧
      (∀ j : Fin stOut.length, c.out b stOut[j] =
        (((St.ablk self selfIn links).add (St.bblk st links stOut)).S11 *ᵥ (fun i => b selfIn[i]) +
         ((St.ablk self selfIn links).add (St.bblk st links stOut)).S12 *ᵥ (fun j => b stOut[j])) j) := by
    intro b
    have key : ∀ p, c.out b p = (∑ j : Fin selfIn.length, c.sem p selfIn[j] * b selfIn[j]) + ∑ j : Fin stOut.length, c.sem p stOut[j] * b stOut[j] := by
      intro p
      unfold St.out
      rw [jf.hpins, rowSum_append, rowSum_get, rowSum_get]
    constructor
    · intro i
      rw [key]
      simp only [Matrix.add_apply, Pi.add_apply, Matrix.mulVec, dotProduct]
      congr 1
      · exact Finset.sum_congr rfl fun j _ => by
          rw [jf.e21 i j]
      · exact Finset.sum_congr rfl fun j _ => by
          rw [jf.e22 i j]
    · intro j
      rw [key]
      simp only [Matrix.add_apply, Pi.add_apply, Matrix.mulVec, dotProduct]
      congr 1
      · exact Finset.sum_congr rfl fun i _ => by
          rw [jf.e11 j i]
      · exact Finset.sum_congr rfl fun i _ => by
          rw [jf.e12 j i]
  obtain ⟨o1, o2⟩ := hout a
  have := lC (fun i => a selfIn[i]) (fun j => a stOut[j])
  unfold pwφ at this
  rw [jf.hpins, sumL_append, sumL_append, sumL_get, sumL_get, sumL_get, sumL_get]
  convert this using 2
  · exact Finset.sum_congr rfl fun i _ => by rw [o1 i]
  · exact Finset.sum_congr rfl fun j _ => by rw [o2 j]

end passive

namespace NetD
variable {F : Type} [Field F] [DecidableEq F] {R : Type*} [AddCommGroup R] [PartialOrder R] [IsOrderedAddMonoid R]
open Solve

/-- **network-level passivity, any schedule, any power functional**: a circuit of passive components never shows gain -/
theorem solveWith_passive (w : F → R) (net : NetD F) (wf : net.WF) (sched) (total : St F)
    (h : net.solveWith sched = .ok total) (hl : ∀ s ∈ net.initial, s.PassiveW w) : total.PassiveW w :=
  loopWith_preserves net.Sol (St.PassiveW w)
    (fun s t c newId hs ht hd ls lt hj => St.join_passive w s t c newId hs ht hd ls lt hj)
    sched _ _ _ total (fullInv_initial net wf).linv hl h

end NetD
