import LekkerVerif.Core.Complete

/-! Properties of a structure's matrix that every `join` preserves, carried through the elimination
loop for an arbitrary schedule (network-level C08). -/

open Matrix

namespace Solve
variable {F : Type} [Field F] [DecidableEq F]

/-- any per-structure predicate preserved by `join` holds of the structure the loop ends with -/
theorem loopWith_preserves (W : (PinRef → F) → (PinRef → F) → Prop) (Pr : St F → Prop)
    (hjoin : ∀ (s t c : St F) (newId : Nat), s.pins.Nodup → t.pins.Nodup → Disj s t → Pr s → Pr t →
      St.join s t newId = .ok c → Pr c) (sched) :
    ∀ (fuel : Nat) (live : List (St F)) (fresh : Nat) (total : St F),
      LiveInv W live fresh → (∀ s ∈ live, Pr s) → loopWith sched fuel live fresh = .ok total → Pr total := by
  intro fuel live fresh total inv hp h
  have := loopWith_induct sched (fun live fresh => LiveInv W live fresh ∧ ∀ s ∈ live, Pr s) ?_
    fuel live fresh total ⟨inv, hp⟩ h
  · obtain ⟨_, _, q⟩ := this
    exact q total (by simp)
  · intro live live' fresh ⟨inv, hp⟩ hstep
    refine ⟨stepWith_inv W sched live live' fresh inv hstep, ?_⟩
    obtain ⟨src, tar, new, hsrc, htar, hne, hj, rfl⟩ := stepWith_cases sched live live' fresh hstep
    intro s hs
    rcases List.mem_append.1 hs with hs | hs
    · exact hp s (List.mem_of_mem_filter hs)
    · have : s = new := by simpa using hs
      subst this
      exact hjoin src tar s fresh (inv.good src hsrc).nodup (inv.good tar htar).nodup
        (inv.disj src hsrc tar htar hne) (hp src hsrc) (hp tar htar) hj

end Solve

namespace St
variable {F : Type} [Field F] [DecidableEq F]

/-- the structure's matrix is symmetric on its pins -/
def Recip (s : St F) : Prop := ∀ p ∈ s.pins, ∀ q ∈ s.pins, s.sem p q = s.sem q p

theorem join_recip (self st c : St F) (newId : Nat)
    (hs : self.pins.Nodup) (ht : st.pins.Nodup) (hd : ∀ p, p ∈ self.pins → p ∈ st.pins → False)
    (rs : self.Recip) (rt : st.Recip) (h : join self st newId = .ok c) : c.Recip := by
  obtain ⟨links, selfIn, stOut, jf⟩ := join_facts self st c newId hs ht hd h
  have inA : ∀ p ∈ selfIn, p ∈ self.pins := fun p hp => by rw [jf.eIn] at hp; exact List.mem_of_mem_filter hp
  have inB : ∀ p ∈ stOut, p ∈ st.pins := fun p hp => by rw [jf.eOut] at hp; exact List.mem_of_mem_filter hp
  have lA : ∀ i : Fin links.length, links[i].1 ∈ self.pins := fun i =>
    jf.subA _ (List.mem_map.2 ⟨links[i], List.getElem_mem _, rfl⟩)
  have lB : ∀ i : Fin links.length, links[i].2 ∈ st.pins := fun i =>
    jf.subB _ (List.mem_map.2 ⟨links[i], List.getElem_mem _, rfl⟩)
  have kA : ∀ i : Fin selfIn.length, selfIn[i] ∈ self.pins := fun i => inA _ (List.getElem_mem _)
  have kB : ∀ i : Fin stOut.length, stOut[i] ∈ st.pins := fun i => inB _ (List.getElem_mem _)
  have rA : (ablk self selfIn links).Reciprocal := by
    refine ⟨?_, ?_, ?_⟩ <;> ext i j <;> simp only [ablk, blk, Matrix.transpose_apply]
    · exact rs _ (kA j) _ (kA i)
    · exact rs _ (lA j) _ (lA i)
    · exact rs _ (kA j) _ (lA i)
  have rB : (bblk st links stOut).Reciprocal := by
    refine ⟨?_, ?_, ?_⟩ <;> ext i j <;> simp only [bblk, blk, Matrix.transpose_apply]
    · exact rt _ (lB j) _ (lB i)
    · exact rt _ (kB j) _ (kB i)
    · exact rt _ (lB j) _ (kB i)
  obtain ⟨r21, r12, r22⟩ := star_reciprocal _ _ jf.hu rA rB
  intro p hp q hq
  rw [jf.hpins] at hp hq
  rcases List.mem_append.1 hp with hp | hp <;> rcases List.mem_append.1 hq with hq | hq
  · obtain ⟨i, hi, rfl⟩ := List.getElem_of_mem hp
    obtain ⟨j, hj, rfl⟩ := List.getElem_of_mem hq
    have := congrFun (congrFun r21 ⟨i, hi⟩) ⟨j, hj⟩
    rw [Matrix.transpose_apply] at this
    have e1 := jf.e21 ⟨i, hi⟩ ⟨j, hj⟩
    have e2 := jf.e21 ⟨j, hj⟩ ⟨i, hi⟩
    simp only [Fin.getElem_fin] at e1 e2
    rw [e1, e2, this]
  · obtain ⟨i, hi, rfl⟩ := List.getElem_of_mem hp
    obtain ⟨j, hj, rfl⟩ := List.getElem_of_mem hq
    have := congrFun (congrFun r22 ⟨j, hj⟩) ⟨i, hi⟩
    rw [Matrix.transpose_apply] at this
    have e1 := jf.e22 ⟨i, hi⟩ ⟨j, hj⟩
    have e2 := jf.e11 ⟨j, hj⟩ ⟨i, hi⟩
    simp only [Fin.getElem_fin] at e1 e2
    rw [e1, e2, this]
  · obtain ⟨i, hi, rfl⟩ := List.getElem_of_mem hp
    obtain ⟨j, hj, rfl⟩ := List.getElem_of_mem hq
    have := congrFun (congrFun r22 ⟨i, hi⟩) ⟨j, hj⟩
    rw [Matrix.transpose_apply] at this
    have e1 := jf.e11 ⟨i, hi⟩ ⟨j, hj⟩
    have e2 := jf.e22 ⟨j, hj⟩ ⟨i, hi⟩
    simp only [Fin.getElem_fin] at e1 e2
    rw [e1, e2, this]
  · obtain ⟨i, hi, rfl⟩ := List.getElem_of_mem hp
    obtain ⟨j, hj, rfl⟩ := List.getElem_of_mem hq
    have := congrFun (congrFun r12 ⟨i, hi⟩) ⟨j, hj⟩
    rw [Matrix.transpose_apply] at this
    have e1 := jf.e12 ⟨i, hi⟩ ⟨j, hj⟩
    have e2 := jf.e12 ⟨j, hj⟩ ⟨i, hi⟩
    simp only [Fin.getElem_fin] at e1 e2
    rw [e1, e2, this]

end St

namespace NetD
variable {F : Type} [Field F] [DecidableEq F]
open Solve

/-- **network-level reciprocity, any schedule**: if every component's matrix is symmetric on its pins,
so is the matrix `solve` returns -/
theorem solveWith_recip (net : NetD F) (wf : net.WF) (sched) (total : St F)
    (h : net.solveWith sched = .ok total) (hr : ∀ s ∈ net.initial, s.Recip) : total.Recip :=
  loopWith_preserves net.Sol St.Recip
    (fun s t c newId hs ht hd rs rt hj => St.join_recip s t c newId hs ht hd rs rt hj)
    sched _ _ _ total (fullInv_initial net wf).linv hr h

end NetD
