import LekkerVerif.Core.GaussJordanSpec
import LekkerVerif.Core.Bridge

/-!
# Completeness of the certified inverse `Mat.inv?`

For a field `F` with decidable equality: if `A.toMatrix n n` is invertible then
`Mat.inv? A` returns a result (`Mat.inv?_complete`).  Together with `Mat.inv?_spec`
(soundness, `Bridge.lean`) this makes `inv?` a decision procedure for invertibility
(`Mat.inv?_isSome_iff`).

Structure of the proof
* `GaussJordanSpec.lean` : `gaussJordan A = gjSpec A` (functional specification);
* array lemmas: entries of the working array after `swapRows`, `scaleRow`, `elimStep`;
* `RowEquiv W0 W` : `W = E * W0` for an invertible `E`; preserved by the three row operations;
* `Inv` : the loop invariant (well-formed, row equivalent to `[A | 1]`, first `col` columns
  are identity columns); `ElimInv` : invariant of the inner elimination loop;
* `not_isUnit_of_no_pivot` : pivot failure implies singularity;
* `gjSpec_of_isUnit` : on invertible input the elimination succeeds with `[1 | A⁻¹]`;
* `beq_of_toMatrix_eq` : converse of `eq_of_beq`; hence the two checks in `inv?` succeed.
-/

set_option linter.unusedSectionVars false
set_option linter.unusedVariables false

section ArrayLemmas
variable {α : Type} [Inhabited α]

theorem getElem!_set!_of_lt (M : Array α) (i k : Nat) (v : α) (hi : i < M.size) :
    (M.set! i v)[k]! = if k = i then v else M[k]! := by
  grind

theorem getElem!_map_of_lt {β : Type} [Inhabited β] (a : Array α) (f : α → β) (j : Nat)
    (hj : j < a.size) : (a.map f)[j]! = f a[j]! := by
  grind

theorem getElem!_mapIdx_of_lt {β : Type} [Inhabited β] (a : Array α) (f : Nat → α → β) (j : Nat)
    (hj : j < a.size) : (a.mapIdx f)[j]! = f j a[j]! := by
  grind

theorem getElem!_ofFn_of_lt (n : Nat) (f : Fin n → α) (j : Nat) (hj : j < n) :
    (Array.ofFn f)[j]! = f ⟨j, hj⟩ := by
  rw [getElem!_pos _ _ (by simpa using hj)]
  simp
end ArrayLemmas

open Matrix
namespace Mat

/-! ### Row equivalence (pure Mathlib) -/
section RowEquiv
variable {F : Type} [Field F] [DecidableEq F] {n m : Nat}

/-- `W` is obtained from `W0` by an invertible left multiplication -/
def RowEquiv (W0 W : Matrix (Fin n) (Fin m) F) : Prop :=
  ∃ E : Matrix (Fin n) (Fin n) F, IsUnit E ∧ W = E * W0

theorem RowEquiv.refl (W0 : Matrix (Fin n) (Fin m) F) : RowEquiv W0 W0 :=
  ⟨1, isUnit_one, (Matrix.one_mul _).symm⟩

/-- permuting rows -/
theorem RowEquiv.perm {W0 W W' : Matrix (Fin n) (Fin m) F} (h : RowEquiv W0 W)
    (σ : Equiv.Perm (Fin n)) (h' : ∀ i j, W' i j = W (σ i) j) : RowEquiv W0 W' := by
  obtain ⟨E, hE, rfl⟩ := h
  refine ⟨E.submatrix σ (Equiv.refl _), (Matrix.isUnit_submatrix_equiv σ (Equiv.refl _)).2 hE, ?_⟩
  ext i j
  rw [h']
  simp [Matrix.mul_apply]

/-- scaling a row by a non-zero factor -/
theorem RowEquiv.scale {W0 W W' : Matrix (Fin n) (Fin m) F} (h : RowEquiv W0 W)
    (a : Fin n) (c : F) (hc : c ≠ 0)
    (h' : ∀ i j, W' i j = if i = a then W a j * c else W i j) : RowEquiv W0 W' := by
  obtain ⟨E, hE, rfl⟩ := h
  refine ⟨E.updateRow a (c • E a), ?_, ?_⟩
  · rw [Matrix.isUnit_iff_isUnit_det, isUnit_iff_ne_zero] at hE ⊢
    rw [Matrix.det_updateRow_smul, Matrix.updateRow_eq_self]
    exact mul_ne_zero hc hE
  · ext i j
    rw [h']
    by_cases hi : i = a
    · subst hi
      simp only [Matrix.mul_apply, Matrix.updateRow_self, Pi.smul_apply, smul_eq_mul, if_true,
        Finset.sum_mul]
      exact Finset.sum_congr rfl (fun k _ => by ring)
    · simp [Matrix.mul_apply, hi]

/-- subtracting a multiple of another row -/
theorem RowEquiv.addRow {W0 W W' : Matrix (Fin n) (Fin m) F} (h : RowEquiv W0 W)
    (r a : Fin n) (f : F) (hra : r ≠ a)
    (h' : ∀ i j, W' i j = if i = r then W r j - f * W a j else W i j) : RowEquiv W0 W' := by
  obtain ⟨E, hE, rfl⟩ := h
  refine ⟨E.updateRow r (E r + (-f) • E a), ?_, ?_⟩
  · rw [Matrix.isUnit_iff_isUnit_det] at hE ⊢
    rwa [Matrix.det_updateRow_add_smul_self _ hra]
  · ext i j
    rw [h']
    by_cases hi : i = r
    · subst hi
      simp [Matrix.mul_apply, Finset.mul_sum, add_mul, Finset.sum_add_distrib, sub_eq_add_neg,
        mul_assoc]
    · simp [Matrix.mul_apply, hi]

/-- **Pivot failure implies singularity**: if the first `c` columns of `L` are identity columns and
column `c` vanishes from row `c` downwards, then `L` is not invertible. -/
theorem not_isUnit_of_no_pivot (L : Matrix (Fin n) (Fin n) F) (c : Fin n)
    (hid : ∀ i j : Fin n, j < c → L i j = if i = j then 1 else 0)
    (hz : ∀ i : Fin n, c ≤ i → L i c = 0) : ¬ IsUnit L := by
  intro hU
  have hinj := Matrix.mulVec_injective_iff_isUnit.2 hU
  let u : Fin n → F := fun k => if k < c then L k c else 0
  have key : L *ᵥ u = L *ᵥ (Pi.single c 1) := by
    ext i
    rw [Matrix.mulVec_single_one]
    simp only [Matrix.mulVec, dotProduct, Matrix.col_apply]
    have : ∀ k, L i k * u k = if i = k then u k else 0 := by
      intro k
      by_cases hk : k < c
      · rw [hid i k hk]; split <;> simp
      · simp [u, hk]
    simp only [this, Finset.sum_ite_eq, Finset.mem_univ, if_true]
    by_cases hi : i < c
    · simp [u, hi]
    · simp only [u, hi, if_false]
      exact (hz i (not_lt.mp hi)).symm
  have := congrFun (hinj key) c
  simp [u] at this

/-- left `n × n` block of an `n × m` matrix -/
def leftBlock (h : n ≤ m) (W : Matrix (Fin n) (Fin m) F) : Matrix (Fin n) (Fin n) F :=
  fun i j => W i (Fin.castLE h j)

theorem leftBlock_mul (h : n ≤ m) (E : Matrix (Fin n) (Fin n) F) (W : Matrix (Fin n) (Fin m) F) :
    leftBlock h (E * W) = E * leftBlock h W := by
  ext i j; simp [leftBlock, Matrix.mul_apply]

/-- right `n × n` block of an `n × 2n` matrix -/
def rightBlock (W : Matrix (Fin n) (Fin (2 * n)) F) : Matrix (Fin n) (Fin n) F :=
  fun i j => W i ⟨n + j.1, by omega⟩

theorem rightBlock_mul (E : Matrix (Fin n) (Fin n) F) (W : Matrix (Fin n) (Fin (2 * n)) F) :
    rightBlock (E * W) = E * rightBlock W := by
  ext i j; simp [rightBlock, Matrix.mul_apply]

end RowEquiv

/-! ### Entries of the working array -/
section Entries
variable {F : Type} [Scalar F]

/-- entry `(i, j)` of the working array (default value outside) -/
def ent (M : Array (Array F)) (i j : Nat) : F := (M[i]!)[j]!

/-- well-formedness of the working array: `n` rows of length `m` -/
def WF (n m : Nat) (M : Array (Array F)) : Prop := M.size = n ∧ ∀ i, i < n → (M[i]!).size = m

variable {n m : Nat} {M : Array (Array F)}

theorem swapRows_get {a b : Nat} (h : WF n m M) (ha : a < n) (hb : b < n) (i : Nat) :
    (swapRows a b M)[i]! = if i = b then M[a]! else if i = a then M[b]! else M[i]! := by
  obtain ⟨h1, h2⟩ := h
  unfold swapRows
  rw [getElem!_set!_of_lt _ _ _ _ (by simp [h1, hb]), getElem!_set!_of_lt _ _ _ _ (by simp [h1, ha])]

theorem WF_swapRows {a b : Nat} (h : WF n m M) (ha : a < n) (hb : b < n) :
    WF n m (swapRows a b M) := by
  refine ⟨by simp [swapRows, h.1], fun i hi => ?_⟩
  rw [swapRows_get h ha hb]
  split
  · exact h.2 _ ha
  · split
    · exact h.2 _ hb
    · exact h.2 _ hi

theorem ent_swapRows {a b : Nat} (h : WF n m M) (ha : a < n) (hb : b < n) (i j : Nat) :
    ent (swapRows a b M) i j = ent M (if i = b then a else if i = a then b else i) j := by
  unfold ent
  rw [swapRows_get h ha hb]
  split
  · rfl
  · split <;> rfl

theorem scaleRow_get {a : Nat} (h : WF n m M) (ha : a < n) (i : Nat) :
    (scaleRow a M)[i]! = if i = a then (M[a]!).map (· * ((M[a]!)[a]!)⁻¹) else M[i]! := by
  unfold scaleRow
  rw [getElem!_set!_of_lt _ _ _ _ (by simp [h.1, ha])]

theorem WF_scaleRow {a : Nat} (h : WF n m M) (ha : a < n) : WF n m (scaleRow a M) := by
  refine ⟨by simp [scaleRow, h.1], fun i hi => ?_⟩
  rw [scaleRow_get h ha]
  split
  · rw [Array.size_map]; exact h.2 _ ha
  · exact h.2 _ hi

theorem ent_scaleRow {a : Nat} (h : WF n m M) (ha : a < n) (i j : Nat) (hj : j < m) :
    ent (scaleRow a M) i j = if i = a then ent M a j * (ent M a a)⁻¹ else ent M i j := by
  unfold ent
  rw [scaleRow_get h ha]
  split
  · rw [getElem!_map_of_lt _ _ _ (by rw [h.2 _ ha]; exact hj)]
  · rfl

theorem elimStep_self (col : Nat) : elimStep col M col = M := by
  unfold elimStep
  simp

theorem WF_elimStep {col r : Nat} (h : WF n m M) (hr : r < n) : WF n m (elimStep col M r) := by
  unfold elimStep
  split
  · split
    · refine ⟨by simp [h.1], fun i hi => ?_⟩
      rw [getElem!_set!_of_lt _ _ _ _ (by rw [h.1]; exact hr)]
      split
      · rw [Array.size_mapIdx]; exact h.2 _ hr
      · exact h.2 _ hi
    · exact h
  · exact h

end Entries

/-! ### The loop invariants -/
section Invariant
variable {F : Type} [Field F] [DecidableEq F] {n m : Nat} {M : Array (Array F)}

/-- the working array read as a Mathlib matrix -/
def rowsMat (n m : Nat) (M : Array (Array F)) : Matrix (Fin n) (Fin m) F :=
  fun i j => ent M i.1 j.1

theorem elimStep_of_zero {col r : Nat} (hf : ent M r col = 0) : elimStep col M r = M := by
  unfold elimStep
  have : ((M[r]!)[col]! == (0:F)) = true := by simpa [ent] using hf
  simp [this]

theorem ent_elimStep {col r : Nat} (h : WF n m M) (hr : r < n) (hrc : r ≠ col)
    (hf : ent M r col ≠ 0) (i j : Nat) (hj : j < m) :
    ent (elimStep col M r) i j =
      if i = r then ent M r j - ent M r col * ent M col j else ent M i j := by
  have e : elimStep col M r =
      M.set! r ((M[r]!).mapIdx fun j x => x - (M[r]!)[col]! * (M[col]!)[j]!) := by
    unfold elimStep
    have h0 : ((M[r]!)[col]! == (0:F)) = false := by simpa [ent] using hf
    simp [hrc, h0]
  rw [e]
  unfold ent
  rw [getElem!_set!_of_lt _ _ _ _ (by rw [h.1]; exact hr)]
  split
  · rw [getElem!_mapIdx_of_lt _ _ _ (by rw [h.2 r hr]; exact hj)]
  · rfl

/-- pivot search, on a list of candidate rows -/
theorem pivFold_spec (n col : Nat) (M : Array (Array F)) :
    ∀ (l : List Nat), (∀ r ∈ l, r < n) → ∀ p0 : Nat,
      (p0 ≠ n → l.foldl (pivStep n col M) p0 = p0) ∧
      (p0 = n → (l.foldl (pivStep n col M) p0 = n ∧ ∀ r ∈ l, ent M r col = 0) ∨
        (l.foldl (pivStep n col M) p0 ∈ l ∧ ent M (l.foldl (pivStep n col M) p0) col ≠ 0))
  | [], _, p0 => by simp
  | r :: l, hl, p0 => by
    have hr : r < n := hl r (by simp)
    have hl' : ∀ r ∈ l, r < n := fun x hx => hl x (by simp [hx])
    rw [List.foldl_cons]
    refine ⟨fun hp => ?_, fun hp => ?_⟩
    · have : pivStep n col M p0 r = p0 := by simp [pivStep, hp]
      rw [this]
      exact (pivFold_spec n col M l hl' p0).1 hp
    · subst hp
      by_cases hz : ent M r col = 0
      · have : pivStep p0 col M p0 r = p0 := by
          have h0 : ((M[r]!)[col]! == (0:F)) = true := by simpa [ent] using hz
          simp [pivStep, h0]
        rw [this]
        rcases (pivFold_spec p0 col M l hl' p0).2 rfl with ⟨h1, h2⟩ | ⟨h1, h2⟩
        · left
          refine ⟨h1, fun x hx => ?_⟩
          rcases List.mem_cons.1 hx with rfl | hx
          · exact hz
          · exact h2 x hx
        · right
          exact ⟨List.mem_cons_of_mem _ h1, h2⟩
      · have : pivStep p0 col M p0 r = r := by
          have h0 : ((M[r]!)[col]! == (0:F)) = false := by simpa [ent] using hz
          simp [pivStep, h0]
        rw [this, (pivFold_spec p0 col M l hl' r).1 (by omega)]
        right
        exact ⟨by simp, hz⟩

theorem pivSearch_spec (n col : Nat) (M : Array (Array F)) (hcol : col ≤ n) :
    (pivSearch n col M = n ∧ ∀ r, col ≤ r → r < n → ent M r col = 0) ∨
    (col ≤ pivSearch n col M ∧ pivSearch n col M < n ∧ ent M (pivSearch n col M) col ≠ 0) := by
  have hmem : ∀ r, r ∈ List.range' col (n - col) ↔ col ≤ r ∧ r < n := by
    intro r; rw [List.mem_range'_1]; omega
  rcases (pivFold_spec n col M (List.range' col (n - col))
      (fun r hr => ((hmem r).1 hr).2) n).2 rfl with ⟨h1, h2⟩ | ⟨h1, h2⟩
  · left
    exact ⟨h1, fun r hr1 hr2 => h2 r ((hmem r).2 ⟨hr1, hr2⟩)⟩
  · right
    exact ⟨((hmem _).1 h1).1, ((hmem _).1 h1).2, h2⟩

theorem gjStep_eq_some (n col : Nat) (M : Array (Array F)) (h : pivSearch n col M ≠ n) :
    gjStep n col M =
      some ((List.range' 0 n).foldl (elimStep col) (swapScale col (pivSearch n col M) M)) := by
  unfold gjStep
  simp [h]

/-- **Loop invariant** of the outer loop, before processing column `col`. -/
structure Inv (n m : Nat) (W0 : Matrix (Fin n) (Fin m) F) (col : Nat) (M : Array (Array F)) :
    Prop where
  wf : WF n m M
  re : RowEquiv W0 (rowsMat n m M)
  cid : ∀ i j, i < n → j < col → ent M i j = if i = j then 1 else 0

variable {W0 : Matrix (Fin n) (Fin m) F} {col : Nat}

theorem Inv.swap {p : Nat} (h : Inv n m W0 col M) (hcol : col < n) (hp1 : col ≤ p) (hp2 : p < n) :
    Inv n m W0 col (swapRows col p M) := by
  refine ⟨WF_swapRows h.wf hcol hp2, ?_, ?_⟩
  · refine h.re.perm (Equiv.swap ⟨col, hcol⟩ ⟨p, hp2⟩) ?_
    intro i j
    show ent _ i.1 j.1 = ent M _ j.1
    rw [ent_swapRows h.wf hcol hp2, Equiv.swap_apply_def]
    congr 1
    simp only [apply_ite Fin.val, Fin.ext_iff]
    split_ifs <;> omega
  · intro i j hi hj
    rw [ent_swapRows h.wf hcol hp2]
    by_cases h1 : i = p
    · rw [if_pos h1, h.cid col j hcol hj, if_neg (by omega), if_neg (by omega)]
    · by_cases h2 : i = col
      · rw [if_neg h1, if_pos h2, h.cid p j hp2 hj, if_neg (by omega), if_neg (by omega)]
      · rw [if_neg h1, if_neg h2]; exact h.cid i j hi hj

theorem Inv.scale (h : Inv n m W0 col M) (hcol : col < n) (hnm : n ≤ m)
    (hp : ent M col col ≠ 0) :
    Inv n m W0 col (scaleRow col M) ∧ ent (scaleRow col M) col col = 1 := by
  refine ⟨⟨WF_scaleRow h.wf hcol, ?_, ?_⟩, ?_⟩
  · refine h.re.scale ⟨col, hcol⟩ (ent M col col)⁻¹ (inv_ne_zero hp) ?_
    intro i j
    show ent _ i.1 j.1 = if i = _ then ent M col j.1 * _ else ent M i.1 j.1
    rw [ent_scaleRow h.wf hcol _ _ j.2]
    simp only [Fin.ext_iff]
  · intro i j hi hj
    rw [ent_scaleRow h.wf hcol _ _ (by omega)]
    by_cases h1 : i = col
    · rw [if_pos h1, h.cid col j hcol hj, if_neg (by omega), if_neg (by omega)]
      exact zero_mul _
    · rw [if_neg h1]; exact h.cid i j hi hj
  · rw [ent_scaleRow h.wf hcol _ _ (by omega), if_pos rfl]
    exact mul_inv_cancel₀ hp

/-- invariant of the elimination loop, before processing row `k` -/
structure ElimInv (n m : Nat) (W0 : Matrix (Fin n) (Fin m) F) (col k : Nat)
    (M : Array (Array F)) : Prop extends Inv n m W0 col M where
  piv1 : ent M col col = 1
  cleared : ∀ i, i < k → i ≠ col → ent M i col = 0

theorem ElimInv.step {r : Nat} (h : ElimInv n m W0 col r M) (hcol : col < n) (hnm : n ≤ m)
    (hr : r < n) : ElimInv n m W0 col (r + 1) (elimStep col M r) := by
  by_cases hrc : r = col
  · subst hrc
    rw [elimStep_self]
    exact ⟨h.toInv, h.piv1, fun i hi hic => h.cleared i (by omega) hic⟩
  by_cases hf : ent M r col = 0
  · rw [elimStep_of_zero hf]
    refine ⟨h.toInv, h.piv1, fun i hi hic => ?_⟩
    by_cases hir : i = r
    · rw [hir]; exact hf
    · exact h.cleared i (by omega) hic
  have hE := fun i j hj => ent_elimStep (i := i) (j := j) h.wf hr hrc hf hj
  refine ⟨⟨WF_elimStep h.wf hr, ?_, ?_⟩, ?_, ?_⟩
  · refine h.re.addRow ⟨r, hr⟩ ⟨col, hcol⟩ (ent M r col) (by simpa [Fin.ext_iff] using hrc) ?_
    intro i j
    show ent _ i.1 j.1 = if i = _ then ent M r j.1 - _ * ent M col j.1 else ent M i.1 j.1
    rw [hE _ _ j.2]
    simp only [Fin.ext_iff]
  · intro i j hi hj
    rw [hE _ _ (by omega)]
    by_cases hir : i = r
    · rw [if_pos hir, h.cid col j hcol hj, if_neg (by omega), mul_zero, sub_zero, ← hir]
      exact h.cid i j hi hj
    · rw [if_neg hir]; exact h.cid i j hi hj
  · rw [hE _ _ (by omega), if_neg (Ne.symm hrc)]
    exact h.piv1
  · intro i hi hic
    rw [hE _ _ (by omega)]
    by_cases hir : i = r
    · rw [if_pos hir, h.piv1, mul_one, sub_self]
    · rw [if_neg hir]; exact h.cleared i (by omega) hic

theorem ElimInv.fold (hcol : col < n) (hnm : n ≤ m) :
    ∀ (k s : Nat) (M : Array (Array F)), s + k ≤ n → ElimInv n m W0 col s M →
      ElimInv n m W0 col (s + k) ((List.range' s k).foldl (elimStep col) M)
  | 0, s, M, _, h => by simpa using h
  | k + 1, s, M, hs, h => by
    rw [List.range'_succ, List.foldl_cons]
    have := ElimInv.fold hcol hnm k (s + 1) _ (by omega) (h.step hcol hnm (by omega))
    rwa [show s + 1 + k = s + (k + 1) by omega] at this

theorem ElimInv.finish (h : ElimInv n m W0 col n M) (hcol : col < n) :
    Inv n m W0 (col + 1) M := by
  refine ⟨h.wf, h.re, fun i j hi hj => ?_⟩
  by_cases hjc : j = col
  · subst hjc
    by_cases hij : i = j
    · rw [if_pos hij, hij]; exact h.piv1
    · rw [if_neg hij]; exact h.cleared i hi hij
  · exact h.cid i j hi (by omega)

/-- one column step preserves the invariant, provided a pivot exists -/
theorem gjStep_inv (h : Inv n m W0 col M) (hcol : col < n) (hnm : n ≤ m)
    (hpiv : ∃ r, col ≤ r ∧ r < n ∧ ent M r col ≠ 0) :
    ∃ M', gjStep n col M = some M' ∧ Inv n m W0 (col + 1) M' := by
  rcases pivSearch_spec n col M (le_of_lt hcol) with ⟨_, hz⟩ | ⟨hp1, hp2, hp3⟩
  · obtain ⟨r, h1, h2, h3⟩ := hpiv
    exact absurd (hz r h1 h2) h3
  · refine ⟨_, gjStep_eq_some n col M (by omega), ?_⟩
    generalize pivSearch n col M = p at hp1 hp2 hp3
    have h1 := h.swap hcol hp1 hp2
    have hpivot : ent (swapRows col p M) col col = ent M p col := by
      rw [ent_swapRows h.wf hcol hp2]
      by_cases hcp : col = p
      · rw [if_pos hcp, hcp]
      · rw [if_neg hcp, if_pos rfl]
    obtain ⟨h2, h3⟩ := h1.scale hcol hnm (by rwa [hpivot])
    have h4 : ElimInv n m W0 col 0 (swapScale col p M) :=
      ⟨h2, h3, fun i hi => absurd hi (Nat.not_lt_zero _)⟩
    have h5 := ElimInv.fold hcol hnm n 0 _ (by omega) h4
    rw [Nat.zero_add] at h5
    exact h5.finish hcol

/-- given the invariant and an invertible left block, a pivot exists -/
theorem Inv.exists_pivot (h : Inv n m W0 col M) (hcol : col < n) (hnm : n ≤ m)
    (hU : IsUnit (leftBlock hnm W0)) : ∃ r, col ≤ r ∧ r < n ∧ ent M r col ≠ 0 := by
  by_contra hcon
  push Not at hcon
  obtain ⟨E, hE, hW⟩ := h.re
  have hL : leftBlock hnm (rowsMat n m M) = E * leftBlock hnm W0 := by
    rw [hW, leftBlock_mul]
  have hUL : IsUnit (leftBlock hnm (rowsMat n m M)) := by rw [hL]; exact hE.mul hU
  refine not_isUnit_of_no_pivot _ ⟨col, hcol⟩ ?_ ?_ hUL
  · intro i j hj
    show ent M i.1 j.1 = _
    rw [h.cid _ _ i.2 hj]
    simp only [Fin.ext_iff]
  · intro i hi
    exact hcon i.1 hi i.2

/-- the whole outer loop succeeds and establishes the invariant for `col = n` -/
theorem gjLoop_inv (hnm : n ≤ m) (hU : IsUnit (leftBlock hnm W0)) :
    ∀ (k col : Nat) (M : Array (Array F)), col + k = n → Inv n m W0 col M →
      ∃ M', gjLoop n (List.range' col k) M = some M' ∧ Inv n m W0 n M'
  | 0, col, M, hk, h => ⟨M, rfl, by
      have : col = n := by omega
      subst this; exact h⟩
  | k + 1, col, M, hk, h => by
    have hcol : col < n := by omega
    obtain ⟨M1, e1, h1⟩ := gjStep_inv h hcol hnm (h.exists_pivot hcol hnm hU)
    obtain ⟨M2, e2, h2⟩ := gjLoop_inv hnm hU k (col + 1) M1 (by omega) h1
    refine ⟨M2, ?_, h2⟩
    rw [List.range'_succ]
    simp only [gjLoop, e1]
    exact e2

end Invariant

/-! ### The initial array, and the main theorems -/
section Main
variable {F : Type} [Field F] [DecidableEq F]

theorem ent_gjInit (A : Mat F) (i j : Nat) (hi : i < A.r) (hj : j < 2 * A.r) :
    ent (gjInit A) i j =
      if j < A.r then A.get i j else (if j - A.r = i then 1 else 0) := by
  unfold ent gjInit
  rw [getElem!_ofFn_of_lt _ _ _ hi, getElem!_ofFn_of_lt _ _ _ hj]

theorem WF_gjInit (A : Mat F) : WF A.r (2 * A.r) (gjInit A) := by
  refine ⟨by simp [gjInit], fun i hi => ?_⟩
  unfold gjInit
  rw [getElem!_ofFn_of_lt _ _ _ hi, Array.size_ofFn]

theorem leftBlock_gjInit (A : Mat F) :
    leftBlock (by omega) (rowsMat A.r (2 * A.r) (gjInit A)) = A.toMatrix A.r A.r := by
  ext i j
  show ent (gjInit A) i.1 j.1 = A.get i.1 j.1
  rw [ent_gjInit A _ _ i.2 (by omega), if_pos j.2]

theorem rightBlock_gjInit (A : Mat F) :
    rightBlock (rowsMat A.r (2 * A.r) (gjInit A)) = 1 := by
  ext i j
  show ent (gjInit A) i.1 (A.r + j.1) = _
  rw [ent_gjInit A _ _ i.2 (by omega), if_neg (by omega), Matrix.one_apply]
  simp only [Nat.add_sub_cancel_left, Fin.ext_iff]
  by_cases h : j.1 = i.1
  · rw [if_pos h, if_pos h.symm]
  · rw [if_neg h, if_neg (Ne.symm h)]

theorem Inv_gjInit (A : Mat F) :
    Inv A.r (2 * A.r) (rowsMat A.r (2 * A.r) (gjInit A)) 0 (gjInit A) :=
  ⟨WF_gjInit A, RowEquiv.refl _, fun i j _ hj => absurd hj (Nat.not_lt_zero _)⟩

/-- **Gauss–Jordan on an invertible matrix** (specification level): the elimination succeeds,
the working array is well-formed, its left block is `1` and its right block `R` satisfies
`R * A = 1` (so `R = A⁻¹`). -/
theorem gjSpec_of_isUnit (A : Mat F) (h : IsUnit (A.toMatrix A.r A.r)) :
    ∃ M, gjSpec A = some M ∧ WF A.r (2 * A.r) M ∧
      leftBlock (by omega) (rowsMat A.r (2 * A.r) M) = 1 ∧
      rightBlock (rowsMat A.r (2 * A.r) M) * A.toMatrix A.r A.r = 1 := by
  have hnm : A.r ≤ 2 * A.r := by omega
  obtain ⟨M, e, hI⟩ := gjLoop_inv (W0 := rowsMat A.r (2 * A.r) (gjInit A)) hnm
    (by rw [leftBlock_gjInit]; exact h) A.r 0 (gjInit A) (by omega) (Inv_gjInit A)
  refine ⟨M, e, hI.wf, ?_, ?_⟩
  · ext i j
    show ent M i.1 j.1 = _
    rw [hI.cid _ _ i.2 j.2, Matrix.one_apply]
    simp only [Fin.ext_iff]
  · obtain ⟨E, hE, hW⟩ := hI.re
    have h1 : leftBlock hnm (rowsMat A.r (2 * A.r) M) = 1 := by
      ext i j
      show ent M i.1 j.1 = _
      rw [hI.cid _ _ i.2 j.2, Matrix.one_apply]
      simp only [Fin.ext_iff]
    have h2 : rightBlock (rowsMat A.r (2 * A.r) M) = E := by
      rw [hW, rightBlock_mul, rightBlock_gjInit, Matrix.mul_one]
    rw [h2, ← leftBlock_gjInit, ← leftBlock_mul, ← hW, h1]

/-- the same for the imperative code -/
theorem gaussJordan_of_isUnit (A : Mat F) (h : IsUnit (A.toMatrix A.r A.r)) :
    ∃ M, gaussJordan A = some M ∧ WF A.r (2 * A.r) M ∧
      leftBlock (by omega) (rowsMat A.r (2 * A.r) M) = 1 ∧
      rightBlock (rowsMat A.r (2 * A.r) M) * A.toMatrix A.r A.r = 1 := by
  rw [gaussJordan_eq_spec]; exact gjSpec_of_isUnit A h

/-- converse of `eq_of_beq` (for matrices with well-formed data) -/
theorem beq_of_toMatrix_eq (P Q : Mat F) (r c : Nat) (hPr : P.r = r) (hPc : P.c = c)
    (hQr : Q.r = r) (hQc : Q.c = c) (hPd : P.d.size = r * c) (hQd : Q.d.size = r * c)
    (h : P.toMatrix r c = Q.toMatrix r c) : beq P Q = true := by
  unfold beq
  simp only [Bool.and_eq_true, beq_iff_eq, List.all_eq_true, List.mem_range]
  refine ⟨⟨⟨by omega, by omega⟩, by omega⟩, fun k hk => ?_⟩
  have hc : 0 < c := by
    rcases Nat.eq_zero_or_pos c with h0 | h0
    · subst h0; rw [Nat.mul_zero] at hPd; omega
    · exact h0
  have hkr : k / c < r := (Nat.div_lt_iff_lt_mul hc).2 (by rw [← hPd]; exact hk)
  have := congrFun (congrFun h ⟨k / c, hkr⟩) ⟨k % c, Nat.mod_lt _ hc⟩
  simp only [toMatrix, get, hPc, hQc, Nat.div_add_mod'] at this
  exact this

theorem ofFn_d_size (r c : Nat) (f : Nat → Nat → F) : (ofFn r c f).d.size = r * c := by
  simp [ofFn]

theorem mul_d_size (A B : Mat F) : (mul A B).d.size = A.r * B.c := by
  unfold mul; exact ofFn_d_size _ _ _

theorem one_d_size (n : Nat) : (one n : Mat F).d.size = n * n := by
  unfold one; exact ofFn_d_size _ _ _

/-- if Gauss–Jordan returns `M` and the right block of `M` is a left inverse of `A`,
then both checks in `inv?` succeed -/
theorem inv?_eq_some_of (A : Mat F) (M : Array (Array F)) (e : gaussJordan A = some M)
    (X : Mat F) (hX : X = ofFn A.r A.r fun i j => (M[i]!)[A.r + j]!) (hc : A.c = A.r)
    (hXA : X.toMatrix A.r A.r * A.toMatrix A.r A.r = 1) : inv? A = some X := by
  have hXr : X.r = A.r := by rw [hX]; rfl
  have hXc : X.c = A.r := by rw [hX]; rfl
  have hXd : X.d.size = A.r * A.r := by rw [hX]; exact ofFn_d_size _ _ _
  have hAX := mul_eq_one_comm.1 hXA
  have b1 : beq (mul A X) (one A.r) = true := by
    refine beq_of_toMatrix_eq _ _ A.r A.r rfl hXc rfl rfl ?_ (one_d_size _) ?_
    · rw [mul_d_size, hXc]
    · rw [toMatrix_mul' A X A.r A.r A.r rfl hc hXc, hAX, toMatrix_one]
  have b2 : beq (mul X A) (one A.r) = true := by
    refine beq_of_toMatrix_eq _ _ A.r A.r hXr hc rfl rfl ?_ (one_d_size _) ?_
    · rw [mul_d_size, hXr, hc]
    · rw [toMatrix_mul' X A A.r A.r A.r hXr hXc hc, hXA, toMatrix_one]
  unfold inv?
  rw [e]
  simp only
  rw [← hX, b1, b2]
  rfl

/-- **Completeness of the certified inverse.** -/
theorem inv?_complete' (A : Mat F) (n : Nat) (hr : A.r = n) (hc : A.c = n)
    (h : IsUnit (A.toMatrix n n)) : ∃ X, Mat.inv? A = some X := by
  subst hr
  obtain ⟨M, e, _, _, hR⟩ := gaussJordan_of_isUnit A h
  refine ⟨_, inv?_eq_some_of A M e _ rfl hc ?_⟩
  rw [toMatrix_ofFn]
  exact hR

/-- **Completeness of the certified inverse**, in the requested form. -/
theorem inv?_complete (A : Mat F) (n : Nat) (hr : A.r = n) (hc : A.c = n)
    (hd : A.d.size = n * n) (h : IsUnit (A.toMatrix n n)) : ∃ X, Mat.inv? A = some X :=
  inv?_complete' A n hr hc h

/-- `inv?` decides invertibility. -/
theorem inv?_isSome_iff (A : Mat F) (n : Nat) (hr : A.r = n) (hc : A.c = n) :
    (Mat.inv? A).isSome = true ↔ IsUnit (A.toMatrix n n) := by
  constructor
  · intro hs
    obtain ⟨X, hX⟩ := Option.isSome_iff_exists.1 hs
    obtain ⟨_, _, h1, h2⟩ := inv?_spec A X n hr hc hX
    exact ⟨⟨A.toMatrix n n, X.toMatrix n n, h1, h2⟩, rfl⟩
  · intro h
    obtain ⟨X, hX⟩ := inv?_complete' A n hr hc h
    rw [hX]; rfl

end Main
end Mat
