import LekkerVerif.Properties.C01
import LekkerVerif.Core.DefinedLoop
import LekkerVerif.Core.HierSolveSpec
import LekkerVerif.Core.WFCheck
/-! Soundness (and completeness) of the executable well-formedness checkers of `Core/WFCheck.lean`.

Every Boolean checker the driver evaluates decides exactly the hypothesis of the theorems it is named after:
`NetD.wfB ↔ NetD.WF`, `NetD.idxB ↔ NetD.IdxWF`, `NetD.exposureB ↔ NetD.ExposureOK`, `HNet.levelOKB ↔ HNet.LevelOK`,
`HNet.wfTreeB ↔ HNet.WFTree`.  The corollaries at the end restate the main theorems with the checkers as hypotheses, so a run
on which the checkers returned `true` is a run to which the theorems apply. -/

namespace NetD
variable {F : Type} [Field F] [DecidableEq F]

omit [Field F] [DecidableEq F] in
/-- the lookup the checkers use: the name is a pin of the component at that position -/
theorem contains_pinsAt (net : NetD F) (p : PinRef) :
    (net.pinsAt p.1).contains p.2 = true ↔ ∃ c, net.comps[p.1]? = some c ∧ p.2 ∈ c.pins := by
  unfold pinsAt
  cases h : net.comps[p.1]? with
  | none => simp
  | some c => simp

omit [Field F] [DecidableEq F] in
/-- `wfB` decides `WF` -/
theorem wfB_iff (net : NetD F) : net.wfB = true ↔ net.WF := by
  unfold wfB
  simp only [Bool.and_eq_true, List.all_eq_true, decide_eq_true_iff, contains_pinsAt, bne_iff_ne]
  constructor
  · rintro ⟨⟨⟨h1, h2⟩, h3⟩, h4⟩
    refine ⟨h1, h2, ?_, h4⟩
    intro l hl p hp
    rcases hp with rfl | rfl
    · exact (h3 l hl).1
    · exact (h3 l hl).2
  · intro w
    exact ⟨⟨⟨w.pinsNodup, w.endsNodup⟩,
      fun l hl => ⟨w.endsPins l hl _ (Or.inl rfl), w.endsPins l hl _ (Or.inr rfl)⟩⟩, w.noSelf⟩

omit [Field F] [DecidableEq F] in
theorem wfB_sound (net : NetD F) : net.wfB = true → net.WF := (wfB_iff net).1

omit [Field F] [DecidableEq F] in
/-- `idxB` decides `IdxWF` -/
theorem idxB_iff (net : NetD F) : net.idxB = true ↔ net.IdxWF := by
  unfold idxB IdxWF
  simp only [List.all_eq_true]

omit [Field F] [DecidableEq F] in
theorem idxB_sound (net : NetD F) : net.idxB = true → net.IdxWF := (idxB_iff net).1

/-- a pin of an initial structure is a pin name of the component at that position -/
theorem mem_initial_pins (net : NetD F) (p : PinRef) :
    (∃ s0 ∈ net.initial, p ∈ s0.pins) ↔ ∃ c, net.comps[p.1]? = some c ∧ p.2 ∈ c.pins := by
  constructor
  · rintro ⟨s0, hs, hp⟩
    obtain ⟨k, c, hk, rfl⟩ := (mem_initial net s0).1 hs
    obtain ⟨h1, h2⟩ := (mem_pins_mkSt net k c p).1 hp
    exact ⟨c, by rw [h1]; exact hk, h2⟩
  · rintro ⟨c, hc, hp⟩
    exact ⟨net.mkSt p.1 c, (mem_initial net _).2 ⟨p.1, c, hc, rfl⟩, (mem_pins_mkSt net p.1 c p).2 ⟨rfl, hp⟩⟩

omit [Field F] [DecidableEq F] in
/-- being free: no end of a link -/
theorem not_lnk_iff (net : NetD F) (p : PinRef) :
    (∀ q, ¬ net.Lnk p q) ↔ ∀ l ∈ net.links, p ≠ l.1 ∧ p ≠ l.2 := by
  constructor
  · intro h l hl
    constructor
    · rintro rfl; exact h l.2 (Or.inl hl)
    · rintro rfl; exact h l.1 (Or.inr hl)
  · intro h q hq
    rcases hq with hq | hq
    · exact (h _ hq).1 rfl
    · exact (h _ hq).2 rfl

/-- `exposureB` decides `ExposureOK` -/
theorem exposureB_iff (net : NetD F) : net.exposureB = true ↔ net.ExposureOK := by
  unfold exposureB
  simp only [Bool.and_eq_true, List.all_eq_true, decide_eq_true_iff, contains_pinsAt, bne_iff_ne]
  constructor
  · rintro ⟨⟨h1, h2⟩, h3⟩
    exact ⟨h1, fun e he => ⟨(mem_initial_pins net e.2).2 (h2 e he), (not_lnk_iff net e.2).2 (h3 e he)⟩⟩
  · intro w
    exact ⟨⟨w.nodup, fun e he => (mem_initial_pins net e.2).1 (w.free e he).1⟩,
      fun e he => (not_lnk_iff net e.2).1 (w.free e he).2⟩

theorem exposureB_sound (net : NetD F) : net.exposureB = true → net.ExposureOK := (exposureB_iff net).1

end NetD

namespace HNet
variable {F : Type} [Field F] [DecidableEq F]

omit [Field F] [DecidableEq F] in
/-- the checker's pin names are the pin names of the specification -/
theorem pinNamesB_eq (h : HNet F) : h.pinNamesB = h.pinNames := by
  cases h <;> rfl

omit [Field F] [DecidableEq F] in
theorem map_pinNamesB (cs : List (HNet F)) : cs.map pinNamesB = cs.map pinNames :=
  List.map_congr_left fun h _ => pinNamesB_eq h

omit [Field F] [DecidableEq F] in
/-- the lookup of `levelOKB` -/
theorem has_iff (pinss : List (List String)) (p : PinRef) :
    ((pinss[p.1]?).isSome = true ∧ ((pinss[p.1]?).getD []).contains p.2 = true) ↔
      ∃ ps, pinss[p.1]? = some ps ∧ p.2 ∈ ps := by
  cases h : pinss[p.1]? with
  | none => simp
  | some ps => simp

omit [Field F] [DecidableEq F] in
/-- `levelOKB` decides `LevelOK` -/
theorem levelOKB_iff (pinss : List (List String)) (links : List (PinRef × PinRef)) (exposed : List (String × PinRef)) :
    levelOKB pinss links exposed = true ↔ LevelOK pinss links exposed := by
  simp only [levelOKB, Bool.and_eq_true, List.all_eq_true, decide_eq_true_iff, has_iff, bne_iff_ne]
  constructor
  · rintro ⟨⟨⟨⟨⟨⟨⟨h1, h2⟩, h3⟩, h4⟩, h5⟩, h6⟩, h7⟩, h8⟩
    refine ⟨h1, h2, ?_, h4, h5, h6, h7, h8⟩
    intro l hl p hp
    rcases hp with rfl | rfl
    · exact (h3 l hl).1
    · exact (h3 l hl).2
  · intro w
    exact ⟨⟨⟨⟨⟨⟨⟨w.pinsNodup, w.endsNodup⟩,
      fun l hl => ⟨w.endsPins l hl _ (Or.inl rfl), w.endsPins l hl _ (Or.inr rfl)⟩⟩, w.noSelf⟩, w.expNodup⟩,
      w.expPins⟩, w.expFree⟩, w.namesNodup⟩

omit [Field F] [DecidableEq F] in
theorem levelOKB_sound (pinss : List (List String)) (links : List (PinRef × PinRef)) (exposed : List (String × PinRef)) :
    levelOKB pinss links exposed = true → LevelOK pinss links exposed := (levelOKB_iff pinss links exposed).1

omit [Field F] [DecidableEq F] in
mutual
/-- `wfTreeB` is sound for `WFTree` -/
theorem wfTreeB_sound : (h : HNet F) → h.wfTreeB = true → WFTree h
  | .leaf c, _ => WFTree.leaf c
  | .node cs links exposed, hb => by
    rw [wfTreeB, Bool.and_eq_true] at hb
    refine WFTree.node cs links exposed (wfTreeAllB_sound cs hb.1) ?_
    rw [← map_pinNamesB]
    exact levelOKB_sound _ _ _ hb.2
theorem wfTreeAllB_sound : (cs : List (HNet F)) → wfTreeAllB cs = true → ∀ h ∈ cs, WFTree h
  | [], _ => fun _ hh => by cases hh
  | h :: t, hb => by
    rw [wfTreeAllB, Bool.and_eq_true] at hb
    intro h' hh'
    rcases List.mem_cons.1 hh' with e | hm
    · rw [e]; exact wfTreeB_sound h hb.1
    · exact wfTreeAllB_sound t hb.2 h' hm
end

omit [Field F] [DecidableEq F] in
theorem wfTreeAllB_of_forall : (cs : List (HNet F)) → (∀ h ∈ cs, h.wfTreeB = true) → wfTreeAllB cs = true
  | [], _ => by rw [wfTreeAllB]
  | h :: t, hb => by
    rw [wfTreeAllB, Bool.and_eq_true]
    exact ⟨hb h List.mem_cons_self, wfTreeAllB_of_forall t fun h' hh' => hb h' (List.mem_cons_of_mem _ hh')⟩

omit [Field F] [DecidableEq F] in
/-- `wfTreeB` is complete for `WFTree` -/
theorem wfTreeB_complete {h : HNet F} (w : WFTree h) : h.wfTreeB = true := by
  induction w with
  | leaf c => rw [wfTreeB]
  | node cs links exposed _ hlev ih =>
    rw [wfTreeB, Bool.and_eq_true]
    refine ⟨wfTreeAllB_of_forall cs ih, ?_⟩
    rw [map_pinNamesB]
    exact (levelOKB_iff _ _ _).2 hlev

omit [Field F] [DecidableEq F] in
/-- `wfTreeB` decides `WFTree` -/
theorem wfTreeB_iff (h : HNet F) : h.wfTreeB = true ↔ WFTree h := ⟨wfTreeB_sound h, wfTreeB_complete⟩

end HNet

/-! ## the main theorems with the checkers as hypotheses -/

namespace NetD
variable {F : Type} [Field F] [DecidableEq F]

/-- **C01 on a checked input**: if the two checkers accept the network and the elimination returns, the returned
coefficients are the solution operator of the network equations -/
theorem checked_solve (net : NetD F) (sched) (total : St F) (hwf : net.wfB = true) (hex : net.exposureB = true)
    (h : net.solveWith sched = .ok total) : net.SolvedBy total.sem :=
  C01_solve_solves net (wfB_sound net hwf) (exposureB_sound net hex) sched total h

/-- **definedness on a checked input**: the only failure of the elimination is a singular inner system -/
theorem checked_defined (net : NetD F) (sched) (hwf : net.wfB = true) (hidx : net.idxB = true) (hne : net.comps ≠ [])
    (hv : Solve.ValidSched sched) :
    (∃ total, net.solveWith sched = .ok total) ∨ net.solveWith sched = .error .singular :=
  C01_only_failure_is_singular net (wfB_sound net hwf) (idxB_sound net hidx) hne sched hv

end NetD

namespace HNet
variable {F : Type} [Field F] [DecidableEq F]

/-- **hierarchical soundness on a checked input** -/
theorem checked_hier (sched : List (St F) → Option (Nat × Nat)) (h : HNet F) (c : CompD F) (hwf : h.wfTreeB = true)
    (hs : solveH sched h = .ok c) :
    ∃ T, h.flat.SolvedBy T ∧ h.flat.exposed = c.pins.map h.resolve ∧
      ∀ x ∈ c.pins, ∀ y ∈ c.pins, T (h.resolve x) (h.resolve y) = c.sem x y :=
  solveH_sound_of_wfTree sched h (wfTreeB_sound h hwf) c hs

end HNet

