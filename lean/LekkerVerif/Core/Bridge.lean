import LekkerVerif.Core.Basic
import Mathlib.Data.Matrix.Mul
import Mathlib.Algebra.BigOperators.Fin
import Mathlib.LinearAlgebra.Matrix.NonsingularInverse

open Matrix

instance fieldScalar (F : Type) [Field F] [DecidableEq F] : Scalar F := { default := 0 }

namespace Mat
variable {F : Type} [Field F] [DecidableEq F]

/-- abstraction: read the array as a Mathlib matrix of a given shape -/
def toMatrix (A : Mat F) (r c : Nat) : Matrix (Fin r) (Fin c) F := fun i j => A.get i.1 j.1

theorem get_ofFn (r c : Nat) (f : Nat → Nat → F) (i j : Nat) (hi : i < r) (hj : j < c) :
    (ofFn r c f).get i j = f i j := by
  unfold get ofFn
  have h : i * c + j < r * c := by
    calc i * c + j < i * c + c := by omega
      _ = (i + 1) * c := by ring
      _ ≤ r * c := Nat.mul_le_mul_right c hi
  simp only
  rw [getElem!_pos _ _ (by simpa using h)]
  simp only [Array.getElem_ofFn]
  have hc : 0 < c := by omega
  congr 1
  · rw [Nat.add_comm, Nat.add_mul_div_right _ _ hc, Nat.div_eq_of_lt hj, Nat.zero_add]
  · rw [Nat.add_comm, Nat.add_mul_mod_self_right, Nat.mod_eq_of_lt hj]

@[simp] theorem ofFn_r (r c : Nat) (f : Nat → Nat → F) : (ofFn r c f).r = r := rfl
@[simp] theorem ofFn_c (r c : Nat) (f : Nat → Nat → F) : (ofFn r c f).c = c := rfl

theorem toMatrix_ofFn (r c : Nat) (f : Nat → Nat → F) :
    (ofFn r c f).toMatrix r c = fun i j => f i.1 j.1 := by
  ext i j; exact get_ofFn r c f i.1 j.1 i.2 j.2

theorem sumTo_eq (k : Nat) (f : Nat → F) : sumTo k f = ∑ l : Fin k, f l.1 := by
  unfold sumTo
  induction k with
  | zero => simp
  | succ n ih =>
    rw [Nat.fold_succ, Fin.sum_univ_castSucc]
    simp [ih]

theorem toMatrix_mul (A B : Mat F) :
    (mul A B).toMatrix A.r B.c = A.toMatrix A.r A.c * B.toMatrix A.c B.c := by
  ext i j
  simp only [toMatrix, Matrix.mul_apply]
  unfold mul
  rw [get_ofFn _ _ _ _ _ i.2 j.2, sumTo_eq]

theorem toMatrix_add (A B : Mat F) :
    (add A B).toMatrix A.r A.c = A.toMatrix A.r A.c + B.toMatrix A.r A.c := by
  ext i j
  simp only [toMatrix, Matrix.add_apply]
  unfold add
  rw [get_ofFn _ _ _ _ _ i.2 j.2]

theorem toMatrix_sub (A B : Mat F) :
    (sub A B).toMatrix A.r A.c = A.toMatrix A.r A.c - B.toMatrix A.r A.c := by
  ext i j
  simp only [toMatrix, Matrix.sub_apply]
  unfold sub
  rw [get_ofFn _ _ _ _ _ i.2 j.2]

theorem toMatrix_one (n : Nat) : (one n : Mat F).toMatrix n n = 1 := by
  ext i j
  simp only [toMatrix]
  unfold one
  rw [get_ofFn _ _ _ _ _ i.2 j.2]
  by_cases h : i = j
  · subst h; simp
  · have : i.1 ≠ j.1 := fun e => h (Fin.ext e)
    simp [Matrix.one_apply, h, this]

/-- `beq` decides equality of the stored data -/
theorem eq_of_beq {A B : Mat F} (h : beq A B = true) : A = B := by
  unfold beq at h
  simp only [Bool.and_eq_true, beq_iff_eq, List.all_eq_true, List.mem_range] at h
  obtain ⟨⟨⟨hr, hc⟩, hs⟩, hd⟩ := h
  cases A with | mk r c d =>
  cases B with | mk r' c' d' =>
  simp only at hr hc hs hd
  subst hr hc
  congr
  apply Array.ext hs
  intro i h1 h2
  have := hd i h1
  rwa [getElem!_pos d i h1, getElem!_pos d' i h2] at this

/-- the certified inverse really is a two-sided inverse -/
-- shape-explicit forms: all dimensions are parameters tied by equations, so no dependent rewriting is needed
theorem toMatrix_mul' (A B : Mat F) (r k c : Nat) (hr : A.r = r) (hk : A.c = k) (hc : B.c = c) :
    (mul A B).toMatrix r c = A.toMatrix r k * B.toMatrix k c := by
  subst hr hk hc; exact toMatrix_mul A B
theorem toMatrix_add' (A B : Mat F) (r c : Nat) (hr : A.r = r) (hc : A.c = c) :
    (add A B).toMatrix r c = A.toMatrix r c + B.toMatrix r c := by
  subst hr hc; exact toMatrix_add A B
theorem toMatrix_sub' (A B : Mat F) (r c : Nat) (hr : A.r = r) (hc : A.c = c) :
    (sub A B).toMatrix r c = A.toMatrix r c - B.toMatrix r c := by
  subst hr hc; exact toMatrix_sub A B

theorem inv?_spec (A X : Mat F) (n : Nat) (hr : A.r = n) (hc : A.c = n) (h : inv? A = some X) :
    X.r = n ∧ X.c = n ∧ A.toMatrix n n * X.toMatrix n n = 1 ∧ X.toMatrix n n * A.toMatrix n n = 1 := by
  unfold inv? at h
  split at h
  · simp at h
  · rename_i M _
    simp only [Option.ite_none_right_eq_some, Option.some.injEq, Bool.and_eq_true] at h
    obtain ⟨⟨h1, h2⟩, hX⟩ := h
    subst hX
    have e1 := eq_of_beq h1
    have e2 := eq_of_beq h2
    refine ⟨hr, hr, ?_, ?_⟩
    · rw [← toMatrix_mul' A _ n n n hr hc (by simp [hr]), e1, hr, toMatrix_one]
    · rw [← toMatrix_mul' _ A n n n (by simp [hr]) (by simp [hr]) hc, e2, hr, toMatrix_one]
end Mat
