import LekkerVerif.Core.Refine
open Matrix
namespace St
variable {F : Type} [Field F] [DecidableEq F]

/-- success of `join` exposes all intermediate objects -/
theorem join_ok (self st c : St F) (newId : Nat) (h : join self st newId = .ok c) :
    ∃ links selfIn stOut A B C addPins,
      linkPins self st = .ok links ∧
      removeAll self.pins (links.map (·.1)) = .ok selfIn ∧
      removeAll st.pins (links.map (·.2)) = .ok stOut ∧
      self.split selfIn (links.map (·.1)) = .ok A ∧
      st.split (links.map (·.2)) stOut = .ok B ∧
      A.add? B = .ok C ∧
      removeAll (self.pins ++ st.pins) (links.map (·.1) ++ links.map (·.2)) = .ok addPins ∧
      c = build self st newId C addPins := by
  unfold join at h
  simp only [bind, Except.bind, pure, Except.pure] at h
  split at h; · simp at h
  rename_i links hl
  split at h; · simp at h
  rename_i selfIn h1
  split at h; · simp at h
  rename_i stOut h2
  split at h; · simp at h
  rename_i A h3
  split at h; · simp at h
  rename_i B h4
  split at h; · simp at h
  rename_i C h5
  split at h; · simp at h
  rename_i addPins h6
  simp only [Except.ok.injEq] at h
  exact ⟨links, selfIn, stOut, A, B, C, addPins, hl, h1, h2, h3, h4, h5, h6, h.symm⟩
end St

namespace St
variable {F : Type} [Field F] [DecidableEq F]

theorem join_sound (self st c : St F) (newId : Nat)
    (hs : self.pins.Nodup) (ht : st.pins.Nodup) (hd : ∀ p, p ∈ self.pins → p ∈ st.pins → False)
    (h : join self st newId = .ok c) :
    ∃ links : List (PinRef × PinRef), linkPins self st = .ok links ∧
      c.pins = self.pins.filter (fun p => !(links.map (·.1)).contains p)
                ++ st.pins.filter (fun p => !(links.map (·.2)).contains p) ∧
      ∀ a b : PinRef → F, Eqn self.pins self.sem a b → Eqn st.pins st.sem a b →
        (∀ l ∈ links, a l.1 = b l.2 ∧ a l.2 = b l.1) → Eqn c.pins c.sem a b := by
  obtain ⟨links, selfIn, stOut, A, B, C, addPins, hl, h1, h2, h3, h4, h5, h6, hc⟩ := join_ok self st c newId h
  refine ⟨links, hl, ?_⟩
  -- the pin lists
  obtain ⟨eIn, subA, ndA⟩ := removeAll_eq_filter _ _ _ hs h1
  obtain ⟨eOut, subB, ndB⟩ := removeAll_eq_filter _ _ _ ht h2
  have hnd : (self.pins ++ st.pins).Nodup :=
    List.nodup_append.2 ⟨hs, ht, fun p hp q hq e => hd p hp (e ▸ hq)⟩
  obtain ⟨eAdd, _, _⟩ := removeAll_eq_filter _ _ _ hnd h6
  rw [filter_append_disjoint _ _ _ _ subA subB hd, ← eIn, ← eOut] at eAdd
  have hpins : c.pins = selfIn ++ stOut := by rw [hc]; simp [build, eAdd]
  refine ⟨by rw [hpins, eIn, eOut], ?_⟩
  intro a b eA eB hlk
  -- partitions of the two pin lists
  have pA : self.pins.Perm (selfIn ++ links.map Prod.fst) := by
    rw [eIn]; exact perm_filter_split _ _ hs ndA subA
  have pB : st.pins.Perm (links.map Prod.snd ++ stOut) := by
    rw [eOut]; exact (perm_filter_split _ _ ht ndB subB).trans List.perm_append_comm
  -- the partitioned matrices
  have lenA : (links.map (·.1)).length = links.length := by simp
  have lenB : (links.map (·.2)).length = links.length := by simp
  obtain ⟨aN, aM, aWF, aSM⟩ := split_spec self selfIn (links.map (·.1)) A selfIn.length links.length rfl lenA h3
  obtain ⟨bN, bM, bWF, bSM⟩ := split_spec st (links.map (·.2)) stOut B links.length stOut.length lenB rfl h4
  obtain ⟨_, cN, cM, cWF, hu, cSM⟩ := SMat.add?_spec' A B C selfIn.length links.length stOut.length aWF bWF aN aM bM h5
  -- the abstract theorem
  have key := join_sound_abstract self.pins st.pins selfIn stOut links self.sem st.sem pA pB a b eA eB hlk
  simp only at key
  have hA' : A.toSM selfIn.length links.length =
      { S21 := blk self.sem (fun i : Fin selfIn.length => selfIn[i]) (fun i : Fin selfIn.length => selfIn[i])
        S22 := blk self.sem (fun i : Fin selfIn.length => selfIn[i]) (fun i : Fin links.length => links[i].1)
        S11 := blk self.sem (fun i : Fin links.length => links[i].1) (fun i : Fin selfIn.length => selfIn[i])
        S12 := blk self.sem (fun i : Fin links.length => links[i].1) (fun i : Fin links.length => links[i].1) } := by
    rw [aSM]; simp [blk]
  have hB' : B.toSM links.length stOut.length =
      { S21 := blk st.sem (fun i : Fin links.length => links[i].2) (fun i : Fin links.length => links[i].2)
        S22 := blk st.sem (fun i : Fin links.length => links[i].2) (fun i : Fin stOut.length => stOut[i])
        S11 := blk st.sem (fun i : Fin stOut.length => stOut[i]) (fun i : Fin links.length => links[i].2)
        S12 := blk st.sem (fun i : Fin stOut.length => stOut[i]) (fun i : Fin stOut.length => stOut[i]) } := by
    rw [bSM]; simp [blk]
  have hu' := hu
  rw [hA', hB'] at hu'
  obtain ⟨k1, k2⟩ := key hu'
  rw [← hA', ← hB', ← cSM] at k1 k2
  -- read the merged matrix back through the fresh index map
  have lnd : (selfIn ++ stOut).Nodup := by
    rw [← eAdd]; rw [eAdd]
    have := hnd.filter (fun p => !(links.map (·.1) ++ links.map (·.2)).contains p)
    rwa [filter_append_disjoint _ _ _ _ subA subB hd, ← eIn, ← eOut] at this
  have llen : (selfIn ++ stOut).length = selfIn.length + stOut.length := List.length_append
  have semc : ∀ (x y : Nat) (hx : x < (selfIn ++ stOut).length) (hy : y < (selfIn ++ stOut).length),
      c.sem (selfIn ++ stOut)[x] (selfIn ++ stOut)[y] = (assemble C).get x y := by
    intro x y hx hy
    rw [hc, eAdd]
    exact sem_build self st newId C _ lnd x y hx hy
  have hCN : C.N + C.M = selfIn.length + stOut.length := by rw [cN, cM]
  -- entries of the four blocks
  have e21 : ∀ (i j : Fin selfIn.length), c.sem selfIn[i] selfIn[j] = (C.toSM selfIn.length stOut.length).S21 i j := by
    intro i j
    have := semc i.1 j.1 (by omega) (by omega)
    rw [List.getElem_append_left i.2, List.getElem_append_left j.2] at this
    refine this.trans ?_
    rw [assemble_get C _ _ (by omega) (by omega)]
    simp [cN, i.2, j.2, SMat.toSM, Mat.toMatrix]
  have e22 : ∀ (i : Fin selfIn.length) (j : Fin stOut.length), c.sem selfIn[i] stOut[j] = (C.toSM selfIn.length stOut.length).S22 i j := by
    intro i j
    have := semc i.1 (selfIn.length + j.1) (by omega) (by omega)
    rw [List.getElem_append_left i.2, List.getElem_append_right (by omega)] at this
    simp only [Nat.add_sub_cancel_left] at this
    refine this.trans ?_
    rw [assemble_get C _ _ (by omega) (by omega)]
    simp [cN, i.2, SMat.toSM, Mat.toMatrix]
  have e11 : ∀ (i : Fin stOut.length) (j : Fin selfIn.length), c.sem stOut[i] selfIn[j] = (C.toSM selfIn.length stOut.length).S11 i j := by
    intro i j
    have := semc (selfIn.length + i.1) j.1 (by omega) (by omega)
    rw [List.getElem_append_right (by omega), List.getElem_append_left j.2] at this
    simp only [Nat.add_sub_cancel_left] at this
    refine this.trans ?_
    rw [assemble_get C _ _ (by omega) (by omega)]
    simp [cN, j.2, SMat.toSM, Mat.toMatrix]
  have e12 : ∀ (i j : Fin stOut.length), c.sem stOut[i] stOut[j] = (C.toSM selfIn.length stOut.length).S12 i j := by
    intro i j
    have := semc (selfIn.length + i.1) (selfIn.length + j.1) (by omega) (by omega)
    rw [List.getElem_append_right (by omega), List.getElem_append_right (by omega)] at this
    simp only [Nat.add_sub_cancel_left] at this
    refine this.trans ?_
    rw [assemble_get C _ _ (by omega) (by omega)]
    simp [cN, SMat.toSM, Mat.toMatrix]
  -- the composite equation
  intro p hp
  rw [hpins] at hp ⊢
  rw [rowSum_append, rowSum_get, rowSum_get]
  rcases List.mem_append.1 hp with hp | hp
  · obtain ⟨i, hi, rfl⟩ := List.getElem_of_mem hp
    have := congrFun k1 ⟨i, hi⟩
    simp only [Function.comp, Pi.add_apply, Matrix.mulVec, dotProduct] at this
    refine this.trans ?_
    congr 1
    · exact Finset.sum_congr rfl fun j _ => by rw [← e21 ⟨i, hi⟩ j]; rfl
    · exact Finset.sum_congr rfl fun j _ => by rw [← e22 ⟨i, hi⟩ j]; rfl
  · obtain ⟨i, hi, rfl⟩ := List.getElem_of_mem hp
    have := congrFun k2 ⟨i, hi⟩
    simp only [Function.comp, Pi.add_apply, Matrix.mulVec, dotProduct] at this
    refine this.trans ?_
    congr 1
    · exact Finset.sum_congr rfl fun j _ => by rw [← e11 ⟨i, hi⟩ j]; rfl
    · exact Finset.sum_congr rfl fun j _ => by rw [← e12 ⟨i, hi⟩ j]; rfl
end St

