import LekkerVerif.Core.RefineAdd
import LekkerVerif.Core.GaussJordanComplete

/-!
# The star product is defined exactly when the inner system is invertible

`SMat.add?` (the executable transcription of `S_matrix.add`) has three outcomes:

* `.error .dimension`  exactly when the inner dimensions differ (`add?_dimension_iff`);
* `.error .singular`   exactly when the dimensions agree and the inner system
  `1 - A.S12 * B.S21` is not invertible (`add?_singular_iff`);
* `.ok C`              exactly when the dimensions agree and the inner system is
  invertible (`add?_ok_iff`).

No other error can occur (`add?_error_cases`).  The new ingredient compared with
`add?_spec` (soundness) is `Mat.inv?_isSome_iff`: the certified executable inverse
*decides* invertibility, so the star product cannot fail spuriously.
-/

open Matrix

namespace SMat
variable {F : Type} [Field F] [DecidableEq F]

/-- `add?` only ever fails with `dimension` or `singular` (no hypotheses needed). -/
theorem add?_error_cases (A B : SMat F) (e : Err) (h : A.add? B = .error e) :
    e = .dimension ∨ e = .singular := by
  unfold add? at h
  split at h
  · left; simpa using h.symm
  · split at h
    · simp at h
    · right; simpa using h.symm

/-- the dimension error is raised exactly when the inner dimensions differ -/
theorem add?_dimension_iff (A B : SMat F) : A.add? B = .error .dimension ↔ A.M ≠ B.N := by
  unfold add?
  constructor
  · intro h
    split at h
    · rename_i hMN; simpa using hMN
    · split at h <;> simp at h
  · intro h
    rw [if_pos (by simpa using h)]

/-- the first inner system as a Mathlib matrix -/
theorem inner_eq (A B : SMat F) (hA : A.WF) (hB : B.WF) (hM : A.M = B.N) :
    (Mat.sub (Mat.one A.M) (Mat.mul A.S12 B.S21)).toMatrix A.M A.M
      = 1 - (A.toSM A.N A.M).S12 * (B.toSM A.M B.M).S21 := by
  obtain ⟨_, _, _, _, a12r, a12c, _, _⟩ := hA
  obtain ⟨_, _, _, _, _, _, _, b21c⟩ := hB
  simp only [toSM]
  rw [Mat.toMatrix_sub' _ _ A.M A.M (by simp) (by simp), Mat.toMatrix_one,
    Mat.toMatrix_mul' _ _ A.M A.M A.M a12r a12c (by rw [b21c, hM])]

/-- the second inner system as a Mathlib matrix -/
theorem inner_eq' (A B : SMat F) (hA : A.WF) (hB : B.WF) (hM : A.M = B.N) :
    (Mat.sub (Mat.one A.M) (Mat.mul B.S21 A.S12)).toMatrix A.M A.M
      = 1 - (B.toSM A.M B.M).S21 * (A.toSM A.N A.M).S12 := by
  obtain ⟨_, _, _, _, _, a12c, _, _⟩ := hA
  obtain ⟨_, _, _, _, _, _, b21r, b21c⟩ := hB
  simp only [toSM]
  rw [Mat.toMatrix_sub' _ _ A.M A.M (by simp) (by simp), Mat.toMatrix_one,
    Mat.toMatrix_mul' _ _ A.M A.M A.M (by rw [b21r, hM]) (by rw [b21c, hM]) a12c]

/-- both executable inverses succeed exactly when the (first) inner system is invertible -/
theorem inv?_inner_isSome (A B : SMat F) (hA : A.WF) (hB : B.WF) (hM : A.M = B.N) :
    ((Mat.inv? (Mat.sub (Mat.one A.M) (Mat.mul A.S12 B.S21))).isSome = true ∧
     (Mat.inv? (Mat.sub (Mat.one A.M) (Mat.mul B.S21 A.S12))).isSome = true) ↔
    IsUnit (1 - (A.toSM A.N A.M).S12 * (B.toSM A.M B.M).S21) := by
  rw [Mat.inv?_isSome_iff _ A.M (by simp) (by simp), Mat.inv?_isSome_iff _ A.M (by simp) (by simp),
    inner_eq A B hA hB hM, inner_eq' A B hA hB hM]
  constructor
  · exact fun h => h.1
  · exact fun h => ⟨h, isUnit_swap _ _ h⟩

/-- **Definedness of the star product**: `add?` returns a result exactly when the inner
dimensions agree and the inner system `1 - A.S12 * B.S21` is invertible. -/
theorem add?_ok_iff (A B : SMat F) (hA : A.WF) (hB : B.WF) :
    (∃ C, A.add? B = .ok C) ↔
      (A.M = B.N ∧ IsUnit (1 - (A.toSM A.N A.M).S12 * (B.toSM A.M B.M).S21)) := by
  constructor
  · rintro ⟨C, h⟩
    obtain ⟨hM, _, _, _, hU, _⟩ := add?_spec A B C hA hB h
    exact ⟨hM, hU⟩
  · rintro ⟨hM, hU⟩
    obtain ⟨h1, h2⟩ := (inv?_inner_isSome A B hA hB hM).2 hU
    obtain ⟨X, hX⟩ := Option.isSome_iff_exists.1 h1
    obtain ⟨Y, hY⟩ := Option.isSome_iff_exists.1 h2
    unfold add?
    rw [if_neg (by simpa using hM), hX, hY]
    exact ⟨_, rfl⟩

/-- the singular error is raised exactly when the dimensions agree and the inner system is
not invertible -/
theorem add?_singular_iff (A B : SMat F) (hA : A.WF) (hB : B.WF) :
    A.add? B = .error .singular ↔
      (A.M = B.N ∧ ¬ IsUnit (1 - (A.toSM A.N A.M).S12 * (B.toSM A.M B.M).S21)) := by
  constructor
  · intro h
    have hM : A.M = B.N := by
      by_contra hne
      have := (add?_dimension_iff A B).2 hne
      rw [this] at h
      simp at h
    refine ⟨hM, fun hU => ?_⟩
    obtain ⟨C, hC⟩ := (add?_ok_iff A B hA hB).2 ⟨hM, hU⟩
    rw [hC] at h
    simp at h
  · rintro ⟨hM, hU⟩
    cases hr : A.add? B with
    | ok C => exact absurd ((add?_ok_iff A B hA hB).1 ⟨C, hr⟩).2 hU
    | error e =>
      rcases add?_error_cases A B e hr with rfl | rfl
      · exact absurd hM ((add?_dimension_iff A B).1 hr)
      · rfl

/-- trichotomy, in one statement -/
theorem add?_trichotomy (A B : SMat F) (hA : A.WF) (hB : B.WF) :
    (A.M ≠ B.N ∧ A.add? B = .error .dimension) ∨
    (A.M = B.N ∧ ¬ IsUnit (1 - (A.toSM A.N A.M).S12 * (B.toSM A.M B.M).S21) ∧
      A.add? B = .error .singular) ∨
    (A.M = B.N ∧ IsUnit (1 - (A.toSM A.N A.M).S12 * (B.toSM A.M B.M).S21) ∧
      ∃ C, A.add? B = .ok C) := by
  by_cases hM : A.M = B.N
  · by_cases hU : IsUnit (1 - (A.toSM A.N A.M).S12 * (B.toSM A.M B.M).S21)
    · exact .inr (.inr ⟨hM, hU, (add?_ok_iff A B hA hB).2 ⟨hM, hU⟩⟩)
    · exact .inr (.inl ⟨hM, hU, (add?_singular_iff A B hA hB).2 ⟨hM, hU⟩⟩)
  · exact .inl ⟨hM, (add?_dimension_iff A B).2 hM⟩

end SMat
