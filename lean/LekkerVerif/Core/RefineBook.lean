import LekkerVerif.Core.RefineSolve
import Mathlib.Tactic.Tauto

/-! Bookkeeping half of C01: no link is left out.  `L p q` is the (directed, symmetric) link relation of the network,
    `B` a bound separating ids of base structures (`< B`) from ids of composites (`≥ B`). -/

namespace Solve
variable {F : Type} [Field F] [DecidableEq F]

structure Book (L : PinRef → PinRef → Prop) (B : Nat) (s : St F) : Prop where
  own     : ∀ p ∈ s.pins, p.1 ∈ St.membersOf s
  connKey : (s.conn.map (·.1)).Nodup
  connIn  : ∀ l ∈ s.conn, l.1 ∈ s.pins
  connOut : ∀ l ∈ s.conn, l.2.1 ∉ St.membersOf s ∧ l.2.1 < B
  full    : ∀ p ∈ s.pins, ∀ q, L p q → (p, q) ∈ s.conn
  inner   : ∀ q r, q.1 ∈ St.membersOf s → q ∉ s.pins → L q r → r.1 ∈ St.membersOf s
  compId  : s.members ≠ [] → B ≤ s.id
  baseId  : s.members = [] → s.id < B

theorem membersOf_sub_group (s : St F) : ∀ k ∈ St.membersOf s, k ∈ s.group := by
  intro k hk
  unfold St.membersOf at hk
  unfold St.group
  split at hk
  · simp only [List.mem_singleton] at hk; subst hk; exact List.mem_cons_self
  · exact List.mem_cons_of_mem _ hk

/-- a link target inside `t`'s group is one of `t`'s base members -/
theorem group_target (L : PinRef → PinRef → Prop) (B : Nat) (t : St F) (bt : Book L B t) (k : Nat) (hk : k < B)
    (h : k ∈ t.group) : k ∈ St.membersOf t := by
  unfold St.group at h
  unfold St.membersOf
  rcases List.mem_cons.1 h with h | h
  · split
    · subst h; exact List.mem_singleton_self _
    · rename_i hne
      have : t.members ≠ [] := by simpa using hne
      have := bt.compId this
      omega
  · split
    · rename_i he
      have : t.members = [] := by simpa using he
      rw [this] at h; simp at h
    · exact h

end Solve

namespace Solve
variable {F : Type} [Field F] [DecidableEq F]

/-- the first components of `linkPins` are exactly `getOutTo`, and each pair is a `conn` lookup -/
theorem linkPins_fst (self st : St F) (links : List (PinRef × PinRef)) (h : St.linkPins self st = .ok links) :
    links.map (·.1) = self.getOutTo st := by
  unfold St.linkPins at h
  simp only at h
  split at h
  · simp at h
  · have key : ∀ (xs : List PinRef) (ys : List (PinRef × PinRef)),
        (xs.mapM (m := Except Err) fun p =>
          match lookupL self.conn p with
          | none => .error .keyError
          | some q => match lookupL st.conn q with
            | none => .error .keyError
            | some p' => if p' != p then .error .notSymmetric else .ok (p, q)) = .ok ys →
        ys.map (·.1) = xs := by
      intro xs
      induction xs with
      | nil => intro ys h; simp [List.mapM_nil, pure, Except.pure] at h; subst h; rfl
      | cons x xs ih =>
        intro ys h
        simp only [List.mapM_cons, bind, Except.bind, pure, Except.pure] at h
        split at h
        · simp at h
        · rename_i v hv
          split at h
          · simp at h
          · rename_i vs hvs
            simp only [Except.ok.injEq] at h
            subst h
            simp only [List.map_cons, ih vs hvs]
            congr 1
            split at hv
            · simp at hv
            · split at hv
              · simp at hv
              · split at hv
                · simp at hv
                · simp only [Except.ok.injEq] at hv
                  subst hv; rfl
    exact key _ _ h

theorem mem_getOutTo (self st : St F) (p : PinRef) :
    p ∈ self.getOutTo st ↔ ∃ q, (p, q) ∈ self.conn ∧ q.1 ∈ st.group := by
  unfold St.getOutTo
  simp only [List.mem_filterMap]
  constructor
  · rintro ⟨l, hl, h⟩
    split at h
    · rename_i hc
      simp only [Option.some.injEq] at h
      subst h
      exact ⟨l.2, hl, by simpa using hc⟩
    · simp at h
  · rintro ⟨q, hl, hq⟩
    refine ⟨(p, q), hl, ?_⟩
    simp [hq]

end Solve

namespace Solve
variable {F : Type} [Field F] [DecidableEq F]

/-- with disjoint key sets the dictionary merge is plain concatenation -/
theorem merged_eq_append (xs acc : List (PinRef × PinRef)) (hnd : (xs.map (·.1)).Nodup)
    (hk : ∀ x ∈ xs, ∀ e ∈ acc, e.1 ≠ x.1) :
    xs.foldl (fun acc kv =>
        if acc.any (·.1 == kv.1) then acc.map (fun e => if e.1 == kv.1 then kv else e) else acc ++ [kv]) acc
      = acc ++ xs := by
  induction xs generalizing acc with
  | nil => simp
  | cons y ys ih =>
    simp only [List.foldl_cons]
    have hany : (acc.any fun e => e.1 == y.1) = false := by
      simp only [List.any_eq_false, beq_iff_eq]
      exact fun e he => hk y List.mem_cons_self e he
    simp only [hany, Bool.false_eq_true, if_false]
    have hnd' : (y.1 :: ys.map (·.1)).Nodup := hnd
    obtain ⟨hy, hys⟩ := List.nodup_cons.1 hnd'
    rw [ih (acc ++ [y]) hys]
    · simp
    · intro z hz e he
      rcases List.mem_append.1 he with he | he
      · exact hk z (List.mem_cons_of_mem _ hz) e he
      · simp only [List.mem_singleton] at he; subst he
        exact fun e' => hy (List.mem_map.2 ⟨z, hz, e'.symm⟩)

/-- the symmetric check of `join`: every returned pair has its reverse entry in `st.conn` -/
theorem linkPins_symm (self st : St F) (links : List (PinRef × PinRef)) (h : St.linkPins self st = .ok links) :
    ∀ l ∈ links, (l.2, l.1) ∈ st.conn := by
  unfold St.linkPins at h
  simp only at h
  split at h
  · simp at h
  · have key : ∀ (xs : List PinRef) (ys : List (PinRef × PinRef)),
        (xs.mapM (m := Except Err) fun p =>
          match lookupL self.conn p with
          | none => .error .keyError
          | some q => match lookupL st.conn q with
            | none => .error .keyError
            | some p' => if p' != p then .error .notSymmetric else .ok (p, q)) = .ok ys →
        ∀ l ∈ ys, (l.2, l.1) ∈ st.conn := by
      intro xs
      induction xs with
      | nil => intro ys h l hl; simp [List.mapM_nil, pure, Except.pure] at h; subst h; simp at hl
      | cons x xs ih =>
        intro ys h l hl
        simp only [List.mapM_cons, bind, Except.bind, pure, Except.pure] at h
        split at h
        · simp at h
        · rename_i v hv
          split at h
          · simp at h
          · rename_i vs hvs
            simp only [Except.ok.injEq] at h
            subst h
            rcases List.mem_cons.1 hl with rfl | hl
            · split at hv
              · simp at hv
              · rename_i q hq
                split at hv
                · simp at hv
                · rename_i p' hp'
                  split at hv
                  · simp at hv
                  · rename_i hne
                    simp only [Except.ok.injEq] at hv
                    subst hv
                    have : p' = x := by simpa using hne
                    subst this
                    exact lookupL_mem _ _ _ hp'
            · exact ih vs hvs l hl
    exact key _ _ h

theorem key_unique (l : List (PinRef × PinRef)) (hnd : (l.map (·.1)).Nodup) (k v v' : PinRef)
    (h1 : (k, v) ∈ l) (h2 : (k, v') ∈ l) : v = v' := by
  induction l with
  | nil => simp at h1
  | cons a t ih =>
    have hnd' : (a.1 :: t.map (·.1)).Nodup := hnd
    obtain ⟨ha, ht⟩ := List.nodup_cons.1 hnd'
    rcases List.mem_cons.1 h1 with e1 | h1 <;> rcases List.mem_cons.1 h2 with e2 | h2
    · rw [← e1] at e2; exact (Prod.mk.inj e2).2.symm ▸ rfl
    · exact absurd (List.mem_map.2 ⟨(k, v'), h2, by rw [← e1]⟩) ha
    · exact absurd (List.mem_map.2 ⟨(k, v), h1, by rw [← e2]⟩) ha
    · exact ih ht h1 h2

end Solve

namespace Solve
variable {F : Type} [Field F] [DecidableEq F]

theorem membersOf_ne_nil (s : St F) : St.membersOf s ≠ [] := by
  unfold St.membersOf
  split
  · simp
  · rename_i h; simpa using h

theorem membersOf_of_ne_nil (s : St F) (h : s.members ≠ []) : St.membersOf s = s.members := by
  unfold St.membersOf
  have : s.members.isEmpty = false := by simpa using h
  simp [this]

/-- the bookkeeping invariant is preserved by `join` -/
theorem join_book (L : PinRef → PinRef → Prop) (B : Nat) (hsym : ∀ p q, L p q → L q p)
    (s t c : St F) (fresh : Nat) (bs : Book L B s) (bt : Book L B t)
    (hns : s.pins.Nodup) (hnt : t.pins.Nodup) (hd : Disj s t)
    (hm : ∀ k, k ∈ St.membersOf s → k ∈ St.membersOf t → False)
    (hB : B ≤ fresh) (h : St.join s t fresh = .ok c) : Book L B c := by
  obtain ⟨links, hl, hpins, _⟩ := St.join_sound s t c fresh hns hnt hd h
  obtain ⟨links', _, _, _, _, C, addPins, hl', _, _, _, _, _, _, hc⟩ := St.join_ok s t c fresh h
  have : links' = links := by rw [hl] at hl'; exact (Except.ok.inj hl').symm
  subst this
  have lfst := linkPins_fst s t links' hl
  have lsub := linkPins_sub s t links' hl
  have lsym := linkPins_symm s t links' hl
  -- members / conn / id of the result
  have hmem : c.members = St.membersOf s ++ St.membersOf t := by rw [hc]; rfl
  have hmemne : c.members ≠ [] := by
    rw [hmem]; intro e; exact membersOf_ne_nil s (List.append_eq_nil_iff.1 e).1
  have hmo : St.membersOf c = St.membersOf s ++ St.membersOf t := by
    rw [membersOf_of_ne_nil c hmemne, hmem]
  have hid : c.id = fresh := by rw [hc]; rfl
  -- keys of the two dictionaries are disjoint
  have keysDisj : ∀ x ∈ t.conn, ∀ e ∈ s.conn, e.1 ≠ x.1 := by
    intro x hx e he eq
    exact hd e.1 (bs.connIn e he) (eq ▸ bt.connIn x hx)
  have hconn : c.conn = (s.conn ++ t.conn).filter
      (fun lt => !((St.membersOf s ++ St.membersOf t).contains lt.1.1 && (St.membersOf s ++ St.membersOf t).contains lt.2.1)) := by
    rw [hc]; simp only [St.build]
    rw [merged_eq_append t.conn s.conn bt.connKey keysDisj]
  have memconn : ∀ l, l ∈ c.conn ↔ (l ∈ s.conn ∨ l ∈ t.conn) ∧
      ¬ (l.1.1 ∈ St.membersOf s ++ St.membersOf t ∧ l.2.1 ∈ St.membersOf s ++ St.membersOf t) := by
    intro l; rw [hconn]; simp [List.mem_filter]; tauto
  -- kept pins
  have mempins : ∀ p, p ∈ c.pins ↔ (p ∈ s.pins ∧ p ∉ links'.map (·.1)) ∨ (p ∈ t.pins ∧ p ∉ links'.map (·.2)) := by
    intro p; rw [hpins]; simp [List.mem_append, List.mem_filter]
  -- a pin of s is eliminated iff its entry points into t
  have elimS : ∀ p q, (p, q) ∈ s.conn → (p ∈ links'.map (·.1) ↔ q.1 ∈ St.membersOf t) := by
    intro p q hpq
    rw [lfst, mem_getOutTo]
    constructor
    · rintro ⟨q', hq', hg⟩
      have := key_unique s.conn bs.connKey p q q' hpq hq'
      subst this
      exact group_target L B t bt _ (bs.connOut _ hpq).2 hg
    · intro hq
      exact ⟨q, hpq, membersOf_sub_group t _ hq⟩
  -- a pin of t is eliminated iff its entry points into s
  have elimT : ∀ p q, (p, q) ∈ t.conn → L p q → (p ∈ links'.map (·.2) ↔ q.1 ∈ St.membersOf s) := by
    intro p q hpq hL
    constructor
    · intro hp
      obtain ⟨l, hl1, hl2⟩ := List.mem_map.1 hp
      have h1 := lsym l hl1          -- (l.2, l.1) ∈ t.conn
      rw [hl2] at h1
      have := key_unique t.conn bt.connKey p q l.1 hpq h1
      rw [this]
      exact bs.own _ (bs.connIn _ (lsub l hl1))
    · intro hq
      -- the partner q is a boundary pin of s (otherwise its partner would be inside s)
      have hqs : q ∈ s.pins := by
        by_contra hno
        have := bs.inner q p hq hno (hsym p q hL)
        exact hm _ this (bt.own _ (bt.connIn _ hpq))
      have hqp : (q, p) ∈ s.conn := bs.full q hqs p (hsym p q hL)
      have hqel : q ∈ links'.map (·.1) := (elimS q p hqp).2 (bt.own _ (bt.connIn _ hpq))
      obtain ⟨l, hl1, hl2⟩ := List.mem_map.1 hqel
      have hl3 : (q, l.2) ∈ s.conn := by have := lsub l hl1; rwa [← hl2]
      have := key_unique s.conn bs.connKey q p l.2 hqp hl3
      exact List.mem_map.2 ⟨l, hl1, this.symm⟩
  refine ⟨?_, ?_, ?_, ?_, ?_, ?_, ?_, ?_⟩
  · -- own
    intro p hp
    rw [hmo]
    rcases (mempins p).1 hp with ⟨hp, _⟩ | ⟨hp, _⟩
    · exact List.mem_append_left _ (bs.own p hp)
    · exact List.mem_append_right _ (bt.own p hp)
  · -- connKey
    rw [hconn]
    have : ((s.conn ++ t.conn).map (·.1)).Nodup := by
      rw [List.map_append]
      refine List.nodup_append.2 ⟨bs.connKey, bt.connKey, ?_⟩
      intro a ha b hb e
      obtain ⟨x, hx, rfl⟩ := List.mem_map.1 ha
      obtain ⟨y, hy, rfl⟩ := List.mem_map.1 hb
      exact keysDisj y hy x hx e
    exact (List.Nodup.sublist (List.Sublist.map _ List.filter_sublist) this)
  · -- connIn
    intro l hl
    obtain ⟨hor, hnot⟩ := (memconn l).1 hl
    rw [mempins]
    rcases hor with hs | ht
    · left
      refine ⟨bs.connIn l hs, ?_⟩
      intro hel
      have := (elimS l.1 l.2 hs).1 hel
      exact hnot ⟨List.mem_append_left _ (bs.own _ (bs.connIn l hs)), List.mem_append_right _ this⟩
    · right
      refine ⟨bt.connIn l ht, ?_⟩
      intro hel
      obtain ⟨l', hl1, hl2⟩ := List.mem_map.1 hel
      have h1 := lsym l' hl1
      rw [hl2] at h1
      have := key_unique t.conn bt.connKey l.1 l.2 l'.1 ht h1
      have hin : l.2.1 ∈ St.membersOf s := by rw [this]; exact bs.own _ (bs.connIn _ (lsub l' hl1))
      exact hnot ⟨List.mem_append_right _ (bt.own _ (bt.connIn l ht)), List.mem_append_left _ hin⟩
  · -- connOut
    intro l hl
    obtain ⟨hor, hnot⟩ := (memconn l).1 hl
    rw [hmo]
    rcases hor with hs | ht
    · exact ⟨fun h2 => hnot ⟨List.mem_append_left _ (bs.own _ (bs.connIn l hs)), h2⟩, (bs.connOut l hs).2⟩
    · exact ⟨fun h2 => hnot ⟨List.mem_append_right _ (bt.own _ (bt.connIn l ht)), h2⟩, (bt.connOut l ht).2⟩
  · -- full
    intro p hp q hL
    rw [memconn]
    rcases (mempins p).1 hp with ⟨hps, hnel⟩ | ⟨hpt, hnel⟩
    · have hpq := bs.full p hps q hL
      refine ⟨Or.inl hpq, ?_⟩
      rintro ⟨_, h2⟩
      rcases List.mem_append.1 h2 with h2 | h2
      · exact (bs.connOut _ hpq).1 h2
      · exact hnel ((elimS p q hpq).2 h2)
    · have hpq := bt.full p hpt q hL
      refine ⟨Or.inr hpq, ?_⟩
      rintro ⟨_, h2⟩
      rcases List.mem_append.1 h2 with h2 | h2
      · exact hnel ((elimT p q hpq hL).2 h2)
      · exact (bt.connOut _ hpq).1 h2
  · -- inner
    intro q r hq hnq hL
    rw [hmo] at hq ⊢
    rcases List.mem_append.1 hq with hq | hq
    · by_cases hqs : q ∈ s.pins
      · have hqr := bs.full q hqs r hL
        have hel : q ∈ links'.map (·.1) := by
          by_contra hno
          exact hnq ((mempins q).2 (Or.inl ⟨hqs, hno⟩))
        exact List.mem_append_right _ ((elimS q r hqr).1 hel)
      · exact List.mem_append_left _ (bs.inner q r hq hqs hL)
    · by_cases hqt : q ∈ t.pins
      · have hqr := bt.full q hqt r hL
        have hel : q ∈ links'.map (·.2) := by
          by_contra hno
          exact hnq ((mempins q).2 (Or.inr ⟨hqt, hno⟩))
        exact List.mem_append_left _ ((elimT q r hqr hL).1 hel)
      · exact List.mem_append_right _ (bt.inner q r hq hqt hL)
  · -- compId
    intro _; rw [hid]; exact hB
  · -- baseId
    intro he; exact absurd he hmemne

end Solve

namespace Solve
variable {F : Type} [Field F] [DecidableEq F]

structure FullInv (W : (PinRef → F) → (PinRef → F) → Prop) (L : PinRef → PinRef → Prop) (B : Nat)
    (base : List Nat) (live : List (St F)) (fresh : Nat) : Prop where
  linv : LiveInv W live fresh
  book : ∀ s ∈ live, Book L B s
  mdisj : ∀ s ∈ live, ∀ t ∈ live, s.id ≠ t.id → ∀ k, k ∈ St.membersOf s → k ∈ St.membersOf t → False
  bound : B ≤ fresh
  cover : ∀ k ∈ base, ∃ s ∈ live, k ∈ St.membersOf s
  uniq : ∀ s ∈ live, ∀ t ∈ live, s.id = t.id → s = t

theorem join_membersOf (s t c : St F) (newId : Nat) (h : St.join s t newId = .ok c) :
    St.membersOf c = St.membersOf s ++ St.membersOf t := by
  obtain ⟨_, _, _, _, _, C, addPins, _, _, _, _, _, _, _, hc⟩ := St.join_ok s t c newId h
  have hmem : c.members = St.membersOf s ++ St.membersOf t := by rw [hc]; rfl
  have hne : c.members ≠ [] := by
    rw [hmem]; intro e; exact membersOf_ne_nil s (List.append_eq_nil_iff.1 e).1
  rw [membersOf_of_ne_nil c hne, hmem]

theorem stepWith_full (W : (PinRef → F) → (PinRef → F) → Prop) (L : PinRef → PinRef → Prop) (B : Nat)
    (hsym : ∀ p q, L p q → L q p) (base : List Nat) (sched) (live live' : List (St F)) (fresh : Nat)
    (inv : FullInv W L B base live fresh) (h : stepWith sched live fresh = .ok live') :
    FullInv W L B base live' (fresh + 1) := by
  have hlive := stepWith_inv W sched live live' fresh inv.linv h
  unfold stepWith at h
  split at h
  · simp at h
  · rename_i i j _
    split at h
    · rename_i src tar hsrc htar
      split at h
      · simp at h
      · rename_i hij
        split at h
        · simp at h
        · rename_i new hjoin
          simp only [Except.ok.injEq] at h
          subst h
          have hsm := List.mem_of_find?_eq_some hsrc
          have htm := List.mem_of_find?_eq_some htar
          have hsi : src.id = i := by simpa using List.find?_some hsrc
          have hti : tar.id = j := by simpa using List.find?_some htar
          have hne : src.id ≠ tar.id := by rw [hsi, hti]; simpa using hij
          have idnew := join_id src tar new fresh hjoin
          have mnew := join_membersOf src tar new fresh hjoin
          have bnew := join_book L B hsym src tar new fresh (inv.book _ hsm) (inv.book _ htm)
            (inv.linv.good _ hsm).nodup (inv.linv.good _ htm).nodup (inv.linv.disj _ hsm _ htm hne)
            (inv.mdisj _ hsm _ htm hne) inv.bound hjoin
          have memrest : ∀ r ∈ live.filter (fun r => r.id != i && r.id != j), r ∈ live ∧ r.id ≠ i ∧ r.id ≠ j := by
            intro r hr
            have := List.mem_filter.1 hr
            simpa using this
          refine ⟨hlive, ?_, ?_, Nat.le_succ_of_le inv.bound, ?_, ?_⟩
          · intro s hs
            rcases List.mem_append.1 hs with hs | hs
            · exact inv.book _ (memrest s hs).1
            · have : s = new := by simpa using hs
              rw [this]; exact bnew
          · intro s hs t ht hst k hks hkt
            rcases List.mem_append.1 hs with hs1 | hs1 <;> rcases List.mem_append.1 ht with ht1 | ht1
            · exact inv.mdisj _ (memrest s hs1).1 _ (memrest t ht1).1 hst k hks hkt
            · obtain ⟨hsl, hsi', hsj'⟩ := memrest s hs1
              have et : t = new := by simpa using ht1
              rw [et, mnew] at hkt
              rcases List.mem_append.1 hkt with hkt | hkt
              · exact inv.mdisj _ hsl _ hsm (by rw [hsi]; exact hsi') k hks hkt
              · exact inv.mdisj _ hsl _ htm (by rw [hti]; exact hsj') k hks hkt
            · obtain ⟨htl, hti', htj'⟩ := memrest t ht1
              have es : s = new := by simpa using hs1
              rw [es, mnew] at hks
              rcases List.mem_append.1 hks with hks | hks
              · exact inv.mdisj _ hsm _ htl (by rw [hsi]; exact fun e => hti' e.symm) k hks hkt
              · exact inv.mdisj _ htm _ htl (by rw [hti]; exact fun e => htj' e.symm) k hks hkt
            · have es : s = new := by simpa using hs1
              have et : t = new := by simpa using ht1
              exact absurd (by rw [es, et]) hst
          · intro k hk
            obtain ⟨s, hs, hks⟩ := inv.cover k hk
            by_cases h1 : s.id = i
            · have : s = src := inv.uniq _ hs _ hsm (by rw [h1, hsi])
              refine ⟨new, List.mem_append_right _ (List.mem_singleton_self _), ?_⟩
              rw [mnew]; exact List.mem_append_left _ (this ▸ hks)
            · by_cases h2 : s.id = j
              · have : s = tar := inv.uniq _ hs _ htm (by rw [h2, hti])
                refine ⟨new, List.mem_append_right _ (List.mem_singleton_self _), ?_⟩
                rw [mnew]; exact List.mem_append_right _ (this ▸ hks)
              · refine ⟨s, List.mem_append_left _ ?_, hks⟩
                exact List.mem_filter.2 ⟨hs, by simp [h1, h2]⟩
          · intro s hs t ht hst
            rcases List.mem_append.1 hs with hs1 | hs1 <;> rcases List.mem_append.1 ht with ht1 | ht1
            · exact inv.uniq _ (memrest s hs1).1 _ (memrest t ht1).1 hst
            · have et : t = new := by simpa using ht1
              have := inv.linv.ids _ (memrest s hs1).1
              rw [et, idnew] at hst; omega
            · have es : s = new := by simpa using hs1
              have := inv.linv.ids _ (memrest t ht1).1
              rw [es, idnew] at hst; omega
            · have es : s = new := by simpa using hs1
              have et : t = new := by simpa using ht1
              rw [es, et]
    · simp at h

/-- **end-to-end statement for every schedule**: the structure the loop ends with satisfies its equation for every
    global solution, and none of its pins is a linked pin — no accepted connection is left out. -/
theorem loopWith_full (W : (PinRef → F) → (PinRef → F) → Prop) (L : PinRef → PinRef → Prop) (B : Nat)
    (hsym : ∀ p q, L p q → L q p) (base : List Nat) (hLbase : ∀ p q, L p q → q.1 ∈ base) (sched) :
    ∀ (fuel : Nat) (live : List (St F)) (fresh : Nat) (total : St F),
      FullInv W L B base live fresh → loopWith sched fuel live fresh = .ok total →
      Good W total ∧ ∀ p ∈ total.pins, ∀ q, ¬ L p q := by
  have final : ∀ (total : St F) (fresh : Nat), FullInv W L B base [total] fresh →
      Good W total ∧ ∀ p ∈ total.pins, ∀ q, ¬ L p q := by
    intro total fresh inv
    refine ⟨inv.linv.good _ (by simp), ?_⟩
    intro p hp q hL
    have bk := inv.book total (by simp)
    have hpq := bk.full p hp q hL
    obtain ⟨s, hs, hk⟩ := inv.cover q.1 (hLbase p q hL)
    have : s = total := by simpa using hs
    subst this
    exact (bk.connOut _ hpq).1 hk
  intro fuel
  induction fuel with
  | zero =>
    intro live fresh total inv h
    simp only [loopWith] at h
    split at h
    · simp only [Except.ok.injEq] at h; subst h; exact final _ _ inv
    · simp at h
  | succ n ih =>
    intro live fresh total inv h
    simp only [loopWith] at h
    split at h
    · simp only [Except.ok.injEq] at h; subst h; exact final _ _ inv
    · split at h
      · simp at h
      · rename_i live' hstep
        exact ih live' (fresh + 1) total (stepWith_full W L B hsym base sched live live' fresh inv hstep) h

end Solve
