import LekkerVerif.Core.AbsJoin

/-! Hierarchy is transparent (abstract form): replacing a sub-network by one component that carries the
sub-network's solution operator does not change the solution operator of the enclosing network. -/

variable {F : Type*} [Field F]
variable {P : Type*} [DecidableEq P]

/-- a network over an arbitrary pin type: parts (pins, pin-keyed matrix), links, exposed pins -/
structure ANet (P : Type*) (F : Type*) where
  parts   : List (List P × (P → P → F))
  links   : List (P × P)
  exposed : List P

namespace ANet

def Lnk (N : ANet P F) (p q : P) : Prop := (p, q) ∈ N.links ∨ (q, p) ∈ N.links

/-- network equations: every part's component equation, the link equations, no input at unexposed free pins -/
structure Sol (N : ANet P F) (a b : P → F) : Prop where
  comp : ∀ part ∈ N.parts, Eqn part.1 part.2 a b
  link : ∀ l ∈ N.links, a l.1 = b l.2 ∧ a l.2 = b l.1
  free : ∀ part ∈ N.parts, ∀ p ∈ part.1, (∀ q, ¬ N.Lnk p q) → p ∉ N.exposed → a p = 0

/-- `T` is the solution operator on the exposed pins: every solution obeys it, and every excitation has a solution -/
def SolvedBy (N : ANet P F) (T : P → P → F) : Prop :=
  (∀ a b, N.Sol a b → ∀ e ∈ N.exposed, b e = rowSum N.exposed T a e) ∧
  (∀ v : P → F, ∃ a b, N.Sol a b ∧ ∀ e ∈ N.exposed, a e = v e)

/-- all pins of the parts -/
def pinSet (N : ANet P F) (p : P) : Prop := ∃ part ∈ N.parts, p ∈ part.1

theorem rowSum_congr (pins : List P) (S : P → P → F) (a a' : P → F) (p : P) (h : ∀ q ∈ pins, a q = a' q) :
    rowSum pins S a p = rowSum pins S a' p := by
  unfold rowSum
  congr 1
  apply List.map_congr_left
  intro q hq; rw [h q hq]

theorem rowSum_congrS (pins : List P) (S S' : P → P → F) (a : P → F) (p : P) (h : ∀ q ∈ pins, S p q = S' p q) :
    rowSum pins S a p = rowSum pins S' a p := by
  unfold rowSum
  congr 1
  apply List.map_congr_left
  intro q hq; rw [h q hq]

/-- how a child network sits inside a parent: `out` are the parent's other parts, `Lp` the parent's links,
`E` the parent's exposure; the parent sees the child as one part `K` on the child's exposed pins -/
structure Placed (out : List (List P × (P → P → F))) (child : ANet P F) (Lp : List (P × P)) (E : List P) : Prop where
  /-- the child's pins are its own -/
  disjoint : ∀ part ∈ out, ∀ p ∈ part.1, ¬ child.pinSet p
  /-- the child's links stay inside the child -/
  childLinks : ∀ l ∈ child.links, child.pinSet l.1 ∧ child.pinSet l.2
  /-- exposed pins of the child are pins of the child and are free inside it -/
  expPins : ∀ e ∈ child.exposed, child.pinSet e ∧ ∀ q, ¬ child.Lnk e q
  /-- the parent reaches the child only through the child's exposed pins -/
  linkVia : ∀ l ∈ Lp, (child.pinSet l.1 → l.1 ∈ child.exposed) ∧ (child.pinSet l.2 → l.2 ∈ child.exposed)
  expVia : ∀ e ∈ E, child.pinSet e → e ∈ child.exposed

/-- the parent network: the other parts plus one part `K = (child.exposed, SK)` -/
def parent (out : List (List P × (P → P → F))) (child : ANet P F) (SK : P → P → F) (Lp : List (P × P)) (E : List P) : ANet P F :=
  { parts := out ++ [(child.exposed, SK)], links := Lp, exposed := E }

/-- the equivalent single-level network: the other parts plus the child's parts, all links -/
def inlined (out : List (List P × (P → P → F))) (child : ANet P F) (Lp : List (P × P)) (E : List P) : ANet P F :=
  { parts := out ++ child.parts, links := Lp ++ child.links, exposed := E }

variable {out : List (List P × (P → P → F))} {child : ANet P F} {Lp : List (P × P)} {E : List P}

theorem inlined_lnk_iff (p q : P) : (inlined out child Lp E).Lnk p q ↔ ((parent out child (fun _ _ => 0) Lp E).Lnk p q ∨ child.Lnk p q) := by
  unfold Lnk inlined parent
  simp only [List.mem_append]
  constructor
  · rintro ((h | h) | (h | h))
    · exact Or.inl (Or.inl h)
    · exact Or.inr (Or.inl h)
    · exact Or.inl (Or.inr h)
    · exact Or.inr (Or.inr h)
  · rintro ((h | h) | (h | h))
    · exact Or.inl (Or.inl h)
    · exact Or.inr (Or.inl h)
    · exact Or.inl (Or.inr h)
    · exact Or.inr (Or.inr h)

/-- a solution of the single-level network is a solution of the child network -/
theorem child_sol_of_inlined (pl : Placed out child Lp E) (a b : P → F) (h : (inlined out child Lp E).Sol a b) :
    child.Sol a b := by
  refine ⟨?_, ?_, ?_⟩
  · intro part hp; exact h.comp part (List.mem_append_right _ hp)
  · intro l hl; exact h.link l (List.mem_append_right _ hl)
  · intro part hp p hpp hfree hne
    apply h.free part (List.mem_append_right _ hp) p hpp
    · intro q hq
      rcases hq with hq | hq
      · rcases List.mem_append.1 hq with hq | hq
        · exact hne ((pl.linkVia _ hq).1 ⟨part, hp, hpp⟩)
        · exact hfree q (Or.inl hq)
      · rcases List.mem_append.1 hq with hq | hq
        · exact hne ((pl.linkVia _ hq).2 ⟨part, hp, hpp⟩)
        · exact hfree q (Or.inr hq)
    · intro hE; exact hne (pl.expVia p hE ⟨part, hp, hpp⟩)

/-- **soundness of substitution**: every solution of the single-level network solves the parent network in which the
child is one component carrying the child's solution operator -/
theorem parent_sol_of_inlined (pl : Placed out child Lp E) (Tc SK : P → P → F) (hTc : child.SolvedBy Tc)
    (hSK : ∀ p ∈ child.exposed, ∀ q ∈ child.exposed, SK p q = Tc p q)
    (a b : P → F) (h : (inlined out child Lp E).Sol a b) : (parent out child SK Lp E).Sol a b := by
  have hc := child_sol_of_inlined pl a b h
  refine ⟨?_, ?_, ?_⟩
  · intro part hp
    rcases List.mem_append.1 hp with hp | hp
    · exact h.comp part (List.mem_append_left _ hp)
    · have : part = (child.exposed, SK) := by simpa using hp
      subst this
      intro p hpe
      show b p = rowSum child.exposed SK a p
      rw [rowSum_congrS child.exposed SK Tc a p (fun q hq => hSK p hpe q hq)]
      exact hTc.1 a b hc p hpe
  · intro l hl; exact h.link l (List.mem_append_left _ hl)
  · intro part hp p hpp hfree hne
    rcases List.mem_append.1 hp with hp | hp
    · apply h.free part (List.mem_append_left _ hp) p hpp _ hne
      intro q hq
      rcases hq with hq | hq
      · rcases List.mem_append.1 hq with hq | hq
        · exact hfree q (Or.inl hq)
        · exact pl.disjoint part hp p hpp (pl.childLinks _ hq).1
      · rcases List.mem_append.1 hq with hq | hq
        · exact hfree q (Or.inr hq)
        · exact pl.disjoint part hp p hpp (pl.childLinks _ hq).2
    · have : part = (child.exposed, SK) := by simpa using hp
      subst this
      obtain ⟨⟨cp, hcp, hpcp⟩, hnl⟩ := pl.expPins p hpp
      apply h.free cp (List.mem_append_right _ hcp) p hpcp _ hne
      intro q hq
      rcases hq with hq | hq
      · rcases List.mem_append.1 hq with hq | hq
        · exact hfree q (Or.inl hq)
        · exact hnl q (Or.inl hq)
      · rcases List.mem_append.1 hq with hq | hq
        · exact hfree q (Or.inr hq)
        · exact hnl q (Or.inr hq)


/-- **completeness of substitution**: every solution of the parent network extends (by a solution of the child for the
waves the parent sends into it) to a solution of the single-level network with the same waves outside the child and on
the child's exposed pins -/
theorem inlined_sol_of_parent (pl : Placed out child Lp E) (Tc SK : P → P → F) (hTc : child.SolvedBy Tc)
    (hSK : ∀ p ∈ child.exposed, ∀ q ∈ child.exposed, SK p q = Tc p q)
    (a b : P → F) (h : (parent out child SK Lp E).Sol a b) :
    ∃ a' b', (inlined out child Lp E).Sol a' b' ∧ (∀ p, ¬ child.pinSet p → a' p = a p ∧ b' p = b p) ∧
      (∀ p ∈ child.exposed, a' p = a p ∧ b' p = b p) := by
  classical
  obtain ⟨ac, bc, hc, hv⟩ := hTc.2 a
  -- on the child's exposed pins the child's solution carries the parent's waves
  have hbK : ∀ e ∈ child.exposed, bc e = b e := by
    intro e he
    have h1 := hTc.1 ac bc hc e he
    have h2 : b e = rowSum child.exposed SK a e := h.comp (child.exposed, SK) (List.mem_append_right _ (by simp)) e he
    rw [h1, h2, rowSum_congrS child.exposed SK Tc a e (fun q hq => hSK e he q hq)]
    exact rowSum_congr _ _ _ _ _ (fun q hq => hv q hq)
  refine ⟨fun p => if child.pinSet p then ac p else a p, fun p => if child.pinSet p then bc p else b p, ?_, ?_, ?_⟩
  · -- the glued waves solve the single-level network
    have onExp : ∀ e ∈ child.exposed, (if child.pinSet e then ac e else a e) = a e ∧ (if child.pinSet e then bc e else b e) = b e := by
      intro e he
      rw [if_pos (pl.expPins e he).1, if_pos (pl.expPins e he).1]
      exact ⟨hv e he, hbK e he⟩
    -- values at a pin the parent can see (outside the child, or exposed by it)
    have seen : ∀ p, (child.pinSet p → p ∈ child.exposed) →
        (if child.pinSet p then ac p else a p) = a p ∧ (if child.pinSet p then bc p else b p) = b p := by
      intro p hp
      by_cases hin : child.pinSet p
      · exact onExp p (hp hin)
      · rw [if_neg hin, if_neg hin]; exact ⟨rfl, rfl⟩
    refine ⟨?_, ?_, ?_⟩
    · intro part hp
      rcases List.mem_append.1 hp with hp | hp
      · intro p hpp
        have hnp : ¬ child.pinSet p := pl.disjoint part hp p hpp
        show (if child.pinSet p then bc p else b p) = _
        rw [if_neg hnp, h.comp part (List.mem_append_left _ hp) p hpp]
        apply rowSum_congr
        intro q hq
        rw [if_neg (pl.disjoint part hp q hq)]
      · intro p hpp
        have hin : child.pinSet p := ⟨part, hp, hpp⟩
        show (if child.pinSet p then bc p else b p) = _
        rw [if_pos hin, hc.comp part hp p hpp]
        apply rowSum_congr
        intro q hq
        rw [if_pos ⟨part, hp, hq⟩]
    · intro l hl
      rcases List.mem_append.1 hl with hl | hl
      · obtain ⟨v1, v2⟩ := pl.linkVia l hl
        obtain ⟨e1, e2⟩ := seen l.1 v1
        obtain ⟨e3, e4⟩ := seen l.2 v2
        show (if child.pinSet l.1 then ac l.1 else a l.1) = (if child.pinSet l.2 then bc l.2 else b l.2) ∧
          (if child.pinSet l.2 then ac l.2 else a l.2) = (if child.pinSet l.1 then bc l.1 else b l.1)
        rw [e1, e2, e3, e4]
        exact h.link l hl
      · obtain ⟨i1, i2⟩ := pl.childLinks l hl
        show (if child.pinSet l.1 then ac l.1 else a l.1) = (if child.pinSet l.2 then bc l.2 else b l.2) ∧
          (if child.pinSet l.2 then ac l.2 else a l.2) = (if child.pinSet l.1 then bc l.1 else b l.1)
        rw [if_pos i1, if_pos i2, if_pos i1, if_pos i2]
        exact hc.link l hl
    · intro part hp p hpp hfree hne
      have hfreeP : ∀ q, ¬ (parent out child SK Lp E).Lnk p q := by
        intro q hq
        rcases hq with hq | hq
        · exact hfree q (Or.inl (List.mem_append_left _ hq))
        · exact hfree q (Or.inr (List.mem_append_left _ hq))
      have hfreeC : ∀ q, ¬ child.Lnk p q := by
        intro q hq
        rcases hq with hq | hq
        · exact hfree q (Or.inl (List.mem_append_right _ hq))
        · exact hfree q (Or.inr (List.mem_append_right _ hq))
      rcases List.mem_append.1 hp with hp | hp
      · have hnp : ¬ child.pinSet p := pl.disjoint part hp p hpp
        show (if child.pinSet p then ac p else a p) = 0
        rw [if_neg hnp]
        exact h.free part (List.mem_append_left _ hp) p hpp hfreeP hne
      · have hin : child.pinSet p := ⟨part, hp, hpp⟩
        show (if child.pinSet p then ac p else a p) = 0
        rw [if_pos hin]
        by_cases hpe : p ∈ child.exposed
        · rw [hv p hpe]
          exact h.free (child.exposed, SK) (List.mem_append_right _ (by simp)) p hpe hfreeP hne
        · exact hc.free part hp p hpp hfreeC hpe
  · intro p hp; simp [hp]
  · intro p hp
    show (if child.pinSet p then ac p else a p) = a p ∧ (if child.pinSet p then bc p else b p) = b p
    rw [if_pos (pl.expPins p hp).1, if_pos (pl.expPins p hp).1]
    exact ⟨hv p hp, hbK p hp⟩

/-- **hierarchy is transparent**: if `Tc` is the solution operator of the child network and `T` the solution operator of
the parent network in which the child appears as one component with matrix `Tc` on its exposed pins, then `T` is the
solution operator of the equivalent single-level network made of the same components and connections -/
theorem substitution (pl : Placed out child Lp E) (Tc SK T : P → P → F) (hTc : child.SolvedBy Tc)
    (hSK : ∀ p ∈ child.exposed, ∀ q ∈ child.exposed, SK p q = Tc p q)
    (hT : (parent out child SK Lp E).SolvedBy T) : (inlined out child Lp E).SolvedBy T := by
  constructor
  · intro a b h e he
    exact hT.1 a b (parent_sol_of_inlined pl Tc SK hTc hSK a b h) e he
  · intro v
    obtain ⟨a, b, hab, hv⟩ := hT.2 v
    obtain ⟨a', b', h', hout, hexp⟩ := inlined_sol_of_parent pl Tc SK hTc hSK a b hab
    refine ⟨a', b', h', ?_⟩
    intro e he
    classical
    by_cases hin : child.pinSet e
    · rw [(hexp e (pl.expVia e he hin)).1]; exact hv e he
    · rw [(hout e hin).1]; exact hv e he

/-- and conversely: the single-level network's solution operator is one for the parent network
(so hierarchical and flat solves agree whichever is computed first) -/
theorem substitution_conv (pl : Placed out child Lp E) (Tc SK T : P → P → F) (hTc : child.SolvedBy Tc)
    (hSK : ∀ p ∈ child.exposed, ∀ q ∈ child.exposed, SK p q = Tc p q)
    (hT : (inlined out child Lp E).SolvedBy T) : (parent out child SK Lp E).SolvedBy T := by
  classical
  constructor
  · intro a b h e he
    obtain ⟨a', b', h', hout, hexp⟩ := inlined_sol_of_parent pl Tc SK hTc hSK a b h
    have key : ∀ x ∈ E, a' x = a x ∧ b' x = b x := by
      intro x hx
      by_cases hin : child.pinSet x
      · exact hexp x (pl.expVia x hx hin)
      · exact hout x hin
    have := hT.1 a' b' h' e he
    rw [(key e he).2] at this
    rw [this]
    exact rowSum_congr _ _ _ _ _ (fun q hq => (key q hq).1)
  · intro v
    obtain ⟨a, b, hab, hv⟩ := hT.2 v
    exact ⟨a, b, parent_sol_of_inlined pl Tc SK hTc hSK a b hab, hv⟩


/-- the network equations only depend on *which* parts, links and exposed pins there are -/
theorem sol_of_same (N N' : ANet P F) (hp : ∀ part, part ∈ N.parts ↔ part ∈ N'.parts)
    (hl : ∀ l, l ∈ N.links ↔ l ∈ N'.links) (he : ∀ e, e ∈ N.exposed ↔ e ∈ N'.exposed)
    (a b : P → F) (h : N.Sol a b) : N'.Sol a b := by
  refine ⟨fun part hpart => h.comp part ((hp part).2 hpart), fun l hl' => h.link l ((hl l).2 hl'), ?_⟩
  intro part hpart p hpp hfree hne
  apply h.free part ((hp part).2 hpart) p hpp
  · intro q hq
    apply hfree q
    rcases hq with hq | hq
    · exact Or.inl ((hl _).1 hq)
    · exact Or.inr ((hl _).1 hq)
  · intro hin; exact hne ((he p).1 hin)

/-- **two sub-networks side by side**: every solution of the whole network is a solution of the two-component network
in which each side is replaced by its solution operator — with the *same* waves on every exposed pin of either side,
in particular on the links between the two sides -/
theorem pair_sol_of_whole (mainNet monNet : ANet P F) (links : List (P × P)) (E : List P) (TA TB : P → P → F)
    (hA : mainNet.SolvedBy TA) (hB : monNet.SolvedBy TB)
    (plB : Placed mainNet.parts monNet (links ++ mainNet.links) E)
    (plA : Placed [(monNet.exposed, TB)] mainNet links E)
    (a b : P → F) (h : (inlined mainNet.parts monNet (links ++ mainNet.links) E).Sol a b) :
    (parent [(monNet.exposed, TB)] mainNet TA links E).Sol a b := by
  have h1 := parent_sol_of_inlined plB TB TB hB (fun _ _ _ _ => rfl) a b h
  have h2 : (inlined [(monNet.exposed, TB)] mainNet links E).Sol a b := by
    apply sol_of_same _ _ _ _ _ a b h1
    · intro part; simp [parent, inlined, or_comm]
    · intro l; rfl
    · intro e; rfl
  exact parent_sol_of_inlined plA TA TA hA (fun _ _ _ _ => rfl) a b h2

end ANet
