import LekkerVerif.Model.WiringNet
import LekkerVerif.Properties.C07
import LekkerVerif.Properties.C01

/-! # Every consistent wiring state denotes a well-formed network

`Wiring.denote` is the network a wiring state hands to the elimination loop.  Here: in every consistent state (`WInv`)
whose structure objects are coherent with the component table (`Coherent`), that network is well formed (`NetD.WF`),
its exposure is admissible when only free pins are exposed (`NetD.ExposureOK`), and therefore every theorem about
`NetD.solveWith` (C01 soundness / uniqueness, definedness) applies to the circuit left behind by **any** edit history
(`run_denote_wf`, `runX_denote_wf`, `run_denote_solve`, `runX_denote_solve`). -/

namespace Wiring

/-! ### list helpers -/

theorem filterMap_getElem?_of_all_some {α β : Type} (f : α → Option β) (l : List α) (h : ∀ x ∈ l, (f x).isSome)
    (k : Nat) : (l.filterMap f)[k]? = (l[k]?).bind f := by
  induction l generalizing k with
  | nil => simp
  | cons a t ih =>
    obtain ⟨b, hb⟩ := Option.isSome_iff_exists.1 (h a (by simp))
    rw [List.filterMap_cons_some hb]
    cases k with
    | zero => simp [hb]
    | succ k => simpa using ih (fun x hx => h x (List.mem_cons_of_mem _ hx)) k

theorem ends_map {α : Type} (g : Pin → α) (L : List (Pin × Pin)) :
    (L.map fun c => (g c.1, g c.2)).flatMap (fun l => [l.1, l.2]) = (L.flatMap fun c => [c.1, c.2]).map g := by
  induction L with
  | nil => rfl
  | cons a t ih => simp only [List.map_cons, List.flatMap_cons, List.map_append, ih, List.map_nil]

theorem nodup_map_of_inj_on {α β : Type} (g : α → β) (l : List α) (nd : l.Nodup)
    (inj : ∀ x ∈ l, ∀ y ∈ l, g x = g y → x = y) : (l.map g).Nodup := by
  rw [List.nodup_iff_pairwise_ne, List.pairwise_map]
  rw [List.nodup_iff_pairwise_ne] at nd
  exact nd.imp_of_mem (fun {a b} ha hb hne e => hne (inj a ha b hb e))

theorem posOf_get (w : W) (i : Nat) (hi : i ∈ w.structs) : w.structs[posOf w i]? = some i :=
  List.getElem?_idxOf hi

theorem posOf_inj (w : W) (i j : Nat) (hi : i ∈ w.structs) (hj : j ∈ w.structs) (h : posOf w i = posOf w j) : i = j := by
  have h1 := posOf_get w i hi
  rw [h, posOf_get w j hj] at h1
  exact (Option.some.inj h1).symm

/-! ### coherence of the component table with the heap -/

/-- the component table is coherent with the structure objects of `w`: every present structure has a component,
the pins an object still has are (under `pinName`) distinct pin names of that component -/
structure Coherent {F : Type} (comps : List (CompD F)) (pinName : Pin → String) (w : W) : Prop where
  present : ∀ i ∈ w.structs, ∃ c, comps[i]? = some c
  pinsOf : ∀ i o c, getObj w i = some o → comps[i]? = some c → ∀ p ∈ o.pins, pinName (i, p) ∈ c.pins
  inj : ∀ i o, getObj w i = some o → ∀ p ∈ o.pins, ∀ q ∈ o.pins, pinName (i, p) = pinName (i, q) → p = q
  compNodup : ∀ i ∈ w.structs, ∀ c, comps[i]? = some c → c.pins.Nodup

/-- a pin that a present structure still has -/
def Live (w : W) (x : Pin) : Prop := x.1 ∈ w.structs ∧ ∃ o, getObj w x.1 = some o ∧ x.2 ∈ o.pins

/-- re-addressing of a pin: (position of its structure, pin name) -/
def addr (pinName : Pin → String) (w : W) (x : Pin) : PinRef := (posOf w x.1, pinName x)

/-- no connection joins two pins of the same structure (`connect` rejects these; not recorded in `WInv`) -/
def NoSelf (w : W) : Prop := ∀ c ∈ w.conns, c.1.1 ≠ c.2.1

section
variable {F : Type} (comps : List (CompD F)) (pinName : Pin → String) (expName : Nat → String) (w : W)

theorem denote_links : (denote comps pinName expName w).links = w.conns.map fun c => (addr pinName w c.1, addr pinName w c.2) := rfl

theorem denote_exposed : (denote comps pinName expName w).exposed = w.mapping.map fun m => (expName m.1, addr pinName w m.2) := rfl

variable {comps pinName w}

theorem denote_comps_get (coh : Coherent comps pinName w) (i : Nat) (hi : i ∈ w.structs) :
    (denote comps pinName expName w).comps[posOf w i]? = comps[i]? := by
  show (w.structs.filterMap fun i => comps[i]?)[posOf w i]? = _
  rw [filterMap_getElem?_of_all_some _ _ (fun x hx => by
    obtain ⟨c, hc⟩ := coh.present x hx; rw [hc]; rfl), posOf_get w i hi]
  rfl

theorem live_comp (coh : Coherent comps pinName w) (x : Pin) (hx : Live w x) :
    ∃ c, (denote comps pinName expName w).comps[(addr pinName w x).1]? = some c ∧ (addr pinName w x).2 ∈ c.pins := by
  obtain ⟨hs, o, ho, hp⟩ := hx
  obtain ⟨c, hc⟩ := coh.present x.1 hs
  refine ⟨c, ?_, ?_⟩
  · show (denote comps pinName expName w).comps[posOf w x.1]? = some c
    rw [denote_comps_get expName coh x.1 hs, hc]
  · exact coh.pinsOf x.1 o c ho hc x.2 hp

theorem live_addr_inj (coh : Coherent comps pinName w) (x y : Pin) (hx : Live w x) (hy : Live w y)
    (h : addr pinName w x = addr pinName w y) : x = y := by
  obtain ⟨hsx, ox, hox, hpx⟩ := hx
  obtain ⟨hsy, oy, hoy, hpy⟩ := hy
  have h1 : posOf w x.1 = posOf w y.1 := congrArg Prod.fst h
  have h2 : pinName x = pinName y := congrArg Prod.snd h
  have hi := posOf_inj w x.1 y.1 hsx hsy h1
  obtain ⟨i, p⟩ := x
  obtain ⟨j, q⟩ := y
  simp only at hi hox hoy hpx hpy
  subst hi
  rw [hox] at hoy
  cases hoy
  rw [coh.inj i ox hox p hpx q hpy h2]

theorem clist_live (inv : WInv w) (x : Pin) (hx : x ∈ w.clist) : Live w x := inv.clistObj x hx
theorem free_live (inv : WInv w) (x : Pin) (hx : x ∈ w.free) : Live w x := inv.freeObj x hx

/-- **(1)** a consistent wiring state, coherent with the component table, denotes a well-formed network -/
theorem denote_wf (inv : WInv w) (hns : NoSelf w) (coh : Coherent comps pinName w) :
    (denote comps pinName expName w).WF := by
  have e1 : ∀ c ∈ w.conns, c.1 ∈ w.clist := fun c hc => (mem_clist_iff inv _).2 ⟨c, hc, Or.inl rfl⟩
  have e2 : ∀ c ∈ w.conns, c.2 ∈ w.clist := fun c hc => (mem_clist_iff inv _).2 ⟨c, hc, Or.inr rfl⟩
  refine ⟨?_, ?_, ?_, ?_⟩
  · intro c hc
    have hc' : c ∈ w.structs.filterMap fun i => comps[i]? := hc
    obtain ⟨i, hi, hic⟩ := List.mem_filterMap.1 hc'
    exact coh.compNodup i hi c hic
  · rw [denote_links, ends_map, ← inv.clistConns]
    exact nodup_map_of_inj_on _ _ inv.clistNodup
      (fun x hx y hy h => live_addr_inj coh x y (clist_live inv x hx) (clist_live inv y hy) h)
  · intro l hl p hp
    rw [denote_links] at hl
    obtain ⟨c, hc, rfl⟩ := List.mem_map.1 hl
    rcases hp with rfl | rfl
    · exact live_comp expName coh c.1 (clist_live inv _ (e1 c hc))
    · exact live_comp expName coh c.2 (clist_live inv _ (e2 c hc))
  · intro l hl
    rw [denote_links] at hl
    obtain ⟨c, hc, rfl⟩ := List.mem_map.1 hl
    intro h
    exact hns c hc (posOf_inj w _ _ (inv.clistStructs _ (e1 c hc)) (inv.clistStructs _ (e2 c hc)) h)

/-- every pin name of every component has a matrix index: inherited from the component table -/
theorem denote_idxWF [Field F] [DecidableEq F] (hidx : ∀ c ∈ comps, ∀ n ∈ c.pins, (lookupL c.idx n).isSome) :
    (denote comps pinName expName w).IdxWF := by
  intro c hc
  have hc' : c ∈ w.structs.filterMap fun i => comps[i]? := hc
  obtain ⟨i, _, hic⟩ := List.mem_filterMap.1 hc'
  exact hidx c (List.mem_of_getElem? hic)

theorem denote_comps_ne_nil (coh : Coherent comps pinName w) (h : w.structs ≠ []) :
    (denote comps pinName expName w).comps ≠ [] := by
  intro hnil
  cases hs : w.structs with
  | nil => exact h hs
  | cons i t =>
    have hi : i ∈ w.structs := by rw [hs]; simp
    obtain ⟨c, hc⟩ := coh.present i hi
    have := denote_comps_get expName coh i hi
    rw [hnil, hc] at this
    simp at this

/-- **(2)** exposing free pins, each once, is an admissible exposure of the denoted network: the exposed pins exist,
are distinct and are no end of a link -/
theorem denote_exposureOK [Field F] [DecidableEq F] (inv : WInv w) (coh : Coherent comps pinName w)
    (hfree : ∀ m ∈ w.mapping, m.2 ∈ w.free) (hnd : (w.mapping.map (·.2)).Nodup) :
    (denote comps pinName expName w).ExposureOK := by
  constructor
  · rw [denote_exposed, List.map_map]
    have : ((fun e : String × PinRef => e.2) ∘ fun m : Nat × Pin => (expName m.1, addr pinName w m.2))
        = (addr pinName w) ∘ (fun m : Nat × Pin => m.2) := rfl
    rw [this, ← List.map_map]
    refine nodup_map_of_inj_on _ _ hnd ?_
    intro x hx y hy h
    obtain ⟨mx, hmx, rfl⟩ := List.mem_map.1 hx
    obtain ⟨my, hmy, rfl⟩ := List.mem_map.1 hy
    exact live_addr_inj coh _ _ (free_live inv _ (hfree mx hmx)) (free_live inv _ (hfree my hmy)) h
  · intro e he
    rw [denote_exposed] at he
    obtain ⟨m, hm, rfl⟩ := List.mem_map.1 he
    have hf := hfree m hm
    have hl := free_live inv _ hf
    constructor
    · obtain ⟨c, hc, hp⟩ := live_comp expName coh m.2 hl
      refine ⟨(denote comps pinName expName w).mkSt (addr pinName w m.2).1 c,
        (NetD.mem_initial _ _).2 ⟨_, c, hc, rfl⟩, ?_⟩
      exact (NetD.mem_pins_mkSt _ _ c _).2 ⟨rfl, hp⟩
    · intro q hL
      have key : ∀ c ∈ w.conns, addr pinName w m.2 = addr pinName w c.1 ∨ addr pinName w m.2 = addr pinName w c.2 → False := by
        intro c hc h
        have c1 : c.1 ∈ w.clist := (mem_clist_iff inv _).2 ⟨c, hc, Or.inl rfl⟩
        have c2 : c.2 ∈ w.clist := (mem_clist_iff inv _).2 ⟨c, hc, Or.inr rfl⟩
        rcases h with h | h
        · have := live_addr_inj coh _ _ hl (clist_live inv _ c1) h
          exact inv.freeDisj _ hf (this ▸ c1)
        · have := live_addr_inj coh _ _ hl (clist_live inv _ c2) h
          exact inv.freeDisj _ hf (this ▸ c2)
      rcases hL with h | h
      · rw [denote_links] at h
        obtain ⟨c, hc, hcq⟩ := List.mem_map.1 h
        exact key c hc (Or.inl (congrArg Prod.fst hcq).symm)
      · rw [denote_links] at h
        obtain ⟨c, hc, hcq⟩ := List.mem_map.1 h
        exact key c hc (Or.inr (congrArg Prod.snd hcq).symm)

end

/-! ### invariants of the heap that `WInv` does not record, and their preservation by every call -/

/-- every present structure has an object -/
def StructsObj (w : W) : Prop := ∀ i ∈ w.structs, ∃ o, getObj w i = some o

/-- structure object `i` exists only for `i < pins.length`, and its remaining pins are below `pins[i]` -/
def Bounded (pins : List Nat) (w : W) : Prop :=
  ∀ i o, getObj w i = some o → ∃ n, pins[i]? = some n ∧ ∀ p ∈ o.pins, p < n

/-- what one call may do to the heap, the connection table and the structure list -/
structure StepRel (w w' : W) : Prop where
  bw : ∀ i o', getObj w' i = some o' → ∃ o, getObj w i = some o ∧ ∀ p ∈ o'.pins, p ∈ o.pins
  fw : ∀ i o, getObj w i = some o → ∃ o', getObj w' i = some o'
  conns : ∀ c ∈ w'.conns, c ∈ w.conns ∨ c.1.1 ≠ c.2.1
  structs : ∀ j ∈ w'.structs, j ∈ w.structs ∨ ∃ o, getObj w j = some o

theorem StepRel.refl (w : W) : StepRel w w :=
  ⟨fun _ o' h => ⟨o', h, fun _ hp => hp⟩, fun _ o h => ⟨o, h⟩, fun _ h => Or.inl h, fun _ h => Or.inl h⟩

theorem addStruct_rel (w : W) (i : Nat) : StepRel w (addStruct w i).1 := by
  unfold addStruct
  split
  · exact StepRel.refl w
  · split
    · exact StepRel.refl w
    · rename_i o ho
      refine ⟨fun _ o' h => ⟨o', h, fun _ hp => hp⟩, fun _ o h => ⟨o, h⟩, fun _ h => Or.inl h, ?_⟩
      intro j hj
      rcases List.mem_append.1 hj with hj | hj
      · exact Or.inl hj
      · have : j = i := by simpa using hj
        subst this
        exact Or.inr ⟨o, ho⟩

theorem mapPin_rel (w : W) (n : Nat) (p : Pin) : StepRel w (mapPin w n p).1 := by
  unfold mapPin
  split <;> exact ⟨fun _ o' h => ⟨o', h, fun _ hp => hp⟩, fun _ o h => ⟨o, h⟩, fun _ h => Or.inl h, fun _ h => Or.inl h⟩

theorem raiseAll_rel (nameOf : Pin → Nat) (w : W) : StepRel w (raiseAll nameOf w).1 :=
  ⟨fun _ o' h => ⟨o', h, fun _ hp => hp⟩, fun _ o h => ⟨o, h⟩, fun _ h => Or.inl h, fun _ h => Or.inl h⟩

theorem connect_rel (w : W) (inv : WInv w) (p q : Pin) : StepRel w (connect w p q).1 := by
  rcases connect_cases w inv p q with h | ⟨op, oq, hne, _, _, _, _, hop, hoq, h⟩
  · rw [h.1]; exact StepRel.refl w
  · rw [h]
    obtain ⟨fw, bw⟩ := connect_heap w p q op oq hne hop hoq
    refine ⟨?_, ?_, ?_, fun _ h => Or.inl h⟩
    · intro i o' hio
      obtain ⟨o, ho, r⟩ := bw i o' hio
      exact ⟨o, ho, fun x hx => by rw [← r.pins]; exact hx⟩
    · intro i o hio
      obtain ⟨o', ho', _⟩ := fw i o hio
      exact ⟨o', ho'⟩
    · intro c hc
      have hc' : c ∈ w.conns ++ [(p, q)] := hc
      rcases List.mem_append.1 hc' with hc' | hc'
      · exact Or.inl hc'
      · have : c = (p, q) := by simpa using hc'
        subst this
        exact Or.inr hne

theorem detach_rel (rm : Bool) (w : W) (inv : WInv w) (i : Nat) (o : SObj) (ho : getObj w i = some o)
    (f : SObj → SObj) (hf : ∀ oj, ∀ x ∈ (f oj).pins, x ∈ oj.pins) :
    StepRel w (detachResult rm i o (nbFold f o.connTo w)) := by
  obtain ⟨hp, he⟩ := nbFold_heapOnly f o.connTo w
  have hget := nbFold_get f o.connTo w (inv.connToNodup i o ho)
  generalize nbFold f o.connTo w = w0 at he hget
  subst he
  have gi : getObj (detachResult rm i o { w with heap := hp }) i = some { o with conn := [], connTo := [] } := by
    show getObj (setObj { w with heap := hp } i _) i = _
    have : getObj { w with heap := hp } i = some (if i ∈ o.connTo then f o else o) := by rw [hget i, ho]; rfl
    exact getObj_setObj_same _ i _ _ this
  have gj : ∀ j, j ≠ i → getObj (detachResult rm i o { w with heap := hp }) j
      = (getObj w j).map (fun oj => if j ∈ o.connTo then f oj else oj) := by
    intro j hj
    show getObj (setObj { w with heap := hp } i _) j = _
    rw [getObj_setObj_other _ i j _ hj, hget j]
  have hconns : (detachResult rm i o { w with heap := hp }).conns = w.conns.filter (fun c => !(involves i c)) := rfl
  have hstructs : (detachResult rm i o { w with heap := hp }).structs = w.structs.erase i := rfl
  refine ⟨?_, ?_, ?_, ?_⟩
  · intro j oj' hj'
    by_cases hji : j = i
    · subst hji
      rw [gi] at hj'
      cases hj'
      exact ⟨o, ho, fun _ hx => hx⟩
    · rw [gj j hji] at hj'
      cases hoj : getObj w j with
      | none => rw [hoj] at hj'; cases hj'
      | some oj =>
        rw [hoj] at hj'
        simp only [Option.map_some, Option.some.injEq] at hj'
        subst hj'
        refine ⟨oj, rfl, ?_⟩
        intro x hx
        split at hx
        · exact hf oj x hx
        · exact hx
  · intro j oj hoj
    by_cases hji : j = i
    · subst hji; exact ⟨_, gi⟩
    · exact ⟨_, by rw [gj j hji, hoj]; rfl⟩
  · intro c hc
    rw [hconns] at hc
    exact Or.inl (List.mem_of_mem_filter hc)
  · intro j hj
    rw [hstructs] at hj
    exact Or.inl (List.mem_of_mem_erase hj)

theorem cutStruct_rel (w : W) (inv : WInv w) (i : Nat) : StepRel w (cutStruct w i).1 := by
  by_cases hs : i ∈ w.structs
  · cases ho : getObj w i with
    | none =>
      have : (cutStruct w i).1 = w := by
        unfold cutStruct
        have : (!w.structs.contains i) = false := by simpa using hs
        rw [this]; simp [ho]
      rw [this]; exact StepRel.refl w
    | some o =>
      rw [cutStruct_eq w i o hs ho]
      exact detach_rel false w inv i o ho _ (fun oj x hx => hx)
  · have : (cutStruct w i).1 = w := by
      unfold cutStruct
      have : (!w.structs.contains i) = true := by simpa using hs
      rw [this]; rfl
    rw [this]; exact StepRel.refl w

theorem removeStruct_rel (w : W) (inv : WInv w) (i : Nat) : StepRel w (removeStruct w i).1 := by
  by_cases hs : i ∈ w.structs
  · cases ho : getObj w i with
    | none =>
      have : (removeStruct w i).1 = w := by
        unfold removeStruct
        have : (!w.structs.contains i) = false := by simpa using hs
        rw [this]; simp [ho]
      rw [this]; exact StepRel.refl w
    | some o =>
      rw [removeStruct_eq w i o hs ho]
      exact detach_rel true w inv i o ho _ (fun oj x hx => List.mem_of_mem_filter hx)
  · have : (removeStruct w i).1 = w := by
      unfold removeStruct
      have : (!w.structs.contains i) = true := by simpa using hs
      rw [this]; rfl
    rw [this]; exact StepRel.refl w

theorem step_rel (w : W) (inv : WInv w) (op : Op) : StepRel w (step w op).1 := by
  cases op with
  | add i => exact addStruct_rel w i
  | connect p q => exact connect_rel w inv p q
  | cut i => exact cutStruct_rel w inv i
  | remove i => exact removeStruct_rel w inv i
  | map n p => exact mapPin_rel w n p

theorem StepRel.noSelf {w w' : W} (r : StepRel w w') (h : NoSelf w) : NoSelf w' := by
  intro c hc
  rcases r.conns c hc with h1 | h1
  · exact h c h1
  · exact h1

theorem StepRel.structsObj {w w' : W} (r : StepRel w w') (h : StructsObj w) : StructsObj w' := by
  intro j hj
  rcases r.structs j hj with h1 | ⟨o, ho⟩
  · obtain ⟨o, ho⟩ := h j h1
    exact r.fw j o ho
  · exact r.fw j o ho

theorem StepRel.bounded {pins : List Nat} {w w' : W} (r : StepRel w w') (h : Bounded pins w) : Bounded pins w' := by
  intro i o' ho'
  obtain ⟨o, ho, hsub⟩ := r.bw i o' ho'
  obtain ⟨n, hn, hlt⟩ := h i o ho
  exact ⟨n, hn, fun p hp => hlt p (hsub p hp)⟩

/-! #### `NoSelf` on its own: an invariant of every call from `init` -/

theorem init_noSelf (pins : List Nat) : NoSelf (init pins) := by
  intro c hc; simp [init] at hc

theorem step_noSelf (w : W) (inv : WInv w) (h : NoSelf w) (op : Op) : NoSelf (step w op).1 :=
  (step_rel w inv op).noSelf h

theorem run_noSelf (pins : List Nat) (ops : List Op) : NoSelf (run ops pins) := by
  have gen : ∀ (ops : List Op) (w : W), WInv w → NoSelf w → NoSelf (ops.foldl (fun w op => (step w op).1) w) := by
    intro ops
    induction ops with
    | nil => intro w _ h; exact h
    | cons op ops ih => intro w inv h; exact ih _ (step_inv w inv op) (step_noSelf w inv h op)
  exact gen ops _ (init_inv pins) (init_noSelf pins)

/-! #### everything that holds in a reachable state -/

/-- the facts about a state reached from `init pins` that the denotation needs -/
structure Reach (pins : List Nat) (w : W) : Prop where
  inv : WInv w
  noSelf : NoSelf w
  structsObj : StructsObj w
  bounded : Bounded pins w

theorem init_getObj_pins (pins : List Nat) (i : Nat) (o : SObj) (h : getObj (init pins) i = some o) :
    ∃ n, pins[i]? = some n ∧ o.pins = List.range n := by
  unfold getObj init at h
  simp only at h
  cases hf : (List.map (fun nk : Nat × Nat => (nk.2, ({ pins := List.range nk.1, conn := [], connTo := [] } : SObj)))
      pins.zipIdx).find? (·.1 == i) with
  | none => simp [hf] at h
  | some x =>
    rw [hf] at h
    have hm := List.mem_of_find?_eq_some hf
    have hk : x.1 = i := by simpa using List.find?_some hf
    obtain ⟨nk, hnk, rfl⟩ := List.mem_map.1 hm
    simp only [Option.map_some, Option.some.injEq] at h
    have hz := List.mem_zipIdx_iff_getElem?.1 hnk
    simp only at hk
    refine ⟨nk.1, by rw [← hk]; exact hz, by rw [← h]⟩

theorem init_reach (pins : List Nat) : Reach pins (init pins) := by
  refine ⟨init_inv pins, init_noSelf pins, ?_, ?_⟩
  · intro i hi; simp [init] at hi
  · intro i o ho
    obtain ⟨n, hn, hp⟩ := init_getObj_pins pins i o ho
    exact ⟨n, hn, fun p hp' => by rw [hp] at hp'; exact List.mem_range.1 hp'⟩

theorem step_reach {pins : List Nat} (w : W) (r : Reach pins w) (op : Op) : Reach pins (step w op).1 :=
  have sr := step_rel w r.inv op
  ⟨step_inv w r.inv op, sr.noSelf r.noSelf, sr.structsObj r.structsObj, sr.bounded r.bounded⟩

theorem raiseAll_inv (nameOf : Pin → Nat) (w : W) (inv : WInv w) : WInv (raiseAll nameOf w).1 :=
  ⟨inv.pinsNodup, inv.connToNodup, inv.structsNodup, inv.freeObj, inv.clistObj, inv.clistNodup, inv.freeNodup,
    inv.freeDisj, inv.clistConns, inv.freeComplete, inv.entryConn, inv.entryTo, inv.connsEntry⟩

/-- a put either leaves the state as it was or is an add followed by a connect -/
theorem put_noop_or_add_connect (w : W) (i s : Nat) (q : Pin) :
    (put w i s q).1 = w ∨ (put w i s q).1 = (step (step w (.add i)).1 (.connect (i, s) q)).1 := by
  unfold put
  cases getObj w i with
  | none => exact Or.inl rfl
  | some o =>
    dsimp only
    split
    · exact Or.inl rfl
    · split
      · exact Or.inl rfl
      · split
        · exact Or.inl rfl
        · split
          · exact Or.inr rfl
          · exact Or.inl rfl

theorem stepX_reach {pins : List Nat} (nameOf : Pin → Nat) (w : W) (r : Reach pins w) (op : OpX) :
    Reach pins (stepX nameOf w op).1 := by
  cases op with
  | base op => exact step_reach w r op
  | raise =>
    have sr := raiseAll_rel nameOf w
    exact ⟨raiseAll_inv nameOf w r.inv, sr.noSelf r.noSelf, sr.structsObj r.structsObj, sr.bounded r.bounded⟩
  | put i s q =>
    show Reach pins (put w i s q).1
    rcases put_noop_or_add_connect w i s q with h | h
    · rw [h]; exact r
    · rw [h]; exact step_reach _ (step_reach w r (.add i)) (.connect (i, s) q)

/-- a history of wiring calls that may also contain raise-all (`maps_all_pins`), as the driver runs it -/
def runX (nameOf : Pin → Nat) (ops : List OpX) (pins : List Nat) : W :=
  ops.foldl (fun w op => (stepX nameOf w op).1) (init pins)

theorem run_reach (pins : List Nat) (ops : List Op) : Reach pins (run ops pins) := by
  have gen : ∀ (ops : List Op) (w : W), Reach pins w → Reach pins (ops.foldl (fun w op => (step w op).1) w) := by
    intro ops
    induction ops with
    | nil => intro w h; exact h
    | cons op ops ih => intro w h; exact ih _ (step_reach w h op)
  exact gen ops _ (init_reach pins)

theorem runX_reach (nameOf : Pin → Nat) (pins : List Nat) (ops : List OpX) : Reach pins (runX nameOf ops pins) := by
  have gen : ∀ (ops : List OpX) (w : W), Reach pins w →
      Reach pins (ops.foldl (fun w op => (stepX nameOf w op).1) w) := by
    intro ops
    induction ops with
    | nil => intro w h; exact h
    | cons op ops ih => intro w h; exact ih _ (stepX_reach nameOf w h op)
  exact gen ops _ (init_reach pins)

/-! ### the static tie between the component table, the pin naming and the initial heap -/

/-- what the harness satisfies by construction: structure `i` starts with as many pins as component `i` has pin names,
the names of a component are distinct, and pin `p` of structure `i` is called by the `p`-th name of component `i` -/
structure Static {F : Type} (comps : List (CompD F)) (pinName : Pin → String) (pins : List Nat) : Prop where
  counts : pins = comps.map fun c => c.pins.length
  nodup : ∀ c ∈ comps, c.pins.Nodup
  name : ∀ i c, comps[i]? = some c → ∀ p (h : p < c.pins.length), pinName (i, p) = c.pins[p]

/-- the pin naming of the driver (`opWSolve`) -/
def driverPinName {F : Type} (comps : List (CompD F)) : Pin → String := fun p =>
  match comps[p.1]? with
  | some c => c.pins.getD p.2 "?"
  | none => "?"

theorem static_driver {F : Type} (comps : List (CompD F)) (hnd : ∀ c ∈ comps, c.pins.Nodup) :
    Static comps (driverPinName comps) (comps.map fun c => c.pins.length) := by
  refine ⟨rfl, hnd, ?_⟩
  intro i c hc p hp
  simp only [driverPinName, hc]
  rw [List.getD_eq_getElem?_getD, List.getElem?_eq_getElem hp]
  rfl

/-- **coherence holds in every reachable state**, from the static tie alone -/
theorem reach_coherent {F : Type} {comps : List (CompD F)} {pinName : Pin → String} {pins : List Nat}
    (st : Static comps pinName pins) {w : W} (r : Reach pins w) : Coherent comps pinName w := by
  -- an object at `i` comes with the component at `i`, whose name count bounds the object's pins
  have key : ∀ i o, getObj w i = some o → ∃ c, comps[i]? = some c ∧ ∀ p ∈ o.pins, p < c.pins.length := by
    intro i o ho
    obtain ⟨n, hn, hlt⟩ := r.bounded i o ho
    rw [st.counts, List.getElem?_map] at hn
    cases hc : comps[i]? with
    | none => rw [hc] at hn; cases hn
    | some c =>
      rw [hc] at hn
      simp only [Option.map_some, Option.some.injEq] at hn
      exact ⟨c, rfl, fun p hp => by rw [hn]; exact hlt p hp⟩
  refine ⟨?_, ?_, ?_, ?_⟩
  · intro i hi
    obtain ⟨o, ho⟩ := r.structsObj i hi
    obtain ⟨c, hc, _⟩ := key i o ho
    exact ⟨c, hc⟩
  · intro i o c ho hc p hp
    obtain ⟨c', hc', hlt⟩ := key i o ho
    rw [hc] at hc'
    cases hc'
    rw [st.name i c hc p (hlt p hp)]
    exact List.getElem_mem _
  · intro i o ho p hp q hq h
    obtain ⟨c, hc, hlt⟩ := key i o ho
    rw [st.name i c hc p (hlt p hp), st.name i c hc q (hlt q hq)] at h
    exact (List.Nodup.getElem_inj_iff (st.nodup c (List.mem_of_getElem? hc))).1 h
  · intro i _ c hc
    exact st.nodup c (List.mem_of_getElem? hc)

/-! ### the circuit left behind by any edit history -/

section
variable {F : Type} {comps : List (CompD F)} {pinName : Pin → String} {pins : List Nat}

/-- in every reachable state the denoted network is well formed -/
theorem reach_denote_wf (st : Static comps pinName pins) (expName : Nat → String) {w : W} (r : Reach pins w) :
    (denote comps pinName expName w).WF :=
  denote_wf expName r.inv r.noSelf (reach_coherent st r)

/-- **(3)** every edit history (add / re-add / connect / cut / remove / expose, valid or not) leaves behind a state that
denotes a well-formed network -/
theorem run_denote_wf (st : Static comps pinName pins) (expName : Nat → String) (ops : List Op) :
    (denote comps pinName expName (run ops pins)).WF :=
  reach_denote_wf st expName (run_reach pins ops)

/-- the same for histories that also contain raise-all -/
theorem runX_denote_wf (st : Static comps pinName pins) (expName : Nat → String) (nameOf : Pin → Nat) (ops : List OpX) :
    (denote comps pinName expName (runX nameOf ops pins)).WF :=
  reach_denote_wf st expName (runX_reach nameOf pins ops)

variable [Field F] [DecidableEq F]

/-- **(4)** in every reachable state, for every merge schedule: if only free pins are exposed, each once, then whatever
`solve` returns on the denoted network is the solution operator of that network; and, if every pin name has a matrix index
and at least one structure is present, `solve` with a valid schedule either returns or fails because an inner system is
singular -/
theorem reach_denote_solve (st : Static comps pinName pins) (expName : Nat → String) {w : W} (r : Reach pins w) :
    (denote comps pinName expName w).WF ∧
    ((∀ m ∈ w.mapping, m.2 ∈ w.free) → (w.mapping.map (·.2)).Nodup →
      ∀ sched total, (denote comps pinName expName w).solveWith sched = .ok total →
        (denote comps pinName expName w).SolvedBy total.sem) ∧
    ((∀ c ∈ comps, ∀ n ∈ c.pins, (lookupL c.idx n).isSome) → w.structs ≠ [] →
      ∀ sched, Solve.ValidSched sched →
        (∃ total, (denote comps pinName expName w).solveWith sched = .ok total) ∨
        (denote comps pinName expName w).solveWith sched = .error .singular) := by
  have coh := reach_coherent st r
  have wf := reach_denote_wf st expName r
  refine ⟨wf, ?_, ?_⟩
  · intro hfree hnd sched total h
    exact C01_solve_solves _ wf (denote_exposureOK expName r.inv coh hfree hnd) sched total h
  · intro hidx hne sched hv
    exact C01_only_failure_is_singular _ wf (denote_idxWF expName hidx) (denote_comps_ne_nil expName coh hne) sched hv

/-- **the corollary for every edit history** -/
theorem run_denote_solve (st : Static comps pinName pins) (expName : Nat → String) (ops : List Op) :
    let w := run ops pins
    let net := denote comps pinName expName w
    net.WF ∧
    ((∀ m ∈ w.mapping, m.2 ∈ w.free) → (w.mapping.map (·.2)).Nodup →
      ∀ sched total, net.solveWith sched = .ok total → net.SolvedBy total.sem) ∧
    ((∀ c ∈ comps, ∀ n ∈ c.pins, (lookupL c.idx n).isSome) → w.structs ≠ [] →
      ∀ sched, Solve.ValidSched sched →
        (∃ total, net.solveWith sched = .ok total) ∨ net.solveWith sched = .error .singular) :=
  reach_denote_solve st expName (run_reach pins ops)

/-- … and for histories with raise-all, as the driver's `wsolve` runs them -/
theorem runX_denote_solve (st : Static comps pinName pins) (expName : Nat → String) (nameOf : Pin → Nat) (ops : List OpX) :
    let w := runX nameOf ops pins
    let net := denote comps pinName expName w
    net.WF ∧
    ((∀ m ∈ w.mapping, m.2 ∈ w.free) → (w.mapping.map (·.2)).Nodup →
      ∀ sched total, net.solveWith sched = .ok total → net.SolvedBy total.sem) ∧
    ((∀ c ∈ comps, ∀ n ∈ c.pins, (lookupL c.idx n).isSome) → w.structs ≠ [] →
      ∀ sched, Solve.ValidSched sched →
        (∃ total, net.solveWith sched = .ok total) ∨ net.solveWith sched = .error .singular) :=
  reach_denote_solve st expName (runX_reach nameOf pins ops)

end

/-! non-vacuity: the driver's naming meets the static tie, and a concrete history (two components, connected, both outer
pins exposed) meets every hypothesis of `run_denote_solve`; the network it denotes is the one of `C01`'s example -/
section NonVacuity
def opsNV : List Op := [.add 0, .add 1, .connect (0, 1) (1, 0), .map 0 (0, 0), .map 1 (1, 1)]
def expNV : Nat → String := fun n => if n = 0 then "in" else "out"

example : Static [cNV, cNV] (driverPinName [cNV, cNV]) [2, 2] :=
  static_driver [cNV, cNV] (by intro c hc; simp at hc; subst hc; decide)

example : (∀ m ∈ (run opsNV [2, 2]).mapping, m.2 ∈ (run opsNV [2, 2]).free) ∧
    ((run opsNV [2, 2]).mapping.map (·.2)).Nodup ∧ (run opsNV [2, 2]).structs ≠ [] := by decide

example : (denote [cNV, cNV] (driverPinName [cNV, cNV]) expNV (run opsNV [2, 2])).links = netNV.links ∧
    (denote [cNV, cNV] (driverPinName [cNV, cNV]) expNV (run opsNV [2, 2])).exposed = netNV.exposed ∧
    (denote [cNV, cNV] (driverPinName [cNV, cNV]) expNV (run opsNV [2, 2])).comps.length = 2 := by decide
end NonVacuity

end Wiring

