import LekkerVerif.Proofs.WiringInv

/-! `put` (add the placed structure, then connect its pin to the target) on the wiring state machine:
a rejected put of a fresh object leaves nothing behind, an accepted one is exactly add-then-connect,
the acceptance condition is the three validations, and the invariant is preserved. -/

namespace Wiring

/-- the state after a successful `add_structure` of the object `o` -/
def added (w : W) (i : Nat) (o : SObj) : W :=
  { w with structs := w.structs ++ [i], free := w.free ++ o.pins.map fun p => (i, p) }

theorem addStruct_fresh (w : W) (i : Nat) (o : SObj) (ho : getObj w i = some o) (hfresh : i ∉ w.structs) :
    addStruct w i = (added w i o, .ok) := by
  have hc : ¬ (w.structs.contains i = true) := by simpa using hfresh
  unfold addStruct
  rw [if_neg hc]
  simp only [ho]
  rfl

/-- the two ways `put` can end: rejected with the state untouched, or (all validations passed and the add accepted)
the result of the inner `connect` -/
theorem put_cases (w : W) (i s : Nat) (q : Pin) :
    ((put w i s q).1 = w ∧ (put w i s q).2 ≠ .ok) ∨
    ((addStruct w i).2 = .ok ∧ put w i s q = connect (addStruct w i).1 (i, s) q ∧
      ∃ o, getObj w i = some o ∧ s ∈ o.pins ∧ q ∉ w.clist ∧ q ∈ w.free) := by
  unfold put
  split
  · left; exact ⟨rfl, by simp⟩
  · rename_i o ho
    split
    · left; exact ⟨rfl, by simp⟩
    · rename_i hs
      split
      · left; exact ⟨rfl, by simp⟩
      · rename_i hqc
        split
        · left; exact ⟨rfl, by simp⟩
        · rename_i hqf
          have hs' : s ∈ o.pins := by simpa using hs
          have hqc' : q ∉ w.clist := by simpa using hqc
          have hqf' : q ∈ w.free := by simpa using hqf
          simp only
          split
          · rename_i hok
            right; exact ⟨hok, rfl, o, ho, hs', hqc', hqf'⟩
          · rename_i out hne
            left; exact ⟨rfl, fun e => hne e⟩

/-- a put of a fresh object whose pins pass the three validations is accepted: neither the add nor the connect can fail -/
theorem put_fresh_ok (w : W) (inv : WInv w) (i s : Nat) (q : Pin) (o : SObj) (ho : getObj w i = some o)
    (hfresh : i ∉ w.structs) (hs : s ∈ o.pins) (hqc : q ∉ w.clist) (hqf : q ∈ w.free) :
    (put w i s q).2 = .ok ∧ put w i s q = connect (added w i o) (i, s) q := by
  have ha := addStruct_fresh w i o ho hfresh
  have inv1 : WInv (added w i o) := by
    have := addStruct_inv w inv i
    rw [ha] at this; exact this
  have hne : (i, s).1 ≠ q.1 := by
    intro e
    apply hfresh
    have := (inv.freeObj q hqf).1
    rw [← e] at this; exact this
  have hfp : (i, s) ∈ (added w i o).free :=
    List.mem_append_right _ (List.mem_map.2 ⟨s, hs, rfl⟩)
  have hfq : q ∈ (added w i o).free := List.mem_append_left _ hqf
  obtain ⟨op, oq, _, _, hc⟩ := connect_full (added w i o) inv1 (i, s) q hne hfp hfq
  have hput : put w i s q = connect (added w i o) (i, s) q := by
    rcases put_cases w i s q with h | ⟨_, h, _⟩
    · exfalso
      apply h.2
      unfold put
      have b1 : (!(o.pins.contains s)) = false := by simpa using hs
      have b2 : w.clist.contains q = false := by simpa using hqc
      have b3 : (!(w.free.contains q)) = false := by simpa using hqf
      simp only [ho, b1, b2, b3, Bool.false_eq_true, ↓reduceIte, ha, hc]
    · rw [h, ha]
  exact ⟨by rw [hput, hc], hput⟩

/-- **atomicity of put**: the put of a fresh object (not yet a structure of the solver, nothing connected) is either
accepted or leaves the solver exactly as it was - in particular the inner `connect` cannot fail after the add -/
theorem put_atomic (w : W) (inv : WInv w) (i s : Nat) (q : Pin) (o : SObj) (ho : getObj w i = some o)
    (hfresh : i ∉ w.structs) (hconn : o.conn = []) :
    (put w i s q).2 = .ok ∨ (put w i s q).1 = w := by
  have _ := hconn
  rcases put_cases w i s q with h | ⟨_, _, o', ho', hs, hqc, hqf⟩
  · exact Or.inr h.1
  · rw [ho] at ho'; cases ho'
    exact Or.inl (put_fresh_ok w inv i s q o ho hfresh hs hqc hqf).1

/-- a put that is not accepted leaves the solver unchanged (fresh object) -/
theorem put_rejected_unchanged (w : W) (inv : WInv w) (i s : Nat) (q : Pin) (o : SObj) (ho : getObj w i = some o)
    (hfresh : i ∉ w.structs) (hconn : o.conn = []) (h : (put w i s q).2 ≠ .ok) : (put w i s q).1 = w :=
  (put_atomic w inv i s q o ho hfresh hconn).resolve_left h

/-- an accepted put is the add followed by the connect -/
theorem put_ok_is_add_then_connect (w : W) (i s : Nat) (q : Pin) (h : (put w i s q).2 = .ok) :
    (put w i s q).1 = (connect (addStruct w i).1 (i, s) q).1 ∧ (addStruct w i).2 = .ok := by
  rcases put_cases w i s q with h' | ⟨hok, he, _⟩
  · exact absurd h h'.2
  · exact ⟨by rw [he], hok⟩

/-- the put of a fresh object is accepted exactly when the three validations pass -/
theorem put_rejects_iff (w : W) (inv : WInv w) (i s : Nat) (q : Pin) (o : SObj) (ho : getObj w i = some o)
    (hfresh : i ∉ w.structs) (hconn : o.conn = []) :
    (put w i s q).2 = .ok ↔ (s ∈ o.pins ∧ q ∉ w.clist ∧ q ∈ w.free) := by
  have _ := hconn
  constructor
  · intro h
    rcases put_cases w i s q with h' | ⟨_, _, o', ho', hs, hqc, hqf⟩
    · exact absurd h h'.2
    · rw [ho] at ho'; cases ho'
      exact ⟨hs, hqc, hqf⟩
  · rintro ⟨hs, hqc, hqf⟩
    exact (put_fresh_ok w inv i s q o ho hfresh hs hqc hqf).1

/-- `put` preserves the invariant (any object, fresh or not) -/
theorem put_inv (w : W) (inv : WInv w) (i s : Nat) (q : Pin) : WInv (put w i s q).1 := by
  rcases put_cases w i s q with h | ⟨_, he, _⟩
  · rw [h.1]; exact inv
  · rw [he]; exact connect_inv _ (addStruct_inv w inv i) _ _

end Wiring
