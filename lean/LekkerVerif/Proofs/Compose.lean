import LekkerVerif.Model.Flatten
import LekkerVerif.Proofs.Rename

/-! The rename table computed by `flatten_top_level` acts like the two renamings applied one after the other
(general theorem, every pair of injective tables). -/

namespace Flatten

/-! ### lookups in tables with distinct names -/

theorem inj_of_nodup_map {α β : Type} (f : α → β) (l : List α) (nd : (l.map f).Nodup) (a b : α)
    (ha : a ∈ l) (hb : b ∈ l) (h : f a = f b) : a = b := by
  induction l with
  | nil => cases ha
  | cons c t ih =>
    rw [List.map_cons, List.nodup_cons] at nd
    rcases List.mem_cons.1 ha with rfl | ha' <;> rcases List.mem_cons.1 hb with rfl | hb'
    · rfl
    · exact absurd (List.mem_map.2 ⟨b, hb', h.symm⟩) nd.1
    · exact absurd (List.mem_map.2 ⟨a, ha', h⟩) nd.1
    · exact ih nd.2 ha' hb'

theorem find?_new_iff (m : Table) (hnew : (m.map (·.1)).Nodup) (x : String) (no : String × String) :
    m.find? (·.1 == x) = some no ↔ no ∈ m ∧ no.1 = x := by
  constructor
  · intro h
    exact ⟨List.mem_of_find?_eq_some h, by simpa using List.find?_some h⟩
  · rintro ⟨hmem, hx⟩
    cases hf : m.find? (·.1 == x) with
    | none =>
      rw [List.find?_eq_none] at hf
      exact absurd (by simpa using hx) (hf no hmem)
    | some no' =>
      have h1 := List.mem_of_find?_eq_some hf
      have h2 : no'.1 = x := by simpa using List.find?_some hf
      rw [inj_of_nodup_map (·.1) m hnew no' no h1 hmem (h2.trans hx.symm)]

theorem find?_new_none (m : Table) (x : String) : m.find? (·.1 == x) = none ↔ ∀ e ∈ m, e.1 ≠ x := by
  rw [List.find?_eq_none]
  constructor
  · intro h e he; simpa using h e he
  · intro h e he; simpa using h e he

/-- `simul` when exactly the entries with old name `x` carry the new name `k` -/
theorem simul_of_unique {V : Type} (T : Table) (d : Dict V) (x k : String)
    (hex : ∃ e ∈ T, e.2 = x) (huniq : ∀ e ∈ T, e.2 = x → e.1 = k) : simul T d x = d.get? k := by
  unfold simul
  cases hf : T.find? (·.2 == x) with
  | none =>
    obtain ⟨e, he, hx⟩ := hex
    rw [List.find?_eq_none] at hf
    exact absurd (by simpa using hx) (hf e he)
  | some no =>
    have h1 := List.mem_of_find?_eq_some hf
    have h2 : no.2 = x := by simpa using List.find?_some hf
    simp only [huniq no h1 h2]

theorem simul_of_absent {V : Type} (T : Table) (d : Dict V) (x : String)
    (h1 : ∀ e ∈ T, e.2 ≠ x) (h2 : ∀ e ∈ T, e.1 ≠ x) : simul T d x = d.get? x := by
  unfold simul
  have hf : T.find? (·.2 == x) = none := by
    rw [List.find?_eq_none]; intro e he; simpa using h1 e he
  have ha : T.any (·.1 == x) = false := by
    rw [List.any_eq_false]; intro e he; simpa using h2 e he
  simp [hf, ha]

/-! ### closed form of the two passes -/

/-- entries of the lower table whose middle name the parent does not rename -/
def lrestOf (P L : Table) : Table := L.filter (fun e => !(P.any (·.2 == e.1)))
/-- re-keyed entries: parent (top ↦ middle) over lower (middle ↦ bottom) gives (top ↦ bottom) -/
def rek (P L : Table) : Table := P.filterMap (fun pe => (L.find? (·.1 == pe.2)).map (fun le => (pe.1, le.2)))
/-- parent entries for middle names the lower structure neither renames nor shields -/
def passThrough (P L : Table) : Table :=
  P.filter fun pe => !((L.map (·.1)).contains pe.2) && !((L.map (·.2)).contains pe.2)

theorem lrestOf_nil (L : Table) : lrestOf [] L = L := by
  unfold lrestOf; simp

theorem pass1_step (L : Table) (P1 : Table) (pe : String × String) (hpe : pe.2 ∉ P1.map (·.2)) :
    pass1 (L.map (·.1)) (lrestOf P1 L, rek P1 L) pe = (lrestOf (P1 ++ [pe]) L, rek (P1 ++ [pe]) L) := by
  have hP1 : P1.any (·.2 == pe.2) = false := by
    rw [List.any_eq_false]; intro e he h
    exact hpe (List.mem_map.2 ⟨e, he, by simpa using h⟩)
  cases hf : L.find? (·.1 == pe.2) with
  | none =>
    have hno := (find?_new_none L pe.2).1 hf
    have hc : (L.map (·.1)).contains pe.2 = false := by
      rw [List.contains_eq_mem]; simp only [decide_eq_false_iff_not, List.mem_map, not_exists, not_and]
      intro e he; exact hno e he
    have e1 : lrestOf (P1 ++ [pe]) L = lrestOf P1 L := by
      unfold lrestOf
      apply List.filter_congr
      intro e he
      have : (pe.2 == e.1) = false := by simpa using fun h => hno e he h.symm
      simp [List.any_append, this]
    have e2 : rek (P1 ++ [pe]) L = rek P1 L := by
      unfold rek; simp [List.filterMap_append, hf]
    unfold pass1
    rw [hc, e1, e2]; rfl
  | some le =>
    have hle := List.mem_of_find?_eq_some hf
    have hle1 : le.1 = pe.2 := by simpa using List.find?_some hf
    have hc : (L.map (·.1)).contains pe.2 = true := by
      rw [List.contains_eq_mem]; simp only [decide_eq_true_eq]
      exact List.mem_map.2 ⟨le, hle, hle1⟩
    have hfind : (lrestOf P1 L).find? (·.1 == pe.2) = some le := by
      unfold lrestOf
      rw [List.find?_filter]
      have : (fun a : String × String => decide ((!(P1.any (·.2 == a.1))) = true ∧ (a.1 == pe.2) = true)) = (fun a => a.1 == pe.2) := by
        funext a
        by_cases ha : a.1 = pe.2
        · rw [ha, hP1]; simp
        · have : (a.1 == pe.2) = false := by simpa using ha
          simp [this]
      rw [this]; exact hf
    have e1 : (lrestOf P1 L).filter (fun e => !(e.1 == pe.2)) = lrestOf (P1 ++ [pe]) L := by
      unfold lrestOf
      rw [List.filter_filter]
      apply List.filter_congr
      intro e _
      simp only [List.any_append, List.any_cons, List.any_nil, Bool.or_false, Bool.not_or]
      rw [Bool.and_comm]
      congr 2
      exact Bool.eq_iff_iff.2 ⟨fun h => by simpa using (by simpa using h : e.1 = pe.2).symm, fun h => by simpa using (by simpa using h : pe.2 = e.1).symm⟩
    have e2 : rek (P1 ++ [pe]) L = rek P1 L ++ [(pe.1, le.2)] := by
      unfold rek; simp [List.filterMap_append, hf]
    unfold pass1
    rw [hc]
    simp only [↓reduceIte, hfind, e1, e2]

theorem pass1_fold (L : Table) : ∀ (P2 P1 : Table), ((P1 ++ P2).map (·.2)).Nodup →
    P2.foldl (pass1 (L.map (·.1))) (lrestOf P1 L, rek P1 L) = (lrestOf (P1 ++ P2) L, rek (P1 ++ P2) L) := by
  intro P2
  induction P2 with
  | nil => intro P1 _; simp
  | cons pe P2 ih =>
    intro P1 nd
    have hpe : pe.2 ∉ P1.map (·.2) := by
      rw [List.map_append, List.nodup_append] at nd
      intro h
      exact nd.2.2 pe.2 h pe.2 (by simp) rfl
    rw [List.foldl_cons, pass1_step L P1 pe hpe]
    have := ih (P1 ++ [pe]) (by rw [List.append_assoc]; exact nd)
    rw [this, List.append_assoc]; rfl

theorem upd_fold : ∀ (U acc : Table), (U.map (·.1)).Nodup → (∀ u ∈ U, ∀ a ∈ acc, a.1 ≠ u.1) →
    U.foldl upd acc = acc ++ U := by
  intro U
  induction U with
  | nil => intro acc _ _; simp
  | cons u U ih =>
    intro acc nd hd
    rw [List.map_cons, List.nodup_cons] at nd
    have hany : acc.any (·.1 == u.1) = false := by
      rw [List.any_eq_false]; intro a ha; simpa using hd u (by simp) a ha
    rw [List.foldl_cons]
    have : upd acc u = acc ++ [u] := by unfold upd; rw [hany]; rfl
    rw [this, ih (acc ++ [u]) nd.2]
    · simp
    · intro u' hu' a ha
      rcases List.mem_append.1 ha with ha | ha
      · exact hd u' (List.mem_cons_of_mem _ hu') a ha
      · have : a = u := by simpa using ha
        subst this
        intro e; exact nd.1 (List.mem_map.2 ⟨u', hu', e.symm⟩)


theorem mem_rek (P L : Table) (e : String × String) :
    e ∈ rek P L ↔ ∃ pe ∈ P, ∃ le, L.find? (·.1 == pe.2) = some le ∧ e = (pe.1, le.2) := by
  unfold rek
  rw [List.mem_filterMap]
  constructor
  · rintro ⟨pe, hpe, h⟩
    cases hf : L.find? (·.1 == pe.2) with
    | none => rw [hf] at h; cases h
    | some le =>
      rw [hf] at h
      simp only [Option.map_some, Option.some.injEq] at h
      exact ⟨pe, hpe, le, hf, h.symm⟩
  · rintro ⟨pe, hpe, le, hf, rfl⟩
    exact ⟨pe, hpe, by rw [hf]; rfl⟩

theorem mem_passThrough (P L : Table) (e : String × String) :
    e ∈ passThrough P L ↔ e ∈ P ∧ e.2 ∉ L.map (·.1) ∧ e.2 ∉ L.map (·.2) := by
  unfold passThrough
  rw [List.mem_filter]
  simp only [List.contains_eq_mem, Bool.and_eq_true, Bool.not_eq_true', decide_eq_false_iff_not]

theorem mem_lrestOf (P L : Table) (e : String × String) :
    e ∈ lrestOf P L ↔ e ∈ L ∧ e.1 ∉ P.map (·.2) := by
  unfold lrestOf
  rw [List.mem_filter]
  simp only [Bool.not_eq_true', List.any_eq_false, beq_iff_eq, List.mem_map, not_exists, not_and]

theorem rek_keys_sublist (P L : Table) : ((rek P L).map (·.1)).Sublist (P.map (·.1)) := by
  induction P with
  | nil => simp [rek]
  | cons pe P ih =>
    unfold rek at ih ⊢
    rw [List.filterMap_cons]
    cases L.find? (·.1 == pe.2) with
    | none => simp only [Option.map_none, List.map_cons]; exact List.Sublist.cons _ ih
    | some le => simp only [Option.map_some, List.map_cons]; exact List.Sublist.cons_cons _ ih

/-- the table `flatten_top_level` computes, in closed form, when the parent's new names do not collide with
names the lower structure makes visible (injective renaming) -/
theorem composeTables_closed (P L : Table) (hPo : (P.map (·.2)).Nodup) (hPn : (P.map (·.1)).Nodup)
    (hinj : ∀ t ∈ P.map (·.1), t ∈ L.map (·.1) → t ∈ P.map (·.2)) :
    composeTables P L = lrestOf P L ++ (rek P L ++ passThrough P L) := by
  have hfold := pass1_fold L P [] (by simpa using hPo)
  rw [lrestOf_nil, show rek [] L = [] from rfl, List.nil_append] at hfold
  -- keys of the lower remainder never meet the parent's new names
  have hdis : ∀ pe ∈ P, ∀ a ∈ lrestOf P L, a.1 ≠ pe.1 := by
    intro pe hpe a ha e
    obtain ⟨haL, hnot⟩ := (mem_lrestOf P L a).1 ha
    exact hnot (e ▸ hinj pe.1 (List.mem_map.2 ⟨pe, hpe, rfl⟩) (e ▸ List.mem_map.2 ⟨a, haL, rfl⟩))
  have hup2 : (P.filter fun pe => !((L.map (·.1)).contains pe.2) && !((L.map (·.2)).contains pe.2)
      && !((lrestOf P L).any (·.1 == pe.1))) = passThrough P L := by
    unfold passThrough
    apply List.filter_congr
    intro pe hpe
    have : (lrestOf P L).any (·.1 == pe.1) = false := by
      rw [List.any_eq_false]; intro a ha; simpa using hdis pe hpe a ha
    rw [this]; simp
  unfold composeTables
  simp only [hfold, hup2]
  apply upd_fold
  · -- keys of the update are distinct
    rw [List.map_append, List.nodup_append]
    refine ⟨(rek_keys_sublist P L).nodup hPn, ((List.filter_sublist).map _).nodup hPn, ?_⟩
    intro k hk k' hk' e
    subst e
    obtain ⟨u, hu, rfl⟩ := List.mem_map.1 hk
    obtain ⟨u', hu', hkk⟩ := List.mem_map.1 hk'
    obtain ⟨pe, hpe, le, hf, rfl⟩ := (mem_rek P L u).1 hu
    obtain ⟨hu'P, hn, _⟩ := (mem_passThrough P L u').1 hu'
    have : u' = pe := inj_of_nodup_map (·.1) P hPn u' pe hu'P hpe hkk
    subst this
    have hle := List.mem_of_find?_eq_some hf
    have hle1 : le.1 = u'.2 := by simpa using List.find?_some hf
    exact hn (List.mem_map.2 ⟨le, hle, hle1⟩)
  · intro u hu a ha
    rcases List.mem_append.1 hu with hu | hu
    · obtain ⟨pe, hpe, le, _, rfl⟩ := (mem_rek P L u).1 hu
      exact hdis pe hpe a ha
    · exact hdis u ((mem_passThrough P L u).1 hu).1 a ha

/-- the name under which the bottom parameter `x` of a structure placed with table `L` is visible one level up -/
def midName (L : Table) (x : String) : Option String :=
  match L.find? (·.2 == x) with
  | some e => some e.1
  | none => if L.any (·.1 == x) then none else some x

/-- **composition of rename tables**: for injective tables, the table computed by `flatten_top_level` gives every
visible bottom parameter exactly the value the two renamings applied one after the other give it, for every
dictionary of top-level values -/
theorem compose_simul {V : Type} (P L : Table) (d : Dict V)
    (hPo : (P.map (·.2)).Nodup) (hPn : (P.map (·.1)).Nodup) (hLo : (L.map (·.2)).Nodup) (hLn : (L.map (·.1)).Nodup)
    (hinj : ∀ t ∈ P.map (·.1), t ∈ L.map (·.1) → t ∈ P.map (·.2))
    (x m : String) (hm : midName L x = some m) (hx : m ∈ P.map (·.1) → m ∈ P.map (·.2)) :
    simul (composeTables P L) d x = simul P d m := by
  rw [composeTables_closed P L hPo hPn hinj]
  unfold midName at hm
  cases hfL : L.find? (·.2 == x) with
  | some le =>
    -- x is renamed by the lower structure: le = (m, x)
    rw [hfL] at hm
    have hm' : le.1 = m := by simpa using hm
    obtain ⟨hleL, hle2⟩ := (find?_old_iff L hLo x le).1 hfL
    cases hfP : P.find? (·.2 == m) with
    | some pe =>
      obtain ⟨hpeP, hpe2⟩ := (find?_old_iff P hPo m pe).1 hfP
      have hR : simul P d m = d.get? pe.1 := by unfold simul; rw [hfP]
      rw [hR]
      have hfind : L.find? (·.1 == pe.2) = some le := (find?_new_iff L hLn pe.2 le).2 ⟨hleL, hm'.trans hpe2.symm⟩
      apply simul_of_unique
      · exact ⟨(pe.1, le.2), List.mem_append_right _ (List.mem_append_left _ ((mem_rek P L _).2 ⟨pe, hpeP, le, hfind, rfl⟩)), hle2⟩
      · intro e he hex
        rcases List.mem_append.1 he with he | he
        · exfalso
          obtain ⟨heL, hnot⟩ := (mem_lrestOf P L e).1 he
          have : e = le := inj_of_nodup_map (·.2) L hLo e le heL hleL (hex.trans hle2.symm)
          subst this
          exact hnot (List.mem_map.2 ⟨pe, hpeP, hpe2.trans hm'.symm⟩)
        · rcases List.mem_append.1 he with he | he
          · obtain ⟨pe', hpe', le', hf', rfl⟩ := (mem_rek P L e).1 he
            obtain ⟨hle'L, hle'1⟩ := (find?_new_iff L hLn pe'.2 le').1 hf'
            have h1 : le' = le := inj_of_nodup_map (·.2) L hLo le' le hle'L hleL (hex.trans hle2.symm)
            subst h1
            have h2 : pe' = pe := inj_of_nodup_map (·.2) P hPo pe' pe hpe' hpeP (hle'1.symm.trans (hm'.trans hpe2.symm))
            rw [h2]
          · exfalso
            obtain ⟨_, _, hno⟩ := (mem_passThrough P L e).1 he
            exact hno (List.mem_map.2 ⟨le, hleL, hle2.trans hex.symm⟩)
    | none =>
      have hnoP : ∀ pe ∈ P, pe.2 ≠ m := by
        rw [List.find?_eq_none] at hfP; intro pe hpe; simpa using hfP pe hpe
      have hmP : m ∉ P.map (·.2) := by
        intro h; obtain ⟨pe, hpe, e⟩ := List.mem_map.1 h; exact hnoP pe hpe e
      have hmN : ∀ pe ∈ P, pe.1 ≠ m := by
        intro pe hpe e; exact hmP (hx (List.mem_map.2 ⟨pe, hpe, e⟩))
      have hR : simul P d m = d.get? m := simul_of_absent P d m hnoP hmN
      rw [hR]
      apply simul_of_unique
      · exact ⟨le, List.mem_append_left _ ((mem_lrestOf P L le).2 ⟨hleL, by rw [hm']; exact hmP⟩), hle2⟩
      · intro e he hex
        rcases List.mem_append.1 he with he | he
        · obtain ⟨heL, _⟩ := (mem_lrestOf P L e).1 he
          rw [inj_of_nodup_map (·.2) L hLo e le heL hleL (hex.trans hle2.symm)]; exact hm'
        · exfalso
          rcases List.mem_append.1 he with he | he
          · obtain ⟨pe', hpe', le', hf', rfl⟩ := (mem_rek P L e).1 he
            obtain ⟨hle'L, hle'1⟩ := (find?_new_iff L hLn pe'.2 le').1 hf'
            have h1 : le' = le := inj_of_nodup_map (·.2) L hLo le' le hle'L hleL (hex.trans hle2.symm)
            subst h1
            exact hnoP pe' hpe' (hle'1.symm.trans hm')
          · obtain ⟨_, _, hno⟩ := (mem_passThrough P L e).1 he
            exact hno (List.mem_map.2 ⟨le, hleL, hle2.trans hex.symm⟩)
  | none =>
    -- x passes through the lower structure unrenamed: m = x
    rw [hfL] at hm
    have hnoL : ∀ e ∈ L, e.2 ≠ x := by
      rw [List.find?_eq_none] at hfL; intro e he; simpa using hfL e he
    have hxL2 : x ∉ L.map (·.2) := by
      intro h; obtain ⟨e, he, ee⟩ := List.mem_map.1 h; exact hnoL e he ee
    cases hany : L.any (·.1 == x) with
    | true => rw [hany] at hm; simp at hm
    | false =>
      rw [hany] at hm
      have hmx : x = m := by simpa using hm
      subst hmx
      have hxL1 : x ∉ L.map (·.1) := by
        intro h; obtain ⟨e, he, ee⟩ := List.mem_map.1 h
        have := List.any_eq_false.1 hany e he
        exact this (by simpa using ee)
      cases hfP : P.find? (·.2 == x) with
      | some pe =>
        obtain ⟨hpeP, hpe2⟩ := (find?_old_iff P hPo x pe).1 hfP
        have hR : simul P d x = d.get? pe.1 := by unfold simul; rw [hfP]
        rw [hR]
        apply simul_of_unique
        · exact ⟨pe, List.mem_append_right _ (List.mem_append_right _ ((mem_passThrough P L pe).2 ⟨hpeP, by rw [hpe2]; exact hxL1, by rw [hpe2]; exact hxL2⟩)), hpe2⟩
        · intro e he hex
          rcases List.mem_append.1 he with he | he
          · exfalso; exact hnoL e ((mem_lrestOf P L e).1 he).1 hex
          · rcases List.mem_append.1 he with he | he
            · exfalso
              obtain ⟨pe', _, le', hf', rfl⟩ := (mem_rek P L e).1 he
              exact hnoL le' (List.mem_of_find?_eq_some hf') hex
            · obtain ⟨heP, _, _⟩ := (mem_passThrough P L e).1 he
              rw [inj_of_nodup_map (·.2) P hPo e pe heP hpeP (hex.trans hpe2.symm)]
      | none =>
        have hnoP : ∀ pe ∈ P, pe.2 ≠ x := by
          rw [List.find?_eq_none] at hfP; intro pe hpe; simpa using hfP pe hpe
        have hxP : x ∉ P.map (·.2) := by
          intro h; obtain ⟨pe, hpe, e⟩ := List.mem_map.1 h; exact hnoP pe hpe e
        have hxN : ∀ pe ∈ P, pe.1 ≠ x := by
          intro pe hpe e; exact hxP (hx (List.mem_map.2 ⟨pe, hpe, e⟩))
        rw [simul_of_absent P d x hnoP hxN]
        apply simul_of_absent
        · intro e he
          rcases List.mem_append.1 he with he | he
          · exact hnoL e ((mem_lrestOf P L e).1 he).1
          · rcases List.mem_append.1 he with he | he
            · obtain ⟨pe', _, le', hf', rfl⟩ := (mem_rek P L e).1 he
              exact hnoL le' (List.mem_of_find?_eq_some hf')
            · exact hnoP e ((mem_passThrough P L e).1 he).1
        · intro e he
          rcases List.mem_append.1 he with he | he
          · intro ee; exact hxL1 (List.mem_map.2 ⟨e, ((mem_lrestOf P L e).1 he).1, ee⟩)
          · rcases List.mem_append.1 he with he | he
            · obtain ⟨pe', hpe', le', _, rfl⟩ := (mem_rek P L e).1 he
              exact hxN pe' hpe'
            · exact hxN e ((mem_passThrough P L e).1 he).1


theorem rek_olds_nodup (L : Table) (hLo : (L.map (·.2)).Nodup) (hLn : (L.map (·.1)).Nodup) :
    ∀ P : Table, (P.map (·.2)).Nodup → ((rek P L).map (·.2)).Nodup := by
  intro P
  induction P with
  | nil => intro _; simp [rek]
  | cons pe P ih =>
    intro nd
    rw [List.map_cons, List.nodup_cons] at nd
    have ihP := ih nd.2
    have hcons : rek (pe :: P) L = (match L.find? (·.1 == pe.2) with
        | some le => [(pe.1, le.2)] | none => []) ++ rek P L := by
      unfold rek; rw [List.filterMap_cons]; cases L.find? (·.1 == pe.2) <;> rfl
    rw [hcons]
    cases hf : L.find? (·.1 == pe.2) with
    | none => simpa using ihP
    | some le =>
      simp only [List.cons_append, List.nil_append, List.map_cons, List.nodup_cons]
      refine ⟨?_, ihP⟩
      intro hmem
      obtain ⟨e, he, hee⟩ := List.mem_map.1 hmem
      obtain ⟨pe', hpe', le', hf', rfl⟩ := (mem_rek P L e).1 he
      obtain ⟨hleL, hle1⟩ := (find?_new_iff L hLn pe.2 le).1 hf
      obtain ⟨hle'L, hle'1⟩ := (find?_new_iff L hLn pe'.2 le').1 hf'
      have : le' = le := inj_of_nodup_map (·.2) L hLo le' le hle'L hleL hee
      subst this
      exact nd.1 (List.mem_map.2 ⟨pe', hpe', hle'1.symm.trans hle1⟩)

/-- the composed table again has distinct old names (so `Structure.update_params` applies it as a simultaneous substitution) -/
theorem compose_olds_nodup (P L : Table) (hPo : (P.map (·.2)).Nodup) (hPn : (P.map (·.1)).Nodup)
    (hLo : (L.map (·.2)).Nodup) (hLn : (L.map (·.1)).Nodup)
    (hinj : ∀ t ∈ P.map (·.1), t ∈ L.map (·.1) → t ∈ P.map (·.2)) :
    ((composeTables P L).map (·.2)).Nodup := by
  rw [composeTables_closed P L hPo hPn hinj, List.map_append, List.map_append]
  have n1 : ((lrestOf P L).map (·.2)).Nodup := ((List.filter_sublist).map _).nodup hLo
  have n2 := rek_olds_nodup L hLo hLn P hPo
  have n3 : ((passThrough P L).map (·.2)).Nodup := ((List.filter_sublist).map _).nodup hPo
  refine List.nodup_append.2 ⟨n1, List.nodup_append.2 ⟨n2, n3, ?_⟩, ?_⟩
  · intro a ha b hb e
    subst e
    obtain ⟨u, hu, rfl⟩ := List.mem_map.1 ha
    obtain ⟨u', hu', hkk⟩ := List.mem_map.1 hb
    obtain ⟨pe, _, le, hf, rfl⟩ := (mem_rek P L u).1 hu
    obtain ⟨_, _, hno⟩ := (mem_passThrough P L u').1 hu'
    exact hno (List.mem_map.2 ⟨le, List.mem_of_find?_eq_some hf, hkk.symm⟩)
  · intro a ha b hb e
    subst e
    obtain ⟨u, hu, rfl⟩ := List.mem_map.1 ha
    obtain ⟨huL, hnot⟩ := (mem_lrestOf P L u).1 hu
    rcases List.mem_append.1 hb with hb | hb
    · obtain ⟨u', hu', hkk⟩ := List.mem_map.1 hb
      obtain ⟨pe, hpe, le, hf, rfl⟩ := (mem_rek P L u').1 hu'
      obtain ⟨hleL, hle1⟩ := (find?_new_iff L hLn pe.2 le).1 hf
      have : le = u := inj_of_nodup_map (·.2) L hLo le u hleL huL hkk
      subst this
      exact hnot (List.mem_map.2 ⟨pe, hpe, hle1.symm⟩)
    · obtain ⟨u', hu', hkk⟩ := List.mem_map.1 hb
      obtain ⟨_, _, hno⟩ := (mem_passThrough P L u').1 hu'
      exact hno (List.mem_map.2 ⟨u, huL, hkk.symm⟩)

/-- the two-step renaming, for a visible bottom parameter -/
theorem two_step_simul {V : Type} (P L : Table) (d : Dict V) (hPo : (P.map (·.2)).Nodup) (hLo : (L.map (·.2)).Nodup)
    (x m : String) (hm : midName L x = some m) :
    (renameFixed L (renameFixed P d)).get? x = simul P d m := by
  rw [renameFixed_spec L _ hLo]
  unfold simul midName at *
  cases hfL : L.find? (·.2 == x) with
  | some le =>
    rw [hfL] at hm
    have : le.1 = m := by simpa using hm
    simp only [this]
    exact renameFixed_spec P d hPo m
  | none =>
    rw [hfL] at hm
    cases hany : L.any (·.1 == x) with
    | true => rw [hany] at hm; simp at hm
    | false =>
      rw [hany] at hm
      have : x = m := by simpa using hm
      subst this
      simp only [Bool.false_eq_true, ↓reduceIte]
      exact renameFixed_spec P d hPo x

/-- **flatten composes rename tables correctly**: for every pair of injective tables (parent `P` over lower `L`),
every dictionary of top-level values and every bottom parameter visible one level up, the single table written by
`flatten_top_level` hands the placed model the same value as the two nested renamings -/
theorem compose_general {V : Type} (P L : Table) (d : Dict V)
    (hPo : (P.map (·.2)).Nodup) (hPn : (P.map (·.1)).Nodup) (hLo : (L.map (·.2)).Nodup) (hLn : (L.map (·.1)).Nodup)
    (hinj : ∀ t ∈ P.map (·.1), t ∈ L.map (·.1) → t ∈ P.map (·.2))
    (x m : String) (hm : midName L x = some m) (hx : m ∈ P.map (·.1) → m ∈ P.map (·.2)) :
    (renameFixed (composeTables P L) d).get? x = (renameFixed L (renameFixed P d)).get? x := by
  rw [renameFixed_spec _ d (compose_olds_nodup P L hPo hPn hLo hLn hinj), two_step_simul P L d hPo hLo x m hm]
  exact compose_simul P L d hPo hPn hLo hLn hinj x m hm hx

end Flatten
